/-
  7 (preparation).  `roundAt` as a mathematical rounding of s = q/10^e to a natural number, the
  shape of `roundTo`, and how members of the format sit relative to the grid at the spacing exponent.

  * `roundAt_def`, `roundAt_toZero` (= ⌊s⌋₊), `roundAt_awayFromZero` (= ⌈s⌉₊), `roundAt_toNegInf`,
    `roundAt_toPosInf` (floor/ceil by sign), `roundAt_nearestEven`, `roundAt_nearestAway` (explicit
    conditions on the fraction s - ⌊s⌋₊)
  * `isDown`, `isUp`, `isNearest` (classification of mode+sign), `mode_cases`, `roundAt_of_isDown`,
    `roundAt_of_isUp`, `roundAt_nearest`, `floor_le_roundAt`, `roundAt_le_floor_add_one`,
    `roundAt_le_ceil`
  * `roundTo_unfold`, `spacingExp_spec`, `roundAt_le_Cmax_succ`, `roundTo_cases` (±Inf exactly when
    the rounded coefficient does not fit at or below Emax; otherwise a member with magnitude
    roundAt·10^spacingExp; renormalisation only for Cmax+1 = 10·2^110)
  * `Member x` (x = c·10^e, c ≤ Cmax, Emin ≤ e ≤ Emax), `scaled_nat`, `member_below`,
    `member_le_floor`, `ceil_le_member`
-/
import D128.Proofs.SpecRoundScale
namespace SpecRound
open Spec

/-! ## 7. roundAt -/

theorem ceil_of_frac_zero {s : Rat} (h : s - (⌊s⌋₊ : Rat) = 0) : ⌈s⌉₊ = ⌊s⌋₊ := by
  have : s = (⌊s⌋₊ : Rat) := by linarith
  conv_lhs => rw [this]
  exact Nat.ceil_natCast _

theorem ceil_of_frac_ne {s : Rat} (hs : 0 ≤ s) (h : s - (⌊s⌋₊ : Rat) ≠ 0) : ⌈s⌉₊ = ⌊s⌋₊ + 1 := by
  rw [Nat.ceil_eq_iff (by omega)]
  have h1 := Nat.floor_le hs
  have h2 := Nat.lt_floor_add_one s
  constructor
  · simp only [Nat.add_sub_cancel]
    exact lt_of_le_of_ne h1 (fun hh => h (by linarith))
  · push_cast; linarith

/-- rounding `s ≥ 0` to a natural number in mode `m` — the mathematical content of `roundAt` -/
theorem roundAt_def (m : Mode) (neg : Bool) (q : Rat) (hq : 0 ≤ q) (e : Int) :
    Spec.roundAt m neg q e =
      if Spec.roundsUp m neg (⌊q / (10 : Rat) ^ e⌋₊ % 2 == 1) (splitOf (q / (10 : Rat) ^ e)).2.1
          (splitOf (q / (10 : Rat) ^ e)).2.2
      then ⌊q / (10 : Rat) ^ e⌋₊ + 1 else ⌊q / (10 : Rat) ^ e⌋₊ := by
  unfold Spec.roundAt
  rw [splitAt_eq_splitOf q hq e]
  rfl

theorem roundAt_toZero (neg : Bool) (q : Rat) (hq : 0 ≤ q) (e : Int) :
    Spec.roundAt .toZero neg q e = ⌊q / (10 : Rat) ^ e⌋₊ := by
  rw [roundAt_def _ _ _ hq]; simp [Spec.roundsUp]

theorem roundAt_awayFromZero (neg : Bool) (q : Rat) (hq : 0 ≤ q) (e : Int) :
    Spec.roundAt .awayFromZero neg q e = ⌈q / (10 : Rat) ^ e⌉₊ := by
  rw [roundAt_def _ _ _ hq]
  have hs : 0 ≤ q / (10 : Rat) ^ e := div_nonneg hq (zpow_pos (by norm_num) _).le
  generalize q / (10 : Rat) ^ e = s at *
  obtain ⟨-, -, -, -, h5⟩ := splitOf_spec s
  unfold Spec.roundsUp
  by_cases hf : s - (⌊s⌋₊ : Rat) = 0
  · rw [h5.2 hf, ceil_of_frac_zero hf]; simp
  · have : (splitOf s).2.2 = false := by rw [Bool.eq_false_iff, ne_eq, h5]; exact hf
    rw [this, ceil_of_frac_ne hs hf]; simp

theorem roundAt_toNegInf (neg : Bool) (q : Rat) (hq : 0 ≤ q) (e : Int) :
    Spec.roundAt .toNegInf neg q e =
      if neg then ⌈q / (10 : Rat) ^ e⌉₊ else ⌊q / (10 : Rat) ^ e⌋₊ := by
  cases neg
  · rw [← roundAt_toZero false q hq e, roundAt_def _ _ _ hq, roundAt_def _ _ _ hq]
    simp [Spec.roundsUp]
  · rw [← roundAt_awayFromZero true q hq e, roundAt_def _ _ _ hq, roundAt_def _ _ _ hq]
    simp [Spec.roundsUp]

theorem roundAt_toPosInf (neg : Bool) (q : Rat) (hq : 0 ≤ q) (e : Int) :
    Spec.roundAt .toPosInf neg q e =
      if neg then ⌊q / (10 : Rat) ^ e⌋₊ else ⌈q / (10 : Rat) ^ e⌉₊ := by
  cases neg
  · rw [← roundAt_awayFromZero false q hq e, roundAt_def _ _ _ hq, roundAt_def _ _ _ hq]
    simp [Spec.roundsUp]
  · rw [← roundAt_toZero true q hq e, roundAt_def _ _ _ hq, roundAt_def _ _ _ hq]
    simp [Spec.roundsUp]

theorem roundAt_nearestEven (neg : Bool) (q : Rat) (hq : 0 ≤ q) (e : Int) :
    Spec.roundAt .nearestEven neg q e =
      if 1 / 2 < q / (10 : Rat) ^ e - (⌊q / (10 : Rat) ^ e⌋₊ : Rat) ∨
         (q / (10 : Rat) ^ e - (⌊q / (10 : Rat) ^ e⌋₊ : Rat) = 1 / 2 ∧ ⌊q / (10 : Rat) ^ e⌋₊ % 2 = 1)
      then ⌊q / (10 : Rat) ^ e⌋₊ + 1 else ⌊q / (10 : Rat) ^ e⌋₊ := by
  rw [roundAt_def _ _ _ hq]
  generalize q / (10 : Rat) ^ e = s
  obtain ⟨-, h2, h3, h4, -⟩ := splitOf_spec s
  unfold Spec.roundsUp
  cases hh : (splitOf s).2.1
  · have hf := h2.1 hh
    have n1 : ¬ (1 / 2 < s - (⌊s⌋₊ : Rat)) := not_lt.2 hf.le
    have n2 : ¬ (s - (⌊s⌋₊ : Rat) = 1 / 2) := ne_of_lt hf
    have n : ¬ (1 / 2 < s - (⌊s⌋₊ : Rat) ∨ (s - (⌊s⌋₊ : Rat) = 1 / 2 ∧ ⌊s⌋₊ % 2 = 1)) := by
      rintro (h | ⟨h, -⟩)
      · exact n1 h
      · exact n2 h
    rw [if_neg n]; simp
  · have hf := h3.1 hh
    have n1 : ¬ (1 / 2 < s - (⌊s⌋₊ : Rat)) := by rw [hf]; exact lt_irrefl _
    by_cases hodd : ⌊s⌋₊ % 2 = 1
    · rw [if_pos (Or.inr ⟨hf, hodd⟩)]; simp [hodd]
    · have n : ¬ (1 / 2 < s - (⌊s⌋₊ : Rat) ∨ (s - (⌊s⌋₊ : Rat) = 1 / 2 ∧ ⌊s⌋₊ % 2 = 1)) := by
        rintro (h | ⟨-, h⟩)
        · exact n1 h
        · exact hodd h
      rw [if_neg n]; simp [hodd]
  · have hf := h4.1 hh
    rw [if_pos (Or.inl hf)]; simp

theorem roundAt_nearestAway (neg : Bool) (q : Rat) (hq : 0 ≤ q) (e : Int) :
    Spec.roundAt .nearestAway neg q e =
      if 1 / 2 ≤ q / (10 : Rat) ^ e - (⌊q / (10 : Rat) ^ e⌋₊ : Rat)
      then ⌊q / (10 : Rat) ^ e⌋₊ + 1 else ⌊q / (10 : Rat) ^ e⌋₊ := by
  rw [roundAt_def _ _ _ hq]
  generalize q / (10 : Rat) ^ e = s
  obtain ⟨-, h2, h3, h4, -⟩ := splitOf_spec s
  unfold Spec.roundsUp
  cases hh : (splitOf s).2.1
  · have hf := h2.1 hh
    rw [if_neg (not_le.2 hf)]; simp
  · have hf := h3.1 hh
    rw [if_pos hf.ge]; simp
  · have hf := h4.1 hh
    rw [if_pos hf.le]; simp


/-- modes (with sign) that truncate the magnitude -/
def isDown (m : Mode) (neg : Bool) : Bool :=
  match m with | .toZero => true | .toNegInf => !neg | .toPosInf => neg | _ => false
/-- modes (with sign) that round the magnitude up when inexact -/
def isUp (m : Mode) (neg : Bool) : Bool :=
  match m with | .awayFromZero => true | .toNegInf => neg | .toPosInf => !neg | _ => false
/-- round-to-nearest modes -/
def isNearest (m : Mode) : Bool :=
  match m with | .nearestEven => true | .nearestAway => true | _ => false

theorem mode_cases (m : Mode) (neg : Bool) : isDown m neg = true ∨ isUp m neg = true ∨ isNearest m = true := by
  cases m <;> cases neg <;> simp [isDown, isUp, isNearest]

theorem roundAt_of_isDown {m : Mode} {neg : Bool} (h : isDown m neg = true) (q : Rat) (hq : 0 ≤ q)
    (e : Int) : Spec.roundAt m neg q e = ⌊q / (10 : Rat) ^ e⌋₊ := by
  cases m <;> cases neg <;> simp [isDown] at h
  all_goals first
    | exact roundAt_toZero _ q hq e
    | (rw [roundAt_toNegInf _ q hq e]; rfl)
    | (rw [roundAt_toPosInf _ q hq e]; rfl)

theorem roundAt_of_isUp {m : Mode} {neg : Bool} (h : isUp m neg = true) (q : Rat) (hq : 0 ≤ q)
    (e : Int) : Spec.roundAt m neg q e = ⌈q / (10 : Rat) ^ e⌉₊ := by
  cases m <;> cases neg <;> simp [isUp] at h
  all_goals first
    | exact roundAt_awayFromZero _ q hq e
    | (rw [roundAt_toNegInf _ q hq e]; rfl)
    | (rw [roundAt_toPosInf _ q hq e]; rfl)

theorem floor_le_roundAt (m : Mode) (neg : Bool) (q : Rat) (hq : 0 ≤ q) (e : Int) :
    ⌊q / (10 : Rat) ^ e⌋₊ ≤ Spec.roundAt m neg q e := by
  rw [roundAt_def _ _ _ hq]; split <;> omega

theorem roundAt_le_floor_add_one (m : Mode) (neg : Bool) (q : Rat) (hq : 0 ≤ q) (e : Int) :
    Spec.roundAt m neg q e ≤ ⌊q / (10 : Rat) ^ e⌋₊ + 1 := by
  rw [roundAt_def _ _ _ hq]; split <;> omega

/-- what the two nearest modes have in common -/
theorem roundAt_nearest {m : Mode} (hm : isNearest m = true) (neg : Bool) (q : Rat) (hq : 0 ≤ q)
    (e : Int) :
    (Spec.roundAt m neg q e = ⌊q / (10 : Rat) ^ e⌋₊ ∧
        q / (10 : Rat) ^ e - (⌊q / (10 : Rat) ^ e⌋₊ : Rat) ≤ 1 / 2) ∨
    (Spec.roundAt m neg q e = ⌊q / (10 : Rat) ^ e⌋₊ + 1 ∧
        1 / 2 ≤ q / (10 : Rat) ^ e - (⌊q / (10 : Rat) ^ e⌋₊ : Rat)) := by
  cases m <;> simp [isNearest] at hm
  · rw [roundAt_nearestEven _ q hq e]
    split
    · rename_i h
      right; refine ⟨rfl, ?_⟩
      rcases h with h | ⟨h, -⟩
      · exact h.le
      · exact h.ge
    · rename_i h
      left; refine ⟨rfl, ?_⟩
      by_contra hc
      exact h (Or.inl (not_le.1 hc))
  · rw [roundAt_nearestAway _ q hq e]
    split
    · rename_i h; right; exact ⟨rfl, h⟩
    · rename_i h; left; exact ⟨rfl, (not_le.1 h).le⟩

theorem roundAt_le_ceil (m : Mode) (neg : Bool) (q : Rat) (hq : 0 ≤ q) (e : Int) :
    Spec.roundAt m neg q e ≤ ⌈q / (10 : Rat) ^ e⌉₊ := by
  have hs : 0 ≤ q / (10 : Rat) ^ e := div_nonneg hq (zpow_pos (by norm_num) _).le
  rcases mode_cases m neg with h | h | h
  · rw [roundAt_of_isDown h q hq e]; exact Nat.floor_le_ceil _
  · rw [roundAt_of_isUp h q hq e]
  · rcases roundAt_nearest h neg q hq e with ⟨h1, -⟩ | ⟨h1, h2⟩
    · rw [h1]; exact Nat.floor_le_ceil _
    · rw [h1, ceil_of_frac_ne hs (by intro h0; rw [h0] at h2; norm_num at h2)]


/-! ## 7. roundTo -/

theorem Cmax_succ : Spec.Cmax + 1 = 10 * 2 ^ 110 := by unfold Spec.Cmax; norm_num

theorem abs_fin (n : Bool) (c : Nat) (e : Int) : (Spec.Val.fin n c e).abs = (c : Rat) * (10 : Rat) ^ e := by
  simp [Spec.Val.abs, Spec.mag, pow10_eq_zpow]

theorem roundTo_unfold (m : Mode) (neg : Bool) (q : Rat) :
    Spec.roundTo m neg q =
      if Spec.roundAt m neg q (Spec.spacingExp q) ≤ Spec.Cmax then
        (if Spec.spacingExp q ≤ Spec.Emax then
          .fin neg (Spec.roundAt m neg q (Spec.spacingExp q)) (Spec.spacingExp q) else .inf neg)
      else
        (if Spec.spacingExp q + 1 ≤ Spec.Emax then
          .fin neg (Spec.roundAt m neg q (Spec.spacingExp q) / 10) (Spec.spacingExp q + 1)
         else .inf neg) := by
  unfold Spec.roundTo Spec.roundToS Spec.spacingExp
  simp only [sub_zero]
  split_ifs <;> simp_all <;> omega


theorem spacingExp_spec (q : Rat) (hq : 0 < q) :
    Spec.Emin ≤ Spec.spacingExp q ∧ coef q (Spec.spacingExp q) ≤ Spec.Cmax ∧
    (Spec.Emin < Spec.spacingExp q → Spec.Cmax < coef q (Spec.spacingExp q - 1)) := by
  have := spacingExpS_spec q hq 0
  simpa [Spec.spacingExp] using this

theorem roundAt_le_Cmax_succ (m : Mode) (neg : Bool) (q : Rat) (hq : 0 < q) :
    Spec.roundAt m neg q (Spec.spacingExp q) ≤ Spec.Cmax + 1 := by
  have h1 := roundAt_le_floor_add_one m neg q hq.le (Spec.spacingExp q)
  have h2 := (spacingExp_spec q hq).2.1
  unfold coef at h2
  omega

/-- the shape of the result: ±Inf exactly when the rounded coefficient does not fit below Emax,
    otherwise a member of the format whose magnitude is `roundAt … · 10^spacingExp` -/
theorem roundTo_cases (m : Mode) (neg : Bool) (q : Rat) (hq : 0 < q) :
    (Spec.roundTo m neg q = .inf neg ∧
      (Spec.Emax < Spec.spacingExp q ∨
        (Spec.spacingExp q = Spec.Emax ∧ Spec.roundAt m neg q (Spec.spacingExp q) = Spec.Cmax + 1))) ∨
    ∃ c e, Spec.roundTo m neg q = .fin neg c e ∧ c ≤ Spec.Cmax ∧ Spec.Emin ≤ e ∧ e ≤ Spec.Emax ∧
      (c : Rat) * (10 : Rat) ^ e =
        (Spec.roundAt m neg q (Spec.spacingExp q) : Rat) * (10 : Rat) ^ (Spec.spacingExp q) ∧
      ((e = Spec.spacingExp q ∧ c = Spec.roundAt m neg q (Spec.spacingExp q)) ∨
       (e = Spec.spacingExp q + 1 ∧ Spec.roundAt m neg q (Spec.spacingExp q) = Spec.Cmax + 1 ∧
          c = 2 ^ 110)) := by
  have hc := roundAt_le_Cmax_succ m neg q hq
  have he := (spacingExp_spec q hq).1
  rw [roundTo_unfold]
  generalize Spec.roundAt m neg q (Spec.spacingExp q) = c at *
  generalize Spec.spacingExp q = e at *
  by_cases h1 : c ≤ Spec.Cmax
  · rw [if_pos h1]
    by_cases h2 : e ≤ Spec.Emax
    · rw [if_pos h2]
      right
      exact ⟨c, e, rfl, h1, he, h2, rfl, Or.inl ⟨rfl, rfl⟩⟩
    · rw [if_neg h2]
      left
      exact ⟨rfl, Or.inl (by omega)⟩
  · rw [if_neg h1]
    have hc' : c = Spec.Cmax + 1 := by omega
    have hc10 : c = 10 * 2 ^ 110 := by rw [hc', Cmax_succ]
    by_cases h2 : e + 1 ≤ Spec.Emax
    · rw [if_pos h2]
      right
      refine ⟨c / 10, e + 1, rfl, ?_, by omega, h2, ?_, Or.inr ⟨rfl, hc', ?_⟩⟩
      · rw [hc10]; unfold Spec.Cmax; norm_num
      · rw [hc10, zpow_add₀ (by norm_num : (10 : Rat) ≠ 0)]
        have : (10 * 2 ^ 110 / 10 : Nat) = 2 ^ 110 := by norm_num
        rw [this]; push_cast; ring
      · rw [hc10]; norm_num
    · rw [if_neg h2]
      left
      refine ⟨rfl, ?_⟩
      by_cases h3 : Spec.Emax < e
      · exact Or.inl h3
      · exact Or.inr ⟨by omega, hc'⟩


/-- x is the magnitude of a finite member of the format -/
def Member (x : Rat) : Prop :=
  ∃ c : Nat, ∃ e : Int, c ≤ Spec.Cmax ∧ Spec.Emin ≤ e ∧ e ≤ Spec.Emax ∧ x = (c : Rat) * (10 : Rat) ^ e

theorem div_mul_zpow (q : Rat) (E : Int) : q / (10 : Rat) ^ E * (10 : Rat) ^ E = q :=
  div_mul_cancel₀ q (zpow_ne_zero _ (by norm_num))

/-- a multiple of a higher power of ten is a natural multiple of a lower one -/
theorem scaled_nat (c' : Nat) {e' E : Int} (h : E ≤ e') :
    ∃ N : Nat, (c' : Rat) * (10 : Rat) ^ e' = (N : Rat) * (10 : Rat) ^ E := by
  refine ⟨c' * 10 ^ (e' - E).toNat, ?_⟩
  have : e' = ((e' - E).toNat : Int) + E := by rw [Int.toNat_of_nonneg (by omega)]; ring
  conv_lhs => rw [this, zpow_add₀ (by norm_num : (10 : Rat) ≠ 0), zpow_natCast]
  push_cast; ring

/-- members with an exponent below the spacing exponent of q are below 2^110 · 10^spacingExp ≤ q -/
theorem member_below (q : Rat) (hq : 0 < q) {c' : Nat} {e' : Int} (hc : c' ≤ Spec.Cmax)
    (he' : Spec.Emin ≤ e') (he : e' < Spec.spacingExp q) :
    (c' : Rat) * (10 : Rat) ^ e' < (2 ^ 110 : Rat) * (10 : Rat) ^ (Spec.spacingExp q) ∧
    2 ^ 110 ≤ ⌊q / (10 : Rat) ^ (Spec.spacingExp q)⌋₊ := by
  obtain ⟨-, -, h3⟩ := spacingExp_spec q hq
  have h3 := h3 (by omega)
  generalize Spec.spacingExp q = E at *
  have hE : (0 : Rat) < (10 : Rat) ^ E := zpow_pos (by norm_num) _
  have hE1 : (10 : Rat) ^ (E - 1) = (10 : Rat) ^ E / 10 := by
    rw [zpow_sub₀ (by norm_num : (10 : Rat) ≠ 0)]; simp
  constructor
  · have h1 : (10 : Rat) ^ e' ≤ (10 : Rat) ^ (E - 1) := zpow_le_zpow_right₀ (by norm_num) (by omega)
    have h2 : (c' : Rat) ≤ (Spec.Cmax : Rat) := by exact_mod_cast hc
    have h4 : ((Spec.Cmax + 1 : Nat) : Rat) = 10 * 2 ^ 110 := by rw [Cmax_succ]; push_cast; ring
    push_cast at h4
    calc (c' : Rat) * (10 : Rat) ^ e' ≤ (Spec.Cmax : Rat) * (10 : Rat) ^ (E - 1) :=
          mul_le_mul h2 h1 (zpow_pos (by norm_num) _).le (by positivity)
      _ < ((Spec.Cmax : Rat) + 1) * (10 : Rat) ^ (E - 1) := by
          apply mul_lt_mul_of_pos_right (by linarith) (zpow_pos (by norm_num) _)
      _ = (2 ^ 110 : Rat) * (10 : Rat) ^ E := by rw [h4, hE1]; ring
  · unfold coef at h3
    have h5 : ((Spec.Cmax + 1 : Nat) : Rat) ≤ q / (10 : Rat) ^ (E - 1) := by
      have : (Spec.Cmax + 1 : Nat) ≤ ⌊q / (10 : Rat) ^ (E - 1)⌋₊ := h3
      exact (Nat.le_floor_iff (div_nonneg hq.le (zpow_pos (by norm_num) _).le)).1 this
    apply Nat.le_floor
    rw [Cmax_succ, hE1] at h5
    push_cast at h5 ⊢
    have : q / ((10 : Rat) ^ E / 10) = q / (10 : Rat) ^ E * 10 := by field_simp
    rw [this] at h5
    linarith

/-- members ≤ q are ≤ ⌊q/10^E⌋·10^E, E the spacing exponent of q -/
theorem member_le_floor (q : Rat) (hq : 0 < q) {c' : Nat} {e' : Int} (hc : c' ≤ Spec.Cmax)
    (he' : Spec.Emin ≤ e') (hx : (c' : Rat) * (10 : Rat) ^ e' ≤ q) :
    (c' : Rat) * (10 : Rat) ^ e' ≤
      (⌊q / (10 : Rat) ^ (Spec.spacingExp q)⌋₊ : Rat) * (10 : Rat) ^ (Spec.spacingExp q) := by
  have hE : (0 : Rat) < (10 : Rat) ^ (Spec.spacingExp q) := zpow_pos (by norm_num) _
  by_cases he : e' < Spec.spacingExp q
  · obtain ⟨h1, h2⟩ := member_below q hq hc he' he
    have : ((2 ^ 110 : Nat) : Rat) ≤ (⌊q / (10 : Rat) ^ (Spec.spacingExp q)⌋₊ : Rat) := by exact_mod_cast h2
    push_cast at this
    exact le_trans h1.le (mul_le_mul_of_nonneg_right this hE.le)
  · obtain ⟨N, hN⟩ := scaled_nat c' (not_lt.1 he)
    rw [hN] at hx ⊢
    apply mul_le_mul_of_nonneg_right _ hE.le
    have : N ≤ ⌊q / (10 : Rat) ^ (Spec.spacingExp q)⌋₊ := by
      apply Nat.le_floor
      rw [le_div_iff₀ hE]; exact hx
    exact_mod_cast this

/-- members ≥ q are ≥ ⌈q/10^E⌉·10^E, E the spacing exponent of q -/
theorem ceil_le_member (q : Rat) (hq : 0 < q) {c' : Nat} {e' : Int} (hc : c' ≤ Spec.Cmax)
    (he' : Spec.Emin ≤ e') (hx : q ≤ (c' : Rat) * (10 : Rat) ^ e') :
    (⌈q / (10 : Rat) ^ (Spec.spacingExp q)⌉₊ : Rat) * (10 : Rat) ^ (Spec.spacingExp q) ≤
      (c' : Rat) * (10 : Rat) ^ e' ∧ Spec.spacingExp q ≤ e' := by
  have hE : (0 : Rat) < (10 : Rat) ^ (Spec.spacingExp q) := zpow_pos (by norm_num) _
  have hs : 0 ≤ q / (10 : Rat) ^ (Spec.spacingExp q) := div_nonneg hq.le hE.le
  by_cases he : e' < Spec.spacingExp q
  · exfalso
    obtain ⟨h1, h2⟩ := member_below q hq hc he' he
    have : ((2 ^ 110 : Nat) : Rat) ≤ (⌊q / (10 : Rat) ^ (Spec.spacingExp q)⌋₊ : Rat) := by exact_mod_cast h2
    push_cast at this
    have h3 := Nat.floor_le hs
    have h4 : (2 ^ 110 : Rat) * (10 : Rat) ^ (Spec.spacingExp q) ≤ q := by
      calc (2 ^ 110 : Rat) * (10 : Rat) ^ (Spec.spacingExp q)
          ≤ q / (10 : Rat) ^ (Spec.spacingExp q) * (10 : Rat) ^ (Spec.spacingExp q) :=
            mul_le_mul_of_nonneg_right (le_trans this h3) hE.le
        _ = q := div_mul_zpow q _
    linarith
  · refine ⟨?_, not_lt.1 he⟩
    obtain ⟨N, hN⟩ := scaled_nat c' (not_lt.1 he)
    rw [hN] at hx ⊢
    apply mul_le_mul_of_nonneg_right _ hE.le
    have : ⌈q / (10 : Rat) ^ (Spec.spacingExp q)⌉₊ ≤ N := by
      apply Nat.ceil_le.2
      rw [div_le_iff₀ hE]; exact hx
    exact_mod_cast this

end SpecRound
