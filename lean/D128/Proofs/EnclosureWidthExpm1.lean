/-
  Soundness of the enclosure oracle, part 18: width of the enclosure of `Expm1`.

  1. `sym_narrow`       : 0 ≤ τ ≤ κ·S ⇒ Narrow ⟨rdDown (S − τ), rdUp (S + τ)⟩ (3κ + 3ε) 0        (κ ≤ 1/10)
  2. `expm1_narrow`     : Encl.expm1 x = some v, 0 < |x| ≤ 100 ⇒
                          (0 < v.lo → Narrow v 10^-60 0) ∧ (v.hi < 0 → Narrow v.neg 10^-60 0)
  3. `trueValue_expm1_narrow` : trueValue .expm1 n c e = some (tn, t) → Narrow t.m (3·10^-39) 0
-/
import D128.Proofs.EnclosureWidthExp
set_option autoImplicit false

namespace EnclPf
open Spec Spec.Encl SpecRound

/-! ## 1. a rounded symmetric interval around a positive centre -/

theorem sym_narrow {S τ κ : ℚ} (hS : 0 < S) (hτ0 : 0 ≤ τ) (hτ : τ ≤ κ * S) (hκ : κ ≤ 1 / 10) :
    Narrow (⟨rdDown (S - τ), rdUp (S + τ)⟩ : I) (3 * κ + 3 * eps) 0 := by
  have hκ0 : 0 ≤ κ := by
    by_contra hc
    have : κ * S < 0 := mul_neg_of_neg_of_pos (not_le.1 hc) hS
    linarith
  have he := eps_pos
  have he2 : eps ≤ 1 / 10 := eps_le_tenth
  have hlo : 0 < S - τ := by nlinarith
  have hhi : 0 < S + τ := by linarith
  have d1 := rdDown_pos_ratio hlo
  have d2 := rdDown_le (S - τ)
  have u1 := rdUp_pos_ratio hhi
  have u2 := le_rdUp (S + τ)
  have hlopos : 0 < rdDown (S - τ) := lt_of_lt_of_le (by nlinarith) d1
  unfold Narrow
  simp only
  refine ⟨hlopos, by linarith, ?_⟩
  -- (S+τ)(1+ε) ≤ (S−τ)(1−ε)(1+3κ+3ε)
  have key : (S + τ) * (1 + eps) ≤ (S - τ) * (1 - eps) * (1 + (3 * κ + 3 * eps)) := by
    have h1 : S + τ ≤ S * (1 + κ) := by linarith
    have h2 : S * (1 - κ) ≤ S - τ := by linarith
    have h3 : (1 + κ) * (1 + eps) ≤ (1 - κ) * (1 - eps) * (1 + (3 * κ + 3 * eps)) := by
      nlinarith [mul_nonneg hκ0 he.le, mul_nonneg (add_nonneg hκ0 he.le) (by linarith : 0 ≤ 1 / 3 - (κ + eps)),
        mul_nonneg (mul_nonneg hκ0 he.le) (add_nonneg hκ0 he.le)]
    have h4 : 0 ≤ (1 - eps) * (1 + (3 * κ + 3 * eps)) := by
      apply mul_nonneg <;> nlinarith
    calc (S + τ) * (1 + eps) ≤ S * (1 + κ) * (1 + eps) := mul_le_mul_of_nonneg_right h1 (by linarith)
      _ = S * ((1 + κ) * (1 + eps)) := by ring
      _ ≤ S * ((1 - κ) * (1 - eps) * (1 + (3 * κ + 3 * eps))) := mul_le_mul_of_nonneg_left h3 hS.le
      _ = S * (1 - κ) * ((1 - eps) * (1 + (3 * κ + 3 * eps))) := by ring
      _ ≤ (S - τ) * ((1 - eps) * (1 + (3 * κ + 3 * eps))) := mul_le_mul_of_nonneg_right h2 h4
      _ = (S - τ) * (1 - eps) * (1 + (3 * κ + 3 * eps)) := by ring
  have hpos : 0 ≤ 1 + (3 * κ + 3 * eps) := by nlinarith
  calc rdUp (S + τ) ≤ (S + τ) * (1 + eps) := u1
    _ ≤ (S - τ) * (1 - eps) * (1 + (3 * κ + 3 * eps)) := key
    _ ≤ rdDown (S - τ) * (1 + (3 * κ + 3 * eps)) + 0 := by
        have := mul_le_mul_of_nonneg_right d1 hpos
        linarith

/-! ## 2. `Encl.expm1` -/

theorem neg_sym (S τ : ℚ) :
    (⟨rdDown (S - τ), rdUp (S + τ)⟩ : I).neg = ⟨rdDown (-S - τ), rdUp (-S + τ)⟩ := by
  unfold I.neg
  simp only
  rw [← rdDown_neg, ← rdUp_neg]
  congr 2 <;> ring

theorem expm1Tiny_narrow (x : ℚ) (hx0 : x ≠ 0) (hx : |x| ≤ 1 / 64) :
    (0 < (expm1Tiny x).lo → Narrow (expm1Tiny x) (1 / 10 ^ 60) 0) ∧
    ((expm1Tiny x).hi < 0 → Narrow (expm1Tiny x).neg (1 / 10 ^ 60) 0) := by
  rw [expm1Tiny_eq]
  set S : ℚ := ∑ i ∈ Finset.range 39, x ^ (i + 1) / ((i + 1).factorial : ℚ) with hS
  set τ : ℚ := 2 * |x ^ 40 / (Nat.factorial 40 : ℚ)| with hτ
  have hxpos : 0 < |x| := abs_pos.2 hx0
  have hτ0 : 0 ≤ τ := by rw [hτ]; positivity
  -- τ ≤ |x|/10^69
  have hτ1 : τ ≤ |x| / 10 ^ 69 := by
    rw [hτ, abs_div, abs_pow]
    have h2 : (1 : ℚ) ≤ |((Nat.factorial 40 : ℕ) : ℚ)| := by
      rw [abs_of_nonneg (by positivity)]
      exact_mod_cast Nat.one_le_iff_ne_zero.2 (Nat.factorial_ne_zero 40)
    have h3 : |x| ^ 40 / |((Nat.factorial 40 : ℕ) : ℚ)| ≤ |x| ^ 40 := div_le_self (by positivity) h2
    have h4 : |x| ^ 40 = |x| * |x| ^ 39 := by ring
    have h5 : |x| ^ 39 ≤ (1 / 64 : ℚ) ^ 39 := pow_le_pow_left₀ (abs_nonneg x) hx 39
    have h6 : (2 : ℚ) * (1 / 64) ^ 39 ≤ 1 / 10 ^ 69 := by norm_num
    have h7 : |x| * |x| ^ 39 ≤ |x| * (1 / 64) ^ 39 := mul_le_mul_of_nonneg_left h5 hxpos.le
    have h8 : |x| * (2 * (1 / 64) ^ 39) ≤ |x| * (1 / 10 ^ 69) := mul_le_mul_of_nonneg_left h6 hxpos.le
    rw [div_eq_mul_one_div]
    linarith
  -- |S − x| ≤ τ + x², through the reals
  have hSx : |S - x| ≤ τ + x ^ 2 := by
    have hx' : |(x : ℝ)| / ((40 : ℕ).succ : ℝ) ≤ 1 / 2 := by
      have : |(x : ℝ)| ≤ 1 / 64 := by
        have : ((|x| : ℚ) : ℝ) ≤ ((1 / 64 : ℚ) : ℝ) := by exact_mod_cast hx
        simpa using this
      rw [div_le_iff₀ (by positivity)]; push_cast; linarith
    have hb := real_exp_taylor_bound hx'
    rw [sum_shift_exp] at hb
    have habs : |(x : ℝ)| ^ 40 / ((Nat.factorial 40 : ℕ) : ℝ) * 2 = ((τ : ℚ) : ℝ) := by
      rw [hτ]; push_cast
      rw [abs_div, abs_pow, abs_of_pos (by positivity : (0 : ℝ) < ((Nat.factorial 40 : ℕ) : ℝ))]; ring
    rw [habs] at hb
    have hSr : (∑ i ∈ Finset.range 39, (x : ℝ) ^ (i + 1) / ((i + 1).factorial : ℝ)) = ((S : ℚ) : ℝ) := by
      rw [hS]; push_cast; rfl
    rw [hSr] at hb
    have hx1 : |(x : ℝ)| ≤ 1 := by
      have : ((|x| : ℚ) : ℝ) ≤ ((1 / 64 : ℚ) : ℝ) := by exact_mod_cast hx
      have h' : |(x : ℝ)| ≤ 1 / 64 := by simpa using this
      linarith
    have hq := Real.abs_exp_sub_one_sub_id_le hx1
    have hb1 := abs_le.1 hb
    have hq1 := abs_le.1 hq
    have : |((S : ℚ) : ℝ) - (x : ℝ)| ≤ ((τ : ℚ) : ℝ) + (x : ℝ) ^ 2 := by
      rw [abs_le]; constructor <;> linarith [hb1.1, hb1.2, hq1.1, hq1.2]
    have h' : ((|S - x| : ℚ) : ℝ) ≤ (((τ + x ^ 2 : ℚ)) : ℝ) := by push_cast; exact this
    exact_mod_cast h'
  have hx2 : x ^ 2 ≤ |x| / 64 := by
    have : x ^ 2 = |x| * |x| := by rw [abs_mul_abs_self x]; ring
    rw [this, div_eq_mul_one_div]
    exact mul_le_mul_of_nonneg_left hx hxpos.le
  have hSx' := abs_le.1 hSx
  have hτs : τ ≤ |x| / 64 := le_trans hτ1 (by
    rw [div_le_div_iff_of_pos_left hxpos (by positivity) (by positivity)]; norm_num)
  have hκ : (2 / 10 ^ 69 : ℚ) ≤ 1 / 10 := by norm_num
  have hfin : 3 * (2 / 10 ^ 69 : ℚ) + 3 * eps ≤ 1 / 10 ^ 60 := by unfold eps; norm_num
  rcases lt_or_gt_of_ne hx0 with hneg | hpos
  · -- x < 0 : S < 0
    have hax : |x| = -x := abs_of_neg hneg
    rw [hax] at hτ1 hx2 hτs
    have hSneg : S ≤ x / 2 := by linarith [hSx'.2]
    constructor
    · intro hlo
      exfalso
      have := rdDown_le (S - τ)
      simp only at hlo
      linarith
    · intro _
      rw [neg_sym]
      have hτk : τ ≤ 2 / 10 ^ 69 * (-S) := by
        have : -x ≤ 2 * (-S) := by linarith
        calc τ ≤ -x / 10 ^ 69 := hτ1
          _ ≤ 2 * (-S) / 10 ^ 69 := by
              rw [div_le_div_iff_of_pos_right (by positivity)]; exact this
          _ = 2 / 10 ^ 69 * (-S) := by ring
      exact narrow_mono (sym_narrow (by linarith) hτ0 hτk hκ) hfin (le_refl _)
  · have hax : |x| = x := abs_of_pos hpos
    rw [hax] at hτ1 hx2 hτs
    have hSpos : x / 2 ≤ S := by linarith [hSx'.1]
    constructor
    · intro _
      have hτk : τ ≤ 2 / 10 ^ 69 * S := by
        have : x ≤ 2 * S := by linarith
        calc τ ≤ x / 10 ^ 69 := hτ1
          _ ≤ 2 * S / 10 ^ 69 := by
              rw [div_le_div_iff_of_pos_right (by positivity)]; exact this
          _ = 2 / 10 ^ 69 * S := by ring
      exact narrow_mono (sym_narrow (by linarith) hτ0 hτk hκ) hfin (le_refl _)
    · intro hhi
      exfalso
      have := le_rdUp (S + τ)
      simp only at hhi
      linarith

/-- the cancelling branch: `⟨rdDown (A − 1), rdUp (B − 1)⟩` for a narrow positive enclosure `[A, B]` of `exp x`
    bounded away from 1 -/
theorem sub_one_narrow {A B : ℚ} (hA : 0 < A) (hAB : A ≤ B) (hB : B ≤ A * (1 + 1 / 10 ^ 66)) :
    (1015 / 1000 ≤ A * (1 + 1 / 10 ^ 66) → Narrow (⟨rdDown (A - 1), rdUp (B - 1)⟩ : I) (1 / 10 ^ 60) 0) ∧
    (A ≤ 64 / 65 → Narrow (⟨rdDown (A - 1), rdUp (B - 1)⟩ : I).neg (1 / 10 ^ 60) 0) := by
  have hκ : (1 / 10 ^ 63 : ℚ) ≤ 1 / 10 := by norm_num
  have hfin : 3 * (1 / 10 ^ 63 : ℚ) + 3 * eps ≤ 1 / 10 ^ 60 := by unfold eps; norm_num
  constructor
  · intro h1
    have hA1 : 1014 / 1000 ≤ A := by nlinarith
    have e1 : A - 1 = ((A + B) / 2 - 1) - (B - A) / 2 := by ring
    have e2 : B - 1 = ((A + B) / 2 - 1) + (B - A) / 2 := by ring
    rw [e1, e2]
    have hτk : (B - A) / 2 ≤ 1 / 10 ^ 63 * ((A + B) / 2 - 1) := by nlinarith
    exact narrow_mono (sym_narrow (by linarith) (by linarith) hτk hκ) hfin (le_refl _)
  · intro h2
    have hB1 : B ≤ 99 / 100 := by nlinarith
    have e1 : A - 1 = -(1 - (A + B) / 2) - (B - A) / 2 := by ring
    have e2 : B - 1 = -(1 - (A + B) / 2) + (B - A) / 2 := by ring
    rw [e1, e2, neg_sym, neg_neg]
    have hτk : (B - A) / 2 ≤ 1 / 10 ^ 63 * (1 - (A + B) / 2) := by nlinarith
    exact narrow_mono (sym_narrow (by linarith) (by linarith) hτk hκ) hfin (le_refl _)

theorem expm1_narrow {x : ℚ} {v : I} (h : Encl.expm1 x = some v) (hx0 : x ≠ 0) (hx : |x| ≤ 100) :
    (0 < v.lo → Narrow v (1 / 10 ^ 60) 0) ∧ (v.hi < 0 → Narrow v.neg (1 / 10 ^ 60) 0) := by
  unfold Encl.expm1 at h
  rw [ite_neg_eq_abs] at h
  split at h
  · rename_i hs
    obtain rfl := Option.some.inj h
    exact expm1Tiny_narrow x hx0 hs
  · rename_i hs
    have hbig : 1 / 64 < |x| := not_le.1 hs
    split at h
    · exact absurd h (by simp)
    · rename_i s hse
      obtain rfl := Option.some.inj h
      obtain ⟨p1, p2⟩ := exp_ratio hse (le_trans hx (by norm_num))
      have hsnd := exp_sound hse
      have hle := sci_lo_le_hi hsnd
      have h1 := sciMem_le_hi hsnd
      have h2 := sciMem_ge_lo hsnd
      have hp := pow10_pos s.k
      set A : ℚ := s.m.lo * pow10 s.k with hA
      set B : ℚ := s.m.hi * pow10 s.k with hB
      have hApos : 0 < A := mul_pos p1 hp
      have hAB : A ≤ B := mul_le_mul_of_nonneg_right hle hp.le
      have hBA : B ≤ A * (1 + 1 / 10 ^ 66) := by
        rw [hA, hB]
        calc s.m.hi * pow10 s.k ≤ s.m.lo * (1 + 1 / 10 ^ 66) * pow10 s.k := mul_le_mul_of_nonneg_right p2 hp.le
          _ = s.m.lo * pow10 s.k * (1 + 1 / 10 ^ 66) := by ring
      have hAr : ((A : ℚ) : ℝ) ≤ Real.exp (x : ℝ) := by
        rw [hA, Rat.cast_mul, pow10_cast]; exact h2
      have hBr : Real.exp (x : ℝ) ≤ ((B : ℚ) : ℝ) := by
        rw [hB, Rat.cast_mul, pow10_cast]; exact h1
      obtain ⟨q1, q2⟩ := sub_one_narrow hApos hAB hBA
      show (0 < (⟨rdDown (A - 1), rdUp (B - 1)⟩ : I).lo → _) ∧ ((⟨rdDown (A - 1), rdUp (B - 1)⟩ : I).hi < 0 → _)
      rcases lt_or_gt_of_ne hx0 with hneg | hpos
      · -- x < −1/64
        have hax : |x| = -x := abs_of_neg hneg
        rw [hax] at hbig
        have hxr : (x : ℝ) ≤ -(1 / 64) := by
          have : ((x : ℚ) : ℝ) ≤ ((-(1 / 64) : ℚ) : ℝ) := by exact_mod_cast (by linarith : x ≤ -(1 / 64))
          push_cast at this; linarith
        have hexp : Real.exp (x : ℝ) ≤ 64 / 65 := by
          have h3 := Real.add_one_le_exp (-(x : ℝ))
          have h4 : Real.exp (x : ℝ) * Real.exp (-(x : ℝ)) = 1 := by rw [← Real.exp_add]; simp
          have h5 := Real.exp_pos (x : ℝ)
          have h6 : (65 / 64 : ℝ) ≤ Real.exp (-(x : ℝ)) := by linarith
          nlinarith
        have hA64 : A ≤ 64 / 65 := by
          have : ((A : ℚ) : ℝ) ≤ ((64 / 65 : ℚ) : ℝ) := by push_cast; linarith
          exact_mod_cast this
        constructor
        · intro hlo
          exfalso
          have := rdDown_le (A - 1)
          simp only at hlo
          linarith
        · intro _; exact q2 hA64
      · have hax : |x| = x := abs_of_pos hpos
        rw [hax] at hbig
        have hxr : (1 / 64 : ℝ) ≤ (x : ℝ) := by
          have : (((1 / 64 : ℚ)) : ℝ) ≤ ((x : ℚ) : ℝ) := by exact_mod_cast hbig.le
          push_cast at this; linarith
        have hexp : (65 / 64 : ℝ) ≤ Real.exp (x : ℝ) := by linarith [Real.add_one_le_exp (x : ℝ)]
        have hB64 : 65 / 64 ≤ B := by
          have : (((65 / 64 : ℚ)) : ℝ) ≤ ((B : ℚ) : ℝ) := by push_cast; linarith
          exact_mod_cast this
        constructor
        · intro _; exact q1 (by linarith)
        · intro hhi
          exfalso
          have := le_rdUp (B - 1)
          simp only at hhi
          linarith

/-! ## 3. `trueValue .expm1` -/

theorem trueValue_expm1_narrow (n : Bool) (c : Nat) (e : Int) (tn : Bool) (t : Sci)
    (hc0 : c ≠ 0) (hc : c < 10 ^ 35) (h : trueValue .expm1 n c e = some (tn, t)) :
    Narrow t.m (3 / 10 ^ 39) 0 := by
  rw [trueValue_expm1_eq] at h
  simp only at h
  have hnd := ndigits_le_35 hc0 hc
  have hnd1 := ndigits_pos c
  split at h
  · exact absurd h (by simp)
  rename_i h7
  split at h
  · simp only [Option.some.injEq, Prod.mk.injEq] at h
    obtain ⟨-, rfl⟩ := h
    exact rel39_narrow hc0
  rename_i h40
  split at h
  · simp only [Option.some.injEq, Prod.mk.injEq] at h
    obtain ⟨-, rfl⟩ := h
    have hu : pow10 (-40) = 1 / 10 ^ 40 := by rw [pow10_eq_zpow]; norm_num
    unfold Narrow; simp only [hu]
    refine ⟨by norm_num, by norm_num, by norm_num⟩
  rename_i hneg
  split at h
  · rename_i hpos
    simp only [Bool.and_eq_true, Bool.not_eq_true', decide_eq_true_eq] at hpos
    obtain ⟨rfl, h2⟩ := hpos
    rw [xguard false c e (by omega) (by omega)] at h
    split at h
    · exact absurd h (by simp)
    rename_i s hse
    simp only [Option.some.injEq, Prod.mk.injEq] at h
    obtain ⟨-, rfl⟩ := h
    obtain ⟨p1, p2⟩ := exp_ratio hse (abs_toRat_le_of false hc0 e 7 (by omega))
    have hle := sci_lo_le_hi (exp_sound hse)
    have hu : pow10 (-40) = 1 / 10 ^ 40 := by rw [pow10_eq_zpow]; norm_num
    unfold Narrow; simp only [hu]
    refine ⟨by positivity, ?_, ?_⟩
    · nlinarith
    · nlinarith
  rename_i hpos
  have he2 : e + (ndigits c : Int) ≤ 2 := by
    by_contra hcon
    have hcon : e + (ndigits c : Int) > 2 := by omega
    cases n
    · exact hpos (by simp [hcon])
    · exact hneg (by simp [hcon])
  rw [xguard n c e (by omega) (by omega)] at h
  split at h
  · exact absurd h (by simp)
  rename_i v hv
  have hx0 : (Val.fin n c e).toRat ≠ 0 := by
    have hm : 0 < mag c e := by
      unfold mag
      exact mul_pos (by exact_mod_cast Nat.pos_of_ne_zero hc0) (pow10_pos e)
    rw [toRat_fin]; split <;> linarith
  obtain ⟨q1, q2⟩ := expm1_narrow hv hx0 (le_trans (abs_toRat_le_of n hc0 e 2 (by omega)) (by norm_num))
  split at h
  · rename_i hvpos
    simp only [Option.some.injEq, Prod.mk.injEq] at h
    obtain ⟨-, rfl⟩ := h
    exact narrow_mono (q1 hvpos) (by norm_num) (le_refl _)
  · split at h
    · rename_i hvneg
      simp only [Option.some.injEq, Prod.mk.injEq] at h
      obtain ⟨-, rfl⟩ := h
      exact narrow_mono (q2 hvneg) (by norm_num) (le_refl _)
    · exact absurd h (by simp)

end EnclPf
