/-
  D128/Proofs/Words128Log.lean — `bits.Len64` and `uint128.log10`.

  * `Go.bits.Len64_spec`  : x ≠ 0 → ∃ L, Len64 x = Int64.ofNat L ∧ 1 ≤ L ≤ 64 ∧ 2^(L-1) ≤ x.toNat < 2^L
  * `Go.bits.Len64_zero`  : Len64 0 = 0
  * `Go.bits.Len64_toInt_bounds` : x ≠ 0 → 2^((Len64 x).toInt.toNat - 1) ≤ x.toNat < 2^(Len64 x).toInt.toNat
  * `Go.log10_estimate`   : 1 ≤ L ≤ 128 → Go.shr (Int64.ofNat L * 1233) 12 = Int64.ofNat (L * 1233 / 4096)
  * `Go.log10_estimate_bounds` : for 1 ≤ L ≤ 128 and t = L*1233/4096:
        t ≤ 38 ∧ 2^L ≤ 10^(t+1) ∧ 10^t ≤ 10 * 2^(L-1)
  * `U128_log10_eq`       : Gen.U128.log10 n = .ok (Int64.ofNat (Nat.log 10 n.toNat))     (all n; never panics)
  * `U128_log10_spec`     : ∃ k ≤ 38, log10 n = .ok (Int64.ofNat k) ∧ (Int64.ofNat k).toInt = k ∧
                              (n.toNat = 0 → k = 0) ∧ (n.toNat ≠ 0 → 10^k ≤ n.toNat ∧ n.toNat < 10^(k+1))
  * `U128_log10_triple`   : the `@[spec]` Hoare triple.
-/
import Mathlib.Data.Nat.Log
import D128.Proofs.Words128

set_option autoImplicit false
set_option maxRecDepth 4096
open Std.Do

namespace Go.bits

theorem Len64_zero : Len64 0 = 0 := rfl

/-- `bits.Len64 x` is the bit length of `x`. -/
theorem Len64_spec (x : UInt64) (hx : x ≠ 0) :
    ∃ L : Nat, Len64 x = Int64.ofNat L ∧ 1 ≤ L ∧ L ≤ 64 ∧ 2^(L-1) ≤ x.toNat ∧ x.toNat < 2^L := by
  have hx' : x.toNat ≠ 0 := by
    intro h; apply hx; exact UInt64.toNat_inj.mp (by simpa using h)
  refine ⟨x.toNat.log2 + 1, ?_, by omega, ?_, ?_, Nat.lt_log2_self⟩
  · simp [Len64, hx]
  · have : x.toNat.log2 < 64 := (Nat.log2_lt hx').mpr x.toNat_lt
    omega
  · simpa using Nat.log2_self_le hx'

end Go.bits

namespace Go

/-- the estimate `⌊L·1233/4096⌋` as computed in `int64`. -/
theorem log10_estimate (L : Nat) (h1 : 1 ≤ L) (h2 : L ≤ 128) :
    Go.shr (Int64.ofNat L * 1233) (12 : Int) = Int64.ofNat (L * 1233 / 4096) := by
  interval_cases L <;> decide

/-- `⌊L·1233/4096⌋` is `⌊log10 2^L⌋` for `L ≤ 128` — what makes one correction step enough. -/
theorem log10_estimate_bounds (L : Nat) (h1 : 1 ≤ L) (h2 : L ≤ 128) :
    L * 1233 / 4096 ≤ 38 ∧ 2^L ≤ 10^(L * 1233 / 4096 + 1) ∧ 10^(L * 1233 / 4096) ≤ 10 * 2^(L-1) := by
  interval_cases L <;> simp only [Nat.reduceMul, Nat.reduceDiv, Nat.reduceAdd, Nat.reduceSub,
    Nat.reducePow, Nat.reduceLeDiff, and_self]

end Go

/-! ## log10 -/

theorem Int64.toInt_ofNat_small (k : Nat) (h : k ≤ 4096) : (Int64.ofNat k).toInt = k :=
  Int64.toInt_ofNat_of_lt (by omega)

/-- the common tail of `uint128.log10`: estimate from the bit length `L`, one table lookup,
one correction. -/
theorem U128_log10_tail (n : U128) (L : Nat) (h1 : 1 ≤ L) (h2 : L ≤ 128)
    (hlo : 2^(L-1) ≤ n.toNat) (hhi : n.toNat < 2^L) (l2 : Int64) (hl2 : l2 = Int64.ofNat L) :
    (do
        let t_1 ← Go.vget Gen.uint128PowersOf10 (Go.idx (Go.shr (l2 * 1233) 12))
        if Gen.U128.cmp n t_1 < 0 then pure (Go.shr (l2 * 1233) 12 - 1)
          else pure (Go.shr (l2 * 1233) 12) : Go.GoM Int64)
      = .ok (Int64.ofNat (Nat.log 10 n.toNat)) := by
  subst hl2
  obtain ⟨ht, hup, hdn⟩ := Go.log10_estimate_bounds L h1 h2
  rw [Go.log10_estimate L h1 h2]
  generalize L * 1233 / 4096 = t at *
  have hidx : Go.idx (Int64.ofNat t) = (t : Int) := Int64.toInt_ofNat_small t (by omega)
  obtain ⟨v, hv, hvn⟩ := uint128PowersOf10_vget (t : Int) (by omega) (by omega)
  rw [hidx, hv]
  simp only [bind, Except.bind, U128_cmp_lt_zero_iff, hvn, Int.toNat_natCast]
  have hn1 : 1 ≤ n.toNat := Nat.le_trans (Nat.one_le_two_pow) hlo
  by_cases hc : n.toNat < 10^t
  · rw [if_pos hc]
    have ht1 : 1 ≤ t := by
      rcases Nat.eq_zero_or_pos t with rfl | h
      · simp at hc; omega
      · exact h
    have e : Nat.log 10 n.toNat = t - 1 := by
      apply Nat.log_eq_of_pow_le_of_lt_pow
      · have : 10^t = 10 * 10^(t-1) := by
          conv_lhs => rw [show t = (t - 1) + 1 by omega, Nat.pow_succ, Nat.mul_comm]
        omega
      · rw [show t - 1 + 1 = t by omega]; exact hc
    rw [e, Int64.ofNat_sub _ _ ht1]
    rfl
  · rw [if_neg hc]
    have e : Nat.log 10 n.toNat = t := by
      apply Nat.log_eq_of_pow_le_of_lt_pow
      · omega
      · omega
    rw [e]; rfl

theorem U128_log10_eq (n : U128) :
    Gen.U128.log10 n = .ok (Int64.ofNat (Nat.log 10 n.toNat)) := by
  unfold Gen.U128.log10
  simp only [bne_iff_ne, ne_eq, ite_not, decide_eq_true_eq]
  have hw0 := n.w0.toNat_lt
  by_cases hw1 : n.w1 = 0
  · rw [if_pos hw1]
    by_cases hw0z : n.w0 = 0
    · rw [if_pos hw0z]
      have : n.toNat = 0 := by simp [U128.toNat, hw1, hw0z]
      rw [this]; rfl
    · rw [if_neg hw0z]
      obtain ⟨L, hL, h1, h2, hlo, hhi⟩ := Go.bits.Len64_spec n.w0 hw0z
      have hn : n.toNat = n.w0.toNat := by simp [U128.toNat, hw1]
      exact U128_log10_tail n L h1 (by omega) (by rw [hn]; exact hlo) (by rw [hn]; exact hhi) _ hL
  · rw [if_neg hw1]
    obtain ⟨L, hL, h1, h2, hlo, hhi⟩ := Go.bits.Len64_spec n.w1 hw1
    have hL' : Go.bits.Len64 n.w1 + 64 = Int64.ofNat (L + 64) := by
      rw [Int64.ofNat_add, hL]; rfl
    refine U128_log10_tail n (L + 64) (by omega) (by omega) ?_ ?_ _ hL'
    · have : L + 64 - 1 = (L - 1) + 64 := by omega
      rw [this, Nat.pow_add]
      have := Nat.mul_le_mul_right (2^64) hlo
      simp only [U128.toNat]; omega
    · rw [Nat.pow_add]
      have : (n.w1.toNat + 1) * 2^64 ≤ 2^L * 2^64 := Nat.mul_le_mul_right _ hhi
      simp only [U128.toNat]; omega

theorem Nat.log10_lt_39_of_lt (m : Nat) (h : m < 2^128) : Nat.log 10 m ≤ 38 := by
  have : Nat.log 10 m < 39 := by
    apply Nat.log_lt_of_lt_pow' (by omega)
    exact Nat.lt_trans h (by norm_num)
  omega

/-- `uint128.log10` never panics; the result `k` is `0` for `n = 0` and otherwise the unique
`k` with `10^k ≤ n < 10^(k+1)`; `0 ≤ k ≤ 38`. -/
theorem U128_log10_spec (n : U128) :
    ∃ k : Nat, k ≤ 38 ∧ Gen.U128.log10 n = .ok (Int64.ofNat k) ∧ (Int64.ofNat k).toInt = k ∧
      (n.toNat = 0 → k = 0) ∧ (n.toNat ≠ 0 → 10^k ≤ n.toNat ∧ n.toNat < 10^(k+1)) := by
  have hk := Nat.log10_lt_39_of_lt n.toNat n.toNat_lt
  refine ⟨Nat.log 10 n.toNat, hk, U128_log10_eq n, Int64.toInt_ofNat_small _ (by omega), ?_, ?_⟩
  · intro h; rw [h]; simp
  · intro h
    exact ⟨Nat.pow_log_le_self 10 h, Nat.lt_pow_succ_log_self (by omega) _⟩

@[spec] theorem U128_log10_triple (n : U128) :
    ⦃⌜True⌝⦄ Gen.U128.log10 n
    ⦃⇓ l => ⌜0 ≤ l.toInt ∧ l.toInt ≤ 38 ∧ (n.toNat = 0 → l = 0) ∧
      (n.toNat ≠ 0 → 10^l.toInt.toNat ≤ n.toNat ∧ n.toNat < 10^(l.toInt.toNat+1))⌝⦄ := by
  obtain ⟨k, hk, e, hi, h0, h1⟩ := U128_log10_spec n
  refine Go.triple_of_ok e ⟨by omega, by omega, ?_, ?_⟩
  · intro h; rw [h0 h]; rfl
  · intro h; rw [hi]; simpa using h1 h

