/-
  D128/Proofs/ComposeSqlBig.lean — the math/big stage of `Decimal.Compose` (`CS.big`, see
  ComposeSqlDefs.lean): a coefficient longer than 32 bytes is read into a `big.Int` and divided by
  10^19 while it has more than 256 bits (every remainder must be zero, the exponent must stay ≤ 6111),
  then handed to `CS.mid` as `Bytes()`.

  `*big.Int` is the value `Go.BigInt = Int` (D128/Go/Big.lean); `BitLen` returns an `int`, so the byte
  strings are assumed shorter than 2^60 bytes (8·len fits an int64; a Go slice cannot be longer than
  2^48 bytes on the supported platforms).

  Provided (namespace `CS`):
  * `mid_spec`, `QuoRem_spec`   specs of the callees
  * `IB`, `IB_cond/_rem/_ovf/_step/_exit`, `XB`   invariant / exit condition of the big.Int loop
  * `huge_big`, `huge_ovf`, `huge_init`
  * `big_triple`, `big_ok`      for `1 ≤ sig.size < 2^60`, `sig[0] ≠ 0`:
        `∃ r, big d neg sig exp = .ok r ∧ Res d neg (beNat sig · 10^exp) r`
-/
import D128.Proofs.ComposeSqlMid
set_option autoImplicit false
set_option maxRecDepth 4096
open Std.Do
set_option mvcgen.warning false

namespace CS
open SpecRound (Member)
open CanonPf (ok_of_triple)

local notation "𝔳[" d "]" => Spec.interp (Gen.Decimal.lo d) (Gen.Decimal.hi d)

/-! ## specs of the callees -/

@[spec] theorem mid_spec (d : Gen.Decimal) (neg : Bool) (sig : Go.Bytes) (exp : Int32) :
    ⦃⌜sig.size < 2 ^ 63 ∧ 1 ≤ sig.size ∧ sig.size ≤ 32 ∧ sig.toList.getD 0 0 ≠ 0⌝⦄ mid d neg sig exp
    ⦃⇓ r => ⌜Res d neg ((Spec.beNat sig : ℚ) * (10 : ℚ) ^ exp.toInt) r⌝⦄ := by
  mintro ⌜h⌝
  mspec (mid_triple d neg sig exp h.1 h.2.1 h.2.2.1 h.2.2.2 _ rfl)

@[spec] theorem QuoRem_spec (x y : Go.BigInt) :
    ⦃⌜y ≠ 0⌝⦄ Go.BigInt.QuoRem x y ⦃⇓ r => ⌜r = (Int.tdiv x y, Int.tmod x y)⌝⦄ := by
  mintro ⌜h⌝
  unfold Go.BigInt.QuoRem
  rw [if_neg h]
  exact Triple.pure (m := Go.GoM) _ (by simp)

/-! ## the big.Int loop -/

theorem den_val : Go.BigInt.SetUint64 (10000000000000000000 : UInt64) = (10000000000000000000 : Int) := rfl

theorem BitLen_toInt (x : Int) (h : Go.Big.bitLen x.natAbs < 2 ^ 63) :
    (Go.BigInt.BitLen x).toInt = (Go.Big.bitLen x.natAbs : Int) := by
  unfold Go.BigInt.BitLen
  rw [Int64.toInt_ofNat_of_lt h]

theorem i64_256 : (256 : Int64).toInt = 256 := by decide
theorem i64_0 : (0 : Int64).toInt = 0 := by decide

theorem bitLen_mono {a b : Nat} (h : a ≤ b) : Go.Big.bitLen a ≤ Go.Big.bitLen b :=
  (bitLen_le_iff a _).2 (Nat.lt_of_le_of_lt h (bitLen_lt b))

structure IB (V0 : ℚ) (s : Int32 × Go.BigInt × Go.BigInt) : Prop where
  nn : 0 ≤ s.2.1
  dl : DL V0 s.1.toInt s.2.1.natAbs
  len : Go.Big.bitLen s.2.1.natAbs < 2 ^ 63

theorem IB_cond (V0 : ℚ) (s : Int32 × Go.BigInt × Go.BigInt) (h : IB V0 s) :
    (decide (Go.BigInt.BitLen s.2.1 > (256 : Int64)) = true) ↔ 2 ^ 256 ≤ s.2.1.natAbs := by
  rw [i64_gt_lit, BitLen_toInt _ h.len, i64_256]
  have := bitLen_le_iff s.2.1.natAbs 256
  omega

theorem T256 : (Spec.Cmax + 1) * 10 ^ 19 ≤ 2 ^ 256 := by rw [Cmax_val]; norm_num

theorem rem_ne (V0 : ℚ) (s : Int32 × Go.BigInt × Go.BigInt) (_h : IB V0 s) :
    ((Go.BigInt.BitLen (Int.tmod s.2.1 10000000000000000000) != (0 : Int64)) = true) ↔
      s.2.1.natAbs % 10 ^ 19 ≠ 0 := by
  have e : (Int.tmod s.2.1 10000000000000000000).natAbs = s.2.1.natAbs % 10 ^ 19 := by
    rw [Int.natAbs_tmod]; rfl
  have hlt : s.2.1.natAbs % 10 ^ 19 < 2 ^ 64 :=
    Nat.lt_of_lt_of_le (Nat.mod_lt _ (by positivity)) (by norm_num)
  have hb : Go.Big.bitLen (s.2.1.natAbs % 10 ^ 19) ≤ 64 := (bitLen_le_iff _ _).2 hlt
  rw [bne_iff_ne, ne_eq, ← Int64.toInt_inj, BitLen_toInt _ (by rw [e]; omega), e, i64_0]
  constructor
  · intro h1 h2
    rw [h2] at h1
    exact h1 (by simp [Go.Big.bitLen])
  · intro h1 h2
    have := bitLen_pos _ h1
    omega

theorem IB_rem (V0 : ℚ) (s : Int32 × Go.BigInt × Go.BigInt) (h : IB V0 s)
    (hc : decide (Go.BigInt.BitLen s.2.1 > (256 : Int64)) = true)
    (hr : (Go.BigInt.BitLen (Int.tmod s.2.1 10000000000000000000) != (0 : Int64)) = true) :
    ¬ Member V0 := by
  rw [IB_cond V0 s h] at hc
  rw [rem_ne V0 s h] at hr
  exact DL_rem 19 (2 ^ 256) (by norm_num) two256_gt h.dl hc hr

theorem IB_ovf (V0 : ℚ) (s : Int32 × Go.BigInt × Go.BigInt) (h : IB V0 s)
    (hc : decide (Go.BigInt.BitLen s.2.1 > (256 : Int64)) = true)
    (hr : ¬ (Go.BigInt.BitLen (Int.tmod s.2.1 10000000000000000000) != (0 : Int64)) = true)
    (ho : decide (s.1 + 19 > (6111 : Int32)) = true) : ¬ Member V0 := by
  rw [IB_cond V0 s h] at hc
  rw [rem_ne V0 s h, not_not] at hr
  rw [i32_gt_lit, i32_6111, add19 _ h.dl.rng] at ho
  exact DL_ovf 19 (2 ^ 256) T256 h.dl hc hr (by simpa using ho)

theorem IB_step (V0 : ℚ) (s : Int32 × Go.BigInt × Go.BigInt) (h : IB V0 s)
    (hc : decide (Go.BigInt.BitLen s.2.1 > (256 : Int64)) = true)
    (hr : ¬ (Go.BigInt.BitLen (Int.tmod s.2.1 10000000000000000000) != (0 : Int64)) = true)
    (ho : ¬ decide (s.1 + 19 > (6111 : Int32)) = true) :
    IB V0 (s.1 + 19, Int.tdiv s.2.1 10000000000000000000, Int.tmod s.2.1 10000000000000000000) ∧
      (Int.tdiv s.2.1 10000000000000000000).natAbs < s.2.1.natAbs := by
  rw [IB_cond V0 s h] at hc
  rw [rem_ne V0 s h, not_not] at hr
  rw [i32_gt_lit, i32_6111, add19 _ h.dl.rng] at ho
  have e : (Int.tdiv s.2.1 10000000000000000000).natAbs = s.2.1.natAbs / 10 ^ 19 := by
    rw [Int.natAbs_tdiv]; rfl
  obtain ⟨h1, h2⟩ := DL_step 19 (2 ^ 256) (by norm_num) T256 h.dl hc hr (by simpa using ho)
  refine ⟨⟨Int.tdiv_nonneg h.nn (by norm_num), ?_, ?_⟩, by rw [e]; exact h2⟩
  · show DL V0 (s.1 + 19).toInt (Int.tdiv s.2.1 10000000000000000000).natAbs
    rw [add19 _ h.dl.rng, e]
    simpa using h1
  · show Go.Big.bitLen (Int.tdiv s.2.1 10000000000000000000).natAbs < 2 ^ 63
    rw [e]
    exact Nat.lt_of_le_of_lt (bitLen_mono (Nat.div_le_self _ _)) h.len

/-- exit of the big.Int loop: the coefficient is handed to `mid` as `Bytes` -/
structure XB (V0 : ℚ) (s : Int32 × Go.BigInt × Go.BigInt) : Prop where
  sz : (Go.BigInt.Bytes s.2.1).size < 2 ^ 63 ∧ 1 ≤ (Go.BigInt.Bytes s.2.1).size ∧
      (Go.BigInt.Bytes s.2.1).size ≤ 32 ∧ (Go.BigInt.Bytes s.2.1).toList.getD 0 0 ≠ 0
  val : (Spec.beNat (Go.BigInt.Bytes s.2.1) : ℚ) * (10 : ℚ) ^ s.1.toInt = V0

theorem IB_exit (V0 : ℚ) (s : Int32 × Go.BigInt × Go.BigInt) (h : IB V0 s)
    (hc : ¬ decide (Go.BigInt.BitLen s.2.1 > (256 : Int64)) = true) : XB V0 s := by
  rw [IB_cond V0 s h] at hc
  have hb : Go.Big.bitLen s.2.1.natAbs ≤ 256 := (bitLen_le_iff _ _).2 (by omega)
  have hpos : s.2.1.natAbs ≠ 0 := by have := h.dl.big; omega
  have hne : s.2.1 ≠ 0 := fun h0 => hpos (by rw [h0]; rfl)
  have hp := bitLen_pos _ hpos
  obtain ⟨x, t, hxt, hx⟩ := Bytes_head s.2.1 hne
  refine ⟨⟨?_, ?_, ?_, ?_⟩, ?_⟩
  · rw [Bytes_size]; omega
  · rw [Bytes_size]; omega
  · rw [Bytes_size]; omega
  · rw [hxt]; simpa using hx
  · rw [beNat_Bytes]; exact h.dl.val

theorem beNat_lt (sig : Go.Bytes) : Spec.beNat sig < 256 ^ sig.size := by
  rw [beNat_eq]
  have := beL_lt sig.toList
  rwa [Array.length_toList] at this

theorem huge_big (sig : Go.Bytes) (hsz : sig.size < 2 ^ 63) (h1 : 1 ≤ sig.size)
    (hd : sig.toList.getD 0 0 ≠ 0) (hc : decide (Go.len sig > (32 : Int64)) = true) :
    2 ^ 256 ≤ Spec.beNat sig := by
  rw [i64_gt_lit, len_toInt sig hsz, i64_32] at hc
  have h32 : 32 ≤ sig.size - 1 := by omega
  have := beNat_ge sig h1 hd
  have e : (2 : Nat) ^ 256 = 256 ^ 32 := by norm_num
  rw [e]
  exact Nat.le_trans (Nat.pow_le_pow_right (by norm_num) h32) this

theorem huge_ovf (sig : Go.Bytes) (hsz : sig.size < 2 ^ 63) (h1 : 1 ≤ sig.size)
    (hd : sig.toList.getD 0 0 ≠ 0) (exp : Int32) (V0 : ℚ)
    (hV : (Spec.beNat sig : ℚ) * (10 : ℚ) ^ exp.toInt = V0)
    (hc : decide (Go.len sig > (32 : Int64)) = true) (ho : decide (exp > (6111 : Int32)) = true) :
    ¬ Member V0 := by
  have hb := huge_big sig hsz h1 hd hc
  rw [i32_gt_lit, i32_6111] at ho
  intro hm
  rw [← hV] at hm
  have := member_hi (by rw [Emax_val]; exact ho) hm
  have := Cmax_val
  omega

theorem huge_init (sig : Go.Bytes) (hsz : sig.size < 2 ^ 60) (h1 : 1 ≤ sig.size)
    (hd : sig.toList.getD 0 0 ≠ 0) (exp : Int32) (V0 : ℚ)
    (hV : (Spec.beNat sig : ℚ) * (10 : ℚ) ^ exp.toInt = V0)
    (hc : decide (Go.len sig > (32 : Int64)) = true) (ho : ¬ decide (exp > (6111 : Int32)) = true) :
    IB V0 (exp, Go.BigInt.SetBytes sig, 0) := by
  have hb := huge_big sig (by omega) h1 hd hc
  rw [i32_gt_lit, i32_6111] at ho
  have hC := Cmax_val
  have e : (Go.BigInt.SetBytes sig).natAbs = Spec.beNat sig := by rw [SetBytes_eq]; rfl
  refine ⟨by rw [SetBytes_eq]; exact Int.natCast_nonneg _, ⟨?_, ?_, ?_⟩, ?_⟩
  · show Spec.Cmax < (Go.BigInt.SetBytes sig).natAbs; rw [e]; omega
  · show ((Go.BigInt.SetBytes sig).natAbs : ℚ) * _ = V0; rw [e]; exact hV
  · show exp.toInt ≤ 6111; omega
  · show Go.Big.bitLen (Go.BigInt.SetBytes sig).natAbs < 2 ^ 63
    rw [e]
    have h2 : Go.Big.bitLen (Spec.beNat sig) ≤ 8 * sig.size := by
      rw [bitLen_le_iff, Nat.pow_mul]
      exact beNat_lt sig
    omega

theorem big_triple (d : Gen.Decimal) (neg : Bool) (sig : Go.Bytes) (exp : Int32)
    (hsz : sig.size < 2 ^ 60) (h1 : 1 ≤ sig.size) (hd : sig.toList.getD 0 0 ≠ 0)
    (V0 : ℚ) (hV : (Spec.beNat sig : ℚ) * (10 : ℚ) ^ exp.toInt = V0) :
    ⦃⌜True⌝⦄ big d neg sig exp ⦃⇓ r => ⌜Res d neg V0 r⌝⦄ := by
  mvcgen [big]
  case inv1 => exact fun s => ⟨s.2.2.1.natAbs⟩
  case inv2 =>
    exact ⇓ x => match x with
      | .inl s => ⌜InvSt (IB V0) s⌝
      | .inr s => ⌜ExitSt d V0 (XB V0) s⌝
  case vc1 =>
    rename_i hc ho
    exact Res.err (huge_ovf sig (by omega) h1 hd exp V0 hV hc ho)
  case vc3 =>
    rename_i b mb _ e _ _ _ hc hinv r bs rm hr hq
    subst hq
    exact ExitSt.ret d V0 (XB V0) (e, bs, rm) (IB_rem V0 b.2 hinv.2.2 hc hr)
  case vc4 =>
    rename_i b mb _ _ _ _ _ hc hinv r bs rm hr e ho hq
    subst hq
    exact ExitSt.ret d V0 (XB V0) (e, bs, rm) (IB_ovf V0 b.2 hinv.2.2 hc hr ho)
  case vc5 =>
    rename_i b mb _ _ _ _ _ hc hinv r bs rm hr e ho hq
    subst hq
    have hv : mb = b.2.2.1.natAbs := congrArg ULift.down hinv.1
    obtain ⟨h1', h2'⟩ := IB_step V0 b.2 hinv.2.2 hc hr ho
    exact ⟨_, rfl, by rw [hv]; exact h2', rfl, h1'⟩
  case vc6 =>
    rename_i b mb _ _ _ _ _ hc hinv
    exact IB_exit V0 b.2 hinv.2.2 hc
  case vc7 =>
    rename_i hc ho _ _
    exact ⟨rfl, huge_init sig hsz h1 hd exp V0 hV hc ho⟩
  case vc8 =>
    rename_i r _ _ _ _ _ a x h
    exact ExitSt.of_some (h : ExitSt d V0 (XB V0) r) x
  case vc9 =>
    rename_i r _ _ _ _ _ x _ h
    exact (ExitSt.of_none (h : ExitSt d V0 (XB V0) r) x).sz
  case vc10 =>
    rename_i r1 _ _ _ _ _ x _ h r
    intro hres
    rw [← (ExitSt.of_none (h : ExitSt d V0 (XB V0) r1) x).val]
    exact hres
  case vc12 =>
    rename_i hc
    rw [i64_gt_lit, len_toInt sig (by omega), i64_32] at hc
    exact ⟨by omega, h1, by omega, hd⟩
  case vc13 =>
    intro hres
    rw [← hV]
    exact hres
  all_goals exact ExceptConds.entails.refl _

theorem big_ok (d : Gen.Decimal) (neg : Bool) (sig : Go.Bytes) (exp : Int32)
    (hsz : sig.size < 2 ^ 60) (h1 : 1 ≤ sig.size) (hd : sig.toList.getD 0 0 ≠ 0) :
    ∃ r, big d neg sig exp = .ok r ∧
      Res d neg ((Spec.beNat sig : ℚ) * (10 : ℚ) ^ exp.toInt) r :=
  ok_of_triple (big_triple d neg sig exp hsz h1 hd _ rfl)

end CS
