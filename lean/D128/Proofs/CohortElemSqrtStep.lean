/-
  D128/Proofs/CohortElemSqrtStep.lean — property C19 for `Sqrt`, working-format part: the linear seed and the Heron
  iteration of `Root.sqrtCore` on two scaled arguments `nrm`, `nrm'` of ONE value (cohort members `⟨c, −L⟩`,
  `⟨c·10^k, −L−k⟩`).

  * The seed `nrm·mul + add` is computed exactly in both runs (flag 0); the two seeds have one value but in general
    DIFFERENT registers (`819·c + 259·10^L` against the same with `k` more zeros).
  * First Heron step: `quo nrm res0 0` against `quo nrm' res0' 0`.  By the dichotomy `CohortElem.quo_congr` (its `NoSkip`
    hypothesis holds because the quotient `ν/x₀` lies in `[0.713, 6.129)·10^n`, `n = 0` resp. `−1`) both quotients are exact
    — or both are inexact and then THE SAME full-width register with flag 1.  In the second case `add res0 tmp 1` does not
    see the representation of `res0` (`add_congr_o_full`), so after the first step the two states are identical.
  * From then on `sqrtStep nrm s = sqrtStep nrm' s` for EVERY state `s` (`quo_congr_left`).

  Provided (namespace `CohortElem`):
  * `SeedCase nrm mulc addc` : the two parity cases of `sqrtCore` (`val nrm ∈ [1,10)`, `0.819`, `0.259` / `[0.1,1)`, `2.59`, `0.0819`)
  * `seed_exact`      : `sqrtSeed nrm mulc addc = .ok (r, 0)`, `val r = val nrm·val mulc + val addc`, `0 < r.sig ≤ 10^45`,
                        `−44 ≤ r.exp ≤ 58`
  * `firstQuo nrm mulc addc` : seed followed by the first quotient `quo nrm res0 0` of the Heron loop
  * `sqrtRest`, `chain_prefix` : `firstQuo` is literally a prefix of `sqrtSeed … >>= iter (sqrtStep nrm) 8`
  * `seed_noskip`     : `NoSkip (val nrm / (val nrm·val mulc + val addc))`
  * `sqrtStep_first`  : seeds `r0 ≈ r0'`, first quotient of either run inexact ⇒ `sqrtStep nrm (r0,0) = sqrtStep nrm' (r0',0)`
  * `sqrtStep_congr_nrm`, `iter_congr_fun` : `sqrtStep nrm s = sqrtStep nrm' s` for every `s`; `iter` of equal step functions
  * `sqrt_chain_congr`: `sqrtSeed nrm mulc addc >>= iter (sqrtStep nrm) 8 = sqrtSeed nrm' mulc addc >>= iter (sqrtStep nrm') 8`
                        when `firstQuo nrm mulc addc` returns flag 1
  * `firstQuo_inexact`: arithmetic criterion: seed value `A·10^E`, `∀ n, ¬ A ∣ nrm.sig·10^n` ⇒ `firstQuo` returns flag 1
                        (not conversely: `A ∣ nrm.sig·10^n` with a quotient of more than 57 digits is inexact as well)
-/
import D128.Proofs.CohortElemQuoCongr
import D128.Proofs.CohortElemAddCongr
import D128.Proofs.D192RootSqrtMain
set_option autoImplicit false
set_option maxRecDepth 4096
set_option exponentiation.threshold 512
set_option linter.unusedVariables false
open D128.Proofs.WordsWide

namespace CohortElem
open Gen D192 Root

/-- the two parity cases of `Root.sqrtCore` -/
def SeedCase (nrm mulc addc : decomposed192) : Prop :=
  (1 ≤ val nrm ∧ val nrm < 10 ∧
      mulc = { sig := { w0 := 819, w1 := 0, w2 := 0 }, exp := -3 } ∧
      addc = { sig := { w0 := 259, w1 := 0, w2 := 0 }, exp := -3 }) ∨
  (1 / 10 ≤ val nrm ∧ val nrm < 1 ∧
      mulc = { sig := { w0 := 259, w1 := 0, w2 := 0 }, exp := -2 } ∧
      addc = { sig := { w0 := 819, w1 := 0, w2 := 0 }, exp := -4 })

theorem SeedCase.congr {nrm nrm' mulc addc : decomposed192} (h : SeedCase nrm mulc addc) (hv : val nrm = val nrm') :
    SeedCase nrm' mulc addc := by
  unfold SeedCase at *; rw [← hv]; exact h

/-- the constants of the seed as rationals -/
theorem SeedCase.consts {nrm mulc addc : decomposed192} (h : SeedCase nrm mulc addc) :
    (1 ≤ val nrm ∧ val nrm < 10 ∧ val mulc = 819 / 1000 ∧ val addc = 259 / 1000 ∧
      mulc.exp.toInt = -3 ∧ addc.exp.toInt = -3 ∧ mulc.sig.toNat = 819) ∨
    (1 / 10 ≤ val nrm ∧ val nrm < 1 ∧ val mulc = 259 / 100 ∧ val addc = 819 / 10000 ∧
      mulc.exp.toInt = -2 ∧ addc.exp.toInt = -4 ∧ mulc.sig.toNat = 259) := by
  have e3 : (-3 : Int16).toInt = -3 := by decide
  have e2 : (-2 : Int16).toInt = -2 := by decide
  have e4 : (-4 : Int16).toInt = -4 := by decide
  rcases h with ⟨h1, h2, hm, ha⟩ | ⟨h1, h2, hm, ha⟩
  · refine Or.inl ⟨h1, h2, ?_, ?_, by rw [hm]; exact e3, by rw [ha]; exact e3, by rw [hm]; simp [U192.toNat]⟩
    · rw [hm, val_small, e3, show (819 : UInt64).toNat = 819 from rfl]; norm_num
    · rw [ha, val_small, e3, show (259 : UInt64).toNat = 259 from rfl]; norm_num
  · refine Or.inr ⟨h1, h2, ?_, ?_, by rw [hm]; exact e2, by rw [ha]; exact e4, by rw [hm]; simp [U192.toNat]⟩
    · rw [hm, val_small, e2, show (259 : UInt64).toNat = 259 from rfl]; norm_num
    · rw [ha, val_small, e4, show (819 : UInt64).toNat = 819 from rfl]; norm_num

/-- **the linear seed is exact** (cf. `Root.sqrtSeed_inv`, which records the invariant only) -/
theorem seed_exact (nrm mulc addc : decomposed192)
    (hn0 : nrm.sig.toNat ≠ 0) (hnC : nrm.sig.toNat ≤ Spec.Cmax)
    (hne0 : -39 ≤ nrm.exp.toInt) (hne1 : nrm.exp.toInt ≤ 0) (hcase : SeedCase nrm mulc addc) :
    ∃ r, sqrtSeed nrm mulc addc = .ok (r, 0) ∧ val r = val nrm * val mulc + val addc ∧
      r.sig.toNat ≠ 0 ∧ r.sig.toNat ≤ 10 ^ 45 ∧ -44 ≤ r.exp.toInt ∧ r.exp.toInt ≤ 58 ∧ val r < 10 := by
  have hν0 : 0 < val nrm := val_pos_of_sig nrm hn0
  obtain ⟨μ, α, hμ, hα, hme, hae, hms, hμ0, hα0, hx10⟩ : ∃ μ α : ℚ, val mulc = μ ∧ val addc = α ∧
      (mulc.exp.toInt = -3 ∨ mulc.exp.toInt = -2) ∧ (addc.exp.toInt = -3 ∨ addc.exp.toInt = -4) ∧
      mulc.sig.toNat ≤ 1000 ∧ 0 < μ ∧ 0 < α ∧ val nrm * μ + α < 10 := by
    rcases hcase.consts with ⟨h1, h2, hm, ha, em, ea, sm⟩ | ⟨h1, h2, hm, ha, em, ea, sm⟩
    · exact ⟨_, _, hm, ha, Or.inl em, Or.inl ea, by omega, by norm_num, by norm_num, by linarith⟩
    · exact ⟨_, _, hm, ha, Or.inr em, Or.inr ea, by omega, by norm_num, by norm_num, by linarith⟩
  -- the multiplication is exact
  obtain ⟨m1, t1, hm, a1, a2, -, ae0, ae1, ax⟩ := mul_rel nrm mulc 0
    (by rcases hme with h | h <;> omega) (by rcases hme with h | h <;> omega)
  have hm1sig : m1.sig.toNat ≤ nrm.sig.toNat * mulc.sig.toNat :=
    sig_le_of_val m1 _ _ (by rw [← val_mul]; exact a2) ae0
  have hprod : nrm.sig.toNat * mulc.sig.toNat < 2 ^ 192 / 10 := by
    calc nrm.sig.toNat * mulc.sig.toNat ≤ Spec.Cmax * 1000 := Nat.mul_le_mul hnC hms
      _ < 2 ^ 192 / 10 := by unfold Spec.Cmax; norm_num
  obtain ⟨hv1, ht1, -⟩ := ax (by omega)
  rw [hμ] at hv1
  -- the addition is exact
  obtain ⟨r, t2, ha, b1, b2, -, be0, be1, bx⟩ := add_rel m1 addc t1
    (by rcases hme with h | h <;> rcases hae with h' | h' <;> omega)
    (by rcases hme with h | h <;> rcases hae with h' | h' <;> omega)
    (by rcases hme with h | h <;> omega) (by rcases hae with h' | h' <;> omega)
  rw [hv1, hα] at b1 b2 bx
  have hrexp : -44 ≤ r.exp.toInt := by
    have := min_le_left m1.exp.toInt addc.exp.toInt
    rcases min_choice m1.exp.toInt addc.exp.toInt with h | h <;>
      rcases hme with h1 | h1 <;> rcases hae with h' | h' <;> omega
  have hrexp' : r.exp.toInt ≤ 58 := by
    rcases max_choice m1.exp.toInt addc.exp.toInt with h | h <;>
      rcases hme with h1 | h1 <;> rcases hae with h' | h' <;> omega
  have hrsig : r.sig.toNat ≤ 10 ^ 45 := by
    apply sig_le_of_val r (10 ^ 45) (-44) _ hrexp
    have : ((10 ^ 45 : ℕ) : ℚ) * (10 : ℚ) ^ (-44 : Int) = 10 := by
      push_cast; rw [zpow_neg]; norm_num
    rw [this]; linarith
  obtain ⟨hv, ht2, -, -⟩ := bx (lt_of_le_of_lt hrsig (by unfold LIM; norm_num))
  have hxpos : 0 < val nrm * μ + α := by positivity
  have ht : t2 = 0 := by rw [ht2, ht1]
  subst ht
  refine ⟨r, ?_, by rw [hv, hμ, hα], sig_ne_of_val_pos r (by rw [hv]; exact hxpos), hrsig, hrexp, hrexp', by rw [hv]; exact hx10⟩
  show (decomposed192.mul nrm mulc 0 >>= fun x => decomposed192.add x.1 addc x.2 >>= fun x =>
      pure (x.1, x.2)) = _
  rw [hm]
  show (decomposed192.add m1 addc t1 >>= fun x => pure (x.1, x.2)) = _
  rw [ha]; rfl

/-- the seed followed by the first quotient of the Heron loop -/
def firstQuo (nrm mulc addc : decomposed192) : Go.GoM (decomposed192 × Int8) := do
  let s ← sqrtSeed nrm mulc addc
  decomposed192.quo nrm s.1 s.2

/-- what the Heron loop does after its first quotient `x`: the rest of the first step, then seven more steps -/
def sqrtRest (nrm : decomposed192) (s x : decomposed192 × Int8) : Go.GoM (decomposed192 × Int8) := do
  let x1 ← decomposed192.add s.1 x.1 x.2
  let x2 ← decomposed192.mul { sig := { w0 := 5, w1 := 0, w2 := 0 }, exp := -1 } x1.1 x1.2
  iter (sqrtStep nrm) 7 (x2.1, x2.2)

/-- `firstQuo` is literally a prefix of "seed, then eight Heron steps" -/
theorem chain_prefix (nrm mulc addc : decomposed192) :
    (sqrtSeed nrm mulc addc >>= iter (sqrtStep nrm) 8)
      = (sqrtSeed nrm mulc addc >>= fun s => decomposed192.quo nrm s.1 s.2 >>= fun x => sqrtRest nrm s x) := by
  refine congrArg _ (funext fun s => ?_)
  rw [iter_succ]
  unfold sqrtRest
  show (sqrtStep nrm s >>= iter (sqrtStep nrm) 7) = _
  conv_lhs => unfold sqrtStep
  simp only [bind_assoc, pure_bind]
  rfl

/-- the first quotient `ν/x₀` has its leading digits outside `[6.129, 7.13)` -/
theorem seed_noskip {nrm mulc addc : decomposed192} (hcase : SeedCase nrm mulc addc) :
    NoSkip (val nrm / (val nrm * val mulc + val addc)) := by
  rcases hcase.consts with ⟨h1, h2, hm, ha, -⟩ | ⟨h1, h2, hm, ha, -⟩
  · rw [hm, ha]
    have hx : 0 < val nrm * (819 / 1000) + 259 / 1000 := by positivity
    refine noskip_of_decade _ 0 ?_ ?_
    · rw [le_div_iff₀ hx]; norm_num; linarith
    · rw [div_lt_iff₀ hx]; norm_num; linarith
  · rw [hm, ha]
    have hx : 0 < val nrm * (259 / 100) + 819 / 10000 := by
      have : 0 < val nrm := by linarith
      positivity
    refine noskip_of_decade _ (-1) ?_ ?_
    · rw [le_div_iff₀ hx]; norm_num; linarith
    · rw [div_lt_iff₀ hx]; norm_num; linarith

theorem lt_10LIM_of_le {n : Nat} (h : n ≤ 10 ^ 45) : n < 10 * LIM := by unfold LIM; omega
theorem cmax_lt' : Spec.Cmax < 10 * LIM := by unfold Spec.Cmax LIM; norm_num

/-- **first Heron step**: seeds of one value, scaled arguments of one value, and the first quotient of one of the two runs
is inexact: the two runs reach the same state -/
theorem sqrtStep_first (nrm nrm' r0 r0' : decomposed192) (hv : val nrm = val nrm') (hr : val r0 = val r0')
    (hn0 : nrm.sig.toNat ≠ 0) (hnC : nrm.sig.toNat ≤ Spec.Cmax) (hnC' : nrm'.sig.toNat ≤ Spec.Cmax)
    (hne : -39 ≤ nrm.exp.toInt ∧ nrm.exp.toInt ≤ 0) (hne' : -39 ≤ nrm'.exp.toInt ∧ nrm'.exp.toInt ≤ 0)
    (hr0 : r0.sig.toNat ≠ 0) (hrs : r0.sig.toNat ≤ 10 ^ 45) (hrs' : r0'.sig.toNat ≤ 10 ^ 45)
    (hre : -44 ≤ r0.exp.toInt ∧ r0.exp.toInt ≤ 58) (hre' : -44 ≤ r0'.exp.toInt ∧ r0'.exp.toInt ≤ 58)
    (hns : NoSkip (val nrm / val r0))
    (hq : (∃ x, decomposed192.quo nrm r0 0 = .ok x ∧ x.2 = 1) ∨
          (∃ x, decomposed192.quo nrm' r0' 0 = .ok x ∧ x.2 = 1)) :
    sqrtStep nrm (r0, 0) = sqrtStep nrm' (r0', 0) := by
  obtain ⟨r, s, r', s', hq1, hq2, hdi, p1, p2, p3, p4, p5, p6, p7, p8⟩ :=
    quo_congr nrm nrm' r0 r0' 0 0 hv hr hn0 hr0
      (Or.inl ⟨lt_of_le_of_lt hnC cmax_lt', lt_of_le_of_lt hnC' cmax_lt'⟩) (Or.inl hns)
      (by omega) (by omega) (by omega) (by omega)
  rcases hdi with ⟨e1, e2, e3, e4⟩ | ⟨-, -, e3, e4⟩
  · subst e1; subst e2; subst e3
    have hF := e4 (by unfold OLIM lim; omega)
    have hadd := add_congr_o_full r0 r0' r 1 hr (Or.inr ⟨lt_10LIM_of_le hrs, lt_10LIM_of_le hrs'⟩) hF.1
      (by omega) (by omega) (by omega)
    unfold sqrtStep
    show (decomposed192.quo nrm r0 0 >>= _) = (decomposed192.quo nrm' r0' 0 >>= _)
    rw [hq1, hq2]
    show (decomposed192.add r0 r 1 >>= _) = (decomposed192.add r0' r 1 >>= _)
    rw [hadd]
  · exfalso
    rcases hq with ⟨x, hx, hx1⟩ | ⟨x, hx, hx1⟩
    · rw [hq1] at hx; cases hx
      have hx1' : s = 1 := hx1
      rw [e3] at hx1'; exact absurd hx1' (by decide)
    · rw [hq2] at hx; cases hx
      have hx1' : s' = 1 := hx1
      rw [e4] at hx1'; exact absurd hx1' (by decide)

/-- **later Heron steps**: the step function does not see the representation of the scaled argument -/
theorem sqrtStep_congr_nrm (nrm nrm' : decomposed192) (hv : val nrm = val nrm')
    (hU : nrm.sig.toNat < 10 * LIM ↔ nrm'.sig.toNat < 10 * LIM)
    (he : -32000 ≤ nrm.exp.toInt) (he' : -32000 ≤ nrm'.exp.toInt) (s : decomposed192 × Int8) :
    sqrtStep nrm s = sqrtStep nrm' s := by
  unfold sqrtStep
  rw [quo_congr_left nrm nrm' s.1 s.2 hv hU he he']

theorem iter_congr_fun {α : Type} (f f' : α → Go.GoM α) (h : ∀ a, f a = f' a) (n : Nat) (a : α) :
    iter f n a = iter f' n a := by
  have : f = f' := funext h
  rw [this]

/-- **seed and eight Heron steps on two scaled arguments of one value** give the same state, provided the first quotient
(of the first run) is inexact -/
theorem sqrt_chain_congr (nrm nrm' mulc addc : decomposed192) (hv : val nrm = val nrm')
    (hn0 : nrm.sig.toNat ≠ 0) (hn0' : nrm'.sig.toNat ≠ 0)
    (hnC : nrm.sig.toNat ≤ Spec.Cmax) (hnC' : nrm'.sig.toNat ≤ Spec.Cmax)
    (hne : -39 ≤ nrm.exp.toInt ∧ nrm.exp.toInt ≤ 0) (hne' : -39 ≤ nrm'.exp.toInt ∧ nrm'.exp.toInt ≤ 0)
    (hcase : SeedCase nrm mulc addc)
    (hq : ∃ x, firstQuo nrm mulc addc = .ok x ∧ x.2 = 1) :
    (sqrtSeed nrm mulc addc >>= iter (sqrtStep nrm) 8) = (sqrtSeed nrm' mulc addc >>= iter (sqrtStep nrm') 8) := by
  obtain ⟨r0, hs, hv0, hz0, hs0, he0, he0', -⟩ := seed_exact nrm mulc addc hn0 hnC hne.1 hne.2 hcase
  obtain ⟨r0', hs', hv0', hz0', hs0', he1, he1', -⟩ :=
    seed_exact nrm' mulc addc hn0' hnC' hne'.1 hne'.2 (hcase.congr hv)
  have hq' : ∃ x, decomposed192.quo nrm r0 0 = .ok x ∧ x.2 = 1 := by
    unfold firstQuo at hq; rw [hs] at hq; exact hq
  have hr : val r0 = val r0' := by rw [hv0, hv0', hv]
  have hfirst := sqrtStep_first nrm nrm' r0 r0' hv hr hn0 hnC hnC' hne hne' hz0 hs0 hs0' ⟨he0, he0'⟩ ⟨he1, he1'⟩
    (by rw [hv0]; exact seed_noskip hcase) (Or.inl hq')
  have hU : nrm.sig.toNat < 10 * LIM ↔ nrm'.sig.toNat < 10 * LIM :=
    ⟨fun _ => lt_of_le_of_lt hnC' cmax_lt', fun _ => lt_of_le_of_lt hnC cmax_lt'⟩
  rw [hs, hs']
  show iter (sqrtStep nrm) 8 (r0, 0) = iter (sqrtStep nrm') 8 (r0', 0)
  rw [iter_succ, iter_succ, hfirst]
  refine congrArg _ (funext fun s => ?_)
  exact iter_congr_fun _ _ (sqrtStep_congr_nrm nrm nrm' hv hU (by omega) (by omega)) 7 s

/-! ### the arithmetic form of "the first quotient is inexact" -/

/-- if the seed is `A·10^E` and no `nrm.sig·10^n` is a multiple of `A`, the first quotient is inexact -/
theorem firstQuo_inexact (nrm mulc addc : decomposed192)
    (hn0 : nrm.sig.toNat ≠ 0) (hnC : nrm.sig.toNat ≤ Spec.Cmax)
    (hne : -39 ≤ nrm.exp.toInt ∧ nrm.exp.toInt ≤ 0) (hcase : SeedCase nrm mulc addc)
    (A : Nat) (E : Int) (hA : val nrm * val mulc + val addc = (A : ℚ) * (10 : ℚ) ^ E)
    (hdiv : ∀ n, ¬ A ∣ nrm.sig.toNat * 10 ^ n) :
    ∃ x, firstQuo nrm mulc addc = .ok x ∧ x.2 = 1 := by
  obtain ⟨r0, hs, hv0, hz0, hs0, he0, he0', -⟩ := seed_exact nrm mulc addc hn0 hnC hne.1 hne.2 hcase
  obtain ⟨r, t', a, b, c, hr, H⟩ := quo_sharp nrm r0 0 hn0 hz0
  refine ⟨(r, t'), by unfold firstQuo; rw [hs]; exact hr, ?_⟩
  have hb : b = 0 := by
    rcases H.b_min with h | h
    · exact h
    · have : r0.sig.toNat / 10 ^ (b - 1) ≤ r0.sig.toNat := Nat.div_le_self _ _
      unfold OLIM lim at h; omega
  subst hb
  have hfl := H.flag
  simp only [Nat.pow_zero, Nat.mod_one, Nat.div_one, true_and] at hfl
  show t' = 1
  rw [hfl, if_neg]
  intro hz
  have hdvd : r0.sig.toNat ∣ nrm.sig.toNat * 10 ^ (a + c) := by
    rw [Nat.pow_add, ← Nat.mul_assoc]; exact Nat.dvd_of_mod_eq_zero hz
  have hval : (r0.sig.toNat : ℚ) * (10 : ℚ) ^ r0.exp.toInt = (A : ℚ) * (10 : ℚ) ^ E := by
    rw [← hA, ← hv0]; rfl
  rcases le_total E r0.exp.toInt with hle | hle
  · have := q_eq_nat hval hle
    apply hdiv (a + c + (r0.exp.toInt - E).toNat)
    rw [this, Nat.pow_add, ← Nat.mul_assoc]
    exact Nat.mul_dvd_mul_right hdvd _
  · have := q_eq_nat hval.symm hle
    apply hdiv (a + c)
    exact Nat.dvd_trans (this ▸ Nat.dvd_mul_right A _) hdvd

/-- a cofactor `p` of the seed integer that is coprime to `10` and does not divide `c` excludes an exact first quotient -/
theorem no_dvd_of_cofactor (A c p : Nat) (hpA : p ∣ A) (hp10 : Nat.Coprime p 10) (hpc : ¬ p ∣ c) :
    ∀ n, ¬ A ∣ c * 10 ^ n := by
  intro n hd
  have h1 : p ∣ c * 10 ^ n := Dvd.dvd.trans hpA hd
  exact hpc ((Nat.Coprime.pow_right n hp10).dvd_of_dvd_mul_right h1)

/-! ### the hypotheses are satisfiable: `ν = 2` written `2e0` and `2000e-3`, seed `1.897 = 7·271·10^-3` -/

namespace ExSqrt
def n2 : decomposed192 := ⟨⟨2, 0, 0⟩, 0⟩
def n2' : decomposed192 := ⟨⟨2000, 0, 0⟩, -3⟩
def m819 : decomposed192 := { sig := { w0 := 819, w1 := 0, w2 := 0 }, exp := -3 }
def a259 : decomposed192 := { sig := { w0 := 259, w1 := 0, w2 := 0 }, exp := -3 }

theorem s2 : n2.sig.toNat = 2 := by decide
theorem s2' : n2'.sig.toNat = 2000 := by decide
theorem v2 : val n2 = 2 := by
  unfold val; rw [s2, show n2.exp.toInt = 0 by decide]; norm_num
theorem v2' : val n2' = 2 := by
  unfold val; rw [s2', show n2'.exp.toInt = -3 by decide]; norm_num
theorem case2 : SeedCase n2 m819 a259 := Or.inl ⟨by rw [v2]; norm_num, by rw [v2]; norm_num, rfl, rfl⟩
theorem c2 : n2.sig.toNat ≤ Spec.Cmax := by rw [s2]; unfold Spec.Cmax; norm_num
theorem c2' : n2'.sig.toNat ≤ Spec.Cmax := by rw [s2']; unfold Spec.Cmax; norm_num

theorem hq2 : ∃ x, firstQuo n2 m819 a259 = .ok x ∧ x.2 = 1 := by
  refine firstQuo_inexact n2 m819 a259 (by decide) c2 (by decide) case2 1897 (-3) ?_ ?_
  · rcases case2.consts with ⟨-, -, hm, ha, -⟩ | ⟨-, h, -⟩
    · rw [hm, ha, v2]; norm_num
    · rw [v2] at h; norm_num at h
  · rw [s2]; exact no_dvd_of_cofactor 1897 2 271 (by norm_num) (by decide) (by norm_num)
end ExSqrt

example := seed_exact ExSqrt.n2 ExSqrt.m819 ExSqrt.a259 (by decide) ExSqrt.c2 (by decide) (by decide) ExSqrt.case2
example : (sqrtSeed ExSqrt.n2 ExSqrt.m819 ExSqrt.a259 >>= iter (sqrtStep ExSqrt.n2) 8)
    = (sqrtSeed ExSqrt.n2' ExSqrt.m819 ExSqrt.a259 >>= iter (sqrtStep ExSqrt.n2') 8) :=
  sqrt_chain_congr _ _ _ _ (by rw [ExSqrt.v2, ExSqrt.v2']) (by decide) (by decide) ExSqrt.c2 ExSqrt.c2'
    (by decide) (by decide) ExSqrt.case2 ExSqrt.hq2

end CohortElem
