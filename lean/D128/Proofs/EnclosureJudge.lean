/-
  Soundness of the enclosure oracle, part 10: the general (enclosure-based) path of `Spec.judgeElem`.

  0. `realFn f` : the real function a `Spec.Fn` denotes (`exp`, `2^·`, `10^·`, `exp − 1`, `log`, `logb 2`,
     `logb 10`, `log(1+·)`, `√`, `∛` is not used and set to 0)
     `CertOk f n c e` : the checkable side conditions on the certified-logarithm brackets (`LogOk`), and for
     `log1p` the domain condition −1 < X
  1. `trueValue_sound` : trueValue f n c e = some (tn, t) → ∃ T, 0 < T ∧ T ∈ₛ t ∧ realFn f X = ±T  (sign tn)
  2. `judgeElem_general` : on the general path `judgeElem` is
        NaN result → bad; wrong sign → bad; otherwise `withinUlps |r| t`
     `withinUlps_lo_pos` : an `.ok`/`.bad` verdict of `withinUlps` implies 0 < t.m.lo
  3. `judge_bad_finite`, `judge_bad_zero`, `judge_bad_inf`, `judge_ok_finite` : meaning of the verdicts over the reals
     (assembled in `D128/Props/C16.lean`)
-/
import D128.Proofs.EnclosureUlps
set_option autoImplicit false

namespace EnclPf
open Spec Spec.Encl SpecRound

/-! ## 0. the real functions -/

/-- the real function denoted by `f` (roots are not judged through enclosures) -/
noncomputable def realFn : Fn → ℝ → ℝ
  | .exp, x => Real.exp x
  | .exp2, x => (2 : ℝ) ^ x
  | .exp10, x => (10 : ℝ) ^ x
  | .expm1, x => Real.exp x - 1
  | .log, x => Real.log x
  | .log2, x => Real.logb 2 x
  | .log10, x => Real.logb 10 x
  | .log1p, x => Real.log (1 + x)
  | .sqrt, _ => 0
  | .cbrt, _ => 0

/-- side conditions that cannot be derived from the operand: the brackets returned by the `Float`-seeded
    certified logarithm are of moderate magnitude; for `log1p` also the domain condition −1 < X -/
def CertOk (f : Fn) (n : Bool) (c : Nat) (e : Int) : Prop :=
  match f with
  | .log | .log2 | .log10 => LogOk (c : ℚ) e
  | .log1p => LogOk (c : ℚ) e ∧ LogOk (1 + (Val.fin n c e).toRat) 0 ∧ (n = true → |X n c e| < 1)
  | _ => True

/-! ## 1. `trueValue` -/

theorem trueValue_sound (f : Fn) (n : Bool) (c : Nat) (e : Int) (tn : Bool) (t : Sci)
    (hc0 : c ≠ 0) (hc : c < 10 ^ 35) (hcert : CertOk f n c e)
    (h : trueValue f n c e = some (tn, t)) :
    ∃ T : ℝ, 0 < T ∧ T ∈ₛ t ∧ realFn f (X n c e) = if tn then -T else T := by
  cases f
  · obtain ⟨rfl, hs⟩ := trueValue_exp_sound n c e tn t hc0 hc h
    exact ⟨_, Real.exp_pos _, hs, by simp [realFn]⟩
  · obtain ⟨rfl, hs⟩ := trueValue_exp2_sound n c e tn t hc0 hc h
    exact ⟨_, Real.rpow_pos_of_pos (by norm_num) _, hs, by simp [realFn]⟩
  · obtain ⟨rfl, hs⟩ := trueValue_exp10_sound n c e tn t hc0 hc h
    exact ⟨_, Real.rpow_pos_of_pos (by norm_num) _, hs, by simp [realFn]⟩
  · exact trueValue_expm1_sound n c e tn t hc0 hc h
  · exact trueValue_log_sound n c e tn t hc0 hcert h
  · exact trueValue_log2_sound n c e tn t hc0 hcert h
  · exact trueValue_log10_sound n c e tn t hc0 hcert h
  · exact trueValue_log1p_sound n c e tn t hc0 hc hcert.2.2 hcert.1 hcert.2.1 h
  · exact absurd h (by simp [trueValue])
  · exact absurd h (by simp [trueValue])

/-! ## 2. the general path of `judgeElem` -/

/-- the magnitude of a result, as passed to `withinUlps` -/
def magVal (r : Val) : Val := match r with | .fin _ c e => .fin false c e | .inf _ => .inf false | v => v

/-- arguments of the exp family that are judged by the overflow/underflow rule -/
def hugeArg (f : Fn) (c : Nat) (e : Int) : Bool :=
  (f == .exp || f == .exp2 || f == .exp10 || f == .expm1) && e + (ndigits c : Int) > 7

theorem judgeElem_general (f : Fn) (n : Bool) (c : Nat) (e : Int) (r : Val) (ne : Bool) (tn : Bool) (t : Sci)
    (hspec : specialCase f (.fin n c e) = none)
    (hexact : (if ne then exactCase f n c e else none) = none)
    (hhuge : hugeArg f c e = false)
    (htv : trueValue f n c e = some (tn, t)) :
    judgeElem f (.fin n c e) r ne =
      if r.isNaN then .bad "NaN from a finite operand in the domain"
      else if !r.isZero && !r.isNaN && r.neg != tn then .bad "wrong sign"
      else withinUlps (magVal r) t := by
  unfold judgeElem
  unfold hugeArg at hhuge
  simp only [hspec, hexact, hhuge, htv, Bool.false_eq_true, if_false]
  rfl

theorem withinUlps_lo_pos {r : Val} {t : Sci} {x : ℚ}
    (h : withinUlps r t x = .ok ∨ ∃ m, withinUlps r t x = .bad m) : 0 < t.m.lo := by
  by_contra hn
  have hn : t.m.lo ≤ 0 := not_lt.1 hn
  unfold withinUlps at h
  simp only [hn, if_true] at h
  rcases h with h | ⟨m, h⟩ <;> exact absurd h (by simp)

/-! ## 3. meaning of the verdicts -/

section
variable (f : Fn) (n : Bool) (c : Nat) (e : Int) (ne : Bool) (tn : Bool) (t : Sci)

theorem sciMem_pos {T : ℝ} {t : Sci} (hT : T ∈ₛ t) (hlo : 0 < t.m.lo) : 0 < T := by
  obtain ⟨z, hz, rfl⟩ := hT
  have : (0 : ℝ) < (t.m.lo : ℝ) := by exact_mod_cast hlo
  exact mul_pos (lt_of_lt_of_le this hz.1) (zpow_pos (by norm_num) _)

/-- a finite non-zero result judged `.bad` on the general path: either its sign is strictly opposite to the
    sign of the true value, or it is more than one ulp (spacing at the upper end of the enclosure, `eT`) away from
    it, or the true value overflows (`≥ 10^(Emax+41)`), or the lower end of the enclosure underflows, or the
    decimal exponent of the result is more than 120 away from the enclosure's -/
theorem judge_bad_finite (rn : Bool) (rc : Nat) (re : Int) (msg : String)
    (hspec : specialCase f (.fin n c e) = none)
    (hexact : (if ne then exactCase f n c e else none) = none)
    (hhuge : hugeArg f c e = false)
    (htv : trueValue f n c e = some (tn, t))
    (hc0 : c ≠ 0) (hc : c < 10 ^ 35) (hcert : CertOk f n c e) (hrc : rc ≠ 0)
    (h : judgeElem f (.fin n c e) (.fin rn rc re) ne = .bad msg) :
    X rn rc re * realFn f (X n c e) < 0 ∨
    (10 : ℝ) ^ (eT t) < |X rn rc re - realFn f (X n c e)| ∨
    (10 : ℝ) ^ (Emax + 41) ≤ |realFn f (X n c e)| ∨
    (t.m.lo : ℝ) * (10 : ℝ) ^ t.k < (10 : ℝ) ^ (Emin - 40) ∨ (re - t.k > 120 ∨ re - t.k < -120) := by
  obtain ⟨T, hTpos, hT, hF⟩ := trueValue_sound f n c e tn t hc0 hc hcert htv
  rw [judgeElem_general f n c e _ ne tn t hspec hexact hhuge htv] at h
  have hz : (Val.fin rn rc re).isZero = false := by
    cases rc with
    | zero => exact absurd rfl hrc
    | succ k => rfl
  simp only [Val.isNaN, Bool.false_eq_true, if_false, hz, Bool.not_false, Bool.true_and, Val.neg] at h
  have hRabs : |X rn rc re| = (rc : ℝ) * (10 : ℝ) ^ re := abs_X rn rc re
  have hRpos : (0 : ℝ) < (rc : ℝ) * (10 : ℝ) ^ re := by
    have : (0 : ℝ) < (rc : ℝ) := by exact_mod_cast Nat.pos_of_ne_zero hrc
    positivity
  split at h
  · -- wrong sign
    rename_i hsgn
    have hne : rn ≠ tn := by simpa using hsgn
    left
    rw [hF, X_eq]
    cases rn <;> cases tn <;> simp_all
  · -- withinUlps
    have hw : withinUlps (.fin false rc re) t = .bad msg := h
    have hlo := withinUlps_lo_pos (Or.inr ⟨msg, hw⟩)
    rename_i hsgn
    have hsame : rn = tn := by simpa using hsgn
    have hval : X rn rc re - realFn f (X n c e) = (if tn then -1 else 1) * ((rc : ℝ) * (10 : ℝ) ^ re - T) := by
      rw [hF, X_eq, hsame]; cases tn <;> simp only [if_true, if_false, Bool.false_eq_true] <;> ring
    have habs : |X rn rc re - realFn f (X n c e)| = |(rc : ℝ) * (10 : ℝ) ^ re - T| := by
      rw [hval, abs_mul]; cases tn <;> simp
    have hFabs : |realFn f (X n c e)| = T := by
      rw [hF]; cases tn <;> simp [abs_of_pos hTpos]
    rw [habs, hFabs]
    right
    exact withinUlps_bad_sound0 hrc hlo hT hw

/-- a zero result judged `.bad` on the general path: the true value is more than one subnormal ulp
    (`10^Emin`) away from zero -/
theorem judge_bad_zero (rn : Bool) (re : Int) (msg : String)
    (hspec : specialCase f (.fin n c e) = none)
    (hexact : (if ne then exactCase f n c e else none) = none)
    (hhuge : hugeArg f c e = false)
    (htv : trueValue f n c e = some (tn, t))
    (hc0 : c ≠ 0) (hc : c < 10 ^ 35) (hcert : CertOk f n c e)
    (h : judgeElem f (.fin n c e) (.fin rn 0 re) ne = .bad msg) :
    (10 : ℝ) ^ Emin < |realFn f (X n c e)| := by
  obtain ⟨T, hTpos, hT, hF⟩ := trueValue_sound f n c e tn t hc0 hc hcert htv
  rw [judgeElem_general f n c e _ ne tn t hspec hexact hhuge htv] at h
  simp only [Val.isNaN, Val.isZero, Bool.false_eq_true, if_false, Bool.not_true, Bool.false_and] at h
  have hw : withinUlps (.fin false 0 re) t = .bad msg := h
  have hlo := withinUlps_lo_pos (Or.inr ⟨msg, hw⟩)
  have hFabs : |realFn f (X n c e)| = T := by
    rw [hF]; cases tn <;> simp [abs_of_pos hTpos]
  rw [hFabs]
  exact withinUlps_zero_bad hlo hT hw

/-- a finite non-zero result judged `.ok` on the general path has the sign of the true value and is within
    one ulp (spacing at the upper end of the enclosure) plus the width of the enclosure of it -/
theorem judge_ok_finite (rn : Bool) (rc : Nat) (re : Int)
    (hspec : specialCase f (.fin n c e) = none)
    (hexact : (if ne then exactCase f n c e else none) = none)
    (hhuge : hugeArg f c e = false)
    (htv : trueValue f n c e = some (tn, t))
    (hc0 : c ≠ 0) (hc : c < 10 ^ 35) (hcert : CertOk f n c e) (hrc : rc ≠ 0)
    (h : judgeElem f (.fin n c e) (.fin rn rc re) ne = .ok) :
    rn = tn ∧
    |X rn rc re - realFn f (X n c e)| ≤
      (10 : ℝ) ^ (eT t) + ((t.m.hi : ℝ) - (t.m.lo : ℝ)) * (10 : ℝ) ^ t.k := by
  obtain ⟨T, hTpos, hT, hF⟩ := trueValue_sound f n c e tn t hc0 hc hcert htv
  rw [judgeElem_general f n c e _ ne tn t hspec hexact hhuge htv] at h
  have hz : (Val.fin rn rc re).isZero = false := by
    cases rc with
    | zero => exact absurd rfl hrc
    | succ k => rfl
  simp only [Val.isNaN, Bool.false_eq_true, if_false, hz, Bool.not_false, Bool.true_and, Val.neg] at h
  split at h
  · exact absurd h (by simp)
  · have hw : withinUlps (.fin false rc re) t = .ok := h
    have hlo := withinUlps_lo_pos (Or.inl hw)
    rename_i hsgn
    have hsame : rn = tn := by simpa using hsgn
    refine ⟨hsame, ?_⟩
    have hval : X rn rc re - realFn f (X n c e) = (if tn then -1 else 1) * ((rc : ℝ) * (10 : ℝ) ^ re - T) := by
      rw [hF, X_eq, hsame]; cases tn <;> simp only [if_true, if_false, Bool.false_eq_true] <;> ring
    have habs : |X rn rc re - realFn f (X n c e)| = |(rc : ℝ) * (10 : ℝ) ^ re - T| := by
      rw [hval, abs_mul]; cases tn <;> simp
    rw [habs]
    have := withinUlps_fin_ok (n := false) hrc hlo (le_refl 0) hT hw
    simpa using this

/-- an infinite result judged `.bad` on the general path: it has the wrong sign, or the lower end of the
    enclosure is below `10^(Emax+31)`, or `|f(x)|` plus one ulp is below the largest finite Decimal -/
theorem judge_bad_inf (rn : Bool) (msg : String)
    (hspec : specialCase f (.fin n c e) = none)
    (hexact : (if ne then exactCase f n c e else none) = none)
    (hhuge : hugeArg f c e = false)
    (htv : trueValue f n c e = some (tn, t))
    (hc0 : c ≠ 0) (hc : c < 10 ^ 35) (hcert : CertOk f n c e)
    (h : judgeElem f (.fin n c e) (.inf rn) ne = .bad msg) :
    rn ≠ tn ∨
    (t.m.lo : ℝ) * (10 : ℝ) ^ t.k < (10 : ℝ) ^ (Emax + 31) ∨
    |realFn f (X n c e)| + (10 : ℝ) ^ (eT t) < (Cmax : ℝ) * (10 : ℝ) ^ Emax := by
  obtain ⟨T, hTpos, hT, hF⟩ := trueValue_sound f n c e tn t hc0 hc hcert htv
  rw [judgeElem_general f n c e _ ne tn t hspec hexact hhuge htv] at h
  simp only [Val.isNaN, Val.isZero, Bool.false_eq_true, if_false, Bool.not_false, Bool.true_and, Val.neg] at h
  split at h
  · rename_i hsgn
    left; simpa using hsgn
  · right
    have hw : withinUlps (.inf false) t = .bad msg := h
    have hlo := withinUlps_lo_pos (Or.inr ⟨msg, hw⟩)
    have hFabs : |realFn f (X n c e)| = T := by
      rw [hF]; cases tn <;> simp [abs_of_pos hTpos]
    rw [hFabs]
    exact withinUlps_inf_bad hlo hT hw

end

end EnclPf
