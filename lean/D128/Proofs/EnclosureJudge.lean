/-
  Soundness of the enclosure oracle, part 10: the general (enclosure-based) path of `Spec.judgeElem`,
  without side hypotheses: the verdicts are statements about the real number `f(x)`.

  0. `realFn f` : the real function a `Spec.Fn` denotes (`exp`, `2^·`, `10^·`, `exp − 1`, `log`, `logb 2`,
     `logb 10`, `log(1+·)`; roots are judged exactly by `rootOk`, not here)
     `specialCase_none` : what `specialCase f (.fin n c e) = none` says (c ≠ 0, domain of the logarithms)
  1. `trueValue_sound` : specialCase … = none → c < 10^35 → trueValue f n c e = some (tn, t) →
                         ∃ T, 0 < T ∧ T ∈ₛ t ∧ realFn f X = ±T  (sign tn)
  2. `judgeElem_general` : on the general path `judgeElem` is
        NaN result → bad; wrong sign → bad; otherwise `withinUlps |r| t`
     `withinUlps_lo_pos` : an `.ok`/`.bad` verdict of `withinUlps` implies 0 < t.m.lo
  3. `GeneralViolation F r` : the claim of C16 that the result `r` violates for the true value `F` — stated with
     the unit in the last place `10^(ulpExp |F|)` at the real number itself, no enclosure in sight
     `general_bad_sound` : `.bad` on the general path ⇒ `GeneralViolation (realFn f X) r`
     `general_ok_sound`  : `.ok` on the general path ⇒ `GeneralOk (realFn f X) r t` (right sign, within one unit
                           `10^eT` plus the enclosure width)
-/
import D128.Proofs.EnclosureUlps
set_option autoImplicit false

namespace EnclPf
open Spec Spec.Encl SpecRound

/-! ## 0. the real functions, the domain -/

/-- the real function denoted by `f` (roots are not judged through enclosures) -/
noncomputable def realFn : Fn → ℝ → ℝ
  | .exp, x => Real.exp x
  | .exp2, x => (2 : ℝ) ^ x
  | .exp10, x => (10 : ℝ) ^ x
  | .expm1, x => Real.exp x - 1
  | .log, x => Real.log x
  | .log2, x => Real.logb 2 x
  | .log10, x => Real.logb 10 x
  | .log1p, x => Real.log (1 + x)
  | .sqrt, _ => 0
  | .cbrt, _ => 0

/-- a finite operand that is not a special case: non-zero, and inside the domain of `log1p` -/
theorem specialCase_none {f : Fn} {n : Bool} {c : Nat} {e : Int}
    (h : specialCase f (.fin n c e) = none) :
    c ≠ 0 ∧ (f = .log1p → n = true → mag c e < 1) := by
  unfold specialCase at h
  simp only at h
  split at h
  · cases f <;> simp at h
  · rename_i hc
    refine ⟨by simpa using hc, ?_⟩
    rintro rfl rfl
    simp only [if_true] at h
    split at h
    · exact absurd h (by simp)
    · rename_i h1
      split at h
      · exact absurd h (by simp)
      · rename_i h2
        have h1' : mag c e ≠ 1 := by simpa using h1
        exact lt_of_le_of_ne (not_lt.1 h2) h1'

/-! ## 1. `trueValue` -/

theorem trueValue_sound (f : Fn) (n : Bool) (c : Nat) (e : Int) (tn : Bool) (t : Sci)
    (hspec : specialCase f (.fin n c e) = none) (hc : c < 10 ^ 35)
    (h : trueValue f n c e = some (tn, t)) :
    ∃ T : ℝ, 0 < T ∧ T ∈ₛ t ∧ realFn f (X n c e) = if tn then -T else T := by
  obtain ⟨hc0, hdom⟩ := specialCase_none hspec
  cases f
  · obtain ⟨rfl, hs⟩ := trueValue_exp_sound n c e tn t hc0 hc h
    exact ⟨_, Real.exp_pos _, hs, by simp [realFn]⟩
  · obtain ⟨rfl, hs⟩ := trueValue_exp2_sound n c e tn t hc0 hc h
    exact ⟨_, Real.rpow_pos_of_pos (by norm_num) _, hs, by simp [realFn]⟩
  · obtain ⟨rfl, hs⟩ := trueValue_exp10_sound n c e tn t hc0 hc h
    exact ⟨_, Real.rpow_pos_of_pos (by norm_num) _, hs, by simp [realFn]⟩
  · exact trueValue_expm1_sound n c e tn t hc0 hc h
  · exact trueValue_log_sound n c e tn t hc0 h
  · exact trueValue_log2_sound n c e tn t hc0 h
  · exact trueValue_log10_sound n c e tn t hc0 h
  · refine trueValue_log1p_sound n c e tn t hc0 hc ?_ h
    intro hn
    have := hdom rfl hn
    rw [abs_X]
    have h' : ((mag c e : ℚ) : ℝ) < ((1 : ℚ) : ℝ) := by exact_mod_cast this
    rw [mag_cast] at h'
    simpa using h'
  · exact absurd h (by simp [trueValue])
  · exact absurd h (by simp [trueValue])

/-! ## 2. the general path of `judgeElem` -/

/-- the magnitude of a result, as passed to `withinUlps` -/
def magVal (r : Val) : Val := match r with | .fin _ c e => .fin false c e | .inf _ => .inf false | v => v

/-- arguments of the exp family that are judged by the overflow/underflow rule -/
def hugeArg (f : Fn) (c : Nat) (e : Int) : Bool :=
  (f == .exp || f == .exp2 || f == .exp10 || f == .expm1) && e + (ndigits c : Int) > 7

theorem judgeElem_general (f : Fn) (n : Bool) (c : Nat) (e : Int) (r : Val) (ne : Bool) (tn : Bool) (t : Sci)
    (hspec : specialCase f (.fin n c e) = none)
    (hexact : (if ne then exactCase f n c e else none) = none)
    (hhuge : hugeArg f c e = false)
    (htv : trueValue f n c e = some (tn, t)) :
    judgeElem f (.fin n c e) r ne =
      if r.isNaN then .bad "NaN from a finite operand in the domain"
      else if !r.isZero && !r.isNaN && r.neg != tn then .bad "wrong sign"
      else withinUlps (magVal r) t := by
  unfold judgeElem
  unfold hugeArg at hhuge
  simp only [hspec, hexact, hhuge, htv, Bool.false_eq_true, if_false]
  rfl

theorem withinUlps_lo_pos {r : Val} {t : Sci} {x : ℚ}
    (h : withinUlps r t x = .ok ∨ ∃ m, withinUlps r t x = .bad m) : 0 < t.m.lo := by
  by_contra hn
  have hn : t.m.lo ≤ 0 := not_lt.1 hn
  unfold withinUlps at h
  simp only [hn, if_true] at h
  rcases h with h | ⟨m, h⟩ <;> exact absurd h (by simp)

/-! ## 3. meaning of the verdicts -/

/-- **What a `.bad` verdict on the general path asserts** about the result `r` and the true value `F = f(x)`
    (a non-zero real): in the words of property C16,
    * a NaN from a finite operand in the domain;
    * a non-zero finite result with the wrong sign, or more than one unit in the last place (of the format at
      `|F|`) from `F`, or finite although `|F| ≥ 10^(Emax+41)`, or non-zero although `|F| < 10^(Emin−40)`;
    * a zero result although `|F|` exceeds one unit in the last place;
    * an infinite result of the wrong sign, or although `|F| < 10^(Emax+30)`, or although `|F|` plus one unit
      is below the largest finite Decimal `Cmax·10^Emax`. -/
def GeneralViolation (F : ℝ) : Val → Prop
  | .nan _ _ => True
  | .inf rn => (rn = true ↔ 0 < F) ∨ |F| < (10 : ℝ) ^ (Emax + 30) ∨
      |F| + (10 : ℝ) ^ (ulpExp |F|) < (Cmax : ℝ) * (10 : ℝ) ^ Emax
  | .fin _ 0 _ => (10 : ℝ) ^ (ulpExp |F|) < |F|
  | .fin rn (rc + 1) re =>
      X rn (rc + 1) re * F < 0 ∨ (10 : ℝ) ^ (ulpExp |F|) < |X rn (rc + 1) re - F| ∨
      (10 : ℝ) ^ (Emax + 41) ≤ |F| ∨ |F| < (10 : ℝ) ^ (Emin - 40)

/-- what an `.ok` verdict asserts: the right sign and an error of at most one unit `10^eT` (the spacing of the
    format at the upper end of the enclosure `t` of `|F|`) plus the width of the enclosure -/
def GeneralOk (F : ℝ) (t : Sci) : Val → Prop
  | .nan _ _ => False
  | .inf rn => (rn = true ↔ F < 0) ∧
      ((10 : ℝ) ^ (Emax + 37) ≤ |F| ∨
       (Cmax : ℝ) * (10 : ℝ) ^ Emax ≤ |F| + ((t.m.hi : ℝ) - (t.m.lo : ℝ)) * (10 : ℝ) ^ t.k + (10 : ℝ) ^ (eT t))
  | .fin _ 0 _ => |F| ≤ (10 : ℝ) ^ (eT t) + ((t.m.hi : ℝ) - (t.m.lo : ℝ)) * (10 : ℝ) ^ t.k
  | .fin rn (rc + 1) re => (rn = true ↔ F < 0) ∧
      |X rn (rc + 1) re - F| ≤ (10 : ℝ) ^ (eT t) + ((t.m.hi : ℝ) - (t.m.lo : ℝ)) * (10 : ℝ) ^ t.k

theorem sciMem_pos {T : ℝ} {t : Sci} (hT : T ∈ₛ t) (hlo : 0 < t.m.lo) : 0 < T := by
  obtain ⟨z, hz, rfl⟩ := hT
  have : (0 : ℝ) < (t.m.lo : ℝ) := by exact_mod_cast hlo
  exact mul_pos (lt_of_lt_of_le this hz.1) (zpow_pos (by norm_num) _)

theorem pow_ulp_le {T : ℝ} {t : Sci} (hT : T ∈ₛ t) (hlo : 0 < t.m.lo) :
    (10 : ℝ) ^ (ulpExp T) ≤ (10 : ℝ) ^ (eT t) :=
  zpow_le_zpow_right₀ (by norm_num) (ulpExp_le_eT hT hlo)

/-- difference of a signed result and a signed true value of the same sign -/
theorem abs_signed_sub (b : Bool) (R T : ℝ) :
    |(if b then -R else R) - (if b then -T else T)| = |R - T| := by
  cases b
  · simp
  · simp only [if_true]; rw [show -R - -T = -(R - T) by ring, abs_neg]

theorem X_signed (n : Bool) (c : Nat) (e : Int) :
    X n c e = if n then -((c : ℝ) * (10 : ℝ) ^ e) else (c : ℝ) * (10 : ℝ) ^ e := X_eq n c e

section
variable (f : Fn) (n : Bool) (c : Nat) (e : Int) (ne : Bool) (tn : Bool) (t : Sci)

/-- **A reported violation is a true violation** (general path). -/
theorem general_bad_sound (r : Val) (msg : String)
    (hspec : specialCase f (.fin n c e) = none)
    (hexact : (if ne then exactCase f n c e else none) = none)
    (hhuge : hugeArg f c e = false)
    (htv : trueValue f n c e = some (tn, t)) (hc : c < 10 ^ 35)
    (h : judgeElem f (.fin n c e) r ne = .bad msg) :
    GeneralViolation (realFn f (X n c e)) r := by
  obtain ⟨T, hTpos, hT, hF⟩ := trueValue_sound f n c e tn t hspec hc htv
  rw [judgeElem_general f n c e _ ne tn t hspec hexact hhuge htv] at h
  have hFabs : |realFn f (X n c e)| = T := by
    rw [hF]; cases tn <;> simp [abs_of_pos hTpos]
  have hFpos : (0 < realFn f (X n c e)) ↔ tn = false := by
    rw [hF]; cases tn <;> simp [hTpos, hTpos.le]
  match r with
  | .nan _ _ => trivial
  | .inf rn =>
    simp only [Val.isNaN, Val.isZero, Bool.false_eq_true, if_false, Bool.not_false, Bool.true_and,
      Val.neg] at h
    show _ ∨ _ ∨ _
    split at h
    · rename_i hs
      left
      have hne : rn ≠ tn := by simpa using hs
      rw [hFpos]; cases rn <;> cases tn <;> simp_all
    · have hw : withinUlps (.inf false) t = .bad msg := h
      have hlo := withinUlps_lo_pos (Or.inr ⟨msg, hw⟩)
      rw [hFabs]
      rcases withinUlps_inf_bad hlo (le_refl 0) hT hw with h1 | h1
      · right; left; exact h1
      · right; right
        have := pow_ulp_le hT hlo
        simp only [Rat.cast_zero, zero_mul, add_zero] at h1
        linarith
  | .fin rn 0 re =>
    simp only [Val.isNaN, Val.isZero, Bool.false_eq_true, if_false, Bool.not_true, Bool.false_and] at h
    have hw : withinUlps (.fin false 0 re) t = .bad msg := h
    have hlo := withinUlps_lo_pos (Or.inr ⟨msg, hw⟩)
    show _ < _
    rw [hFabs]
    have h1 := withinUlps_zero_bad hlo (le_refl 0) hT hw
    have := pow_ulp_le hT hlo
    simp only [Rat.cast_zero, zero_mul, add_zero] at h1
    linarith
  | .fin rn (rc + 1) re =>
    simp only [Val.isNaN, Val.isZero, Bool.false_eq_true, if_false, Bool.not_false, Bool.true_and,
      Val.neg] at h
    show _ ∨ _ ∨ _ ∨ _
    have hRpos : (0 : ℝ) < ((rc + 1 : ℕ) : ℝ) * (10 : ℝ) ^ re := by positivity
    split at h
    · rename_i hs
      left
      have hne : rn ≠ tn := by simpa using hs
      rw [hF, X_signed]
      cases rn <;> cases tn <;> simp_all
    · rename_i hs
      have hsame : rn = tn := by simpa using hs
      have hw : withinUlps (.fin false (rc + 1) re) t = .bad msg := h
      have hlo := withinUlps_lo_pos (Or.inr ⟨msg, hw⟩)
      have habs : |X rn (rc + 1) re - realFn f (X n c e)| = |((rc + 1 : ℕ) : ℝ) * (10 : ℝ) ^ re - T| := by
        rw [hF, X_signed, hsame]; exact abs_signed_sub tn _ _
      rw [habs, hFabs]
      right
      have := pow_ulp_le hT hlo
      rcases withinUlps_fin_bad (Nat.succ_ne_zero rc) hlo (le_refl 0) hT hw with h1 | h1 | h1
      · left
        simp only [Rat.cast_zero, zero_mul, add_zero] at h1
        linarith
      · right; left; exact h1
      · right; right; exact h1

/-- an accepted result has the right sign and is within one unit plus the enclosure width -/
theorem general_ok_sound (r : Val)
    (hspec : specialCase f (.fin n c e) = none)
    (hexact : (if ne then exactCase f n c e else none) = none)
    (hhuge : hugeArg f c e = false)
    (htv : trueValue f n c e = some (tn, t)) (hc : c < 10 ^ 35)
    (h : judgeElem f (.fin n c e) r ne = .ok) :
    GeneralOk (realFn f (X n c e)) t r := by
  obtain ⟨T, hTpos, hT, hF⟩ := trueValue_sound f n c e tn t hspec hc htv
  rw [judgeElem_general f n c e _ ne tn t hspec hexact hhuge htv] at h
  have hFabs : |realFn f (X n c e)| = T := by
    rw [hF]; cases tn <;> simp [abs_of_pos hTpos]
  have hFneg : (realFn f (X n c e) < 0) ↔ tn = true := by
    rw [hF]; cases tn <;> simp [hTpos, hTpos.le]
  match r with
  | .nan _ _ =>
    simp only [Val.isNaN, if_true] at h
    exact absurd h (by simp)
  | .inf rn =>
    simp only [Val.isNaN, Val.isZero, Bool.false_eq_true, if_false, Bool.not_false, Bool.true_and,
      Val.neg] at h
    split at h
    · exact absurd h (by simp)
    · rename_i hs
      have hsame : rn = tn := by simpa using hs
      have hw : withinUlps (.inf false) t = .ok := h
      have hlo := withinUlps_lo_pos (Or.inl hw)
      refine ⟨by rw [hFneg, hsame], ?_⟩
      rw [hFabs]
      have hk : (0 : ℝ) < (10 : ℝ) ^ t.k := zpow_pos (by norm_num) _
      rcases (withinUlps_inf_cases false t 0 hlo).2 hw with h1 | h1
      · left
        have h2 := sciMem_ge_lo hT
        have h3 := mul_le_mul_of_nonneg_right (lo_ge_pow_ilog10 hlo) hk.le
        rw [← zpow_add₀ (by norm_num)] at h3
        have h4 : (10 : ℝ) ^ (Emax + 37) ≤ (10 : ℝ) ^ (ilog10 t.m.lo + t.k) :=
          zpow_le_zpow_right₀ (by norm_num) (by omega)
        linarith
      · right
        have hb' : (((Cmax : ℚ) * pow10 (Emax - t.k) : ℚ) : ℝ) ≤
            ((t.m.hi + t.m.hi * 0 + pow10 (eT t - t.k) : ℚ) : ℝ) := by exact_mod_cast h1
        have := mul_le_mul_of_nonneg_right hb' hk.le
        rw [scaled_cast] at this
        push_cast at this
        have e1 := unit_cast (eT t) t.k
        have h2 := sciMem_ge_lo hT
        nlinarith
  | .fin rn 0 re =>
    simp only [Val.isNaN, Val.isZero, Bool.false_eq_true, if_false, Bool.not_true, Bool.false_and] at h
    have hw : withinUlps (.fin false 0 re) t = .ok := h
    have hlo := withinUlps_lo_pos (Or.inl hw)
    show _ ≤ _
    rw [hFabs]
    have := withinUlps_zero_ok hlo (le_refl 0) hT hw
    simpa using this
  | .fin rn (rc + 1) re =>
    simp only [Val.isNaN, Val.isZero, Bool.false_eq_true, if_false, Bool.not_false, Bool.true_and,
      Val.neg] at h
    split at h
    · exact absurd h (by simp)
    · rename_i hs
      have hsame : rn = tn := by simpa using hs
      have hw : withinUlps (.fin false (rc + 1) re) t = .ok := h
      have hlo := withinUlps_lo_pos (Or.inl hw)
      refine ⟨by rw [hFneg, hsame], ?_⟩
      have habs : |X rn (rc + 1) re - realFn f (X n c e)| = |((rc + 1 : ℕ) : ℝ) * (10 : ℝ) ^ re - T| := by
        rw [hF, X_signed, hsame]; exact abs_signed_sub tn _ _
      rw [habs]
      have := withinUlps_fin_ok (n := false) (Nat.succ_ne_zero rc) hlo (le_refl 0) hT hw
      simpa using this

end

end EnclPf
