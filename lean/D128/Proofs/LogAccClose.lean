/-
  D128/Proofs/LogAccClose.lean — from `log_spec` to closeness relative to the result.

  * `log10_bounds`     : `2.3 ≤ Real.log 10 ≤ 2.31`
  * `log_rel_close`    : `X = val a`, `a.sig ≠ 0`, `|a.exp| ≤ 16000`, and `1 + 10^-60 ≤ X` or `X ≤ 1 − 7.5·10^-22`:
        `log a = .ok (neg, x, t)`, `neg = (X < 1)`, flag in `flag3`, `-5930 ≤ x.exp ≤ 5500`,
        `|val x − |ln X|| · 30·10^33 ≤ |ln X|`,  `10^-61 ≤ |ln X| ≤ 10^5`
    (the relative closeness `1/(2.9·10^34)` is below half a unit in the last place of the Decimal format at `|ln X|`,
     because `|ln X| < (Cmax+1)·ulp` and `Cmax+1 ≈ 1.298·10^34`)
  * `log_abs_close`    : without the hypothesis on `X`: `|val x − |ln X|| ≤ 2·10^-47 + 7·10^-57·|ln X|`, `|ln X| ≤ 10^5`, `neg ↔ X < 1`
  * `cmp_neg`, `cmp_zero`, `cmp_pos` : the comparison `errLog·3·10^34 ≤ |ln X|` by the sign of the decimal exponent
        (cases: `|e0| ≥ 2`; `e0 = -1` with `M = 10`, `11 ≤ M ≤ 98`, `M = 99` (the cancellation case, needs `X ≤ 1 − 7.5·10^-22`;
        the budget is `2.5·10^-56·3·10^34 = 7.5·10^-22`); `e0 = 0` with `M ≥ 11` and `M = 10` (relative, `ln X ≥ 1.99·S`))
  * `tail20`, `tail22`, `tail198`, `tailS` : numeric bounds of the truncation term for `F ≤ 1/20, 1/22, 1/198`
  * `close_lt_half_ulp`, `close_lt_ulp20` : relative closeness `1/(2.9·10^34)` resp. `1/(2.6·10^35)` is below 1/2 resp. 1/20 unit
-/
import D128.Proofs.LogAccSpec
import D128.Proofs.LogAccRound
set_option autoImplicit false
set_option maxRecDepth 4096
set_option linter.unusedVariables false
namespace LogAcc
open Gen D192 Root

theorem log10_bounds : (23 / 10 : ℝ) ≤ Real.log 10 ∧ Real.log 10 ≤ 231 / 100 := by
  have h := abs_le.mp ln10v_table
  have h1 : ((ln10v : ℚ) : ℝ) ≤ 2303 / 1000 := by
    have h : ln10v ≤ 2303 / 1000 := by rw [ln10v_eq]; norm_num
    have : ((ln10v : ℚ) : ℝ) ≤ ((2303 / 1000 : ℚ) : ℝ) := Rat.cast_le.mpr h
    norm_num at this ⊢; exact this
  have h2 : (2302 / 1000 : ℝ) ≤ ((ln10v : ℚ) : ℝ) := by
    have h : 2302 / 1000 ≤ ln10v := by rw [ln10v_eq]; norm_num
    have : ((2302 / 1000 : ℚ) : ℝ) ≤ ((ln10v : ℚ) : ℝ) := Rat.cast_le.mpr h
    norm_num at this ⊢; exact this
  have h5 : (1 : ℝ) / 2 / 10 ^ 57 ≤ 1 / 1000 := by norm_num
  constructor <;> linarith [h.1, h.2]

/-- relative closeness `1/(2.9·10^34)` is less than half a unit in the last place -/
theorem close_lt_half_ulp (w T : ℝ) (hT : 0 < T) (h : |w - T| * (29 * 10 ^ 33) ≤ T) :
    |w - T| < (10 : ℝ) ^ (EnclPf.ulpExp T) / 2 := by
  obtain ⟨-, h2⟩ := (EnclPf.ulpExp_le_iff hT (EnclPf.ulpExp T)).1 (le_refl _)
  have hC : ((Spec.Cmax : ℕ) : ℝ) + 1 = 12980742146337069071326240823050240 := by
    unfold Spec.Cmax; norm_num
  rw [hC] at h2
  have hu : (0 : ℝ) < (10 : ℝ) ^ (EnclPf.ulpExp T) := zpow_pos (by norm_num) _
  nlinarith [abs_nonneg (w - T)]

/-- relative closeness `1/(2.6·10^35)` is less than a twentieth of a unit in the last place -/
theorem close_lt_ulp20 (w T : ℝ) (hT : 0 < T) (h : |w - T| * (26 * 10 ^ 34) ≤ T) :
    |w - T| < (10 : ℝ) ^ (EnclPf.ulpExp T) / 20 := by
  obtain ⟨-, h2⟩ := (EnclPf.ulpExp_le_iff hT (EnclPf.ulpExp T)).1 (le_refl _)
  have hC : ((Spec.Cmax : ℕ) : ℝ) + 1 = 12980742146337069071326240823050240 := by
    unfold Spec.Cmax; norm_num
  rw [hC] at h2
  have hu : (0 : ℝ) < (10 : ℝ) ^ (EnclPf.ulpExp T) := zpow_pos (by norm_num) _
  nlinarith [abs_nonneg (w - T)]

/-- numeric bounds of the truncation term -/
theorem tail20 (F : ℝ) (h0 : 0 ≤ F) (h1 : F ≤ 1 / 20) : 2 * tailR F ≤ 2 / 10 ^ 47 := by
  have ht := tailR_le F h0 h1
  have hp : F ^ 35 ≤ (1 / 20) ^ 35 := pow_le_pow_left₀ h0 h1 35
  have hc : (1 / 20 : ℝ) ^ 35 / 34 ≤ 1 / 10 ^ 47 := by norm_num
  have : F ^ 35 / 34 ≤ (1 / 20 : ℝ) ^ 35 / 34 := div_le_div_of_nonneg_right hp (by norm_num)
  linarith

theorem tail20' (F : ℝ) (h0 : 0 ≤ F) (h1 : F ≤ 1 / 20) : 2 * tailR F ≤ 18 / 10 ^ 48 := by
  have ht := tailR_le F h0 h1
  have hp : F ^ 35 ≤ (1 / 20) ^ 35 := pow_le_pow_left₀ h0 h1 35
  have hc : (1 / 20 : ℝ) ^ 35 / 34 ≤ 9 / 10 ^ 48 := by norm_num
  have : F ^ 35 / 34 ≤ (1 / 20 : ℝ) ^ 35 / 34 := div_le_div_of_nonneg_right hp (by norm_num)
  linarith

theorem tail22 (F : ℝ) (h0 : 0 ≤ F) (h1 : F ≤ 1 / 22) : 2 * tailR F ≤ 7 / 10 ^ 49 := by
  have ht := tailR_le F h0 (by linarith)
  have hp : F ^ 35 ≤ (1 / 22) ^ 35 := pow_le_pow_left₀ h0 h1 35
  have hc : (1 / 22 : ℝ) ^ 35 / 34 ≤ 35 / 10 ^ 50 := by norm_num
  have : F ^ 35 / 34 ≤ (1 / 22 : ℝ) ^ 35 / 34 := div_le_div_of_nonneg_right hp (by norm_num)
  linarith

theorem tail198 (F : ℝ) (h0 : 0 ≤ F) (h1 : F ≤ 1 / 198) : 2 * tailR F ≤ 1 / 10 ^ 60 := by
  have ht := tailR_le F h0 (by linarith)
  have hp : F ^ 35 ≤ (1 / 198) ^ 35 := pow_le_pow_left₀ h0 h1 35
  have hc : (1 / 198 : ℝ) ^ 35 / 34 ≤ 1 / 2 / 10 ^ 60 := by norm_num
  have : F ^ 35 / 34 ≤ (1 / 198 : ℝ) ^ 35 / 34 := div_le_div_of_nonneg_right hp (by norm_num)
  linarith

theorem tailS (F S : ℝ) (h0 : 0 ≤ F) (h1 : F ≤ 1 / 20) (hFS : F ≤ S) : 2 * tailR F ≤ 4 / 10 ^ 46 * S := by
  have ht := tailR_le F h0 h1
  have hc : (1 / 20 : ℝ) ^ 34 ≤ 6 / 10 ^ 45 := by norm_num
  have hp : F ^ 35 ≤ 6 / 10 ^ 45 * S := by
    have e : F ^ 35 = F ^ 34 * F := by ring
    rw [e]
    exact mul_le_mul (le_trans (pow_le_pow_left₀ h0 h1 34) hc) hFS h0 (by positivity)
  have h2 : F ^ 35 / 34 ≤ 6 / 10 ^ 45 * S / 34 := div_le_div_of_nonneg_right hp (by norm_num)
  have hS0 : 0 ≤ S := le_trans h0 hFS
  have h3 : 2 * (6 / 10 ^ 45 * S / 34) ≤ 4 / 10 ^ 46 * S := by
    have e : 2 * (6 / 10 ^ 45 * S / 34) = 12 / (34 * 10 ^ 45) * S := by ring
    rw [e]; exact mul_le_mul_of_nonneg_right (by norm_num) hS0
  linarith

end LogAcc

namespace LogAcc
open Gen D192 Root

/-- `ln y ≥ 1 − 1/y` in the form used below -/
theorem log_ge (y c : ℝ) (hy : 0 < y) (h : c ≤ 1 - 1 / y) : c ≤ Real.log y := by
  have := Real.one_sub_inv_le_log_of_pos hy
  rw [inv_eq_one_div] at this
  linarith

theorem cmp_neg (e0 M : ℤ) (v S F X : ℝ)
    (hM0 : 10 ≤ M) (hM1 : M ≤ 99) (hMlo : (M : ℝ) ≤ 10 * v) (hMhi : 10 * v < (M : ℝ) + 1)
    (hF0 : 0 ≤ F) (hF2M : F ≤ 1 / (2 * (M : ℝ))) (hFS : F ≤ S) (hS2F : S ≤ 101 / 100 * F)
    (hA : M = 10 → e0 = 0 → 199 / 100 * S ≤ Real.log X)
    (hXv : X = v * (10 : ℝ) ^ e0)
    (hX : 1 + 1 / 10 ^ 60 ≤ X ∨ X ≤ 1 - 75 / 10 ^ 23) (hneg0 : e0 < 0) (hXlt : X < 1) :
    errLog e0.natAbs (if M = 10 then 0 else 1) S F * (30 * 10 ^ 33) ≤ |Real.log X| ∧
      1 / 10 ^ 61 ≤ |Real.log X| := by
  obtain ⟨hl10a, hl10b⟩ := log10_bounds
  have hMr0 : (10 : ℝ) ≤ (M : ℝ) := by exact_mod_cast hM0
  have hMr1 : (M : ℝ) ≤ 99 := by exact_mod_cast hM1
  have hv1 : 1 ≤ v := by linarith
  have hv10 : v < 10 := by linarith
  have hvpos : 0 < v := by linarith
  have hXpos : 0 < X := by rw [hXv]; exact mul_pos hvpos (zpow_pos (by norm_num) _)
  have hLsplit : Real.log X = Real.log v + (e0 : ℝ) * Real.log 10 := by
    rw [hXv, Real.log_mul hvpos.ne' (zpow_ne_zero _ (by norm_num)), Real.log_zpow]
  have hlv0 : 0 ≤ Real.log v := Real.log_nonneg hv1
  have hlv1 : Real.log v ≤ Real.log 10 := Real.log_le_log hvpos hv10.le
  have hF20 : F ≤ 1 / 20 := by
    refine le_trans hF2M ?_
    rw [div_le_div_iff₀ (by linarith) (by norm_num)]; linarith
  have hS0 : 0 ≤ S := le_trans hF0 hFS
  have hS10 : S ≤ 1 / 10 := by linarith
  have hK : ((e0.natAbs : ℕ) : ℝ) = |(e0 : ℝ)| := by rw [Nat.cast_natAbs]; push_cast; rfl
  have ht20 := tail20 F hF0 hF20
  have hm01 : (if M = 10 then (0 : ℝ) else 1) ≤ 1 := by split <;> norm_num
  have hm00 : (0 : ℝ) ≤ (if M = 10 then (0 : ℝ) else 1) := by split <;> norm_num
  unfold errLog
  have hLneg : Real.log X < 0 := (Real.log_neg_iff hXpos).mpr hXlt
  rw [abs_of_neg hLneg]
  have hKe : ((e0.natAbs : ℕ) : ℝ) = -(e0 : ℝ) := by
    rw [hK, abs_of_neg (by exact_mod_cast hneg0)]
  by_cases h2 : e0 ≤ -2
  · have h2' : (e0 : ℝ) ≤ -2 := by exact_mod_cast h2
    have hm : (e0 : ℝ) * Real.log 10 ≤ (e0 : ℝ) * (23 / 10) := by
      have := mul_le_mul_of_nonpos_left hl10a (by linarith : (e0 : ℝ) ≤ 0)
      linarith
    rw [hLsplit, hKe]
    constructor <;> linarith
  · have he1 : e0 = -1 := by omega
    have hKe1 : ((e0.natAbs : ℕ) : ℝ) = 1 := by rw [hKe, he1]; norm_num
    have hL1 : -Real.log X = Real.log (10 / v) := by
      rw [hLsplit, he1, Real.log_div (by norm_num) hvpos.ne']; push_cast; ring
    rw [hL1, hKe1]
    by_cases hM10 : M = 10
    · rw [if_pos hM10]
      have hv : v < 11 / 10 := by rw [hM10] at hMhi; push_cast at hMhi; linarith
      have hlb := log_ge (10 / v) (8 / 10) (by positivity) (by
        rw [one_div_div]; linarith)
      constructor <;> linarith
    · rw [if_neg hM10]
      by_cases hM99 : M = 99
      · -- the cancellation region
        have hXle : X ≤ 1 - 75 / 10 ^ 23 := by
          rcases hX with h | h
          · linarith
          · exact h
        have hlb : 75 / 10 ^ 23 ≤ Real.log (10 / v) := by
          rw [← hL1]
          have := Real.log_le_sub_one_of_pos hXpos
          linarith
        have hF198 : F ≤ 1 / 198 := by
          refine le_trans hF2M ?_
          rw [hM99]; norm_num
        have ht := tail198 F hF0 hF198
        have hS : S ≤ 101 / 100 / 198 := by linarith
        constructor
        · have : (2 * tailR F + (16 * 1 + 7 * 1 + 231 * S) / 10 ^ 57) * (30 * 10 ^ 33)
              ≤ (1 / 10 ^ 60 + (16 + 7 + 231 * (101 / 100 / 198)) / 10 ^ 57) * (30 * 10 ^ 33) := by
            apply mul_le_mul_of_nonneg_right _ (by norm_num)
            have : (16 * 1 + 7 * 1 + 231 * S) / 10 ^ 57 ≤ (16 + 7 + 231 * (101 / 100 / 198)) / (10 : ℝ) ^ 57 := by
              apply div_le_div_of_nonneg_right _ (by positivity); linarith
            linarith
          have h3 : ((1 : ℝ) / 10 ^ 60 + (16 + 7 + 231 * (101 / 100 / 198)) / 10 ^ 57) * (30 * 10 ^ 33) ≤ 75 / 10 ^ 23 := by
            norm_num
          linarith
        · have : (1 : ℝ) / 10 ^ 61 ≤ 75 / 10 ^ 23 := by norm_num
          linarith
      · have hM11 : (11 : ℝ) ≤ (M : ℝ) := by
          have : 11 ≤ M := by omega
          exact_mod_cast this
        have hM98 : (M : ℝ) ≤ 98 := by
          have : M ≤ 98 := by omega
          exact_mod_cast this
        have hv : v < 99 / 10 := by linarith
        have hlb := log_ge (10 / v) (1 / 100) (by positivity) (by
          rw [one_div_div]; linarith)
        have hF22 : F ≤ 1 / 22 := by
          refine le_trans hF2M ?_
          rw [div_le_div_iff₀ (by linarith) (by norm_num)]; linarith
        have ht := tail22 F hF0 hF22
        constructor
        · have : (2 * tailR F + (16 * 1 + 7 * 1 + 231 * S) / 10 ^ 57) * (30 * 10 ^ 33)
              ≤ (7 / 10 ^ 49 + (16 + 7 + 231 * (1 / 10)) / 10 ^ 57) * (30 * 10 ^ 33) := by
            apply mul_le_mul_of_nonneg_right _ (by norm_num)
            have : (16 * 1 + 7 * 1 + 231 * S) / 10 ^ 57 ≤ (16 + 7 + 231 * (1 / 10)) / (10 : ℝ) ^ 57 := by
              apply div_le_div_of_nonneg_right _ (by positivity); linarith
            linarith
          have h3 : ((5 : ℝ) / 10 ^ 38 + (16 + 7 + 231 * (1 / 10)) / 10 ^ 57) * (30 * 10 ^ 33) ≤ 1 / 100 := by
            norm_num
          linarith
        · have : (1 : ℝ) / 10 ^ 61 ≤ 1 / 100 := by norm_num
          linarith

theorem cmp_zero (e0 M : ℤ) (v S F X : ℝ)
    (hM0 : 10 ≤ M) (hM1 : M ≤ 99) (hMlo : (M : ℝ) ≤ 10 * v) (hMhi : 10 * v < (M : ℝ) + 1)
    (hF0 : 0 ≤ F) (hF2M : F ≤ 1 / (2 * (M : ℝ))) (hFS : F ≤ S) (hS2F : S ≤ 101 / 100 * F)
    (hA : M = 10 → e0 = 0 → 199 / 100 * S ≤ Real.log X)
    (hXv : X = v * (10 : ℝ) ^ e0)
    (hX : 1 + 1 / 10 ^ 60 ≤ X ∨ X ≤ 1 - 75 / 10 ^ 23) (hzero : e0 = 0) :
    errLog e0.natAbs (if M = 10 then 0 else 1) S F * (30 * 10 ^ 33) ≤ |Real.log X| ∧
      1 / 10 ^ 61 ≤ |Real.log X| := by
  obtain ⟨hl10a, hl10b⟩ := log10_bounds
  have hMr0 : (10 : ℝ) ≤ (M : ℝ) := by exact_mod_cast hM0
  have hMr1 : (M : ℝ) ≤ 99 := by exact_mod_cast hM1
  have hv1 : 1 ≤ v := by linarith
  have hv10 : v < 10 := by linarith
  have hvpos : 0 < v := by linarith
  have hXpos : 0 < X := by rw [hXv]; exact mul_pos hvpos (zpow_pos (by norm_num) _)
  have hLsplit : Real.log X = Real.log v + (e0 : ℝ) * Real.log 10 := by
    rw [hXv, Real.log_mul hvpos.ne' (zpow_ne_zero _ (by norm_num)), Real.log_zpow]
  have hlv0 : 0 ≤ Real.log v := Real.log_nonneg hv1
  have hlv1 : Real.log v ≤ Real.log 10 := Real.log_le_log hvpos hv10.le
  have hF20 : F ≤ 1 / 20 := by
    refine le_trans hF2M ?_
    rw [div_le_div_iff₀ (by linarith) (by norm_num)]; linarith
  have hS0 : 0 ≤ S := le_trans hF0 hFS
  have hS10 : S ≤ 1 / 10 := by linarith
  have hK : ((e0.natAbs : ℕ) : ℝ) = |(e0 : ℝ)| := by rw [Nat.cast_natAbs]; push_cast; rfl
  have ht20 := tail20 F hF0 hF20
  have hm01 : (if M = 10 then (0 : ℝ) else 1) ≤ 1 := by split <;> norm_num
  have hm00 : (0 : ℝ) ≤ (if M = 10 then (0 : ℝ) else 1) := by split <;> norm_num
  unfold errLog
  have hX1 : X = v := by rw [hXv, hzero]; simp
  have hL0 : 0 ≤ Real.log X := by rw [hX1]; exact hlv0
  rw [abs_of_nonneg hL0]
  have hKe : ((e0.natAbs : ℕ) : ℝ) = 0 := by rw [hzero]; simp
  rw [hKe]
  by_cases hM10 : M = 10
  · rw [if_pos hM10]
    have hXge : 1 + 1 / 10 ^ 60 ≤ X := by
      rcases hX with h | h
      · exact h
      · rw [hX1] at h; linarith
    have hv : v < 11 / 10 := by rw [hM10] at hMhi; push_cast at hMhi; linarith
    have hlb := hA hM10 hzero
    have hts := tailS F S hF0 hF20 hFS
    constructor
    · have : (2 * tailR F + (16 * 0 + 7 * 0 + 231 * S) / 10 ^ 57) * (30 * 10 ^ 33)
          ≤ (4 / 10 ^ 46 * S + 231 * S / 10 ^ 57) * (30 * 10 ^ 33) := by
        apply mul_le_mul_of_nonneg_right _ (by norm_num)
        have : (16 * 0 + 7 * 0 + 231 * S) / (10 : ℝ) ^ 57 = 231 * S / 10 ^ 57 := by ring
        linarith
      have h3 : ((4 : ℝ) / 10 ^ 46 * S + 231 * S / 10 ^ 57) * (30 * 10 ^ 33) ≤ 199 / 100 * S := by
        have : ((4 : ℝ) / 10 ^ 46 * S + 231 * S / 10 ^ 57) * (30 * 10 ^ 33)
            = (4 / 10 ^ 46 + 231 / 10 ^ 57) * (30 * 10 ^ 33) * S := by ring
        rw [this]
        exact mul_le_mul_of_nonneg_right (by norm_num) hS0
      linarith
    · refine log_ge X _ hXpos ?_
      rw [hX1] at hXge ⊢
      rw [le_sub_iff_add_le, ← le_sub_iff_add_le', div_le_iff₀ hvpos]
      nlinarith
  · rw [if_neg hM10]
    have hM11 : (11 : ℝ) ≤ (M : ℝ) := by
      have : 11 ≤ M := by omega
      exact_mod_cast this
    have hv : 11 / 10 ≤ v := by linarith
    have hlb := log_ge v (9 / 100) hvpos (by
      rw [le_sub_iff_add_le, ← le_sub_iff_add_le', div_le_iff₀ hvpos]; linarith)
    rw [hX1]
    constructor
    · have : (2 * tailR F + (16 * 0 + 7 * 1 + 231 * S) / 10 ^ 57) * (30 * 10 ^ 33)
          ≤ (2 / 10 ^ 47 + (7 + 231 * (1 / 10)) / 10 ^ 57) * (30 * 10 ^ 33) := by
        apply mul_le_mul_of_nonneg_right _ (by norm_num)
        have : (16 * 0 + 7 * 1 + 231 * S) / 10 ^ 57 ≤ (7 + 231 * (1 / 10)) / (10 : ℝ) ^ 57 := by
          apply div_le_div_of_nonneg_right _ (by positivity); linarith
        linarith
      have h3 : ((6 : ℝ) / 10 ^ 37 + (7 + 231 * (1 / 10)) / 10 ^ 57) * (30 * 10 ^ 33) ≤ 9 / 100 := by
        norm_num
      linarith
    · have : (1 : ℝ) / 10 ^ 61 ≤ 9 / 100 := by norm_num
      linarith

theorem cmp_pos (e0 M : ℤ) (v S F X : ℝ)
    (hM0 : 10 ≤ M) (hM1 : M ≤ 99) (hMlo : (M : ℝ) ≤ 10 * v) (hMhi : 10 * v < (M : ℝ) + 1)
    (hF0 : 0 ≤ F) (hF2M : F ≤ 1 / (2 * (M : ℝ))) (hFS : F ≤ S) (hS2F : S ≤ 101 / 100 * F)
    (hA : M = 10 → e0 = 0 → 199 / 100 * S ≤ Real.log X)
    (hXv : X = v * (10 : ℝ) ^ e0)
    (hX : 1 + 1 / 10 ^ 60 ≤ X ∨ X ≤ 1 - 75 / 10 ^ 23) (hpos0 : 0 < e0) :
    errLog e0.natAbs (if M = 10 then 0 else 1) S F * (30 * 10 ^ 33) ≤ |Real.log X| ∧
      1 / 10 ^ 61 ≤ |Real.log X| := by
  obtain ⟨hl10a, hl10b⟩ := log10_bounds
  have hMr0 : (10 : ℝ) ≤ (M : ℝ) := by exact_mod_cast hM0
  have hMr1 : (M : ℝ) ≤ 99 := by exact_mod_cast hM1
  have hv1 : 1 ≤ v := by linarith
  have hv10 : v < 10 := by linarith
  have hvpos : 0 < v := by linarith
  have hXpos : 0 < X := by rw [hXv]; exact mul_pos hvpos (zpow_pos (by norm_num) _)
  have hLsplit : Real.log X = Real.log v + (e0 : ℝ) * Real.log 10 := by
    rw [hXv, Real.log_mul hvpos.ne' (zpow_ne_zero _ (by norm_num)), Real.log_zpow]
  have hlv0 : 0 ≤ Real.log v := Real.log_nonneg hv1
  have hlv1 : Real.log v ≤ Real.log 10 := Real.log_le_log hvpos hv10.le
  have hF20 : F ≤ 1 / 20 := by
    refine le_trans hF2M ?_
    rw [div_le_div_iff₀ (by linarith) (by norm_num)]; linarith
  have hS0 : 0 ≤ S := le_trans hF0 hFS
  have hS10 : S ≤ 1 / 10 := by linarith
  have hK : ((e0.natAbs : ℕ) : ℝ) = |(e0 : ℝ)| := by rw [Nat.cast_natAbs]; push_cast; rfl
  have ht20 := tail20 F hF0 hF20
  have hm01 : (if M = 10 then (0 : ℝ) else 1) ≤ 1 := by split <;> norm_num
  have hm00 : (0 : ℝ) ≤ (if M = 10 then (0 : ℝ) else 1) := by split <;> norm_num
  unfold errLog
  have h1 : (1 : ℝ) ≤ (e0 : ℝ) := by
    have : 1 ≤ e0 := by omega
    exact_mod_cast this
  have hKe : ((e0.natAbs : ℕ) : ℝ) = (e0 : ℝ) := by
    rw [hK, abs_of_nonneg (by linarith)]
  have hm : (e0 : ℝ) * (23 / 10) ≤ (e0 : ℝ) * Real.log 10 := mul_le_mul_of_nonneg_left hl10a (by linarith)
  have hL0 : 0 ≤ Real.log X := by rw [hLsplit]; nlinarith
  rw [abs_of_nonneg hL0, hLsplit, hKe]
  constructor <;> linarith

/-- **Relative closeness of the working value of `log`.** -/
theorem log_rel_close (a : decomposed192) (ha : a.sig.toNat ≠ 0)
    (he : -16000 ≤ a.exp.toInt ∧ a.exp.toInt ≤ 16000)
    (hX : 1 + 1 / 10 ^ 60 ≤ ((val a : ℚ) : ℝ) ∨ ((val a : ℚ) : ℝ) ≤ 1 - 75 / 10 ^ 23) :
    ∃ (neg : Bool) (x : decomposed192) (t : Int8),
      Gen.decomposed192.log a = .ok (neg, x, t) ∧ flag3 t ∧ -5930 ≤ x.exp.toInt ∧ x.exp.toInt ≤ 5500 ∧
      neg = decide (((val a : ℚ) : ℝ) < 1) ∧
      |((val x : ℚ) : ℝ) - (|Real.log ((val a : ℚ) : ℝ)|)| * (30 * 10 ^ 33) ≤ |Real.log ((val a : ℚ) : ℝ)| ∧
      1 / 10 ^ 61 ≤ |Real.log ((val a : ℚ) : ℝ)| ∧ |Real.log ((val a : ℚ) : ℝ)| ≤ 10 ^ 5 := by
  obtain ⟨neg, x, t, e0, M, v, S, F, hlog, ht, hxe0, hxe1, hXv, he0a, he0b, hM0, hM1, hMlo, hMhi,
    hF0, hF2M, hFS, hS2F, -, hA, hneg, herr⟩ := log_spec a ha he
  set X : ℝ := ((val a : ℚ) : ℝ) with hXdef
  obtain ⟨hl10a, hl10b⟩ := log10_bounds
  have hMr0 : (10 : ℝ) ≤ (M : ℝ) := by exact_mod_cast hM0
  have hMr1 : (M : ℝ) ≤ 99 := by exact_mod_cast hM1
  have hv1 : 1 ≤ v := by linarith
  have hv10 : v < 10 := by linarith
  have hvpos : 0 < v := by linarith
  have hLsplit : Real.log X = Real.log v + (e0 : ℝ) * Real.log 10 := by
    rw [hXv, Real.log_mul hvpos.ne' (zpow_ne_zero _ (by norm_num)), Real.log_zpow]
  have hlv0 : 0 ≤ Real.log v := Real.log_nonneg hv1
  have hlv1 : Real.log v ≤ Real.log 10 := Real.log_le_log hvpos hv10.le
  have hF20 : F ≤ 1 / 20 := by
    refine le_trans hF2M ?_
    rw [div_le_div_iff₀ (by linarith) (by norm_num)]; linarith
  have hS0 : 0 ≤ S := le_trans hF0 hFS
  have hS10 : S ≤ 1 / 10 := by linarith
  have hK : ((e0.natAbs : ℕ) : ℝ) = |(e0 : ℝ)| := by rw [Nat.cast_natAbs]; push_cast; rfl
  have hKle : ((e0.natAbs : ℕ) : ℝ) ≤ 16057 := by
    rw [hK, abs_le]; constructor
    · have : (-16000 : ℝ) ≤ (e0 : ℝ) := by exact_mod_cast he0a
      linarith
    · exact_mod_cast he0b
  -- the sign
  have hsign : (e0 < 0) ↔ X < 1 := by
    constructor
    · intro h
      have h1 : (e0 : ℝ) ≤ -1 := by
        have : e0 ≤ -1 := by omega
        exact_mod_cast this
      have hlt : Real.log v < Real.log 10 := Real.log_lt_log hvpos hv10
      have hm : (e0 : ℝ) * Real.log 10 ≤ -1 * Real.log 10 := mul_le_mul_of_nonneg_right h1 (by linarith)
      have : Real.log X < 0 := by rw [hLsplit]; linarith
      have hXpos : 0 < X := by rw [hXv]; exact mul_pos hvpos (zpow_pos (by norm_num) _)
      exact (Real.log_neg_iff hXpos).mp this
    · intro h
      by_contra hc
      have h0 : (0 : ℝ) ≤ (e0 : ℝ) := by exact_mod_cast (not_lt.mp hc)
      have hXpos : 0 < X := by rw [hXv]; exact mul_pos hvpos (zpow_pos (by norm_num) _)
      have : Real.log X < 0 := (Real.log_neg_iff hXpos).mpr h
      have hm : 0 ≤ (e0 : ℝ) * Real.log 10 := mul_nonneg h0 (by linarith)
      rw [hLsplit] at this; linarith
  have hnegX : neg = decide (X < 1) := by
    rw [hneg]; exact decide_eq_decide.mpr hsign
  -- upper bound of |ln X|
  have hLup : |Real.log X| ≤ 10 ^ 5 := by
    rw [hLsplit, abs_le]
    have h1 : |(e0 : ℝ)| * Real.log 10 ≤ 16057 * (231 / 100) := by
      rw [← hK]; exact mul_le_mul hKle hl10b (by linarith) (by norm_num)
    have h2 := abs_le.mp (le_refl |(e0 : ℝ)|)
    constructor <;> nlinarith [h2.1, h2.2]
  have hmain : errLog e0.natAbs (if M = 10 then 0 else 1) S F * (30 * 10 ^ 33) ≤ |Real.log X| ∧
      1 / 10 ^ 61 ≤ |Real.log X| := by
    rcases lt_trichotomy e0 0 with hneg0 | hzero | hpos0
    · exact cmp_neg e0 M v S F X hM0 hM1 hMlo hMhi hF0 hF2M hFS hS2F hA hXv hX hneg0 (hsign.mp hneg0)
    · exact cmp_zero e0 M v S F X hM0 hM1 hMlo hMhi hF0 hF2M hFS hS2F hA hXv hX hzero
    · exact cmp_pos e0 M v S F X hM0 hM1 hMlo hMhi hF0 hF2M hFS hS2F hA hXv hX hpos0
  refine ⟨neg, x, t, hlog, ht, hxe0, hxe1, hnegX, ?_, hmain.2, hLup⟩
  calc |((val x : ℚ) : ℝ) - (|Real.log X|)| * (30 * 10 ^ 33)
      ≤ errLog e0.natAbs (if M = 10 then 0 else 1) S F * (30 * 10 ^ 33) :=
        mul_le_mul_of_nonneg_right herr (by norm_num)
    _ ≤ |Real.log X| := hmain.1

end LogAcc

namespace LogAcc
open Gen D192 Root

/-- **Absolute accuracy of the working value of `log`, all arguments**:
`|val x − |ln X|| ≤ 2·10^-47 + 7·10^-57·|ln X|` (the first term is the truncation of the artanh series after the 33rd
power at `frc ≈ 1/21`, the second the working-precision roundings of `|e0|·ln 10`). -/
theorem log_abs_close (a : decomposed192) (ha : a.sig.toNat ≠ 0)
    (he : -16000 ≤ a.exp.toInt ∧ a.exp.toInt ≤ 16000) :
    ∃ (neg : Bool) (x : decomposed192) (t : Int8),
      Gen.decomposed192.log a = .ok (neg, x, t) ∧ flag3 t ∧ -5930 ≤ x.exp.toInt ∧ x.exp.toInt ≤ 5500 ∧
      (neg = true → ((val a : ℚ) : ℝ) < 1) ∧ (((val a : ℚ) : ℝ) < 1 → neg = true) ∧
      |((val x : ℚ) : ℝ) - (|Real.log ((val a : ℚ) : ℝ)|)|
        ≤ 2 / 10 ^ 47 + 7 / 10 ^ 57 * |Real.log ((val a : ℚ) : ℝ)| ∧
      |Real.log ((val a : ℚ) : ℝ)| ≤ 10 ^ 5 := by
  obtain ⟨neg, x, t, e0, M, v, S, F, hlog, ht, hxe0, hxe1, hXv, he0a, he0b, hM0, hM1, hMlo, hMhi,
    hF0, hF2M, hFS, hS2F, -, -, hneg, herr⟩ := log_spec a ha he
  set X : ℝ := ((val a : ℚ) : ℝ) with hXdef
  obtain ⟨hl10a, hl10b⟩ := log10_bounds
  have hMr0 : (10 : ℝ) ≤ (M : ℝ) := by exact_mod_cast hM0
  have hv1 : 1 ≤ v := by linarith
  have hv10 : v < 10 := by
    have : (M : ℝ) ≤ 99 := by exact_mod_cast hM1
    linarith
  have hvpos : 0 < v := by linarith
  have hXpos : 0 < X := by rw [hXv]; exact mul_pos hvpos (zpow_pos (by norm_num) _)
  have hLsplit : Real.log X = Real.log v + (e0 : ℝ) * Real.log 10 := by
    rw [hXv, Real.log_mul hvpos.ne' (zpow_ne_zero _ (by norm_num)), Real.log_zpow]
  have hlv0 : 0 ≤ Real.log v := Real.log_nonneg hv1
  have hF20 : F ≤ 1 / 20 := by
    refine le_trans hF2M ?_
    rw [div_le_div_iff₀ (by linarith) (by norm_num)]; linarith
  have hS10 : S ≤ 1 / 10 := by linarith
  have hsign : (e0 < 0) ↔ X < 1 := by
    constructor
    · intro h
      have h1 : (e0 : ℝ) ≤ -1 := by
        have : e0 ≤ -1 := by omega
        exact_mod_cast this
      have hlt : Real.log v < Real.log 10 := Real.log_lt_log hvpos hv10
      have hm : (e0 : ℝ) * Real.log 10 ≤ -1 * Real.log 10 := mul_le_mul_of_nonneg_right h1 (by linarith)
      have : Real.log X < 0 := by rw [hLsplit]; linarith
      exact (Real.log_neg_iff hXpos).mp this
    · intro h
      by_contra hc
      have h0 : (0 : ℝ) ≤ (e0 : ℝ) := by exact_mod_cast (not_lt.mp hc)
      have : Real.log X < 0 := (Real.log_neg_iff hXpos).mpr h
      have hm : 0 ≤ (e0 : ℝ) * Real.log 10 := mul_nonneg h0 (by linarith)
      rw [hLsplit] at this; linarith
  have hKle : ((e0.natAbs : ℕ) : ℝ) ≤ 16057 := by
    rw [Nat.cast_natAbs]; push_cast
    rw [abs_le]; constructor
    · have : (-16000 : ℝ) ≤ (e0 : ℝ) := by exact_mod_cast he0a
      linarith
    · exact_mod_cast he0b
  have hLup : |Real.log X| ≤ 10 ^ 5 := by
    have hlv1 : Real.log v ≤ Real.log 10 := Real.log_le_log hvpos hv10.le
    have hKa : ((e0.natAbs : ℕ) : ℝ) = |(e0 : ℝ)| := by rw [Nat.cast_natAbs]; push_cast; rfl
    rw [hLsplit, abs_le]
    have h1 : |(e0 : ℝ)| * Real.log 10 ≤ 16057 * (231 / 100) := by
      rw [← hKa]; exact mul_le_mul hKle hl10b (by linarith) (by norm_num)
    have h2 := abs_le.mp (le_refl |(e0 : ℝ)|)
    constructor <;> nlinarith [h2.1, h2.2]
  refine ⟨neg, x, t, hlog, ht, hxe0, hxe1, ?_, ?_, le_trans herr ?_, hLup⟩
  · intro h; rw [hneg] at h; exact hsign.mp (of_decide_eq_true h)
  · intro h; rw [hneg]; exact decide_eq_true (hsign.mpr h)
  · unfold errLog
    have ht20 := tail20' F hF0 hF20
    have hm01 : (if M = 10 then (0 : ℝ) else 1) ≤ 1 := by split <;> norm_num
    have hKa : ((e0.natAbs : ℕ) : ℝ) = |(e0 : ℝ)| := by rw [Nat.cast_natAbs]; push_cast; rfl
    -- 2.3·(K − 1) ≤ |ln X|
    have hKL : 23 / 10 * (((e0.natAbs : ℕ) : ℝ) - 1) ≤ |Real.log X| := by
      rcases lt_or_ge e0 0 with hn | hp
      · have hXlt : X < 1 := hsign.mp hn
        have hLneg : Real.log X < 0 := (Real.log_neg_iff hXpos).mpr hXlt
        have hlt : Real.log v < Real.log 10 := Real.log_lt_log hvpos hv10
        rw [abs_of_neg hLneg, hLsplit, hKa, abs_of_neg (by exact_mod_cast hn)]
        have h1 : (-(e0 : ℝ) - 1) * (23 / 10) ≤ (-(e0 : ℝ) - 1) * Real.log 10 := by
          apply mul_le_mul_of_nonneg_left hl10a
          have : (e0 : ℝ) ≤ -1 := by
            have : e0 ≤ -1 := by omega
            exact_mod_cast this
          linarith
        nlinarith
      · have h0 : (0 : ℝ) ≤ (e0 : ℝ) := by exact_mod_cast hp
        have hm : (e0 : ℝ) * (23 / 10) ≤ (e0 : ℝ) * Real.log 10 := mul_le_mul_of_nonneg_left hl10a h0
        have hL0 : 0 ≤ Real.log X := by rw [hLsplit]; nlinarith
        rw [abs_of_nonneg hL0, hLsplit, hKa, abs_of_nonneg h0]
        linarith
    have hsum : (16 * ((e0.natAbs : ℕ) : ℝ) + 7 * (if M = 10 then (0 : ℝ) else 1) + 231 * S) / 10 ^ 57
        ≤ (7 * |Real.log X| + 47) / 10 ^ 57 := by
      apply div_le_div_of_nonneg_right _ (by positivity); linarith
    have h3 : (7 * |Real.log X| + 47) / (10 : ℝ) ^ 57 = 7 / 10 ^ 57 * |Real.log X| + 47 / 10 ^ 57 := by ring
    have h4 : (18 : ℝ) / 10 ^ 48 + 47 / 10 ^ 57 ≤ 2 / 10 ^ 47 := by norm_num
    linarith

end LogAcc
