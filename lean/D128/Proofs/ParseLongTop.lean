/-
  The value of a numeral, part 5: `Gen.parseNumber` and `Gen.parse` against `Spec.literalValue`.

  * `ParseLong.parseNumber_value'`   every numeral `Spec.readNumber` accepts: `Gen.parseNumber` returns the Decimal
                                     denoting `Spec.literalValue m neg n sc`, range error iff it is infinite
  * `ParseLong.litBody_num`          when `Spec.readLiteral` reads a numeral (not a name)
  * `ParseLong.restM_of_not_names`   the part of `parse` after the sign, on a numeral
  * `ParseLong.parseM_value`, `ParseLong.parse_value'`   the same through `Gen.parse` (sign, names excluded by the grammar)
-/
import D128.Proofs.ParseLongFinish
import D128.Proofs.ParseLiteral

set_option linter.unusedSimpArgs false
set_option linter.unusedVariables false

namespace ParseLong
open Parse

local notation "𝔳[" d "]" => Spec.interp (Gen.Decimal.lo d) (Gen.Decimal.hi d)

theorem parseNumber_value' (g : Globals) (d : Go.Bytes) (neg sep : Bool) (m : Spec.Mode)
    (hm : Spec.Mode.ofNat? g.DefaultRoundingMode.toNat = some m) (hsz : d.size + 6216 ≤ 2 ^ 58)
    (n : Nat) (sc : Int) (h : Spec.readNumber sep (d.toList.map toChar) = some (n, sc)) :
    ∃ v e, Gen.parseNumber g d neg sep = .ok (v, e) ∧
      (𝔳[v]).same (Spec.literalValue m neg n sc).1 = true ∧
      e = (if (Spec.literalValue m neg n sc).2 then Go.Err.parseNumberRangeError else Go.Err.nil) := by
  rw [parseNumber_eq_model g d neg sep (by omega)]
  exact model_value g d.toList neg sep m hm (by simpa using hsz) n sc h

/-! ## `parse` -/

theorem litBody_num {sep ng sg : Bool} {body : List UInt8} {neg : Bool} {n : Nat} {sc : Int}
    (h : litBody sep true ng sg (body.map toChar) = some (.num neg n sc)) :
    ng = neg ∧ isInfL body = false ∧ isNanL body = false ∧
      Spec.readNumber sep (body.map toChar) = some (n, sc) := by
  unfold litBody at h
  rw [Bool.true_and, Bool.true_and, eqFold_inf, eqFold_nan] at h
  cases h1 : isInfL body
  · cases h2 : isNanL body
    · rw [h1, h2] at h
      simp only [Bool.false_eq_true, if_false] at h
      cases hr : Spec.readNumber sep (body.map toChar) with
      | none => rw [hr] at h; cases h
      | some v =>
        obtain ⟨n', sc'⟩ := v
        rw [hr] at h
        simp only at h
        injection h with h
        injection h with a b c
        subst a; subst b; subst c
        exact ⟨rfl, rfl, rfl, rfl⟩
    · rw [h1, h2] at h; simp at h
  · rw [h1] at h; simp at h

theorem restM_of_not_names (g : Globals) (op : UInt64) (body : List UInt8) (neg : Bool)
    (hi : isInfL body = false) (hn : isNanL body = false) (hne : body ≠ []) :
    restM g op body neg = tailNum g body.toArray neg := by
  unfold restM
  split
  · exact absurd rfl hne
  · rename_i b0 b1 b2
    have h1 : isInf3 b0 b1 b2 = false := hi
    have h2 : isNan3 b0 b1 b2 = false := hn
    rw [h1, h2]; rfl
  · rename_i b0 b1 b2 b3 b4 b5 b6 b7
    have h1 : isInf8 b0 b1 b2 b3 b4 b5 b6 b7 = false := hi
    rw [h1]; rfl
  · rfl

theorem readNumber_nil (sep : Bool) : Spec.readNumber sep [] = none := by
  cases sep <;> decide

theorem restM_value (g : Globals) (op : UInt64) (body : List UInt8) (neg : Bool) (m : Spec.Mode)
    (hm : Spec.Mode.ofNat? g.DefaultRoundingMode.toNat = some m) (hlen : body.length + 6216 ≤ 2 ^ 58)
    (hi : isInfL body = false) (hn : isNanL body = false) (n : Nat) (sc : Int)
    (h : Spec.readNumber true (body.map toChar) = some (n, sc)) :
    ∃ v e, restM g op body neg = .ok (v, e) ∧
      (𝔳[v]).same (Spec.literalValue m neg n sc).1 = true ∧
      e = (if (Spec.literalValue m neg n sc).2 then Go.Err.parseRangeError else Go.Err.nil) := by
  have hne : body ≠ [] := by
    intro hb; subst hb
    rw [List.map_nil, readNumber_nil] at h; cases h
  rw [restM_of_not_names g op body neg hi hn hne]
  obtain ⟨v, e, hp, hv, he⟩ := parseNumber_value' g body.toArray neg true m hm (by simpa using hlen) n sc
    (by simpa using h)
  refine ⟨v, mapErr e, tailNum_of_ok g _ neg v e hp, hv, ?_⟩
  rw [he]
  split <;> rfl

theorem parseM_value (g : Globals) (op : UInt64) (cs : List UInt8) (m : Spec.Mode)
    (hm : Spec.Mode.ofNat? g.DefaultRoundingMode.toNat = some m) (hlen : cs.length + 6216 ≤ 2 ^ 58)
    (neg : Bool) (n : Nat) (sc : Int)
    (h : Spec.readLiteral true true (cs.map toChar) = some (.num neg n sc)) :
    ∃ v e, parseM g op cs = .ok (v, e) ∧
      (𝔳[v]).same (Spec.literalValue m neg n sc).1 = true ∧
      e = (if (Spec.literalValue m neg n sc).2 then Go.Err.parseRangeError else Go.Err.nil) := by
  cases cs with
  | nil =>
    have : Spec.readLiteral true true (([] : List UInt8).map toChar) = none := by decide
    rw [this] at h; cases h
  | cons c body =>
    simp only [List.length_cons] at hlen
    rw [List.map_cons, readLiteral_cons] at h
    rw [parseM_cons]
    by_cases h43 : c = 43
    · subst h43
      rw [if_pos (by decide)]
      rw [if_neg (show toChar 43 ≠ '-' by decide), if_pos (show toChar 43 = '+' from rfl)] at h
      obtain ⟨hneg, hi, hn, hr⟩ := litBody_num h
      subst hneg
      exact restM_value g op body false m hm (by omega) hi hn n sc hr
    by_cases h45 : c = 45
    · subst h45
      rw [if_neg (by decide), if_pos (by decide)]
      rw [if_pos (show toChar 45 = '-' from rfl)] at h
      obtain ⟨hneg, hi, hn, hr⟩ := litBody_num h
      subst hneg
      exact restM_value g op body true m hm (by omega) hi hn n sc hr
    · rw [if_neg (by simpa using h43), if_neg (by simpa using h45)]
      have e1 : toChar c ≠ '-' := fun hh => h45 (toChar_inj (hh.trans toChar_45.symm))
      have e2 : toChar c ≠ '+' := fun hh => h43 (toChar_inj (hh.trans toChar_43.symm))
      rw [if_neg e1, if_neg e2, ← List.map_cons] at h
      obtain ⟨hneg, hi, hn, hr⟩ := litBody_num h
      subst hneg
      exact restM_value g op (c :: body) false m hm (by simpa using hlen) hi hn n sc hr

theorem parse_value' (g : Globals) (d : Go.Bytes) (op : UInt64) (m : Spec.Mode)
    (hm : Spec.Mode.ofNat? g.DefaultRoundingMode.toNat = some m) (hsz : d.size + 6216 ≤ 2 ^ 58)
    (neg : Bool) (n : Nat) (sc : Int)
    (h : Spec.readLiteral true true (d.toList.map toChar) = some (.num neg n sc)) :
    ∃ v e, Gen.parse g d op = .ok (v, e) ∧
      (𝔳[v]).same (Spec.literalValue m neg n sc).1 = true ∧
      e = (if (Spec.literalValue m neg n sc).2 then Go.Err.parseRangeError else Go.Err.nil) := by
  rw [parse_eq g d op (by omega)]
  exact parseM_value g op d.toList m hm (by simpa using hsz) neg n sc h

/-! ## rejected inputs: the exact result -/

theorem model_reject (g : Globals) (cs : List UInt8) (neg sep : Bool)
    (h : Spec.readNumber sep (cs.map toChar) = none) :
    model g cs neg sep = .ok ((default : Gen.Decimal), Go.Err.parseNumberSyntaxError) := by
  have hacc := accF_eq_readNumber sep cs
  rw [h, ← flags_init, ← run2_flags] at hacc
  unfold model
  rw [loops_eq_run2]
  cases hr : run2 sep cs (toS2 init1) with
  | none => rfl
  | some s =>
    rw [hr] at hacc
    simp only [Option.map_some, accF, flags, Option.isSome_none] at hacc
    apply finish_syn
    cases h1 : s.caneof <;> cases h2 : s.sawdig <;> simp_all

theorem parseNumber_reject' (g : Globals) (d : Go.Bytes) (neg sep : Bool) (hsz : d.size < 2 ^ 63)
    (h : Spec.readNumber sep (d.toList.map toChar) = none) :
    Gen.parseNumber g d neg sep = .ok ((default : Gen.Decimal), Go.Err.parseNumberSyntaxError) := by
  rw [parseNumber_eq_model g d neg sep hsz]
  exact model_reject g d.toList neg sep h

theorem restM_reject (g : Globals) (op : UInt64) (body : List UInt8) (neg : Bool)
    (hlen : body.length < 2 ^ 63)
    (hi : isInfL body = false) (hn : isNanL body = false)
    (h : Spec.readNumber true (body.map toChar) = none) :
    restM g op body neg = .ok ((default : Gen.Decimal), Go.Err.parseSyntaxError) := by
  by_cases hne : body = []
  · subst hne; rfl
  rw [restM_of_not_names g op body neg hi hn hne]
  have hp := parseNumber_reject' g body.toArray neg true (by simpa using hlen) (by simpa using h)
  exact tailNum_of_ok g _ neg _ _ hp

theorem parseM_reject (g : Globals) (op : UInt64) (cs : List UInt8) (hlen : cs.length < 2 ^ 63)
    (h : Spec.readLiteral true true (cs.map toChar) = none) :
    parseM g op cs = .ok ((default : Gen.Decimal), Go.Err.parseSyntaxError) := by
  cases cs with
  | nil => rfl
  | cons c body =>
    simp only [List.length_cons] at hlen
    rw [List.map_cons, readLiteral_cons] at h
    rw [parseM_cons]
    by_cases h43 : c = 43
    · subst h43
      rw [if_pos (by decide)]
      rw [if_neg (show toChar 43 ≠ '-' by decide), if_pos (show toChar 43 = '+' from rfl)] at h
      obtain ⟨hi, hn, hr⟩ := (litBody_none_iff true false true body).mp h
      exact restM_reject g op body false (by omega) hi hn hr
    by_cases h45 : c = 45
    · subst h45
      rw [if_neg (by decide), if_pos (by decide)]
      rw [if_pos (show toChar 45 = '-' from rfl)] at h
      obtain ⟨hi, hn, hr⟩ := (litBody_none_iff true true true body).mp h
      exact restM_reject g op body true (by omega) hi hn hr
    · rw [if_neg (by simpa using h43), if_neg (by simpa using h45)]
      have e1 : toChar c ≠ '-' := fun hh => h45 (toChar_inj (hh.trans toChar_45.symm))
      have e2 : toChar c ≠ '+' := fun hh => h43 (toChar_inj (hh.trans toChar_43.symm))
      rw [if_neg e1, if_neg e2, ← List.map_cons] at h
      obtain ⟨hi, hn, hr⟩ := (litBody_none_iff true false false (c :: body)).mp h
      exact restM_reject g op (c :: body) false (by simpa using hlen) hi hn hr

end ParseLong
