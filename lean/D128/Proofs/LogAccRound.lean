/-
  D128/Proofs/LogAccRound.lean — final rounding of a working value that is close to a real number
  (specification level; used by the accuracy proofs of `Log`, `Log2`, `Log10`, `Log1p`).

  `u := 10^(EnclPf.ulpExp T)` is the unit in the last place of the format at the positive real `T`.

  Provided (namespace `LogAcc`):
  * `ulp_facts`          : `Emin ≤ ulpExp T`, `T < (Cmax+1)·u`, and above `Emin` `(Cmax+1)·u/10 ≤ T`
  * `ulp_le`, `ulp_le_max` : `u ≤ T` for `T ≥ 10^-6000`; `ulpExp T ≤ 5966` for `T ≤ 10^6000`
  * `member_grid`        : `N·10^E` is a member of the format for `N ≤ Cmax+1`, `Emin ≤ E < Emax`
  * `nearest_real`       : `roundTo_nearest_member` read in ℝ
  * `members_close_eq`   : a member within `u/10` of a `T` that is itself a member equals `T`
  * `flushOrRound_close` : `flushOrRound m neg W = roundTo m neg W` for `W` within `u/2` of `T ≥ 10^-6000`
  * `nearest_within_ulp` : **main theorem** — a nearest mode applied to a positive rational `W` within `u/2` of
                           `T ∈ [10^-6000, 10^6000]` returns a finite member within `u` of `T`, and `T` itself
                           when `T` is a member and `W` is within `u/20` of it
-/
import D128.Proofs.EnclosureUlps
set_option autoImplicit false

namespace LogAcc
open Spec SpecRound EnclPf

/-! ## the unit in the last place at a real number -/

theorem Cmax_real : (Spec.Cmax : ℝ) + 1 = 10 * 2 ^ 110 := by
  have : ((Spec.Cmax + 1 : ℕ) : ℝ) = ((10 * 2 ^ 110 : ℕ) : ℝ) := by rw [Cmax_succ]
  push_cast at this
  exact this.trans (by norm_num)

theorem ulp_facts {T : ℝ} (hT : 0 < T) :
    Spec.Emin ≤ ulpExp T ∧ T < ((Spec.Cmax : ℝ) + 1) * (10 : ℝ) ^ (ulpExp T) ∧
    (Spec.Emin < ulpExp T → ((Spec.Cmax : ℝ) + 1) * (10 : ℝ) ^ (ulpExp T - 1) ≤ T) := by
  obtain ⟨h1, h2⟩ := (ulpExp_le_iff hT (ulpExp T)).1 le_rfl
  refine ⟨h1, h2, fun h => ?_⟩
  by_contra hc
  have := (ulpExp_le_iff hT (ulpExp T - 1)).2 ⟨by omega, not_le.1 hc⟩
  omega

/-- the unit is at most `T` (no subnormal range above `10^-6000`) -/
theorem ulp_le {T : ℝ} (hT0 : (10 : ℝ) ^ (-6000 : ℤ) ≤ T) : (10 : ℝ) ^ (ulpExp T) ≤ T := by
  have hT : 0 < T := lt_of_lt_of_le (zpow_pos (by norm_num) _) hT0
  obtain ⟨h1, -, h3⟩ := ulp_facts hT
  rcases eq_or_lt_of_le h1 with h | h
  · rw [← h]
    refine le_trans (zpow_le_zpow_right₀ (by norm_num) ?_) hT0
    unfold Spec.Emin; norm_num
  · refine le_trans ?_ (h3 h)
    have hp : (0 : ℝ) < (10 : ℝ) ^ (ulpExp T - 1) := zpow_pos (by norm_num) _
    have e : (10 : ℝ) ^ (ulpExp T) = 10 * (10 : ℝ) ^ (ulpExp T - 1) := by
      rw [← zpow_one_add₀ (by norm_num)]; congr 1; ring
    rw [e, Cmax_real]
    apply mul_le_mul_of_nonneg_right _ hp.le
    norm_num

theorem ulp_le_max {T : ℝ} (hT : 0 < T) (hT1 : T ≤ (10 : ℝ) ^ (6000 : ℤ)) : ulpExp T ≤ 5966 := by
  rw [ulpExp_le_iff hT]
  refine ⟨by unfold Spec.Emin; norm_num, lt_of_le_of_lt hT1 ?_⟩
  have e : (10 : ℝ) ^ (6000 : ℤ) = (10 : ℝ) ^ (34 : ℤ) * (10 : ℝ) ^ (5966 : ℤ) := by
    rw [← zpow_add₀ (by norm_num)]; norm_num
  rw [e, Cmax_real]
  apply mul_lt_mul_of_pos_right _ (zpow_pos (by norm_num) _)
  norm_num

/-! ## members of the format on a grid -/

/-- multiples `N·10^E`, `N ≤ Cmax + 1`, are members (the last one as `2^110·10^(E+1)`) -/
theorem member_grid {N : ℕ} {E : ℤ} (hN : N ≤ Spec.Cmax + 1) (hE0 : Spec.Emin ≤ E)
    (hE1 : E + 1 ≤ Spec.Emax) : Member ((N : ℚ) * (10 : ℚ) ^ E) := by
  by_cases h : N ≤ Spec.Cmax
  · exact ⟨N, E, h, hE0, by omega, rfl⟩
  · have hN' : N = 10 * 2 ^ 110 := by rw [← Cmax_succ]; omega
    refine ⟨2 ^ 110, E + 1, by unfold Spec.Cmax; norm_num, by omega, hE1, ?_⟩
    rw [hN', zpow_add₀ (by norm_num : (10 : ℚ) ≠ 0)]
    push_cast; ring

/-- `roundTo_nearest_member` over the reals -/
theorem nearest_real {m : Spec.Mode} (hn : isNearest m = true) {neg : Bool} {W : ℚ} (hW : 0 < W)
    {n : Bool} {c : ℕ} {e : ℤ} (h : Spec.roundTo m neg W = .fin n c e) {x : ℚ} (hx : Member x) :
    |(c : ℝ) * (10 : ℝ) ^ e - (W : ℝ)| ≤ |(x : ℝ) - (W : ℝ)| := by
  have := roundTo_nearest_member hn hW h hx
  have h2 : ((|(c : ℚ) * (10 : ℚ) ^ e - W| : ℚ) : ℝ) ≤ ((|x - W| : ℚ) : ℝ) := by exact_mod_cast this
  simpa using h2

/-- a point `R` that is nearest to `W` among a set containing `x ∈ [T, T+u]` is at most `T + u` when `W` is
within `u/2` of `T` -/
theorem le_of_nearest_hi {R W T u x : ℝ} (hx0 : T ≤ x) (hx1 : x ≤ T + u) (hc : |W - T| ≤ u / 2)
    (hn : |R - W| ≤ |x - W|) : R ≤ T + u := by
  by_contra hR
  have hR := not_le.1 hR
  obtain ⟨c1, c2⟩ := abs_le.1 hc
  rcases abs_cases (R - W) with ⟨h1, _⟩ | ⟨h1, _⟩ <;> rcases abs_cases (x - W) with ⟨h2, _⟩ | ⟨h2, _⟩ <;>
    linarith

theorem ge_of_nearest_lo {R W T u x : ℝ} (hx0 : x ≤ T) (hx1 : T - u ≤ x) (hc : |W - T| ≤ u / 2)
    (hn : |R - W| ≤ |x - W|) : T - u ≤ R := by
  by_contra hR
  have hR := not_le.1 hR
  obtain ⟨c1, c2⟩ := abs_le.1 hc
  rcases abs_cases (R - W) with ⟨h1, _⟩ | ⟨h1, _⟩ <;> rcases abs_cases (x - W) with ⟨h2, _⟩ | ⟨h2, _⟩ <;>
    linarith

/-! ## two members close to `T` -/

/-- a member within `u/10` of `T` has exponent at least `ulpExp T - 1` (above `Emin`) -/
theorem member_exp_ge {T : ℝ} (hT : 0 < T) (hE : Spec.Emin < ulpExp T) {c : ℕ} {e : ℤ}
    (hc : c ≤ Spec.Cmax) (hclose : |(c : ℝ) * (10 : ℝ) ^ e - T| < (10 : ℝ) ^ (ulpExp T - 1)) :
    ulpExp T - 1 ≤ e := by
  obtain ⟨-, -, h3⟩ := ulp_facts hT
  have h3 := h3 hE
  by_contra hcon
  have he : e ≤ ulpExp T - 2 := by omega
  have hp : (0 : ℝ) < (10 : ℝ) ^ (ulpExp T - 2) := zpow_pos (by norm_num) _
  have e1 : (10 : ℝ) ^ (ulpExp T - 1) = 10 * (10 : ℝ) ^ (ulpExp T - 2) := by
    rw [← zpow_one_add₀ (by norm_num)]; congr 1; ring
  have h1 : (c : ℝ) * (10 : ℝ) ^ e ≤ (Spec.Cmax : ℝ) * (10 : ℝ) ^ (ulpExp T - 2) :=
    mul_le_mul (by exact_mod_cast hc) (zpow_le_zpow_right₀ (by norm_num) he)
      (zpow_pos (by norm_num) _).le (Nat.cast_nonneg _)
  have hC : (0 : ℝ) ≤ (Spec.Cmax : ℝ) * (10 : ℝ) ^ (ulpExp T - 2) := by positivity
  rw [e1] at h3 hclose
  have := (abs_lt.1 hclose).1
  nlinarith

/-- a multiple of a higher power of ten is a natural multiple of a lower one -/
theorem real_scaled_nat (c : ℕ) {e E : ℤ} (h : E ≤ e) :
    ∃ N : ℕ, (c : ℝ) * (10 : ℝ) ^ e = (N : ℝ) * (10 : ℝ) ^ E := by
  refine ⟨c * 10 ^ (e - E).toNat, ?_⟩
  have : e = ((e - E).toNat : ℤ) + E := by rw [Int.toNat_of_nonneg (by omega)]; ring
  conv_lhs => rw [this, zpow_add₀ (by norm_num : (10 : ℝ) ≠ 0), zpow_natCast]
  push_cast; ring

theorem grid_eq {a b : ℕ} {p : ℝ} (hp : 0 < p) (h : |(a : ℝ) * p - (b : ℝ) * p| < p) : a = b := by
  have e : (a : ℝ) * p - (b : ℝ) * p = ((a : ℝ) - b) * p := by ring
  rw [e, abs_mul, abs_of_pos hp] at h
  have h1 : |(a : ℝ) - b| < 1 := by
    by_contra hc
    have := mul_le_mul_of_nonneg_right (not_lt.1 hc) hp.le
    linarith
  have h2 : |(a : ℤ) - (b : ℤ)| < 1 := by
    have : ((|(a : ℤ) - (b : ℤ)| : ℤ) : ℝ) < 1 := by push_cast; exact h1
    exact_mod_cast this
  have := Int.abs_lt_one_iff.1 h2
  omega

/-- **Two members close to `T` are equal**: if `T` is (the value of) a member of the format then every member
within a tenth of a unit in the last place of `T` equals `T`. -/
theorem members_close_eq {T : ℝ} (hT : 0 < T) {c c' : ℕ} {e e' : ℤ} (hc : c ≤ Spec.Cmax)
    (he : Spec.Emin ≤ e) (hc' : c' ≤ Spec.Cmax) (he' : Spec.Emin ≤ e')
    (hT' : T = (c' : ℝ) * (10 : ℝ) ^ e')
    (hclose : |(c : ℝ) * (10 : ℝ) ^ e - T| < (10 : ℝ) ^ (ulpExp T) / 10) :
    (c : ℝ) * (10 : ℝ) ^ e = T := by
  obtain ⟨h1, -, -⟩ := ulp_facts hT
  have e1 : (10 : ℝ) ^ (ulpExp T) / 10 = (10 : ℝ) ^ (ulpExp T - 1) := by
    rw [zpow_sub₀ (by norm_num : (10 : ℝ) ≠ 0)]; simp
  rw [e1] at hclose
  have hp : (0 : ℝ) < (10 : ℝ) ^ (ulpExp T - 1) := zpow_pos (by norm_num) _
  have hee : ulpExp T - 1 ≤ e ∧ ulpExp T - 1 ≤ e' := by
    rcases eq_or_lt_of_le h1 with h | h
    · constructor <;> omega
    · refine ⟨member_exp_ge hT h hc hclose, member_exp_ge hT h hc' ?_⟩
      rw [← hT', sub_self, abs_zero]; exact hp
  obtain ⟨N, hN⟩ := real_scaled_nat c hee.1
  obtain ⟨N', hN'⟩ := real_scaled_nat c' hee.2
  generalize ulpExp T = E at hclose hN hN' hp
  rw [hT', hN, hN'] at hclose ⊢
  have hNN : N = N' := grid_eq hp hclose
  rw [hNN]

/-! ## the main theorem -/

/-- `W` within half a unit of `T ≥ 10^-6000` is far above the flush threshold -/
theorem close_ge {W : ℚ} {T : ℝ} (hT0 : (10 : ℝ) ^ (-6000 : ℤ) ≤ T)
    (hclose : |(W : ℝ) - T| ≤ (10 : ℝ) ^ (ulpExp T) / 2) : (10 : ℚ) ^ (Spec.Emin - 1) ≤ W := by
  have hu := ulp_le hT0
  have h1 := (abs_le.1 hclose).1
  have h2 : (10 : ℝ) ^ (Spec.Emin - 1) ≤ (10 : ℝ) ^ (-6000 : ℤ) / 2 := by
    have e : (10 : ℝ) ^ (-6000 : ℤ) = (10 : ℝ) ^ (Spec.Emin - 1) * (10 : ℝ) ^ (177 : ℤ) := by
      rw [← zpow_add₀ (by norm_num)]; unfold Spec.Emin; norm_num
    have hp : (0 : ℝ) < (10 : ℝ) ^ (Spec.Emin - 1) := zpow_pos (by norm_num) _
    rw [e]
    have : (2 : ℝ) ≤ (10 : ℝ) ^ (177 : ℤ) := by norm_num
    nlinarith
  have : (((10 : ℚ) ^ (Spec.Emin - 1) : ℚ) : ℝ) ≤ (W : ℝ) := by push_cast; linarith
  exact_mod_cast this

theorem flushOrRound_close (m : Spec.Mode) (neg : Bool) {W : ℚ} {T : ℝ}
    (hT0 : (10 : ℝ) ^ (-6000 : ℤ) ≤ T) (hclose : |(W : ℝ) - T| ≤ (10 : ℝ) ^ (ulpExp T) / 2) :
    Spec.flushOrRound m neg W = Spec.roundTo m neg W :=
  flushOrRound_eq_roundTo m neg (close_ge hT0 hclose)

/-- no overflow: `W` within half a unit of `T ≤ 10^6000` -/
theorem close_fin {m : Spec.Mode} (hn : isNearest m = true) (neg : Bool) {W : ℚ} {T : ℝ} (hW : 0 < W)
    (hT0 : (10 : ℝ) ^ (-6000 : ℤ) ≤ T) (hT1 : T ≤ (10 : ℝ) ^ (6000 : ℤ))
    (hclose : |(W : ℝ) - T| ≤ (10 : ℝ) ^ (ulpExp T) / 2) : Spec.roundTo m neg W ≠ .inf neg := by
  have hu := ulp_le hT0
  have h1 := (abs_le.1 hclose).2
  rw [Ne, roundTo_nearest_inf_iff hn neg hW, not_le]
  have hC : (1 : ℝ) ≤ (Spec.Cmax : ℝ) + 1 / 2 := by
    have := Cmax_real
    have : (2 : ℝ) ≤ 10 * 2 ^ 110 := by norm_num
    linarith
  have e : (10 : ℝ) ^ (6000 : ℤ) * 10 = (10 : ℝ) ^ (6001 : ℤ) := by
    rw [← zpow_add_one₀ (by norm_num)]; norm_num
  have h2 : (10 : ℝ) ^ (6001 : ℤ) ≤ (10 : ℝ) ^ Spec.Emax :=
    zpow_le_zpow_right₀ (by norm_num) (by unfold Spec.Emax; norm_num)
  have hp : (0 : ℝ) < (10 : ℝ) ^ (6000 : ℤ) := zpow_pos (by norm_num) _
  have hpE : (0 : ℝ) < (10 : ℝ) ^ Spec.Emax := zpow_pos (by norm_num) _
  have h3 : (10 : ℝ) ^ Spec.Emax ≤ ((Spec.Cmax : ℝ) + 1 / 2) * (10 : ℝ) ^ Spec.Emax :=
    le_mul_of_one_le_left hpE.le hC
  have : (W : ℝ) < ((((Spec.Cmax : ℚ) + 1 / 2) * (10 : ℚ) ^ Spec.Emax : ℚ) : ℝ) := by
    push_cast
    generalize ((Spec.Cmax : ℝ) + 1 / 2) * (10 : ℝ) ^ Spec.Emax = X at *
    generalize (10 : ℝ) ^ Spec.Emax = pE at *
    generalize (10 : ℝ) ^ (6001 : ℤ) = p1 at *
    generalize (10 : ℝ) ^ (6000 : ℤ) = p0 at *
    linarith
  exact_mod_cast this

/-- **Final rounding of a value close to a real number.**  `T ∈ [10^-6000, 10^6000]` is the true result,
`u = 10^(ulpExp T)` its unit in the last place, `W > 0` a rational within `u/2` of `T`.  A nearest mode applied
to `W` returns a finite member of the format within one unit of `T`; and if `W` is within `u/20` of `T` and
`T` is itself a member, it returns `T`. -/
theorem nearest_within_ulp (m : Spec.Mode) (hn : SpecRound.isNearest m = true) (neg : Bool) (W : ℚ) (T : ℝ)
    (hW : 0 < W) (hT0 : (10 : ℝ) ^ (-6000 : ℤ) ≤ T) (hT1 : T ≤ (10 : ℝ) ^ (6000 : ℤ))
    (hclose : |(W : ℝ) - T| ≤ (10 : ℝ) ^ (EnclPf.ulpExp T) / 2) :
    ∃ c e, Spec.roundTo m neg W = .fin neg c e ∧ c ≤ Spec.Cmax ∧ Spec.Emin ≤ e ∧ e ≤ Spec.Emax ∧
      |(c : ℝ) * (10 : ℝ) ^ e - T| ≤ (10 : ℝ) ^ (EnclPf.ulpExp T) ∧
      (|(W : ℝ) - T| < (10 : ℝ) ^ (EnclPf.ulpExp T) / 20 →
        ∀ c' e', c' ≤ Spec.Cmax → Spec.Emin ≤ e' → e' ≤ Spec.Emax → T = (c' : ℝ) * (10 : ℝ) ^ e' →
          (c : ℝ) * (10 : ℝ) ^ e = T) := by
  have hT : 0 < T := lt_of_lt_of_le (zpow_pos (by norm_num) _) hT0
  obtain ⟨hE0, hlt, -⟩ := ulp_facts hT
  have hE1 := ulp_le_max hT hT1
  have hfin := close_fin hn neg hW hT0 hT1 hclose
  set E := ulpExp T with hEdef
  have hup : (0 : ℝ) < (10 : ℝ) ^ E := zpow_pos (by norm_num) _
  rcases roundTo_member m neg W hW with h | ⟨c, e, h, hc, he0, he1⟩
  · exact absurd h hfin
  refine ⟨c, e, h, hc, he0, he1, ?_, ?_⟩
  · -- the two grid neighbours of T
    have hs : 0 ≤ T / (10 : ℝ) ^ E := div_nonneg hT.le hup.le
    have hN0 := Nat.floor_le hs
    have hN1 := Nat.lt_floor_add_one (T / (10 : ℝ) ^ E)
    generalize ⌊T / (10 : ℝ) ^ E⌋₊ = N at hN0 hN1
    rw [le_div_iff₀ hup] at hN0
    rw [div_lt_iff₀ hup] at hN1
    have hNC : N ≤ Spec.Cmax := by
      have h1 : (N : ℝ) * (10 : ℝ) ^ E < ((Spec.Cmax : ℝ) + 1) * (10 : ℝ) ^ E := lt_of_le_of_lt hN0 hlt
      have h2 : (N : ℝ) < ((Spec.Cmax + 1 : ℕ) : ℝ) := by
        push_cast; exact lt_of_mul_lt_mul_right h1 hup.le
      have := Nat.cast_lt.1 h2
      omega
    have hEm : E + 1 ≤ Spec.Emax := by unfold Spec.Emax; omega
    have mlo := nearest_real hn hW h (member_grid (N := N) (by omega) hE0 hEm)
    have mhi := nearest_real hn hW h (member_grid (N := N + 1) (by omega) hE0 hEm)
    push_cast at mlo mhi
    rw [abs_le]
    constructor
    · have := ge_of_nearest_lo (u := (10 : ℝ) ^ E) hN0 (by linarith) hclose mlo
      linarith
    · have := le_of_nearest_hi (u := (10 : ℝ) ^ E) hN1.le (by linarith) hclose mhi
      linarith
  · intro hcl c' e' hc' he0' he1' hT'
    have mT := nearest_real hn hW h (⟨c', e', hc', he0', he1', rfl⟩ : Member ((c' : ℚ) * (10 : ℚ) ^ e'))
    push_cast at mT
    rw [← hT', abs_sub_comm T] at mT
    apply members_close_eq hT hc he0 hc' he0' hT'
    have := abs_sub_le ((c : ℝ) * (10 : ℝ) ^ e) (W : ℝ) T
    linarith

/-- the hypotheses of `nearest_within_ulp` are satisfiable: `T = 3`, `W = 3 + 10^-40` (a 41-digit working
value, not a member of the format), nearest-even -/
example := nearest_within_ulp .nearestEven rfl false (3 + (10 : ℚ) ^ (-40 : ℤ)) 3 (by positivity)
  (le_trans (zpow_le_one_of_nonpos₀ (by norm_num) (by norm_num)) (by norm_num))
  (le_trans (by norm_num : (3 : ℝ) ≤ (10 : ℝ) ^ (1 : ℤ)) (zpow_le_zpow_right₀ (by norm_num) (by norm_num)))
  (by
    have h3 : (0 : ℝ) < 3 := by norm_num
    obtain ⟨h1, -, -⟩ := ulp_facts h3
    have : (10 : ℝ) ^ (-40 : ℤ) ≤ (10 : ℝ) ^ (ulpExp 3) / 2 := by
      have hE : (-6176 : ℤ) ≤ ulpExp 3 := h1
      have h2 : (10 : ℝ) ^ (-39 : ℤ) ≤ (10 : ℝ) ^ (ulpExp 3) := by
        by_contra hc
        have hlt := not_le.1 hc
        have := (zpow_lt_zpow_iff_right₀ (by norm_num : (1 : ℝ) < 10)).1 hlt
        have h4 := (ulp_facts h3).2.1
        rw [Cmax_real] at h4
        have h5 : (10 : ℝ) ^ (ulpExp 3) ≤ (10 : ℝ) ^ (-40 : ℤ) :=
          zpow_le_zpow_right₀ (by norm_num) (by omega)
        have h6 : (10 : ℝ) * 2 ^ 110 * (10 : ℝ) ^ (-40 : ℤ) < 3 := by norm_num
        nlinarith
      have e : (10 : ℝ) ^ (-39 : ℤ) = 10 * (10 : ℝ) ^ (-40 : ℤ) := by norm_num
      have hp : (0 : ℝ) < (10 : ℝ) ^ (-40 : ℤ) := zpow_pos (by norm_num) _
      rw [e] at h2
      generalize (10 : ℝ) ^ (-40 : ℤ) = p at *
      linarith
    push_cast
    rw [add_sub_cancel_left, abs_of_pos (zpow_pos (by norm_num) _)]
    exact this)

end LogAcc
