/-
  D128/Proofs/AddMain.lean — the finite, non-zero path of `Gen.Decimal.add` (Go: /repo/arith.go,
  `func (d Decimal) add(o Decimal, mode RoundingMode, subtract bool)`) against `Spec.addCore`
  (property C01).

  Provided (namespace `AD`):
  * `tailS_eq`, `scale_up_eq`, `scale_dn_eq`
  * `finish_add`          : the epilogue on aligned operands denotes `Spec.addCore`
  * `add_finite`          : both operands finite and non-zero: `add d o rm sub` does not panic and its
                            result denotes `Spec.addCore m 𝔳[d] 𝔳[o] sub` (all gaps between the exponents,
                            both signs, borrow or not, all six modes)
  * `AddWithMode_finite`, `SubWithMode_finite`
-/
import D128.Proofs.AddAlignScale
import D128.Proofs.AddAlignTail
import D128.Proofs.AddAlignSpec

set_option autoImplicit false
set_option maxRecDepth 4096

namespace AD
open Gen Spec
local notation "𝔳[" d "]" => Spec.interp (Gen.Decimal.lo d) (Gen.Decimal.hi d)

theorem tailS_eq (d o : Decimal) (mode : UInt8) (sub : Bool) (dS : U128) (E : Int16) (oS : U128)
    (t : Int8) :
    tailS d o mode sub dS E oS t =
      tail mode (Decimal.Signbit d) (if sub then !Decimal.Signbit o else Decimal.Signbit o) dS E oS t := by
  cases sub <;> rfl

theorem scale_up_eq (c u : Nat) (X Y : Int) (h : X + u = Y) :
    ((c * 10 ^ u : Nat) : ℚ) * (10 : ℚ) ^ X = (c : ℚ) * (10 : ℚ) ^ Y := by
  have h10 : (10 : ℚ) ≠ 0 := by norm_num
  push_cast
  rw [mul_assoc, ← zpow_natCast, ← zpow_add₀ h10]
  congr 2
  omega

theorem scale_dn_eq (c n : Nat) (X Y : Int) (h : X - n = Y) :
    (c : ℚ) / (10 : ℚ) ^ n * (10 : ℚ) ^ X = (c : ℚ) * (10 : ℚ) ^ Y := by
  have h10 : (10 : ℚ) ≠ 0 := by norm_num
  rw [div_mul_eq_mul_div, mul_div_assoc, ← zpow_natCast, ← zpow_sub₀ h10, h]

/-- the epilogue applied to aligned operands denotes the specified sum -/
theorem finish_add (d o : Decimal) (rm : UInt8) (m : Spec.Mode)
    (hm : Spec.Mode.ofNat? rm.toNat = some m) (sub : Bool) (c c' : Nat) (e e' : Int)
    (hc : c ≠ 0) (hc' : c' ≠ 0)
    (dS' : U128) (E' : Int16) (oS' : U128) (t' : Int8) (φ : ℚ)
    (hE0 : 0 ≤ E'.toInt) (hE1 : E'.toInt ≤ 12287) (hcase : TailCase dS' oS' t' φ)
    (hD : exD dS' t' φ * (10 : ℚ) ^ (E'.toInt - 6176) = (c : ℚ) * (10 : ℚ) ^ e)
    (hO : exO oS' t' φ * (10 : ℚ) ^ (E'.toInt - 6176) = (c' : ℚ) * (10 : ℚ) ^ e') :
    ∃ r, tailS d o rm sub dS' E' oS' t' = .ok r ∧
      (𝔳[r]).same (Spec.addCore m (.fin (Decimal.Signbit d) c e) (.fin (Decimal.Signbit o) c' e') sub)
        = true := by
  rw [tailS_eq]
  obtain ⟨r, hr, hsame⟩ := tail_correct rm m hm (Decimal.Signbit d)
    (if sub then !Decimal.Signbit o else Decimal.Signbit o) dS' E' oS' t' φ hE0 hE1 hcase _ rfl
  refine ⟨r, hr, ?_⟩
  have hSS : ((if Decimal.Signbit d then -1 else 1) * exD dS' t' φ
      + (if (if sub then !Decimal.Signbit o else Decimal.Signbit o) then -1 else 1) * exO oS' t' φ)
        * (10 : ℚ) ^ (E'.toInt - 6176)
      = (if Decimal.Signbit d then -1 else 1) * ((c : ℚ) * (10 : ℚ) ^ e)
        + (if (if sub then !Decimal.Signbit o else Decimal.Signbit o) then -1 else 1)
          * ((c' : ℚ) * (10 : ℚ) ^ e') := by
    rw [add_mul, mul_assoc, mul_assoc, hD, hO]
  rw [addCore_fin m _ _ c c' e e' sub hc hc' (E'.toInt - 6176) _ hSS]
  exact hsame

/-- the truncated operand of a half (sticky value `tv = ±1`): the alternatives of `TailCase` and its
    exact value `c/10^n` -/
theorem trunc_operand (c n : Nat) (hc : c ≤ Spec.Cmax) (q big : U128) (t' tv : Int8) (htv : tv ≠ 0)
    (hq : q.toNat = c / 10 ^ n) (ht : t' = if c % 10 ^ n ≠ 0 then tv else 0)
    (hstop : n = 0 ∨ 25 * 2 ^ 120 ≤ big.toNat) :
    ((t' = 0 ∧ ((c % 10 ^ n : Nat) : ℚ) / (10 : ℚ) ^ n = 0) ∨
      (t' = tv ∧ 0 < ((c % 10 ^ n : Nat) : ℚ) / (10 : ℚ) ^ n ∧
        ((c % 10 ^ n : Nat) : ℚ) / (10 : ℚ) ^ n < 1 ∧ 25 * 2 ^ 120 ≤ big.toNat ∧ q.toNat < 2 ^ 110)) ∧
    (q.toNat : ℚ) + (if t' = tv then ((c % 10 ^ n : Nat) : ℚ) / (10 : ℚ) ^ n else 0)
      = (c : ℚ) / (10 : ℚ) ^ n := by
  obtain ⟨hfrac, hrem⟩ := trunc_frac c n hc
  by_cases hr : c % 10 ^ n = 0
  · rw [if_neg (by simpa using hr)] at ht
    refine ⟨Or.inl ⟨ht, by rw [hr]; simp⟩, ?_⟩
    rw [if_neg (by rw [ht]; exact fun h => htv h.symm), add_zero, hq, ← hfrac, hr]; simp
  · rw [if_pos hr] at ht
    obtain ⟨h1, h2, h3, h4⟩ := hrem hr
    have hbig : 25 * 2 ^ 120 ≤ big.toNat := by
      rcases hstop with h | h
      · omega
      · exact h
    refine ⟨Or.inr ⟨ht, h1, h2, hbig, by rw [hq]; exact h4⟩, ?_⟩
    rw [if_pos ht, hq, hfrac]

/-- **the finite path of `add`.**  Both operands finite and non-zero: `add d o rm sub` terminates
    without panic and its result denotes `Spec.addCore m 𝔳[d] 𝔳[o] sub`, the member of the format that
    mode `m` selects for the exact sum (difference when `sub`), for every gap between the exponents. -/
theorem add_finite (d o : Gen.Decimal) (rm : UInt8) (m : Spec.Mode)
    (hm : Spec.Mode.ofNat? rm.toNat = some m) (sub : Bool)
    (hd : Gen.Decimal.isSpecial d = false) (ho : Gen.Decimal.isSpecial o = false)
    (zd : Gen.Decimal.IsZero d = false) (zo : Gen.Decimal.IsZero o = false) :
    ∃ r, Gen.Decimal.add d o rm sub = .ok r ∧
      (𝔳[r]).same (Spec.addCore m 𝔳[d] 𝔳[o] sub) = true := by
  have hdz : Sp.sigz d = false := by rw [Sp.sigz_eq, zd]
  have hoz : Sp.sigz o = false := by rw [Sp.sigz_eq, zo]
  rw [add_eq d o rm sub hdz hoz, Enc.interp_decompose d hd, Enc.interp_decompose o ho]
  have hcd : (Gen.Decimal.decompose d).1.toNat ≠ 0 := by
    have := Sp.IsZero_eq_sig d; rw [zd] at this; simpa using this.symm
  have hco : (Gen.Decimal.decompose o).1.toNat ≠ 0 := by
    have := Sp.IsZero_eq_sig o; rw [zo] at this; simpa using this.symm
  have hd0 := Enc.decompose_exp_nonneg d
  have hd1 := Enc.decompose_exp_le d hd
  have ho0 := Enc.decompose_exp_nonneg o
  have ho1 := Enc.decompose_exp_le o ho
  have hsd := Enc.decompose_sig_le d
  have hso := Enc.decompose_sig_le o
  generalize (Gen.Decimal.decompose d).1 = dS at *
  generalize (Gen.Decimal.decompose o).1 = oS at *
  generalize (Gen.Decimal.decompose d).2 = dE at *
  generalize (Gen.Decimal.decompose o).2 = oE at *
  have hC35 : Spec.Cmax < 10 ^ 35 := by unfold Spec.Cmax; norm_num
  have hexp : (dE - oE).toInt = dE.toInt - oE.toInt := i16_sub _ _ (by omega) (by omega)
  have h0 : (0 : Int16).toInt = 0 := rfl
  unfold core
  by_cases hlt : decide (dE - oE < 0) = true
  · -- o has the larger exponent
    rw [if_pos hlt]
    rw [i16_lt_iff, hexp, h0] at hlt
    obtain ⟨dS', E', oS', t', u, n, hun, hoS, hstop, hdS, ht, hE, eq⟩ :=
      alignL_spec (tailS d o rm sub) dS dE oS oE (dE - oE) (oE.toInt - dE.toInt).toNat
        (Nat.pos_of_ne_zero hcd) (by omega) hd0 ho1 (by omega) (by rw [hexp]; omega)
    rw [eq]
    obtain ⟨hcase, hval⟩ := trunc_operand dS.toNat n hsd dS' oS' t' 1 (by decide) hdS ht hstop
    have ht01 : t' = 0 ∨ t' = 1 := by
      rcases hcase with ⟨h, _⟩ | ⟨h, _⟩
      · exact Or.inl h
      · exact Or.inr h
    refine finish_add d o rm m hm sub dS.toNat oS.toNat _ _ hcd hco dS' E' oS' t'
      (((dS.toNat % 10 ^ n : Nat) : ℚ) / (10 : ℚ) ^ n) (by omega) (by omega) ?_ ?_ ?_
    · rcases hcase with ⟨h1, h2⟩ | ⟨h1, h2, h3, h4, h5⟩
      · exact Or.inl ⟨h1, h2⟩
      · exact Or.inr (Or.inl ⟨h1, h2, h3, h4, h5⟩)
    · unfold exD
      rw [hval]
      exact scale_dn_eq _ _ _ _ (by omega)
    · have : exO oS' t' (((dS.toNat % 10 ^ n : Nat) : ℚ) / (10 : ℚ) ^ n) = (oS'.toNat : ℚ) := by
        rcases ht01 with h | h
        · rw [h, exO_zero]
        · rw [h, exO_one]
      rw [this, hoS]
      exact scale_up_eq _ _ _ _ (by omega)
  · rw [if_neg hlt]
    have hge : ¬ (dE.toInt - oE.toInt < 0) := by
      intro h; apply hlt; rw [i16_lt_iff, hexp, h0]; exact h
    by_cases hgt : decide (dE - oE > 0) = true
    · -- d has the larger exponent
      rw [if_pos hgt]
      rw [i16_gt_iff, hexp, h0] at hgt
      obtain ⟨dS', E', oS', t', u, n, hun, hdS, hstop, hoS, ht, hE, eq⟩ :=
        alignR_spec (tailS d o rm sub) dS dE oS oE (dE - oE) (dE.toInt - oE.toInt).toNat
          (Nat.pos_of_ne_zero hco) (by omega) ho0 hd1 (by omega) (by rw [hexp]; omega)
      rw [eq]
      obtain ⟨hcase, hval⟩ := trunc_operand oS.toNat n hso oS' dS' t' (-1) (by decide) hoS ht hstop
      have ht01 : t' = 0 ∨ t' = -1 := by
        rcases hcase with ⟨h, _⟩ | ⟨h, _⟩
        · exact Or.inl h
        · exact Or.inr h
      refine finish_add d o rm m hm sub dS.toNat oS.toNat _ _ hcd hco dS' E' oS' t'
        (((oS.toNat % 10 ^ n : Nat) : ℚ) / (10 : ℚ) ^ n) (by omega) (by omega) ?_ ?_ ?_
      · rcases hcase with ⟨h1, h2⟩ | ⟨h1, h2, h3, h4, h5⟩
        · exact Or.inl ⟨h1, h2⟩
        · exact Or.inr (Or.inr ⟨h1, h2, h3, h4, h5⟩)
      · have : exD dS' t' (((oS.toNat % 10 ^ n : Nat) : ℚ) / (10 : ℚ) ^ n) = (dS'.toNat : ℚ) := by
          rcases ht01 with h | h
          · rw [h, exD_zero]
          · rw [h, exD_neg]
        rw [this, hdS]
        exact scale_up_eq _ _ _ _ (by omega)
      · unfold exO
        rw [hval]
        exact scale_dn_eq _ _ _ _ (by omega)
    · -- equal exponents
      rw [if_neg hgt]
      have hle : ¬ (0 < dE.toInt - oE.toInt) := by
        intro h; apply hgt; rw [i16_gt_iff, hexp, h0]; exact h
      refine finish_add d o rm m hm sub dS.toNat oS.toNat _ _ hcd hco dS dE oS 0 0 hd0 hd1
        (Or.inl ⟨rfl, rfl⟩) ?_ ?_
      · rw [exD_zero]
      · rw [exO_zero]
        congr 2
        omega

/-- `AddWithMode` on finite non-zero operands -/
theorem AddWithMode_finite (d o : Gen.Decimal) (rm : UInt8) (m : Spec.Mode)
    (hm : Spec.Mode.ofNat? rm.toNat = some m)
    (hd : Gen.Decimal.isSpecial d = false) (ho : Gen.Decimal.isSpecial o = false)
    (zd : Gen.Decimal.IsZero d = false) (zo : Gen.Decimal.IsZero o = false) :
    ∃ r, Gen.Decimal.AddWithMode d o rm = .ok r ∧ (𝔳[r]).same (Spec.add m 𝔳[d] 𝔳[o]) = true := by
  obtain ⟨r, hr, hs⟩ := add_finite d o rm m hm false hd ho zd zo
  unfold Gen.Decimal.AddWithMode
  simp only [hd, ho, Bool.or_self, if_false, Bool.false_eq_true]
  rw [hr]
  exact ⟨r, rfl, hs⟩

/-- `SubWithMode` on finite non-zero operands -/
theorem SubWithMode_finite (d o : Gen.Decimal) (rm : UInt8) (m : Spec.Mode)
    (hm : Spec.Mode.ofNat? rm.toNat = some m)
    (hd : Gen.Decimal.isSpecial d = false) (ho : Gen.Decimal.isSpecial o = false)
    (zd : Gen.Decimal.IsZero d = false) (zo : Gen.Decimal.IsZero o = false) :
    ∃ r, Gen.Decimal.SubWithMode d o rm = .ok r ∧ (𝔳[r]).same (Spec.sub m 𝔳[d] 𝔳[o]) = true := by
  obtain ⟨r, hr, hs⟩ := add_finite d o rm m hm true hd ho zd zo
  unfold Gen.Decimal.SubWithMode
  simp only [hd, ho, Bool.or_self, if_false, Bool.false_eq_true]
  rw [hr]
  exact ⟨r, rfl, hs⟩

/-- the hypotheses of `add_finite` are satisfiable: `1 - 3·10^-40` under `ToNearestAway` (operands
    `compose(false, 1, 6176)` and `compose(false, 3, 6136)`; the gap of 40 digits exceeds `maxDigits`, the
    small operand becomes a pure sticky and the subtraction does not borrow) -/
example := add_finite (Gen.compose false ⟨1, 0⟩ 6176) (Gen.compose false ⟨3, 0⟩ 6136) 1 .nearestAway rfl true
  (by decide) (by decide) (by decide) (by decide)

end AD
