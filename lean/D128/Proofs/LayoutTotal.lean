/-
  D128/Proofs/LayoutTotal.lean — totality and output-size bounds (property C20 for the formatting entry
  points): lengths of the layouts, then `Decimal.format` / `Decimal.Append` for EVERY spec.

  * `Ly.layoutE_length_le`, `Ly.layoutF_length_le`, `Ly.padStr_length`, `Ly.size_of_bstr`,
    `Ly.roundSlice_dp`, `Ly.roundF_dp`, `Ly.bodyG_length_le`
  * `Ly.outBound`, `Ly.format_size_eE/fF/gG`, `Ly.format_size` : the six float verbs append at most
    `max width outBound` bytes
  * `Ly.padOut_size_le`, `Ly.fmtE_size`, `Ly.fmtF_size` : the emitters on ANY record with `0 ≤ ndig ≤ 39`
  * `Ly.formatV`, `Ly.format_V`, `Ly.formatV_ok`, `Ly.format_other`, `Ly.String_ok` : the `v` arm, the
    unknown-verb arm, `d.String()`
  * `Ly.knownVerb`, `Ly.decimal_append_total` : `Decimal.Append` on every `d`, buffer and spec
-/
import D128.Proofs.LayoutApi

set_option autoImplicit false
set_option maxRecDepth 4096

namespace Ly
open Dg Gen

/-! ## lengths of the layouts -/

theorem toString_length_le (a : Nat) (ha : a < 10000) : (toString a).toList.length ≤ 4 := by
  have h := congrArg List.length (expDigits_str a true ha)
  rw [List.length_map, List.length_append] at h
  have := expDigits_length a true
  omega

theorem expStr_length_le (e : Char) (x : Int) (m : Nat) (hm : m ≤ 4) (hx : x.natAbs < 10000) :
    (Spec.expStr e x m).length ≤ 6 := by
  unfold Spec.expStr
  have := toString_length_le x.natAbs hx
  simp only [List.length_cons, List.length_append, Spec.zeros, List.length_replicate]
  omega

theorem layoutE_length_le (r : Spec.Slice) (q : Nat) (sharp : Bool) (e : Char)
    (hx : (if r.ds.isEmpty then (0 : Int) else r.dp - 1).natAbs < 10000) :
    (Spec.layoutE r q sharp e 2).length ≤ q + 8 := by
  rw [layoutE_split]
  have h1 := expStr_length_le e _ 2 (by decide) hx
  unfold mantE
  rw [List.length_append, List.length_append]
  have h2 : (if q > 0 then '.' :: ((Spec.digitsStr (r.ds.drop 1) ++
        Spec.zeros (q - (Spec.digitsStr (r.ds.drop 1)).length)).take q)
      else if sharp then ['.'] else []).length ≤ q + 1 := by
    split
    · rw [List.length_cons, List.length_take]; omega
    · split <;> simp
  simp only [List.length_singleton]
  omega

theorem layoutF_length_le (r : Spec.Slice) (q : Nat) (sharp : Bool) :
    (Spec.layoutF r q sharp).length ≤ max 1 r.dp.toNat + 1 + q := by
  rw [layoutF_split, List.length_append]
  have h1 : (ipF r).length ≤ max 1 r.dp.toNat := by
    unfold ipF
    split
    · rw [List.length_append, Spec.digitsStr, List.length_map, List.length_take, Spec.zeros,
        List.length_replicate]
      omega
    · simp
  have h2 : (if q > 0 then '.' :: fracS r q else if sharp then ['.'] else []).length ≤ q + 1 := by
    split
    · rw [List.length_cons, fracS, List.length_map, List.length_range]
    · split <;> simp
  omega

theorem padStr_length (minus zero : Bool) (w : Nat) (sign body : Spec.Str) :
    (padStr minus zero w sign body).length = max w (sign.length + body.length) := by
  unfold padStr
  simp only
  split
  · rw [List.length_append]; omega
  · split
    · simp only [List.length_append, List.length_replicate]; omega
    · split
      · simp only [List.length_append, Spec.zeros, List.length_replicate]; omega
      · simp only [List.length_append, List.length_replicate]; omega

theorem signStr_length_le (neg plus space : Bool) : (signStr neg plus space).length ≤ 1 := by
  cases neg <;> cases plus <;> cases space <;> decide

theorem bstr_length (b : Go.Bytes) : (bstr b).length = b.size := by simp [bstr]

/-- size of a result written as `buf ++ padded (sign ++ body)` -/
theorem size_of_bstr (r buf : Go.Bytes) (minus zero : Bool) (W : Nat) (neg plus space : Bool)
    (body : Spec.Str) (B : Nat) (hbody : body.length ≤ B)
    (h : bstr r = bstr buf ++ padStr minus zero W (signStr neg plus space) body) :
    r.size ≤ buf.size + max W (B + 1) := by
  have := congrArg List.length h
  rw [bstr_length, List.length_append, bstr_length, padStr_length] at this
  have := signStr_length_le neg plus space
  omega

/-! ## the point position after rounding -/

theorem roundSlice_dp (s : Spec.Slice) (n : Nat) :
    (Spec.roundSlice s n).dp = 0 ∨ (Spec.roundSlice s n).dp = s.dp ∨
      (Spec.roundSlice s n).dp = s.dp + 1 := by
  cases s with
  | mk M dp =>
    by_cases hn : n ≥ M.length
    · rw [roundSlice_of_le _ _ hn]; exact Or.inr (Or.inl rfl)
    · rw [roundSlice_eq M dp n (by omega)]
      simp only
      generalize (if upS M n = true then ofMsd (M.take n) + 1 else ofMsd (M.take n)) = m
      by_cases hm : (m == 0) = true
      · rw [if_pos hm]; exact Or.inl rfl
      · rw [if_neg hm]
        simp only
        by_cases h0 : (n == 0) = true
        · rw [if_pos h0]; exact Or.inr (Or.inr rfl)
        · rw [if_neg h0]
          split
          · exact Or.inr (Or.inr rfl)
          · exact Or.inr (Or.inl rfl)

theorem roundF_dp (s : Spec.Slice) (P : Nat) :
    (roundF s P).dp = 0 ∨ (roundF s P).dp = s.dp ∨ (roundF s P).dp = s.dp + 1 := by
  unfold roundF
  split
  · exact Or.inl rfl
  · exact roundSlice_dp s _

/-- exponent printed for a slice whose point lies within the decimal128 range -/
theorem expo_small (r : Spec.Slice) (h0 : -6200 ≤ r.dp) (h1 : r.dp ≤ 6200) :
    (if r.ds.isEmpty then (0 : Int) else r.dp - 1).natAbs < 10000 := by
  split <;> omega

/-! ## `Decimal.format`: size of the output -/

/-- a bound on the bytes one call can append (beyond the width): precision below `10^6`, at most
6176 leading and 6147 integer digits, sign, point, exponent -/
def outBound : Nat := 1012325

theorem precOf_lt (args : formatArgs) (hp : PrecOK args) : (precOf args).getD 6 < 1000000 := by
  unfold precOf
  split
  · decide
  · simp only [Option.getD_some]
    rcases hp with h | h <;> omega

theorem format_size_eE (d : Decimal) (buf : Go.Bytes) (args : formatArgs)
    (hfin : Decimal.isSpecial d = false) (hv : args.verb = 101 ∨ args.verb = 69)
    (hp : PrecOK args) (W : Nat) (hW : args.wid.toInt = W) (hW' : W < 2 ^ 62)
    (hb : buf.size < 2 ^ 61) (hprz : args.padRight = true → args.padZero = false) :
    ∃ r, Decimal.format d buf args = .ok (args, r) ∧ r.size ≤ buf.size + max W outBound := by
  obtain ⟨r0, hr0, hwf, hneg, hs, hx0, hdp, hz⟩ := digits_fin d (default : digits) hfin
  have hf0 : Fin0 r0 := ⟨hwf, hx0, hdp, hz⟩
  have hn0 := hwf.n0
  have hsdp : (slice r0).dp = r0.exp.toInt + r0.ndig.toInt := rfl
  have hprec : args.prec.toInt < 2 ^ 56 := by rcases hp with h | h <;> omega
  rw [format_E d buf args hv, hr0, precision_eq]
  obtain ⟨P, hP, hPdef, hPb⟩ := prec_default args hprec
  have hP6 := precOf_lt args hp
  rw [← hPdef] at hP6
  obtain ⟨r, hr, hstr, _⟩ := formatE_spec r0 hf0 buf args _ _ (formatArgs.width args) P hP
    (by omega) W hW hW' hb hprz
  refine ⟨r, hr, ?_⟩
  have hdp' := roundSlice_dp (slice r0) (P + 1)
  have hbody := layoutE_length_le (Spec.roundSlice (slice r0) (P + 1)) P args.forceDP
    (chr args.verb) (expo_small _ (by rcases hdp' with h | h | h <;> omega)
      (by rcases hdp' with h | h | h <;> omega))
  have := size_of_bstr r buf _ _ W _ _ _ _ (P + 8) hbody hstr
  unfold outBound
  omega

theorem format_size_fF (d : Decimal) (buf : Go.Bytes) (args : formatArgs)
    (hfin : Decimal.isSpecial d = false) (hv : args.verb = 102 ∨ args.verb = 70)
    (hp : PrecOK args) (W : Nat) (hW : args.wid.toInt = W) (hW' : W < 2 ^ 62)
    (hb : buf.size < 2 ^ 61) (hprz : args.padRight = true → args.padZero = false) :
    ∃ r, Decimal.format d buf args = .ok (args, r) ∧ r.size ≤ buf.size + max W outBound := by
  obtain ⟨r0, hr0, hwf, hneg, hs, hx0, hdp, hz⟩ := digits_fin d (default : digits) hfin
  have hf0 : Fin0 r0 := ⟨hwf, hx0, hdp, hz⟩
  have hn0 := hwf.n0
  have hsdp : (slice r0).dp = r0.exp.toInt + r0.ndig.toInt := rfl
  have hprec : args.prec.toInt < 2 ^ 56 := by rcases hp with h | h <;> omega
  rw [format_F d buf args hv, hr0, precision_eq]
  obtain ⟨P, hP, hPdef, hPb⟩ := prec_default args hprec
  have hP6 := precOf_lt args hp
  rw [← hPdef] at hP6
  obtain ⟨r, hr, hstr, _⟩ := formatF_spec r0 hf0 buf args _ _ (formatArgs.width args) P hP
    (by omega) W hW hW' hb hprz
  refine ⟨r, hr, ?_⟩
  have hdp' := roundF_dp (slice r0) P
  have hbody := layoutF_length_le (roundF (slice r0) P) P args.forceDP
  have hmx : max 1 (roundF (slice r0) P).dp.toNat + 1 + P ≤ P + 6149 := by
    rcases hdp' with h | h | h <;> omega
  have := size_of_bstr r buf _ _ W _ _ _ _ (P + 6149) (Nat.le_trans hbody hmx) hstr
  unfold outBound
  omega

theorem bodyG_length_le (r : Spec.Slice) (P M : Nat) (sharp : Bool) (e : Char)
    (hlen : r.ds.length ≤ P) (h0 : -6176 ≤ r.dp) (h1 : r.dp ≤ 6147) :
    (bodyG r P M sharp e).length ≤ P + 12324 := by
  have hE := layoutE_length_le r ((if sharp = true then P else r.ds.length) - 1) sharp e
    (expo_small r (by omega) (by omega))
  have hE' : (if sharp = true then P else r.ds.length) - 1 ≤ P := by split <;> omega
  have hF := layoutF_length_le r (if sharp = true then
      ((P : Int) - (if r.ds.length = 0 then 1 else r.dp)).toNat
    else if (r.ds.length : Int) > r.dp then ((r.ds.length : Int) - r.dp).toNat else 0) sharp
  have hq : (if sharp = true then ((P : Int) - (if r.ds.length = 0 then 1 else r.dp)).toNat
      else if (r.ds.length : Int) > r.dp then ((r.ds.length : Int) - r.dp).toNat else 0) ≤
      P + 6176 := by
    cases sharp
    · simp only [Bool.false_eq_true, if_false]; split <;> omega
    · simp only [if_true]; split <;> omega
  unfold bodyG
  simp only
  generalize (decide ((if r.ds.length = 0 then (0 : Int) else r.dp - 1) < -4) ||
    decide ((if r.ds.length = 0 then (0 : Int) else r.dp - 1) ≥ (M : Int))) = c
  cases c
  · simp only [Bool.false_eq_true, if_false]; omega
  · simp only [if_true]; omega

theorem format_size_gG (d : Decimal) (buf : Go.Bytes) (args : formatArgs)
    (hfin : Decimal.isSpecial d = false) (hv : args.verb = 103 ∨ args.verb = 71)
    (hp : PrecOK args) (W : Nat) (hW : args.wid.toInt = W) (hW' : W < 2 ^ 62)
    (hb : buf.size < 2 ^ 61) (hprz : args.padRight = true → args.padZero = false) :
    ∃ r, Decimal.format d buf args = .ok (args, r) ∧ r.size ≤ buf.size + max W outBound := by
  obtain ⟨r0, hr0, hwf, hneg, hs, hx0, hdp, hz⟩ := digits_fin d (default : digits) hfin
  have hf0 : Fin0 r0 := ⟨hwf, hx0, hdp, hz⟩
  have hn0 := hwf.n0
  have hn39 := hwf.n39
  have z0 : (0 : Int64).toInt = 0 := by decide
  have hsdp : (slice r0).dp = r0.exp.toInt + r0.ndig.toInt := rfl
  rw [format_G d buf args hv, hr0, precision_eq]
  obtain ⟨P, M, hP, hPb⟩ : ∃ P M : Nat,
      (if (if args.prec < 0 then ((0 : Int64), false) else (args.prec, true)).2 = true then
        (0 ≤ (if args.prec < 0 then ((0 : Int64), false) else (args.prec, true)).1.toInt ∧
          P = max (if args.prec < 0 then ((0 : Int64), false) else (args.prec, true)).1.toInt.toNat 1 ∧
          M = P)
        else (P = max r0.ndig.toInt.toNat 6 ∧ M = 6)) ∧ P < 1000000 := by
    by_cases hn : args.prec < 0
    · exact ⟨max r0.ndig.toInt.toNat 6, 6, by simp [hn], by omega⟩
    · have hn' : ¬ args.prec.toInt < 0 := by rw [i64_lt, z0] at hn; exact hn
      refine ⟨max args.prec.toInt.toNat 1, max args.prec.toInt.toNat 1, ?_,
        by rcases hp with h | h <;> omega⟩
      rw [if_neg hn]
      exact ⟨by show 0 ≤ args.prec.toInt; omega, rfl, rfl⟩
  obtain ⟨r, hr, hstr, _, hlen⟩ := formatG_spec r0 hf0 buf args _ _ (formatArgs.width args) P M
    hP (by omega) W hW hW' hb hprz
  refine ⟨r, hr, ?_⟩
  have hdp' := roundSlice_dp (slice r0) P
  have hbody := bodyG_length_le (Spec.roundSlice (slice r0) P) P M args.forceDP
    (chr (if (args.verb == 71) = true then 69 else 101)) hlen
    (by rcases hdp' with h | h | h <;> omega) (by rcases hdp' with h | h | h <;> omega)
  have := size_of_bstr r buf _ _ W _ _ _ _ (P + 12324) hbody hstr
  unfold outBound
  omega

/-- **size of what `Decimal.format` appends**, for the six float verbs and any parsed arguments -/
theorem format_size (d : Decimal) (buf : Go.Bytes) (args : formatArgs)
    (hfin : Decimal.isSpecial d = false)
    (hv : args.verb = 101 ∨ args.verb = 69 ∨ args.verb = 102 ∨ args.verb = 70 ∨
      args.verb = 103 ∨ args.verb = 71)
    (hp : PrecOK args) (W : Nat) (hW : args.wid.toInt = W) (hW' : W < 2 ^ 62)
    (hb : buf.size < 2 ^ 61) (hprz : args.padRight = true → args.padZero = false) :
    ∃ r, Decimal.format d buf args = .ok (args, r) ∧ r.size ≤ buf.size + max W outBound := by
  rcases hv with h | h | h | h | h | h
  · exact format_size_eE d buf args hfin (Or.inl h) hp W hW hW' hb hprz
  · exact format_size_eE d buf args hfin (Or.inr h) hp W hW hW' hb hprz
  · exact format_size_fF d buf args hfin (Or.inl h) hp W hW hW' hb hprz
  · exact format_size_fF d buf args hfin (Or.inr h) hp W hW hW' hb hprz
  · exact format_size_gG d buf args hfin (Or.inl h) hp W hW hW' hb hprz
  · exact format_size_gG d buf args hfin (Or.inr h) hp W hW hW' hb hprz

/-! ## the shortest forms (`v`, `String`): no panic, bounded output -/

theorem padOut_size_le (neg : Bool) (b : Go.Bytes) (start W : Nat) (ps pds pr pz : Bool)
    (hs : start ≤ b.size) : (padOut neg b start W ps pds pr pz).size ≤ max b.size (start + W) := by
  unfold padOut
  simp only
  split
  · omega
  · split
    · simp only [Array.size_append, Array.size_replicate]; omega
    · simp only [Array.size_append, Array.size_replicate, Array.size_extract]; omega

/-- `fmtE` on any record with `0 ≤ ndig ≤ 39`: `.ok`, record unchanged, output bounded -/
theorem fmtE_size (d : digits) (buf : Go.Bytes) (prec width : Int64)
    (fdp ps pds pe pr pz : Bool) (e : UInt8) (hexp : ExpOK d) (h0 : 0 ≤ d.ndig.toInt)
    (h39 : d.ndig.toInt ≤ 39) (W : Nat) (hW : width.toInt = W) (hW' : W < 2 ^ 62)
    (hb : buf.size < 2 ^ 61) (hp : prec.toInt < 2 ^ 60) :
    ∃ r, digits.fmtE d buf prec width fdp ps pds pe pr pz e = .ok (d, r) ∧
      r.size ≤ buf.size + max W (47 + prec.toInt.toNat) := by
  refine ⟨_, fmtE_eq d buf prec width fdp ps pds pe pr pz e hexp h0 h39 W hW hW' hb hp, ?_⟩
  have h1 := (bodyE_length d prec.toInt fdp ps pds pe e h0 h39).1
  have h2 := padOut_size_le d.neg (buf ++ (bodyE d prec.toInt fdp ps pds pe e).toArray) buf.size W
    ps pds pr pz (by simp)
  simp only [Array.size_append, List.size_toArray] at h2
  omega

theorem fmtF_size (d : digits) (buf : Go.Bytes) (prec width : Int64)
    (fdp ps pds pr pz : Bool) (hx0 : -2 ^ 58 ≤ d.exp.toInt) (hx1 : d.exp.toInt ≤ 2 ^ 58)
    (h0 : 0 ≤ d.ndig.toInt) (h39 : d.ndig.toInt ≤ 39) (W : Nat) (hW : width.toInt = W)
    (hW' : W < 2 ^ 62) (hb : buf.size < 2 ^ 61) (hp0 : -2 ^ 62 ≤ prec.toInt)
    (hp : prec.toInt < 2 ^ 58) :
    ∃ r, digits.fmtF d buf prec width fdp ps pds pr pz = .ok (d, r) ∧
      r.size ≤ buf.size + max W (42 + (dpF d).natAbs + prec.toInt.toNat) := by
  refine ⟨_, fmtF_eq d buf prec width fdp ps pds pr pz hx0 hx1 h0 h39 W hW hW' hb hp0 hp, ?_⟩
  have h1 := (bodyF_length d prec.toInt fdp ps pds h0 h39).1
  have h2 := padOut_size_le d.neg (buf ++ (bodyF d prec.toInt fdp ps pds).toArray) buf.size W
    ps pds pr pz (by simp)
  simp only [Array.size_append, List.size_toArray] at h2
  omega

/-- the `v` arm of `format` (text copied from the generated source) -/
def formatV (digs : digits) (buf : Go.Bytes) (args : formatArgs) : Go.GoM (formatArgs × Go.Bytes) := do
  let mut digs : digits := digs
  let mut prec_1 : Int64 := (0 : Int64)
  if (digs.ndig != (0 : Int64)) then
    prec_1 := (digs.ndig - (1 : Int64))
  let mut exp_1 : Int64 := (digs.exp + prec_1)
  if ((decide (exp_1 < (-4 : Int64))) || (decide (exp_1 ≥ (6 : Int64)))) then
    let (r_17, r_18) ← digits.fmtE digs buf prec_1 (0 : Int64) false false false true false false (101 : UInt8)
    digs := r_17
    return (args, r_18)
  else
    prec_1 := (0 : Int64)
    if (decide (digs.exp < (0 : Int64))) then
      prec_1 := (-digs.exp)
  let (r_19, r_20) ← digits.fmtF digs buf prec_1 (0 : Int64) false false false false false
  digs := r_19
  return (args, r_20)

theorem format_V (d : Decimal) (buf : Go.Bytes) (args : formatArgs) (hv : args.verb = 118) :
    Decimal.format d buf args = (do
      let r_1 ← Decimal.digits_ d (default : digits)
      formatV r_1 buf args) := by
  unfold Decimal.format formatV
  simp only [hv]
  rfl

/-- any other verb: `format` evaluates `d.String()` and hands over to `fmt.Appendf` (not modelled) -/
theorem format_other (d : Decimal) (buf : Go.Bytes) (args : formatArgs)
    (hv : args.verb ≠ 101 ∧ args.verb ≠ 69 ∧ args.verb ≠ 102 ∧ args.verb ≠ 70 ∧
      args.verb ≠ 103 ∧ args.verb ≠ 71 ∧ args.verb ≠ 118) :
    Decimal.format d buf args = (do
      let _ ← Decimal.digits_ d (default : digits)
      let _ ← Decimal.String d
      throw (Go.Panic.unmodelled "fmt.Appendf")) := by
  obtain ⟨h1, h2, h3, h4, h5, h6, h7⟩ := hv
  have b1 : (args.verb == (101 : UInt8)) = false := by simpa using h1
  have b2 : (args.verb == (69 : UInt8)) = false := by simpa using h2
  have b3 : (args.verb == (102 : UInt8)) = false := by simpa using h3
  have b4 : (args.verb == (70 : UInt8)) = false := by simpa using h4
  have b5 : (args.verb == (103 : UInt8)) = false := by simpa using h5
  have b6 : (args.verb == (71 : UInt8)) = false := by simpa using h6
  have b7 : (args.verb == (118 : UInt8)) = false := by simpa using h7
  unfold Decimal.format
  simp only [b1, b2, b3, b4, b5, b6, b7, Bool.or_self, Bool.false_eq_true, if_false]
  rfl

theorem formatV_ok (r0 : digits) (h : Fin0 r0) (buf : Go.Bytes) (args : formatArgs)
    (hb : buf.size < 2 ^ 61) :
    ∃ r, formatV r0 buf args = .ok (args, r) ∧ r.size ≤ buf.size + 12500 := by
  have hn0 := h.wf.n0
  have hn39 := h.wf.n39
  have hx0 := h.x0
  have hdp := h.dp
  have z0 : (0 : Int64).toInt = 0 := by decide
  have hdpF : (dpF r0).natAbs ≤ 6200 := by unfold dpF; split <;> omega
  -- every `fmtE` / `fmtF` call the arm can make succeeds
  have hE : ∀ p : Int64, 0 ≤ p.toInt → p.toInt ≤ 39 →
      ∃ r, (digits.fmtE r0 buf p 0 false false false true false false 101 >>=
        fun x => pure (args, x.2) : Go.GoM (formatArgs × Go.Bytes)) = .ok (args, r) ∧
        r.size ≤ buf.size + 12500 := by
    intro p hp0 hp1
    obtain ⟨r, hr, hs⟩ := fmtE_size r0 buf p 0 false false false true false false 101 h.expOK hn0
      hn39 0 z0 (by decide) hb (by omega)
    exact ⟨r, bind_snd _ _ _ _ hr, by omega⟩
  have hF : ∀ p : Int64, 0 ≤ p.toInt → p.toInt ≤ 6200 →
      ∃ r, (digits.fmtF r0 buf p 0 false false false false false >>=
        fun x => pure (args, x.2) : Go.GoM (formatArgs × Go.Bytes)) = .ok (args, r) ∧
        r.size ≤ buf.size + 12500 := by
    intro p hp0 hp1
    obtain ⟨r, hr, hs⟩ := fmtF_size r0 buf p 0 false false false false false (by omega) (by omega)
      hn0 hn39 0 z0 (by decide) hb (by omega) (by omega)
    exact ⟨r, bind_snd _ _ _ _ hr, by omega⟩
  have hsub : 0 < r0.ndig.toInt → (r0.ndig - 1).toInt = r0.ndig.toInt - 1 := fun hpos => by
    rw [i64_sub _ _ (by rw [e1]; omega) (by rw [e1]; omega), e1]
  have hnegx : r0.exp.toInt < 0 → (-r0.exp).toInt = -r0.exp.toInt := fun _ => by
    rw [Int64.toInt_neg]; exact bmod64 _ (by omega) (by omega)
  unfold formatV
  simp only
  by_cases hne : (r0.ndig != 0) = true
  · have hpos : 0 < r0.ndig.toInt := by
      rcases Int.lt_or_eq_of_le hn0 with a | a
      · exact a
      · exfalso
        have : r0.ndig = 0 := Int64.toInt_inj.mp (by rw [← a]; rfl)
        rw [this] at hne; exact absurd hne (by decide)
    simp only [hne, if_true]
    split
    · exact hE _ (by rw [hsub hpos]; omega) (by rw [hsub hpos]; omega)
    · by_cases hneg : r0.exp < 0
      · have hneg' : r0.exp.toInt < 0 := by rw [i64_lt, z0] at hneg; exact hneg
        simp only [hneg, decide_true, if_true]
        exact hF _ (by rw [hnegx hneg']; omega) (by rw [hnegx hneg']; omega)
      · simp only [hneg, decide_false, Bool.false_eq_true, if_false]
        exact hF 0 (by have := z0; omega) (by have := z0; omega)
  · simp only [hne, if_false, Bool.false_eq_true]
    split
    · exact hE 0 (by have := z0; omega) (by have := z0; omega)
    · by_cases hneg : r0.exp < 0
      · have hneg' : r0.exp.toInt < 0 := by rw [i64_lt, z0] at hneg; exact hneg
        simp only [hneg, decide_true, if_true]
        exact hF _ (by rw [hnegx hneg']; omega) (by rw [hnegx hneg']; omega)
      · simp only [hneg, decide_false, Bool.false_eq_true, if_false]
        exact hF 0 (by have := z0; omega) (by have := z0; omega)

theorem bind_snd' (x : Go.GoM (digits × Go.Bytes)) (d : digits) (r : Go.Bytes)
    (h : x = .ok (d, r)) : (x >>= fun p => pure p.2 : Go.GoM Go.Bytes) = .ok r := by
  rw [h]; rfl

/-- `d.String()` of a finite `d` never panics -/
theorem String_ok (d : Decimal) (hfin : Decimal.isSpecial d = false) :
    ∃ r, Decimal.String d = .ok r := by
  obtain ⟨r0, hr0, hwf, hneg, hs, hx0, hdp, hz⟩ := digits_fin d (default : digits) hfin
  have h : Fin0 r0 := ⟨hwf, hx0, hdp, hz⟩
  have hn0 := h.wf.n0
  have hn39 := h.wf.n39
  have z0 : (0 : Int64).toInt = 0 := by decide
  have hE : ∀ p : Int64, 0 ≤ p.toInt → p.toInt ≤ 39 →
      ∃ r, (digits.fmtE r0 #[] p 0 false false false true false false 101 >>=
        fun x => pure x.2 : Go.GoM Go.Bytes) = .ok r := by
    intro p hp0 hp1
    obtain ⟨r, hr, _⟩ := fmtE_size r0 #[] p 0 false false false true false false 101 h.expOK hn0
      hn39 0 z0 (by decide) (by decide) (by omega)
    exact ⟨r, bind_snd' _ _ _ hr⟩
  have hF : ∀ p : Int64, 0 ≤ p.toInt → p.toInt ≤ 6200 →
      ∃ r, (digits.fmtF r0 #[] p 0 false false false false false >>=
        fun x => pure x.2 : Go.GoM Go.Bytes) = .ok r := by
    intro p hp0 hp1
    obtain ⟨r, hr, _⟩ := fmtF_size r0 #[] p 0 false false false false false (by omega) (by omega)
      hn0 hn39 0 z0 (by decide) (by decide) (by omega) (by omega)
    exact ⟨r, bind_snd' _ _ _ hr⟩
  have hsub : 0 < r0.ndig.toInt → (r0.ndig - 1).toInt = r0.ndig.toInt - 1 := fun hpos => by
    rw [i64_sub _ _ (by rw [e1]; omega) (by rw [e1]; omega), e1]
  have hnegx : r0.exp.toInt < 0 → (-r0.exp).toInt = -r0.exp.toInt := fun _ => by
    rw [Int64.toInt_neg]; exact bmod64 _ (by omega) (by omega)
  unfold Decimal.String
  simp only [hfin, Bool.false_eq_true, if_false, hr0, ok_bind]
  by_cases hne : (r0.ndig != 0) = true
  · have hpos : 0 < r0.ndig.toInt := by
      rcases Int.lt_or_eq_of_le hn0 with a | a
      · exact a
      · exfalso
        have : r0.ndig = 0 := Int64.toInt_inj.mp (by rw [← a]; rfl)
        rw [this] at hne; exact absurd hne (by decide)
    simp only [hne, if_true]
    split
    · exact hE _ (by rw [hsub hpos]; omega) (by rw [hsub hpos]; omega)
    · by_cases hneg : r0.exp < 0
      · have hneg' : r0.exp.toInt < 0 := by rw [i64_lt, z0] at hneg; exact hneg
        simp only [hneg, decide_true, if_true]
        exact hF _ (by rw [hnegx hneg']; omega) (by rw [hnegx hneg']; omega)
      · simp only [hneg, decide_false, Bool.false_eq_true, if_false]
        exact hF 0 (by have := z0; omega) (by have := z0; omega)
  · simp only [hne, if_false, Bool.false_eq_true]
    split
    · exact hE 0 (by have := z0; omega) (by have := z0; omega)
    · by_cases hneg : r0.exp < 0
      · have hneg' : r0.exp.toInt < 0 := by rw [i64_lt, z0] at hneg; exact hneg
        simp only [hneg, decide_true, if_true]
        exact hF _ (by rw [hnegx hneg']; omega) (by rw [hnegx hneg']; omega)
      · simp only [hneg, decide_false, Bool.false_eq_true, if_false]
        exact hF 0 (by have := z0; omega) (by have := z0; omega)

/-! ## `Decimal.Append` on every spec -/

/-- the verbs `Decimal.format` implements -/
def knownVerb (v : UInt8) : Prop :=
  v = 101 ∨ v = 69 ∨ v = 102 ∨ v = 70 ∨ v = 103 ∨ v = 71 ∨ v = 118

theorem specialPad_length (t : Spec.Str) (W : Nat) (minus : Bool) :
    (specialPad t W minus).length = max W t.length := by
  unfold specialPad
  split
  · omega
  · split <;> simp only [List.length_append, List.length_replicate] <;> omega

theorem specialStr_length_le (nan neg plus space : Bool) :
    (specialStr nan neg plus space).length ≤ 4 := by
  cases nan <;> cases neg <;> cases plus <;> cases space <;> decide

/-- **Totality of `Decimal.Append` (C20: any format spec).**  For every bit pattern `d`, every buffer
below `2^61` bytes and EVERY byte string `spec` (below `2^63` bytes):
* if `d` is finite and the parsed verb is present but not one of `e E f F g G v`, the call ends in the
  one arm that is not modelled (`fmt.Appendf` of the `%!verb(…)` notice) — after `d.String()` has
  succeeded, i.e. without a panic of the library's own code;
* in every other case it returns normally and appends at most `outBound` (= 1 012 325) bytes. -/
theorem decimal_append_total (d : Decimal) (buf spec : Go.Bytes) (hs : spec.size < 2 ^ 63)
    (hb : buf.size < 2 ^ 61) :
    ((parseSpec spec.toList).verb ≠ 0 ∧ Decimal.isSpecial d = false ∧
        ¬ knownVerb (parseSpec spec.toList).verb →
      Decimal.Append d buf spec = .error (Go.Panic.unmodelled "fmt.Appendf")) ∧
    (¬ ((parseSpec spec.toList).verb ≠ 0 ∧ Decimal.isSpecial d = false ∧
        ¬ knownVerb (parseSpec spec.toList).verb) →
      ∃ r, Decimal.Append d buf spec = .ok r ∧ r.size ≤ buf.size + outBound) := by
  obtain ⟨hw0, hw1, hprz⟩ := argsOK_parseSpec spec.toList
  have hpo := precOK_parseSpec spec.toList
  have hunf := append_unfold d buf spec hs
  generalize parseSpec spec.toList = a at *
  constructor
  · rintro ⟨hv0, hfin, hk⟩
    have hv0' : (a.verb == (0 : UInt8)) = false := by simpa using hv0
    have hne : a.verb ≠ 101 ∧ a.verb ≠ 69 ∧ a.verb ≠ 102 ∧ a.verb ≠ 70 ∧ a.verb ≠ 103 ∧
        a.verb ≠ 71 ∧ a.verb ≠ 118 := by
      unfold knownVerb at hk
      refine ⟨?_, ?_, ?_, ?_, ?_, ?_, ?_⟩ <;> intro e <;> apply hk <;> simp [e]
    obtain ⟨r0, hr0, _⟩ := digits_fin d (default : digits) hfin
    obtain ⟨t, ht⟩ := String_ok d hfin
    rw [hunf]
    simp only [hv0', Bool.false_eq_true, if_false, hfin, format_other d buf a hne, hr0, ht, ok_bind]
    rfl
  · intro hnot
    rw [hunf]
    by_cases hv0 : a.verb = 0
    · have hv0' : (a.verb == (0 : UInt8)) = true := by simpa using hv0
      simp only [hv0', if_true]
      refine ⟨_, rfl, ?_⟩
      have : (Go.str "%!(NOVERB)").size = 10 := by decide
      rw [Array.size_append, this]; unfold outBound; omega
    · have hv0' : (a.verb == (0 : UInt8)) = false := by simpa using hv0
      simp only [hv0', Bool.false_eq_true, if_false]
      by_cases hsp : Decimal.isSpecial d = true
      · -- NaN, infinities
        simp only [hsp, if_true]
        have key : ∀ (w : Int64) (ps pds : Bool), 0 ≤ w.toInt → w.toInt < 1000000 →
            ∃ r, Decimal.appendSpecial d buf w ps pds a.padRight = .ok r ∧
              r.size ≤ buf.size + outBound := by
          intro w ps pds h0 h1
          obtain ⟨r, hr, hstr⟩ := appendSpecial_spec d buf w ps pds a.padRight w.toInt.toNat
            (by omega) (by omega) (by omega)
          refine ⟨r, hr, ?_⟩
          have := congrArg List.length hstr
          rw [bstr_length, List.length_append, bstr_length, specialPad_length] at this
          have := specialStr_length_le (Decimal.IsNaN d) (Decimal.Signbit d) ps pds
          unfold outBound; omega
        split
        · exact key _ _ _ hw0 hw1
        · exact key 0 false false (by decide) (by decide)
      · have hfin : Decimal.isSpecial d = false := by simpa using hsp
        simp only [hfin, Bool.false_eq_true, if_false]
        have hk : knownVerb a.verb := by
          by_contra hk; exact hnot ⟨hv0, hfin, hk⟩
        have six : (a.verb = 101 ∨ a.verb = 69 ∨ a.verb = 102 ∨ a.verb = 70 ∨ a.verb = 103 ∨
            a.verb = 71) → ∃ r, (Decimal.format d buf a >>= fun x => pure x.2 : Go.GoM Go.Bytes) =
              .ok r ∧ r.size ≤ buf.size + outBound := by
          intro hv
          obtain ⟨r, hr, hsz⟩ := format_size d buf a hfin hv hpo a.wid.toInt.toNat
            (by omega) (by omega) hb hprz
          refine ⟨r, by rw [hr]; rfl, ?_⟩
          have : a.wid.toInt.toNat ≤ outBound := by unfold outBound; omega
          omega
        rcases hk with h | h | h | h | h | h | h
        · exact six (Or.inl h)
        · exact six (Or.inr (Or.inl h))
        · exact six (Or.inr (Or.inr (Or.inl h)))
        · exact six (Or.inr (Or.inr (Or.inr (Or.inl h))))
        · exact six (Or.inr (Or.inr (Or.inr (Or.inr (Or.inl h)))))
        · exact six (Or.inr (Or.inr (Or.inr (Or.inr (Or.inr h)))))
        · obtain ⟨r0, hr0, hwf, hneg, hs0, hx0, hdp, hz⟩ := digits_fin d (default : digits) hfin
          obtain ⟨r, hr, hsz⟩ := formatV_ok r0 ⟨hwf, hx0, hdp, hz⟩ buf a hb
          refine ⟨r, by rw [format_V d buf a h, hr0]; simp only [ok_bind, hr]; rfl, ?_⟩
          unfold outBound; omega

end Ly
