/-
  D128/Proofs/D192OneSubContract.lean — rational contract of `decomposed192.sub1` for ALL inputs
  (Go: /repo/decomposed.go; ℕ-level description and Hoare triple in D192OneSub.lean).

  With `val x = x.sig·10^x.exp`, `ulp x = 10^x.exp`, `m = |val d - 1|`:
  * `sub1_contract` : `sub1 d t = .ok (neg, r, t')` (no panic, terminates) with
        `neg = true ↔ val d < 1`,   `val r - ulp r < m ≤ val r`   (never an under-estimate: digits of
        `d` are only dropped when `d.exp < -57`, hence `d < 0.63`, hence on the borrow side),
        and exactly one of
          (exact)   `m = val r`,  `t' = t` if `¬neg`;  if `neg`: `t' = t * -1`, or `t' = t` when `d.sig = 0`
          (over)    `m < val r`,  `t' = -1`, `neg`, `r.exp = -57`          — flag right
          (DEFECT)  `m < val r`,  `t' = 1`,  `r = one ∨ val r = val d`     — flag sign WRONG
        and the absolute error is `< 10^-57`, or it is exactly 1 with `val r ≥ 10^57`
        (CANCELLATION: there is no relative bound on path C — `r.sig` can be as small as 0;
        the guarantee is absolute: `|m - val r| < ulp r ≤ 10^r.exp`, `r.exp ∈ [-57, 0]`,
        and the result is exact unless `r.exp = -57`).
  * per path: `sub1_zero`, `sub1_tiny`, `sub1_huge`, `sub1_down`, `sub1_up`.
  * FINDINGS (theorems about the generated code, universally quantified):
      `sub1_tiny_flag_wrong` : `d.sig ≠ 0`, `d.exp < -116` ⇒ result `(true, one, 1)` but `|val d - 1| < val one`
      `sub1_early_flag_wrong`: path C early return `(true, one, 1)` likewise
      `sub1_huge_flag_wrong` : `d.sig ≠ 0`, `58 < d.exp` ⇒ result `(false, d, 1)` but `|val d - 1| < val d`
      `sub1_up_flag_wrong`   : path D with final exponent `≠ 0` ⇒ `(false, r, 1)`, `val r = val d`, `|val d - 1| < val r`
    In all four the sticky flag says "true magnitude is ABOVE the result" (`+1`, the convention of
    `decomposed192.sub` and of `RoundingMode.round`) while it is BELOW; the right value is `-1`.
    Also `sub1_zero`: for `d.sig = 0` the incoming flag is passed through un-negated although `neg = true`
    (path C negates it: `trunc *= -1`).
-/
import D128.Proofs.D192OneSub
import D128.Proofs.D192OneVal

set_option autoImplicit false
set_option maxRecDepth 4096
set_option exponentiation.threshold 512

namespace D192

/-- rational contract of `sub1` (`m = |val d - 1|` is the true magnitude):
* `neg` is exactly `val d < 1`;
* the result never under-estimates and is within one unit of the truth: `val r - ulp r < m ≤ val r`
  (digits of `d` can only be dropped when `d < 0.63`, i.e. on the borrow side);
* classification of direction and flag (`+1` = "true magnitude above the result", `-1` = "below"):
  exact (flag `t`, or `t * -1` when `neg` on path C, or `t` for `d = 0`),
  overshoot with flag `-1` (right; only with `r.exp = -57`), and — the defect — overshoot with flag `+1`
  (`r = one` or `val r = val d`);
* the absolute error is below `10^-57`, or it is exactly 1 and the result is at least `10^57`. -/
def Sub1Q (d : Gen.decomposed192) (t : Int8) (neg : Bool) (r : Gen.decomposed192) (t' : Int8) : Prop :=
  (neg = true ↔ val d < 1) ∧
  val r - ulp r < |val d - 1| ∧ |val d - 1| ≤ val r ∧
  ((|val d - 1| = val r ∧ (neg = false → t' = t) ∧
      (neg = true → t' = t * -1 ∨ (d.sig.toNat = 0 ∧ t' = t))) ∨
   (|val d - 1| < val r ∧ t' = -1 ∧ neg = true ∧ r.exp.toInt = -57) ∨
   (|val d - 1| < val r ∧ t' = 1 ∧ (r = one ∨ val r = val d))) ∧
  (|(|val d - 1|) - val r| < (10 : ℚ) ^ (-57 : Int) ∨
    (val r - |val d - 1| = 1 ∧ (10 : ℚ) ^ 57 ≤ val r))

theorem sub1Q_zero (d : Gen.decomposed192) (t : Int8) (h : d.sig.toNat = 0) :
    Sub1Q d t true one t := by
  have hv : val d = 0 := by unfold val; rw [h]; simp
  unfold Sub1Q
  rw [hv, val_one, ulp_one]
  have : |(0 : ℚ) - 1| = 1 := by norm_num
  rw [this]
  refine ⟨by norm_num, by norm_num, by norm_num, Or.inl ⟨rfl, by simp, fun _ => Or.inr ⟨h, rfl⟩⟩, ?_⟩
  left; norm_num

/-- the argument is dropped entirely (paths A and C-early): `0 < val d < 10^-57`; the result 1 is
ABOVE the true magnitude `1 - val d` although the flag is `+1`. -/
theorem sub1Q_drop (d : Gen.decomposed192) (t : Int8) (h0 : 0 < val d)
    (h1 : val d < (10 : ℚ) ^ (-57 : Int)) : Sub1Q d t true one 1 := by
  unfold Sub1Q
  rw [val_one, ulp_one]
  have h2 : (10 : ℚ) ^ (-57 : Int) < 1 := by norm_num
  have habs : |val d - 1| = 1 - val d := by rw [abs_of_neg (by linarith)]; ring
  rw [habs]
  refine ⟨by simp; linarith, by linarith, by linarith,
    Or.inr (Or.inr ⟨by linarith, rfl, Or.inl rfl⟩), Or.inl ?_⟩
  rw [abs_of_neg (by linarith)]; linarith

/-- the `1` is dropped (paths B and D-return): the result has the value of `d`, which is ABOVE the
true magnitude `val d - 1` although the flag is `+1`. -/
theorem sub1Q_keep (d : Gen.decomposed192) (t : Int8) (r : Gen.decomposed192) (hv : val r = val d)
    (hu : 1 < ulp r) (hb : (10 : ℚ) ^ 57 ≤ val r) : Sub1Q d t false r 1 := by
  unfold Sub1Q
  have h57 : (1 : ℚ) < (10 : ℚ) ^ 57 := by norm_num
  have habs : |val d - 1| = val d - 1 := abs_of_pos (by rw [← hv]; linarith)
  rw [habs, hv]
  rw [hv] at hb
  refine ⟨by simp; linarith, by linarith, by linarith,
    Or.inr (Or.inr ⟨by linarith, rfl, Or.inr rfl⟩), Or.inr ⟨by ring, hb⟩⟩

theorem sub1Q_down (d : Gen.decomposed192) (t : Int8) (neg : Bool) (r : Gen.decomposed192) (t' : Int8)
    (h : SubDown d t (neg, r, t')) : Sub1Q d t neg r t' := by
  obtain ⟨k, he, hlo, hhi, hk, hpos, hnb, hb⟩ := h
  simp only at he hlo hhi hk hnb hb
  -- the truncated argument
  obtain ⟨tv1, tv2, tv3⟩ := trunc_val d.sig.toNat k d.exp.toInt
  rw [← he] at tv1 tv2 tv3
  have hu : ulp r = (10 : ℚ) ^ r.exp.toInt := rfl
  have hupos := ulp_pos r
  have hone := pow_neg_mul r.exp.toInt hhi
  set s : Nat := d.sig.toNat / 10 ^ k with hs
  set p : Nat := 10 ^ (-r.exp.toInt).toNat with hp
  have hvd : val d = (d.sig.toNat : ℚ) * (10 : ℚ) ^ d.exp.toInt := rfl
  rw [← hvd, ← hu] at tv1 tv2 tv3
  rw [← hu] at hone
  -- bound on the unit
  have hulp : val d ≠ (s : ℚ) * ulp r → ulp r = (10 : ℚ) ^ (-57 : Int) := by
    intro hne
    rcases hk with h0 | h0
    · exfalso; apply hne; symm; apply tv3.mpr; rw [h0]; simp [Nat.mod_one]
    · rw [hu, h0]
  have hulp_le : ulp r ≤ 1 := by
    rw [hu]; exact zpow_le_one_of_nonpos₀ (by norm_num) hhi
  have hsp : k ≠ 0 → s < p := by
    intro hk0
    have h57 : r.exp.toInt = -57 := hk.resolve_left hk0
    have : p = 10 ^ 57 := by rw [hp, h57]; rfl
    rw [this]
    exact dropped_lt _ _ (U192.toNat_lt d.sig) hk0
  by_cases hc : p ≤ s
  · obtain ⟨rfl, hsig, ht⟩ := hnb hc
    have hk0 : k = 0 := by
      by_contra hk0; have := hsp hk0; omega
    have hex : d.sig.toNat % 10 ^ k = 0 := by rw [hk0]; simp [Nat.mod_one]
    have hvr : val r = (s : ℚ) * ulp r - 1 := by
      rw [val_eq, hsig, Nat.cast_sub hc, sub_mul, hone]
    have hps : (1 : ℚ) ≤ (s : ℚ) * ulp r := by
      rw [← hone]; exact mul_le_mul_of_nonneg_right (by exact_mod_cast hc) hupos.le
    have habs : |val d - 1| = val d - 1 := abs_of_nonneg (by linarith)
    have hval := tv3.mpr hex
    rw [if_pos hex] at ht
    unfold Sub1Q
    rw [habs, hvr]
    refine ⟨by simp; linarith, by linarith, by linarith,
      Or.inl ⟨by linarith, fun _ => ht, by simp⟩, Or.inl ?_⟩
    rw [← hval]; simp
  · have hc' : s < p := Nat.lt_of_not_le hc
    obtain ⟨rfl, hsig, ht⟩ := hb hc'
    have hvr : val r = 1 - (s : ℚ) * ulp r := by
      rw [val_eq, hsig, Nat.cast_sub hc'.le, sub_mul, hone]
    have hps : ((s : ℚ) + 1) * ulp r ≤ 1 := by
      have h1 : (s : ℚ) + 1 ≤ (p : ℚ) := by exact_mod_cast hc'
      calc ((s : ℚ) + 1) * ulp r ≤ (p : ℚ) * ulp r := mul_le_mul_of_nonneg_right h1 hupos.le
        _ = 1 := hone
    have hlt1 : val d < 1 := by linarith
    have habs : |val d - 1| = 1 - val d := by rw [abs_of_neg (by linarith)]; ring
    unfold Sub1Q
    rw [habs, hvr]
    refine ⟨by simp; exact hlt1, by linarith, by linarith, ?_, ?_⟩
    · by_cases hex : d.sig.toNat % 10 ^ k = 0
      · left
        rw [if_pos hex] at ht
        exact ⟨by linarith [tv3.mpr hex], by simp, fun _ => Or.inl ht⟩
      · right; left
        rw [if_neg hex] at ht
        have hne : (s : ℚ) * ulp r ≠ val d := fun h => hex (tv3.mp h)
        have hk0 : k ≠ 0 := fun h0 => hex (by rw [h0]; simp [Nat.mod_one])
        exact ⟨by rcases lt_or_eq_of_le tv1 with h | h; linarith; exact absurd h hne, ht, rfl,
          hk.resolve_left hk0⟩
    · left
      by_cases hex : val d = (s : ℚ) * ulp r
      · rw [hex]; simp
      · rw [← hulp hex, abs_of_nonpos (by linarith)]; linarith

theorem sub1Q_up (d : Gen.decomposed192) (t : Int8) (neg : Bool) (r : Gen.decomposed192) (t' : Int8)
    (hs : 0 < d.sig.toNat) (hlo : 0 < d.exp.toInt) (h : SubUp d t (neg, r, t')) :
    Sub1Q d t neg r t' := by
  obtain ⟨j, hlt, he, h0, hneg, hne, hz⟩ := h
  simp only at he h0 hneg hne hz
  subst hneg
  by_cases hr0 : r.exp.toInt = 0
  · obtain ⟨hsig, ht⟩ := hz hr0
    have hj : d.exp.toInt = j := by omega
    have hpos : 1 ≤ d.sig.toNat * 10 ^ j := Nat.mul_pos hs (Nat.pow_pos (by norm_num))
    have hvd : val d = ((d.sig.toNat * 10 ^ j : Nat) : ℚ) := by
      unfold val; rw [hj, zpow_natCast]; push_cast; ring
    have hv : val r = val d - 1 := by
      rw [hvd]; unfold val
      rw [hsig, hr0, Nat.cast_sub hpos]; simp
    have h10 : (10 : ℚ) ≤ val d := by
      have h1 : (1 : ℚ) ≤ (d.sig.toNat : ℚ) := by exact_mod_cast hs
      have h2 : (10 : ℚ) ^ (1 : Int) ≤ (10 : ℚ) ^ d.exp.toInt :=
        zpow_le_zpow_right₀ (by norm_num) (by omega)
      rw [zpow_one] at h2
      have h3 : (0 : ℚ) < (10 : ℚ) ^ d.exp.toInt := zpow_pos (by norm_num) _
      unfold val; nlinarith
    have habs : |val d - 1| = val d - 1 := abs_of_pos (by linarith)
    unfold Sub1Q
    rw [habs, hv]
    have hu := ulp_pos r
    refine ⟨by simp; linarith, by linarith, by linarith, Or.inl ⟨rfl, fun _ => ht, by simp⟩, Or.inl ?_⟩
    simp
  · obtain ⟨hsig, ht, hup⟩ := hne hr0
    subst ht
    have hv : val r = val d := val_scale j hsig he
    have hu : (10 : ℚ) ≤ ulp r := by
      have : (10 : ℚ) ^ (1 : Int) ≤ (10 : ℚ) ^ r.exp.toInt :=
        zpow_le_zpow_right₀ (by norm_num) (by omega)
      simpa [ulp] using this
    refine sub1Q_keep d t r hv (by linarith) ?_
    rw [val_eq]
    have h2 : ((25 * 2 ^ 184 : Nat) : ℚ) ≤ (r.sig.toNat : ℚ) := by exact_mod_cast hup
    have h3 : (10 : ℚ) ^ 57 ≤ ((25 * 2 ^ 184 : Nat) : ℚ) * 10 := by norm_num
    nlinarith

theorem sub1Q_huge (d : Gen.decomposed192) (t : Int8) (hs : 0 < d.sig.toNat)
    (he : 58 < d.exp.toInt) : Sub1Q d t false d 1 := by
  have hu : (10 : ℚ) ^ (59 : Int) ≤ ulp d := zpow_le_zpow_right₀ (by norm_num) (by omega)
  have h59 : (10 : ℚ) ^ (59 : Int) = (10 : ℚ) ^ 59 := by norm_num
  have h1 : (1 : ℚ) ≤ (d.sig.toNat : ℚ) := by exact_mod_cast hs
  refine sub1Q_keep d t d rfl (by rw [h59] at hu; linarith [show (1 : ℚ) < (10 : ℚ) ^ 59 by norm_num]) ?_
  rw [val_eq]
  have : (10 : ℚ) ^ 57 ≤ (10 : ℚ) ^ 59 := by norm_num
  nlinarith

theorem sub1Q_of_post (d : Gen.decomposed192) (t : Int8) (neg : Bool) (r : Gen.decomposed192)
    (t' : Int8) (h : Sub1Post d t (neg, r, t')) : Sub1Q d t neg r t' := by
  rcases h with ⟨h0, hx⟩ | ⟨hs, he, hx⟩ | ⟨hs, he, hx⟩ | ⟨hs, hlo, hhi, hE | hD⟩ | ⟨hs, hlo, hhi, hU⟩
  · obtain ⟨rfl, hy⟩ := Prod.mk.inj hx
    obtain ⟨rfl, rfl⟩ := Prod.mk.inj hy
    exact sub1Q_zero d t' h0
  · obtain ⟨rfl, hy⟩ := Prod.mk.inj hx
    obtain ⟨rfl, rfl⟩ := Prod.mk.inj hy
    refine sub1Q_drop d t (val_pos hs) ?_
    have := val_lt_pow d (-117) (by omega)
    have e : (2 : ℚ) ^ 192 * (10 : ℚ) ^ (-117 : Int) < (10 : ℚ) ^ (-57 : Int) := by norm_num
    linarith
  · obtain ⟨rfl, hy⟩ := Prod.mk.inj hx
    obtain ⟨rfl, rfl⟩ := Prod.mk.inj hy
    exact sub1Q_huge r t hs he
  · obtain ⟨hx, hc⟩ := hE
    obtain ⟨rfl, hy⟩ := Prod.mk.inj hx
    obtain ⟨rfl, rfl⟩ := Prod.mk.inj hy
    exact sub1Q_drop d t (val_pos hs) hc.val_lt
  · exact sub1Q_down d t neg r t' hD
  · exact sub1Q_up d t neg r t' hs hlo hU

theorem Sub1Post.zero {d : Gen.decomposed192} {t : Int8} {x : R3}
    (h : Sub1Post d t x) (h0 : d.sig.toNat = 0) : x = (true, one, t) := by
  rcases h with ⟨_, hx⟩ | ⟨hs, _⟩ | ⟨hs, _⟩ | ⟨hs, _⟩ | ⟨hs, _⟩
  · exact hx
  all_goals omega

theorem Sub1Post.tiny {d : Gen.decomposed192} {t : Int8} {x : R3}
    (h : Sub1Post d t x) (hs : 0 < d.sig.toNat) (he : d.exp.toInt < -116) : x = (true, one, 1) := by
  rcases h with ⟨h0, _⟩ | ⟨_, _, hx⟩ | ⟨_, h1, _⟩ | ⟨_, h1, _⟩ | ⟨_, h1, _⟩
  · omega
  · exact hx
  all_goals omega

theorem Sub1Post.huge {d : Gen.decomposed192} {t : Int8} {x : R3}
    (h : Sub1Post d t x) (hs : 0 < d.sig.toNat) (he : 58 < d.exp.toInt) : x = (false, d, 1) := by
  rcases h with ⟨h0, _⟩ | ⟨_, h1, _⟩ | ⟨_, _, hx⟩ | ⟨_, _, h1, _⟩ | ⟨_, _, h1, _⟩
  · omega
  · omega
  · exact hx
  all_goals omega

theorem Sub1Post.down {d : Gen.decomposed192} {t : Int8} {x : R3}
    (h : Sub1Post d t x) (hs : 0 < d.sig.toNat) (hlo : -116 ≤ d.exp.toInt) (hhi : d.exp.toInt ≤ 0) :
    Early ((true, one, (1 : Int8)) : R3) d.sig.toNat d.exp x ∨ SubDown d t x := by
  rcases h with ⟨h0, _⟩ | ⟨_, h1, _⟩ | ⟨_, h1, _⟩ | ⟨_, _, _, hx⟩ | ⟨_, h1, _⟩
  · omega
  · omega
  · omega
  · exact hx
  · omega

theorem Sub1Post.up {d : Gen.decomposed192} {t : Int8} {x : R3}
    (h : Sub1Post d t x) (hs : 0 < d.sig.toNat) (hlo : 0 < d.exp.toInt) (hhi : d.exp.toInt ≤ 58) :
    SubUp d t x := by
  rcases h with ⟨h0, _⟩ | ⟨_, h1, _⟩ | ⟨_, h1, _⟩ | ⟨_, _, h1, _⟩ | ⟨_, _, _, hx⟩
  · omega
  · omega
  · omega
  · omega
  · exact hx

/-- `sub1`, rational contract for ALL inputs (no hypotheses).  `m = |val d - 1|`.  Never panics,
terminates; `neg` is exactly `val d < 1`; the result never under-estimates `m` and is within one unit
of it; the three-way classification states exactly which flag is produced — the last alternative is
the defect (overshoot flagged `+1`, the right flag would be `-1`); the absolute error is
below `10^-57` unless it is exactly 1 on a result `≥ 10^57`; the result exponent is in `[-57, 58]`
unless `d` itself is returned because `d.exp > 58`. -/
theorem sub1_contract (d : Gen.decomposed192) (t : Int8) :
    ∃ neg r t', Gen.decomposed192.sub1 d t = .ok (neg, r, t') ∧
      (neg = true ↔ val d < 1) ∧
      val r - ulp r < |val d - 1| ∧ |val d - 1| ≤ val r ∧
      ((|val d - 1| = val r ∧ (neg = false → t' = t) ∧
          (neg = true → t' = t * -1 ∨ (d.sig.toNat = 0 ∧ t' = t))) ∨
       (|val d - 1| < val r ∧ t' = -1 ∧ neg = true ∧ r.exp.toInt = -57) ∨
       (|val d - 1| < val r ∧ t' = 1 ∧ (r = one ∨ val r = val d))) ∧
      (|(|val d - 1|) - val r| < (10 : ℚ) ^ (-57 : Int) ∨
        (val r - |val d - 1| = 1 ∧ (10 : ℚ) ^ 57 ≤ val r)) ∧
      ((r = d ∧ 58 < d.exp.toInt) ∨ (-57 ≤ r.exp.toInt ∧ r.exp.toInt ≤ 58)) := by
  obtain ⟨neg, r, t', hr, hp⟩ := sub1_spec d t
  obtain ⟨h1, h2, h3, h4, h5⟩ := sub1Q_of_post d t neg r t' hp
  refine ⟨neg, r, t', hr, h1, h2, h3, h4, h5, ?_⟩
  rcases hp with ⟨_, hx⟩ | ⟨_, _, hx⟩ | ⟨_, he, hx⟩ | ⟨_, _, _, hE | hD⟩ | ⟨_, _, hhi, j, _, he, h0, _⟩
  · obtain ⟨rfl, hy⟩ := Prod.mk.inj hx; obtain ⟨rfl, rfl⟩ := Prod.mk.inj hy
    right; rw [one_exp]; omega
  · obtain ⟨rfl, hy⟩ := Prod.mk.inj hx; obtain ⟨rfl, rfl⟩ := Prod.mk.inj hy
    right; rw [one_exp]; omega
  · obtain ⟨rfl, hy⟩ := Prod.mk.inj hx; obtain ⟨rfl, rfl⟩ := Prod.mk.inj hy
    exact Or.inl ⟨rfl, he⟩
  · obtain ⟨rfl, hy⟩ := Prod.mk.inj hE.1; obtain ⟨rfl, rfl⟩ := Prod.mk.inj hy
    right; rw [one_exp]; omega
  · right; obtain ⟨k, _, h1, h2, _⟩ := hD; simp only at *; omega
  · right; simp only at *; omega

/-- path Z: `d.sig = 0` gives `(true, 1, t)`: exact, and the incoming flag is passed through
un-negated although the difference is negative (path C negates it). -/
theorem sub1_zero (d : Gen.decomposed192) (t : Int8) (h : d.sig.toNat = 0) :
    Gen.decomposed192.sub1 d t = .ok (true, one, t) := by
  obtain ⟨neg, r, t', hr, hp⟩ := sub1_spec d t
  rw [hr, hp.zero h]

/-- path A: a non-zero argument with `exp < -116` is dropped: result `(true, 1, 1)`; the absolute
error is `val d ∈ (0, 2^192·10^-117)`. -/
theorem sub1_tiny (d : Gen.decomposed192) (t : Int8) (hs : 0 < d.sig.toNat)
    (he : d.exp.toInt < -116) :
    Gen.decomposed192.sub1 d t = .ok (true, one, 1) ∧ 0 < val d ∧
      val d < (2 : ℚ) ^ 192 * (10 : ℚ) ^ (-117 : Int) := by
  obtain ⟨neg, r, t', hr, hp⟩ := sub1_spec d t
  rw [hr, hp.tiny hs he]
  exact ⟨rfl, val_pos hs, val_lt_pow d (-117) (by omega)⟩

/-- path B: a non-zero argument with `exp > 58` is returned unchanged: `(false, d, 1)`; the absolute
error is exactly 1. -/
theorem sub1_huge (d : Gen.decomposed192) (t : Int8) (hs : 0 < d.sig.toNat)
    (he : 58 < d.exp.toInt) : Gen.decomposed192.sub1 d t = .ok (false, d, 1) := by
  obtain ⟨neg, r, t', hr, hp⟩ := sub1_spec d t
  rw [hr, hp.huge hs he]

/-- path C (`-116 ≤ exp ≤ 0`): either every digit of `d` lies below `10^-57` and the result is
`(true, 1, 1)`, or `k` digits are dropped (`k = 0`, or the result exponent is `-57`) and with
`s = d.sig / 10^k`, `p = 10^-r.exp` (the number 1 at the result's exponent),
`tr = if 10^k ∣ d.sig then t else 1`: `p ≤ s → (false, s - p, tr)`, `s < p → (true, p - s, tr * -1)`. -/
theorem sub1_down (d : Gen.decomposed192) (t : Int8) (hs : 0 < d.sig.toNat)
    (hlo : -116 ≤ d.exp.toInt) (hhi : d.exp.toInt ≤ 0) :
    ∃ neg r t', Gen.decomposed192.sub1 d t = .ok (neg, r, t') ∧
      ((neg = true ∧ r = one ∧ t' = 1 ∧ 0 < val d ∧ val d < (10 : ℚ) ^ (-57 : Int)) ∨
       (∃ k : Nat, r.exp.toInt = d.exp.toInt + k ∧ -57 ≤ r.exp.toInt ∧ r.exp.toInt ≤ 0 ∧
          (k = 0 ∨ r.exp.toInt = -57) ∧ 0 < d.sig.toNat / 10 ^ k ∧
          (10 ^ (-r.exp.toInt).toNat ≤ d.sig.toNat / 10 ^ k →
            neg = false ∧ r.sig.toNat = d.sig.toNat / 10 ^ k - 10 ^ (-r.exp.toInt).toNat ∧
            t' = (if d.sig.toNat % 10 ^ k = 0 then t else 1)) ∧
          (d.sig.toNat / 10 ^ k < 10 ^ (-r.exp.toInt).toNat →
            neg = true ∧ r.sig.toNat = 10 ^ (-r.exp.toInt).toNat - d.sig.toNat / 10 ^ k ∧
            t' = (if d.sig.toNat % 10 ^ k = 0 then t else 1) * -1))) := by
  obtain ⟨neg, r, t', hr, hp⟩ := sub1_spec d t
  refine ⟨neg, r, t', hr, ?_⟩
  rcases hp.down hs hlo hhi with hE | hD
  · obtain ⟨rfl, hy⟩ := Prod.mk.inj hE.1
    obtain ⟨rfl, rfl⟩ := Prod.mk.inj hy
    exact Or.inl ⟨rfl, rfl, rfl, val_pos hs, hE.2.val_lt⟩
  · exact Or.inr hD

/-- path D (`0 < exp ≤ 58`): the argument is scaled up by `10^j` without overflow; `neg = false`; if the
exponent reaches 0 the result `d.sig·10^j - 1` is exact and the flag is passed through; otherwise the
scaled argument is returned with flag `1` (the 1 is dropped). -/
theorem sub1_up (d : Gen.decomposed192) (t : Int8) (hs : 0 < d.sig.toNat)
    (hlo : 0 < d.exp.toInt) (hhi : d.exp.toInt ≤ 58) :
    ∃ neg r t', ∃ j : Nat, Gen.decomposed192.sub1 d t = .ok (neg, r, t') ∧
      d.sig.toNat * 10 ^ j < 2 ^ 192 ∧ r.exp.toInt = d.exp.toInt - j ∧ 0 ≤ r.exp.toInt ∧ neg = false ∧
      (r.exp.toInt ≠ 0 → r.sig.toNat = d.sig.toNat * 10 ^ j ∧ t' = 1 ∧ 25 * 2 ^ 184 ≤ r.sig.toNat) ∧
      (r.exp.toInt = 0 → r.sig.toNat = d.sig.toNat * 10 ^ j - 1 ∧ t' = t) := by
  obtain ⟨neg, r, t', hr, hp⟩ := sub1_spec d t
  obtain ⟨j, h⟩ := hp.up hs hlo hhi
  exact ⟨neg, r, t', j, hr, h⟩

/-! ### findings: overshoot flagged `+1` -/

/-- FINDING (flag sign): for every non-zero `d` with `d.exp < -116`, `sub1` returns `(true, 1, 1)`:
the flag `+1` claims that the true magnitude `|d - 1|` is above the result, but it is strictly below
(`|d - 1| = 1 - d < 1`).  The consistent flag would be `-1`.
Go: `decomposed192{sig: uint192{1,0,0}, exp: -117}.sub1(0)` = `(true, {1 0 0}e0, 1)`. -/
theorem sub1_tiny_flag_wrong (d : Gen.decomposed192) (t : Int8) (hs : 0 < d.sig.toNat)
    (he : d.exp.toInt < -116) :
    Gen.decomposed192.sub1 d t = .ok (true, one, 1) ∧ |val d - 1| < val one := by
  obtain ⟨h1, h2, h3⟩ := sub1_tiny d t hs he
  refine ⟨h1, ?_⟩
  have e : (2 : ℚ) ^ 192 * (10 : ℚ) ^ (-117 : Int) < 1 := by norm_num
  rw [val_one, abs_of_neg (by linarith)]; linarith

/-- FINDING (flag sign): the same on path C when all digits of `d` lie below `10^-57`
(e.g. Go: `decomposed192{sig: uint192{1,0,0}, exp: -60}.sub1(0)` = `(true, {1 0 0}e0, 1)`):
for every non-zero `d` with `-116 ≤ d.exp < -57` and `d.sig < 10^(-57 - d.exp)` the result is
`(true, one, 1)` although `|d - 1| < 1`. -/
theorem sub1_early_flag_wrong (d : Gen.decomposed192) (t : Int8) (hs : 0 < d.sig.toNat)
    (hlo : -116 ≤ d.exp.toInt) (hhi : d.exp.toInt < -57)
    (hsmall : d.sig.toNat < 10 ^ (-57 - d.exp.toInt).toNat) :
    Gen.decomposed192.sub1 d t = .ok (true, one, 1) ∧ |val d - 1| < val one := by
  obtain ⟨neg, r, t', hr, h⟩ := sub1_down d t hs hlo (by omega)
  have hvd : val d < (10 : ℚ) ^ (-57 : Int) := by
    have := val_lt_of_lt d _ hsmall
    refine lt_of_lt_of_le this (zpow_le_zpow_right₀ (by norm_num) (by omega))
  have h57 : (10 : ℚ) ^ (-57 : Int) < 1 := by norm_num
  have hm : |val d - 1| < val one := by
    rw [val_one, abs_of_neg (by linarith)]; linarith [val_pos hs]
  rcases h with ⟨rfl, rfl, rfl, _⟩ | ⟨k, he, h1, h2, hk, hpos, _⟩
  · exact ⟨hr, hm⟩
  · exfalso
    -- the main exit needs a non-zero significand after dropping the digits below 10^-57
    have hk' : (-57 - d.exp.toInt).toNat ≤ k := by rcases hk with h | h <;> omega
    have : d.sig.toNat / 10 ^ k = 0 :=
      Nat.div_eq_of_lt (lt_of_lt_of_le hsmall (Nat.pow_le_pow_right (by norm_num) hk'))
    omega

/-- FINDING (flag sign): for every non-zero `d` with `d.exp > 58`, `sub1` returns `(false, d, 1)`:
the flag `+1` claims that the true magnitude `d - 1` is above the result `d`; it is below.
Go: `decomposed192{sig: uint192{1,0,0}, exp: 59}.sub1(0)` = `(false, {1 0 0}e59, 1)`. -/
theorem sub1_huge_flag_wrong (d : Gen.decomposed192) (t : Int8) (hs : 0 < d.sig.toNat)
    (he : 58 < d.exp.toInt) :
    Gen.decomposed192.sub1 d t = .ok (false, d, 1) ∧ |val d - 1| < val d := by
  refine ⟨sub1_huge d t hs he, ?_⟩
  have h1 := one_le_val hs (by omega)
  rw [abs_of_nonneg (by linarith)]; linarith

/-- FINDING (flag sign): on path D (`0 < d.exp ≤ 58`) when the scaled exponent does not reach 0 the
result is `(false, r, 1)` with `val r = val d`: again the true magnitude `d - 1` is BELOW the result.
Go: `decomposed192{sig: uint192{^0,^0,^0}, exp: 1}.sub1(0)` = `(false, same, 1)`. -/
theorem sub1_up_flag_wrong (d : Gen.decomposed192) (t : Int8) (hs : 0 < d.sig.toNat)
    (hlo : 0 < d.exp.toInt) (hhi : d.exp.toInt ≤ 58) :
    ∃ neg r t', Gen.decomposed192.sub1 d t = .ok (neg, r, t') ∧
      (r.exp.toInt ≠ 0 → neg = false ∧ t' = 1 ∧ val r = val d ∧ |val d - 1| < val r) := by
  obtain ⟨neg, r, t', j, hr, _, he, h0, hneg, hne, _⟩ := sub1_up d t hs hlo hhi
  refine ⟨neg, r, t', hr, fun h => ?_⟩
  obtain ⟨hsig, ht, _⟩ := hne h
  have hv : val r = val d := val_scale j hsig he
  have h1 := one_le_val hs (by omega)
  refine ⟨hneg, ht, hv, ?_⟩
  rw [hv, abs_of_nonneg (by linarith)]; linarith

/-- the contract and the path lemmas on concrete inputs: `0.5` (borrow), `(2^192-1)·10^-60`
(digits dropped), `7·10^3` (scaled to exponent 0). -/
example := sub1_contract ⟨⟨5, 0, 0⟩, -1⟩ 1
example := sub1_down
    ⟨⟨18446744073709551615, 18446744073709551615, 18446744073709551615⟩, -60⟩ 0
    (by decide) (by decide) (by decide)
example := sub1_up ⟨⟨7, 0, 0⟩, 3⟩ 0 (by decide) (by decide) (by decide)
example := sub1_tiny_flag_wrong ⟨⟨1, 0, 0⟩, -117⟩ 0 (by decide) (by decide)
example := sub1_early_flag_wrong ⟨⟨1, 0, 0⟩, -60⟩ 0 (by decide) (by decide) (by decide) (by decide)
example := sub1_huge_flag_wrong ⟨⟨1, 0, 0⟩, 59⟩ 0 (by decide) (by decide)
example := sub1_up_flag_wrong
    ⟨⟨18446744073709551615, 18446744073709551615, 18446744073709551615⟩, 1⟩ 0
    (by decide) (by decide) (by decide)

end D192
