/-
  D128/Proofs/ExpAccFrac.lean — property C16: the fractional-part stage shared by `Gen.Exp2` and `Gen.Exp10`:
  `B^f = e^(f·ln B)` computed as `epow (mul f lnB)`, `0 < f < 1`, `lnB` the library's table constant.

  Provided (namespace `ExpAcc`):
  * `LnConst lnB c`     : what is needed of a table constant (`Gen.ln10`, `Gen.ln2`): exponent `-57`, value within
                          `10^-57` of the real `c`, `1/2 ≤ c ≤ 3`
  * `ln10_const`, `ln2_const`
  * `fracArg f fe`      : the working-format fraction `⟨⟨f.w0, f.w1, 0⟩, fe⟩`
  * `frac_pow`          : for `f ≠ 0`, `f·10^fe < 1`: `mul (fracArg f fe) lnB 0 = .ok (m, tm)`,
                          `U192.log10 m.sig = .ok l`, `epow m (conv l) tm = .ok z` with
                          `e^(f'·c)·(1 - 2·10^-38) ≤ val z ≤ e^(f'·c)·(1 + 10^-50)`, flag ∈ {0,1}, `-58 ≤ z.exp ≤ 1`,
                          `z = one ∨ 10^55 ≤ z.sig`, `z = one → f' < 10^-49`
-/
import D128.Proofs.ExpAccEpow
import D128.Proofs.EnclosureTables
import D128.Proofs.WordsWidePow10
set_option autoImplicit false
set_option maxRecDepth 4096
set_option exponentiation.threshold 512

namespace ExpAcc
open Gen D192 Spec SpecRound EnclPf D128.Proofs.WordsWide

/-- what the exponential code needs of a table constant -/
structure LnConst (lnB : decomposed192) (c : ℝ) : Prop where
  exp_eq : lnB.exp.toInt = -57
  sig_pos : 1 ≤ lnB.sig.toNat
  close : |((val lnB : ℚ) : ℝ) - c| ≤ 1 / 10 ^ 57
  lo : 1 / 2 ≤ c
  hi : c ≤ 3

theorem val_table (t : decomposed192) (h : t.exp.toInt = -57) :
    ((val t : ℚ) : ℝ) = (t.sig.toNat : ℝ) * (10 : ℝ) ^ (-57 : ℤ) := by
  unfold val; rw [h]; push_cast; rfl

theorem ln10_const : LnConst Gen.ln10 (Real.log 10) where
  exp_eq := by decide
  sig_pos := by decide
  close := by
    rw [val_table _ (by decide)]
    refine le_trans ln10_table ?_
    norm_num
  lo := by have := log10_ge; linarith
  hi := by
    have a1 : ((Spec.Encl.ln10.hi : ℚ) : ℝ) ≤ ((231 / 100 : ℚ) : ℝ) := by exact_mod_cast ln10_hi_le
    push_cast at a1
    have := ln10_sound.2
    linarith

theorem ln2_const : LnConst Gen.ln2 (Real.log 2) where
  exp_eq := by decide
  sig_pos := by decide
  close := by
    rw [val_table _ (by decide)]
    refine le_trans ln2_table ?_
    norm_num
  lo := by have := log2_ge; linarith
  hi := by
    have a1 : ((Spec.Encl.ln2.hi : ℚ) : ℝ) ≤ ((7 / 10 : ℚ) : ℝ) := by exact_mod_cast ln2_hi_le
    push_cast at a1
    have := ln2_sound.2
    linarith

/-- the fractional part as a working-format number -/
def fracArg (f : U128) (fe : Int16) : decomposed192 :=
  ({ (default : decomposed192) with sig := (U192.mk f.w0 f.w1 (0 : UInt64)), exp := fe } : decomposed192)

theorem fracArg_sig (f : U128) (fe : Int16) : (fracArg f fe).sig.toNat = f.toNat := by
  simp [fracArg, U192.toNat, U128.toNat]

theorem fracArg_exp (f : U128) (fe : Int16) : (fracArg f fe).exp = fe := rfl

theorem val_fracArg (f : U128) (fe : Int16) :
    val (fracArg f fe) = (f.toNat : ℚ) * (10 : ℚ) ^ fe.toInt := by
  unfold val; rw [fracArg_sig, fracArg_exp]

theorem conv_log_192 (n : U192) :
    (Go.conv (Int64.ofNat (Nat.log 10 n.toNat)) : Int16).toInt = Nat.log 10 n.toNat := by
  have hk := Nat_log10_le_57_of_lt n.toNat (U192.toNat_lt n)
  have hl : (Int64.ofNat (Nat.log 10 n.toNat)).toInt = Nat.log 10 n.toNat :=
    Int64.toInt_ofNat_small _ (by omega)
  have hs : Int16.size = 65536 := rfl
  simp only [Go.conv, Go.GoInt.ofInt, Go.GoInt.toInt, Int16.toInt_ofInt, hs, hl]
  apply Int.bmod_eq_of_le <;> omega

/-- `e^δ` for tiny `δ` -/
theorem exp_small {δ : ℝ} (h1 : -(1 / 10 ^ 55) ≤ δ) (h2 : δ ≤ 1 / 10 ^ 55) :
    1 - 1 / 10 ^ 55 ≤ Real.exp δ ∧ Real.exp δ ≤ 1 + 2 / 10 ^ 55 := by
  constructor
  · have := Real.add_one_le_exp δ; linarith
  · -- exp δ ≤ 1/(1-δ)
    have h3 : 1 - δ ≤ Real.exp (-δ) := by have := Real.add_one_le_exp (-δ); linarith
    have hpos : 0 < 1 - δ := by
      have : (1 : ℝ) / 10 ^ 55 < 1 := by norm_num
      linarith
    have h4 : Real.exp δ * (1 - δ) ≤ 1 := by
      have : Real.exp δ * Real.exp (-δ) = 1 := by rw [← Real.exp_add]; simp
      have he := Real.exp_pos δ
      nlinarith
    have h5 : Real.exp δ ≤ 1 / (1 - δ) := by rw [le_div_iff₀ hpos]; exact h4
    refine le_trans h5 ?_
    rw [div_le_iff₀ hpos]
    have : (1 : ℝ) / 10 ^ 55 ≤ 1 / 4 := by norm_num
    nlinarith

/-- **The fractional-part stage.** -/
theorem frac_pow (lnB : decomposed192) (c : ℝ) (hL : LnConst lnB c) (f : U128) (fe : Int16)
    (hf0 : f.toNat ≠ 0) (hf1 : (f.toNat : ℚ) * (10 : ℚ) ^ fe.toInt < 1)
    (hfe0 : -6176 ≤ fe.toInt) (hfe1 : fe.toInt ≤ 0) :
    ∃ (m : decomposed192) (tm : Int8) (z : decomposed192 × Int8),
      decomposed192.mul (fracArg f fe) lnB 0 = .ok (m, tm) ∧
      decomposed192.epow m (Go.conv (Int64.ofNat (Nat.log 10 m.sig.toNat)) : Int16) tm = .ok z ∧
      (z.2 = 0 ∨ z.2 = 1) ∧ -58 ≤ z.1.exp.toInt ∧ z.1.exp.toInt ≤ 1 ∧
      Real.exp ((((f.toNat : ℚ) * (10 : ℚ) ^ fe.toInt : ℚ) : ℝ) * c) * (1 - 2 / 10 ^ 38) ≤ ((val z.1 : ℚ) : ℝ) ∧
      ((val z.1 : ℚ) : ℝ) ≤ Real.exp ((((f.toNat : ℚ) * (10 : ℚ) ^ fe.toInt : ℚ) : ℝ) * c) * (1 + 1 / 10 ^ 50) ∧
      (z.1 = D192.one ∨ 10 ^ 55 ≤ z.1.sig.toNat) ∧
      (z.1 = D192.one → (f.toNat : ℚ) * (10 : ℚ) ^ fe.toInt < 1 / 10 ^ 49) := by
  set a := fracArg f fe with ha
  set f' : ℚ := (f.toNat : ℚ) * (10 : ℚ) ^ fe.toInt with hf'
  have hva : val a = f' := val_fracArg f fe
  have hf'0 : 0 < f' := mul_pos (by exact_mod_cast Nat.pos_of_ne_zero hf0) (zpow_pos (by norm_num) _)
  -- the multiplication
  have hae : a.exp.toInt = fe.toInt := by rw [ha, fracArg_exp]
  obtain ⟨⟨m, tm⟩, hm, hm1, hm2, hm3, hm4, hm5, hm6⟩ := mul_q2 a lnB 0
    (by rw [hae, hL.exp_eq]; omega) (by rw [hae, hL.exp_eq]; omega)
  simp only at hm1 hm2 hm3 hm4 hm5 hm6
  rw [hae, hL.exp_eq] at hm5 hm6
  rw [hva] at hm1 hm2
  -- the constant
  set Lq : ℚ := val lnB with hLq
  have hLc := abs_le.1 hL.close
  have hLr0 : (0 : ℝ) < (Lq : ℝ) := by
    have : (1 : ℝ) / 10 ^ 57 < 1 / 4 := by norm_num
    linarith [hL.lo, hLc.1]
  have hLq0 : 0 < Lq := by exact_mod_cast hLr0
  have hLr3 : (Lq : ℝ) ≤ 4 := by
    have : (1 : ℝ) / 10 ^ 57 < 1 := by norm_num
    linarith [hL.hi, hLc.2]
  have hLq3 : Lq ≤ 4 := by exact_mod_cast hLr3
  -- value of m
  have hmpos : 0 < val m := by
    have h1e : 0 < 1 - D192.eps := one_sub_eps_pos
    exact lt_of_lt_of_le (mul_pos (mul_pos hf'0 hLq0) h1e) hm2
  have hm4' : val m ≤ 4 := by
    calc val m ≤ f' * Lq := hm1
      _ ≤ 1 * 4 := mul_le_mul hf1.le hLq3 hLq0.le (by norm_num)
      _ = 4 := by norm_num
  have hmsig : m.sig.toNat ≠ 0 := by
    have := sig_pos_of_val_pos m hmpos; omega
  -- the digit count and the precondition of `epow`
  have hlog := conv_log_192 m.sig
  have hb := log_bounds m.sig.toNat (Nat.pos_of_ne_zero hmsig)
  have hE : m.exp.toInt + (Nat.log 10 m.sig.toNat : Int) + 1 ≤ 7 := by
    -- 10^(log + exp) ≤ val m ≤ 4 < 10
    by_contra hcon
    have hge : (1 : Int) ≤ m.exp.toInt + (Nat.log 10 m.sig.toNat : Int) := by omega
    have h1 : (10 : ℚ) ^ ((Nat.log 10 m.sig.toNat : Int)) * (10 : ℚ) ^ m.exp.toInt ≤ val m :=
      mul_le_mul_of_nonneg_right hb.1 (zpow_pos (by norm_num) _).le
    rw [← zpow_add₀ (by norm_num)] at h1
    have h2 : (10 : ℚ) ^ (1 : Int) ≤ (10 : ℚ) ^ ((Nat.log 10 m.sig.toNat : Int) + m.exp.toInt) :=
      zpow_le_zpow_right₀ (by norm_num) (by omega)
    norm_num at h2
    linarith
  have hpre : EpowPre m (Go.conv (Int64.ofNat (Nat.log 10 m.sig.toNat)) : Int16) :=
    epowPre_of_log m _ hmsig (by omega) (by omega) hlog (by rw [hlog]; exact hE)
  have htm : tm = 0 ∨ tm = 1 := by
    by_cases hex : val m = val a * val lnB
    · left; exact hm3 hex
    · right; exact hm4 hex
  obtain ⟨z, hz, hfacts⟩ := epowHyp m _ tm hpre hlog htm
  refine ⟨m, tm, z, hm, hz, ?_⟩
  -- the real argument
  have hmr1 : ((val m : ℚ) : ℝ) ≤ (f' : ℝ) * (Lq : ℝ) := by
    have : ((val m : ℚ) : ℝ) ≤ ((f' * Lq : ℚ) : ℝ) := by exact_mod_cast hm1
    push_cast at this; exact this
  have hmr2 : (f' : ℝ) * (Lq : ℝ) * (1 - ((D192.eps : ℚ) : ℝ)) ≤ ((val m : ℚ) : ℝ) := by
    have : ((f' * Lq * (1 - D192.eps) : ℚ) : ℝ) ≤ ((val m : ℚ) : ℝ) := by exact_mod_cast hm2
    push_cast at this; exact this
  have hfr0 : (0 : ℝ) < (f' : ℝ) := by exact_mod_cast hf'0
  have hfr1 : (f' : ℝ) < 1 := by exact_mod_cast hf1
  have heps := eps_real_lt
  have heps0 := eps_real_pos
  -- δ = val m − f'·c is tiny
  set δ : ℝ := ((val m : ℚ) : ℝ) - (f' : ℝ) * c with hδ
  have hδ1 : δ ≤ (f' : ℝ) * (1 / 10 ^ 57) := by
    have : (f' : ℝ) * (Lq : ℝ) - (f' : ℝ) * c ≤ (f' : ℝ) * (1 / 10 ^ 57) := by
      rw [← mul_sub]; exact mul_le_mul_of_nonneg_left (by linarith [hLc.2]) hfr0.le
    linarith
  have hδ2 : -((f' : ℝ) * (5 / 10 ^ 56)) ≤ δ := by
    have h1 : (f' : ℝ) * (Lq : ℝ) * ((D192.eps : ℚ) : ℝ) ≤ (f' : ℝ) * (4 / 10 ^ 56) := by
      rw [mul_assoc]
      apply mul_le_mul_of_nonneg_left _ hfr0.le
      calc (Lq : ℝ) * ((D192.eps : ℚ) : ℝ) ≤ 4 * (1 / 10 ^ 56) := mul_le_mul hLr3 heps.le heps0.le (by norm_num)
        _ = 4 / 10 ^ 56 := by ring
    have h2 : -((f' : ℝ) * (1 / 10 ^ 57)) ≤ (f' : ℝ) * (Lq : ℝ) - (f' : ℝ) * c := by
      rw [← mul_sub]
      have : (f' : ℝ) * (-(1 / 10 ^ 57)) ≤ (f' : ℝ) * ((Lq : ℝ) - c) :=
        mul_le_mul_of_nonneg_left (by linarith [hLc.1]) hfr0.le
      linarith
    have h3 : (f' : ℝ) * (1 / 10 ^ 57) + (f' : ℝ) * (4 / 10 ^ 56) ≤ (f' : ℝ) * (5 / 10 ^ 56) := by
      rw [← mul_add]; exact mul_le_mul_of_nonneg_left (by norm_num) hfr0.le
    nlinarith
  have hδa : -(1 / 10 ^ 55) ≤ δ := by
    have : (f' : ℝ) * (5 / 10 ^ 56) ≤ 1 * (5 / 10 ^ 56) := mul_le_mul_of_nonneg_right hfr1.le (by norm_num)
    have : (5 : ℝ) / 10 ^ 56 ≤ 1 / 10 ^ 55 := by norm_num
    linarith
  have hδb : δ ≤ 1 / 10 ^ 55 := by
    have : (f' : ℝ) * (1 / 10 ^ 57) ≤ 1 * (1 / 10 ^ 57) := mul_le_mul_of_nonneg_right hfr1.le (by norm_num)
    have : (1 : ℝ) / 10 ^ 57 ≤ 1 / 10 ^ 55 := by norm_num
    linarith
  obtain ⟨hed1, hed2⟩ := exp_small hδa hδb
  have hsplit : Real.exp ((val m : ℚ) : ℝ) = Real.exp ((f' : ℝ) * c) * Real.exp δ := by
    rw [← Real.exp_add]; congr 1; rw [hδ]; ring
  set T : ℝ := Real.exp ((f' : ℝ) * c) with hT
  have hT0 : 0 < T := Real.exp_pos _
  -- exp (val m) ≤ e^4 < 10^16326, so the overflow marker is impossible
  have hexp4 : Real.exp ((val m : ℚ) : ℝ) < (10 : ℝ) ^ (16326 : ℕ) := by
    have h4 : ((val m : ℚ) : ℝ) ≤ 4 := by exact_mod_cast hm4'
    have h1 : Real.exp ((val m : ℚ) : ℝ) ≤ Real.exp 4 := Real.exp_le_exp.2 h4
    have h2 : Real.exp 4 ≤ 3 ^ 4 := by
      have : Real.exp 4 = Real.exp 1 ^ 4 := by rw [← Real.exp_nat_mul]; norm_num
      rw [this]
      exact pow_le_pow_left₀ (Real.exp_pos 1).le (by have := Real.exp_one_lt_d9; linarith) 4
    have h3 : (3 : ℝ) ^ 4 < (10 : ℝ) ^ (16326 : ℕ) := by
      calc (3 : ℝ) ^ 4 < 10 ^ 2 := by norm_num
        _ ≤ (10 : ℝ) ^ (16326 : ℕ) := pow_le_pow_right₀ (by norm_num) (by norm_num)
    generalize (10 : ℝ) ^ (16326 : ℕ) = big at *
    linarith
  rcases hfacts with ⟨-, hh⟩ | ⟨hflag, hv1, hv2, hv3, hsz, hone⟩
  · exact absurd hh (not_le.2 hexp4)
  rw [hsplit] at hv1 hv2
  have hzpos : 0 < val z.1 := by linarith
  have hzs1 : 1 ≤ z.1.sig.toNat := sig_pos_of_val_pos z.1 hzpos
  -- val z ≤ 3^4·… < 100, so the exponent is at most 1
  have hzle : val z.1 ≤ 99 := by
    have h4 : ((val m : ℚ) : ℝ) ≤ 4 := by exact_mod_cast hm4'
    have h1 : Real.exp ((val m : ℚ) : ℝ) ≤ Real.exp 4 := Real.exp_le_exp.2 h4
    have h2 : Real.exp 4 ≤ 3 ^ 4 := by
      have : Real.exp 4 = Real.exp 1 ^ 4 := by rw [← Real.exp_nat_mul]; norm_num
      rw [this]
      exact pow_le_pow_left₀ (Real.exp_pos 1).le (by have := Real.exp_one_lt_d9; linarith) 4
    have : ((val z.1 : ℚ) : ℝ) ≤ 99 := by
      rw [← hsplit] at hv2
      norm_num at h2; linarith
    exact_mod_cast this
  have hzexp : z.1.exp.toInt ≤ 1 := by
    by_contra hcon
    have h1 := val_ge_pow z.1 hzs1
    have h2 : (10 : ℚ) ^ (2 : Int) ≤ (10 : ℚ) ^ z.1.exp.toInt := zpow_le_zpow_right₀ (by norm_num) (by omega)
    norm_num at h2; linarith
  refine ⟨hflag, exp_ge_of_val z.1 hv3, hzexp, ?_, ?_, hsz, ?_⟩
  · -- lower bound
    have h1 : T * (1 - 1 / 10 ^ 55) * (1 - 1 / 10 ^ 38) ≤ T * Real.exp δ * (1 - 1 / 10 ^ 38) := by
      apply mul_le_mul_of_nonneg_right _ (by norm_num)
      exact mul_le_mul_of_nonneg_left hed1 hT0.le
    have h2 : T * (1 - 2 / 10 ^ 38) ≤ T * (1 - 1 / 10 ^ 55) * (1 - 1 / 10 ^ 38) := by
      rw [mul_assoc]; exact mul_le_mul_of_nonneg_left (by norm_num) hT0.le
    linarith
  · have h1 : T * Real.exp δ ≤ T * (1 + 2 / 10 ^ 55) := mul_le_mul_of_nonneg_left hed2 hT0.le
    have h2 : T * (1 + 2 / 10 ^ 55) ≤ T * (1 + 1 / 10 ^ 50) :=
      mul_le_mul_of_nonneg_left (by norm_num) hT0.le
    linarith
  · intro hz1
    have h50 := hone hz1
    -- f'·Lq·(1 - eps) ≤ val m < 1e-50, Lq ≥ 1/4
    have hLq4 : (1 : ℚ) / 4 ≤ Lq := by
      have : ((1 / 4 : ℚ) : ℝ) ≤ (Lq : ℝ) := by
        push_cast
        have : (1 : ℝ) / 10 ^ 57 < 1 / 4 := by norm_num
        linarith [hL.lo, hLc.1]
      exact_mod_cast this
    have hepsq := D192.eps_lt
    have h1 : f' * (1 / 4) * (1 / 2) ≤ f' * Lq * (1 - D192.eps) := by
      apply mul_le_mul _ _ (by norm_num) (mul_nonneg hf'0.le hLq0.le)
      · exact mul_le_mul_of_nonneg_left hLq4 hf'0.le
      · have : (1 : ℚ) / 10 ^ 56 < 1 / 2 := by norm_num
        linarith
    have : f' * (1 / 8) < 1 / 10 ^ 50 := by linarith
    calc f' = f' * (1 / 8) * 8 := by ring
      _ < 1 / 10 ^ 50 * 8 := by linarith
      _ < 1 / 10 ^ 49 := by norm_num

end ExpAcc
