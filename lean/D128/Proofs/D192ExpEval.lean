/-
  D128/Proofs/D192ExpEval.lean — evaluated evidence (re-run on every build by `#guard`) about
  `decomposed192.epow` (Go: /repo/decomposed.go, the 40-term series for `e^x`, `0 ≤ x < 1`).

  FINDING.  The Horner loop starts from `res = d/40` instead of `1 + d/40`:
      res₄₀ = x/40,   resᵢ = 1 + (x/i)·resᵢ₊₁  (i = 39 … 2),   res₁ = 1 + x·res₂ .
  With `Sᵢ = 1 + (x/i)·Sᵢ₊₁`, `S₄₁ = 1` the true partial sums, `S₄₀ - res₄₀ = 1` and hence
  `S₁ - res₁ = x³⁹/39!`: the function evaluates  Σ_{k=0}^{38} x^k/k! + x^40/40!,  the term `x³⁹/39!`
  is missing.  For `x = 0.9` this is 8.05e-49 — nine of the 57 working digits — although every
  individual operation is accurate to ≈ 1.6e-57.  (It is far below the 34-digit result precision, so
  no wrong Decimal results from it alone; after `powexp10` the relative deficit is multiplied by
  `10^exp ≤ 10^6`.)

  The guards below show that `epow(0.9)` and `epow(0.5)` coincide digit for digit with the truncated
  value of the series WITHOUT the `k = 39` term, and differ from the full 40-term series.
-/
import D128.Gen.Decomposed
set_option autoImplicit false

namespace D192Eval

/-- `⌊10^57 · (Σ_{k=0}^{40} x^k/k!  -  [drop39]·x^39/39!)⌋` for `x = a/10` -/
def fact : Nat → Nat
  | 0 => 1
  | n + 1 => (n + 1) * fact n

def series (a : Nat) (drop39 : Bool) : Nat :=
  let x : Rat := (a : Rat) / 10
  let term (k : Nat) : Rat := x ^ k / (fact k : Rat)
  let s := (List.range 41).foldl (fun acc k => acc + term k) 0
  let s := if drop39 then s - term 39 else s
  (s * 10 ^ 57).floor.toNat

def epowSig (a : UInt64) : Option (Nat × Int16 × Int8) :=
  (Gen.decomposed192.epow ⟨⟨a, 0, 0⟩, -1⟩ 0 0).toOption.map (fun x => (x.1.sig.toNat, x.1.exp, x.2))

#guard epowSig 9 == some (2459603111156949663800126563602470695421772306439277471809, -57, 1)
#guard series 9 true == 2459603111156949663800126563602470695421772306439277471809
#guard series 9 false == 2459603111156949663800126563602470695421772306440082614383
#guard epowSig 5 == some (1648721270700128146848650787814163571653776100710148011574, -57, 1)
#guard series 5 true == 1648721270700128146848650787814163571653776100710148011574
#guard series 5 false == 1648721270700128146848650787814163571653776100710148011575

end D192Eval
