/-
  D128/Proofs/CohortElemCbrtTrace.lean — property C19 for `Gen.Cbrt`, part 1: ONE run of the Halley step
  `Root.cbrtStep` with all its intermediate registers exposed.

  `Root.cbrtStep_inv` (D192RootCbrtIter.lean) proves that a step does not panic and improves the defect bounds, but hides
  the intermediate results.  The pair analysis (CohortElemCbrtStep.lean) needs them: the seven `.ok` equations, exponent
  windows `±16000` for every register (so that the congruence lemmas of `mul`/`add`/`quo` apply), non-zero significands,
  and the "exact or normalised" clauses of `Root.mul_rel` / `Root.add_rel`.

  Provided (namespace `CohortElem`):
  * `Win x`               : `-16000 ≤ x.exp ≤ 16000`
  * `ArgOK arg arg2`      : what `Cbrt` knows about its argument registers (`arg = c·10^e`, `arg2 = 2c·10^e`, both short)
  * `W arg s`             : the weakest loop invariant `Root.CInv arg (99/100) 99 s` (`x³/100 ≤ arg ≤ 100·x³`, flag ∈ {0,1})
  * `CInv_mono`, `W_step` : `W` is preserved by every step
  * `StepTrace`           : the record of one step; `step_trace : ArgOK → W arg s → ∃ …, StepTrace …`
  * `StepTrace.cub_ge`, `StepTrace.out_ge`, `StepTrace.d1_ge` : size clauses (`LIM ≤ sig`) of `cub`, of the new iterate, of `2·cub`
-/
import D128.Proofs.D192RootCbrtIter
import D128.Proofs.CohortElemBase
set_option autoImplicit false
set_option maxRecDepth 4096
set_option exponentiation.threshold 512
set_option linter.unusedVariables false

namespace CohortElem
open Gen D192 Root

/-- exponent window in which no `int16` operation of the working format wraps -/
def Win (x : decomposed192) : Prop := -16000 ≤ x.exp.toInt ∧ x.exp.toInt ≤ 16000

/-- what `Cbrt` knows about its argument registers -/
structure ArgOK (arg arg2 : decomposed192) : Prop where
  nz : arg.sig.toNat ≠ 0
  e0 : -6176 ≤ arg.exp.toInt
  e1 : arg.exp.toInt ≤ 6111
  lt : val arg < (10 : ℚ) ^ (arg.exp.toInt + 35)
  v2 : val arg2 = 2 * val arg
  x2 : arg2.exp = arg.exp
  s1 : arg.sig.toNat < 10 * LIM
  s2 : arg2.sig.toNat < 10 * LIM

/-- the weakest invariant of the Halley loop: `x³/100 ≤ arg ≤ 100·x³`, flag in `{0,1}`, non-zero flag ⇒ long -/
def W (arg : decomposed192) (s : decomposed192 × Int8) : Prop := CInv arg (99 / 100) 99 s

theorem CInv_mono {arg : decomposed192} {B S B' S' : ℚ} {s : decomposed192 × Int8}
    (hB : B ≤ B') (hS : S ≤ S') (h : CInv arg B S s) : CInv arg B' S' s := by
  obtain ⟨h0, h1, h2, h3, h4⟩ := h
  have hx : 0 ≤ val s.1 ^ 3 := pow_nonneg (val_nonneg _) 3
  refine ⟨h0, ?_, ?_, h3, h4⟩
  · have : (1 - B') * val s.1 ^ 3 ≤ (1 - B) * val s.1 ^ 3 :=
      mul_le_mul_of_nonneg_right (by linarith) hx
    linarith
  · have : (1 + S) * val s.1 ^ 3 ≤ (1 + S') * val s.1 ^ 3 :=
      mul_le_mul_of_nonneg_right (by linarith) hx
    linarith

/-- `W` is preserved by the step (first line of `Root.cbrtIter_inv`, weakened) -/
theorem W_step {arg arg2 : decomposed192} (A : ArgOK arg arg2) {s : decomposed192 × Int8} (h : W arg s) :
    ∃ s', cbrtStep arg arg2 s = .ok s' ∧ W arg s' := by
  have hη0 := etaC_pos
  have hη : etaC ≤ 1 / 10 ^ 50 := le_trans etaC_le (by norm_num)
  have hη1 : etaC ≤ 1 / 100 := le_trans hη (by norm_num)
  have hη1' : etaC ≤ 1 := le_trans hη (by norm_num)
  have nb : ∀ B' : ℚ, 0 ≤ B' → B' ≤ 1 → (1 - B') * (1 + etaC) ^ 3 ≤ 1 - (B' - 4 / 10 ^ 50) :=
    fun B' h0 h1 => hB'_of etaC _ B' hη0.le hη1 h1 h0 (by linarith)
  have ns : ∀ S' K : ℚ, 0 ≤ S' → S' ≤ K →
      1 + (S' - 3 * (1 + K) / 10 ^ 50) ≤ (1 + S') * (1 - etaC) ^ 3 := fun S' K h0 hK =>
    hS'_of etaC _ S' hη0.le hη1' h0 (by
      have h1 : 3 * etaC * (1 + S') ≤ 3 * (1 / 10 ^ 50) * (1 + K) :=
        mul_le_mul (by linarith) (by linarith) (by linarith) (by norm_num)
      have e : 3 * (1 + K) / 10 ^ 50 = 3 * (1 / 10 ^ 50) * (1 + K) := by ring
      rw [e]; linarith)
  obtain ⟨s1, e1, i1⟩ := cbrtStep_inv arg arg2 s (99 / 100) 99 (94 / 100 - 4 / 10 ^ 50)
    (122 / 10 - 3 * (1 + 100) / 10 ^ 50) (94 / 100) (122 / 10) A.nz A.e0 A.e1 A.lt A.v2 A.x2
    (by norm_num) (by norm_num) (by norm_num) (by norm_num) (by norm_num) (by norm_num)
    (nb _ (by norm_num) (by norm_num)) (ns _ 100 (by norm_num) (by norm_num)) h
  exact ⟨s1, e1, CInv_mono (by norm_num) (by norm_num) i1⟩

/-- the record of one Halley step -/
structure StepTrace (arg arg2 : decomposed192) (s : decomposed192 × Int8)
    (sq cub num d1 den frc x : decomposed192 × Int8) : Prop where
  e_sq : decomposed192.mul s.1 s.1 0 = .ok sq
  e_cub : decomposed192.mul sq.1 s.1 0 = .ok cub
  e_num : decomposed192.add cub.1 arg2 0 = .ok num
  e_d1 : decomposed192.add cub.1 cub.1 0 = .ok d1
  e_den : decomposed192.add d1.1 arg 0 = .ok den
  e_frc : decomposed192.quo num.1 den.1 0 = .ok frc
  e_x : decomposed192.mul s.1 frc.1 s.2 = .ok x
  e_step : cbrtStep arg arg2 s = .ok (x.1, x.2)
  w_arg : Win arg
  w_arg2 : Win arg2
  w_s : Win s.1
  w_sq : Win sq.1
  w_cub : Win cub.1
  w_num : Win num.1
  w_d1 : Win d1.1
  w_den : Win den.1
  w_frc : Win frc.1
  n_s : s.1.sig.toNat ≠ 0
  n_sq : sq.1.sig.toNat ≠ 0
  n_cub : cub.1.sig.toNat ≠ 0
  n_num : num.1.sig.toNat ≠ 0
  n_den : den.1.sig.toNat ≠ 0
  n_frc : frc.1.sig.toNat ≠ 0
  r_cub : cub.1.sig.toNat < 2 ^ 192 / 10 → cub.2 = 0 ∧ cub.1.sig.toNat = sq.1.sig.toNat * s.1.sig.toNat
  r_d1 : d1.1.sig.toNat < LIM → cub.1.sig.toNat ≤ d1.1.sig.toNat
  r_x : x.1.sig.toNat < 2 ^ 192 / 10 → x.2 = s.2 ∧ x.1.sig.toNat = s.1.sig.toNat * frc.1.sig.toNat
  f_cub : cub.2 = 0 ∨ cub.2 = 1
  w_out : W arg (x.1, x.2)

theorem lim_le_tenth : LIM ≤ 2 ^ 192 / 10 := by unfold LIM; norm_num

/-- an inexact cube, or the cube of a long iterate, is long -/
theorem StepTrace.cub_ge {arg arg2 : decomposed192} {s sq cub num d1 den frc x : decomposed192 × Int8}
    (T : StepTrace arg arg2 s sq cub num d1 den frc x) (h : cub.2 ≠ 0 ∨ LIM ≤ s.1.sig.toNat) :
    LIM ≤ cub.1.sig.toNat := by
  by_cases hc : cub.1.sig.toNat < 2 ^ 192 / 10
  · obtain ⟨a, b⟩ := T.r_cub hc
    rcases h with h | h
    · exact absurd a h
    · rw [b]
      have := T.n_sq
      exact le_trans h (Nat.le_mul_of_pos_left _ (by omega))
  · have := lim_le_tenth; omega

/-- a new iterate whose flag was raised, or the successor of a long iterate, is long -/
theorem StepTrace.out_ge {arg arg2 : decomposed192} {s sq cub num d1 den frc x : decomposed192 × Int8}
    (T : StepTrace arg arg2 s sq cub num d1 den frc x) (h : x.2 ≠ s.2 ∨ LIM ≤ s.1.sig.toNat) :
    LIM ≤ x.1.sig.toNat := by
  by_cases hc : x.1.sig.toNat < 2 ^ 192 / 10
  · obtain ⟨a, b⟩ := T.r_x hc
    rcases h with h | h
    · exact absurd a h
    · rw [b]
      have := T.n_frc
      exact le_trans h (Nat.le_mul_of_pos_right _ (by omega))
  · have := lim_le_tenth; omega

/-- twice a long cube is long -/
theorem StepTrace.d1_ge {arg arg2 : decomposed192} {s sq cub num d1 den frc x : decomposed192 × Int8}
    (T : StepTrace arg arg2 s sq cub num d1 den frc x) (h : LIM ≤ cub.1.sig.toNat) :
    LIM ≤ d1.1.sig.toNat := by
  by_contra hc
  have := T.r_d1 (by omega)
  omega

/-- **one step of one run, with everything exposed** -/
theorem step_trace {arg arg2 : decomposed192} (A : ArgOK arg arg2) {s : decomposed192 × Int8}
    (h : W arg s) : ∃ sq cub num d1 den frc x, StepTrace arg arg2 s sq cub num d1 den frc x := by
  obtain ⟨s', hs', hW'⟩ := W_step A h
  obtain ⟨res, t⟩ := s
  obtain ⟨hs0, hlo, hhi, htf, hnz⟩ := h
  simp only at hs0 hlo hhi htf hnz
  have hl := lam_pos
  have hl1 : lam ≤ 1 / 100 := le_trans lam_le (by norm_num)
  have hu0' : 0 < 1 - lam := by linarith
  set a := val arg with hadef
  set x := val res with hxdef
  set e := arg.exp.toInt with hedef
  have he0 := A.e0
  have he1 := A.e1
  have ha : 0 < a := val_pos_of_sig arg A.nz
  have hx : 0 < x := val_pos_of_sig res hs0
  have hx3 : 0 < x ^ 3 := pow_pos hx 3
  have ha0 : (10 : ℚ) ^ e ≤ a := by
    rw [hadef]; unfold val
    exact le_mul_of_one_le_left (zpow_pos (by norm_num) _).le
      (by exact_mod_cast Nat.pos_of_ne_zero A.nz)
  obtain ⟨hw0, hw1⟩ := cbrt_exp_window res a e hs0 ha0 A.lt (by nlinarith) (by nlinarith)
  have hae2 : arg2.exp.toInt = e := by rw [A.x2]
  -- sq
  obtain ⟨sq, tq, hsq, q1, q2, -, qe0, qe1, -⟩ := mul_rel res res 0 (by omega) (by omega)
  have hsq0 : 0 < val sq := lt_of_lt_of_le (mul_pos (mul_pos hx hx) hu0') q1
  -- cub
  obtain ⟨cub, tc, hcub, c1, c2, cf, ce0, ce1, cx⟩ := mul_rel sq res 0 (by omega) (by omega)
  have hcub0 : 0 < val cub := lt_of_lt_of_le (mul_pos (mul_pos hsq0 hx) hu0') c1
  -- num = cub + 2a
  obtain ⟨num, tn, hnum, n1, n2, -, ne0, ne1, -⟩ := add_rel cub arg2 0 (by omega) (by omega)
    (by omega) (by omega)
  rw [A.v2] at n1 n2
  have hnum0 : 0 < val num := lt_of_lt_of_le (mul_pos (by linarith) hu0') n1
  -- den = (cub + cub) + a
  obtain ⟨d1, td, hd1, d1a, d1b, -, de0, de1, dx⟩ := add_rel cub cub 0 (by omega) (by omega)
    (by omega) (by omega)
  have hd10 : 0 < val d1 := lt_of_lt_of_le (mul_pos (by linarith) hu0') d1a
  obtain ⟨den, te, hden, e1, e2, -, ee0, ee1, -⟩ := add_rel d1 arg 0
    (by simp only [min_self, max_self] at de0 de1; omega)
    (by simp only [min_self, max_self] at de0 de1; omega)
    (by simp only [min_self, max_self] at de0 de1; omega) (by omega)
  have hden0 : 0 < val den := lt_of_lt_of_le (mul_pos (by linarith) hu0') e1
  simp only [min_self, max_self] at de0 de1
  have hne : min cub.exp.toInt arg2.exp.toInt ≤ num.exp.toInt := ne0
  have hmin1 := min_le_left cub.exp.toInt arg2.exp.toInt
  have hmin2 := min_le_right cub.exp.toInt arg2.exp.toInt
  have hmax1 := le_max_left cub.exp.toInt arg2.exp.toInt
  have hmax2 := le_max_right cub.exp.toInt arg2.exp.toInt
  have hmin3 := min_le_left d1.exp.toInt arg.exp.toInt
  have hmin4 := min_le_right d1.exp.toInt arg.exp.toInt
  have hmax3 := le_max_left d1.exp.toInt arg.exp.toInt
  have hmax4 := le_max_right d1.exp.toInt arg.exp.toInt
  have hnumexp : e - 176 ≤ num.exp.toInt ∧ num.exp.toInt ≤ e + 160 := by
    rcases min_choice cub.exp.toInt arg2.exp.toInt with h | h <;>
      rcases max_choice cub.exp.toInt arg2.exp.toInt with h' | h' <;> omega
  have hdenexp : e - 176 ≤ den.exp.toInt ∧ den.exp.toInt ≤ e + 160 := by
    rcases min_choice d1.exp.toInt arg.exp.toInt with h | h <;>
      rcases max_choice d1.exp.toInt arg.exp.toInt with h' | h' <;> omega
  -- frc = num / den
  obtain ⟨frc, tf, hfrc, f1, f2, -, fs, fe0, fe1, -⟩ := quo_rel num den 0
    (sig_ne_of_val_pos num hnum0) (sig_ne_of_val_pos den hden0)
    ⟨by omega, by omega⟩ ⟨by omega, by omega⟩
  -- res' = res · frc
  obtain ⟨res', t', hmul, m1, m2, mf, me0, me1, mx⟩ := mul_rel res frc t (by omega) (by omega)
  have hstep : cbrtStep arg arg2 (res, t) = .ok (res', t') := by
    show (decomposed192.mul res res 0 >>= fun sq => decomposed192.mul sq.1 res 0 >>= fun cub =>
        decomposed192.add cub.1 arg2 0 >>= fun num => decomposed192.add cub.1 cub.1 0 >>= fun den =>
        decomposed192.add den.1 arg 0 >>= fun den => decomposed192.quo num.1 den.1 0 >>= fun frc =>
        decomposed192.mul res frc.1 t >>= fun x => pure (x.1, x.2)) = _
    rw [hsq]
    show (decomposed192.mul sq res 0 >>= fun cub =>
        decomposed192.add cub.1 arg2 0 >>= fun num => decomposed192.add cub.1 cub.1 0 >>= fun den =>
        decomposed192.add den.1 arg 0 >>= fun den => decomposed192.quo num.1 den.1 0 >>= fun frc =>
        decomposed192.mul res frc.1 t >>= fun x => pure (x.1, x.2)) = _
    rw [hcub]
    show (decomposed192.add cub arg2 0 >>= fun num => decomposed192.add cub cub 0 >>= fun den =>
        decomposed192.add den.1 arg 0 >>= fun den => decomposed192.quo num.1 den.1 0 >>= fun frc =>
        decomposed192.mul res frc.1 t >>= fun x => pure (x.1, x.2)) = _
    rw [hnum]
    show (decomposed192.add cub cub 0 >>= fun den =>
        decomposed192.add den.1 arg 0 >>= fun den => decomposed192.quo num den.1 0 >>= fun frc =>
        decomposed192.mul res frc.1 t >>= fun x => pure (x.1, x.2)) = _
    rw [hd1]
    show (decomposed192.add d1 arg 0 >>= fun den => decomposed192.quo num den.1 0 >>= fun frc =>
        decomposed192.mul res frc.1 t >>= fun x => pure (x.1, x.2)) = _
    rw [hden]
    show (decomposed192.quo num den 0 >>= fun frc =>
        decomposed192.mul res frc.1 t >>= fun x => pure (x.1, x.2)) = _
    rw [hfrc]
    show (decomposed192.mul res frc t >>= fun x => pure (x.1, x.2)) = _
    rw [hmul]; rfl
  have hs'eq : s' = (res', t') := by
    rw [hstep] at hs'; exact (ok_inj hs').symm
  have wa : Win arg := ⟨by omega, by omega⟩
  have wa2 : Win arg2 := ⟨by omega, by omega⟩
  have wr : Win res := ⟨by omega, by omega⟩
  have wsq : Win sq := ⟨by omega, by omega⟩
  have wcub : Win cub := ⟨by omega, by omega⟩
  have wnum : Win num := ⟨by omega, by omega⟩
  have wd1 : Win d1 := ⟨by omega, by omega⟩
  have wden : Win den := ⟨by omega, by omega⟩
  have wfrc : Win frc := ⟨by omega, by omega⟩
  have nfrc : frc.sig.toNat ≠ 0 := by omega
  refine ⟨(sq, tq), (cub, tc), (num, tn), (d1, td), (den, te), (frc, tf), (res', t'),
    { e_sq := hsq, e_cub := hcub, e_num := hnum, e_d1 := hd1, e_den := hden, e_frc := hfrc, e_x := hmul,
      e_step := hstep,
      w_arg := wa, w_arg2 := wa2, w_s := wr, w_sq := wsq, w_cub := wcub, w_num := wnum,
      w_d1 := wd1, w_den := wden, w_frc := wfrc,
      n_s := hs0, n_sq := sig_ne_of_val_pos sq hsq0, n_cub := sig_ne_of_val_pos cub hcub0,
      n_num := sig_ne_of_val_pos num hnum0, n_den := sig_ne_of_val_pos den hden0,
      n_frc := nfrc,
      r_cub := fun h => ⟨(cx h).2.1, (cx h).2.2⟩,
      r_d1 := fun h => (dx h).2.2.1,
      r_x := fun h => ⟨(mx h).2.1, (mx h).2.2⟩,
      f_cub := cf,
      w_out := hs'eq ▸ hW' }⟩

end CohortElem
