import D128.Proofs.MulQuoMul
import D128.Proofs.CanonFrexp
import D128.Proofs.NewLdexpSpec
import D128.Gen.Decimal3
set_option autoImplicit false
set_option maxRecDepth 4096
namespace NL
open Gen Spec
local notation "𝔳[" d "]" => Spec.interp (Gen.Decimal.lo d) (Gen.Decimal.hi d)

theorem New_eq (g : Globals) (sig exp : Int64) : Gen.New g sig exp =
    (if sig == 0 then pure (Gen.zero false) else
     if decide (exp < (-6196 : Int64)) then pure (Gen.zero (decide (sig < 0)))
     else if decide (exp > (6150 : Int64)) then pure (Gen.inf (decide (sig < 0)))
     else do
       let r ← Gen.RoundingMode.reduce64 g.DefaultRoundingMode (decide (sig < 0))
          (Go.conv (if decide (sig < 0) then sig * (-1 : Int64) else sig) : UInt64) (Go.conv (exp + (6176 : Int64)) : Int16)
       if decide (r.2 > (12287 : Int16)) = true then pure (Gen.inf (decide (sig < 0)))
       else pure (Gen.compose (decide (sig < 0)) r.1 r.2)) := by
  unfold Gen.New
  by_cases h0 : sig == 0
  · simp [h0]
  · by_cases hn : sig < 0
    · simp [h0, hn]
    · simp [h0, hn]

theorem i64_lt_lit (e k : Int64) : (decide (e < k) = true) ↔ e.toInt < k.toInt := by
  rw [decide_eq_true_iff, Int64.lt_iff_toInt_lt]
theorem i64_gt_lit (e k : Int64) : (decide (e > k) = true) ↔ k.toInt < e.toInt := by
  rw [decide_eq_true_iff, gt_iff_lt, Int64.lt_iff_toInt_lt]

/-- magnitude of the significand as converted by `New` -/
theorem new_sig_toNat (sig : Int64) :
    (Go.conv (if decide (sig < 0) then sig * (-1 : Int64) else sig) : UInt64).toNat = sig.toInt.natAbs := by
  by_cases hn : sig < 0
  · have : sig.toInt < 0 := by rwa [Int64.lt_iff_toInt_lt] at hn
    simp only [hn, decide_true, if_true]
    exact IntConvPf.neg_conv_toNat sig this
  · have : ¬ sig.toInt < 0 := by rwa [Int64.lt_iff_toInt_lt] at hn
    simp only [hn, decide_false, Bool.false_eq_true, if_false]
    exact IntConvPf.pos_conv_toNat sig (by omega)

theorem new_exp_toInt (exp : Int64) (h0 : -6196 ≤ exp.toInt) (h1 : exp.toInt ≤ 6150) :
    (Go.conv (exp + (6176 : Int64)) : Int16).toInt = exp.toInt + 6176 := by
  have e1 : (6176 : Int64).toInt = 6176 := by decide
  have a : (exp + (6176 : Int64)).toInt = exp.toInt + 6176 := by
    rw [Int64.toInt_add, e1]
    exact FrexpPf.i64_bmod _ (by simp only [Int.reducePow]; omega) (by simp only [Int.reducePow]; omega)
  rw [FrexpPf.i64_conv_i16, a] <;> rw [a] <;> simp only [Int.reducePow] <;> omega

end NL
