/-
  D128/Proofs/CohortElemExp10.lean — property C19 for `Exp10`, general finite path: two encodings of one finite
  non-zero value give BIT-IDENTICAL results, for every `Globals` (every default rounding mode).

  Structure of the argument (Go: /repo/exp.go `Exp10`), as for `Exp2` (D128/Proofs/CohortElemExp2.lean):
  * the magnitude guard `int(dExp) > 4 - l10` reads `⌊log10 |x|⌋ = l10 + dExp` only (`cohort_log`);
  * the split hands over `n = ⌊|x|⌋` (identical; both calls leave at once with the same result when `n > 6211`)
    and a fraction of identical VALUE (`exp10Split_congr`);
  * the tail (`exp10Tail`) reads the fraction only through `fracPow ln10 f fe` (`mul`, `log10`, `epow`), which depends
    on its value only (`fracPow_congr`), and otherwise `n`, the sign bit and the rounding mode.

  Provided (namespace `CohortElem`):
  * `exp10Tail_frac`, `exp10Tail_congr` : the last stage on two encodings
  * **`Exp10_congr`** : `d` finite non-zero, `(𝔳[d]).same 𝔳[d'] = true` ⇒ `Gen.Exp10 g d = Gen.Exp10 g d'`
  * `Exp10_c19`       : the C19 form `∃ r r', Gen.Exp10 g d = .ok r ∧ Gen.Exp10 g d' = .ok r' ∧ (𝔳[r]).same 𝔳[r'] = true`
-/
import D128.Proofs.CohortElemSplit
set_option autoImplicit false
set_option maxRecDepth 4096
set_option exponentiation.threshold 512
set_option linter.unusedVariables false

namespace CohortElem
open Gen D192 ExpAcc D128.Proofs.WordsWide D128.Proofs.Total
local notation "𝔳[" d "]" => Spec.interp (Gen.Decimal.lo d) (Gen.Decimal.hi d)

/-- the tail of `Exp10` with the fractional-power stage named -/
theorem exp10Tail_frac (g : Globals) (d : Decimal) (f : U128) (fe : Int16) (n : UInt64) :
    exp10Tail g d f fe n =
      (if f.toNat ≠ 0 then
        fracPow ln10 f fe >>= fun z =>
          if (decide (z.1.exp > (6169 : Int16))) then outM (Decimal.Signbit d)
          else
            if (expIntOf n != (0 : Int16)) then
              exp10Fin g (Decimal.Signbit d) { z.1 with exp := z.1.exp + expIntOf n } z.2
            else exp10Fin g (Decimal.Signbit d) z.1 z.2
      else
        exp10Fin g (Decimal.Signbit d) ({ (default : decomposed192) with sig := (U192.mk (1 : UInt64) (0 : UInt64) (0 : UInt64)), exp := expIntOf n } : decomposed192) (0 : Int8)) := by
  rw [exp10Tail_clean, RK.U128_or_ne_zero]
  by_cases hf : f.toNat ≠ 0
  · rw [if_pos (decide_eq_true hf), if_pos hf]
    simp only [fracPow, bind_assoc]
  · rw [if_neg (by simpa using hf), if_neg hf]

/-- the tail of `Exp10` on two fractions of one value -/
theorem exp10Tail_congr (g : Globals) (d d' : Decimal) (hsb : Decimal.Signbit d' = Decimal.Signbit d)
    (f f' : U128) (fe fe' : Int16) (n : UInt64)
    (hv : (f.toNat : ℚ) * (10 : ℚ) ^ fe.toInt = (f'.toNat : ℚ) * (10 : ℚ) ^ fe'.toInt)
    (h0 : -6176 ≤ fe.toInt) (h1 : fe.toInt ≤ 0) (h0' : -6176 ≤ fe'.toInt) (h1' : fe'.toInt ≤ 0) :
    exp10Tail g d f fe n = exp10Tail g d' f' fe' n := by
  rw [exp10Tail_frac, exp10Tail_frac, hsb]
  by_cases hf : f.toNat ≠ 0
  · have hf' : f'.toNat ≠ 0 := fun h => hf ((frac_zero_iff hv).2 h)
    rw [if_pos hf, if_pos hf', fracPow_congr ln10 ln10_gap f f' fe fe' hv hf h0 h1 h0' h1']
  · have hf' : ¬ f'.toNat ≠ 0 := fun h => hf (fun h2 => h ((frac_zero_iff hv).1 h2))
    rw [if_neg hf, if_neg hf']

/-- **`Exp10` does not see the encoding of a finite non-zero argument**: bit-identical results for the two
members of a cohort, for every default rounding mode. -/
theorem Exp10_congr (g : Globals) (d d' : Decimal) (h : (𝔳[d]).same 𝔳[d'] = true)
    (h1 : Decimal.isSpecial d = false) (h2 : Decimal.IsZero d = false) :
    Gen.Exp10 g d = Gen.Exp10 g d' := by
  obtain ⟨h1', hsb, hz, hv⟩ := fin_args d d' h h1
  have h2' : Decimal.IsZero d' = false := by rw [hz]; exact h2
  obtain ⟨hc0, hcC, he0, he1⟩ := fin_facts d h1 h2
  obtain ⟨hc0', hcC', he0', he1'⟩ := fin_facts d' h1' h2'
  rw [Exp10_fin g d h1 h2, Exp10_fin g d' h1' h2', hsb]
  -- the magnitude guard
  have hlog := cohort_log hv (by omega) (by omega)
  have hguard : ((d.decompose.2.toInt - 6176) > 4 - (Nat.log 10 d.decompose.1.toNat : Int))
      ↔ ((d'.decompose.2.toInt - 6176) > 4 - (Nat.log 10 d'.decompose.1.toNat : Int)) := by
    constructor <;> intro hh <;> omega
  by_cases hg : (d.decompose.2.toInt - 6176) > 4 - (Nat.log 10 d.decompose.1.toNat : Int)
  · rw [if_pos hg, if_pos (hguard.1 hg)]
  · rw [if_neg hg, if_neg (fun hh => hg (hguard.2 hh))]
    have hk := Nat.log10_lt_39_of_lt d.decompose.1.toNat d.decompose.1.toNat_lt
    have hk' := Nat.log10_lt_39_of_lt d'.decompose.1.toNat d'.decompose.1.toNat_lt
    have hl : (Int64.ofNat (Nat.log 10 d.decompose.1.toNat)).toInt = Nat.log 10 d.decompose.1.toNat :=
      Int64.toInt_ofNat_small _ (by omega)
    have hl' : (Int64.ofNat (Nat.log 10 d'.decompose.1.toNat)).toInt = Nat.log 10 d'.decompose.1.toNat :=
      Int64.toInt_ofNat_small _ (by omega)
    have hde : (d.decompose.2 - 6176).toInt = d.decompose.2.toInt - 6176 := argOf_exp d h1
    have hde' : (d'.decompose.2 - 6176).toInt = d'.decompose.2.toInt - 6176 := argOf_exp d' h1'
    rcases exp10Split_congr d d' hsb d.decompose.1 d'.decompose.1 (d.decompose.2 - 6176)
        (d'.decompose.2 - 6176)
        (Int64.ofNat (Nat.log 10 d.decompose.1.toNat)) (Int64.ofNat (Nat.log 10 d'.decompose.1.toNat))
        (fun f fe n => exp10Tail g d f fe n) (fun f fe n => exp10Tail g d' f fe n)
        hc0 hcC (by rw [hde]; omega) (by rw [hde]; omega) hl (by rw [hde, hl]; omega)
        hc0' hcC' (by rw [hde']; omega) (by rw [hde']; omega) hl' (by rw [hde', hl']; omega)
        (by rw [hde, hde']; exact hv) with hout | ⟨f, f', fe, fe', n, hs, hs', hfv, a0, a1, b0, b1⟩
    · exact hout
    · rw [hs, hs']
      exact exp10Tail_congr g d d' hsb f f' fe fe' n hfv a0 a1 b0 b1

/-- the hypotheses are satisfiable: `-123.45` as `12345e-2` and as `1234500000e-7` (split runs), and `0.0625` as
`625e-4` and `62500e-6` (pure fraction: the encodings reach `mul`) -/
example (g : Globals) :
    Gen.Exp10 g (compose true ⟨12345, 0⟩ 6174) = Gen.Exp10 g (compose true ⟨1234500000, 0⟩ 6169) :=
  Exp10_congr g _ _ (by decide +kernel) (by decide +kernel) (by decide +kernel)
example (g : Globals) : Gen.Exp10 g (compose false ⟨625, 0⟩ 6172) = Gen.Exp10 g (compose false ⟨62500, 0⟩ 6170) :=
  Exp10_congr g _ _ (by decide +kernel) (by decide +kernel) (by decide +kernel)

/-- C19 form: no panic, and the two results denote the same value -/
theorem Exp10_c19 (g : Globals) (d d' : Decimal) (h : (𝔳[d]).same 𝔳[d'] = true)
    (h1 : Decimal.isSpecial d = false) (h2 : Decimal.IsZero d = false) :
    ∃ r r', Gen.Exp10 g d = .ok r ∧ Gen.Exp10 g d' = .ok r' ∧ (𝔳[r]).same 𝔳[r'] = true := by
  obtain ⟨r, hr⟩ := Exp10_total g d
  exact ⟨r, r, hr, by rw [← Exp10_congr g d d' h h1 h2]; exact hr, Cohort.same_refl _⟩

end CohortElem
