/-
  D128/Proofs/FloatFromBigPath.lean — the branch `shift < 0` of `FromFloat64` (|f| = mant·2^S, S ≥ 1).

  Provided (namespace `FF`):
  * `Close a V`     : `0 < a ≤ V ≤ a·(1 + 2^-236)`
  * `bigPath_spec`  : no panic; the result denotes `flushOrRoundS m neg a 0` for some `a` with `Close a V`,
      and `a = V` unless `S ≥ 204` (the loop beyond 192 bits ran)
-/
import D128.Proofs.FloatFromFinish

set_option autoImplicit false
set_option maxRecDepth 8192

namespace FF
open Gen
local notation "𝔳[" d "]" => Spec.interp (Gen.Decimal.lo d) (Gen.Decimal.hi d)

/-- `a` approximates `V` from below with relative error at most `2^-236` -/
def Close (a V : ℚ) : Prop := 0 < a ∧ a ≤ V ∧ V * 2 ^ 236 ≤ a * (2 ^ 236 + 1)

theorem close_refl {V : ℚ} (h : 0 < V) : Close V V := ⟨h, le_refl _, by nlinarith⟩

/-- from the loop post-condition to `Close` -/
theorem close_of_approx (X a V P : ℚ) (sig k : Nat) (hP : 0 < P) (hV : V = X * P) (hsig : 0 < sig)
    (hk : k ≤ 16384) (h1 : (sig : ℚ) ≤ a) (h2 : a ≤ X) (h3 : X * 2 ^ 250 ≤ (sig : ℚ) * (2 ^ 250 + k)) :
    Close (a * P) V := by
  have hs : (0 : ℚ) < sig := by exact_mod_cast hsig
  have hk' : (k : ℚ) ≤ 16384 := by exact_mod_cast hk
  have ha : 0 < a := by linarith
  refine ⟨by positivity, by rw [hV]; exact mul_le_mul_of_nonneg_right h2 hP.le, ?_⟩
  rw [hV]
  have h4 : X * 2 ^ 236 ≤ a * (2 ^ 236 + 1) := by
    have : (sig : ℚ) * (2 ^ 250 + k) ≤ a * (2 ^ 250 + 16384) := by
      apply mul_le_mul h1 (by linarith) (by positivity) ha.le
    have e : (2 : ℚ) ^ 250 = 2 ^ 236 * 2 ^ 14 := by norm_num
    have : X * 2 ^ 250 ≤ a * (2 ^ 250 + 16384) := by linarith
    rw [e] at this
    have h14 : a * (2 ^ 236 * 2 ^ 14 + 16384) ≤ a * (2 ^ 236 + 1) * 2 ^ 14 := by
      have : a * (2 ^ 236 + 1) * 2 ^ 14 = a * (2 ^ 236 * 2 ^ 14 + 2 ^ 14) := by ring
      rw [this]
      apply mul_le_mul_of_nonneg_left _ ha.le
      norm_num
    have h5 : X * 2 ^ 236 * 2 ^ 14 ≤ a * (2 ^ 236 + 1) * 2 ^ 14 := by linarith
    exact le_of_mul_le_mul_right h5 (by norm_num)
  calc X * P * 2 ^ 236 = (X * 2 ^ 236) * P := by ring
    _ ≤ a * (2 ^ 236 + 1) * P := mul_le_mul_of_nonneg_right h4 hP.le
    _ = a * P * (2 ^ 236 + 1) := by ring

theorem shlS_eq (x : UInt64) (z : Int64) (hz : 0 ≤ z.toInt) :
    Go.shlS x (Go.idx z) = .ok (Go.shl x z.toInt) := by
  unfold Go.shlS Go.idx
  rw [if_neg (by show ¬ z.toInt < 0; omega)]
  rfl

theorem shrS_eq (x : UInt64) (z : Int64) (hz : 0 ≤ z.toInt) :
    Go.shrS x (Go.idx z) = .ok (Go.shr x z.toInt) := by
  unfold Go.shrS Go.idx
  rw [if_neg (by show ¬ z.toInt < 0; omega)]
  rfl

/-- `bigK` with `zeros = min (leading zeros of mant) S` -/
theorem bigK_spec (rm : UInt8) (m : Spec.Mode) (hm : Spec.Mode.ofNat? rm.toNat = some m)
    (neg : Bool) (mant : UInt64) (shift zeros : Int64) (S Z : Nat)
    (hS : shift.toInt = S) (hZ : zeros.toInt = Z) (hS1 : 1 ≤ S) (hS2 : S ≤ 1100)
    (hm1 : 2 ^ 52 ≤ mant.toNat) (hm2 : mant.toNat < 2 ^ 53) (hZS : Z = min 11 S) :
    ∃ r a, bigK rm neg mant shift zeros = .ok r ∧
      (𝔳[r]).same (Spec.flushOrRoundS m neg a 0) = true ∧
      Close a ((mant.toNat : ℚ) * 2 ^ S) ∧ (a = (mant.toNat : ℚ) * 2 ^ S ∨ 204 ≤ S) := by
  have hZle : Z ≤ 11 := by omega
  have hZS' : Z ≤ S := by omega
  have hmpos : (0 : ℚ) < mant.toNat := by
    have : 0 < mant.toNat := by omega
    exact_mod_cast this
  have hVpos : (0 : ℚ) < (mant.toNat : ℚ) * 2 ^ S := by positivity
  unfold bigK
  rw [shlS_eq _ _ (by omega), D128.Proofs.WordsWide.ok_bind]
  have ht : (Go.shl mant zeros.toInt).toNat = mant.toNat * 2 ^ Z := by
    rw [Go.shl_toNat, hZ, Int.toNat_natCast, Nat.mod_eq_of_lt]
    calc mant.toNat * 2 ^ Z < 2 ^ 53 * 2 ^ 11 :=
          Nat.mul_lt_mul_of_lt_of_le hm2 (Nat.pow_le_pow_right (by norm_num) hZle) (by positivity)
      _ = 2 ^ 64 := by norm_num
  have hsub : (shift - zeros).toInt = ((S - Z : Nat) : Int) := by
    rw [i64_sub] <;> rw [hS, hZ] <;> omega
  generalize Go.shl mant zeros.toInt = t at ht
  have ht64 := t.toNat_lt
  by_cases hle : S - Z ≤ 192
  · -- at most 192 further bits: exact
    have hc : decide (shift - zeros ≤ 192) = true := by
      rw [i64_le, hsub]
      have : (192 : Int64).toInt = 192 := by decide
      rw [this]; simp; omega
    rw [if_pos hc]
    have hconv : (Go.conv (shift - zeros) : UInt64).toNat = S - Z := by
      rw [i64_conv_u64 _ (by rw [hsub]; omega), hsub]; simp
    have hsig : (U256.lsh { w0 := t, w1 := 0, w2 := 0, w3 := 0 } (Go.conv (shift - zeros))).toNat
        = mant.toNat * 2 ^ S := by
      rw [D128.Proofs.WordsWide.U256_lsh_toNat, hconv, U256.mk0_toNat, Nat.mod_eq_of_lt]
      · rw [ht, Nat.mul_assoc, ← Nat.pow_add]; congr 2; omega
      · calc t.toNat * 2 ^ (S - Z) < 2 ^ 64 * 2 ^ 192 :=
              Nat.mul_lt_mul_of_lt_of_le ht64 (Nat.pow_le_pow_right (by norm_num) hle) (by positivity)
          _ = 2 ^ 256 := by norm_num
    have hsigpos : 0 < mant.toNat * 2 ^ S := Nat.mul_pos (by omega) (by positivity)
    obtain ⟨r, a, hr, hsame, ha1, ha2, ha3⟩ := finishK_spec rm m hm neg _ 6176 0
      ((mant.toNat : ℚ) * 2 ^ S) 0 (by decide) (by decide)
      (by rw [hsig]; refine ⟨by push_cast; exact le_refl _, by push_cast; simp, Or.inl ⟨rfl, by push_cast; rfl⟩⟩)
      (fun h => absurd h (by decide)) (by rw [hsig]; exact hsigpos)
    have ha : a = (mant.toNat : ℚ) * 2 ^ S := ha3 rfl
    refine ⟨r, a, hr, ?_, by rw [ha]; exact close_refl hVpos, Or.inl ha⟩
    have : (6176 : Int16).toInt - 6176 = 0 := by decide
    rw [this, zpow_zero, mul_one] at hsame
    exact hsame
  · -- the loop
    have hZ11 : Z = 11 := by omega
    subst hZ11
    have hc : decide (shift - zeros ≤ 192) = false := by
      rw [i64_le, hsub]
      have : (192 : Int64).toInt = 192 := by decide
      rw [this]; simp; omega
    rw [hc]
    simp only [Bool.false_eq_true, if_false]
    have hsub2 : (shift - zeros - 192).toInt = ((S - 11 - 192 : Nat) : Int) := by
      have : (192 : Int64).toInt = 192 := by decide
      rw [i64_sub] <;> rw [hsub, this] <;> omega
    have hsig0 : (U256.lsh { w0 := t, w1 := 0, w2 := 0, w3 := 0 } 192).toNat = mant.toNat * 2 ^ 203 := by
      have : (192 : UInt64).toNat = 192 := by decide
      rw [D128.Proofs.WordsWide.U256_lsh_toNat, this, U256.mk0_toNat, Nat.mod_eq_of_lt]
      · rw [ht, Nat.mul_assoc, ← Nat.pow_add]
      · have : (2 : Nat) ^ 256 = 2 ^ 64 * 2 ^ 192 := by rw [← Nat.pow_add]
        rw [this]
        exact Nat.mul_lt_mul_of_pos_right ht64 (Nat.pow_pos (by norm_num))
    have hinv : BigInv ((mant.toNat : ℚ) * 2 ^ S) S
        ((6176 : Int16), shift - zeros - 192, U256.lsh { w0 := t, w1 := 0, w2 := 0, w3 := 0 } 192,
          (0 : Int8), zeros) := by
      refine ⟨0, S - 11 - 192, rfl, hsub2, by omega, ?_, ?_⟩
      · show 2 ^ 255 ≤ (U256.lsh _ 192).toNat
        rw [hsig0]
        calc 2 ^ 255 = 2 ^ 52 * 2 ^ 203 := by norm_num
          _ ≤ mant.toNat * 2 ^ 203 := Nat.mul_le_mul_right _ hm1
      · show Approx _ (U256.lsh _ 192).toNat 0 (0 : Int8).toInt
        rw [hsig0]
        have hX : (mant.toNat : ℚ) * 2 ^ S / (10 ^ 0 * 2 ^ (S - 11 - 192))
            = ((mant.toNat * 2 ^ 203 : Nat) : ℚ) := by
          have : (2 : ℚ) ^ S = 2 ^ 203 * 2 ^ (S - 11 - 192) := by rw [← pow_add]; congr 1; omega
          rw [this, pow_zero, one_mul, ← mul_assoc, mul_div_cancel_right₀ _ (by positivity)]
          push_cast; rfl
        rw [hX]
        exact ⟨le_refl _, by push_cast; simp, Or.inl ⟨rfl, rfl⟩⟩
    obtain ⟨st, hloop, k, hek, hkS, hbig, happ⟩ := bigLoop_spec _ S (by omega) _ hinv
    rw [hloop, D128.Proofs.WordsWide.ok_bind]
    obtain ⟨r, a, hr, hsame, ha1, ha2, ha3⟩ := finishK_spec rm m hm neg st.2.2.1 st.1 st.2.2.2.1
      _ k (by omega) (by omega) happ
      (fun _ => by rw [RK.Cmax_val]; omega) (by omega)
    have hek' : st.1.toInt - 6176 = (k : Int) := by omega
    rw [hek', zpow_natCast] at hsame
    refine ⟨r, a * 10 ^ k, hr, hsame, ?_, Or.inr (by omega)⟩
    exact close_of_approx _ a _ (10 ^ k) st.2.2.1.toNat k (by positivity)
      (by field_simp) (by omega) (by omega) ha1 ha2 happ.2.1

/-- the branch `shift < 0` (|f| = mant·2^S with S ≥ 1) -/
theorem bigPath_spec (rm : UInt8) (m : Spec.Mode) (hm : Spec.Mode.ofNat? rm.toNat = some m)
    (neg : Bool) (mant : UInt64) (shift : Int64) (S : Nat)
    (hS : shift.toInt = S) (hS1 : 1 ≤ S) (hS2 : S ≤ 1100)
    (hm1 : 2 ^ 52 ≤ mant.toNat) (hm2 : mant.toNat < 2 ^ 53) :
    ∃ r a, bigPath rm neg mant shift = .ok r ∧
      (𝔳[r]).same (Spec.flushOrRoundS m neg a 0) = true ∧
      Close a ((mant.toNat : ℚ) * 2 ^ S) ∧ (a = (mant.toNat : ℚ) * 2 ^ S ∨ 204 ≤ S) := by
  obtain ⟨z, hz, hz64, hzlt, hznz, _⟩ := lz_spec mant
  obtain ⟨hz63, hzlo⟩ := hznz (by omega)
  have hz11 : z = 11 := by
    have h1 : 2 ^ (63 - z) < 2 ^ 53 := lt_of_le_of_lt hzlo hm2
    have h2 : 2 ^ 52 < 2 ^ (64 - z) := lt_of_le_of_lt hm1 hzlt
    rw [Nat.pow_lt_pow_iff_right (by norm_num)] at h1 h2
    omega
  subst hz11
  unfold bigPath
  by_cases hc : (S : Int) < 11
  · rw [if_pos (by rw [i64_gt, hS, hz]; simpa using hc)]
    exact bigK_spec rm m hm neg mant shift shift S S hS hS hS1 hS2 hm1 hm2 (by omega)
  · rw [if_neg (by rw [i64_gt, hS, hz]; simpa using hc)]
    exact bigK_spec rm m hm neg mant shift _ S 11 hS hz hS1 hS2 hm1 hm2 (by omega)

end FF
