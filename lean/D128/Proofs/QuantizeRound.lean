/-
  D128/Proofs/QuantizeRound.lean — the finite, non-zero path of `Gen.Decimal.Round`
  (Go: /repo/rounding.go, `func (d Decimal) Round`) against `Spec.quantize` (property C08).

  Provided (namespace `Qz`):
  * `Drop c k s d rest`     : the digit-dropping invariant `10·c = s·10^(k+1) + d·10^k + rest`, `rest < 10^k`
                              (`Drop.zero`, `Drop.step`, `Drop.value`)
  * `qD`, `qD_toInt`, `qD35_toInt` : the biased exponent of the quantum computed in `int` (clamp, negate, bias)
  * `rdBody`, `rdFinish`, `rdTail`, `Round_eq` : normal form of the generated function
  * `rd_loop`               : the digit-dropping loop (early `return zero` or a `Drop` state at the quantum)
  * `ModeOK rm m`, `modeOK_of_valid`, `modeOK_invalid` : the mode byte `rm` decides like `m` (the six valid
                              bytes; every other byte like `ToZero`)
  * `round_noshift`         : `Gen.RoundingMode.round` with `shift = false`, sticky ≥ 0 and a significand that
                              cannot carry: the result is `rndQ` of the denoted value at the same exponent
  * `rd_finish`             : rounding and `composeQuantum` after the loop
  * `round_finite`          : finite non-zero `d`, every `dp`, `ModeOK rm m`: no panic and the result
                              denotes `Spec.quantize dp.toInt m 𝔳[d]`
-/
import D128.Proofs.QuantizeCompose

set_option autoImplicit false
set_option maxRecDepth 4096

namespace Qz
open Gen Spec
local notation "𝔳[" d "]" => Spec.interp (Gen.Decimal.lo d) (Gen.Decimal.hi d)

/-! ## the digit-dropping invariant -/

/-- after dropping `k` digits of `c`: kept part `s`, last dropped digit `d`, and `rest` below it -/
structure Drop (c k s d rest : Nat) : Prop where
  eq : 10 * c = s * 10 ^ (k + 1) + d * 10 ^ k + rest
  lt : rest < 10 ^ k
  d9 : d ≤ 9

theorem Drop.zero (c : Nat) : Drop c 0 c 0 0 := ⟨by simp; ring, by simp, by omega⟩

theorem Drop.step {c k s d rest : Nat} (h : Drop c k s d rest) :
    Drop c (k + 1) (s / 10) (s % 10) (d * 10 ^ k + rest) := by
  have hs := Nat.div_add_mod s 10
  refine ⟨?_, ?_, by omega⟩
  · rw [h.eq]
    conv_lhs => rw [← hs]
    ring
  · have h1 : d * 10 ^ k ≤ 9 * 10 ^ k := Nat.mul_le_mul_right _ h.d9
    have h2 := h.lt
    rw [pow_succ]; omega

theorem Drop.value {c k s d rest : Nat} (h : Drop c k s d rest) :
    (c : ℚ) / (10 : ℚ) ^ k = (s : ℚ) + ((d : ℚ) + (rest : ℚ) / (10 : ℚ) ^ k) / 10 := by
  have hp : (0 : ℚ) < (10 : ℚ) ^ k := by positivity
  have e : ((10 * c : Nat) : ℚ) = ((s * 10 ^ (k + 1) + d * 10 ^ k + rest : Nat) : ℚ) := by rw [h.eq]
  push_cast at e
  rw [pow_succ] at e
  field_simp
  linarith

theorem Drop.s_le {c k s d rest : Nat} (h : Drop c k s d rest) (hk : 1 ≤ k) : s * 10 ≤ c := by
  have h1 : 10 ^ 2 ≤ 10 ^ (k + 1) := Nat.pow_le_pow_right (by norm_num) (by omega)
  have h2 : s * 10 ^ 2 ≤ s * 10 ^ (k + 1) := Nat.mul_le_mul_left _ h1
  have := h.eq
  omega

/-! ## the biased exponent of the quantum -/

/-- `dp` clamped at `-6181`, negated and biased, as the generated code computes it in `int` -/
def qD (dp : Int64) : Int64 := (if decide (dp < -6181) = true then (-6181 : Int64) else dp) * -1 + 6176

theorem qD_toInt (dp : Int64) : (qD dp).toInt = 6176 - max dp.toInt (-6181) := by
  have h1 := dp.toInt_lt
  have h2 := dp.le_toInt
  have em1 : (-1 : Int64).toInt = -1 := by decide
  have e61 : (6176 : Int64).toInt = 6176 := by decide
  have e81 : (-6181 : Int64).toInt = -6181 := by decide
  unfold qD
  by_cases hc : dp < -6181
  · have hc' : dp.toInt < -6181 := by rw [Int64.lt_iff_toInt_lt, e81] at hc; exact hc
    simp only [hc, decide_true, if_true]
    rw [max_eq_right (by omega)]
    decide
  · have hc' : -6181 ≤ dp.toInt := by rw [Int64.lt_iff_toInt_lt, e81] at hc; omega
    simp only [hc, decide_false, Bool.false_eq_true, if_false]
    have hm : (dp * -1).toInt = -dp.toInt := by
      rw [i64_mul] <;> rw [em1] <;> omega
    rw [i64_add] <;> rw [hm, e61] <;> omega

theorem qD35_toInt (dp : Int64) : (qD dp - 35).toInt = 6141 - max dp.toInt (-6181) := by
  have h1 := dp.toInt_lt
  have e35 : (35 : Int64).toInt = 35 := by decide
  rw [i64_sub] <;> rw [qD_toInt, e35] <;> omega

/-! ## normal form of `Gen.Decimal.Round` -/

abbrev QSt := Option Decimal × U128 × Int64 × Int8 × UInt64

/-- body of the digit-dropping loop of `Round` -/
def rdBody (z : Decimal) (D : Int64) (_ : Unit) (s : QSt) : Go.GoM (ForInStep QSt) :=
  if decide (s.2.2.1 < D) = true then do
    let x ← U128.div10 s.2.1
    if (x.1.w0 ||| x.1.w1 ||| x.2 == 0) = true then
      pure (ForInStep.done (some z, x.1, s.2.2.1, (if (s.2.2.2.2 != 0) = true then 1 else s.2.2.2.1), x.2))
    else pure (ForInStep.yield (none, x.1, s.2.2.1 + 1, (if (s.2.2.2.2 != 0) = true then 1 else s.2.2.2.1), x.2))
  else pure (ForInStep.done (none, s.2.1, s.2.2.1, s.2.2.2.1, s.2.2.2.2))

/-- what `Round` does with the final loop state -/
def rdFinish (mode : UInt8) (neg : Bool) (s : QSt) : Go.GoM Decimal :=
  match s.1 with
  | some r => pure r
  | none => do
    let x ← RoundingMode.round mode false neg s.2.1 (Go.conv s.2.2.1) s.2.2.2.1 s.2.2.2.2
    composeQuantum neg x.1 (Go.conv x.2)

/-- `Round` after the special/zero tests, as a function of the biased quantum exponent `D` -/
def rdTail (d : Decimal) (mode : UInt8) (sig : U128) (exp : Int16) (D : Int64) : Go.GoM Decimal :=
  if decide ((Go.conv exp : Int64) ≥ D) = true then pure d
  else if decide ((Go.conv exp : Int64) < D - 35) = true then pure (zero d.Signbit)
  else forIn (m := Go.GoM) Lean.Loop.mk ((none, sig, Go.conv exp, 0, 0) : QSt)
      (rdBody (zero d.Signbit) D) >>= rdFinish mode d.Signbit

theorem Round_eq (d : Decimal) (dp : Int64) (mode : UInt8) :
    Decimal.Round d dp mode =
      if d.isSpecial = true then pure d
      else if ((d.decompose.1.w0 ||| d.decompose.1.w1) == 0) = true then pure (zero d.Signbit)
      else rdTail d mode d.decompose.1 d.decompose.2 (qD dp) := by
  unfold Decimal.Round rdTail rdBody rdFinish qD
  zeta_except_jp
  generalize d.decompose = p
  rcases p with ⟨r1, r2⟩
  simp only []
  split
  · rfl
  split
  · rfl
  have key : ∀ D : Int64, (fun (x : Unit) (__s : QSt) =>
              if decide (__s.2.2.1 < D) = true then
                if (__s.2.2.2.2 != 0) = true then do
                  let __x ← U128.div10 __s.2.1
                  if (__x.1.w0 ||| __x.1.w1 ||| __x.2 == 0) = true then
                      pure (ForInStep.done (some (zero d.Signbit), __x.1, __s.2.2.1, 1, __x.2))
                    else pure (ForInStep.yield (none, __x.1, __s.2.2.1 + 1, 1, __x.2))
                else do
                  let __x ← U128.div10 __s.2.1
                  if (__x.1.w0 ||| __x.1.w1 ||| __x.2 == 0) = true then
                      pure (ForInStep.done (some (zero d.Signbit), __x.1, __s.2.2.1, __s.2.2.2.1, __x.2))
                    else pure (ForInStep.yield (none, __x.1, __s.2.2.1 + 1, __s.2.2.2.1, __x.2))
              else pure (ForInStep.done (none, __s.2.1, __s.2.2.1, __s.2.2.2.1, __s.2.2.2.2)) :
                Unit → QSt → Go.GoM (ForInStep QSt))
      = fun x s => if decide (s.2.2.1 < D) = true then do
                let x ← U128.div10 s.2.1
                if (x.1.w0 ||| x.1.w1 ||| x.2 == 0) = true then
                    pure
                      (ForInStep.done
                        (some (zero d.Signbit), x.1, s.2.2.1, if (s.2.2.2.2 != 0) = true then 1 else s.2.2.2.1, x.2))
                  else
                    pure
                      (ForInStep.yield (none, x.1, s.2.2.1 + 1, if (s.2.2.2.2 != 0) = true then 1 else s.2.2.2.1, x.2))
              else pure (ForInStep.done (none, s.2.1, s.2.2.1, s.2.2.2.1, s.2.2.2.2)) := by
    intro D
    funext x s
    split_ifs <;> rfl
  split
  · split
    · rfl
    split
    · rfl
    simp only [key]
    congr 1
    funext s
    rcases s with ⟨_ | r, rest⟩ <;> rfl
  · split
    · rfl
    split
    · rfl
    simp only [key]
    congr 1
    funext s
    rcases s with ⟨_ | r, rest⟩ <;> rfl

/-! ## the digit-dropping loop -/

theorem trunc_upd (dg : UInt64) (tr : Int8) (rest k : Nat) (htr : tr = if rest ≠ 0 then 1 else 0) :
    (if (dg != 0) = true then (1 : Int8) else tr) = if dg.toNat * 10 ^ k + rest ≠ 0 then 1 else 0 := by
  have hp : 0 < 10 ^ k := by positivity
  rw [RK.u64_ne_zero_iff]
  by_cases h0 : dg.toNat = 0
  · simp only [h0, ne_eq, not_true_eq_false, decide_false, Bool.false_eq_true, if_false, Nat.zero_mul,
      Nat.zero_add]
    exact htr
  · have : dg.toNat * 10 ^ k + rest ≠ 0 := by
      have : 0 < dg.toNat * 10 ^ k := Nat.mul_pos (by omega) hp
      omega
    simp only [ne_eq, h0, not_false_eq_true, decide_true, if_true, this]

theorem rd_loop (z : Decimal) (D : Int64) (sig : U128) (exp : Int16) (K : Nat)
    (hK : D.toInt = exp.toInt + K) (hc1 : 1 ≤ sig.toNat) :
    ∃ s', forIn (m := Go.GoM) Lean.Loop.mk ((none, sig, Go.conv exp, 0, 0) : QSt) (rdBody z D) = .ok s' ∧
      ((s'.1 = some z ∧ 10 * sig.toNat < 10 ^ K) ∨
       (s'.1 = none ∧ s'.2.2.1.toInt = D.toInt ∧ 10 ^ K ≤ 10 * sig.toNat ∧
         ∃ rest, Drop sig.toNat K s'.2.1.toNat s'.2.2.2.2.toNat rest ∧
           s'.2.2.2.1 = if rest ≠ 0 then 1 else 0)) := by
  have hDlt := D.toInt_lt
  apply RK.loop_inv (rdBody z D)
    (fun s : QSt => s.1 = none ∧ ∃ k rest, k ≤ K ∧ s.2.2.1.toInt = exp.toInt + k ∧
      10 ^ k ≤ 10 * sig.toNat ∧ Drop sig.toNat k s.2.1.toNat s.2.2.2.2.toNat rest ∧
      s.2.2.2.1 = if rest ≠ 0 then 1 else 0)
    _ (fun s : QSt => (D.toInt - s.2.2.1.toInt).toNat)
  · rintro ⟨o, sg, ie, tr, dg⟩ ⟨ho, k, rest, hk, hie, hnz, hdrop, htr⟩
    dsimp only at ho hie hdrop htr
    subst ho
    by_cases hc : decide (ie < D) = true
    · have hlt : ie.toInt < D.toInt := by
        simpa only [decide_eq_true_eq, Int64.lt_iff_toInt_lt] using hc
      obtain ⟨q, r, e, hq, hr⟩ := U128_div10_spec sg
      have hstep := hdrop.step
      rw [← hq, ← hr] at hstep
      have htr' := trunc_upd dg tr rest k htr
      have hk1 : k + 1 ≤ K := by omega
      by_cases hf : (q.w0 ||| q.w1 ||| r == 0) = true
      · right
        refine ⟨(some z, q, ie, (if (dg != 0) = true then 1 else tr), r), ?_, Or.inl ⟨rfl, ?_⟩⟩
        · simp only [rdBody, hc, if_true, e, RK.ok_bind, hf]; rfl
        · rw [RK.or3_eq_zero, decide_eq_true_eq] at hf
          have h1 := hstep.eq
          have h2 := hstep.lt
          rw [hf.1, hf.2] at h1
          have h3 : 10 ^ (k + 1) ≤ 10 ^ K := Nat.pow_le_pow_right (by norm_num) hk1
          omega
      · left
        have hie' : (ie + 1).toInt = ie.toInt + 1 := by
          have := ie.le_toInt
          rw [i64_add] <;> simp <;> omega
        refine ⟨(none, q, ie + 1, (if (dg != 0) = true then 1 else tr), r), ?_,
          ⟨rfl, k + 1, dg.toNat * 10 ^ k + rest, hk1, ?_, ?_, hstep, htr'⟩, ?_⟩
        · simp only [rdBody, hc, if_true, e, RK.ok_bind, hf]; rfl
        · show (ie + 1).toInt = _
          rw [hie', hie]; push_cast; ring
        · rw [RK.or3_eq_zero, decide_eq_true_eq] at hf
          have h1 := hstep.eq
          have hp : 0 < 10 ^ (k + 1) := by positivity
          have hpp : 10 ^ (k + 1 + 1) = 10 * 10 ^ (k + 1) := by rw [pow_succ]; ring
          by_cases hq0 : q.toNat = 0
          · have hr0 : 1 ≤ r.toNat := by
              by_contra hcon
              exact hf ⟨hq0, by omega⟩
            have : 10 ^ (k + 1) ≤ r.toNat * 10 ^ (k + 1) := Nat.le_mul_of_pos_left _ hr0
            omega
          · have : 10 ^ (k + 1 + 1) ≤ q.toNat * 10 ^ (k + 1 + 1) :=
              Nat.le_mul_of_pos_left _ (by omega)
            omega
        · show (D.toInt - (ie + 1).toInt).toNat < (D.toInt - ie.toInt).toNat
          rw [hie']; omega
    · right
      have hge : D.toInt ≤ ie.toInt := by
        simpa only [decide_eq_true_eq, Int64.lt_iff_toInt_lt, not_lt] using hc
      have hkK : k = K := by omega
      subst hkK
      refine ⟨(none, sg, ie, tr, dg), ?_, Or.inr ⟨rfl, by show ie.toInt = D.toInt; omega, hnz, rest, hdrop, htr⟩⟩
      simp only [rdBody, hc]; rfl
  · refine ⟨rfl, 0, 0, by omega, ?_, by simp; omega, Drop.zero _, rfl⟩
    show (Go.conv exp : Int64).toInt = _
    rw [i16_conv_i64]; simp

/-! ## rounding without pre-scaling -/

/-- the mode byte `rm` takes the rounding decisions of `m` on states with a non-negative sticky flag -/
def ModeOK (rm : UInt8) (m : Mode) : Prop :=
  ∀ (neg : Bool) (w0 : UInt64) (trunc : Int8) (digit : UInt64) (v : Int64), (trunc = 0 ∨ trunc = 1) →
    RK.adjZ m neg (w0.toNat % 2 == 1) trunc.toInt digit.toNat = v.toInt →
    RK.adjW rm neg w0 trunc digit = v

/-- the six valid mode bytes -/
theorem modeOK_of_valid (rm : UInt8) (m : Mode) (hm : Spec.Mode.ofNat? rm.toNat = some m) :
    ModeOK rm m := fun neg w0 trunc digit v ht h =>
  RK.adjW_eq_of rm m neg w0 trunc digit hm (by rcases ht with h | h <;> simp [h]) v h

/-- every other mode byte never adjusts: it truncates like `ToZero` (the `switch` of the Go code has no
    `default` case) -/
theorem modeOK_invalid (rm : UInt8) (h : 6 ≤ rm.toNat) : ModeOK rm .toZero := by
  intro neg w0 trunc digit v ht hv
  have hz : RK.adjZ .toZero neg (w0.toNat % 2 == 1) trunc.toInt digit.toNat = 0 := by
    unfold RK.adjZ
    rcases ht with rfl | rfl <;> simp
  have hv0 : v = 0 := by
    apply Int64.toInt_inj.1
    rw [← hv, hz]; rfl
  have hne : ∀ k : UInt8, k.toNat < 6 → (rm == k) = false := by
    intro k hk
    rw [beq_eq_false_iff_ne]
    intro e
    rw [e] at h
    omega
  rw [hv0]
  simp only [RK.adjW, hne 0 (by decide), hne 1 (by decide), hne 2 (by decide), hne 3 (by decide),
    hne 4 (by decide), hne 5 (by decide), Bool.false_eq_true, if_false]

/-- `Gen.RoundingMode.round` with `shift = false` on a state with non-negative sticky whose significand
    cannot carry: the exponent is kept and the significand becomes `rndQ` of the denoted value -/
theorem round_noshift (rm : UInt8) (m : Mode) (neg : Bool) (sig : U128) (exp : Int16) (trunc : Int8)
    (digit : UInt64) (τ : ℚ) (hm : ModeOK rm m)
    (hs : sig.toNat + 1 ≤ Spec.Cmax) (he0 : 0 ≤ exp.toInt) (hd : digit.toNat ≤ 9)
    (ht : RK.TruncRel trunc.toInt τ) (hτ : 0 ≤ τ)
    (hq : 0 < (sig.toNat : ℚ) + ((digit.toNat : ℚ) + τ) / 10) :
    ∃ sig', RoundingMode.round rm false neg sig exp trunc digit = .ok (sig', exp) ∧
      sig'.toNat = RK.rndQ m neg ((sig.toNat : ℚ) + ((digit.toNat : ℚ) + τ) / 10) ∧
      sig'.toNat ≤ Spec.Cmax := by
  have hCm := RK.Cmax_val
  have htc : trunc = 0 ∨ trunc = 1 := by
    rcases RK.trunc_cases trunc τ ht with h | h | h
    · exfalso
      subst h
      rcases ht with ⟨h, _⟩ | ⟨h, _⟩ | ⟨_, _, h⟩
      · exact absurd h (by decide)
      · exact absurd h (by decide)
      · linarith
    · exact Or.inl h
    · exact Or.inr h
  have hc := RK.rndQ_kernel m neg sig.toNat digit.toNat trunc.toInt τ hd ht hq
  rw [← RK.parity_w0] at hc
  rcases RK.adjZ_range m neg (sig.w0.toNat % 2 == 1) trunc.toInt digit.toNat with ha | ha | ha
  · rw [ha, add_zero] at hc
    refine ⟨sig, RK.round_adj0 _ _ _ _ _ _ _
      (hm neg _ _ _ 0 htc (by rw [ha]; rfl)), ?_, by omega⟩
    exact_mod_cast hc.symm
  · rw [ha] at hc
    have hW := hm neg sig.w0 trunc digit 1 htc (by rw [ha]; rfl)
    have hadd : (U128.add64 sig 1).toNat = sig.toNat + 1 := by
      rw [U128_add64_toNat_of_lt]
      · simp
      · simp; omega
    refine ⟨_, RK.round_up rm false neg sig exp trunc digit hW he0 (fun h => absurd h (by decide))
      (by omega), ?_, by omega⟩
    rw [hadd]
    exact_mod_cast hc.symm
  · exfalso
    obtain ⟨ht1, _⟩ := RK.adjZ_neg_one _ _ _ _ _ ha
    rcases ht with ⟨h, _⟩ | ⟨h, _⟩ | ⟨_, _, h⟩
    · omega
    · omega
    · linarith

/-! ## after the loop -/

theorem rd_finish (mode : UInt8) (m : Mode) (neg : Bool) (sg : U128) (ie : Int64) (tr : Int8) (dg : UInt64)
    (c K rest : Nat) (hm : ModeOK mode m)
    (hdrop : Drop c K sg.toNat dg.toNat rest) (htr : tr = if rest ≠ 0 then 1 else 0)
    (hc : c ≤ Spec.Cmax) (hK1 : 1 ≤ K) (hnz : 10 ^ K ≤ 10 * c)
    (hie0 : 0 ≤ ie.toInt) (hie1 : ie.toInt < 2 ^ 15) :
    ∃ r, rdFinish mode neg (none, sg, ie, tr, dg) = .ok r ∧
      (𝔳[r]).same (Spec.exactOrInfS neg ((RK.rndQ m neg ((c : ℚ) / (10 : ℚ) ^ K) : Nat) : ℚ)
        (ie.toInt - 6176)) = true := by
  have hCm := RK.Cmax_val
  have hp : (0 : ℚ) < (10 : ℚ) ^ K := by positivity
  have hpn : 0 < 10 ^ K := by positivity
  have hsle := hdrop.s_le hK1
  have hconv : (Go.conv ie : Int16).toInt = ie.toInt := i64_conv_i16 ie (by omega) hie1
  set τ : ℚ := (rest : ℚ) / (10 : ℚ) ^ K with hτ
  have hτ0 : 0 ≤ τ := by positivity
  have hτ1 : τ < 1 := by
    rw [hτ, div_lt_one hp]
    have : ((rest : Nat) : ℚ) < ((10 ^ K : Nat) : ℚ) := by exact_mod_cast hdrop.lt
    push_cast at this; exact this
  have hval := hdrop.value
  have htrel : RK.TruncRel tr.toInt τ := by
    by_cases hr : rest = 0
    · left
      subst hr
      simp only [ne_eq, not_true_eq_false, if_false] at htr
      subst htr
      exact ⟨by decide, by rw [hτ]; simp⟩
    · right; left
      simp only [ne_eq, hr, not_false_eq_true, if_true] at htr
      subst htr
      refine ⟨by decide, ?_, hτ1⟩
      have : (0 : ℚ) < (rest : ℚ) := by exact_mod_cast Nat.pos_of_ne_zero hr
      positivity
  have hq : 0 < (sg.toNat : ℚ) + ((dg.toNat : ℚ) + τ) / 10 := by
    rw [← hval]
    have : (0 : ℚ) < (c : ℚ) := by
      have : 0 < c := by
        by_contra h0
        have : c = 0 := by omega
        subst this; omega
      exact_mod_cast this
    positivity
  obtain ⟨sig', hround, hsig', hsC⟩ := round_noshift mode m neg sg (Go.conv ie) tr dg τ hm (by omega)
    (by rw [hconv]; exact hie0) hdrop.d9 htrel hτ0 hq
  have hconv2 : (Go.conv (Go.conv ie : Int16) : Int64).toInt = ie.toInt := by
    rw [i16_conv_i64, hconv]
  obtain ⟨r, hr, hsame⟩ := composeQuantum_same neg sig' (Go.conv (Go.conv ie : Int16))
    hsC (by rw [hconv2]; exact hie0)
  refine ⟨r, ?_, ?_⟩
  · show (do
        let x ← RoundingMode.round mode false neg sg (Go.conv ie) tr dg
        composeQuantum neg x.1 (Go.conv x.2)) = _
    rw [hround]
    exact hr
  · rw [hconv2, hsig', ← hval] at hsame
    exact hsame

/-! ## the finite non-zero path -/

theorem cf_facts (d : Decimal) (hd : d.isSpecial = false) (hz : d.IsZero = false) :
    1 ≤ d.decompose.1.toNat ∧ d.decompose.1.toNat ≤ Spec.Cmax ∧ 0 ≤ d.decompose.2.toInt ∧
      d.decompose.2.toInt ≤ 12287 ∧
      (((d.decompose.1.w0 ||| d.decompose.1.w1) == (0 : UInt64)) = false) := by
  have h1 : d.decompose.1.toNat ≠ 0 := by
    have := Sp.IsZero_eq_sig d; rw [hz] at this; simpa using this.symm
  have h5 : Sp.sigz d = false := by rw [Sp.sigz_eq, hz]
  exact ⟨by omega, Enc.decompose_sig_le d, Enc.decompose_exp_nonneg d, Enc.decompose_exp_le d hd, h5⟩

theorem tiny_facts (c K : Nat) (hc1 : 1 ≤ c) (hcC : c ≤ Spec.Cmax) (hK : 36 ≤ K) :
    10 * c < 10 ^ K ∧ ¬ 10 ^ K ∣ c ∧ c / 10 ^ K = 0 := by
  have h1 : 10 ^ 36 ≤ 10 ^ K := Nat.pow_le_pow_right (by norm_num) hK
  have h2 := RK.Cmax_val
  have hlt : c < 10 ^ K := by omega
  exact ⟨by omega, fun hd => absurd (Nat.le_of_dvd (by omega) hd) (by omega), Nat.div_eq_of_lt hlt⟩

theorem round_finite (d : Decimal) (dp : Int64) (rm : UInt8) (m : Mode)
    (hm : ModeOK rm m)
    (hd : d.isSpecial = false) (hz : d.IsZero = false) :
    ∃ r, Decimal.Round d dp rm = .ok r ∧ (𝔳[r]).same (Spec.quantize dp.toInt m 𝔳[d]) = true := by
  obtain ⟨hc1, hcC, hE0, hE1, h5⟩ := cf_facts d hd hz
  have hD := qD_toInt dp
  have hD35 := qD35_toInt dp
  have hconv := i16_conv_i64 d.decompose.2
  rw [Round_eq, hd, h5, Enc.interp_decompose d hd]
  simp only [Bool.false_eq_true, if_false]
  generalize hsg : d.decompose.1 = sig at *
  generalize hex : d.decompose.2 = exp at *
  unfold rdTail
  by_cases hA : decide ((Go.conv exp : Int64) ≥ qD dp) = true
  · -- the exponent is already at or above the quantum
    have hA' : (qD dp).toInt ≤ exp.toInt := by
      simpa only [ge_iff_le, decide_eq_true_eq, Int64.le_iff_toInt_le, hconv] using hA
    rw [if_pos hA]
    refine ⟨d, rfl, ?_⟩
    rw [quantize_keep _ _ _ _ _ (by omega) (by omega), Enc.interp_decompose d hd, hsg, hex]
    exact Sp.same_refl _
  rw [if_neg hA]
  have hA' : exp.toInt < (qD dp).toInt := by
    simpa only [ge_iff_le, decide_eq_true_eq, Int64.le_iff_toInt_le, hconv, not_le] using hA
  by_cases hB : decide ((Go.conv exp : Int64) < qD dp - 35) = true
  · -- more than 35 digits below the quantum
    have hB' : exp.toInt < (qD dp - 35).toInt := by
      simpa only [decide_eq_true_eq, Int64.lt_iff_toInt_lt, hconv] using hB
    rw [if_pos hB]
    refine ⟨zero d.Signbit, rfl, ?_⟩
    obtain ⟨K, hK⟩ : ∃ K : Nat, exp.toInt - 6176 + dp.toInt = -(K : Int) :=
      ⟨(-(exp.toInt - 6176 + dp.toInt)).toNat, by omega⟩
    obtain ⟨t1, t2, _⟩ := tiny_facts sig.toNat K hc1 hcC (by omega)
    rw [quantize_fin _ _ _ _ _ K (by omega) hK (by omega), if_neg t2, if_pos t1, Enc.interp_zero]
    exact Sp.same_zero _ _ _
  rw [if_neg hB]
  have hB' : (qD dp - 35).toInt ≤ exp.toInt := by
    simpa only [decide_eq_true_eq, Int64.lt_iff_toInt_lt, hconv, not_lt] using hB
  -- between 1 and 35 digits are dropped
  obtain ⟨K, hK⟩ : ∃ K : Nat, (qD dp).toInt = exp.toInt + (K : Int) :=
    ⟨((qD dp).toInt - exp.toInt).toNat, by omega⟩
  have hK1 : 1 ≤ K := by omega
  have hdp : -6181 ≤ dp.toInt := by omega
  have hKe : exp.toInt - 6176 + dp.toInt = -(K : Int) := by omega
  have hpn : 0 < 10 ^ K := by positivity
  obtain ⟨s', hloop, hpost⟩ := rd_loop (zero d.Signbit) (qD dp) sig exp K hK hc1
  rw [hloop]
  rcases hpost with ⟨h1, hlt⟩ | ⟨h1, hie, hnz, rest, hdrop, htr⟩
  · refine ⟨zero d.Signbit, ?_, ?_⟩
    · show rdFinish rm d.Signbit s' = _
      unfold rdFinish; rw [h1]; rfl
    · have hnd : ¬ 10 ^ K ∣ sig.toNat := fun hd =>
        absurd (Nat.le_of_dvd (by omega) hd) (by omega)
      rw [quantize_fin _ _ _ _ _ K (by omega) hKe hK1, if_neg hnd, if_pos hlt, Enc.interp_zero]
      exact Sp.same_zero _ _ _
  · obtain ⟨o, sg, ie, tr, dg⟩ := s'
    dsimp only at h1 hie hdrop htr
    subst h1
    obtain ⟨r, hr, hsame⟩ := rd_finish rm m d.Signbit sg ie tr dg sig.toNat K rest hm hdrop htr hcC hK1 hnz
      (by omega) (by simp only [Int.reducePow]; omega)
    refine ⟨r, hr, ?_⟩
    have hexp : ie.toInt - 6176 = -dp.toInt := by omega
    rw [hexp] at hsame
    rw [quantize_fin _ _ _ _ _ K (by omega) hKe hK1]
    by_cases hdv : 10 ^ K ∣ sig.toNat
    · rw [if_pos hdv]
      rw [rndQ_of_dvd m d.Signbit _ _ hdv] at hsame
      exact same_trans _ _ _ hsame
        (exact_keep d.Signbit _ _ _ K (by omega) hcC (by simp only [Spec.Emin]; omega)
          (by simp only [Spec.Emax]; omega) hKe hdv)
    · rw [if_neg hdv, if_neg (by omega)]
      exact hsame

end Qz
