/-
  D128/Proofs/PowLadderBase.lean — property C18, code level: the rungs of `Gen.Decimal.PowWithMode` for a
  finite exponent y (neither 0 nor ±1) up to the point where the sign of the result is known
  (stages `afterO`, `afterD` of D128/Proofs/PowCode.lean).  All bit patterns, every mode byte; none of
  the rungs can panic.

  Provided (namespace `PowPf`):
  * `Stripped o s j`   : the stripping loop on `o.decompose()` returns `s`, having removed `j` trailing zeros
  * `strip_fin`        : every finite non-zero operand is stripped without panic
  * `parity_code`      : `oSig.div10()` followed by `digit&1 != 0` tests `oSig.toNat % 2 = 1`
  * `i16_beq`          : `(a == b) = decide (a.toInt = b.toInt)` on `Int16`
  * `ladder_finY`      : finite y: `ladder` continues at `afterO` with the stripped coefficient of y
  * `signOf`           : the sign the code computes: `xneg ∧ oExp = bias ∧ oSig odd`
  * `afterO_zero`      : x = ±0: `inf neg` for y < 0, `zero neg` for y > 0
  * `afterO_inf`       : x = ±Inf: `zero neg` for y < 0, `inf neg` for y > 0
  * `afterO_fin`       : finite non-zero x: strip x, continue at `afterD`
  * `afterD_nan`       : x < 0, y not an integer (stripped exponent negative): NaN(Pow, −finite, ±finite)
  * `afterD_finish`    : otherwise `finish` is entered with `neg = signOf …`
-/
import D128.Proofs.PowLadderInf

set_option autoImplicit false
set_option maxRecDepth 8192
set_option linter.unusedVariables false
set_option linter.unusedSimpArgs false

namespace PowPf
open Gen Sp Spec
local notation "𝔳[" d "]" => Spec.interp (Gen.Decimal.lo d) (Gen.Decimal.hi d)

/-- the stripping loop applied to the decomposition of `o` returns `s` after removing `j` zeros -/
def Stripped (o : Decimal) (s : U128 × Int16) (j : Nat) : Prop :=
  strip (Decimal.decompose o) = .ok s ∧ cf o = s.1.toNat * 10 ^ j ∧
    s.2.toInt = (Decimal.decompose o).2.toInt + j ∧ s.1.toNat % 10 ≠ 0 ∧ j ≤ 38

theorem strip_fin (o : Decimal) (h4 : Decimal.IsZero o = false) : ∃ s j, Stripped o s j := by
  have hc : (Decimal.decompose o).1.toNat ≠ 0 := by
    have := IsZero_eq_sig o; rw [h4] at this; simpa using this.symm
  have h1 : (Decimal.decompose o).2.toInt ≤ 32000 := by
    rw [Enc.decompose_exp_toInt]; split <;> omega
  obtain ⟨j, s', hs, hj, hje, hm, hj38⟩ := strip_spec (Decimal.decompose o) hc h1
  exact ⟨s', j, hs, hj, hje, hm, hj38⟩

/-- `_, digit := oSig.div10(); digit&1 != 0` -/
theorem parity_code (oSig : U128) :
    ∃ x, U128.div10 oSig = .ok x ∧ ((x.2 &&& (1 : UInt64)) != (0 : UInt64)) = decide (oSig.toNat % 2 = 1) := by
  obtain ⟨q, r, e, hq, hr⟩ := U128_div10_spec oSig
  exact ⟨(q, r), e, parity_digit r oSig.toNat hr⟩

theorem i16_beq (a b : Int16) : (a == b) = decide (a.toInt = b.toInt) := by
  rw [Bool.eq_iff_iff, beq_iff_eq, decide_eq_true_eq]
  exact ⟨fun h => by rw [h], fun h => Int16.toInt_inj.1 h⟩

/-- finite y: the ladder strips the coefficient of y and continues at `afterO` -/
theorem ladder_finY (d o : Decimal) (rm : UInt8) (hd : Decimal.IsNaN d = false)
    (h3 : Decimal.isSpecial o = false) (s : U128 × Int16) (j : Nat) (hs : Stripped o s j) :
    ladder rm d o = afterO rm d (Decimal.Signbit d) (Decimal.Signbit o) s.1 s.2 := by
  have hn : Decimal.IsNaN o = false ∧ Decimal.isInf o = false := by
    rcases view o with ⟨b1, b2, b3, b4, bv⟩ | ⟨b1, b2, b3, b4, bv⟩ | ⟨b1, b2, b3, b4, b5, bc, bv⟩ | ⟨b1, b2, b3, b4, b5, bc, bb, bv⟩
    · rw [h3] at b3; cases b3
    · rw [h3] at b3; cases b3
    · exact ⟨b1, b2⟩
    · exact ⟨b1, b2⟩
  rw [ladder_strip d o rm hd hn.1 hn.2, hs.1]; rfl

/-- the sign the code gives to the result: x negative, y an odd integer (stripped exponent `bias`,
    stripped coefficient odd) -/
def signOf (xneg : Bool) (oSig : U128) (oExp : Int16) : Bool :=
  xneg && (decide (oExp.toInt = 6176) && decide (oSig.toNat % 2 = 1))

/-- x = ±0 with a finite y -/
theorem afterO_zero (rm : UInt8) (d : Decimal) (dNeg oNeg : Bool) (oSig : U128) (oExp : Int16)
    (hz : Decimal.IsZero d = true) :
    afterO rm d dNeg oNeg oSig oExp =
      .ok (if oNeg = true then Gen.inf (signOf (Decimal.Signbit d) oSig oExp)
           else Gen.zero (signOf (Decimal.Signbit d) oSig oExp)) := by
  obtain ⟨x, ex, hx⟩ := parity_code oSig
  unfold afterO signOf
  simp only [hz, if_true, ex, RK.ok_bind, hx, i16_beq]
  have : (6176 : Int16).toInt = 6176 := by decide
  rw [this]
  cases Decimal.Signbit d <;> cases decide (oExp.toInt = 6176) <;> cases decide (oSig.toNat % 2 = 1) <;>
    cases oNeg <;> rfl

/-- x = ±Inf with a finite y -/
theorem afterO_inf (rm : UInt8) (d : Decimal) (dNeg oNeg : Bool) (oSig : U128) (oExp : Int16)
    (hz : Decimal.IsZero d = false) (hi : Decimal.isInf d = true) :
    afterO rm d dNeg oNeg oSig oExp =
      .ok (if oNeg = true then Gen.zero (signOf dNeg oSig oExp) else Gen.inf (signOf dNeg oSig oExp)) := by
  obtain ⟨x, ex, hx⟩ := parity_code oSig
  unfold afterO signOf
  simp only [hz, hi, if_true, if_false, Bool.false_eq_true, ex, RK.ok_bind, hx, i16_beq]
  have : (6176 : Int16).toInt = 6176 := by decide
  rw [this]
  cases dNeg <;> cases decide (oExp.toInt = 6176) <;> cases decide (oSig.toNat % 2 = 1) <;>
    cases oNeg <;> rfl

/-- finite non-zero x: strip its coefficient, continue at `afterD` -/
theorem afterO_fin (rm : UInt8) (d : Decimal) (dNeg oNeg : Bool) (oSig : U128) (oExp : Int16)
    (hz : Decimal.IsZero d = false) (hi : Decimal.isInf d = false) (t : U128 × Int16) (k : Nat)
    (ht : Stripped d t k) :
    afterO rm d dNeg oNeg oSig oExp = afterD rm dNeg oNeg oSig oExp t.1 t.2 := by
  unfold afterO
  simp only [hz, hi, if_false, Bool.false_eq_true, ht.1]; rfl

/-- x < 0 and y not an integer -/
theorem afterD_nan (rm : UInt8) (oNeg : Bool) (oSig : U128) (oExp : Int16) (dSig : U128) (dExp : Int16)
    (h : oExp.toInt < 6176) :
    afterD rm true oNeg oSig oExp dSig dExp =
      .ok (Gen.nan 15 4 (if oNeg = true then 4 else 3)) := by
  unfold afterD
  have : (6176 : Int16).toInt = 6176 := by decide
  simp only [if_true, i16_lt_iff, this, h, decide_true]
  cases oNeg <;> rfl

/-- otherwise the sign is fixed and `finish` is entered -/
theorem afterD_finish (rm : UInt8) (dNeg oNeg : Bool) (oSig : U128) (oExp : Int16) (dSig : U128)
    (dExp : Int16) (h : dNeg = false ∨ 6176 ≤ oExp.toInt) :
    afterD rm dNeg oNeg oSig oExp dSig dExp =
      finish rm dNeg oNeg (signOf dNeg oSig oExp) oSig oExp dSig dExp := by
  obtain ⟨x, ex, hx⟩ := parity_code oSig
  unfold afterD signOf
  have e6 : (6176 : Int16).toInt = 6176 := by decide
  cases dNeg
  · simp only [Bool.false_eq_true, if_false, Bool.false_and]
  · have h' : ¬ oExp.toInt < 6176 := by
      rcases h with h | h
      · cases h
      · omega
    simp only [if_true, i16_lt_iff, e6, h', decide_false, Bool.false_eq_true, if_false, i16_beq, ex,
      RK.ok_bind, hx, Bool.true_and]
    by_cases c1 : oExp.toInt = 6176
    · simp only [c1, decide_true, if_true, Bool.true_and]
      cases decide (oSig.toNat % 2 = 1) <;> rfl
    · simp only [c1, decide_false, if_false, Bool.false_eq_true, Bool.false_and]

end PowPf
