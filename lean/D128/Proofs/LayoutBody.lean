/-
  D128/Proofs/LayoutBody.lean — `Spec.bodyOf` unfolded per verb, and the `g` arm without `#`
  (`Ly.bodyG … false`) is `Spec.bodyOf`.  Pure; no generated code.

  * `Ly.bodyOf_e`, `Ly.bodyOf_f`, `Ly.bodyOf_g_some`, `Ly.bodyOf_g_none` : `Spec.bodyOf` per verb (`rfl`)
  * `Ly.bodyG_some`, `Ly.bodyG_none` : `bodyG r P M false e = Spec.bodyOf s verb prec`
-/
import D128.Proofs.LayoutSharp

set_option autoImplicit false
set_option maxRecDepth 4096

namespace Ly
open Dg


theorem bodyOf_g_some (s : Spec.Slice) (p0 : Nat) (verb : Char) (hv : verb = 'g' ∨ verb = 'G') :
    Spec.bodyOf s verb (some p0) =
      (let e := if verb == 'G' then 'E' else 'e'
       let p := if p0 == 0 then 1 else p0
       let r := Spec.roundSlice s p
       let nd := r.ds.length
       let eprec : Int := if p > nd && (nd : Int) ≥ r.dp then nd else p
       let x : Int := r.dp - 1
       if x < -4 || x ≥ eprec then
         Spec.layoutE r ((if p > nd then nd else p) - 1) false e 2
       else
         Spec.layoutF r (if (nd : Int) > r.dp then ((nd : Int) - r.dp).toNat else 0) false) := by
  rcases hv with rfl | rfl <;> rfl

theorem bodyOf_g_none (s : Spec.Slice) (verb : Char) (hv : verb = 'g' ∨ verb = 'G') :
    Spec.bodyOf s verb none =
      (let e := if verb == 'G' then 'E' else 'e'
       let x : Int := s.dp - 1
       if s.ds.isEmpty then ['0']
       else if x < -4 || x ≥ 6 then Spec.layoutE s (s.ds.length - 1) false e 2
       else Spec.layoutF s (if (s.ds.length : Int) > s.dp then ((s.ds.length : Int) - s.dp).toNat else 0) false) := by
  rcases hv with rfl | rfl <;> rfl

theorem bodyOf_e (s : Spec.Slice) (prec : Option Nat) (verb : Char) (hv : verb = 'e' ∨ verb = 'E') :
    Spec.bodyOf s verb prec =
      Spec.layoutE (Spec.roundSlice s (prec.getD 6 + 1)) (prec.getD 6) false verb 2 := by
  rcases hv with rfl | rfl <;> rfl

theorem bodyOf_f (s : Spec.Slice) (prec : Option Nat) (verb : Char) (hv : verb = 'f' ∨ verb = 'F') :
    Spec.bodyOf s verb prec = Spec.layoutF (roundF s (prec.getD 6)) (prec.getD 6) false := by
  rcases hv with rfl | rfl <;> rfl

/-- without `#`, the `g` arm prints `Spec.bodyOf` (precision given) -/
theorem bodyG_some (s : Spec.Slice) (p0 : Nat) (verb : Char) (hv : verb = 'g' ∨ verb = 'G')
    (P : Nat) (hP : P = max p0 1)
    (hr : NormS (Spec.roundSlice s P)) (hlen : (Spec.roundSlice s P).ds.length ≤ P) :
    bodyG (Spec.roundSlice s P) P P false (if verb == 'G' then 'E' else 'e') =
      Spec.bodyOf s verb (some p0) := by
  rw [bodyOf_g_some s p0 verb hv]
  have hp : (if p0 == 0 then 1 else p0) = P := by
    rw [hP]; split
    · rename_i h; rw [beq_iff_eq] at h; omega
    · rename_i h; rw [beq_iff_eq] at h; omega
  simp only [hp]
  generalize Spec.roundSlice s P = r at hr hlen
  unfold bodyG
  simp only [Bool.false_eq_true, if_false]
  have hP1 : 1 ≤ P := by omega
  by_cases hnd : r.ds.length = 0
  · have hnil : r.ds = [] := List.eq_nil_of_length_eq_zero hnd
    have hdp := hr.zero hnil
    simp only [hnd, hdp, if_true]
    have c1 : (decide ((0 : Int) < -4) || decide ((0 : Int) ≥ (P : Int))) = false := by
      simp; omega
    have c2 : (decide ((0 : Int) - 1 < -4) || decide ((0 : Int) - 1 ≥
        (if (decide (P > 0) && decide (((0 : Nat) : Int) ≥ 0)) = true then ((0 : Nat) : Int) else (P : Int)))) = false := by
      simp; split <;> omega
    rw [c1, c2]
    simp only [Bool.false_eq_true, if_false]
  · simp only [hnd, if_false]
    have hple : (if P > r.ds.length then r.ds.length else P) = r.ds.length := by
      split <;> omega
    rw [hple]
    have hc : (decide (r.dp - 1 < -4) || decide (r.dp - 1 ≥ (P : Int))) =
        (decide (r.dp - 1 < -4) || decide (r.dp - 1 ≥
          (if (decide (P > r.ds.length) && decide ((r.ds.length : Int) ≥ r.dp)) = true
            then (r.ds.length : Int) else (P : Int)))) := by
      by_cases h1 : P > r.ds.length ∧ (r.ds.length : Int) ≥ r.dp
      · have : (decide (P > r.ds.length) && decide ((r.ds.length : Int) ≥ r.dp)) = true := by
          simp [h1.1, h1.2]
        rw [this, if_pos rfl]
        have a : ¬ r.dp - 1 ≥ (P : Int) := by omega
        have b : ¬ r.dp - 1 ≥ (r.ds.length : Int) := by omega
        simp [a, b]
      · have : ¬ (decide (P > r.ds.length) && decide ((r.ds.length : Int) ≥ r.dp)) = true := by
          simpa using h1
        rw [if_neg this]
    rw [hc]

theorem layoutF_zero0 : Spec.layoutF ⟨[], 0⟩ 0 false = ['0'] := by decide

/-- without `#`, the `g` arm prints `Spec.bodyOf` (no precision: shortest) -/
theorem bodyG_none (s : Spec.Slice) (hs : NormS s) (verb : Char) (hv : verb = 'g' ∨ verb = 'G')
    (P : Nat) (hP : s.ds.length ≤ P) :
    bodyG (Spec.roundSlice s P) P 6 false (if verb == 'G' then 'E' else 'e') =
      Spec.bodyOf s verb none := by
  rw [bodyOf_g_none s verb hv, roundSlice_of_le s P hP]
  unfold bodyG
  simp only [Bool.false_eq_true, if_false]
  by_cases hnd : s.ds.length = 0
  · have hnil : s.ds = [] := List.eq_nil_of_length_eq_zero hnd
    have hdp := hs.zero hnil
    have : s = ⟨[], 0⟩ := by cases s; simp only at hnil hdp; rw [hnil, hdp]
    subst this
    rcases hv with rfl | rfl <;> decide
  · have hne : s.ds.isEmpty = false := by
      cases h : s.ds with
      | nil => rw [h] at hnd; simp at hnd
      | cons a t => rfl
    simp only [hnd, if_false, hne, Bool.false_eq_true]
    rfl

end Ly
