/-
  D128/Proofs/CanonFrexp.lean — `Gen.Frexp` (decimal.go) against `Spec.frexp`.

    ndigitsSlow_eq, ndigits_eq   Spec.ndigits n = Nat.log 10 n + 1  (n ≠ 0)
    i64_bmod, i16_conv_i64, rexp_toInt, i64_conv_i16     fixed-width arithmetic without overflow
    Frexp_trivial     specials and zeros: Frexp d = .ok (d, 0)
    Frexp_fin         non-zero finite: Frexp d = .ok (compose sign sig exp', rexp), with
                      rexp = e + ⌊log10 sig⌋ + 1 and exp' = 6175 − ⌊log10 sig⌋   (uses U128_log10_eq)
    spec_frexp_fin, spec_frexp_not_fin, spec_frexp_zero
    Frexp_spec        ∃ f e, Frexp d = .ok (f, e) ∧ 𝔳[f] = (Spec.frexp 𝔳[d]).1 ∧ e = (Spec.frexp 𝔳[d]).2
    frexp_mag_bounds  1/10 ≤ mag c (−⌊log10 c⌋ − 1) < 1
    frexp_mag_scale   mag c (e − k) · 10^k = mag c e
-/
import D128.Proofs.CanonEq
import D128.Proofs.IntConvFrom
import D128.Proofs.Words128Log
import D128.Gen.Decimal2
set_option autoImplicit false

namespace FrexpPf
open CanonPf IntConvPf

/-! ## `Spec.ndigits` is `Nat.log 10 + 1` -/

theorem ndigitsSlow_eq (n : Nat) : Spec.ndigitsSlow n = Nat.log 10 n + 1 := by
  induction n using Nat.strongRecOn with
  | _ n ih =>
    rw [Spec.ndigitsSlow]
    by_cases h : n < 10
    · rw [dif_pos h, Nat.log_of_lt h]
    · rw [dif_neg h, ih (n / 10) (by omega)]
      rw [Nat.log_of_one_lt_of_le (by decide) (show 10 ≤ n by omega)]

theorem ndigits_eq (n : Nat) (hn : n ≠ 0) : Spec.ndigits n = Nat.log 10 n + 1 := by
  unfold Spec.ndigits
  have h0 : (n == 0) = false := by simpa using hn
  simp only [h0, Bool.false_eq_true, if_false, Bool.and_eq_true, decide_eq_true_eq]
  generalize n.log2 * 1233 / 4096 = g
  split_ifs with h1 h2
  · have : Nat.log 10 n = g := by
      apply Nat.log_eq_of_pow_le_of_lt_pow
      · simpa using h1.1
      · exact h1.2
    rw [this]
  · have : Nat.log 10 n = g + 1 := Nat.log_eq_of_pow_le_of_lt_pow h2.1 h2.2
    rw [this]
  · exact ndigitsSlow_eq n


/-! ## `Frexp` -/

theorem i64_bmod (x : Int) (h0 : -2 ^ 63 ≤ x) (h1 : x < 2 ^ 63) : x.bmod (2 ^ 64) = x := by
  apply Int.bmod_eq_of_le <;> simp only [Nat.reducePow, Int.reducePow] at * <;> omega

theorem i16_conv_i64 (e : Int16) : (Go.conv e : Int64).toInt = e.toInt := by
  have h1 := e.toInt_lt
  have h2 := e.le_toInt
  show (Int64.ofInt e.toInt).toInt = _
  rw [Int64.toInt_ofInt]
  apply Int.bmod_eq_of_le <;> simp only [Int64.size, Int.reducePow] at * <;> omega

theorem rexp_toInt (exp : Int16) (L : Nat) (h0 : 0 ≤ exp.toInt) (h1 : exp.toInt ≤ 12287)
    (hL : L ≤ 38) :
    ((((Go.conv exp : Int64) - (6176 : Int64)) + Int64.ofNat L) + (1 : Int64)).toInt
      = exp.toInt - 6176 + L + 1 := by
  have e1 : (6176 : Int64).toInt = 6176 := by decide
  have e2 : (1 : Int64).toInt = 1 := by decide
  have e3 : (Int64.ofNat L).toInt = L := Int64.toInt_ofNat_small L (by omega)
  have a : ((Go.conv exp : Int64) - (6176 : Int64)).toInt = exp.toInt - 6176 := by
    rw [Int64.toInt_sub, i16_conv_i64, e1]
    exact i64_bmod _ (by simp only [Int.reducePow]; omega) (by simp only [Int.reducePow]; omega)
  have b : (((Go.conv exp : Int64) - (6176 : Int64)) + Int64.ofNat L).toInt
      = exp.toInt - 6176 + L := by
    rw [Int64.toInt_add, a, e3]
    exact i64_bmod _ (by simp only [Int.reducePow]; omega) (by simp only [Int.reducePow]; omega)
  rw [Int64.toInt_add, b, e2]
  exact i64_bmod _ (by simp only [Int.reducePow]; omega) (by simp only [Int.reducePow]; omega)

theorem i64_conv_i16 (x : Int64) (h0 : -2 ^ 15 ≤ x.toInt) (h1 : x.toInt < 2 ^ 15) :
    (Go.conv x : Int16).toInt = x.toInt := by
  show (Int16.ofInt x.toInt).toInt = _
  exact i16_ofInt_toInt _ h0 h1

/-- `Frexp` on specials and zeros: unchanged, exponent 0 -/
theorem Frexp_trivial (d : Gen.Decimal)
    (h : (Gen.Decimal.isSpecial d || Gen.Decimal.IsZero d) = true) :
    Gen.Frexp d = .ok (d, 0) := by
  unfold Gen.Frexp
  simp only [h, if_true]
  rfl

/-- `Frexp` on non-zero finite values -/
theorem Frexp_fin (d : Gen.Decimal) (hs : Gen.Decimal.isSpecial d = false)
    (hz : Gen.Decimal.IsZero d = false) :
    ∃ (exp' : Int16) (rexp : Int64),
      Gen.Frexp d = .ok (Gen.compose (Gen.Decimal.Signbit d) (Gen.Decimal.decompose d).1 exp', rexp) ∧
      rexp.toInt = (Gen.Decimal.decompose d).2.toInt - 6176
        + Nat.log 10 (Gen.Decimal.decompose d).1.toNat + 1 ∧
      exp'.toInt = 6175 - Nat.log 10 (Gen.Decimal.decompose d).1.toNat ∧
      Nat.log 10 (Gen.Decimal.decompose d).1.toNat ≤ 38 := by
  have h0 := Enc.decompose_exp_nonneg d
  have h1 := Enc.decompose_exp_le d hs
  have hL := Nat.log10_lt_39_of_lt _ (Gen.Decimal.decompose d).1.toNat_lt
  have hr := rexp_toInt (Gen.Decimal.decompose d).2 _ h0 h1 hL
  refine ⟨(Gen.Decimal.decompose d).2 - (Go.conv
      ((((Go.conv (Gen.Decimal.decompose d).2 : Int64) - (6176 : Int64))
        + Int64.ofNat (Nat.log 10 (Gen.Decimal.decompose d).1.toNat)) + (1 : Int64)) : Int16),
    _, ?_, hr, ?_, hL⟩
  · unfold Gen.Frexp
    simp only [hs, hz, Bool.or_self, Bool.false_eq_true, if_false]
    rw [U128_log10_eq]
    rfl
  · rw [i16_sub, i64_conv_i16, hr]
    · omega
    all_goals (try rw [i64_conv_i16]) <;> (try rw [hr]) <;> (try simp only [Int.reducePow]) <;> omega


/-! ## against the specification -/

theorem spec_frexp_fin (n : Bool) (c : Nat) (e : Int) (hc : c ≠ 0) :
    Spec.frexp (.fin n c e) =
      (.fin n c (-(Nat.log 10 c : Int) - 1), e + (Nat.log 10 c : Int) + 1) := by
  have h0 : (c == 0) = false := by simpa using hc
  simp only [Spec.frexp, h0, Bool.false_eq_true, if_false, ndigits_eq c hc]
  refine Prod.ext ?_ ?_
  · dsimp only
    congr 1
    push_cast
    omega
  · dsimp only
    push_cast
    omega

theorem spec_frexp_not_fin (x : Spec.Val) (h : x.isFin = false) : Spec.frexp x = (x, 0) := by
  cases x <;> simp [Spec.Val.isFin] at h <;> rfl

theorem spec_frexp_zero (n : Bool) (e : Int) : Spec.frexp (.fin n 0 e) = (.fin n 0 e, 0) := rfl

/-- `Frexp` never panics and returns exactly the specified fraction (as a value: sign,
    coefficient, exponent) and exponent -/
theorem Frexp_spec (d : Gen.Decimal) :
    ∃ f e, Gen.Frexp d = .ok (f, e) ∧
      Spec.interp f.lo f.hi = (Spec.frexp (Spec.interp d.lo d.hi)).1 ∧
      e.toInt = (Spec.frexp (Spec.interp d.lo d.hi)).2 := by
  by_cases hs : Gen.Decimal.isSpecial d = false
  · by_cases hz : Gen.Decimal.IsZero d = false
    · obtain ⟨exp', rexp, hf, hr, he, hL⟩ := Frexp_fin d hs hz
      refine ⟨_, _, hf, ?_, ?_⟩
      all_goals
        have hz' : (Spec.interp d.lo d.hi).isZero = false := by rw [Enc.interp_isZero]; exact hz
        rw [Enc.interp_decompose d hs] at hz' ⊢
        rw [Enc.isZero_fin] at hz'
        simp only [decide_eq_false_iff_not] at hz'
        rw [spec_frexp_fin _ _ _ hz']
      · rw [interp_compose _ _ _ (Enc.decompose_sig_le d) (by omega) (by omega), he]
        dsimp only
        congr 1
        omega
      · rw [hr]
    · simp only [Bool.not_eq_false] at hz
      refine ⟨d, 0, Frexp_trivial d (by rw [hz]; simp), ?_, ?_⟩
      all_goals
        have hz' : (Spec.interp d.lo d.hi).isZero = true := by rw [Enc.interp_isZero]; exact hz
        rw [Enc.interp_decompose d hs] at hz' ⊢
        rw [Enc.isZero_fin] at hz'
        simp only [decide_eq_true_eq] at hz'
        rw [hz', spec_frexp_zero]
      · rfl
  · simp only [Bool.not_eq_false] at hs
    have hf : (Spec.interp d.lo d.hi).isFin = false := by rw [Enc.interp_isFin, hs]; rfl
    refine ⟨d, 0, Frexp_trivial d (by rw [hs]; simp), ?_, ?_⟩
    · rw [spec_frexp_not_fin _ hf]
    · rw [spec_frexp_not_fin _ hf]; rfl

/-! ## the fraction is in [1/10, 1) and `frac × 10^e = d` (ℚ) -/

theorem frexp_mag_bounds (c : Nat) (hc : c ≠ 0) :
    (1 / 10 : ℚ) ≤ Spec.mag c (-(Nat.log 10 c : Int) - 1) ∧
      Spec.mag c (-(Nat.log 10 c : Int) - 1) < 1 := by
  have h1 : 10 ^ Nat.log 10 c ≤ c := Nat.pow_log_le_self 10 hc
  have h2 : c < 10 ^ (Nat.log 10 c + 1) := Nat.lt_pow_succ_log_self (by decide) c
  generalize Nat.log 10 c = L at *
  unfold Spec.mag
  rw [CmpPf.pow10_eq_zpow]
  have e1 : (-(L : Int) - 1) = -((L + 1 : Nat) : Int) := by push_cast; omega
  rw [e1, zpow_neg, zpow_natCast]
  have hp : (0 : ℚ) < 10 ^ (L + 1) := by positivity
  have h1q : (10 : ℚ) ^ L ≤ c := by exact_mod_cast h1
  have h2q : (c : ℚ) < 10 ^ (L + 1) := by exact_mod_cast h2
  constructor
  · rw [le_mul_inv_iff₀ hp, pow_succ]
    linarith
  · rw [mul_inv_lt_iff₀ hp]
    linarith

theorem frexp_mag_scale (c : Nat) (e k : Int) :
    Spec.mag c (e - k) * Spec.pow10 k = Spec.mag c e := by
  unfold Spec.mag
  rw [CmpPf.pow10_eq_zpow, CmpPf.pow10_eq_zpow, CmpPf.pow10_eq_zpow, mul_assoc,
    ← zpow_add₀ (by norm_num : (10 : ℚ) ≠ 0)]
  congr 2
  omega

end FrexpPf
