/-
  D128/Proofs/LogAccLog1pTop.lean — **`log1p_accurate`**: `Gen.Log1p` is within one unit in the last place of
  `ln(1+x)` for every finite non-zero `x > -1`, except (recorded finding) arguments `|x| < 10^-9` whose decimal exponent is
  below `-3264` (in particular every `|x| ≥ 10^-3230` is covered).
-/
import D128.Proofs.LogAccLog1p
set_option autoImplicit false
set_option maxRecDepth 4096
set_option linter.unusedVariables false
namespace LogAcc
open Gen D192 Root
local notation "𝔳[" d "]" => Spec.interp (Gen.Decimal.lo d) (Gen.Decimal.hi d)

/-- the branch test of `Log1p` -/
theorem l10_test (d : Decimal) (h1 : Decimal.isSpecial d = false) (L : ℕ) (hL : L ≤ 38)
    (hLi : (Int64.ofNat L).toInt = L) :
    decide ((Go.conv (Int64.ofNat L) : Int16) + (d.decompose.2 - 6176) > -10) = decide (-10 < (L : ℤ) + Sp.ex d) := by
  have hE := Sp.dExp_toInt d h1
  have h0 := Enc.decompose_exp_nonneg d
  have h1' := Enc.decompose_exp_le d h1
  have hc : ((Go.conv (Int64.ofNat L) : Int16)).toInt = L := by
    show (Int16.ofInt (Int64.ofNat L).toInt).toInt = L
    rw [hLi, Int16.toInt_ofInt]
    have : (Int16.size : Int) = 65536 := rfl
    apply Int.bmod_eq_of_le <;> omega
  have hEx : Sp.ex d = d.decompose.2.toInt - 6176 := rfl
  have hsum : ((Go.conv (Int64.ofNat L) : Int16) + (d.decompose.2 - 6176)).toInt = (L : ℤ) + Sp.ex d := by
    rw [Int16.toInt_add_of] <;> rw [hc, hE, hEx] <;> omega
  have h10 : (-10 : Int16).toInt = -10 := by decide
  apply decide_eq_decide.mpr
  rw [gt_iff_lt, Int16.lt_iff_toInt_lt, hsum, h10]

/-- **`Log1p` is accurate to one unit in the last place** (nearest default modes). -/
theorem log1p_accurate (g : Globals) (d : Decimal)
    (hg : g.DefaultRoundingMode = 0 ∨ g.DefaultRoundingMode = 1)
    (h1 : Decimal.isSpecial d = false) (h2 : Decimal.IsZero d = false)
    (n : Bool) (c : ℕ) (e : ℤ) (hv : 𝔳[d] = .fin n c e)
    (hdom : n = true → (c : ℝ) * (10 : ℝ) ^ e < 1)
    (hrange : -3264 ≤ e ∨ 1 / 10 ^ 9 ≤ (c : ℝ) * (10 : ℝ) ^ e) :
    ∃ r rc re, Gen.Log1p g d = .ok r ∧ 𝔳[r] = .fin n rc re ∧
      rc ≤ Spec.Cmax ∧ Spec.Emin ≤ re ∧ re ≤ Spec.Emax ∧
      |(rc : ℝ) * (10 : ℝ) ^ re - (|Real.log (1 + EnclPf.X n c e)|)|
        ≤ (10 : ℝ) ^ (EnclPf.ulpExp (|Real.log (1 + EnclPf.X n c e)|)) := by
  obtain ⟨hc, he, hval⟩ := logArg_val d h1 c e n hv
  obtain ⟨hsig, hexp⟩ := logArg_ok d h1 h2
  have hn : n = Decimal.Signbit d := by
    rw [Enc.interp_decompose d h1] at hv; injection hv with h _ _; exact h.symm
  have hcf : Sp.cf d = c := hc.symm
  have hex : Sp.ex d = e := he.symm
  have hc0 : c ≠ 0 := by rw [hc, ← logArg_sig]; exact hsig
  have hcmax : c ≤ Spec.Cmax := by rw [hc]; exact Enc.decompose_sig_le d
  have haexp : (logArg d).exp.toInt = e := by rw [logArg_exp d h1, he]
  have herange : -6176 ≤ e ∧ e ≤ 6111 := by
    have := Enc.decompose_exp_nonneg d; have := Enc.decompose_exp_le d h1
    rw [he]; omega
  -- the decimal logarithm of the coefficient
  obtain ⟨L, hL, hlog, hLi, -, hLn⟩ := U128_log10_spec d.decompose.1
  obtain ⟨hL1, hL2⟩ := hLn (by rw [← hc]; exact hc0)
  rw [← hc] at hL1 hL2
  have htest := l10_test d h1 L hL hLi
  rw [hex] at htest
  set x : ℝ := (c : ℝ) * (10 : ℝ) ^ e with hx
  have hxpos : 0 < x := by
    rw [hx]; exact mul_pos (by exact_mod_cast Nat.pos_of_ne_zero hc0) (zpow_pos (by norm_num) _)
  have hpe : (0 : ℝ) < (10 : ℝ) ^ e := zpow_pos (by norm_num) _
  -- 10^(L+e) ≤ x < 10^(L+1+e)
  have hxlo : (10 : ℝ) ^ ((L : ℤ) + e) ≤ x := by
    rw [zpow_add₀ (by norm_num), zpow_natCast, hx]
    exact mul_le_mul_of_nonneg_right (by exact_mod_cast hL1) hpe.le
  have hxhi : x < (10 : ℝ) ^ ((L : ℤ) + 1 + e) := by
    rw [zpow_add₀ (by norm_num), hx]
    have : (c : ℝ) < (10 : ℝ) ^ ((L : ℤ) + 1) := by
      have h : ((c : ℕ) : ℝ) < ((10 ^ (L + 1) : ℕ) : ℝ) := by exact_mod_cast hL2
      push_cast at h
      rw [show ((L : ℤ) + 1) = ((L + 1 : ℕ) : ℤ) by push_cast; rfl, zpow_natCast]; exact h
    exact mul_lt_mul_of_pos_right this hpe
  have hgm := hg
  cases n with
  | false =>
    have h3 : Decimal.Signbit d = false := hn.symm
    have hX : EnclPf.X false c e = x := by rw [EnclPf.X_eq]; simp [hx]
    rw [hX, Log1p_eq_pos g d h1 h2 h3]
    unfold log1pBody
    simp only [hlog, bind, Except.bind, htest, Bool.false_eq_true, if_false]
    by_cases hbig : -10 < (L : ℤ) + e
    · simp only [hbig, decide_true, if_true]
      have hx9 : 1 / 10 ^ 9 ≤ ((val (logArg d) : ℚ) : ℝ) := by
        rw [hval]
        have : (10 : ℝ) ^ (-9 : ℤ) ≤ (10 : ℝ) ^ ((L : ℤ) + e) := zpow_le_zpow_right₀ (by norm_num) (by omega)
        have e9 : (10 : ℝ) ^ (-9 : ℤ) = 1 / 10 ^ 9 := by rw [zpow_neg]; norm_num
        rw [e9] at this; linarith
      obtain ⟨r, rc, re, hr, hvr, hrc, hre0, hre1, hb⟩ :=
        big_pos g.DefaultRoundingMode hg (logArg d) (by rw [haexp]; omega) hx9
      rw [hval] at hb
      have hT0 : 0 ≤ Real.log (1 + x) := Real.log_nonneg (by linarith)
      rw [abs_of_nonneg hT0]
      exact ⟨r, rc, re, hr, hvr, hrc, hre0, hre1, hb⟩
    · simp only [hbig, decide_false, Bool.false_eq_true, if_false]
      have hx9 : ((val (logArg d) : ℚ) : ℝ) ≤ 1 / 10 ^ 9 := by
        rw [hval]
        have : (10 : ℝ) ^ ((L : ℤ) + 1 + e) ≤ (10 : ℝ) ^ (-9 : ℤ) := zpow_le_zpow_right₀ (by norm_num) (by omega)
        have e9 : (10 : ℝ) ^ (-9 : ℤ) = 1 / 10 ^ 9 := by rw [zpow_neg]; norm_num
        rw [e9] at this; linarith
      have he3264 : -3264 ≤ e := by
        rcases hrange with h | h
        · exact h
        · exfalso
          have : (10 : ℝ) ^ ((L : ℤ) + 1 + e) ≤ (10 : ℝ) ^ (-9 : ℤ) := zpow_le_zpow_right₀ (by norm_num) (by omega)
          have e9 : (10 : ℝ) ^ (-9 : ℤ) = 1 / 10 ^ 9 := by rw [zpow_neg]; norm_num
          rw [e9] at this; linarith
      obtain ⟨r, rc, re, hr, hvr, hrc, hre0, hre1, hb⟩ :=
        small_path g.DefaultRoundingMode hg (logArg d) false hsig hx9 (by rw [haexp]; exact he3264)
      rw [hval] at hb
      have hlT : logT false x = |Real.log (1 + x)| := by unfold logT; simp
      rw [hlT] at hb
      exact ⟨r, rc, re, hr, hvr, hrc, hre0, hre1, hb⟩
  | true =>
    have h3 : Decimal.Signbit d = true := hn.symm
    have hX : EnclPf.X true c e = -x := by rw [EnclPf.X_eq]; simp [hx]
    have hx1 : x < 1 := hdom rfl
    -- |x| < 1 in integer form
    have he0 : e ≤ 0 := by
      by_contra hc'
      have h1e : (10 : ℝ) ^ (1 : ℤ) ≤ (10 : ℝ) ^ e := zpow_le_zpow_right₀ (by norm_num) (by omega)
      have hc1 : (1 : ℝ) ≤ (c : ℝ) := by exact_mod_cast Nat.pos_of_ne_zero hc0
      have : (1 : ℝ) * (10 : ℝ) ^ (1 : ℤ) ≤ x := mul_le_mul hc1 h1e (zpow_pos (by norm_num) _).le (Nat.cast_nonneg _)
      norm_num at this; linarith
    have hclt : c < 10 ^ (-e).toNat := by
      have hpe2 : (10 : ℝ) ^ e * (10 : ℝ) ^ (-e).toNat = 1 := by
        rw [← zpow_natCast, Int.toNat_of_nonneg (by omega), ← zpow_add₀ (by norm_num)]; simp
      have : (c : ℝ) < ((10 ^ (-e).toNat : ℕ) : ℝ) := by
        push_cast
        by_contra hcn
        rw [not_lt] at hcn
        have : (10 : ℝ) ^ (-e).toNat * (10 : ℝ) ^ e ≤ (c : ℝ) * (10 : ℝ) ^ e :=
          mul_le_mul_of_nonneg_right hcn hpe.le
        rw [mul_comm ((10 : ℝ) ^ (-e).toNat), hpe2] at this
        linarith
      exact_mod_cast this
    rw [hX, Log1p_eq_neg g d h1 h2 h3 (by rw [hex]; exact he0) (by rw [hex, hcf]; exact hclt)]
    unfold log1pBody
    simp only [hlog, bind, Except.bind, htest, if_true]
    have hsub : (1 : ℝ) + -x = 1 - x := by ring
    rw [hsub]
    by_cases hbig : -10 < (L : ℤ) + e
    · simp only [hbig, decide_true, if_true]
      have hx9 : 1 / 10 ^ 9 ≤ ((val (logArg d) : ℚ) : ℝ) := by
        rw [hval]
        have : (10 : ℝ) ^ (-9 : ℤ) ≤ (10 : ℝ) ^ ((L : ℤ) + e) := zpow_le_zpow_right₀ (by norm_num) (by omega)
        have e9 : (10 : ℝ) ^ (-9 : ℤ) = 1 / 10 ^ 9 := by rw [zpow_neg]; norm_num
        rw [e9] at this; linarith
      obtain ⟨r, rc, re, hr, hvr, hrc, hre0, hre1, hb⟩ :=
        big_neg g.DefaultRoundingMode hg (logArg d) (by rw [haexp]; clear hclt hL1 hL2; omega)
          (by rw [haexp]; exact he0) hx9
          (by rw [hval]; exact hx1)
      rw [hval] at hb
      exact ⟨r, rc, re, hr, hvr, hrc, hre0, hre1, hb⟩
    · simp only [hbig, decide_false, Bool.false_eq_true, if_false]
      have hx9 : ((val (logArg d) : ℚ) : ℝ) ≤ 1 / 10 ^ 9 := by
        rw [hval]
        have : (10 : ℝ) ^ ((L : ℤ) + 1 + e) ≤ (10 : ℝ) ^ (-9 : ℤ) := zpow_le_zpow_right₀ (by norm_num) (by omega)
        have e9 : (10 : ℝ) ^ (-9 : ℤ) = 1 / 10 ^ 9 := by rw [zpow_neg]; norm_num
        rw [e9] at this; linarith
      have he3264 : -3264 ≤ e := by
        rcases hrange with h | h
        · exact h
        · exfalso
          have : (10 : ℝ) ^ ((L : ℤ) + 1 + e) ≤ (10 : ℝ) ^ (-9 : ℤ) := zpow_le_zpow_right₀ (by norm_num) (by omega)
          have e9 : (10 : ℝ) ^ (-9 : ℤ) = 1 / 10 ^ 9 := by rw [zpow_neg]; norm_num
          rw [e9] at this; linarith
      obtain ⟨r, rc, re, hr, hvr, hrc, hre0, hre1, hb⟩ :=
        small_path g.DefaultRoundingMode hg (logArg d) true hsig hx9 (by rw [haexp]; exact he3264)
      rw [hval] at hb
      have hlT : logT true x = |Real.log (1 - x)| := by unfold logT; simp
      rw [hlT] at hb
      exact ⟨r, rc, re, hr, hvr, hrc, hre0, hre1, hb⟩

end LogAcc
