/-
  D128/Proofs/PowBase.lean — code-level facts used by every branch of `PowWithMode`.

  * `PowPf.strip_spec`   : the trailing-zero stripping loop terminates on a non-zero coefficient and
                           returns `(s', e')` with `s = s'·10^j`, `e' = e + j`, `s' % 10 ≠ 0`
  * `PowPf.absOne`       : `|x| = 1` on abstract values
  * `PowPf.isOne_eq`     : `Gen.Decimal.isOne d = .ok (absOne 𝔳[d])`  (all bit patterns; never panics)
  * `PowPf.u128_beq`, `PowPf.mag_one_iff`
  * `PowPf.parity_digit` : `(r &&& 1 != 0) = decide (n % 2 = 1)` for `r = n % 10`
-/
import D128.Proofs.PowCode
import D128.Proofs.RoundKernelReduceCode
import D128.Proofs.SpecialsLog1p

set_option autoImplicit false
set_option maxRecDepth 8192
set_option linter.unusedVariables false
set_option linter.unusedSimpArgs false

namespace PowPf
open Gen Sp
local notation "𝔳[" d "]" => Spec.interp (Gen.Decimal.lo d) (Gen.Decimal.hi d)

theorem pow_le_of_lt_2_128 (j : Nat) (h : 10 ^ j < 2 ^ 128) : j ≤ 38 := by
  by_contra hc
  have : 10 ^ 39 ≤ 10 ^ j := Nat.pow_le_pow_right (by norm_num) (by omega)
  have h39 : (2 : Nat) ^ 128 < 10 ^ 39 := by norm_num
  omega

/-- the stripping loop: total on a non-zero coefficient -/
theorem strip_spec (s : U128 × Int16) (h0 : s.1.toNat ≠ 0) (he : s.2.toInt ≤ 32000) :
    ∃ (j : Nat) (s' : U128 × Int16), strip s = .ok s' ∧ s.1.toNat = s'.1.toNat * 10 ^ j ∧
      s'.2.toInt = s.2.toInt + j ∧ s'.1.toNat % 10 ≠ 0 ∧ j ≤ 38 := by
  have key : ∃ s', strip s = .ok s' ∧ ∃ j : Nat, s.1.toNat = s'.1.toNat * 10 ^ j ∧
      s'.2.toInt = s.2.toInt + j ∧ s'.1.toNat % 10 ≠ 0 := by
    unfold strip
    apply RK.loop_inv stripBody
      (fun b => b.1.toNat ≠ 0 ∧ ∃ j : Nat, s.1.toNat = b.1.toNat * 10 ^ j ∧ b.2.toInt = s.2.toInt + j)
      (fun b => ∃ j : Nat, s.1.toNat = b.1.toNat * 10 ^ j ∧ b.2.toInt = s.2.toInt + j ∧ b.1.toNat % 10 ≠ 0)
      (fun b => b.1.toNat) _ s ⟨h0, 0, by simp, by simp⟩
    rintro b ⟨hb0, j, hj, hje⟩
    obtain ⟨q, r, e, hq, hr⟩ := U128_div10_spec b.1
    have hjle : j ≤ 38 := by
      apply pow_le_of_lt_2_128
      have := s.1.toNat_lt
      have hb1 : 1 ≤ b.1.toNat := by omega
      calc 10 ^ j = 1 * 10 ^ j := by ring
        _ ≤ b.1.toNat * 10 ^ j := Nat.mul_le_mul_right _ hb1
        _ < 2 ^ 128 := by rw [← hj]; exact this
    by_cases hr0 : (r != (0 : UInt64)) = true
    · right
      refine ⟨(b.1, b.2), ?_, j, hj, hje, ?_⟩
      · simp only [stripBody, if_true, e, RK.ok_bind, hr0]; rfl
      · rw [RK.u64_ne_zero_iff, decide_eq_true_eq, hr] at hr0; exact hr0
    · left
      have hr0' : b.1.toNat % 10 = 0 := by
        rw [RK.u64_ne_zero_iff, decide_eq_true_eq, hr] at hr0; omega
      have hexp : (b.2 + 1).toInt = b.2.toInt + 1 := by
        have := b.2.le_toInt
        rw [Int16.toInt_add_of] <;> simp <;> omega
      refine ⟨(q, b.2 + 1), ?_, ⟨?_, j + 1, ?_, ?_⟩, ?_⟩
      · simp only [stripBody, if_true, e, RK.ok_bind, hr0]; rfl
      · show q.toNat ≠ 0
        rw [hq]; omega
      · show s.1.toNat = q.toNat * 10 ^ (j + 1)
        rw [hq, hj, pow_succ]
        have : b.1.toNat = b.1.toNat / 10 * 10 := by omega
        conv_lhs => rw [this]
        ring
      · show (b.2 + 1).toInt = s.2.toInt + ((j + 1 : Nat) : Int)
        rw [hexp, hje]; push_cast; ring
      · show q.toNat < b.1.toNat
        rw [hq]; omega
  obtain ⟨s', hs, j, hj, hje, hm⟩ := key
  refine ⟨j, s', hs, hj, hje, hm, ?_⟩
  apply pow_le_of_lt_2_128
  have := s.1.toNat_lt
  have hb1 : 1 ≤ s'.1.toNat := by omega
  calc 10 ^ j = 1 * 10 ^ j := by ring
    _ ≤ s'.1.toNat * 10 ^ j := Nat.mul_le_mul_right _ hb1
    _ < 2 ^ 128 := by rw [← hj]; exact this

/-- the parity test on the last digit -/
theorem parity_digit (r : UInt64) (n : Nat) (hr : r.toNat = n % 10) :
    ((r &&& (1 : UInt64)) != (0 : UInt64)) = decide (n % 2 = 1) := by
  rw [RK.u64_ne_zero_iff]
  apply decide_eq_decide.2
  rw [UInt64.toNat_and]
  have : (1 : UInt64).toNat = 1 := rfl
  rw [this, Nat.and_one_is_mod, hr]
  omega

/-- `|x| = 1` -/
def absOne : Spec.Val → Bool
  | .fin _ c e => Spec.mag c e == 1
  | _ => false


theorem u128_beq (a b : U128) : (a == b) = decide (a.toNat = b.toNat) := by
  by_cases h : a = b
  · subst h; simp
  · have : ¬ a.toNat = b.toNat := fun e => h (U128.toNat_inj e)
    simp [h, this]

theorem i16_le_iff (a b : Int16) : decide (a ≤ b) = decide (a.toInt ≤ b.toInt) := by
  apply decide_eq_decide.2; exact Int16.le_iff_toInt_le
theorem i16_lt_iff (a b : Int16) : decide (a < b) = decide (a.toInt < b.toInt) := by
  apply decide_eq_decide.2; exact Int16.lt_iff_toInt_lt

/-- `mag c e = 1` in terms of the coefficient (any exponent) -/
theorem mag_one_iff (c : Nat) (e : Int) :
    (Spec.mag c e == 1) = decide (e ≤ 0 ∧ c = 10 ^ (-e).toNat) := by
  by_cases he : e ≤ 0
  · rw [mag_eq_one_iff c e he]; simp [he]
  · have hne : ¬ (e ≤ 0 ∧ c = 10 ^ (-e).toNat) := fun h => he h.1
    rw [decide_eq_false hne]
    by_cases hc : c = 0
    · subst hc; rw [mag_zero]; decide
    · have := mag_pos_exp c e hc (by omega)
      simp only [beq_eq_false_iff_ne]; exact ne_of_gt this

theorem isOne_eq (d : Decimal) : Gen.Decimal.isOne d = .ok (absOne 𝔳[d]) := by
  unfold Gen.Decimal.isOne
  cases a3 : Gen.Decimal.isSpecial d
  · have av := Enc.interp_decompose d a3
    have h0 := Enc.decompose_exp_nonneg d
    have h1 := Enc.decompose_exp_le d a3
    have hc := Enc.decompose_sig_le d
    have hC := pow39_gt_Cmax
    rw [av]
    simp only [if_false, Bool.false_eq_true, absOne, mag_one_iff]
    generalize hE : (Gen.Decimal.decompose d).2 = E at *
    generalize hS : (Gen.Decimal.decompose d).1 = S at *
    have e6137 : (6137 : Int16).toInt = 6137 := by decide
    have e6176 : (6176 : Int16).toInt = 6176 := by decide
    by_cases c1 : (decide (E ≤ 6137) || decide (E > 6176)) = true
    · simp only [c1, if_true]
      rw [Bool.or_eq_true, decide_eq_true_eq, decide_eq_true_eq, Int16.le_iff_toInt_le, gt_iff_lt,
        Int16.lt_iff_toInt_lt, e6137, e6176] at c1
      have : ¬ (E.toInt - 6176 ≤ 0 ∧ S.toNat = 10 ^ (-(E.toInt - 6176)).toNat) := by
        rintro ⟨h2, h3⟩
        rcases c1 with c1 | c1
        · have hp : 10 ^ 39 ≤ 10 ^ (-(E.toInt - 6176)).toNat := Nat.pow_le_pow_right (by norm_num) (by omega)
          omega
        · omega
      rw [decide_eq_false this]; rfl
    · simp only [c1, if_false, Bool.false_eq_true]
      rw [Bool.or_eq_true, decide_eq_true_eq, decide_eq_true_eq, Int16.le_iff_toInt_le, gt_iff_lt,
        Int16.lt_iff_toInt_lt, e6137, e6176, not_or] at c1
      have hsub : (E - 6176).toInt = E.toInt - 6176 := by
        rw [i16_sub _ _ (by rw [e6176]; omega) (by rw [e6176]; omega), e6176]
      have hidx : Go.idx (-(E - 6176)) = -(E.toInt - 6176) := by
        show (-(E - 6176)).toInt = _
        rw [i16_neg _ (by rw [hsub]; omega), hsub]
      obtain ⟨t, ht, htn⟩ := uint128PowersOf10_vget (Go.idx (-(E - 6176))) (by rw [hidx]; omega) (by rw [hidx]; omega)
      rw [hidx] at htn
      simp only [ht, bind, Except.bind, u128_beq, htn]
      have : (E.toInt - 6176 ≤ 0 ∧ S.toNat = 10 ^ (-(E.toInt - 6176)).toNat) ↔ S.toNat = 10 ^ (-(E.toInt - 6176)).toNat := by
        constructor
        · exact fun h => h.2
        · exact fun h => ⟨by omega, h⟩
      simp only [this]; rfl
  · simp only [if_true]
    rcases view d with ⟨a1, a2, _, a4, av⟩ | ⟨a1, a2, _, a4, av⟩ | ⟨a1, a2, a3', a4, a5, ac, av⟩ | ⟨a1, a2, a3', a4, a5, ac, ab, av⟩
    · rw [av]; rfl
    · rw [av]; rfl
    · rw [a3] at a3'; cases a3'
    · rw [a3] at a3'; cases a3'
end PowPf
