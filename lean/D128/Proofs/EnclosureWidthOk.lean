/-
  Soundness of the enclosure oracle, part 15: an `.ok` verdict for `Exp` is the one-ulp claim up to 3·10^-39
  relative (the width of the enclosure is proved, not assumed).

  1. `trueValue_exp_width` : trueValue .exp n c e = some (tn, t) → 0 < t.m.lo ∧ t.m.hi ≤ t.m.lo·(1 + 3·10^-39)
     (the `nearOne` enclosure has relative width 2·10^-39; `Encl.exp` has 10^-66 by `exp_ratio`)
  2. `exp_ok_close` : judgeElem .exp x r ne = .ok on the enclosure path, finite non-zero r ⇒
        |r − exp x| ≤ 10^eT + 3·10^-39·exp x        (10^eT: spacing of the format at the upper end of the enclosure)
-/
import D128.Proofs.EnclosureWidth
import D128.Proofs.EnclosureJudge
set_option autoImplicit false

namespace EnclPf
open Spec Spec.Encl SpecRound

theorem trueValue_exp_width (n : Bool) (c : Nat) (e : Int) (tn : Bool) (t : Sci)
    (hc0 : c ≠ 0) (hc : c < 10 ^ 35) (h : trueValue .exp n c e = some (tn, t)) :
    0 < t.m.lo ∧ t.m.hi ≤ t.m.lo * (1 + 3 / 10 ^ 39) := by
  rw [trueValue_exp_eq] at h
  have hnd := ndigits_le_35 hc0 hc
  have hnd1 := ndigits_pos c
  split at h
  · exact absurd h (by simp)
  · rename_i h7
    split at h
    · simp only [Option.some.injEq, Prod.mk.injEq] at h
      obtain ⟨-, rfl⟩ := h
      have hu : pow10 (-39) = 1 / 10 ^ 39 := by rw [pow10_eq_zpow]; norm_num
      simp only [hu]
      constructor <;> norm_num
    · rename_i h40
      rw [xguard n c e (by omega) (by omega)] at h
      obtain ⟨s, hs, hst⟩ := Option.map_eq_some_iff.1 h
      simp only [Prod.mk.injEq] at hst
      obtain ⟨-, rfl⟩ := hst
      obtain ⟨p1, p2⟩ := exp_ratio hs (abs_toRat_le_of n hc0 e 7 (by omega))
      refine ⟨p1, le_trans p2 (mul_le_mul_of_nonneg_left (by norm_num) p1.le)⟩

theorem exp_ok_close (n : Bool) (c : Nat) (e : Int) (ne : Bool) (tn : Bool) (t : Sci)
    (rn : Bool) (rc : Nat) (re : Int)
    (hspec : specialCase .exp (.fin n c e) = none)
    (hexact : (if ne then exactCase .exp n c e else none) = none)
    (hhuge : hugeArg .exp c e = false)
    (htv : trueValue .exp n c e = some (tn, t)) (hc : c < 10 ^ 35)
    (h : judgeElem .exp (.fin n c e) (.fin rn (rc + 1) re) ne = .ok) :
    rn = false ∧
    |X rn (rc + 1) re - Real.exp (X n c e)| ≤ (10 : ℝ) ^ (eT t) + 3 / 10 ^ 39 * Real.exp (X n c e) := by
  obtain ⟨hc0, -⟩ := specialCase_none hspec
  obtain ⟨hsgn, hb⟩ := general_ok_sound .exp n c e ne tn t _ hspec hexact hhuge htv hc h
  obtain ⟨w1, w2⟩ := trueValue_exp_width n c e tn t hc0 hc htv
  obtain ⟨htn, hT⟩ := trueValue_exp_sound n c e tn t hc0 hc htv
  have hF : realFn .exp (X n c e) = Real.exp (X n c e) := rfl
  rw [hF] at hsgn hb
  constructor
  · have : ¬ Real.exp (X n c e) < 0 := not_lt.2 (Real.exp_pos _).le
    cases rn
    · rfl
    · exact absurd (hsgn.1 rfl) this
  · have hk : (0 : ℝ) < (10 : ℝ) ^ t.k := zpow_pos (by norm_num) _
    have hge := sciMem_ge_lo hT
    have w2' : ((t.m.hi : ℚ) : ℝ) ≤ ((t.m.lo : ℚ) : ℝ) * (1 + 3 / 10 ^ 39) := by
      have : ((t.m.hi : ℚ) : ℝ) ≤ (((t.m.lo * (1 + 3 / 10 ^ 39) : ℚ)) : ℝ) := by exact_mod_cast w2
      push_cast at this; exact this
    have hwid : ((t.m.hi : ℝ) - (t.m.lo : ℝ)) * (10 : ℝ) ^ t.k ≤ 3 / 10 ^ 39 * Real.exp (X n c e) := by
      have : ((t.m.hi : ℝ) - (t.m.lo : ℝ)) ≤ 3 / 10 ^ 39 * (t.m.lo : ℝ) := by linarith
      calc ((t.m.hi : ℝ) - (t.m.lo : ℝ)) * (10 : ℝ) ^ t.k ≤ 3 / 10 ^ 39 * (t.m.lo : ℝ) * (10 : ℝ) ^ t.k :=
            mul_le_mul_of_nonneg_right this hk.le
        _ = 3 / 10 ^ 39 * ((t.m.lo : ℝ) * (10 : ℝ) ^ t.k) := by ring
        _ ≤ 3 / 10 ^ 39 * Real.exp (X n c e) := mul_le_mul_of_nonneg_left hge (by norm_num)
    linarith

end EnclPf
