/-
  D128/Proofs/PowAccReal.lean — property C18, general path of `Pow`: the real-analysis layer.
  From the error of the computed logarithm to the relative error of the working value of the power.

  Notation: `Lx = |ln|x||`, `Lv` the computed logarithm, `Ya = |y|`, `pv` the computed product `Lv·Ya` (truncated),
  `Vz` the computed `e^pv`, `T = e^(Lx·Ya)`, `Vr` the computed reciprocal.

  Provided (namespace `PowAcc`):
  * `exp_le_quad`      : `0 ≤ a ≤ 1/2 → e^a ≤ 1 + a + 2a²`;   `one_sub_le_exp_neg : 1 − b ≤ e^(−b)`
  * `Bk κ' Lx Ya`      : `Ya·((κ' + 4·10^-57)·Lx + 46·10^-57)`, the bound of `|pv − Lx·Ya|`
  * `prod_close`       : `|Lv − Lx| ≤ κ'·Lx + 45·10^-57`, `Lv·Ya·(1 − 2·10^-57) ≤ pv ≤ Lv·Ya` ⇒ `|pv − Lx·Ya| ≤ Bk`
  * `work_close`       : … and `e^pv·(1 − 10^-38) ≤ Vz ≤ e^pv`, `Bk ≤ 1/2` ⇒ `T·(1 − Bk − 10^-38) ≤ Vz ≤ T·(1 + Bk + 2Bk²)`
  * `rcp_close`        : `T(1 − η) ≤ Vz ≤ T(1 + η)`, `(1/Vz)(1 − 10^-55) ≤ Vr ≤ (1/Vz)(1 + 10^-55)`, `η ≤ 10^-8`
                         ⇒ `(1/T)(1 − η − 2·10^-55) ≤ Vr ≤ (1/T)(1 + η + 2η² + 2·10^-55)`
  * `budget`           : `(κ' + 4·10^-57)(1 + 10^-7) ≤ κ/2`, `Bk ≤ 10^-9` ⇒ with `η = Bk + 2Bk² + 10^-38`:
                         `η + 2η² + 2·10^-55 ≤ Ya·(κ·Lx + 10^-55)/2 + 15·10^-39`
-/
import Mathlib.Analysis.SpecialFunctions.Exp
import Mathlib.Tactic.Linarith
import Mathlib.Tactic.NormNum
import Mathlib.Tactic.Ring
import Mathlib.Tactic.Positivity
set_option autoImplicit false

namespace PowAcc

theorem one_sub_le_exp_neg (b : ℝ) : 1 - b ≤ Real.exp (-b) := by
  have := Real.add_one_le_exp (-b); linarith

theorem exp_le_quad {a : ℝ} (h0 : 0 ≤ a) (h1 : a ≤ 1 / 2) : Real.exp a ≤ 1 + a + 2 * a ^ 2 := by
  have h := one_sub_le_exp_neg a
  have he : Real.exp a = 1 / Real.exp (-a) := by rw [Real.exp_neg]; field_simp
  rw [he, div_le_iff₀ (Real.exp_pos _)]
  have h2 : 1 ≤ (1 + a + 2 * a ^ 2) * (1 - a) := by
    nlinarith [mul_nonneg h0 h0, mul_nonneg (mul_nonneg h0 h0) (by linarith : 0 ≤ 1 / 2 - a)]
  have h3 : 0 < 1 + a + 2 * a ^ 2 := by positivity
  calc (1 : ℝ) ≤ (1 + a + 2 * a ^ 2) * (1 - a) := h2
    _ ≤ (1 + a + 2 * a ^ 2) * Real.exp (-a) := mul_le_mul_of_nonneg_left h h3.le

/-- the bound of the error of the exponent `y·ln|x|` -/
noncomputable def Bk (κ' Lx Ya : ℝ) : ℝ := Ya * ((κ' + 4 / 10 ^ 57) * Lx + 46 / 10 ^ 57)

theorem Bk_nonneg {κ' Lx Ya : ℝ} (hκ : 0 ≤ κ') (hL : 0 ≤ Lx) (hY : 0 ≤ Ya) : 0 ≤ Bk κ' Lx Ya := by
  unfold Bk; positivity

/-- the computed exponent against the true one -/
theorem prod_close {κ' Lx Lv Ya pv : ℝ} (hκ1 : κ' ≤ 1) (hL : 0 < Lx) (hY : 0 < Ya)
    (hLv : |Lv - Lx| ≤ κ' * Lx + 45 / 10 ^ 57)
    (hp1 : Lv * Ya * (1 - 2 / 10 ^ 57) ≤ pv) (hp2 : pv ≤ Lv * Ya) :
    |pv - Lx * Ya| ≤ Bk κ' Lx Ya := by
  obtain ⟨h1, h2⟩ := abs_le.1 hLv
  -- q = Lv·Ya
  set q := Lv * Ya with hq
  have hqup : q ≤ Lx * Ya + Ya * (κ' * Lx + 45 / 10 ^ 57) := by
    have : Lv * Ya ≤ (Lx + (κ' * Lx + 45 / 10 ^ 57)) * Ya := mul_le_mul_of_nonneg_right (by linarith) hY.le
    rw [hq]; linarith
  have hqlo : Lx * Ya - Ya * (κ' * Lx + 45 / 10 ^ 57) ≤ q := by
    have : (Lx - (κ' * Lx + 45 / 10 ^ 57)) * Ya ≤ Lv * Ya := mul_le_mul_of_nonneg_right (by linarith) hY.le
    rw [hq]; linarith
  have hq2 : q ≤ Ya * (2 * Lx + 45 / 10 ^ 57) := by
    have : Ya * (κ' * Lx) ≤ Ya * (1 * Lx) := by
      apply mul_le_mul_of_nonneg_left _ hY.le
      exact mul_le_mul_of_nonneg_right hκ1 hL.le
    nlinarith
  have hθq : 2 / 10 ^ 57 * q ≤ Ya * (4 / 10 ^ 57 * Lx + 1 / 10 ^ 57) := by
    have h3 : 2 / 10 ^ 57 * q ≤ 2 / 10 ^ 57 * (Ya * (2 * Lx + 45 / 10 ^ 57)) :=
      mul_le_mul_of_nonneg_left hq2 (by norm_num)
    have e : (2 : ℝ) / 10 ^ 57 * (Ya * (2 * Lx + 45 / 10 ^ 57)) = Ya * (4 / 10 ^ 57 * Lx + 90 / 10 ^ 114) := by ring
    have h4 : Ya * (4 / 10 ^ 57 * Lx + 90 / 10 ^ 114) ≤ Ya * (4 / 10 ^ 57 * Lx + 1 / 10 ^ 57) := by
      apply mul_le_mul_of_nonneg_left _ hY.le
      have : (90 : ℝ) / 10 ^ 114 ≤ 1 / 10 ^ 57 := by norm_num
      linarith
    linarith
  have e1 : q * (1 - 2 / 10 ^ 57) = q - 2 / 10 ^ 57 * q := by ring
  rw [e1] at hp1
  have eB : Bk κ' Lx Ya = Ya * (κ' * Lx + 45 / 10 ^ 57) + Ya * (4 / 10 ^ 57 * Lx + 1 / 10 ^ 57) := by
    unfold Bk; ring
  have hpos : 0 ≤ Ya * (4 / 10 ^ 57 * Lx + 1 / 10 ^ 57) := by positivity
  rw [abs_le, eB]
  constructor <;> linarith

/-- the working value of `e^(y·ln|x|)` against the true power -/
theorem work_close {B pv p Vz : ℝ} (hB0 : 0 ≤ B) (hB1 : B ≤ 1 / 2) (hp : |pv - p| ≤ B)
    (hz1 : Real.exp pv * (1 - 1 / 10 ^ 38) ≤ Vz) (hz2 : Vz ≤ Real.exp pv) :
    Real.exp p * (1 - B - 1 / 10 ^ 38) ≤ Vz ∧ Vz ≤ Real.exp p * (1 + B + 2 * B ^ 2) := by
  obtain ⟨h1, h2⟩ := abs_le.1 hp
  have hT : 0 < Real.exp p := Real.exp_pos _
  have hsplit : Real.exp pv = Real.exp p * Real.exp (pv - p) := by rw [← Real.exp_add]; congr 1; ring
  constructor
  · -- lower
    have hlo : 1 - B ≤ Real.exp (pv - p) :=
      le_trans (one_sub_le_exp_neg B) (Real.exp_le_exp.2 h1)
    have h3 : Real.exp p * (1 - B) ≤ Real.exp pv := by
      rw [hsplit]; exact mul_le_mul_of_nonneg_left hlo hT.le
    have h4 : Real.exp p * (1 - B) * (1 - 1 / 10 ^ 38) ≤ Real.exp pv * (1 - 1 / 10 ^ 38) :=
      mul_le_mul_of_nonneg_right h3 (by norm_num)
    have h5 : Real.exp p * (1 - B - 1 / 10 ^ 38) ≤ Real.exp p * (1 - B) * (1 - 1 / 10 ^ 38) := by
      have e : Real.exp p * (1 - B) * (1 - 1 / 10 ^ 38)
          = Real.exp p * (1 - B - 1 / 10 ^ 38) + Real.exp p * (B * (1 / 10 ^ 38)) := by ring
      rw [e]
      have : 0 ≤ Real.exp p * (B * (1 / 10 ^ 38)) := by positivity
      linarith
    linarith
  · have hup : Real.exp (pv - p) ≤ 1 + B + 2 * B ^ 2 :=
      le_trans (Real.exp_le_exp.2 h2) (exp_le_quad hB0 hB1)
    calc Vz ≤ Real.exp pv := hz2
      _ = Real.exp p * Real.exp (pv - p) := hsplit
      _ ≤ Real.exp p * (1 + B + 2 * B ^ 2) := mul_le_mul_of_nonneg_left hup hT.le

/-- the reciprocal of a working value close to `T` is close to `1/T` -/
theorem rcp_close {T Vz Vr η : ℝ} (hT : 0 < T) (hη0 : 0 ≤ η) (hη1 : η ≤ 1 / 10 ^ 8)
    (hz1 : T * (1 - η) ≤ Vz) (hz2 : Vz ≤ T * (1 + η))
    (hr1 : 1 / Vz * (1 - 1 / 10 ^ 55) ≤ Vr) (hr2 : Vr ≤ 1 / Vz * (1 + 1 / 10 ^ 55)) :
    1 / T * (1 - η - 2 / 10 ^ 55) ≤ Vr ∧ Vr ≤ 1 / T * (1 + η + 2 * η ^ 2 + 2 / 10 ^ 55) := by
  have h1η : 0 < 1 - η := by
    have : (1 : ℝ) / 10 ^ 8 < 1 := by norm_num
    linarith
  have hVz : 0 < Vz := lt_of_lt_of_le (mul_pos hT h1η) hz1
  have hT' : 0 < 1 / T := by positivity
  -- 1/Vz between 1/(T(1+η)) and 1/(T(1-η))
  have hi1 : 1 / (T * (1 + η)) ≤ 1 / Vz := one_div_le_one_div_of_le hVz hz2
  have hi2 : 1 / Vz ≤ 1 / (T * (1 - η)) := one_div_le_one_div_of_le (mul_pos hT h1η) hz1
  have e1 : 1 / (T * (1 + η)) = 1 / T * (1 / (1 + η)) := by field_simp
  have e2 : 1 / (T * (1 - η)) = 1 / T * (1 / (1 - η)) := by field_simp
  have hf1 : 1 - η ≤ 1 / (1 + η) := by
    rw [le_div_iff₀ (by linarith)]; nlinarith [mul_nonneg hη0 hη0]
  have hf2 : 1 / (1 - η) ≤ 1 + η + 2 * η ^ 2 := by
    rw [div_le_iff₀ h1η]
    have : η ≤ 1 / 2 := by
      have : (1 : ℝ) / 10 ^ 8 ≤ 1 / 2 := by norm_num
      linarith
    nlinarith [mul_nonneg hη0 hη0, mul_nonneg (mul_nonneg hη0 hη0) (by linarith : 0 ≤ 1 / 2 - η)]
  constructor
  · have h3 : 1 / T * (1 - η) ≤ 1 / Vz := by
      calc 1 / T * (1 - η) ≤ 1 / T * (1 / (1 + η)) := mul_le_mul_of_nonneg_left hf1 hT'.le
        _ = 1 / (T * (1 + η)) := e1.symm
        _ ≤ 1 / Vz := hi1
    have h4 : 1 / T * (1 - η) * (1 - 1 / 10 ^ 55) ≤ 1 / Vz * (1 - 1 / 10 ^ 55) :=
      mul_le_mul_of_nonneg_right h3 (by norm_num)
    have h5 : 1 / T * (1 - η - 2 / 10 ^ 55) ≤ 1 / T * (1 - η) * (1 - 1 / 10 ^ 55) := by
      rw [mul_assoc]
      apply mul_le_mul_of_nonneg_left _ hT'.le
      nlinarith
    linarith
  · have h3 : 1 / Vz ≤ 1 / T * (1 + η + 2 * η ^ 2) := by
      calc 1 / Vz ≤ 1 / (T * (1 - η)) := hi2
        _ = 1 / T * (1 / (1 - η)) := e2
        _ ≤ 1 / T * (1 + η + 2 * η ^ 2) := mul_le_mul_of_nonneg_left hf2 hT'.le
    have h4 : 1 / Vz * (1 + 1 / 10 ^ 55) ≤ 1 / T * (1 + η + 2 * η ^ 2) * (1 + 1 / 10 ^ 55) :=
      mul_le_mul_of_nonneg_right h3 (by norm_num)
    have h5 : 1 / T * (1 + η + 2 * η ^ 2) * (1 + 1 / 10 ^ 55) ≤ 1 / T * (1 + η + 2 * η ^ 2 + 2 / 10 ^ 55) := by
      rw [mul_assoc]
      apply mul_le_mul_of_nonneg_left _ hT'.le
      have hη2 : η ^ 2 ≤ 1 / 10 ^ 8 := by
        have : η ^ 2 ≤ η * 1 := by rw [pow_two]; apply mul_le_mul_of_nonneg_left _ hη0; linarith [show (1:ℝ)/10^8 ≤ 1 by norm_num]
        linarith
      nlinarith
    linarith

/-- the error budget: everything fits into half the tolerance plus `1.5·10^-38` -/
theorem budget {κ' κ Lx Ya : ℝ} (hκ0 : 0 ≤ κ') (hL : 0 ≤ Lx) (hY : 0 ≤ Ya)
    (hκ : (κ' + 4 / 10 ^ 57) * (1 + 1 / 10 ^ 7) ≤ κ / 2) (hB : Bk κ' Lx Ya ≤ 1 / 10 ^ 9) :
    (Bk κ' Lx Ya + 2 * Bk κ' Lx Ya ^ 2 + 1 / 10 ^ 38)
      + 2 * (Bk κ' Lx Ya + 2 * Bk κ' Lx Ya ^ 2 + 1 / 10 ^ 38) ^ 2 + 2 / 10 ^ 55
      ≤ Ya * (κ * Lx + 1 / 10 ^ 55) / 2 + 15 / 10 ^ 39 := by
  have hB0 := Bk_nonneg hκ0 hL hY
  set B := Bk κ' Lx Ya with hBdef
  -- B(1 + 1e-7) ≤ tol/2
  have h1 : B * (1 + 1 / 10 ^ 7) ≤ Ya * (κ * Lx + 1 / 10 ^ 55) / 2 := by
    have e : B * (1 + 1 / 10 ^ 7)
        = Ya * (((κ' + 4 / 10 ^ 57) * (1 + 1 / 10 ^ 7)) * Lx + 46 / 10 ^ 57 * (1 + 1 / 10 ^ 7)) := by
      rw [hBdef]; unfold Bk; ring
    rw [e]
    have e2 : Ya * (κ * Lx + 1 / 10 ^ 55) / 2 = Ya * (κ / 2 * Lx + 50 / 10 ^ 57) := by ring
    rw [e2]
    apply mul_le_mul_of_nonneg_left _ hY
    have h3 : (κ' + 4 / 10 ^ 57) * (1 + 1 / 10 ^ 7) * Lx ≤ κ / 2 * Lx := mul_le_mul_of_nonneg_right hκ hL
    have h4 : (46 : ℝ) / 10 ^ 57 * (1 + 1 / 10 ^ 7) ≤ 50 / 10 ^ 57 := by norm_num
    linarith
  -- the quadratic terms
  have hBB : B ^ 2 ≤ 1 / 10 ^ 9 * B := by rw [pow_two]; exact mul_le_mul_of_nonneg_right hB hB0
  set η := B + 2 * B ^ 2 + 1 / 10 ^ 38 with hη
  have hη0 : 0 ≤ η := by positivity
  have hηle : η ≤ 2 / 10 ^ 9 := by
    have : B ^ 2 ≤ 1 / 10 ^ 18 := by
      have : 1 / 10 ^ 9 * B ≤ 1 / 10 ^ 9 * (1 / 10 ^ 9) := mul_le_mul_of_nonneg_left hB (by norm_num)
      have e : (1 : ℝ) / 10 ^ 9 * (1 / 10 ^ 9) = 1 / 10 ^ 18 := by norm_num
      linarith
    rw [hη]
    have : (1 : ℝ) / 10 ^ 9 + 2 * (1 / 10 ^ 18) + 1 / 10 ^ 38 ≤ 2 / 10 ^ 9 := by norm_num
    linarith
  have hηη : η ^ 2 ≤ 2 / 10 ^ 9 * η := by rw [pow_two]; exact mul_le_mul_of_nonneg_right hηle hη0
  -- η + 2η² ≤ η(1 + 4e-9) ≤ B(1+2e-9)(1+4e-9) + 1e-38(1+4e-9)
  have h5 : η ≤ B * (1 + 2 / 10 ^ 9) + 1 / 10 ^ 38 := by rw [hη]; linarith
  have h6 : η + 2 * η ^ 2 ≤ η * (1 + 4 / 10 ^ 9) := by linarith
  have h7 : η * (1 + 4 / 10 ^ 9) ≤ (B * (1 + 2 / 10 ^ 9) + 1 / 10 ^ 38) * (1 + 4 / 10 ^ 9) :=
    mul_le_mul_of_nonneg_right h5 (by norm_num)
  have h8 : (B * (1 + 2 / 10 ^ 9) + 1 / 10 ^ 38) * (1 + 4 / 10 ^ 9)
      ≤ B * (1 + 1 / 10 ^ 7) + 11 / 10 ^ 39 := by
    have e : (B * (1 + 2 / 10 ^ 9) + 1 / 10 ^ 38) * (1 + 4 / 10 ^ 9)
        = B * ((1 + 2 / 10 ^ 9) * (1 + 4 / 10 ^ 9)) + 1 / 10 ^ 38 * (1 + 4 / 10 ^ 9) := by ring
    rw [e]
    have h9 : B * ((1 + 2 / 10 ^ 9) * (1 + 4 / 10 ^ 9)) ≤ B * (1 + 1 / 10 ^ 7) :=
      mul_le_mul_of_nonneg_left (by norm_num) hB0
    have h10 : (1 : ℝ) / 10 ^ 38 * (1 + 4 / 10 ^ 9) ≤ 11 / 10 ^ 39 := by norm_num
    linarith
  have h11 : (11 : ℝ) / 10 ^ 39 + 2 / 10 ^ 55 ≤ 15 / 10 ^ 39 := by norm_num
  linarith

end PowAcc
