/-
  Table facts for the library's logarithm constants (support for C16): every constant of the generated tables
  `Gen.ln10`, `Gen.ln2`, `Gen.invLn10`, `Gen.invLn2` and `Gen.ln` (ln 1.1 … ln 9.9, /repo/decomposed.go:36) is the
  real constant correctly rounded to the table's last digit: |sig·10^exp − C| ≤ ½·10^exp, hence within
  5.3·10^-57 (< 10^-56) relative of it.

  Method: `ln10`, `ln2` and their reciprocals are compared (rational arithmetic, `decide +kernel`) with the
  proved enclosures `ln10_sound`, `ln2_sound`, `mem_invPos`.  For ln(n/10), n = 11 … 99, write
  n/10 = r·2^j with 1 ≤ r < 2 and t = (r−1)/(r+1) ∈ [0, 1/3):  ln(n/10) = j·ln 2 + 2·artanh t, and
  `atanhQ t 70` (exact rational partial sum of the artanh series plus the geometric tail bound, proved by
  `atanh_series_bounds`) encloses artanh t to 10^-66.

  1. `atanhQ`, `atanhQ_sound`   : 0 ≤ t < 1 → (atanhQ t N).1 ≤ (log(1+t) − log(1−t))/2 ≤ (atanhQ t N).2
  2. `lnEntryCheck`, `lnEntry_sound` : the decidable certificate for one table entry and its meaning
  3. `ln10_table`, `ln2_table`, `invLn10_table`, `invLn2_table` : the four single constants (exponents −57, −57, −58, −57)
     `ln_table i (i < 89)`      : |Gen.ln[i]·10^-57 − Real.log ((i+11)/10)| ≤ ½·10^-57
     `ln_table_rel`             : … ≤ 10^-56 · Real.log ((i+11)/10)
-/
import D128.Gen.Decomposed
import D128.Proofs.EnclosureExact
set_option autoImplicit false

namespace EnclPf
open Spec Spec.Encl SpecRound

/-! ## 1. a rational enclosure of artanh -/

/-- exact partial sum of the artanh series at `t`, and the partial sum plus the geometric tail bound -/
def atanhQ (t : ℚ) (N : ℕ) : ℚ × ℚ :=
  let r := (List.range N).foldl (fun (acc : ℚ × ℚ) i =>
      (acc.1 + acc.2 / ((2 * i + 1 : Nat) : ℚ), acc.2 * (t * t))) ((0 : ℚ), t)
  (r.1, r.1 + r.2 / (((2 * N + 1 : Nat) : ℚ) * (1 - t * t)))

theorem atanhQ_sound (t : ℚ) (h0 : 0 ≤ t) (h1 : t < 1) (N : ℕ) :
    (((atanhQ t N).1 : ℚ) : ℝ) ≤ (Real.log (1 + (t : ℝ)) - Real.log (1 - (t : ℝ))) / 2 ∧
    (Real.log (1 + (t : ℝ)) - Real.log (1 - (t : ℝ))) / 2 ≤ (((atanhQ t N).2 : ℚ) : ℝ) := by
  have h0' : (0 : ℝ) ≤ (t : ℝ) := by exact_mod_cast h0
  have h1' : (t : ℝ) < 1 := by exact_mod_cast h1
  obtain ⟨b1, b2⟩ := atanh_series_bounds h0' h1' N
  unfold atanhQ
  simp only [atanh_fold]
  constructor
  · push_cast at b1 ⊢; exact b1
  · push_cast at b2 ⊢; exact b2

/-! ## 2. the certificate for one entry of the `ln` table -/

/-- the power of two used to reduce n/10 into [1, 2) -/
def lnShift (n : ℕ) : ℕ := if n < 20 then 0 else if n < 40 then 1 else if n < 80 then 2 else 3

/-- certificate that `N·10^-57` is `ln(n/10)` rounded to nearest -/
def lnEntryCheck (n N : ℕ) : Bool :=
  let j := lnShift n
  let r : ℚ := (n : ℚ) / (10 * 2 ^ j)
  let t : ℚ := (r - 1) / (r + 1)
  let a := atanhQ t 70
  decide (1 ≤ r) && decide (r < 2) &&
  decide (((N : ℚ) - 1 / 2) / 10 ^ 57 ≤ (j : ℚ) * ln2.lo + 2 * a.1) &&
  decide ((j : ℚ) * ln2.hi + 2 * a.2 ≤ ((N : ℚ) + 1 / 2) / 10 ^ 57)

theorem lnEntry_sound (n N : ℕ) (h : lnEntryCheck n N = true) :
    |(N : ℝ) * (10 : ℝ) ^ (-57 : ℤ) - Real.log ((n : ℝ) / 10)| ≤ 1 / 2 * (10 : ℝ) ^ (-57 : ℤ) := by
  unfold lnEntryCheck at h
  simp only [Bool.and_eq_true, decide_eq_true_eq] at h
  obtain ⟨⟨⟨hr1, hr2⟩, hlo⟩, hhi⟩ := h
  set j := lnShift n with hj
  set r : ℚ := (n : ℚ) / (10 * 2 ^ j) with hr
  set t : ℚ := (r - 1) / (r + 1) with ht
  have hrpos : (0 : ℚ) < r + 1 := by linarith
  have ht0 : 0 ≤ t := div_nonneg (by linarith) hrpos.le
  have ht1 : t < 1 := by rw [ht, div_lt_one hrpos]; linarith
  obtain ⟨a1, a2⟩ := atanhQ_sound t ht0 ht1 70
  -- log r = log(1+t) − log(1−t)
  have hrR : (0 : ℝ) < (r : ℝ) := by exact_mod_cast (by linarith : (0 : ℚ) < r)
  have hr1R : (0 : ℝ) < (r : ℝ) + 1 := by linarith
  have hlogr : Real.log (1 + (t : ℝ)) - Real.log (1 - (t : ℝ)) = Real.log (r : ℝ) := by
    have e1 : 1 + (t : ℝ) = 2 * (r : ℝ) / ((r : ℝ) + 1) := by
      rw [ht]; push_cast; field_simp; ring
    have e2 : 1 - (t : ℝ) = 2 / ((r : ℝ) + 1) := by
      rw [ht]; push_cast; field_simp; ring
    rw [e1, e2, ← Real.log_div (by positivity) (by positivity)]
    congr 1; field_simp
  -- log (n/10) = j log 2 + log r
  have hsplit : Real.log ((n : ℝ) / 10) = (j : ℝ) * Real.log 2 + Real.log (r : ℝ) := by
    have : (n : ℝ) / 10 = (2 : ℝ) ^ j * (r : ℝ) := by
      rw [hr]; push_cast; field_simp
    rw [this, Real.log_mul (by positivity) hrR.ne', Real.log_pow]
  have l1 := ln2_sound.1
  have l2 := ln2_sound.2
  have hj0 : (0 : ℝ) ≤ (j : ℝ) := by positivity
  have m1 : (j : ℝ) * ((ln2.lo : ℚ) : ℝ) ≤ (j : ℝ) * Real.log 2 := mul_le_mul_of_nonneg_left l1 hj0
  have m2 : (j : ℝ) * Real.log 2 ≤ (j : ℝ) * ((ln2.hi : ℚ) : ℝ) := mul_le_mul_of_nonneg_left l2 hj0
  have hlo' : ((((N : ℚ) - 1 / 2) / 10 ^ 57 : ℚ) : ℝ) ≤ (((j : ℚ) * ln2.lo + 2 * (atanhQ t 70).1 : ℚ) : ℝ) := by
    exact_mod_cast hlo
  have hhi' : (((j : ℚ) * ln2.hi + 2 * (atanhQ t 70).2 : ℚ) : ℝ) ≤ ((((N : ℚ) + 1 / 2) / 10 ^ 57 : ℚ) : ℝ) := by
    exact_mod_cast hhi
  push_cast at hlo' hhi'
  have e57 : (10 : ℝ) ^ (-57 : ℤ) = 1 / (10 : ℝ) ^ 57 := by
    rw [zpow_neg, one_div]; norm_cast
  rw [e57, hsplit, ← hlogr, abs_le]
  have hp : (0 : ℝ) < (10 : ℝ) ^ 57 := by positivity
  constructor
  · have : ((N : ℝ) + 1 / 2) / 10 ^ 57 = (N : ℝ) * (1 / 10 ^ 57) + 1 / 2 * (1 / 10 ^ 57) := by ring
    linarith
  · have : ((N : ℝ) - 1 / 2) / 10 ^ 57 = (N : ℝ) * (1 / 10 ^ 57) - 1 / 2 * (1 / 10 ^ 57) := by ring
    linarith

/-! ## 3. the tables -/

theorem ln10_exp : Gen.ln10.exp = -57 := rfl
theorem ln2_exp : Gen.ln2.exp = -57 := rfl
theorem invLn10_exp : Gen.invLn10.exp = -58 := rfl
theorem invLn2_exp : Gen.invLn2.exp = -57 := rfl

/-- a rational sandwich ⇒ the correctly-rounded statement -/
theorem round_of_sandwich {C : ℝ} {lo hi : ℚ} {N : ℕ} {m : ℕ} (h1 : (lo : ℝ) ≤ C) (h2 : C ≤ (hi : ℝ))
    (c1 : ((N : ℚ) - 1 / 2) / 10 ^ m ≤ lo) (c2 : hi ≤ ((N : ℚ) + 1 / 2) / 10 ^ m) :
    |(N : ℝ) * (10 : ℝ) ^ (-(m : ℤ)) - C| ≤ 1 / 2 * (10 : ℝ) ^ (-(m : ℤ)) := by
  have c1' : ((((N : ℚ) - 1 / 2) / 10 ^ m : ℚ) : ℝ) ≤ (lo : ℝ) := by exact_mod_cast c1
  have c2' : (hi : ℝ) ≤ ((((N : ℚ) + 1 / 2) / 10 ^ m : ℚ) : ℝ) := by exact_mod_cast c2
  push_cast at c1' c2'
  have em : (10 : ℝ) ^ (-(m : ℤ)) = 1 / (10 : ℝ) ^ m := by
    rw [zpow_neg, one_div, zpow_natCast]
  rw [em, abs_le]
  have hp : (0 : ℝ) < (10 : ℝ) ^ m := by positivity
  constructor
  · have : ((N : ℝ) + 1 / 2) / 10 ^ m = (N : ℝ) * (1 / 10 ^ m) + 1 / 2 * (1 / 10 ^ m) := by ring
    linarith
  · have : ((N : ℝ) - 1 / 2) / 10 ^ m = (N : ℝ) * (1 / 10 ^ m) - 1 / 2 * (1 / 10 ^ m) := by ring
    linarith

/-- `Gen.ln10` is ln 10 rounded to 57 decimals -/
theorem ln10_table :
    |(Gen.ln10.sig.toNat : ℝ) * (10 : ℝ) ^ (-57 : ℤ) - Real.log 10| ≤ 1 / 2 * (10 : ℝ) ^ (-57 : ℤ) :=
  round_of_sandwich (m := 57) ln10_sound.1 ln10_sound.2 (by decide +kernel) (by decide +kernel)

/-- `Gen.ln2` is ln 2 rounded to 57 decimals -/
theorem ln2_table :
    |(Gen.ln2.sig.toNat : ℝ) * (10 : ℝ) ^ (-57 : ℤ) - Real.log 2| ≤ 1 / 2 * (10 : ℝ) ^ (-57 : ℤ) :=
  round_of_sandwich (m := 57) ln2_sound.1 ln2_sound.2 (by decide +kernel) (by decide +kernel)

/-- `Gen.invLn10` is 1/ln 10 rounded to 58 decimals -/
theorem invLn10_table :
    |(Gen.invLn10.sig.toNat : ℝ) * (10 : ℝ) ^ (-58 : ℤ) - 1 / Real.log 10| ≤ 1 / 2 * (10 : ℝ) ^ (-58 : ℤ) :=
  round_of_sandwich (m := 58) ln10_inv_sound.1 ln10_inv_sound.2 (by decide +kernel) (by decide +kernel)

/-- `Gen.invLn2` is 1/ln 2 rounded to 57 decimals -/
theorem invLn2_table :
    |(Gen.invLn2.sig.toNat : ℝ) * (10 : ℝ) ^ (-57 : ℤ) - 1 / Real.log 2| ≤ 1 / 2 * (10 : ℝ) ^ (-57 : ℤ) :=
  round_of_sandwich (m := 57) ln2_inv_sound.1 ln2_inv_sound.2 (by decide +kernel) (by decide +kernel)

/-- all 89 certificates, evaluated by the kernel -/
theorem ln_table_check : ∀ i : Fin 89, lnEntryCheck (i.val + 11) (Gen.ln[i]).toNat = true := by
  decide +kernel

/-- `Gen.ln[i]` is ln((i+11)/10) — i.e. ln 1.1, …, ln 9.9 — rounded to 57 decimals -/
theorem ln_table (i : Fin 89) :
    |((Gen.ln[i]).toNat : ℝ) * (10 : ℝ) ^ (-57 : ℤ) - Real.log (((i.val + 11 : ℕ) : ℝ) / 10)| ≤
      1 / 2 * (10 : ℝ) ^ (-57 : ℤ) :=
  lnEntry_sound _ _ (ln_table_check i)

/-- relative form: every entry of the `ln` table is within 10^-56 relative of the true logarithm -/
theorem ln_table_rel (i : Fin 89) :
    |((Gen.ln[i]).toNat : ℝ) * (10 : ℝ) ^ (-57 : ℤ) - Real.log (((i.val + 11 : ℕ) : ℝ) / 10)| ≤
      (10 : ℝ) ^ (-56 : ℤ) * Real.log (((i.val + 11 : ℕ) : ℝ) / 10) := by
  refine le_trans (ln_table i) ?_
  -- log((i+11)/10) ≥ log 1.1 ≥ 1/20
  have hq : (11 / 10 : ℝ) ≤ ((i.val + 11 : ℕ) : ℝ) / 10 := by
    rw [div_le_div_iff_of_pos_right (by norm_num)]; push_cast; linarith [Nat.cast_nonneg (α := ℝ) i.val]
  have h1 : Real.log (11 / 10) ≤ Real.log (((i.val + 11 : ℕ) : ℝ) / 10) :=
    Real.log_le_log (by norm_num) hq
  have h2 : (1 / 20 : ℝ) ≤ Real.log (11 / 10) := by
    have := Real.one_sub_inv_le_log_of_pos (by norm_num : (0 : ℝ) < 11 / 10)
    norm_num at this ⊢; linarith
  have e : (10 : ℝ) ^ (-56 : ℤ) = 10 * (10 : ℝ) ^ (-57 : ℤ) := by norm_num
  have hp : (0 : ℝ) < (10 : ℝ) ^ (-57 : ℤ) := by positivity
  rw [e]
  nlinarith

end EnclPf
