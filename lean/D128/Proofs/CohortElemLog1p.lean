/-
  D128/Proofs/CohortElemLog1p.lean — property C19 for `Gen.Log1p` on its general path (finite, non-zero argument above −1):
  the result does not depend on the encoding of the operand, BIT FOR BIT, for every default rounding mode.

  Structure of `Log1p` (Go: /repo/exp.go) and why each part is encoding independent:
  (a) the domain checks for negative `d` (`dExp > 0`, the comparison of `dSig` with `10^-dExp`) are functions of the value
      (`x ≤ −1`): `L1pDom.transfer`;
  (b) the branch test `int16(dSig.log10()) + dExp > −10` is `⌊log10 |x|⌋ > −10`: `l10_congr`;
  (c) branch `|x| ≥ 10^-9`: `add1` / `add1neg` (flag discarded) return registers of one value below `10·LIM`
      (CohortElemLog1pOne.lean: `add1_big`, `Add1V.congr`, `add1neg_big`), and `log` is a function of the value
      (`CohortElem.log_congr`);  — NO encoding-dependent early-out is taken: for a Decimal argument in this branch
      `d.exp ≥ −43`, so `add1` never drops a digit of `d`, and for `d.exp > 0` both cohort members are scaled to the same
      register (or both are returned unchanged/full because `x ≥ 10·LIM`, where `val r = x` in both runs);
  (d) branch `|x| < 10^-9`: the series `decomposed192.log1p` returns the same `(neg, res, trunc)`
      (CohortElemLog1pSeries.lean: `log1p_congr`) — proved for exponents `≥ −1588` of both encodings (the windows of the
      operation lemmas); below that only checked by evaluation (no counterexample, also in the `int16` wrap-around regime
      `e < −3264` where `Log1p` is wrong anyway: it is wrong in the same way for all cohort members tested).

  Provided (namespace `CohortElem`):
  * `L1pDom d`      : general path: not special, not zero, and `x > −1` for negative `d` (the hypotheses of `Log1p_eq_neg`)
  * `L1pDom.transfer`, `Log1p_body`, `body_big`, `body_small`, `l10_congr`, `lt_one_iff`, `big_iff`, `val_small`
  * **`log1p_encoding_independent_big`**   : `d ~ d'`, `L1pDom d`, `|x| ≥ 10^-9` ⇒ `Gen.Log1p g d = Gen.Log1p g d'`
  * **`log1p_encoding_independent_small_partial`** : `d ~ d'`, `L1pDom d`, `|x| < 10^-9`, exponents of both encodings
                                                      `≥ −1588` ⇒ `Gen.Log1p g d = Gen.Log1p g d'`
  * **`log1p_encoding_independent_partial`** : the union; `…_c19` : the C19 form `∃ r r', … = .ok r ∧ … = .ok r' ∧ same`
-/
import D128.Proofs.CohortElemLog
import D128.Proofs.CohortElemLog1pOne
import D128.Proofs.CohortElemLog1pSeries
import D128.Proofs.LogAccLog1pTop
import D128.Proofs.TotalLog1pWrap
set_option autoImplicit false
set_option maxRecDepth 4096
set_option linter.unusedVariables false
set_option exponentiation.threshold 512

namespace CohortElem
open Gen D192 Root LogAcc D128.Proofs.WordsWide
local notation "𝔳[" d "]" => Spec.interp (Gen.Decimal.lo d) (Gen.Decimal.hi d)

theorem ok_bind' {α β : Type} (a : α) (f : α → Go.GoM β) : ((Except.ok a : Go.GoM α) >>= f) = f a := rfl

theorem cf_lt (d : Decimal) : Sp.cf d < 10 ^ 35 := by
  have := Enc.decompose_sig_le d
  unfold Spec.Cmax at this
  show (Decimal.decompose d).1.toNat < _
  omega

theorem cf_log_le (d : Decimal) : Nat.log 10 (Decimal.decompose d).1.toNat ≤ 34 := by
  show Nat.log 10 (Sp.cf d) ≤ 34
  have h := cf_lt d
  by_contra hc
  have : 10 ^ 35 ≤ Sp.cf d := by
    have h0 : Sp.cf d ≠ 0 := by
      intro h0; rw [h0] at hc; simp at hc
    exact Nat.pow_le_of_le_log h0 (by omega)
  omega

/-- the decimal exponent `⌊log10 |x|⌋` of two encodings of one value -/
theorem l10_congr (d d' : Decimal) (h0 : Sp.cf d ≠ 0)
    (hq : ((Sp.cf d : Nat) : ℚ) * (10 : ℚ) ^ (Sp.ex d) = ((Sp.cf d' : Nat) : ℚ) * (10 : ℚ) ^ (Sp.ex d')) :
    (Nat.log 10 (Sp.cf d) : ℤ) + Sp.ex d = (Nat.log 10 (Sp.cf d') : ℤ) + Sp.ex d' := by
  have h0' : Sp.cf d' ≠ 0 := by
    intro h
    rw [h] at hq
    have hp : (0 : ℚ) < (10 : ℚ) ^ (Sp.ex d) := zpow_pos (by norm_num) _
    have : ((Sp.cf d : Nat) : ℚ) = 0 := by
      have hq' : ((Sp.cf d : Nat) : ℚ) * (10 : ℚ) ^ (Sp.ex d) = 0 := by rw [hq]; simp
      rcases mul_eq_zero.mp hq' with h | h
      · exact h
      · exact absurd h hp.ne'
    exact h0 (by exact_mod_cast this)
  rcases le_total (Sp.ex d') (Sp.ex d) with hle | hle
  · have := q_eq_nat hq hle
    rw [this, log10_mul_pow _ _ h0]
    push_cast
    omega
  · have := q_eq_nat hq.symm hle
    rw [this, log10_mul_pow _ _ h0']
    push_cast
    omega

/-- `|x| < 1` in terms of coefficient and exponent -/
theorem lt_one_iff (c : Nat) (e : Int) (hc : c ≠ 0) :
    (c : ℚ) * (10 : ℚ) ^ e < 1 ↔ e ≤ 0 ∧ c < 10 ^ (-e).toNat := by
  have hp : (0 : ℚ) < (10 : ℚ) ^ e := zpow_pos (by norm_num) _
  have h1 : (1 : ℚ) ≤ (c : ℚ) := by exact_mod_cast Nat.one_le_iff_ne_zero.mpr hc
  constructor
  · intro h
    have he : e ≤ 0 := by
      by_contra hn
      have : (1 : ℚ) ≤ (10 : ℚ) ^ e := one_le_zpow₀ (by norm_num) (by omega)
      nlinarith
    refine ⟨he, ?_⟩
    have hpe := LogAcc.pow_neg_cancel e he
    by_contra hn
    rw [not_lt] at hn
    have h2 : ((10 ^ (-e).toNat : Nat) : ℚ) ≤ (c : ℚ) := by exact_mod_cast hn
    push_cast at h2
    have := mul_le_mul_of_nonneg_right h2 hp.le
    rw [mul_comm ((10 : ℚ) ^ (-e).toNat), hpe] at this
    linarith
  · rintro ⟨he, hlt⟩
    have hpe := LogAcc.pow_neg_cancel e he
    have h2 : (c : ℚ) < ((10 ^ (-e).toNat : Nat) : ℚ) := by exact_mod_cast hlt
    push_cast at h2
    have := mul_lt_mul_of_pos_right h2 hp
    rw [mul_comm ((10 : ℚ) ^ (-e).toNat), hpe] at this
    exact this

/-- general path of `Log1p`: finite, non-zero, above −1 -/
def L1pDom (d : Decimal) : Prop :=
  Decimal.isSpecial d = false ∧ Decimal.IsZero d = false ∧
    (Decimal.Signbit d = true → Sp.ex d ≤ 0 ∧ Sp.cf d < 10 ^ (-(Sp.ex d)).toNat)

theorem cf_ne_zero (d : Decimal) (h2 : Decimal.IsZero d = false) : Sp.cf d ≠ 0 := by
  have := Sp.IsZero_eq_sig d; rw [h2] at this; simpa using this.symm

theorem L1pDom.transfer {d d' : Decimal} (hd : L1pDom d) (h : (𝔳[d]).same 𝔳[d'] = true) : L1pDom d' := by
  obtain ⟨h1, h2, h3⟩ := hd
  obtain ⟨h1', hsb, hz, hq⟩ := fin_args d d' h h1
  have h2' : Decimal.IsZero d' = false := by rw [hz]; exact h2
  refine ⟨h1', h2', fun hs => ?_⟩
  rw [hsb] at hs
  have := (lt_one_iff (Sp.cf d) (Sp.ex d) (cf_ne_zero d h2)).mpr (h3 hs)
  exact (lt_one_iff (Sp.cf d') (Sp.ex d') (cf_ne_zero d' h2')).mp (by rw [← hq]; exact this)

/-- `Log1p` on its general path is `log1pBody` -/
theorem Log1p_body (g : Globals) (d : Decimal) (hd : L1pDom d) :
    Gen.Log1p g d = log1pBody g d (Decimal.Signbit d) := by
  obtain ⟨h1, h2, h3⟩ := hd
  cases hs : Decimal.Signbit d
  · exact Log1p_eq_pos g d h1 h2 hs
  · exact Log1p_eq_neg g d h1 h2 hs (h3 hs).1 (h3 hs).2

theorem body_big (g : Globals) (d : Decimal) (neg : Bool) (h1 : Decimal.isSpecial d = false)
    (hb : -10 < (Nat.log 10 (Sp.cf d) : ℤ) + Sp.ex d) :
    log1pBody g d neg = (if neg = true then
        decomposed192.add1neg (logArg d) 0 >>= fun a => decomposed192.log a.2.1 >>= fin3 g.DefaultRoundingMode
      else decomposed192.add1 (logArg d) 0 >>= fun a => decomposed192.log a.1 >>= fin3 g.DefaultRoundingMode) := by
  have hL := cf_log_le d
  unfold log1pBody
  rw [U128_log10_eq, ok_bind', l10_test d h1 _ (by omega) (Int64_toInt_ofNat_small _ (by omega))]
  simp only [hb, decide_true, if_true]

theorem body_small (g : Globals) (d : Decimal) (neg : Bool) (h1 : Decimal.isSpecial d = false)
    (hb : ¬ -10 < (Nat.log 10 (Sp.cf d) : ℤ) + Sp.ex d) :
    log1pBody g d neg = decomposed192.log1p (logArg d) neg >>= fin3 g.DefaultRoundingMode := by
  have hL := cf_log_le d
  unfold log1pBody
  rw [U128_log10_eq, ok_bind', l10_test d h1 _ (by omega) (Int64_toInt_ofNat_small _ (by omega))]
  simp only [hb, decide_false, if_false, Bool.false_eq_true]

/-- value of the raw argument -/
theorem logArg_val_q (d : Decimal) (h1 : Decimal.isSpecial d = false) :
    val (logArg d) = ((Sp.cf d : Nat) : ℚ) * (10 : ℚ) ^ (Sp.ex d) := by
  unfold D192.val
  rw [logArg_sig, logArg_exp d h1]

/-- **C19 for `Log1p`, general path, `|x| ≥ 10^-9`**: bit-identical results for every default rounding mode. -/
theorem log1p_encoding_independent_big (g : Globals) (d d' : Decimal) (h : (𝔳[d]).same 𝔳[d'] = true)
    (hd : L1pDom d) (hbig : -10 < (Nat.log 10 (Sp.cf d) : ℤ) + Sp.ex d) :
    Gen.Log1p g d = Gen.Log1p g d' := by
  have hd' := hd.transfer h
  obtain ⟨h1, h2, h3⟩ := hd
  obtain ⟨h1', h2', h3'⟩ := hd'
  obtain ⟨-, hsb, -, hq⟩ := fin_args d d' h h1
  have hbig' : -10 < (Nat.log 10 (Sp.cf d') : ℤ) + Sp.ex d' := by
    rw [← l10_congr d d' (cf_ne_zero d h2) hq]; exact hbig
  rw [Log1p_body g d ⟨h1, h2, h3⟩, Log1p_body g d' ⟨h1', h2', h3'⟩, hsb, body_big g d _ h1 hbig,
    body_big g d' _ h1' hbig']
  have hv : val (logArg d) = val (logArg d') := by rw [logArg_val_q d h1, logArg_val_q d' h1']; exact hq
  obtain ⟨hs, hlo, hhi⟩ := logArg_ok d h1 h2
  obtain ⟨hs', hlo', hhi'⟩ := logArg_ok d' h1' h2'
  have hL : Nat.log 10 (Sp.cf d) ≤ 34 := cf_log_le d
  have hL' : Nat.log 10 (Sp.cf d') ≤ 34 := cf_log_le d'
  have hc : (logArg d).sig.toNat < 10 ^ 35 := by rw [logArg_sig]; exact cf_lt d
  have hc' : (logArg d').sig.toNat < 10 ^ 35 := by rw [logArg_sig]; exact cf_lt d'
  have he : -56 ≤ (logArg d).exp.toInt := by rw [logArg_exp d h1]; show -56 ≤ Sp.ex d; omega
  have he' : -56 ≤ (logArg d').exp.toInt := by rw [logArg_exp d' h1']; show -56 ≤ Sp.ex d'; omega
  cases hsd : Decimal.Signbit d
  · simp only [Bool.false_eq_true, if_false]
    obtain ⟨r, t, hr, hR⟩ := add1_big (logArg d) 0 (Nat.pos_of_ne_zero hs) hc he hhi
    obtain ⟨r', t', hr', hR'⟩ := add1_big (logArg d') 0 (Nat.pos_of_ne_zero hs') hc' he' hhi'
    have hvr := hR.congr hR' hv
    obtain ⟨a1, a2, a3, a4, -⟩ := hR
    obtain ⟨b1, b2, b3, b4, -⟩ := hR'
    rw [hr, hr', ok_bind', ok_bind']
    rw [log_congr r r' hvr a1 b1 a2 b2 ⟨a3, a4⟩ ⟨b3, b4⟩]
  · simp only [if_true]
    obtain ⟨x1, x2⟩ := h3 hsd
    obtain ⟨y1, y2⟩ := h3' (by rw [hsb]; exact hsd)
    have hlt : val (logArg d) < 1 := by
      rw [logArg_val_q d h1]; exact (lt_one_iff _ _ (cf_ne_zero d h2)).mpr ⟨x1, x2⟩
    have hlt' : val (logArg d') < 1 := by rw [← hv]; exact hlt
    obtain ⟨r, t, hr, a1, a2, a3, a4⟩ := add1neg_big (logArg d) 0 (Nat.pos_of_ne_zero hs) he
      (by rw [logArg_exp d h1]; exact x1) hlt
    obtain ⟨r', t', hr', b1, b2, b3, b4⟩ := add1neg_big (logArg d') 0 (Nat.pos_of_ne_zero hs') he'
      (by rw [logArg_exp d' h1']; exact y1) hlt'
    rw [hr, hr', ok_bind', ok_bind']
    rw [log_congr r r' (by rw [a4, b4, hv]) a1 b1 a2 b2 (by rw [a3]; omega) (by rw [b3]; omega)]


/-- the branch test in terms of the value: `⌊log10 c⌋ + e > −10 ↔ |x| ≥ 10^-9` -/
theorem big_iff (c : Nat) (e : Int) (hc : c ≠ 0) :
    -10 < (Nat.log 10 c : ℤ) + e ↔ (1 : ℚ) / 10 ^ 9 ≤ (c : ℚ) * (10 : ℚ) ^ e := by
  have hlo : 10 ^ Nat.log 10 c ≤ c := Nat.pow_log_le_self 10 hc
  have hhi : c < 10 ^ (Nat.log 10 c + 1) := Nat.lt_pow_succ_log_self (by norm_num) c
  have hloq : ((10 : ℚ)) ^ (Nat.log 10 c : ℤ) ≤ (c : ℚ) := by
    rw [zpow_natCast]; exact_mod_cast hlo
  have hhiq : (c : ℚ) < ((10 : ℚ)) ^ ((Nat.log 10 c : ℤ) + 1) := by
    rw [show ((Nat.log 10 c : ℤ) + 1) = ((Nat.log 10 c + 1 : Nat) : ℤ) by push_cast; ring, zpow_natCast]
    exact_mod_cast hhi
  have hp : (0 : ℚ) < (10 : ℚ) ^ e := zpow_pos (by norm_num) _
  have e9 : (1 : ℚ) / 10 ^ 9 = (10 : ℚ) ^ (-9 : ℤ) := by rw [zpow_neg]; norm_num
  rw [e9]
  constructor
  · intro h
    calc (10 : ℚ) ^ (-9 : ℤ) ≤ (10 : ℚ) ^ ((Nat.log 10 c : ℤ) + e) := zpow_le_zpow_right₀ (by norm_num) (by omega)
      _ = (10 : ℚ) ^ (Nat.log 10 c : ℤ) * (10 : ℚ) ^ e := zpow_add₀ (by norm_num) _ _
      _ ≤ (c : ℚ) * (10 : ℚ) ^ e := mul_le_mul_of_nonneg_right hloq hp.le
  · intro h
    by_contra hn
    have h1 : (c : ℚ) * (10 : ℚ) ^ e < (10 : ℚ) ^ ((Nat.log 10 c : ℤ) + 1) * (10 : ℚ) ^ e :=
      mul_lt_mul_of_pos_right hhiq hp
    rw [← zpow_add₀ (by norm_num)] at h1
    have h2 : (10 : ℚ) ^ ((Nat.log 10 c : ℤ) + 1 + e) ≤ (10 : ℚ) ^ (-9 : ℤ) :=
      zpow_le_zpow_right₀ (by norm_num) (by omega)
    linarith

theorem val_small (c : Nat) (e : Int) (hc : c ≠ 0) (h : ¬ -10 < (Nat.log 10 c : ℤ) + e) :
    (c : ℚ) * (10 : ℚ) ^ e ≤ 1 / 10 ^ 9 := by
  by_contra hn
  rw [not_le] at hn
  exact h ((big_iff c e hc).mpr hn.le)

/-- **C19 for `Log1p`, general path, `|x| < 10^-9`** — PARTIAL: both encodings have exponent `≥ −1588` (then no
intermediate exponent of the series leaves `[-16000, 16000]`).  Bit-identical results for every default rounding mode. -/
theorem log1p_encoding_independent_small_partial (g : Globals) (d d' : Decimal) (h : (𝔳[d]).same 𝔳[d'] = true)
    (hd : L1pDom d) (hsmall : ¬ -10 < (Nat.log 10 (Sp.cf d) : ℤ) + Sp.ex d)
    (hlo : -1588 ≤ Sp.ex d) (hlo' : -1588 ≤ Sp.ex d') :
    Gen.Log1p g d = Gen.Log1p g d' := by
  have hd' := hd.transfer h
  obtain ⟨h1, h2, h3⟩ := hd
  obtain ⟨h1', h2', h3'⟩ := hd'
  obtain ⟨-, hsb, -, hq⟩ := fin_args d d' h h1
  have hsmall' : ¬ -10 < (Nat.log 10 (Sp.cf d') : ℤ) + Sp.ex d' := by
    rw [← l10_congr d d' (cf_ne_zero d h2) hq]; exact hsmall
  rw [Log1p_body g d ⟨h1, h2, h3⟩, Log1p_body g d' ⟨h1', h2', h3'⟩, hsb, body_small g d _ h1 hsmall,
    body_small g d' _ h1' hsmall']
  have hv : val (logArg d) = val (logArg d') := by rw [logArg_val_q d h1, logArg_val_q d' h1']; exact hq
  obtain ⟨hs, -, -⟩ := logArg_ok d h1 h2
  obtain ⟨hs', -, -⟩ := logArg_ok d' h1' h2'
  have hL : (10 : Nat) ^ 35 < 10 * LIM := by unfold LIM; norm_num
  have hc : (logArg d).sig.toNat < 10 * LIM := by rw [logArg_sig]; exact lt_trans (cf_lt d) hL
  have hc' : (logArg d').sig.toNat < 10 * LIM := by rw [logArg_sig]; exact lt_trans (cf_lt d') hL
  have hpre : Pre (logArg d) :=
    ⟨hs, by rw [logArg_val_q d h1]; exact val_small _ _ (cf_ne_zero d h2) hsmall,
      by rw [logArg_exp d h1]; show -3264 ≤ Sp.ex d; omega⟩
  have hpre' : Pre (logArg d') :=
    ⟨hs', by rw [logArg_val_q d' h1']; exact val_small _ _ (cf_ne_zero d' h2') hsmall',
      by rw [logArg_exp d' h1']; show -3264 ≤ Sp.ex d'; omega⟩
  rw [log1p_congr (logArg d) (logArg d') _ hpre hpre' hv (by rw [logArg_exp d h1]; exact hlo)
    (by rw [logArg_exp d' h1']; exact hlo') hc hc']

/-- **C19 for `Log1p`, general path** — PARTIAL only in the exponent range of the series branch: `|x| ≥ 10^-9`, or both
encodings have exponent `≥ −1588`. -/
theorem log1p_encoding_independent_partial (g : Globals) (d d' : Decimal) (h : (𝔳[d]).same 𝔳[d'] = true)
    (hd : L1pDom d)
    (hr : -10 < (Nat.log 10 (Sp.cf d) : ℤ) + Sp.ex d ∨ (-1588 ≤ Sp.ex d ∧ -1588 ≤ Sp.ex d')) :
    Gen.Log1p g d = Gen.Log1p g d' := by
  by_cases hb : -10 < (Nat.log 10 (Sp.cf d) : ℤ) + Sp.ex d
  · exact log1p_encoding_independent_big g d d' h hd hb
  · rcases hr with hr | hr
    · exact absurd hr hb
    · exact log1p_encoding_independent_small_partial g d d' h hd hb hr.1 hr.2

/-- the same in the form of property C19: both calls return, and the results denote the `same` value -/
theorem log1p_encoding_independent_c19 (g : Globals) (d d' : Decimal) (h : (𝔳[d]).same 𝔳[d'] = true)
    (hd : L1pDom d)
    (hr : -10 < (Nat.log 10 (Sp.cf d) : ℤ) + Sp.ex d ∨ (-1588 ≤ Sp.ex d ∧ -1588 ≤ Sp.ex d')) :
    ∃ r r', Gen.Log1p g d = .ok r ∧ Gen.Log1p g d' = .ok r' ∧ (𝔳[r]).same 𝔳[r'] = true := by
  obtain ⟨r, hr1⟩ := D128.Proofs.Total.Log1p_total_all g d
  refine ⟨r, r, hr1, ?_, Cohort.same_refl _⟩
  rw [← log1p_encoding_independent_partial g d d' h hd hr]; exact hr1

end CohortElem

namespace CohortElem
open Gen

/-- hypotheses satisfiable: `0.5` as `5e-1` / `500e-3`; `−0.25` as `−25e-2` / `−2500e-4`; `7e30` as `7e30` / `7000e27`
(branch `|x| ≥ 10^-9`); `3e-12` as `3e-12` / `3000e-15` and `−3e-12` (series branch) -/
example (g : Globals) := log1p_encoding_independent_big g (Gen.compose false ⟨5, 0⟩ 6175) (Gen.compose false ⟨500, 0⟩ 6173)
  (by decide +kernel) ⟨by decide, by decide, by decide⟩ (by decide +kernel)
example (g : Globals) := log1p_encoding_independent_big g (Gen.compose true ⟨25, 0⟩ 6174) (Gen.compose true ⟨2500, 0⟩ 6172)
  (by decide +kernel) ⟨by decide, by decide, fun _ => by decide +kernel⟩ (by decide +kernel)
example (g : Globals) := log1p_encoding_independent_big g (Gen.compose false ⟨7, 0⟩ 6206) (Gen.compose false ⟨7000, 0⟩ 6203)
  (by decide +kernel) ⟨by decide, by decide, by decide⟩ (by decide +kernel)
example (g : Globals) := log1p_encoding_independent_small_partial g (Gen.compose false ⟨3, 0⟩ 6164)
  (Gen.compose false ⟨3000, 0⟩ 6161) (by decide +kernel) ⟨by decide, by decide, by decide⟩ (by decide +kernel)
  (by decide +kernel) (by decide +kernel)
example (g : Globals) := log1p_encoding_independent_c19 g (Gen.compose true ⟨3, 0⟩ 6164)
  (Gen.compose true ⟨3000, 0⟩ 6161) (by decide +kernel) ⟨by decide, by decide, fun _ => by decide +kernel⟩
  (Or.inr ⟨by decide +kernel, by decide +kernel⟩)

end CohortElem
