/-
  D128/Proofs/DigitsParseBound.lean — bounds on what `Gen.parseFormat` can return, for EVERY byte string.

  * `Dg.PrecOK`, `Dg.precOK_verb`, `Dg.precOK_precDigits`, `Dg.precOK_prec`, `Dg.precOK_widthDigits`,
    `Dg.precOK_width`, `Dg.precOK_flags`
  * `Dg.precOK_parseSpec` : every parsed spec has precision −1 (absent) or in `[0, 10^6)` — a precision
    that saturated stays −1 (/repo commit 1d99a24; before it, a 26-digit numeral wrapped the `int`)
-/
import D128.Proofs.DigitsParse

set_option autoImplicit false
set_option maxRecDepth 4096

namespace Dg

/-! ### the precision of every parsed spec is absent (−1) or below 10^6 -/

/-- precision absent, or in `[0, 10^6)` -/
def PrecOK (a : Gen.formatArgs) : Prop :=
  a.prec.toInt = -1 ∨ (0 ≤ a.prec.toInt ∧ a.prec.toInt < 1000000)

theorem precOK_verb (a : Gen.formatArgs) (L : List UInt8) (ha : PrecOK a) : PrecOK (pfVerb a L) := by
  unfold pfVerb
  split <;> exact ha

theorem precOK_precDigits (a : Gen.formatArgs) (L : List UInt8) (ha : PrecOK a) :
    PrecOK (pfPrecDigits a L) := by
  induction L generalizing a with
  | nil => exact ha
  | cons c t ih =>
    rw [pfPrecDigits]
    split
    · exact precOK_verb a _ ha
    · rename_i hc
      have hc' : isDig8 c = true := by unfold isDig8; simpa using hc
      split
      · rename_i hlt
        apply ih
        have e5 : (100000 : Int64).toInt = 100000 := by decide
        have e0 : (0 : Int64).toInt = 0 := by decide
        simp only [Bool.and_eq_true, decide_eq_true_eq] at hlt
        have h0 : 0 ≤ a.prec.toInt := by
          have : (0 : Int64) ≤ a.prec := hlt.1
          rw [Int64.le_iff_toInt_le, e0] at this; exact this
        have h1 : a.prec.toInt < 100000 := by
          have := hlt.2
          rw [Int64.lt_iff_toInt_lt, e5] at this; exact this
        obtain ⟨n, hn⟩ : ∃ n : Nat, a.prec.toInt = n := ⟨a.prec.toInt.toNat, by omega⟩
        have := acc_step 0 a.prec c n hn (by omega) hc'
        rw [if_pos (by simpa using hlt.2)] at this
        have hd := (isDig8_iff c).mp hc'
        right
        show 0 ≤ (a.prec * 10 + (Go.conv (c - 48) : Int64)).toInt ∧
          (a.prec * 10 + (Go.conv (c - 48) : Int64)).toInt < 1000000
        rw [this]; unfold dv; push_cast; omega
      · apply ih
        left
        show (-1 : Int64).toInt = -1
        decide

theorem precOK_prec (a : Gen.formatArgs) (L : List UInt8) (ha : PrecOK a) : PrecOK (pfPrec a L) := by
  have hz : PrecOK { a with prec := (0 : Int64) } := by
    right; show 0 ≤ (0 : Int64).toInt ∧ (0 : Int64).toInt < 1000000; decide
  cases L with
  | nil => exact ha
  | cons c t =>
    cases t with
    | nil =>
      rw [pfPrec]
      split
      · exact hz
      · exact precOK_verb a _ ha
    | cons c3 t3 =>
      rw [pfPrec]
      split
      · split
        · exact precOK_verb _ _ hz
        · rename_i hc
          have hc' : isDig8 c3 = true := by unfold isDig8; simpa using hc
          apply precOK_precDigits
          have := conv_digit c3 hc'
          have hd := (isDig8_iff c3).mp hc'
          right
          show 0 ≤ (Go.conv (c3 - 48) : Int64).toInt ∧ (Go.conv (c3 - 48) : Int64).toInt < 1000000
          rw [this]; unfold dv; omega
      · exact precOK_verb a _ ha

theorem precOK_widthDigits (a : Gen.formatArgs) (L : List UInt8) (ha : PrecOK a) :
    PrecOK (pfWidthDigits a L) := by
  induction L generalizing a with
  | nil => exact ha
  | cons c t ih =>
    rw [pfWidthDigits]
    split
    · exact precOK_prec a _ ha
    · split
      · exact ih _ ha
      · exact ih _ ha

theorem precOK_width (a : Gen.formatArgs) (L : List UInt8) (ha : PrecOK a) : PrecOK (pfWidth a L) := by
  cases L with
  | nil => exact ha
  | cons c t =>
    rw [pfWidth]
    split
    · exact precOK_widthDigits _ _ ha
    · exact precOK_prec a _ ha

theorem precOK_flags (a : Gen.formatArgs) (L : List UInt8) (ha : PrecOK a) : PrecOK (pfFlags a L) := by
  induction L generalizing a with
  | nil => exact ha
  | cons c t ih =>
    rw [pfFlags]
    split
    · exact ih _ ha
    · split
      · exact ih _ ha
      · split
        · exact ih _ ha
        · split
          · exact ih _ ha
          · split
            · exact ih _ ha
            · exact precOK_width a _ ha

/-- **every parsed spec** (any byte string) has precision −1 (absent) or in `[0, 10^6)` -/
theorem precOK_parseSpec (L : List UInt8) : PrecOK (parseSpec L) :=
  precOK_flags pfInit L (Or.inl (by show (-1 : Int64).toInt = -1; decide))

end Dg
