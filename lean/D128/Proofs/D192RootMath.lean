/-
  D128/Proofs/D192RootMath.lean — the specification-level mathematics of the last step of `Sqrt`/`Cbrt`
  (property C17): rounding a 55+-digit approximation of a k-th root to nearest yields a Decimal that
  `Spec.rootOk` accepts.  No generated code here; everything is about `Spec.*` over ℚ.

  Provided (namespace `Root`):
  * `rootOk_intro`     : `Spec.rootOk k c e rc re = true` from the two polynomial inequalities written at full
                         scale (`r = rc·10^re`, `H = (1/2+1e-20)·10^spacingExpS rc re`):
                         `(r - H ≤ 0 ∨ (r - H)^k ≤ c·10^e)`, `c·10^e ≤ (r + H)^k`, and `|k·re - e| ≤ 200`
  * `Cmax_cast`        : `(Cmax : ℚ) + 1 = 10·2^110`
  * `near_range`       : `ylo^k ≤ c·10^e ≤ yhi^k`, k ≥ 2, (c,e) a non-zero Decimal ⇒ `1e-3100 ≤ yhi`, `ylo < 1e3100`
  * `enclose`          : the linear part: `|r - Q| ≤ w·S`, `S ≤ S'`, `Q = (N+τ)P`, `|τ| < 1`, `(a+1)P ≤ εS`
                         ⇒ `r - (w+ε)S' ≤ (N-a)P` and `(N+a)P ≤ r + (w+ε)S'`, hence the inequalities of
                         `rootOk` (w = 1/2) by monotonicity of `x ↦ x^k`
  * `spacing_normal`   : for `Q ≥ 1e-6140`: the spacing exponent `s` of Q is above `Emin`,
                         `2^110·10^s ≤ Q < (Cmax+1)·10^s`
  * `exp_diff_bounds`  : `-200 ≤ k·re - e ≤ 200` for a result within a factor 4 of the root (k ≤ 3)
  * `round_near`       : **main lemma**, any mode with rounding error ≤ w spacings.  k ∈ {2,3}, (c,e) a non-zero
                         Decimal, `N` with `(a+1)·1e20·(Cmax+1) < N`,
                         `((N-a)·10^E)^k ≤ c·10^e ≤ ((N+a)·10^E)^k`, `|τ| < 1`:
                         `Spec.flushOrRoundS m neg (N+τ) E` is a finite `.fin neg c0 e0` in the normal range and
                         EVERY representation `(rc, re)` (rc ≤ Cmax) of its value satisfies the two polynomial
                         inequalities with half-width `(w + 1e-20)` spacings, and `|k·re - e| ≤ 200`
  * `nearest_rootOk`   : w = 1/2 (nearest-even, nearest-away): `Spec.rootOk k c e rc re = true`
  * `anymode_near`     : w = 1 (all six modes): within `(1 + 1e-20)` spacings
-/
import D128.Spec.Elem
import D128.Proofs.SpecRoundMain
import D128.Proofs.SpecRoundMono
set_option autoImplicit false
set_option linter.unusedVariables false
namespace Root
open Spec SpecRound

/-- `Spec.rootOk` from the two polynomial inequalities at full scale:
with `r = rc·10^re`, `H = (1/2 + 1e-20)·10^(spacing exponent at r)`:
`(r - H ≤ 0 ∨ (r - H)^k ≤ c·10^e)` and `c·10^e ≤ (r + H)^k`, and `|k·re - e| ≤ 200`. -/
theorem rootOk_intro (k c : Nat) (e : Int) (rc : Nat) (re : Int) (hrc : rc ≠ 0)
    (hd1 : (k : Int) * re - e ≤ 200) (hd2 : -200 ≤ (k : Int) * re - e)
    (hlo : (rc : ℚ) * (10 : ℚ) ^ re - (1 / 2 + (10 : ℚ) ^ (-20 : Int)) * (10 : ℚ) ^ (Spec.spacingExpS (rc : ℚ) re) ≤ 0 ∨
      ((rc : ℚ) * (10 : ℚ) ^ re - (1 / 2 + (10 : ℚ) ^ (-20 : Int)) * (10 : ℚ) ^ (Spec.spacingExpS (rc : ℚ) re)) ^ k
        ≤ (c : ℚ) * (10 : ℚ) ^ e)
    (hhi : (c : ℚ) * (10 : ℚ) ^ e ≤
      ((rc : ℚ) * (10 : ℚ) ^ re + (1 / 2 + (10 : ℚ) ^ (-20 : Int)) * (10 : ℚ) ^ (Spec.spacingExpS (rc : ℚ) re)) ^ k) :
    Spec.rootOk k c e rc re = true := by
  unfold Spec.rootOk
  have h0 : (rc == 0) = false := by simpa using hrc
  simp only [h0, Bool.false_eq_true, if_false]
  have hdd : ¬ (((decide ((k : Int) * re - e > 200)) || (decide ((k : Int) * re - e < -200))) = true) := by
    simp only [Bool.or_eq_true, decide_eq_true_eq]; omega
  rw [if_neg hdd]
  simp only [pow10_eq_zpow]
  set se := Spec.spacingExpS (rc : ℚ) re with hse
  have hP : (0 : ℚ) < (10 : ℚ) ^ re := zpow_pos (by norm_num) _
  have hPk : (0 : ℚ) < ((10 : ℚ) ^ re) ^ k := pow_pos hP k
  -- scaling identities
  have e1 : ∀ s : ℚ, ((rc : ℚ) + s * ((1 / 2 + (10 : ℚ) ^ (-20 : Int)) * (10 : ℚ) ^ (se - re))) * (10 : ℚ) ^ re
      = (rc : ℚ) * (10 : ℚ) ^ re + s * ((1 / 2 + (10 : ℚ) ^ (-20 : Int)) * (10 : ℚ) ^ se) := by
    intro s
    rw [zpow_sub₀ (by norm_num : (10 : ℚ) ≠ 0)]
    field_simp
  have e2 : (c : ℚ) * (10 : ℚ) ^ (-((k : Int) * re - e)) * ((10 : ℚ) ^ re) ^ k = (c : ℚ) * (10 : ℚ) ^ e := by
    rw [← zpow_natCast ((10 : ℚ) ^ re) k, ← zpow_mul, mul_assoc, ← zpow_add₀ (by norm_num : (10 : ℚ) ≠ 0)]
    congr 2; ring
  rw [Bool.and_eq_true]
  constructor
  · split
    · rfl
    · rename_i hpos
      rw [decide_eq_true_eq]
      have hpos' : 0 < (rc : ℚ) - (1 / 2 + (10 : ℚ) ^ (-20 : Int)) * (10 : ℚ) ^ (se - re) := not_le.1 hpos
      have := e1 (-1)
      simp only [neg_mul, one_mul, ← sub_eq_add_neg] at this
      rcases hlo with hlo | hlo
      · rw [← this] at hlo
        exact absurd (mul_pos hpos' hP) (not_lt.2 hlo)
      · rw [← this, mul_pow, ← e2] at hlo
        exact le_of_mul_le_mul_right hlo hPk
  · rw [decide_eq_true_eq]
    have := e1 1
    simp only [one_mul] at this
    rw [← this, mul_pow, ← e2] at hhi
    exact le_of_mul_le_mul_right hhi hPk
theorem Cmax_cast : (Spec.Cmax : ℚ) + 1 = 10 * 2 ^ 110 := by
  unfold Spec.Cmax; push_cast; norm_num

/-- range of the magnitude being rounded, from the closeness hypotheses -/
theorem near_range (k : Nat) (hk2 : 2 ≤ k) (c : Nat) (e : Int) (ylo yhi : ℚ)
    (hc0 : 0 < c) (hc : c ≤ Spec.Cmax) (he0 : Spec.Emin ≤ e) (he1 : e ≤ Spec.Emax)
    (hylo : 0 ≤ ylo) (hyhi : 0 ≤ yhi)
    (hlo : ylo ^ k ≤ (c : ℚ) * (10 : ℚ) ^ e) (hhi : (c : ℚ) * (10 : ℚ) ^ e ≤ yhi ^ k) :
    (10 : ℚ) ^ (-3100 : Int) ≤ yhi ∧ ylo < (10 : ℚ) ^ (3100 : Int) := by
  have hX0 : (10 : ℚ) ^ (-6176 : Int) ≤ (c : ℚ) * (10 : ℚ) ^ e := by
    have h1 : (1 : ℚ) ≤ (c : ℚ) := by exact_mod_cast hc0
    have h2 : (10 : ℚ) ^ (-6176 : Int) ≤ (10 : ℚ) ^ e :=
      zpow_le_zpow_right₀ (by norm_num) (by unfold Spec.Emin at he0; omega)
    calc (10 : ℚ) ^ (-6176 : Int) ≤ 1 * (10 : ℚ) ^ e := by rw [one_mul]; exact h2
      _ ≤ (c : ℚ) * (10 : ℚ) ^ e := mul_le_mul_of_nonneg_right h1 (zpow_pos (by norm_num) _).le
  have hX1 : (c : ℚ) * (10 : ℚ) ^ e < (10 : ℚ) ^ (6146 : Int) := by
    have h1 : (c : ℚ) < (10 : ℚ) ^ (35 : Int) := by
      have := Cmax_upper
      have : c < 10 ^ 35 := by omega
      have h : (c : ℚ) < ((10 ^ 35 : Nat) : ℚ) := by exact_mod_cast this
      rw [zpow_ofNat]; push_cast at h; exact h
    have h2 : (10 : ℚ) ^ e ≤ (10 : ℚ) ^ (6111 : Int) :=
      zpow_le_zpow_right₀ (by norm_num) (by unfold Spec.Emax at he1; omega)
    calc (c : ℚ) * (10 : ℚ) ^ e < (10 : ℚ) ^ (35 : Int) * (10 : ℚ) ^ (6111 : Int) :=
          mul_lt_mul h1 h2 (zpow_pos (by norm_num) _) (zpow_pos (by norm_num) _).le
      _ = (10 : ℚ) ^ (6146 : Int) := by rw [← zpow_add₀ (by norm_num)]; norm_num
  constructor
  · by_contra hcon
    have hlt : yhi < (10 : ℚ) ^ (-3100 : Int) := not_le.1 hcon
    have h1 : (10 : ℚ) ^ (-3100 : Int) ≤ 1 := zpow_le_one_of_nonpos₀ (by norm_num) (by norm_num)
    have hle1 : yhi ≤ 1 := le_trans hlt.le h1
    have h2 : yhi ^ k ≤ yhi ^ 2 := pow_le_pow_of_le_one hyhi hle1 hk2
    have h3 : yhi ^ 2 < ((10 : ℚ) ^ (-3100 : Int)) ^ 2 := pow_lt_pow_left₀ hlt hyhi (by norm_num)
    have h4 : ((10 : ℚ) ^ (-3100 : Int)) ^ 2 = (10 : ℚ) ^ (-6200 : Int) := by
      rw [← zpow_natCast, ← zpow_mul]; norm_num
    have h5 : (10 : ℚ) ^ (-6200 : Int) ≤ (10 : ℚ) ^ (-6176 : Int) :=
      zpow_le_zpow_right₀ (by norm_num) (by norm_num)
    exact absurd (lt_of_le_of_lt (le_trans hhi h2) (lt_of_lt_of_le (h4 ▸ h3) (le_trans h5 hX0))) (lt_irrefl _)
  · by_contra hcon
    have hge : (10 : ℚ) ^ (3100 : Int) ≤ ylo := not_lt.1 hcon
    have h1 : (1 : ℚ) ≤ (10 : ℚ) ^ (3100 : Int) := one_le_zpow₀ (by norm_num) (by norm_num)
    have hge1 : 1 ≤ ylo := le_trans h1 hge
    have h2 : ylo ^ 2 ≤ ylo ^ k := pow_le_pow_right₀ hge1 hk2
    have h3 : ((10 : ℚ) ^ (3100 : Int)) ^ 2 ≤ ylo ^ 2 := pow_le_pow_left₀ (zpow_pos (by norm_num) _).le hge 2
    have h4 : ((10 : ℚ) ^ (3100 : Int)) ^ 2 = (10 : ℚ) ^ (6200 : Int) := by
      rw [← zpow_natCast, ← zpow_mul]; norm_num
    have h5 : (10 : ℚ) ^ (6146 : Int) ≤ (10 : ℚ) ^ (6200 : Int) :=
      zpow_le_zpow_right₀ (by norm_num) (by norm_num)
    exact absurd (lt_of_lt_of_le hX1 (le_trans h5 (h4 ▸ (le_trans h3 (le_trans h2 hlo))))) (lt_irrefl _)
/-- the two polynomial inequalities from: rounding error `|r - Q| ≤ w·S` (w = 1/2 for the nearest modes,
1 for the directed ones), spacing at the result at least the spacing at `Q`, iterate `N` within `a`
working units `P` of the root, `|τ| < 1`, and `(a+1)·P ≤ ε·S` -/
theorem enclose (k : ℕ) (Q r S S' P X N a τ ε w : ℚ)
    (hP : 0 < P) (hSS' : S ≤ S') (hε : 0 < ε) (hw : 0 ≤ w) (hr : |r - Q| ≤ w * S)
    (hQ : Q = (N + τ) * P) (hτ0 : -1 < τ) (hτ1 : τ < 1) (ha0 : 0 ≤ a) (haN : a ≤ N)
    (hδ : (a + 1) * P ≤ ε * S)
    (hlo : ((N - a) * P) ^ k ≤ X) (hhi : X ≤ ((N + a) * P) ^ k) :
    (r - (w + ε) * S' ≤ 0 ∨ (r - (w + ε) * S') ^ k ≤ X) ∧ X ≤ (r + (w + ε) * S') ^ k := by
  obtain ⟨hr1, hr2⟩ := abs_le.1 hr
  have hεS : ε * S ≤ ε * S' := mul_le_mul_of_nonneg_left hSS' hε.le
  have hwS : w * S ≤ w * S' := mul_le_mul_of_nonneg_left hSS' hw
  have hτP1 : τ * P < P := by nlinarith
  have hτP0 : -P < τ * P := by nlinarith
  have hQ' : Q = N * P + τ * P := by rw [hQ]; ring
  have e1 : (N - a) * P = N * P - a * P := by ring
  have e2 : (N + a) * P = N * P + a * P := by ring
  have e3 : (a + 1) * P = a * P + P := by ring
  have e4 : (w + ε) * S' = w * S' + ε * S' := by ring
  have hA : r - (w + ε) * S' ≤ (N - a) * P := by rw [e1, e4]; linarith
  have hB : (N + a) * P ≤ r + (w + ε) * S' := by rw [e2, e4]; linarith
  have hy0 : 0 ≤ (N - a) * P := mul_nonneg (by linarith) hP.le
  have hy1 : 0 ≤ (N + a) * P := mul_nonneg (by linarith) hP.le
  constructor
  · by_cases h : r - (w + ε) * S' ≤ 0
    · exact Or.inl h
    · exact Or.inr (le_trans (pow_le_pow_left₀ (not_le.1 h).le hA k) hlo)
  · exact le_trans hhi (pow_le_pow_left₀ hy1 hB k)

/-- spacing facts in the normal range -/
theorem spacing_normal (Q : ℚ) (hQ0 : 0 < Q) (hQ : (10 : ℚ) ^ (-6140 : Int) ≤ Q) :
    Spec.Emin < Spec.spacingExp Q ∧
    Q < ((Spec.Cmax : ℚ) + 1) * (10 : ℚ) ^ (Spec.spacingExp Q) ∧
    (2 : ℚ) ^ 110 * (10 : ℚ) ^ (Spec.spacingExp Q) ≤ Q ∧
    2 ^ 110 ≤ ⌊Q / (10 : ℚ) ^ (Spec.spacingExp Q)⌋₊ := by
  obtain ⟨h1, h2, h3⟩ := spacingExp_spec Q hQ0
  have hS : (0 : ℚ) < (10 : ℚ) ^ (Spec.spacingExp Q) := zpow_pos (by norm_num) _
  have hF1 : Q < ((Spec.Cmax : ℚ) + 1) * (10 : ℚ) ^ (Spec.spacingExp Q) := by
    unfold coef at h2
    have : Q / (10 : ℚ) ^ (Spec.spacingExp Q) < ((Spec.Cmax + 1 : Nat) : ℚ) := by
      rw [← Nat.floor_lt (div_nonneg hQ0.le hS.le)]; omega
    rw [div_lt_iff₀ hS] at this
    push_cast at this; exact this
  have hlt : Spec.Emin < Spec.spacingExp Q := by
    by_contra hcon
    have heq : Spec.spacingExp Q = Spec.Emin := by omega
    rw [heq] at hF1
    have hC : (Spec.Cmax : ℚ) + 1 ≤ (10 : ℚ) ^ (35 : Int) := by
      have := Cmax_upper
      have h : ((Spec.Cmax + 1 : Nat) : ℚ) ≤ ((10 ^ 35 : Nat) : ℚ) := by exact_mod_cast this
      rw [zpow_ofNat]; push_cast at h; exact h
    have : Q < (10 : ℚ) ^ (35 : Int) * (10 : ℚ) ^ (-6176 : Int) :=
      lt_of_lt_of_le hF1 (mul_le_mul_of_nonneg_right hC (zpow_pos (by norm_num) _).le)
    rw [← zpow_add₀ (by norm_num)] at this
    have h5 : (10 : ℚ) ^ ((35 : Int) + -6176) ≤ (10 : ℚ) ^ (-6140 : Int) :=
      zpow_le_zpow_right₀ (by norm_num) (by norm_num)
    exact absurd (lt_of_lt_of_le this (le_trans h5 hQ)) (lt_irrefl _)
  obtain ⟨-, hfl⟩ := member_below Q hQ0 (c' := 0) (e' := Spec.Emin) (Nat.zero_le _) (le_refl _) hlt
  refine ⟨hlt, hF1, ?_, hfl⟩
  have : ((2 ^ 110 : Nat) : ℚ) ≤ Q / (10 : ℚ) ^ (Spec.spacingExp Q) :=
    le_trans (by exact_mod_cast hfl) (Nat.floor_le (div_nonneg hQ0.le hS.le))
  rw [le_div_iff₀ hS] at this
  push_cast at this; exact this

/-- the difference of the decimal exponents `k·re - e` of a near-root is moderate -/
theorem exp_diff_bounds (k : Nat) (hk3 : k ≤ 3) (c : Nat) (e : Int) (rc : Nat) (re : Int)
    (hc0 : 0 < c) (hc : c ≤ Spec.Cmax) (hrc0 : rc ≠ 0) (hrc : rc ≤ Spec.Cmax) (ylo yhi : ℚ)
    (hylo0 : 0 ≤ ylo) (hyhi0 : 0 ≤ yhi)
    (h1 : (rc : ℚ) * (10 : ℚ) ^ re ≤ 4 * ylo) (h2 : yhi ≤ 4 * ((rc : ℚ) * (10 : ℚ) ^ re))
    (hlo : ylo ^ k ≤ (c : ℚ) * (10 : ℚ) ^ e) (hhi : (c : ℚ) * (10 : ℚ) ^ e ≤ yhi ^ k) :
    (k : Int) * re - e ≤ 200 ∧ -200 ≤ (k : Int) * re - e := by
  have hX0 : (10 : ℚ) ^ e ≤ (c : ℚ) * (10 : ℚ) ^ e := by
    have h1 : (1 : ℚ) ≤ (c : ℚ) := by exact_mod_cast hc0
    exact le_mul_of_one_le_left (zpow_pos (by norm_num) _).le h1
  have hX1 : (c : ℚ) * (10 : ℚ) ^ e ≤ (10 : ℚ) ^ 35 * (10 : ℚ) ^ e := by
    have h1 : (c : ℚ) ≤ (10 : ℚ) ^ 35 := by
      have := Cmax_upper
      have : c ≤ 10 ^ 35 := by omega
      exact_mod_cast this
    exact mul_le_mul_of_nonneg_right h1 (zpow_pos (by norm_num) _).le
  have h4k : (4 : ℚ) ^ k ≤ 64 := by
    calc (4 : ℚ) ^ k ≤ (4 : ℚ) ^ 3 := pow_le_pow_right₀ (by norm_num) hk3
      _ = 64 := by norm_num
  have hPre : (0 : ℚ) < (10 : ℚ) ^ re := zpow_pos (by norm_num) _
  have hPe : (0 : ℚ) < (10 : ℚ) ^ e := zpow_pos (by norm_num) _
  have hkre : ((10 : ℚ) ^ re) ^ k = (10 : ℚ) ^ ((k : Int) * re) := by
    rw [← zpow_natCast, ← zpow_mul, mul_comm]
  constructor
  · have h1' : (10 : ℚ) ^ re ≤ 4 * ylo :=
      le_trans (le_mul_of_one_le_left hPre.le (by exact_mod_cast Nat.pos_of_ne_zero hrc0)) h1
    have h2' : ((10 : ℚ) ^ re) ^ k ≤ (4 : ℚ) ^ k * ylo ^ k := by
      rw [← mul_pow]; exact pow_le_pow_left₀ hPre.le h1' k
    have h3 : ((10 : ℚ) ^ re) ^ k ≤ 64 * ((10 : ℚ) ^ 35 * (10 : ℚ) ^ e) :=
      le_trans h2' (mul_le_mul h4k (le_trans hlo hX1) (pow_nonneg hylo0 k) (by norm_num))
    have h4 : (64 : ℚ) * ((10 : ℚ) ^ 35 * (10 : ℚ) ^ e) ≤ (10 : ℚ) ^ ((37 : Int) + e) := by
      rw [zpow_add₀ (by norm_num), zpow_ofNat, ← mul_assoc]
      exact mul_le_mul_of_nonneg_right (by norm_num) hPe.le
    rw [hkre] at h3
    have := (zpow_le_zpow_iff_right₀ (by norm_num : (1 : ℚ) < 10)).1 (le_trans h3 h4)
    omega
  · have h2' : (rc : ℚ) * (10 : ℚ) ^ re ≤ (10 : ℚ) ^ 35 * (10 : ℚ) ^ re := by
      have h1 : (rc : ℚ) ≤ (10 : ℚ) ^ 35 := by
        have := Cmax_upper
        have : rc ≤ 10 ^ 35 := by omega
        exact_mod_cast this
      exact mul_le_mul_of_nonneg_right h1 hPre.le
    have h3 : yhi ^ k ≤ ((4 * (10 : ℚ) ^ 35) * (10 : ℚ) ^ re) ^ k :=
      pow_le_pow_left₀ hyhi0 (by rw [mul_assoc]; linarith) k
    have h5 : (4 * (10 : ℚ) ^ 35) ^ k ≤ (10 : ℚ) ^ (108 : Int) := by
      calc (4 * (10 : ℚ) ^ 35) ^ k ≤ (4 * (10 : ℚ) ^ 35) ^ 3 := pow_le_pow_right₀ (by norm_num) hk3
        _ ≤ (10 : ℚ) ^ (108 : Int) := by rw [zpow_ofNat]; norm_num
    rw [mul_pow, hkre] at h3
    have h6 : (10 : ℚ) ^ e ≤ (10 : ℚ) ^ ((108 : Int) + (k : Int) * re) := by
      rw [zpow_add₀ (by norm_num : (10 : ℚ) ≠ 0)]
      exact le_trans hX0 (le_trans hhi (le_trans h3
        (mul_le_mul_of_nonneg_right h5 (zpow_pos (by norm_num) _).le)))
    have := (zpow_le_zpow_iff_right₀ (by norm_num : (1 : ℚ) < 10)).1 h6
    omega

/-- **Final rounding of a near-root** (pure specification level), any mode whose rounding error is at
most `w` spacings (`hw`; w = 1/2 for the nearest modes, w = 1 always).  `N` is the last iterate's
coefficient, `E` its exponent, `τ` the (unknown) signed truncation remainder the sticky flag stands for.
The rounded value is finite, in the normal range, and every representation `(rc, re)` of it satisfies the
two polynomial inequalities with half-width `(w + 1e-20)` spacings at the result. -/
theorem round_near (m : Spec.Mode) (w : ℚ) (hw0 : 0 ≤ w) (hw1 : w ≤ 1) (k : Nat) (hk2 : 2 ≤ k) (hk3 : k ≤ 3)
    (c : Nat) (e : Int) (N a : Nat) (τ : ℚ) (E : Int) (neg : Bool)
    (hw : ∀ c0 e0, Spec.roundTo m neg (((N : ℚ) + τ) * (10 : ℚ) ^ E) = .fin neg c0 e0 →
      |(c0 : ℚ) * (10 : ℚ) ^ e0 - ((N : ℚ) + τ) * (10 : ℚ) ^ E|
        ≤ w * (10 : ℚ) ^ (Spec.spacingExp (((N : ℚ) + τ) * (10 : ℚ) ^ E)))
    (hc0 : 0 < c) (hc : c ≤ Spec.Cmax) (he0 : Spec.Emin ≤ e) (he1 : e ≤ Spec.Emax)
    (hτ0 : -1 < τ) (hτ1 : τ < 1)
    (hN : (a + 1) * 10 ^ 20 * (Spec.Cmax + 1) < N)
    (hlo : (((N : ℚ) - a) * (10 : ℚ) ^ E) ^ k ≤ (c : ℚ) * (10 : ℚ) ^ e)
    (hhi : (c : ℚ) * (10 : ℚ) ^ e ≤ (((N : ℚ) + a) * (10 : ℚ) ^ E) ^ k) :
    ∃ c0 e0, Spec.flushOrRoundS m neg ((N : ℚ) + τ) E = .fin neg c0 e0 ∧
      Spec.pow10 (Spec.Emin - 1) ≤ ((N : ℚ) + τ) * Spec.pow10 E ∧
      ∀ rc re, rc ≤ Spec.Cmax → (rc : ℚ) * (10 : ℚ) ^ re = (c0 : ℚ) * (10 : ℚ) ^ e0 →
        rc ≠ 0 ∧ (k : Int) * re - e ≤ 200 ∧ -200 ≤ (k : Int) * re - e ∧
        ((rc : ℚ) * (10 : ℚ) ^ re - (w + (10 : ℚ) ^ (-20 : Int)) * (10 : ℚ) ^ (Spec.spacingExpS (rc : ℚ) re) ≤ 0 ∨
          ((rc : ℚ) * (10 : ℚ) ^ re - (w + (10 : ℚ) ^ (-20 : Int)) * (10 : ℚ) ^ (Spec.spacingExpS (rc : ℚ) re)) ^ k
            ≤ (c : ℚ) * (10 : ℚ) ^ e) ∧
        (c : ℚ) * (10 : ℚ) ^ e ≤
          ((rc : ℚ) * (10 : ℚ) ^ re + (w + (10 : ℚ) ^ (-20 : Int)) * (10 : ℚ) ^ (Spec.spacingExpS (rc : ℚ) re)) ^ k := by
  have hP : (0 : ℚ) < (10 : ℚ) ^ E := zpow_pos (by norm_num) _
  set P : ℚ := (10 : ℚ) ^ E with hPdef
  have hCm1 : (1 : ℚ) ≤ (Spec.Cmax : ℚ) + 1 := by rw [Cmax_cast]; norm_num
  -- N is huge
  have hNq : ((a : ℚ) + 1) * (10 : ℚ) ^ 20 * ((Spec.Cmax : ℚ) + 1) + 1 ≤ (N : ℚ) := by
    have : (a + 1) * 10 ^ 20 * (Spec.Cmax + 1) + 1 ≤ N := hN
    have h : (((a + 1) * 10 ^ 20 * (Spec.Cmax + 1) + 1 : Nat) : ℚ) ≤ (N : ℚ) := by exact_mod_cast this
    push_cast at h; exact h
  have ha0 : (0 : ℚ) ≤ (a : ℚ) := Nat.cast_nonneg _
  have hbig : ((a : ℚ) + 1) * (10 : ℚ) ^ 20 ≤ ((a : ℚ) + 1) * (10 : ℚ) ^ 20 * ((Spec.Cmax : ℚ) + 1) :=
    le_mul_of_one_le_right (by positivity) hCm1
  have hN4 : 4 * (a : ℚ) + 4 ≤ (N : ℚ) := by nlinarith
  set Q : ℚ := ((N : ℚ) + τ) * P with hQdef
  have hylo0 : 0 ≤ ((N : ℚ) - a) * P := mul_nonneg (by linarith) hP.le
  have hyhi0 : 0 ≤ ((N : ℚ) + a) * P := mul_nonneg (by linarith) hP.le
  obtain ⟨hR1, hR2⟩ := near_range k hk2 c e _ _ hc0 hc he0 he1 hylo0 hyhi0 hlo hhi
  have hτP1 : τ * P < P := by nlinarith
  have hτP0 : -P < τ * P := by nlinarith
  have hQ' : Q = (N : ℚ) * P + τ * P := by rw [hQdef]; ring
  have hNP : 0 ≤ (N : ℚ) * P := mul_nonneg (Nat.cast_nonneg _) hP.le
  have haP : 0 ≤ (a : ℚ) * P := mul_nonneg ha0 hP.le
  have hNaP : 4 * ((a : ℚ) * P) + 4 * P ≤ (N : ℚ) * P := by
    have := mul_le_mul_of_nonneg_right hN4 hP.le
    linarith
  have hQyhi : ((N : ℚ) + a) * P ≤ 2 * Q := by rw [hQ']; linarith
  have hQylo : Q ≤ 2 * (((N : ℚ) - a) * P) := by rw [hQ']; linarith
  have hQ0 : 0 < Q := by rw [hQ']; linarith
  have hq0 : 0 < (N : ℚ) + τ := by linarith
  have hQlow : (10 : ℚ) ^ (-3101 : Int) ≤ Q := by
    have h10 : (10 : ℚ) ^ (-3100 : Int) = 10 * (10 : ℚ) ^ (-3101 : Int) := by
      rw [show (-3100 : Int) = 1 + -3101 by norm_num, zpow_add₀ (by norm_num)]; norm_num
    have hp : (0 : ℚ) < (10 : ℚ) ^ (-3101 : Int) := zpow_pos (by norm_num) _
    linarith
  have hQhigh : Q < (10 : ℚ) ^ (3101 : Int) := by
    have h10 : (10 : ℚ) ^ (3101 : Int) = 10 * (10 : ℚ) ^ (3100 : Int) := by
      rw [show (3101 : Int) = 1 + 3100 by norm_num, zpow_add₀ (by norm_num)]; norm_num
    have hp : (0 : ℚ) < (10 : ℚ) ^ (3100 : Int) := zpow_pos (by norm_num) _
    rw [h10]
    generalize (10 : ℚ) ^ (3100 : Int) = B at hR2 hp ⊢
    linarith
  obtain ⟨hlt, hF1, hF2, hfl⟩ := spacing_normal Q hQ0
    (le_trans (zpow_le_zpow_right₀ (by norm_num) (by norm_num)) hQlow)
  -- the specification rounds Q
  have hfr : Spec.flushOrRoundS m neg ((N : ℚ) + τ) E = Spec.roundTo m neg Q := by
    rw [flushOrRoundS_eq m neg _ hq0.le E]
    exact flushOrRound_eq_roundTo m neg
      (le_trans (zpow_le_zpow_right₀ (by norm_num) (by unfold Spec.Emin; norm_num)) hQlow)
  have hfl2 : Spec.pow10 (Spec.Emin - 1) ≤ ((N : ℚ) + τ) * Spec.pow10 E := by
    rw [pow10_eq_zpow, pow10_eq_zpow]
    exact le_trans (zpow_le_zpow_right₀ (by norm_num) (by unfold Spec.Emin; norm_num)) hQlow
  -- the result is finite
  obtain ⟨c0, e0, hfin⟩ : ∃ c0 e0, Spec.roundTo m neg Q = .fin neg c0 e0 := by
    rcases roundTo_member m neg Q hQ0 with hinf | ⟨c0, e0, h, -⟩
    · exfalso
      have h1 := roundTo_inf_gt_max hQ0 hinf
      have h2 : (10 : ℚ) ^ (3101 : Int) ≤ (Spec.Cmax : ℚ) * (10 : ℚ) ^ Spec.Emax := by
        have hC : (10 : ℚ) ^ (34 : Int) ≤ (Spec.Cmax : ℚ) := by
          have := Cmax_lower
          have h : ((10 ^ 34 : Nat) : ℚ) ≤ (Spec.Cmax : ℚ) := by exact_mod_cast this
          rw [zpow_ofNat]; push_cast at h; exact h
        calc (10 : ℚ) ^ (3101 : Int) ≤ (10 : ℚ) ^ ((34 : Int) + Spec.Emax) :=
              zpow_le_zpow_right₀ (by norm_num) (by unfold Spec.Emax; norm_num)
          _ = (10 : ℚ) ^ (34 : Int) * (10 : ℚ) ^ Spec.Emax := zpow_add₀ (by norm_num) _ _
          _ ≤ (Spec.Cmax : ℚ) * (10 : ℚ) ^ Spec.Emax :=
              mul_le_mul_of_nonneg_right hC (zpow_pos (by norm_num) _).le
      exact absurd (lt_trans hQhigh (lt_of_le_of_lt h2 h1)) (lt_irrefl _)
    · exact ⟨c0, e0, h⟩
  refine ⟨c0, e0, by rw [hfr, hfin], hfl2, ?_⟩
  obtain ⟨-, -, -, -, hval, -⟩ := roundTo_fin hQ0 hfin
  have hhalf := hw c0 e0 hfin
  set s := Spec.spacingExp Q with hs
  set S : ℚ := (10 : ℚ) ^ s with hSdef
  have hS : 0 < S := zpow_pos (by norm_num) _
  set r : ℚ := (c0 : ℚ) * (10 : ℚ) ^ e0 with hrdef
  have hrS : (2 : ℚ) ^ 110 * S ≤ r := by
    rw [hval]
    have h1 := floor_le_roundAt m neg Q hQ0.le s
    have h2 : ((2 ^ 110 : Nat) : ℚ) ≤ (Spec.roundAt m neg Q s : ℚ) := by exact_mod_cast le_trans hfl h1
    push_cast at h2
    exact mul_le_mul_of_nonneg_right h2 hS.le
  have hr0 : 0 < r := lt_of_lt_of_le (by positivity) hrS
  have hSQ : 2 * S ≤ Q := by
    have : (2 : ℚ) ≤ (2 : ℚ) ^ 110 := by norm_num
    nlinarith
  have hwS : w * S ≤ S := by nlinarith
  obtain ⟨hr1, hr2⟩ := abs_le.1 hhalf
  intro rc re hrc hreq
  have hrc0 : rc ≠ 0 := by
    rintro rfl
    rw [← hreq] at hr0; simp at hr0
  have hrcq : (0 : ℚ) < (rc : ℚ) := by exact_mod_cast Nat.pos_of_ne_zero hrc0
  have hse : Spec.spacingExpS (rc : ℚ) re = Spec.spacingExp r := by
    rw [spacingExpS_scale _ hrcq, hreq]; rfl
  have hsse : s ≤ Spec.spacingExp r := by
    by_contra hcon
    obtain ⟨-, h2, -⟩ := spacingExp_spec r hr0
    have h3 := coef_antitone hr0.le (show Spec.spacingExp r ≤ s - 1 by omega)
    have h4 : Spec.Cmax + 1 ≤ coef r (s - 1) := by
      unfold coef
      apply Nat.le_floor
      rw [zpow_sub₀ (by norm_num : (10 : ℚ) ≠ 0), zpow_one, le_div_iff₀ (by positivity)]
      push_cast
      rw [Cmax_cast]
      rw [← hSdef]
      linarith
    omega
  set S' : ℚ := (10 : ℚ) ^ (Spec.spacingExp r) with hS'def
  have hSS' : S ≤ S' := zpow_le_zpow_right₀ (by norm_num) hsse
  set ε : ℚ := (10 : ℚ) ^ (-20 : Int) with hεdef
  have hε : 0 < ε := zpow_pos (by norm_num) _
  have hε20 : ε * (10 : ℚ) ^ 20 = 1 := by
    rw [hεdef, zpow_neg, zpow_ofNat]; norm_num
  -- (a+1) working units are below 1e-20 of the spacing
  have hδ : ((a : ℚ) + 1) * P ≤ ε * S := by
    have h1 : ((a : ℚ) + 1) * (10 : ℚ) ^ 20 * ((Spec.Cmax : ℚ) + 1) * P ≤ Q := by
      have := mul_le_mul_of_nonneg_right hNq hP.le
      rw [hQ']; linarith
    have h2 : (((a : ℚ) + 1) * (10 : ℚ) ^ 20 * P) * ((Spec.Cmax : ℚ) + 1) ≤ S * ((Spec.Cmax : ℚ) + 1) := by
      have e : (((a : ℚ) + 1) * (10 : ℚ) ^ 20 * P) * ((Spec.Cmax : ℚ) + 1)
          = ((a : ℚ) + 1) * (10 : ℚ) ^ 20 * ((Spec.Cmax : ℚ) + 1) * P := by ring
      rw [e]; linarith
    have h3 : ((a : ℚ) + 1) * (10 : ℚ) ^ 20 * P ≤ S := le_of_mul_le_mul_right h2 (by linarith)
    have h4 := mul_le_mul_of_nonneg_left h3 hε.le
    have e : ε * (((a : ℚ) + 1) * (10 : ℚ) ^ 20 * P) = (ε * (10 : ℚ) ^ 20) * (((a : ℚ) + 1) * P) := by ring
    rw [e, hε20, one_mul] at h4
    exact h4
  obtain ⟨hA, hB⟩ := enclose k Q r S S' P ((c : ℚ) * (10 : ℚ) ^ e) N a τ ε w hP hSS' hε hw0 hhalf hQdef hτ0 hτ1
    ha0 (by linarith) hδ hlo hhi
  obtain ⟨hd1, hd2⟩ := exp_diff_bounds k hk3 c e rc re hc0 hc hrc0 hrc _ _ hylo0 hyhi0
    (by rw [hreq]; linarith) (by rw [hreq]; linarith) hlo hhi
  refine ⟨hrc0, hd1, hd2, ?_, ?_⟩
  · rw [hse, hreq]; exact hA
  · rw [hse, hreq]; exact hB

/-- `round_near` for the two nearest modes gives `Spec.rootOk`. -/
theorem nearest_rootOk (m : Spec.Mode) (hm : isNearest m = true) (k : Nat) (hk2 : 2 ≤ k) (hk3 : k ≤ 3)
    (c : Nat) (e : Int) (N a : Nat) (τ : ℚ) (E : Int) (neg : Bool)
    (hc0 : 0 < c) (hc : c ≤ Spec.Cmax) (he0 : Spec.Emin ≤ e) (he1 : e ≤ Spec.Emax)
    (hτ0 : -1 < τ) (hτ1 : τ < 1)
    (hN : (a + 1) * 10 ^ 20 * (Spec.Cmax + 1) < N)
    (hlo : (((N : ℚ) - a) * (10 : ℚ) ^ E) ^ k ≤ (c : ℚ) * (10 : ℚ) ^ e)
    (hhi : (c : ℚ) * (10 : ℚ) ^ e ≤ (((N : ℚ) + a) * (10 : ℚ) ^ E) ^ k) :
    ∃ c0 e0, Spec.flushOrRoundS m neg ((N : ℚ) + τ) E = .fin neg c0 e0 ∧
      Spec.pow10 (Spec.Emin - 1) ≤ ((N : ℚ) + τ) * Spec.pow10 E ∧
      ∀ rc re, rc ≤ Spec.Cmax → (rc : ℚ) * (10 : ℚ) ^ re = (c0 : ℚ) * (10 : ℚ) ^ e0 →
        Spec.rootOk k c e rc re = true := by
  have hq : 0 < ((N : ℚ) + τ) * (10 : ℚ) ^ E := by
    have : (1 : ℚ) ≤ (N : ℚ) := by exact_mod_cast (by omega : 1 ≤ N)
    exact mul_pos (by linarith) (zpow_pos (by norm_num) _)
  obtain ⟨c0, e0, h1, h2, h3⟩ := round_near m (1 / 2) (by norm_num) (by norm_num) k hk2 hk3 c e N a τ E neg
    (fun c0 e0 h => by
      have := roundTo_nearest_half hm hq h
      rw [one_div, inv_mul_eq_div]; exact this)
    hc0 hc he0 he1 hτ0 hτ1 hN hlo hhi
  refine ⟨c0, e0, h1, h2, fun rc re hrc hreq => ?_⟩
  obtain ⟨g0, g1, g2, g3, g4⟩ := h3 rc re hrc hreq
  exact rootOk_intro k c e rc re g0 g1 g2 g3 g4

/-- `round_near` for every mode: the result is within `(1 + 1e-20)` spacings of the root. -/
theorem anymode_near (m : Spec.Mode) (k : Nat) (hk2 : 2 ≤ k) (hk3 : k ≤ 3)
    (c : Nat) (e : Int) (N a : Nat) (τ : ℚ) (E : Int) (neg : Bool)
    (hc0 : 0 < c) (hc : c ≤ Spec.Cmax) (he0 : Spec.Emin ≤ e) (he1 : e ≤ Spec.Emax)
    (hτ0 : -1 < τ) (hτ1 : τ < 1)
    (hN : (a + 1) * 10 ^ 20 * (Spec.Cmax + 1) < N)
    (hlo : (((N : ℚ) - a) * (10 : ℚ) ^ E) ^ k ≤ (c : ℚ) * (10 : ℚ) ^ e)
    (hhi : (c : ℚ) * (10 : ℚ) ^ e ≤ (((N : ℚ) + a) * (10 : ℚ) ^ E) ^ k) :
    ∃ c0 e0, Spec.flushOrRoundS m neg ((N : ℚ) + τ) E = .fin neg c0 e0 ∧
      Spec.pow10 (Spec.Emin - 1) ≤ ((N : ℚ) + τ) * Spec.pow10 E ∧
      ∀ rc re, rc ≤ Spec.Cmax → (rc : ℚ) * (10 : ℚ) ^ re = (c0 : ℚ) * (10 : ℚ) ^ e0 →
        rc ≠ 0 ∧ (k : Int) * re - e ≤ 200 ∧ -200 ≤ (k : Int) * re - e ∧
        ((rc : ℚ) * (10 : ℚ) ^ re - (1 + (10 : ℚ) ^ (-20 : Int)) * (10 : ℚ) ^ (Spec.spacingExpS (rc : ℚ) re) ≤ 0 ∨
          ((rc : ℚ) * (10 : ℚ) ^ re - (1 + (10 : ℚ) ^ (-20 : Int)) * (10 : ℚ) ^ (Spec.spacingExpS (rc : ℚ) re)) ^ k
            ≤ (c : ℚ) * (10 : ℚ) ^ e) ∧
        (c : ℚ) * (10 : ℚ) ^ e ≤
          ((rc : ℚ) * (10 : ℚ) ^ re + (1 + (10 : ℚ) ^ (-20 : Int)) * (10 : ℚ) ^ (Spec.spacingExpS (rc : ℚ) re)) ^ k := by
  have hq : 0 < ((N : ℚ) + τ) * (10 : ℚ) ^ E := by
    have : (1 : ℚ) ≤ (N : ℚ) := by exact_mod_cast (by omega : 1 ≤ N)
    exact mul_pos (by linarith) (zpow_pos (by norm_num) _)
  exact round_near m 1 (by norm_num) (by norm_num) k hk2 hk3 c e N a τ E neg
    (fun c0 e0 h => by rw [one_mul]; exact (roundTo_within_spacing hq h).le)
    hc0 hc he0 he1 hτ0 hτ1 hN hlo hhi

/-- the hypotheses of `nearest_rootOk` are satisfiable: k = 2, c·10^e = 2, the 58-digit approximation
N = 1414213562373095048801688724209698078569671875376948073180 of √2·10^57 (3.3 units too large), a = 4,
remainder τ = 1/2 -/
example := nearest_rootOk .nearestEven rfl 2 (by norm_num) (by norm_num) 2 0
  1414213562373095048801688724209698078569671875376948073180 4 (1 / 2) (-57) false
  (by norm_num) (by unfold Spec.Cmax; norm_num) (by unfold Spec.Emin; norm_num)
  (by unfold Spec.Emax; norm_num) (by norm_num) (by norm_num) (by unfold Spec.Cmax; norm_num)
  (by norm_num) (by norm_num)
end Root
