/-
  D128/Proofs/PowAccFinal.lean — property C18: `Gen.Decimal.PowWithMode` on every pair of finite operands that
  `Spec.powSpecial` leaves open, against the real power, relative to the accuracy of the logarithm.

  Provided (namespace `PowAcc`):
  * `pv_mono`        : `PowViolation` is antitone in the tolerance
  * `exact_good`     : the m-rounded exact power of ten (the shortcut taken for `x = ±10^K`, `y = Y ∈ ℕ` given with a
                       negative exponent) is `PowGood` for `10^(K·Y)` with every tolerance
  * `LogBound κ' B`  : "for every base whose value satisfies `B`, `log` is accurate to `κ'·|ln X| + 4.5·10^-56`"
  * `pow_good`       : nearest mode, finite operands, `powSpecial = none`, `LogBound κ' B`, `B |x|`,
                       `(κ' + 4·10^-57)(1 + 10^-7) ≤ κ/2`, `κ ≤ 10^-29`:
                       `∃ r, PowWithMode d o rm = .ok r ∧ PowGood (powNeg …) (tolK κ …) (|x|^y) 𝔳[r]`
  * `logBound_all`   : the instance delivered by `PowAcc.log_fine` (`κ' = 2·10^-46`, every base)
-/
import D128.Proofs.PowAccMain
import D128.Proofs.PowAccTop
set_option autoImplicit false
set_option maxRecDepth 8192

namespace PowAcc
open Gen D192 Spec SpecRound EnclPf ExpAcc LogAcc PowPf RK
local notation "𝔳[" d "]" => Spec.interp (Gen.Decimal.lo d) (Gen.Decimal.hi d)

/-- a larger tolerance admits more results -/
theorem pv_mono {x x' P : ℝ} (h : x ≤ x') {v : Val} (hv : PowViolation x' P v) : PowViolation x P v := by
  have hP : x * |P| ≤ x' * |P| := mul_le_mul_of_nonneg_right h (abs_nonneg _)
  match v, hv with
  | .nan _ _, _ => trivial
  | .inf rn, hv =>
    rcases hv with h1 | h1 | h1
    · exact Or.inl h1
    · exact Or.inr (Or.inl h1)
    · exact Or.inr (Or.inr (by linarith))
  | .fin rn 0 _, hv =>
    rcases hv with h1 | h1
    · exact Or.inl h1
    · exact Or.inr (by linarith)
  | .fin rn (rc + 1) re, hv =>
    rcases hv with h1 | h1 | h1 | h1
    · exact Or.inl h1
    · exact Or.inr (Or.inl (by linarith))
    · exact Or.inr (Or.inr (Or.inl h1))
    · exact Or.inr (Or.inr (Or.inr h1))

/-- the exact power of ten as the mode rounds it -/
theorem exact_good {m : Mode} (hn : isNearest m = true) (neg : Bool) (t : Int) {tol : ℝ} (ht0 : 0 ≤ tol)
    (v : Val) (hv : v.same (Spec.flushOrRoundS m neg 1 t) = true) :
    PowGood neg tol ((10 : ℝ) ^ t) v := by
  have hcast : (((1 : ℚ) * (10 : ℚ) ^ t : ℚ) : ℝ) = (10 : ℝ) ^ t := by push_cast; ring
  refine ⟨fun hpv => ?_, fun hgt => ?_, fun hlt => ?_⟩
  · have h0 := nearest_exact hn neg (q := 1) t (tol := 0) one_pos le_rfl (by norm_num)
    rw [hcast] at h0
    exact h0 (pv_congr 0 _ hv (pv_mono ht0 hpv))
  · have ht : 6146 ≤ t := by
      by_contra hc
      have : (10 : ℝ) ^ t ≤ (10 : ℝ) ^ (17000 : Int) := zpow_le_zpow_right₀ (by norm_num) (by omega)
      rw [zpow_ofNat] at this
      exact absurd hgt (not_lt.2 this)
    rw [flush_pow10_huge m neg t ht] at hv
    exact hv
  · have ht : t ≤ -6178 := by
      by_contra hc
      have h1 : (10 : ℝ) ^ (-17000 : Int) ≤ (10 : ℝ) ^ t := zpow_le_zpow_right₀ (by norm_num) (by omega)
      have h2 : (10 : ℝ) ^ (-17000 : Int) = 1 / (10 : ℝ) ^ (17000 : ℕ) := by
        rw [zpow_neg, one_div, zpow_ofNat]
      rw [h2] at h1
      exact absurd hlt (not_lt.2 h1)
    rw [flush_pow10_tiny m neg t ht] at hv
    match v, hv with
    | .fin n c e, hv =>
      simp only [Val.same, Bool.and_eq_true, beq_iff_eq] at hv
      obtain ⟨hn', hmag⟩ := hv
      have hc : c = 0 := by
        by_contra hc0
        have : Spec.mag c e ≠ 0 := by
          unfold Spec.mag
          exact mul_ne_zero (by exact_mod_cast hc0) (RK.pow10_pos e).ne'
        rw [hmag] at this
        exact this (by unfold Spec.mag; simp)
      subst hc
      simp [Val.isZero, Val.neg, hn']

/-- accuracy of the logarithm on the bases whose value satisfies `B` -/
def LogBound (κ' : ℝ) (B : ℝ → Prop) : Prop :=
  ∀ (d : decomposed192), d.sig.toNat ≠ 0 → -16000 ≤ d.exp.toInt → d.exp.toInt ≤ 16000 →
    B ((val d : ℚ) : ℝ) → ∀ inv x t, Gen.decomposed192.log d = .ok (inv, x, t) →
      |((val x : ℚ) : ℝ) - (|Real.log ((val d : ℚ) : ℝ)|)| ≤ κ' * |Real.log ((val d : ℚ) : ℝ)| + 45 / 10 ^ 57

/-- what `PowAcc.log_fine` delivers (series of `log` to the 33rd power): every base, relative `2·10^-46` -/
theorem logBound_all : LogBound (2 / 10 ^ 46) (fun _ => True) := by
  intro d hd he0 he1 _ inv x t hlog
  obtain ⟨inv', x', t', hlog', -, -, -, -, h1⟩ := log_fine d hd ⟨he0, he1⟩
  rw [hlog] at hlog'
  have hx : x = x' := by injection hlog' with h'; injection h' with _ h''; injection h'' with h3 _
  subst hx
  exact h1

/-! ## the operands as real numbers -/

theorem val_wf_real (s : U128) (e : Int16) (h0 : 0 ≤ e.toInt) (h1 : e.toInt ≤ 12400) :
    ((val (wf s e) : ℚ) : ℝ) = (s.toNat : ℝ) * (10 : ℝ) ^ (e.toInt - 6176) := by
  rw [val_wf s e h0 h1]; push_cast; rfl

/-- `|x|^y = e^(ln|x|·y)` with the magnitudes written out -/
theorem abs_rpow_exp (xn : Bool) (xc : Nat) (xe : Int) (yn : Bool) (yc : Nat) (ye : Int) (hc0 : xc ≠ 0) :
    |X xn xc xe| ^ (X yn yc ye)
      = Real.exp (Real.log ((xc : ℝ) * (10 : ℝ) ^ xe) *
          (if yn = true then -((yc : ℝ) * (10 : ℝ) ^ ye) else (yc : ℝ) * (10 : ℝ) ^ ye)) := by
  rw [abs_rpow_eq_exp (X_ne_zero xn hc0 xe), ← Real.log_abs, abs_X, X_eq]

/-- **`PowWithMode` on the operands `Spec.powSpecial` leaves open**, nearest mode, relative to a bound of the error of
the logarithm on the bases satisfying `B`. -/
theorem pow_good (κ' κ : ℝ) (B : ℝ → Prop) (hLB : LogBound κ' B) (hκ0 : 0 ≤ κ') (hκ1 : κ' ≤ 1 / 10 ^ 30)
    (hκ : (κ' + 4 / 10 ^ 57) * (1 + 1 / 10 ^ 7) ≤ κ / 2) (hκ2 : κ ≤ 1 / 10 ^ 29)
    (d o : Gen.Decimal) (rm : UInt8) (m : Spec.Mode) (hm : Spec.Mode.ofNat? rm.toNat = some m)
    (hn : isNearest m = true)
    (xn : Bool) (xc : Nat) (xe : Int) (yn : Bool) (yc : Nat) (ye : Int)
    (hx : 𝔳[d] = .fin xn xc xe) (hy : 𝔳[o] = .fin yn yc ye)
    (hs : powSpecial m 𝔳[d] 𝔳[o] = none) (hB : B ((xc : ℝ) * (10 : ℝ) ^ xe)) :
    ∃ r, Gen.Decimal.PowWithMode d o rm = .ok r ∧
      PowGood (powNeg xn yc ye) (tolK κ xc xe yc ye) (|X xn xc xe| ^ (X yn yc ye)) 𝔳[r] := by
  obtain ⟨r, hr⟩ := D128.Proofs.Total.PowWithMode_total_all d o rm
  refine ⟨r, hr, ?_⟩
  have hs' : powSpecial m (.fin xn xc xe) (.fin yn yc ye) = none := by rw [← hx, ← hy]; exact hs
  obtain ⟨hc0, hpar⟩ := powSpecial_none_facts m xn xc xe yn yc ye hs'
  have hκ3 : 0 ≤ κ := by
    have : 0 ≤ (κ' + 4 / 10 ^ 57) * (1 + 1 / 10 ^ 7) := by positivity
    linarith
  have htol0 : 0 ≤ tolK κ xc xe yc ye := by unfold tolK; positivity
  rcases pow_to_general d o rm m hm xn xc xe yn yc ye hx hy hs with
    ⟨dSig, oSig, dExp, oExp, j, k, hxc, hdE, hd1, hdC, hyc, hoE, ho1, -, hde0, hde1, hoe0, hoe1, hgen⟩ |
    ⟨a, Y, r', hxa, hyn, hY, hY2, hr', hsame⟩
  · -- the general path
    have hXa : ((val (wf dSig dExp) : ℚ) : ℝ) = (xc : ℝ) * (10 : ℝ) ^ xe := by
      rw [val_wf_real dSig dExp hde0 hde1, stripped_val xc dSig.toNat k xe dExp.toInt hxc hdE]
    have hYa : ((val (wf oSig oExp) : ℚ) : ℝ) = (yc : ℝ) * (10 : ℝ) ^ ye := by
      rw [val_wf_real oSig oExp hoe0 hoe1, stripped_val yc oSig.toNat j ye oExp.toInt hyc hoE]
    have hwexp : (wf dSig dExp).exp.toInt = dExp.toInt - 6176 := wf_exp dSig dExp hde0 hde1
    have hlogacc := hLB (wf dSig dExp) (by rw [wf_sig]; omega) (by rw [hwexp]; omega) (by rw [hwexp]; omega)
      (by rw [hXa]; exact hB)
    have hgood := general_good rm m hm hn yn (powNeg xn yc ye) oSig dSig oExp dExp hd1 hdC hde0 hde1 ho1 hoe0 hoe1
      κ' κ hκ0 hκ1 hκ hκ2 hlogacc r (by rw [← hgen]; exact hr)
    rw [hXa, hYa] at hgood
    rw [abs_rpow_exp xn xc xe yn yc ye hc0]
    have e55 : (10 : ℝ) ^ (-55 : Int) = 1 / 10 ^ 55 := by norm_num
    unfold tolK
    rw [e55]
    exact hgood
  · -- the power-of-ten shortcut with an exponent given with a negative decimal exponent
    rw [hr] at hr'
    have hrr : r = r' := by injection hr'
    subst hrr
    have hyC : yc ≤ Spec.Cmax := by
      obtain ⟨-, -, b2, -, -⟩ := fin_of_interp o yn yc ye hy
      rw [← b2]; exact Enc.decompose_sig_le o
    have hy0 : yc ≠ 0 := by
      intro h0
      rw [h0, Sp.mag_zero] at hY
      have : (Y : ℚ) = 0 := hY.symm
      have : Y = 0 := by exact_mod_cast this
      omega
    -- the sign
    have hneg : powNeg xn yc ye = (xn && decide (Y % 2 = 1)) := by
      unfold powNeg
      rw [intParity_odd yc ye hy0 hyC, hY, oddIntQ_nat]
    -- the power
    have hYr : X yn yc ye = (Y : ℝ) := by
      rw [X_eq, hyn]
      simp only [Bool.false_eq_true, if_false]
      rw [← mag_cast, hY]; norm_num
    have hXabs : |X xn xc xe| = (10 : ℝ) ^ ((a : Int) + xe) := by
      rw [abs_X, hxa, zpow_add₀ (by norm_num), zpow_natCast]; push_cast; ring
    have hpow : |X xn xc xe| ^ (X yn yc ye) = (10 : ℝ) ^ (((a : Int) + xe) * (Y : Int)) := by
      rw [hYr, hXabs, Real.rpow_natCast, ← zpow_natCast, ← zpow_mul]
    rw [hpow, hneg]
    exact exact_good hn _ _ htol0 _ hsame

end PowAcc
