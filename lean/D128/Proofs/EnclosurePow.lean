/-
  Soundness of the enclosure oracle, part 11: the general (enclosure-based) path of `Spec.judgePow` (C18).
  The oracle brackets |x|^y = exp(y·ln|x|): `l` encloses ln|x| (certified logarithm), `p = l.mul (I.pt y)`
  encloses y·ln|x|, `powT p` (either the `nearOne` enclosure or `expI p`) encloses exp(y·ln|x|).

  0. `RangeOk p` : p.hi − p.lo ≤ 20000 ∧ |p.lo| ≤ 10^60 ∧ |p.hi| ≤ 10^60 (explicit, checkable condition on the
     computed interval under which `expI p` is proved sound; in the oracle |p| ≤ 40000·(1+10^-59))
     `powT p`, `powExtra l ymag` : the enclosure and the extra relative tolerance used by `judgePow`
  1. `powT_sound`      : v ∈ᵢ p → RangeOk p → Real.exp v ∈ₛ powT p
     `pow_true_encl`   : xc ≠ 0, Encl.log xc xe = some l, LogOk xc xe, RangeOk (l.mul (I.pt Y)) →
                         |X|^Y ∈ₛ powT (l.mul (I.pt Y))            (X = value of x, Y = value of y)
  2. `pow_overflow`    : v ∈ᵢ p, p.lo > 40000 → 10^17000 < Real.exp v     (beyond the largest Decimal < 10^6146)
     `pow_underflow`   : v ∈ᵢ p, p.hi < −40000 → Real.exp v < 10^-17000   (below the smallest Decimal 10^-6176)
  3. `judgePow_general`: on the general path `judgePow` is: wrong sign → bad, else `withinUlps |r| (powT p) extra`
     `pow_bad_finite`  : a `.bad` verdict on a finite non-zero result means (over the reals, for the magnitudes)
        rn ≠ neg  ∨  rc·10^re < |X|^Y − 10^eT − extra·lo·10^k  ∨  |X|^Y + 10^eT + extra·hi·10^k < rc·10^re
        ∨ 10^(Emax+41) ≤ |X|^Y ∨ lo·10^k < 10^(Emin−40) ∨ |re − k| > 120
-/
import D128.Proofs.EnclosureJudge
set_option autoImplicit false

namespace EnclPf
open Spec Spec.Encl SpecRound

/-! ## 0. definitions -/

/-- the condition under which `expI p` is proved sound -/
def RangeOk (p : I) : Prop := p.hi - p.lo ≤ 20000 ∧ |p.lo| ≤ 10 ^ 60 ∧ |p.hi| ≤ 10 ^ 60

/-- the enclosure of exp over `p` used by `judgePow` -/
def powT (p : I) : Sci :=
  if p.hi < pow10 (-40) && p.lo > -(pow10 (-40)) then ⟨⟨1 - pow10 (-39), 1 + pow10 (-39)⟩, 0⟩ else expI p

/-- the extra relative tolerance of `judgePow` -/
def powExtra (l : I) (ymag : ℚ) : ℚ :=
  ymag * (4 * pow10 (-37) * (if l.lo < 0 then -l.lo else l.hi) + pow10 (-55))

/-! ## 1. the enclosure of the power -/

theorem powT_sound {p : I} {v : ℝ} (hv : v ∈ᵢ p) (hr : RangeOk p) : Real.exp v ∈ₛ powT p := by
  unfold powT
  split
  · rename_i hc
    simp only [Bool.and_eq_true, decide_eq_true_eq] at hc
    apply nearOne_sound
    have h1 : ((p.hi : ℚ) : ℝ) < ((pow10 (-40) : ℚ) : ℝ) := by exact_mod_cast hc.1
    have h2 : ((-(pow10 (-40)) : ℚ) : ℝ) < ((p.lo : ℚ) : ℝ) := by exact_mod_cast hc.2
    rw [Rat.cast_neg] at h2
    rw [pow10_cast] at h1 h2
    have h3 : (10 : ℝ) ^ (-40 : Int) ≤ 1 / 2 * (10 : ℝ) ^ (-39 : Int) := by norm_num
    generalize (10 : ℝ) ^ (-40 : Int) = a at *
    generalize (10 : ℝ) ^ (-39 : Int) = b at *
    rw [abs_le]
    constructor
    · linarith [hv.1]
    · linarith [hv.2]
  · exact expI_sound' p v hv hr.1 hr.2.1 hr.2.2

theorem abs_rpow_eq_exp {x : ℝ} (hx : x ≠ 0) (y : ℝ) : |x| ^ y = Real.exp (Real.log x * y) := by
  rw [Real.rpow_def_of_pos (abs_pos.2 hx), Real.log_abs]

theorem X_ne_zero (n : Bool) {c : Nat} (hc0 : c ≠ 0) (e : Int) : X n c e ≠ 0 := by
  have : (0 : ℝ) < |X n c e| := by
    rw [abs_X]
    have : (0 : ℝ) < (c : ℝ) := by exact_mod_cast Nat.pos_of_ne_zero hc0
    positivity
  exact abs_pos.1 this

theorem pow_true_encl (xn : Bool) (xc : Nat) (xe : Int) (yn : Bool) (yc : Nat) (ye : Int) (l : I)
    (hc0 : xc ≠ 0) (hok : LogOk (xc : ℚ) xe) (hl : Encl.log (xc : ℚ) xe = some l)
    (hr : RangeOk (l.mul (I.pt (Val.fin yn yc ye).toRat))) :
    |X xn xc xe| ^ (X yn yc ye) ∈ₛ powT (l.mul (I.pt (Val.fin yn yc ye).toRat)) := by
  rw [abs_rpow_eq_exp (X_ne_zero xn hc0 xe)]
  have hL := log_call_sound (n := xn) hc0 hok hl
  exact powT_sound (mem_mul hL (mem_pt _)) hr

/-! ## 2. overflow / underflow verdicts -/

theorem exp_40000_gt : (10 : ℝ) ^ (17000 : ℕ) < Real.exp 40000 := by
  have h1 : (27 / 10 : ℝ) < Real.exp 1 := lt_trans (by norm_num) Real.exp_one_gt_d9
  have h2 : Real.exp 40000 = (Real.exp 1 ^ 40) ^ 1000 := by
    rw [← pow_mul, ← Real.exp_nat_mul]; norm_num
  have h3 : (10 : ℝ) ^ 17 < Real.exp 1 ^ 40 :=
    lt_of_lt_of_le (by norm_num : (10 : ℝ) ^ 17 < (27 / 10) ^ 40) (pow_le_pow_left₀ (by norm_num) h1.le 40)
  rw [h2, show (17000 : ℕ) = 17 * 1000 from rfl, pow_mul]
  exact pow_lt_pow_left₀ h3 (by positivity) (by norm_num)

theorem pow_overflow {p : I} {v : ℝ} (hv : v ∈ᵢ p) (h : p.lo > 40000) :
    (10 : ℝ) ^ (17000 : ℕ) < Real.exp v := by
  have h1 : ((40000 : ℚ) : ℝ) < ((p.lo : ℚ) : ℝ) := by exact_mod_cast h
  push_cast at h1
  exact lt_trans exp_40000_gt (Real.exp_lt_exp.2 (by linarith [hv.1]))

theorem pow_underflow {p : I} {v : ℝ} (hv : v ∈ᵢ p) (h : p.hi < -40000) :
    Real.exp v < 1 / (10 : ℝ) ^ (17000 : ℕ) := by
  have h1 : ((p.hi : ℚ) : ℝ) < ((-40000 : ℚ) : ℝ) := by exact_mod_cast h
  push_cast at h1
  have h2 : Real.exp v < Real.exp (-40000) := Real.exp_lt_exp.2 (by linarith [hv.2])
  have h3 : Real.exp (-40000) < 1 / (10 : ℝ) ^ (17000 : ℕ) := by
    rw [Real.exp_neg, one_div]
    exact inv_strictAnti₀ (by positivity) exp_40000_gt
  exact lt_trans h2 h3

/-! ## 3. the general path of `judgePow` -/

theorem judgePow_general (m : Mode) (xn : Bool) (xc : Nat) (xe : Int) (yn : Bool) (yc : Nat) (ye : Int)
    (r : Val) (l : I)
    (hspec : powSpecial m (.fin xn xc xe) (.fin yn yc ye) = none)
    (hl : Encl.log (xc : ℚ) xe = some l) (hy1 : ¬ ye > 45) (hy2 : ¬ ye < -6300)
    (hp1 : ¬ (l.mul (I.pt (Val.fin yn yc ye).toRat)).lo > 40000)
    (hp2 : ¬ (l.mul (I.pt (Val.fin yn yc ye).toRat)).hi < -40000) :
    judgePow m (.fin xn xc xe) (.fin yn yc ye) r =
      if !r.isNaN && r.neg != (xn && (intParity yc ye == some true)) then .bad "wrong sign"
      else withinUlps (magVal r) (powT (l.mul (I.pt (Val.fin yn yc ye).toRat))) (powExtra l (mag yc ye)) := by
  have hyv : (if yn then -(mag yc ye) else mag yc ye) = (Val.fin yn yc ye).toRat := (toRat_fin yn yc ye).symm
  unfold judgePow
  simp only [hspec, hl, hy1, hy2, decide_false, Bool.or_self, if_false, Bool.false_eq_true, hyv, hp1, hp2]
  rfl

theorem pow_bad_finite (m : Mode) (xn : Bool) (xc : Nat) (xe : Int) (yn : Bool) (yc : Nat) (ye : Int)
    (rn : Bool) (rc : Nat) (re : Int) (l : I) (msg : String)
    (hspec : powSpecial m (.fin xn xc xe) (.fin yn yc ye) = none)
    (hl : Encl.log (xc : ℚ) xe = some l) (hy1 : ¬ ye > 45) (hy2 : ¬ ye < -6300)
    (hp1 : ¬ (l.mul (I.pt (Val.fin yn yc ye).toRat)).lo > 40000)
    (hp2 : ¬ (l.mul (I.pt (Val.fin yn yc ye).toRat)).hi < -40000)
    (hc0 : xc ≠ 0) (hok : LogOk (xc : ℚ) xe) (hr : RangeOk (l.mul (I.pt (Val.fin yn yc ye).toRat)))
    (hrc : rc ≠ 0)
    (h : judgePow m (.fin xn xc xe) (.fin yn yc ye) (.fin rn rc re) = .bad msg) :
    let t := powT (l.mul (I.pt (Val.fin yn yc ye).toRat))
    let x := powExtra l (mag yc ye)
    let T := |X xn xc xe| ^ (X yn yc ye)
    rn ≠ (xn && (intParity yc ye == some true)) ∨
    (rc : ℝ) * (10 : ℝ) ^ re < T - (10 : ℝ) ^ (eT t) - (x : ℝ) * (t.m.lo : ℝ) * (10 : ℝ) ^ t.k ∨
    T + (10 : ℝ) ^ (eT t) + (x : ℝ) * (t.m.hi : ℝ) * (10 : ℝ) ^ t.k < (rc : ℝ) * (10 : ℝ) ^ re ∨
    (10 : ℝ) ^ (Emax + 41) ≤ T ∨
    (t.m.lo : ℝ) * (10 : ℝ) ^ t.k < (10 : ℝ) ^ (Emin - 40) ∨ (re - t.k > 120 ∨ re - t.k < -120) := by
  intro t x T
  have hT : T ∈ₛ t := pow_true_encl xn xc xe yn yc ye l hc0 hok hl hr
  rw [judgePow_general m xn xc xe yn yc ye _ l hspec hl hy1 hy2 hp1 hp2] at h
  simp only [Val.isNaN, Bool.not_false, Bool.true_and, Val.neg] at h
  split at h
  · rename_i hs
    left; simpa using hs
  · have hw : withinUlps (.fin false rc re) t x = .bad msg := h
    have hlo := withinUlps_lo_pos (Or.inr ⟨msg, hw⟩)
    rcases (withinUlps_fin_cases false rc re t x hrc hlo).1 msg hw with h1 | h1 | h1 | h1
    · right; right; right; left; exact withinUlps_fin_overflow hT hlo h1
    · right; right; right; right; left; exact withinUlps_fin_underflow hlo h1
    · right; right; right; right; right; exact h1
    · rcases withinUlps_fin_far hT h1 with h2 | h2
      · right; left; exact h2
      · right; right; left; exact h2

end EnclPf
