/-
  Soundness of the enclosure oracle, part 11: the general (enclosure-based) path of `Spec.judgePow` (C18),
  without side hypotheses.  The oracle brackets |x|^y = exp(y·ln|x|): `l` encloses ln|x| (certified logarithm),
  `p = l.mul (I.pt y)` encloses y·ln|x|, `powT? p` (the `nearOne` enclosure, or `expI p`, or `none` when `p` is
  too wide for the guarded `expI`) encloses exp(y·ln|x|); the sign is `(−1)^y` for a negative base.

  0. `powP`, `powT?`, `powExtra`, `powNeg` : the quantities computed by `judgePow`
  1. `powT_sound`      : powT? p = some t → v ∈ᵢ p → Real.exp v ∈ₛ t
     `pow_true_encl`   : Encl.log xc xe = some l → powT? (powP l y) = some t → |X|^Y ∈ₛ t
     `powExtra_ge`     : the extra tolerance of the code is at least the property's |Y|·(4·10^-37·|ln|X|| + 10^-55)
  2. `intParity_some`  : intParity c e = some b → c·10^e is a natural number k, and b ↔ k odd
     `rpow_sign`       : for a finite base X ≠ 0 and an exponent Y with `intParity = some b` (or X > 0):
                         X^Y = (if powNeg then −1 else 1)·|X|^Y
  3. `judgePow_cases`  : the general path of `judgePow` as a case distinction
  4. `PowViolation x P r` and `pow_general_bad_sound`, `pow_overflow_bad_sound`, `pow_underflow_bad_sound`:
     every `.bad` verdict of the general path is a statement about the real power `P = X^Y`
-/
import D128.Proofs.EnclosureExact
import Mathlib.Analysis.SpecialFunctions.Trigonometric.Basic
set_option autoImplicit false

namespace EnclPf
open Spec Spec.Encl SpecRound

/-! ## 0. definitions -/

/-- the enclosure of y·ln|x| -/
def powP (l : I) (yn : Bool) (yc : Nat) (ye : Int) : I := l.mul (I.pt (Val.fin yn yc ye).toRat)

/-- the enclosure of exp over `p` used by `judgePow` -/
def powT? (p : I) : Option Sci :=
  if p.hi < pow10 (-40) && p.lo > -(pow10 (-40)) then some ⟨⟨1 - pow10 (-39), 1 + pow10 (-39)⟩, 0⟩ else expI p

/-- the extra relative tolerance of `judgePow` -/
def powExtra (l : I) (ymag : ℚ) : ℚ :=
  ymag * (4 * pow10 (-37) * (if -l.lo > l.hi then -l.lo else l.hi) + pow10 (-55))

/-- the sign of the power computed by `judgePow` -/
def powNeg (xn : Bool) (yc : Nat) (ye : Int) : Bool := xn && (intParity yc ye == some true)

/-! ## 1. the enclosure of the power -/

theorem powT_sound {p : I} {t : Sci} {v : ℝ} (h : powT? p = some t) (hv : v ∈ᵢ p) : Real.exp v ∈ₛ t := by
  unfold powT? at h
  split at h
  · rename_i hc
    obtain rfl := Option.some.inj h
    simp only [Bool.and_eq_true, decide_eq_true_eq] at hc
    apply nearOne_sound
    have h1 : ((p.hi : ℚ) : ℝ) < ((pow10 (-40) : ℚ) : ℝ) := by exact_mod_cast hc.1
    have h2 : ((-(pow10 (-40)) : ℚ) : ℝ) < ((p.lo : ℚ) : ℝ) := by exact_mod_cast hc.2
    rw [Rat.cast_neg] at h2
    rw [pow10_cast] at h1 h2
    have h3 : (10 : ℝ) ^ (-40 : Int) ≤ 1 / 2 * (10 : ℝ) ^ (-39 : Int) := by norm_num
    generalize (10 : ℝ) ^ (-40 : Int) = a at *
    generalize (10 : ℝ) ^ (-39 : Int) = b at *
    rw [abs_le]
    constructor
    · linarith [hv.1]
    · linarith [hv.2]
  · exact expI_sound h hv

theorem abs_rpow_eq_exp {x : ℝ} (hx : x ≠ 0) (y : ℝ) : |x| ^ y = Real.exp (Real.log x * y) := by
  rw [Real.rpow_def_of_pos (abs_pos.2 hx), Real.log_abs]

theorem X_ne_zero (n : Bool) {c : Nat} (hc0 : c ≠ 0) (e : Int) : X n c e ≠ 0 := by
  have : (0 : ℝ) < |X n c e| := by
    rw [abs_X]
    have : (0 : ℝ) < (c : ℝ) := by exact_mod_cast Nat.pos_of_ne_zero hc0
    positivity
  exact abs_pos.1 this

theorem powP_mem {xn : Bool} {xc : Nat} {xe : Int} (yn : Bool) (yc : Nat) (ye : Int) {l : I}
    (hc0 : xc ≠ 0) (hl : Encl.log (xc : ℚ) xe = some l) :
    (Real.log (X xn xc xe) * X yn yc ye) ∈ᵢ powP l yn yc ye :=
  mem_mul (log_call_sound (n := xn) hc0 hl) (mem_pt _)

theorem pow_true_encl (xn : Bool) (xc : Nat) (xe : Int) (yn : Bool) (yc : Nat) (ye : Int) (l : I) (t : Sci)
    (hc0 : xc ≠ 0) (hl : Encl.log (xc : ℚ) xe = some l) (ht : powT? (powP l yn yc ye) = some t) :
    |X xn xc xe| ^ (X yn yc ye) ∈ₛ t := by
  rw [abs_rpow_eq_exp (X_ne_zero xn hc0 xe)]
  exact powT_sound ht (powP_mem yn yc ye hc0 hl)

/-- the tolerance used by the code is at least the tolerance the property grants -/
theorem powExtra_ge {xn : Bool} {xc : Nat} {xe : Int} (yn : Bool) (yc : Nat) (ye : Int) {l : I}
    (hc0 : xc ≠ 0) (hl : Encl.log (xc : ℚ) xe = some l) :
    |X yn yc ye| * (4 * (10 : ℝ) ^ (-37 : Int) * |Real.log (X xn xc xe)| + (10 : ℝ) ^ (-55 : Int)) ≤
      ((powExtra l (mag yc ye) : ℚ) : ℝ) ∧ 0 ≤ powExtra l (mag yc ye) := by
  have hL := log_call_sound (n := xn) hc0 hl
  have hle : |Real.log (X xn xc xe)| ≤ (((if -l.lo > l.hi then -l.lo else l.hi) : ℚ) : ℝ) := by
    rw [abs_le]
    split
    · rename_i h
      have : ((l.hi : ℚ) : ℝ) < ((-l.lo : ℚ) : ℝ) := by exact_mod_cast h
      push_cast at this ⊢
      constructor <;> linarith [hL.1, hL.2]
    · rename_i h
      have : ((-l.lo : ℚ) : ℝ) ≤ ((l.hi : ℚ) : ℝ) := by exact_mod_cast not_lt.1 h
      push_cast at this
      constructor <;> linarith [hL.1, hL.2]
  have hY : |X yn yc ye| = ((mag yc ye : ℚ) : ℝ) := by rw [abs_X, mag_cast]
  have hmag : (0 : ℚ) ≤ mag yc ye := by
    unfold mag; exact mul_nonneg (by positivity) (pow10_pos ye).le
  have hlnx : (0 : ℚ) ≤ (if -l.lo > l.hi then -l.lo else l.hi) := by
    have : (0 : ℝ) ≤ (((if -l.lo > l.hi then -l.lo else l.hi) : ℚ) : ℝ) := le_trans (abs_nonneg _) hle
    exact_mod_cast this
  constructor
  · unfold powExtra
    rw [hY, Rat.cast_mul, Rat.cast_add, Rat.cast_mul, Rat.cast_mul, pow10_cast, pow10_cast]
    apply mul_le_mul_of_nonneg_left _ (by exact_mod_cast hmag)
    have : (0 : ℝ) ≤ 4 * (10 : ℝ) ^ (-37 : Int) := by positivity
    push_cast
    nlinarith
  · unfold powExtra
    have := pow10_pos (-37); have := pow10_pos (-55)
    positivity

/-! ## 2. the sign -/

theorem intParity_some {c : Nat} {e : Int} {b : Bool} (h : intParity c e = some b) :
    ∃ k : ℕ, (c : ℝ) * (10 : ℝ) ^ e = (k : ℝ) ∧ (b = true ↔ k % 2 = 1) := by
  unfold intParity at h
  split at h
  · rename_i hc
    have hc : c = 0 := by simpa using hc
    obtain rfl := Option.some.inj h
    exact ⟨0, by simp [hc], by simp⟩
  · split at h
    · rename_i he
      obtain rfl := Option.some.inj h
      refine ⟨c * 10 ^ e.toNat, ?_, ?_⟩
      · have : e = (e.toNat : ℤ) := (Int.toNat_of_nonneg he).symm
        conv_lhs => rw [this]
        rw [zpow_natCast]; push_cast; ring
      · simp only [Bool.and_eq_true, beq_iff_eq]
        constructor
        · rintro ⟨he0, hc1⟩
          rw [he0]; simpa using hc1
        · intro hk
          by_cases he0 : e = 0
          · exact ⟨he0, by rw [he0] at hk; simpa using hk⟩
          · exfalso
            obtain ⟨j, hj⟩ : ∃ j, e.toNat = j + 1 := ⟨e.toNat - 1, by omega⟩
            rw [hj, pow_succ] at hk
            have : (c * (10 ^ j * 10)) % 2 = 0 := by
              rw [show c * (10 ^ j * 10) = 2 * (c * 10 ^ j * 5) by ring]; exact Nat.mul_mod_right 2 _
            omega
    · rename_i he
      simp only at h
      split at h
      · exact absurd h (by simp)
      · split at h
        · rename_i hdiv
          have hdiv : c % 10 ^ (-e).toNat = 0 := by simpa using hdiv
          obtain rfl := Option.some.inj h
          refine ⟨c / 10 ^ (-e).toNat, ?_, by simp⟩
          have he' : (10 : ℝ) ^ e = ((10 : ℝ) ^ (-e).toNat)⁻¹ := by
            rw [← zpow_natCast, ← zpow_neg]; congr 1; omega
          generalize (-e).toNat = j at *
          have hc : c = 10 ^ j * (c / 10 ^ j) := by
            have := Nat.div_add_mod c (10 ^ j); omega
          rw [he']
          have hcr : (c : ℝ) = (10 : ℝ) ^ j * ((c / 10 ^ j : ℕ) : ℝ) := by exact_mod_cast hc
          have h10 : (10 : ℝ) ^ j ≠ 0 := by positivity
          rw [eq_comm, ← div_eq_mul_inv, eq_div_iff h10]
          linarith
        · exact absurd h (by simp)

theorem X_parity {yn : Bool} {yc : Nat} {ye : Int} {b : Bool} (h : intParity yc ye = some b) :
    Real.cos (X yn yc ye * Real.pi) = if b then -1 else 1 := by
  obtain ⟨k, hk, hb⟩ := intParity_some h
  have hcos : Real.cos ((k : ℝ) * Real.pi) = if b then -1 else 1 := by
    rw [Real.cos_nat_mul_pi]
    cases b
    · have : k % 2 = 0 := by
        have := hb.not; simp at this; omega
      simp only [Bool.false_eq_true, if_false]
      exact Even.neg_one_pow (Nat.even_iff.2 this)
    · have : k % 2 = 1 := hb.1 rfl
      simp only [if_true]
      exact Odd.neg_one_pow (Nat.odd_iff.2 this)
  rw [X_eq, hk]
  cases yn
  · simpa using hcos
  · simp only [if_true]
    rw [neg_mul, Real.cos_neg]; exact hcos

/-- the real power of a finite non-zero base: sign `(−1)^Y` for a negative base and an integer exponent -/
theorem rpow_sign (xn : Bool) (xc : Nat) (xe : Int) (yn : Bool) (yc : Nat) (ye : Int) (hc0 : xc ≠ 0)
    (hpar : xn = true → ∃ b, intParity yc ye = some b) :
    (X xn xc xe) ^ (X yn yc ye) =
      (if powNeg xn yc ye then -1 else 1) * |X xn xc xe| ^ (X yn yc ye) := by
  have hApos : (0 : ℝ) < (xc : ℝ) * (10 : ℝ) ^ xe := by
    have : (0 : ℝ) < (xc : ℝ) := by exact_mod_cast Nat.pos_of_ne_zero hc0
    positivity
  cases xn
  · -- positive base
    have hX : X false xc xe = (xc : ℝ) * (10 : ℝ) ^ xe := by rw [X_eq]; simp
    rw [hX, abs_of_pos hApos]
    simp [powNeg]
  · obtain ⟨b, hb⟩ := hpar rfl
    have hX : X true xc xe = -((xc : ℝ) * (10 : ℝ) ^ xe) := by rw [X_eq]; simp
    have hneg : X true xc xe < 0 := by rw [hX]; linarith
    rw [Real.rpow_def_of_neg hneg, X_parity hb, abs_rpow_eq_exp hneg.ne]
    unfold powNeg
    rw [hb]
    cases b <;> simp

/-! ## 3. the general path of `judgePow` -/

/-- finite operands that are not a special/exact case: the base is non-zero, and a negative base comes with an
    integer exponent -/
theorem powSpecial_none_facts (m : Mode) (xn : Bool) (xc : Nat) (xe : Int) (yn : Bool) (yc : Nat) (ye : Int)
    (h : powSpecial m (.fin xn xc xe) (.fin yn yc ye) = none) :
    xc ≠ 0 ∧ (xn = true → ∃ b, intParity yc ye = some b) := by
  unfold powSpecial at h
  split at h
  · exact absurd h (by simp)
  split at h
  · exact absurd h (by simp)
  simp only [Val.isInf, Bool.and_false, Bool.false_eq_true, if_false] at h
  split at h
  · split at h <;> exact absurd h (by simp)
  split at h
  · split at h <;> exact absurd h (by simp)
  rename_i hxc
  refine ⟨by simpa using hxc, ?_⟩
  split at h
  · exact absurd h (by simp)
  rename_i hp
  intro hxn
  subst hxn
  simp only [Bool.true_and] at hp
  cases hi : intParity yc ye with
  | none => simp [hi] at hp
  | some b => exact ⟨b, rfl⟩

theorem judgePow_cases (m : Mode) (xn : Bool) (xc : Nat) (xe : Int) (yn : Bool) (yc : Nat) (ye : Int)
    (r : Val) (l : I)
    (hspec : powSpecial m (.fin xn xc xe) (.fin yn yc ye) = none)
    (hl : Encl.log (xc : ℚ) xe = some l) (hy1 : ¬ ye > 45) (hy2 : ¬ ye < -6300) :
    judgePow m (.fin xn xc xe) (.fin yn yc ye) r =
      if (powP l yn yc ye).lo > 40000 then
        (if r.same (.inf (powNeg xn yc ye)) then .ok else .bad "overflow must give Inf")
      else if (powP l yn yc ye).hi < -40000 then
        (if r.isZero && r.neg == powNeg xn yc ye then .ok else .bad "underflow must give zero")
      else match powT? (powP l yn yc ye) with
        | none => .undecided "no certified enclosure of the power (argument interval too wide)"
        | some t =>
          if !r.isNaN && r.neg != powNeg xn yc ye then .bad "wrong sign"
          else withinUlps (magVal r) t (powExtra l (mag yc ye)) := by
  have hyv : (if yn then -(mag yc ye) else mag yc ye) = (Val.fin yn yc ye).toRat := (toRat_fin yn yc ye).symm
  unfold judgePow
  simp only [hspec, hl, hy1, hy2, decide_false, Bool.or_self, if_false, Bool.false_eq_true, hyv]
  rfl

/-! ## 4. meaning of the verdicts -/

/-- **What a `.bad` verdict on the enclosure path of `judgePow` asserts** about the result `r` and the real
    power `P = X^Y` (non-zero), with the property's relative tolerance `x = |Y|·(4·10^-37·|ln|X|| + 10^-55)`:
    NaN; wrong sign (also of a zero or an infinity); more than one unit in the last place plus `x·|P|` from
    `P`; finite although `|P| ≥ 10^(Emax+41)`; non-zero although `|P| < 10^(Emin−40)`; zero although `|P|`
    exceeds the tolerance; infinite although `|P| < 10^(Emax+30)` or `|P|` plus the tolerance is below the
    largest finite Decimal. -/
def PowViolation (x : ℝ) (P : ℝ) : Val → Prop
  | .nan _ _ => True
  | .inf rn => (rn = true ↔ 0 < P) ∨ |P| < (10 : ℝ) ^ (Emax + 30) ∨
      |P| + (10 : ℝ) ^ (ulpExp |P|) + x * |P| < (Cmax : ℝ) * (10 : ℝ) ^ Emax
  | .fin rn 0 _ => (rn = true ↔ 0 < P) ∨ (10 : ℝ) ^ (ulpExp |P|) + x * |P| < |P|
  | .fin rn (rc + 1) re =>
      (rn = true ↔ 0 < P) ∨ (10 : ℝ) ^ (ulpExp |P|) + x * |P| < |X rn (rc + 1) re - P| ∨
      (10 : ℝ) ^ (Emax + 41) ≤ |P| ∨ |P| < (10 : ℝ) ^ (Emin - 40)

section
variable (m : Mode) (xn : Bool) (xc : Nat) (xe : Int) (yn : Bool) (yc : Nat) (ye : Int) (l : I)

/-- the property's extra relative tolerance -/
noncomputable def propTol (xn : Bool) (xc : Nat) (xe : Int) (yn : Bool) (yc : Nat) (ye : Int) : ℝ :=
  |X yn yc ye| * (4 * (10 : ℝ) ^ (-37 : Int) * |Real.log (X xn xc xe)| + (10 : ℝ) ^ (-55 : Int))

theorem propTol_nonneg : 0 ≤ propTol xn xc xe yn yc ye := by unfold propTol; positivity

theorem pow_general_bad_sound (r : Val) (t : Sci) (msg : String)
    (hspec : powSpecial m (.fin xn xc xe) (.fin yn yc ye) = none)
    (hl : Encl.log (xc : ℚ) xe = some l) (hy1 : ¬ ye > 45) (hy2 : ¬ ye < -6300)
    (hp1 : ¬ (powP l yn yc ye).lo > 40000) (hp2 : ¬ (powP l yn yc ye).hi < -40000)
    (ht : powT? (powP l yn yc ye) = some t)
    (h : judgePow m (.fin xn xc xe) (.fin yn yc ye) r = .bad msg) :
    PowViolation (propTol xn xc xe yn yc ye) ((X xn xc xe) ^ (X yn yc ye)) r := by
  obtain ⟨hc0, hpar⟩ := powSpecial_none_facts m xn xc xe yn yc ye hspec
  set P := (X xn xc xe) ^ (X yn yc ye) with hP
  set T := |X xn xc xe| ^ (X yn yc ye) with hTdef
  have hT : T ∈ₛ t := pow_true_encl xn xc xe yn yc ye l t hc0 hl ht
  have hTpos : 0 < T := Real.rpow_pos_of_pos (abs_pos.2 (X_ne_zero xn hc0 xe)) _
  have hsign : P = (if powNeg xn yc ye then -1 else 1) * T := rpow_sign xn xc xe yn yc ye hc0 hpar
  obtain ⟨hx1, hx0⟩ := powExtra_ge (xn := xn) yn yc ye hc0 hl
  change propTol xn xc xe yn yc ye ≤ _ at hx1
  have hxn := propTol_nonneg xn xc xe yn yc ye
  set xq := powExtra l (mag yc ye) with hxq
  set xp := propTol xn xc xe yn yc ye with hxp
  have hPabs : |P| = T := by
    rw [hsign]; cases powNeg xn yc ye <;> simp [abs_of_pos hTpos]
  have hPpos : (0 < P) ↔ powNeg xn yc ye = false := by
    rw [hsign]; cases powNeg xn yc ye <;> simp [hTpos, hTpos.le]
  have hxT : xp * T ≤ (xq : ℝ) * T := mul_le_mul_of_nonneg_right hx1 hTpos.le
  rw [judgePow_cases m xn xc xe yn yc ye r l hspec hl hy1 hy2, if_neg hp1, if_neg hp2, ht] at h
  simp only at h
  match r with
  | .nan _ _ => trivial
  | .inf rn =>
    simp only [Val.isNaN, Bool.not_false, Bool.true_and, Val.neg] at h
    show _ ∨ _ ∨ _
    split at h
    · rename_i hs
      left
      have hne : rn ≠ powNeg xn yc ye := by simpa using hs
      rw [hPpos]; cases rn <;> cases hq : powNeg xn yc ye <;> simp_all
    · have hw : withinUlps (.inf false) t xq = .bad msg := h
      have hlo := withinUlps_lo_pos (Or.inr ⟨msg, hw⟩)
      rw [hPabs]
      have := pow_ulp_le hT hlo
      rcases withinUlps_inf_bad hlo hx0 hT hw with h1 | h1
      · right; left; exact h1
      · right; right; linarith
  | .fin rn 0 re =>
    simp only [Val.isNaN, Bool.not_false, Bool.true_and, Val.neg] at h
    show _ ∨ _
    split at h
    · rename_i hs
      left
      have hne : rn ≠ powNeg xn yc ye := by simpa using hs
      rw [hPpos]; cases rn <;> cases hq : powNeg xn yc ye <;> simp_all
    · have hw : withinUlps (.fin false 0 re) t xq = .bad msg := h
      have hlo := withinUlps_lo_pos (Or.inr ⟨msg, hw⟩)
      right
      rw [hPabs]
      have := pow_ulp_le hT hlo
      have h1 := withinUlps_zero_bad hlo hx0 hT hw
      linarith
  | .fin rn (rc + 1) re =>
    simp only [Val.isNaN, Bool.not_false, Bool.true_and, Val.neg] at h
    show _ ∨ _ ∨ _ ∨ _
    split at h
    · rename_i hs
      left
      have hne : rn ≠ powNeg xn yc ye := by simpa using hs
      rw [hPpos]; cases rn <;> cases hq : powNeg xn yc ye <;> simp_all
    · rename_i hs
      have hsame : rn = powNeg xn yc ye := by simpa using hs
      have hw : withinUlps (.fin false (rc + 1) re) t xq = .bad msg := h
      have hlo := withinUlps_lo_pos (Or.inr ⟨msg, hw⟩)
      have hsign' : P = if powNeg xn yc ye then -T else T := by
        rw [hsign]; split <;> ring
      have habs : |X rn (rc + 1) re - P| = |((rc + 1 : ℕ) : ℝ) * (10 : ℝ) ^ re - T| := by
        rw [hsign', X_signed, hsame]; exact abs_signed_sub _ _ _
      rw [habs, hPabs]
      right
      have := pow_ulp_le hT hlo
      rcases withinUlps_fin_bad (Nat.succ_ne_zero rc) hlo hx0 hT hw with h1 | h1 | h1
      · left; linarith
      · right; left; exact h1
      · right; right; exact h1

/-- overflow rule: `p.lo > 40000` ⇒ the power exceeds `10^17000`; a `.bad` verdict means `r` is not the
    infinity of the right sign -/
theorem pow_overflow_bad_sound (r : Val) (msg : String)
    (hspec : powSpecial m (.fin xn xc xe) (.fin yn yc ye) = none)
    (hl : Encl.log (xc : ℚ) xe = some l) (hy1 : ¬ ye > 45) (hy2 : ¬ ye < -6300)
    (hp1 : (powP l yn yc ye).lo > 40000)
    (h : judgePow m (.fin xn xc xe) (.fin yn yc ye) r = .bad msg) :
    (10 : ℝ) ^ (17000 : ℕ) < |X xn xc xe| ^ (X yn yc ye) ∧ r.same (.inf (powNeg xn yc ye)) = false := by
  obtain ⟨hc0, -⟩ := powSpecial_none_facts m xn xc xe yn yc ye hspec
  rw [judgePow_cases m xn xc xe yn yc ye r l hspec hl hy1 hy2, if_pos hp1] at h
  constructor
  · rw [abs_rpow_eq_exp (X_ne_zero xn hc0 xe)]
    have hv := powP_mem (xn := xn) yn yc ye hc0 hl
    have h1 : ((40000 : ℚ) : ℝ) < (((powP l yn yc ye).lo : ℚ) : ℝ) := by exact_mod_cast hp1
    push_cast at h1
    exact exp_gt_of_ge (by linarith [hv.1])
  · split at h
    · exact absurd h (by simp)
    · rename_i hne; simpa using hne

/-- underflow rule: `p.hi < −40000` ⇒ the power is below `10^-17000`; a `.bad` verdict means `r` is not the
    zero of the right sign -/
theorem pow_underflow_bad_sound (r : Val) (msg : String)
    (hspec : powSpecial m (.fin xn xc xe) (.fin yn yc ye) = none)
    (hl : Encl.log (xc : ℚ) xe = some l) (hy1 : ¬ ye > 45) (hy2 : ¬ ye < -6300)
    (hp1 : ¬ (powP l yn yc ye).lo > 40000) (hp2 : (powP l yn yc ye).hi < -40000)
    (h : judgePow m (.fin xn xc xe) (.fin yn yc ye) r = .bad msg) :
    |X xn xc xe| ^ (X yn yc ye) < 1 / (10 : ℝ) ^ (17000 : ℕ) ∧
      (r.isZero && r.neg == powNeg xn yc ye) = false := by
  obtain ⟨hc0, -⟩ := powSpecial_none_facts m xn xc xe yn yc ye hspec
  rw [judgePow_cases m xn xc xe yn yc ye r l hspec hl hy1 hy2, if_neg hp1, if_pos hp2] at h
  constructor
  · rw [abs_rpow_eq_exp (X_ne_zero xn hc0 xe)]
    have hv := powP_mem (xn := xn) yn yc ye hc0 hl
    have h1 : (((powP l yn yc ye).hi : ℚ) : ℝ) < ((-40000 : ℚ) : ℝ) := by exact_mod_cast hp2
    push_cast at h1
    exact exp_lt_of_le (by linarith [hv.2])
  · split at h
    · exact absurd h (by simp)
    · rename_i hne; simpa using hne

end

/-! ## 5. every `.bad` verdict of `judgePow` -/

/-- **What a `.bad` verdict of `judgePow` asserts**, for all operands, results and modes:
    * shortcut / special case: `r` differs from `powSpecial m x y` (the exact results of property C18);
    * otherwise (finite operands, certified logarithm `l`): the exact power exceeds `10^17000` and `r` is not the
      infinity of sign `(−1)^y`; or it is below `10^-17000` and `r` is not the zero of that sign; or
      `PowViolation` with the property's tolerance. -/
def PowBad (m : Mode) (x y r : Val) : Prop :=
  (∃ want, powSpecial m x y = some want ∧ r.same want = false) ∨
  (∃ xn xc xe yn yc ye, x = .fin xn xc xe ∧ y = .fin yn yc ye ∧ powSpecial m x y = none ∧
    (((10 : ℝ) ^ (17000 : ℕ) < |X xn xc xe| ^ (X yn yc ye) ∧ r.same (.inf (powNeg xn yc ye)) = false) ∨
     (|X xn xc xe| ^ (X yn yc ye) < 1 / (10 : ℝ) ^ (17000 : ℕ) ∧
        (r.isZero && r.neg == powNeg xn yc ye) = false) ∨
     PowViolation (propTol xn xc xe yn yc ye) ((X xn xc xe) ^ (X yn yc ye)) r))

theorem judgePow_bad_sound (m : Mode) (x y r : Val) (msg : String)
    (h : judgePow m x y r = .bad msg) : PowBad m x y r := by
  cases hs : powSpecial m x y with
  | some want =>
    left
    refine ⟨want, hs, ?_⟩
    unfold judgePow at h
    simp only [hs] at h
    split at h
    · exact absurd h (by simp)
    · rename_i hne; simpa using hne
  | none =>
    right
    match x, y with
    | .fin xn xc xe, .fin yn yc ye =>
      refine ⟨xn, xc, xe, yn, yc, ye, rfl, rfl, hs, ?_⟩
      cases hl : Encl.log (xc : ℚ) xe with
      | none =>
        exfalso
        unfold judgePow at h
        simp only [hs, hl] at h
        exact absurd h (by simp)
      | some l =>
        by_cases hy1 : ye > 45
        · exfalso
          unfold judgePow at h
          simp only [hs, hl, hy1, if_true] at h
          exact absurd h (by simp)
        by_cases hy2 : ye < -6300
        · exfalso
          unfold judgePow at h
          simp only [hs, hl, hy1, hy2, if_true, if_false] at h
          exact absurd h (by simp)
        by_cases hp1 : (powP l yn yc ye).lo > 40000
        · left; exact pow_overflow_bad_sound m xn xc xe yn yc ye l r msg hs hl hy1 hy2 hp1 h
        by_cases hp2 : (powP l yn yc ye).hi < -40000
        · right; left; exact pow_underflow_bad_sound m xn xc xe yn yc ye l r msg hs hl hy1 hy2 hp1 hp2 h
        right; right
        cases ht : powT? (powP l yn yc ye) with
        | none =>
          exfalso
          rw [judgePow_cases m xn xc xe yn yc ye r l hs hl hy1 hy2, if_neg hp1, if_neg hp2, ht] at h
          exact absurd h (by simp)
        | some t =>
          exact pow_general_bad_sound m xn xc xe yn yc ye l r t msg hs hl hy1 hy2 hp1 hp2 ht h
    | .nan _ _, _ => unfold judgePow at h; simp only [hs] at h; exact absurd h (by simp)
    | .inf _, _ => unfold judgePow at h; simp only [hs] at h; exact absurd h (by simp)
    | .fin _ _ _, .nan _ _ => unfold judgePow at h; simp only [hs] at h; exact absurd h (by simp)
    | .fin _ _ _, .inf _ => unfold judgePow at h; simp only [hs] at h; exact absurd h (by simp)

end EnclPf
