/-
  The tail of `Cmp` / `CmpAbs` (everything after exponent alignment) computes `tailSpec`.

  * `step128_ok`, `step64_ok` — one division stage
  * `fin128_ok`, `fin64_ok`   — final comparison
  * `sw128_ok`, `sw64_ok`     — the `switch exp` (0 ≤ exp ≤ 7)
  * `tail64_ok`, `tail2_ok`, `tail_ok` —
      `tail dSig oSig exp trunc res = .ok (tailSpec dSig.toNat oSig.toNat k trunc res)` for
      `exp.toInt = k ≤ 23`, `0 < dSig.toNat`, `res = ±1`
-/
import D128.Proofs.CmpDefs
import D128.Proofs.CmpNat
import D128.Proofs.CmpWords
set_option autoImplicit false

namespace CmpPf
open Gen

/-! ### Int16 helpers -/

theorem bmod16_small (x : Int) (h1 : -32768 ≤ x) (h2 : x < 32768) : x.bmod (2 ^ 16) = x := by
  rw [Int.bmod_eq_emod]
  split <;> omega

theorem i16_sub (a b : Int16) (h1 : -32768 ≤ a.toInt - b.toInt) (h2 : a.toInt - b.toInt < 32768) :
    (a - b).toInt = a.toInt - b.toInt := by
  rw [Int16.toInt_sub, bmod16_small _ h1 h2]

theorem i16_add (a b : Int16) (h1 : -32768 ≤ a.toInt + b.toInt) (h2 : a.toInt + b.toInt < 32768) :
    (a + b).toInt = a.toInt + b.toInt := by
  rw [Int16.toInt_add, bmod16_small _ h1 h2]

theorem i16_mul (a b : Int16) (h1 : -32768 ≤ a.toInt * b.toInt) (h2 : a.toInt * b.toInt < 32768) :
    (a * b).toInt = a.toInt * b.toInt := by
  rw [Int16.toInt_mul, bmod16_small _ h1 h2]

theorem i16_ge (a b : Int16) : (a ≥ b) ↔ b.toInt ≤ a.toInt := Int16.le_iff_toInt_le
theorem i16_gt (a b : Int16) : (a > b) ↔ b.toInt < a.toInt := Int16.lt_iff_toInt_lt

theorem i16_eq_of_toInt (a : Int16) (k : Nat) (hk : k < 32768) (h : a.toInt = k) :
    a = Int16.ofNat k := by
  rw [← Int16.toInt_inj, h, Int16.toInt_ofNat_of_lt (by omega)]

/-! ### one stage -/

theorem u64_ne_zero (r : UInt64) : (r != (0 : UInt64)) = decide (r.toNat ≠ 0) := by
  rw [Bool.eq_iff_iff]
  simp [← UInt64.toNat_inj]

theorem step128_ok {dv : U128 → Go.GoM (U128 × UInt64)} (P j : Nat) (hP : P = 10 ^ j)
    (hdv : ∀ n, ∃ q r, dv n = .ok (q, r) ∧ q.toNat = n.toNat / P ∧ r.toNat = n.toNat % P)
    (a k : Nat) (hj : j ≤ k) (ha : 0 < a) (oSig : U128) (trunc : Bool) (res : Int8)
    (kont : U128 → Bool → Go.GoM Int8)
    (hk : ∀ q t, kont q t = .ok (tailSpec a q.toNat (k - j) t res)) :
    step128 dv oSig trunc res kont = .ok (tailSpec a oSig.toNat k trunc res) := by
  obtain ⟨q, r, he, hq, hr⟩ := hdv oSig
  unfold step128
  rw [he]
  simp only [bind, Except.bind, U128_or_eq_zero, u64_ne_zero]
  by_cases h0 : q.toNat = 0
  · simp only [h0, decide_true, if_true]
    rw [tailSpec_exit a oSig.toNat k j P hP hj trunc res ha (by rw [← hq]; exact h0)]
    rfl
  · simp only [h0, decide_false, Bool.false_eq_true, if_false]
    rw [← tailSpec_step a oSig.toNat k j P hP hj trunc res, ← hq, ← hr]
    by_cases h1 : r.toNat = 0
    · simp [h1, hk]
    · simp [h1, hk]

theorem fin128_ok (dSig q : U128) (t : Bool) (res : Int8) (hres : res = 1 ∨ res = -1) :
    fin128 dSig q t res = .ok (tailSpec dSig.toNat q.toNat 0 t res) := by
  rw [tailSpec_zero]
  unfold fin128
  rw [U128_cmp_eq]
  by_cases h1 : dSig.toNat = q.toNat
  · rcases hres with rfl | rfl <;> cases t <;> simp [h1] <;> rfl
  · by_cases h2 : dSig.toNat < q.toNat
    · rcases hres with rfl | rfl <;> simp [h1, h2] <;> rfl
    · rcases hres with rfl | rfl <;> simp [h1, h2] <;> rfl

theorem sw128_ok (dSig oSig : U128) (exp : Int16) (k : Nat) (hk : k ≤ 7) (hexp : exp.toInt = k)
    (trunc : Bool) (res : Int8) (ha : 0 < dSig.toNat) (hres : res = 1 ∨ res = -1) :
    sw128 dSig oSig exp trunc res = .ok (tailSpec dSig.toNat oSig.toNat k trunc res) := by
  have he := i16_eq_of_toInt exp k (by omega) hexp
  have hf : ∀ (k' : Nat) (q : U128) (t : Bool), k' = 0 →
      fin128 dSig q t res = .ok (tailSpec dSig.toNat q.toNat k' t res) := by
    intro k' q t h; subst h; exact fin128_ok dSig q t res hres
  subst he
  unfold sw128
  obtain rfl | rfl | rfl | rfl | rfl | rfl | rfl | rfl :
    k = 0 ∨ k = 1 ∨ k = 2 ∨ k = 3 ∨ k = 4 ∨ k = 5 ∨ k = 6 ∨ k = 7 := by omega
  · simp only [Int16.reduceOfNat]; simp
    exact hf _ _ _ rfl
  · simp
    exact step128_ok 10 1 (by norm_num) U128_div10_eq _ 1 (by omega) ha _ _ _ _
      (fun q t => hf _ q t rfl)
  · simp
    exact step128_ok 10 1 (by norm_num) U128_div10_eq _ 2 (by omega) ha _ _ _ _ (fun q t =>
      step128_ok 10 1 (by norm_num) U128_div10_eq _ (2 - 1) (by omega) ha _ _ _ _
      (fun q t => hf _ q t rfl))
  · simp
    exact step128_ok 1000 3 (by norm_num) U128_div1000_eq _ 3 (by omega) ha _ _ _ _
      (fun q t => hf _ q t rfl)
  · simp
    exact step128_ok 10000 4 (by norm_num) U128_div10000_eq _ 4 (by omega) ha _ _ _ _
      (fun q t => hf _ q t rfl)
  · simp
    exact step128_ok 10 1 (by norm_num) U128_div10_eq _ 5 (by omega) ha _ _ _ _ (fun q t =>
      step128_ok 10000 4 (by norm_num) U128_div10000_eq _ (5 - 1) (by omega) ha _ _ _ _
      (fun q t => hf _ q t rfl))
  · simp
    exact step128_ok 1000 3 (by norm_num) U128_div1000_eq _ 6 (by omega) ha _ _ _ _ (fun q t =>
      step128_ok 1000 3 (by norm_num) U128_div1000_eq _ (6 - 3) (by omega) ha _ _ _ _
      (fun q t => hf _ q t rfl))
  · simp
    exact step128_ok 10 1 (by norm_num) U128_div10_eq _ 7 (by omega) ha _ _ _ _ (fun q t =>
      step128_ok 1000 3 (by norm_num) U128_div1000_eq _ (7 - 1) (by omega) ha _ _ _ _ (fun q t =>
      step128_ok 1000 3 (by norm_num) U128_div1000_eq _ (7 - 1 - 3) (by omega) ha _ _ _ _
      (fun q t => hf _ q t rfl)))

/-! ### 64-bit path -/

theorem u64_eq_zero (r : UInt64) : (r == (0 : UInt64)) = decide (r.toNat = 0) := by
  rw [Bool.eq_iff_iff]
  simp [← UInt64.toNat_inj]

theorem step64_ok (P : UInt64) (j : Nat) (hP : P.toNat = 10 ^ j)
    (a k : Nat) (hj : j ≤ k) (ha : 0 < a) (o : UInt64) (trunc : Bool) (res : Int8)
    (kont : UInt64 → Bool → Go.GoM Int8)
    (hk : ∀ q t, kont q t = .ok (tailSpec a q.toNat (k - j) t res)) :
    step64 P o trunc res kont = .ok (tailSpec a o.toNat k trunc res) := by
  unfold step64
  simp only [u64_ne_zero, u64_eq_zero, UInt64.toNat_mod, UInt64.toNat_div]
  by_cases h0 : o.toNat / P.toNat = 0
  · simp only [h0, decide_true, if_true]
    rw [tailSpec_exit a o.toNat k j P.toNat hP hj trunc res ha h0]
    simp; rfl
  · simp only [h0, decide_false, Bool.false_eq_true, if_false]
    rw [← tailSpec_step a o.toNat k j P.toNat hP hj trunc res]
    by_cases h1 : o.toNat % P.toNat = 0
    · simp [h1, hk, UInt64.toNat_div]
    · simp [h1, hk, UInt64.toNat_div]

theorem fin64_ok (dSig : U128) (o : UInt64) (t : Bool) (res : Int8) :
    fin64 dSig o t res = .ok (tailSpec dSig.w0.toNat o.toNat 0 t res) := by
  rw [tailSpec_zero]
  unfold fin64
  simp only [beq_iff_eq, ← UInt64.toNat_inj, UInt64.lt_iff_toNat_lt, decide_eq_true_eq]
  by_cases h1 : dSig.w0.toNat = o.toNat
  · cases t <;> simp [h1] <;> rfl
  · by_cases h2 : dSig.w0.toNat < o.toNat
    · simp [h1, h2]; rfl
    · simp [h1, h2]; rfl

theorem sw64_ok (dSig : U128) (o : UInt64) (exp : Int16) (k : Nat) (hk : k ≤ 7)
    (hexp : exp.toInt = k) (trunc : Bool) (res : Int8) (ha : 0 < dSig.w0.toNat) :
    sw64 dSig o exp trunc res = .ok (tailSpec dSig.w0.toNat o.toNat k trunc res) := by
  have he := i16_eq_of_toInt exp k (by omega) hexp
  have hf : ∀ (k' : Nat) (q : UInt64) (t : Bool), k' = 0 →
      fin64 dSig q t res = .ok (tailSpec dSig.w0.toNat q.toNat k' t res) := by
    intro k' q t h; subst h; exact fin64_ok dSig q t res
  subst he
  unfold sw64
  obtain rfl | rfl | rfl | rfl | rfl | rfl | rfl | rfl :
    k = 0 ∨ k = 1 ∨ k = 2 ∨ k = 3 ∨ k = 4 ∨ k = 5 ∨ k = 6 ∨ k = 7 := by omega
  · simp only [Int16.reduceOfNat]; simp
    exact hf _ _ _ rfl
  · simp
    exact step64_ok 10 1 (by decide) _ 1 (by omega) ha _ _ _ _ (fun q t => hf _ q t rfl)
  · simp
    exact step64_ok 100 2 (by decide) _ 2 (by omega) ha _ _ _ _ (fun q t => hf _ q t rfl)
  · simp
    exact step64_ok 1000 3 (by decide) _ 3 (by omega) ha _ _ _ _ (fun q t => hf _ q t rfl)
  · simp
    exact step64_ok 10000 4 (by decide) _ 4 (by omega) ha _ _ _ _ (fun q t => hf _ q t rfl)
  · simp
    exact step64_ok 100000 5 (by decide) _ 5 (by omega) ha _ _ _ _ (fun q t => hf _ q t rfl)
  · simp
    exact step64_ok 1000000 6 (by decide) _ 6 (by omega) ha _ _ _ _ (fun q t => hf _ q t rfl)
  · simp
    exact step64_ok 10000000 7 (by decide) _ 7 (by omega) ha _ _ _ _ (fun q t => hf _ q t rfl)

theorem i16_lit8 : (8 : Int16).toInt = 8 := by decide

theorem tail64_ok (dSig : U128) (o : UInt64) (exp : Int16) (k : Nat) (hk : k ≤ 15)
    (hexp : exp.toInt = k) (trunc : Bool) (res : Int8) (ha : 0 < dSig.w0.toNat) :
    tail64 dSig o exp trunc res = .ok (tailSpec dSig.w0.toNat o.toNat k trunc res) := by
  unfold tail64
  by_cases h8 : 8 ≤ k
  · have hc : exp ≥ (8 : Int16) := by rw [i16_ge, i16_lit8, hexp]; omega
    have hs : (exp - (8 : Int16)).toInt = ((k - 8 : Nat) : Int) := by
      rw [i16_sub _ _ (by rw [i16_lit8, hexp]; omega) (by rw [i16_lit8, hexp]; omega),
        i16_lit8, hexp]; omega
    simp only [hc, decide_true, if_true]
    exact step64_ok 100000000 8 (by decide) _ k h8 ha _ _ _ _
      (fun q t => sw64_ok dSig q _ (k - 8) (by omega) hs t res ha)
  · have hc : ¬ exp ≥ (8 : Int16) := by rw [i16_ge, i16_lit8, hexp]; omega
    simp only [hc, decide_false, Bool.false_eq_true, if_false]
    exact sw64_ok dSig o exp k (by omega) hexp trunc res ha

theorem tail2_ok (dSig oSig : U128) (exp : Int16) (k : Nat) (hk : k ≤ 15)
    (hexp : exp.toInt = k) (trunc : Bool) (res : Int8) (ha : 0 < dSig.toNat)
    (hres : res = 1 ∨ res = -1) :
    tail2 dSig oSig exp trunc res = .ok (tailSpec dSig.toNat oSig.toNat k trunc res) := by
  unfold tail2
  have := oSig.w0.toNat_lt
  by_cases hw : oSig.w1 = 0
  · have ho : oSig.toNat = oSig.w0.toNat := by simp [U128.toNat, hw]
    by_cases hd : dSig.w1 = 0
    · have hdn : dSig.toNat = dSig.w0.toNat := by simp [U128.toNat, hd]
      simp only [hw, hd, beq_self_eq_true, bne_self_eq_false, if_true, Bool.false_eq_true, if_false]
      rw [hdn, ho]
      exact tail64_ok dSig oSig.w0 exp k hk hexp trunc res (by omega)
    · have hd' : (dSig.w1 != 0) = true := by simpa using hd
      simp only [hw, hd', beq_self_eq_true, if_true]
      have hd1 : 0 < dSig.w1.toNat := by
        rcases Nat.eq_zero_or_pos dSig.w1.toNat with h | h
        · exact absurd (UInt64.toNat_inj.1 (by simpa using h)) hd
        · exact h
      rw [tailSpec_gt]
      · rfl
      · have : oSig.toNat / 10 ^ k ≤ oSig.toNat := Nat.div_le_self _ _
        simp only [U128.toNat] at *
        omega
  · have hw' : (oSig.w1 == 0) = false := by simpa using hw
    simp only [hw', Bool.false_eq_true, if_false]
    by_cases h8 : 8 ≤ k
    · have hc : exp ≥ (8 : Int16) := by rw [i16_ge, i16_lit8, hexp]; omega
      have hs : (exp - (8 : Int16)).toInt = ((k - 8 : Nat) : Int) := by
        rw [i16_sub _ _ (by rw [i16_lit8, hexp]; omega) (by rw [i16_lit8, hexp]; omega),
          i16_lit8, hexp]; omega
      simp only [hc, decide_true, if_true]
      exact step128_ok 100000000 8 (by norm_num) U128_div1e8_eq _ k h8 ha _ _ _ _
        (fun q t => sw128_ok dSig q _ (k - 8) (by omega) hs t res ha hres)
    · have hc : ¬ exp ≥ (8 : Int16) := by rw [i16_ge, i16_lit8, hexp]; omega
      simp only [hc, decide_false, Bool.false_eq_true, if_false]
      exact sw128_ok dSig oSig exp k (by omega) hexp trunc res ha hres

theorem tail_ok (dSig oSig : U128) (exp : Int16) (k : Nat) (hk : k ≤ 23)
    (hexp : exp.toInt = k) (trunc : Bool) (res : Int8) (ha : 0 < dSig.toNat)
    (hres : res = 1 ∨ res = -1) :
    tail dSig oSig exp trunc res = .ok (tailSpec dSig.toNat oSig.toNat k trunc res) := by
  unfold tail
  by_cases h8 : 8 ≤ k
  · have hc : exp ≥ (8 : Int16) := by rw [i16_ge, i16_lit8, hexp]; omega
    have hs : (exp - (8 : Int16)).toInt = ((k - 8 : Nat) : Int) := by
      rw [i16_sub _ _ (by rw [i16_lit8, hexp]; omega) (by rw [i16_lit8, hexp]; omega),
        i16_lit8, hexp]; omega
    simp only [hc, decide_true, if_true]
    exact step128_ok 100000000 8 (by norm_num) U128_div1e8_eq _ k h8 ha _ _ _ _
      (fun q t => tail2_ok dSig q _ (k - 8) (by omega) hs t res ha hres)
  · have hc : ¬ exp ≥ (8 : Int16) := by rw [i16_ge, i16_lit8, hexp]; omega
    simp only [hc, decide_false, Bool.false_eq_true, if_false]
    exact tail2_ok dSig oSig exp k (by omega) hexp trunc res ha hres

end CmpPf
