/-
  D128/Proofs/ExpAccM1Tail.lean — property C16: the loop-free tail of `decomposed192.epowm1`
  (`epowm1Tail` of ExpAccHornerM1.lean) against `e^(±A) − 1`, positive arguments.

  Provided (namespace `ExpAcc`):
  * `M1Facts sb A z`  : what the triple `z = (neg, res, flag)` returned by `epowm1` satisfies: either the
                        working exponent is beyond 6169 and `e^A ≥ 10^6200`, or the sign is that of the argument,
                        the flag is in {0,1,-1} and `val res` is `Near |e^(±A) − 1|`
  * `M1In`            : the facts about the Horner value `m` (from `epowm1_head`) and the reduced argument
  * `m1_pos_small`    : positive argument below 1 (`o = 0`)
  * `m1_pos_big`      : positive argument from 1 on (`o ≥ 1`)
-/
import D128.Proofs.ExpAccM1Round
import D128.Proofs.ExpAccRcpBig
import D128.Proofs.D192OneSubContract
set_option autoImplicit false
set_option maxRecDepth 4096
set_option exponentiation.threshold 512

namespace ExpAcc
open Gen D192 Spec SpecRound EnclPf
local notation "𝔳[" d "]" => Spec.interp (Gen.Decimal.lo d) (Gen.Decimal.hi d)

/-- what `epowm1` returns, against the real target -/
def M1Facts (sb : Bool) (A : ℝ) (z : Bool × decomposed192 × Int8) : Prop :=
  (z.2.1.exp.toInt > 6169 ∧ (10 : ℝ) ^ (6200 : ℕ) ≤ Real.exp A) ∨
  (z.2.1.exp.toInt ≤ 6169 ∧ z.1 = sb ∧ 1 ≤ z.2.1.sig.toNat ∧ -20000 ≤ z.2.1.exp.toInt ∧
    (z.2.2 = 0 ∨ z.2.2 = 1 ∨ z.2.2 = -1) ∧ (z.2.2 = -1 → -6176 ≤ z.2.1.exp.toInt) ∧
    Near (val z.2.1) |Real.exp (if sb then -A else A) - 1|)

/-- the facts about the reduced argument `x`, the power `o` and the Horner value `m` -/
structure M1In (arg : decomposed192) (x : ℚ) (o : Int16) (m : decomposed192) (tm : Int8) : Prop where
  hx0 : 0 < x
  hx1 : x ≤ 1
  ho0 : 0 ≤ o.toInt
  ho7 : o.toInt ≤ 7
  hxa : x * (10 : ℚ) ^ (o.toInt.toNat) = val arg
  hx10 : o = 0 ∨ 1 / 10 ≤ x
  hm1 : Mq x * (1 - theta) ^ 117 ≤ val m
  hm2 : val m ≤ Mq x
  htm : tm = 0 ∨ tm = 1
  hmsz : 10 ^ 56 ≤ m.sig.toNat
  hme1 : m.exp.toInt ≤ -55
  hme0 : -16200 ≤ m.exp.toInt

theorem Mq_eq (x : ℚ) : Mq x = R x - 1 := by rw [R_eq_Mq]; ring

/-- the Horner value against `e^x − 1` -/
theorem m_real {arg : decomposed192} {x : ℚ} {o : Int16} {m : decomposed192} {tm : Int8}
    (h : M1In arg x o m tm) :
    (Real.exp (x : ℝ) - 1) * (1 - 1 / 10 ^ 45) ≤ ((val m : ℚ) : ℝ) ∧
      ((val m : ℚ) : ℝ) ≤ Real.exp (x : ℝ) - 1 ∧ (x : ℝ) ≤ Real.exp (x : ℝ) - 1 := by
  have hxr : (0 : ℝ) < (x : ℝ) := by exact_mod_cast h.hx0
  have h1 := expm1_le_Rm1 x h.hx0.le h.hx1
  have h2 := Rm1_le_expm1 x h.hx0.le
  rw [← Mq_eq] at h1 h2
  have hm1 : ((Mq x : ℚ) : ℝ) * (1 - ((theta : ℚ) : ℝ)) ^ 117 ≤ ((val m : ℚ) : ℝ) := by
    have : ((Mq x * (1 - theta) ^ 117 : ℚ) : ℝ) ≤ ((val m : ℚ) : ℝ) := Rat.cast_le.2 h.hm1
    push_cast at this; exact this
  have hm2 : ((val m : ℚ) : ℝ) ≤ ((Mq x : ℚ) : ℝ) := Rat.cast_le.2 h.hm2
  have hth := theta_pow_ge 117
  have hE : (x : ℝ) ≤ Real.exp (x : ℝ) - 1 := by have := Real.add_one_le_exp (x : ℝ); linarith
  have hT0 : 0 < Real.exp (x : ℝ) - 1 := by linarith
  have hMq0 : 0 ≤ ((Mq x : ℚ) : ℝ) := le_trans (by nlinarith) h1
  refine ⟨?_, le_trans hm2 h2, hE⟩
  have h3 : ((Mq x : ℚ) : ℝ) * (1 - (117 : ℝ) * (1 / 10 ^ 56)) ≤ ((val m : ℚ) : ℝ) := by
    have : ((Mq x : ℚ) : ℝ) * (1 - ((117 : ℕ) : ℝ) * (1 / 10 ^ 56))
        ≤ ((Mq x : ℚ) : ℝ) * (1 - ((theta : ℚ) : ℝ)) ^ 117 := mul_le_mul_of_nonneg_left hth hMq0
    push_cast at this; linarith
  have h4 : (Real.exp (x : ℝ) - 1) * (1 - 1 / 10 ^ 46) * (1 - (117 : ℝ) * (1 / 10 ^ 56)) ≤ ((val m : ℚ) : ℝ) := by
    have : (Real.exp (x : ℝ) - 1) * (1 - 1 / 10 ^ 46) * (1 - (117 : ℝ) * (1 / 10 ^ 56))
        ≤ ((Mq x : ℚ) : ℝ) * (1 - (117 : ℝ) * (1 / 10 ^ 56)) := mul_le_mul_of_nonneg_right h1 (by norm_num)
    linarith
  have h5 : (1 - 1 / 10 ^ 45 : ℝ) ≤ (1 - 1 / 10 ^ 46) * (1 - (117 : ℝ) * (1 / 10 ^ 56)) := by norm_num
  nlinarith

/-- **positive argument below 1**: the Horner value itself is returned -/
theorem m1_pos_small {arg : decomposed192} {x : ℚ} {o : Int16} {m : decomposed192} {tm : Int8}
    (h : M1In arg x o m tm) (ho : o = 0) :
    ∃ z, epowm1Tail false o m tm = .ok z ∧ M1Facts false ((val arg : ℚ) : ℝ) z := by
  have hd : ¬ m.exp > 6169 := by
    rw [gt_iff_lt, Int16.lt_iff_toInt_lt]
    have h6 : (6169 : Int16).toInt = 6169 := by decide
    have := h.hme1; omega
  refine ⟨(false, m, tm), ?_, ?_⟩
  · rw [epowm1Tail_def, if_neg hd, if_pos ho]; rfl
  · right
    have hav : val arg = x := by
      rw [← h.hxa, ho]; simp [i16_zero_toInt]
    obtain ⟨h1, h2, h3⟩ := m_real h
    have hxr : (0 : ℝ) < (x : ℝ) := by exact_mod_cast h.hx0
    have hT0 : 0 < Real.exp (x : ℝ) - 1 := by linarith
    have hs1 : 1 ≤ m.sig.toNat := le_trans (by norm_num) h.hmsz
    refine ⟨by have := h.hme1; show m.exp.toInt ≤ 6169; omega, rfl, hs1,
      by have := h.hme0; show -20000 ≤ m.exp.toInt; omega, ?_, ?_, ?_⟩
    · rcases h.htm with h' | h'
      · left; exact h'
      · right; left; exact h'
    · intro h'
      have h' : tm = -1 := h'
      rcases h.htm with h'' | h''
      · rw [h''] at h'; exact absurd h' (by decide)
      · rw [h''] at h'; exact absurd h' (by decide)
    · simp only [Bool.false_eq_true, if_false]
      rw [hav, abs_of_pos hT0]
      exact near_of_rel hT0 (by nlinarith) (by nlinarith)

theorem dinf_sig_pos : 0 < dinf.sig.toNat := by decide
theorem dinf_exp_big : 58 < dinf.exp.toInt := by decide
theorem i8_mul_neg_cases (t : Int8) (h : t = 0 ∨ t = 1) : t * -1 = 0 ∨ t * -1 = -1 := by
  rcases h with h | h <;> rw [h] <;> decide

/-- the flag of `sub1` for an incoming flag in {0, 1} -/
theorem sub1_flag {p r : decomposed192} {t t' : Int8} {neg : Bool} (ht : t = 0 ∨ t = 1)
    (hcl : ((|val p - 1| = val r ∧ (neg = false → t' = t) ∧
          (neg = true → t' = t * -1 ∨ (p.sig.toNat = 0 ∧ t' = t))) ∨
       (|val p - 1| < val r ∧ t' = -1 ∧ neg = true ∧ r.exp.toInt = -57) ∨
       (|val p - 1| < val r ∧ t' = 1 ∧ (r = D192.one ∨ val r = val p)))) :
    t' = 0 ∨ t' = 1 ∨ t' = -1 := by
  rcases hcl with ⟨-, h1, h2⟩ | ⟨-, h1, -⟩ | ⟨-, h1, -⟩
  · cases neg
    · rw [h1 rfl]; rcases ht with h | h <;> simp [h]
    · rcases h2 rfl with h | ⟨-, h⟩
      · rw [h]; rcases i8_mul_neg_cases t ht with h' | h' <;> simp [h']
      · rw [h]; rcases ht with h | h <;> simp [h]
  · right; right; exact h1
  · right; left; exact h1

/-- the add1 of the Horner value is the Horner value of `epow` -/
theorem a_horner {arg : decomposed192} {x : ℚ} {o : Int16} {m : decomposed192} {tm : Int8}
    (h : M1In arg x o m tm) (a : decomposed192 × Int8) (ha : Add1R' m tm a) :
    R x * (1 - theta) ^ 118 ≤ val a.1 ∧ val a.1 ≤ R x ∧ 1 ≤ val a.1 ∧ (a.2 = 0 ∨ a.2 = 1) ∧
      (a.1 = D192.one ∨ 10 ^ 55 ≤ a.1.sig.toNat) ∧ -57 ≤ a.1.exp.toInt ∧ a.1.exp.toInt ≤ 1 := by
  obtain ⟨b1, b2, b3⟩ := add1_big ha (by have := h.hmsz; omega) h.hme1
  have hθ := one_sub_theta_pos
  have hθ1 : 1 - theta ≤ 1 := by have := theta_pos; linarith
  have hp117 : (1 - theta) ^ 117 ≤ 1 := pow_le_one₀ hθ.le hθ1
  have hp0 : 0 ≤ (1 - theta) ^ 117 := pow_nonneg hθ.le _
  have hMq0 : 0 ≤ Mq x := by
    unfold Mq; exact mul_nonneg h.hx0.le (G_nonneg x h.hx0.le 38)
  obtain ⟨⟨a1, a2, a3, a4, -⟩, -⟩ := ha
  refine ⟨?_, ?_, a3, ?_, b3, b2, b1⟩
  · rw [R_eq_Mq]
    calc (1 + Mq x) * (1 - theta) ^ 118 = ((1 - theta) ^ 117 + Mq x * (1 - theta) ^ 117) * (1 - theta) := by ring
      _ ≤ (1 + val m) * (1 - theta) := by
          apply mul_le_mul_of_nonneg_right _ hθ.le
          have := h.hm1; linarith
      _ = (val m + 1) * (1 - theta) := by ring
      _ ≤ val a.1 := a2
  · rw [R_eq_Mq]; have := h.hm2; linarith
  · rcases a4 with h' | h'
    · rw [h']; exact h.htm
    · right; exact h'

/-- **positive argument from 1 on**: `add1`, `powexp10`, `sub1` -/
theorem m1_pos_big {arg : decomposed192} {x : ℚ} {o : Int16} {m : decomposed192} {tm : Int8}
    (h : M1In arg x o m tm) (ho : o ≠ 0) :
    ∃ z, epowm1Tail false o m tm = .ok z ∧ M1Facts false ((val arg : ℚ) : ℝ) z := by
  have hd : ¬ m.exp > 6169 := by
    rw [gt_iff_lt, Int16.lt_iff_toInt_lt]
    have h6 : (6169 : Int16).toInt = 6169 := by decide
    have := h.hme1; omega
  obtain ⟨a, ea, ha⟩ := add1_q3 m tm
  obtain ⟨y1, y2, y3, yt, ysz, -, -⟩ := a_horner h a ha
  obtain ⟨p, ep, hp⟩ := pow_stage arg x o a.1 a.2 h.hx0 h.hx1 h.ho0 h.ho7 h.hxa h.hx10 y1 y2 y3 yt ysz
  -- A ≥ 1
  have hx10 := h.hx10.resolve_left ho
  have hopos : 1 ≤ o.toInt := by
    by_contra hcon
    apply ho; apply Int16.toInt_inj.1; rw [i16_zero_toInt]; have := h.ho0; omega
  have hA1 : (1 : ℝ) ≤ ((val arg : ℚ) : ℝ) := by
    have h10 : (10 : ℚ) ≤ (10 : ℚ) ^ (o.toInt.toNat) := by
      calc (10 : ℚ) = 10 ^ 1 := by norm_num
        _ ≤ 10 ^ o.toInt.toNat := pow_le_pow_right₀ (by norm_num) (by omega)
    have : (1 : ℚ) ≤ val arg := by
      rw [← h.hxa]
      calc (1 : ℚ) = 1 / 10 * 10 := by norm_num
        _ ≤ x * (10 : ℚ) ^ (o.toInt.toNat) := mul_le_mul hx10 h10 (by norm_num) h.hx0.le
    exact_mod_cast this
  set A : ℝ := ((val arg : ℚ) : ℝ) with hA
  have hE2 : (2 : ℝ) ≤ Real.exp A := by have := Real.add_one_le_exp A; linarith
  have htail : epowm1Tail false o m tm = decomposed192.sub1 p.1 p.2 := by
    rw [epowm1Tail_def, if_neg hd, if_neg ho, ea]
    simp only [RK.ok_bind]
    rw [ep]
    simp only [RK.ok_bind, Bool.false_eq_true, if_false]
  rw [htail]
  rcases hp with ⟨hdinf, hhuge⟩ | ⟨hflag, hv1, hv2, hv3, hsz, hone⟩
  · -- overflow marker
    refine ⟨(false, dinf, 1), ?_, Or.inl ⟨?_, ?_⟩⟩
    · rw [hdinf]; exact sub1_huge dinf p.2 dinf_sig_pos dinf_exp_big
    · show dinf.exp.toInt > 6169; decide
    · exact le_trans (pow_le_pow_right₀ (by norm_num) (by norm_num)) hhuge
  · obtain ⟨neg, r, t', hr, hneg, hlo, hup, hcl, herr, hexp⟩ := sub1_contract p.1 p.2
    refine ⟨(neg, r, t'), hr, ?_⟩
    -- the sign
    have hp1 : (1 : ℝ) ≤ ((val p.1 : ℚ) : ℝ) := by nlinarith
    have hp1q : (1 : ℚ) ≤ val p.1 := by exact_mod_cast hp1
    have hnegf : neg = false := by
      cases neg
      · rfl
      · exact absurd (hneg.1 rfl) (not_lt.2 hp1q)
    have habs : |val p.1 - 1| = val p.1 - 1 := abs_of_nonneg (by linarith)
    have hflag' := sub1_flag hflag hcl
    rw [habs] at hlo hup herr
    have hpne : p.1 ≠ D192.one := by
      intro hpo
      have := hone hpo
      have : ((val arg : ℚ) : ℝ) < ((1 / 10 ^ 50 : ℚ) : ℝ) := Rat.cast_lt.2 this
      push_cast at this
      have : (1 : ℝ) / 10 ^ 50 < 1 := by norm_num
      linarith
    have hpsz : 10 ^ 55 ≤ p.1.sig.toNat := hsz.resolve_left hpne
    by_cases hbig : r.exp.toInt > 6169
    · left
      refine ⟨hbig, ?_⟩
      rcases hexp with ⟨hrp, -⟩ | ⟨-, h58⟩
      · -- r = p with a huge exponent
        have hval : (10 : ℚ) ^ (6200 : ℕ) ≤ val p.1 := by
          unfold val
          have hs : ((10 : ℚ) ^ (55 : ℕ)) ≤ (p.1.sig.toNat : ℚ) := by exact_mod_cast hpsz
          have hp : (10 : ℚ) ^ (6170 : Int) ≤ (10 : ℚ) ^ p.1.exp.toInt :=
            zpow_le_zpow_right₀ (by norm_num) (by rw [← hrp]; omega)
          have e : (10 : ℚ) ^ (6200 : ℕ) ≤ (10 : ℚ) ^ (55 : ℕ) * (10 : ℚ) ^ (6170 : Int) := by
            rw [← zpow_natCast, ← zpow_natCast, ← zpow_add₀ (by norm_num)]
            exact zpow_le_zpow_right₀ (by norm_num) (by norm_num)
          exact le_trans e (mul_le_mul hs hp (zpow_pos (by norm_num) _).le (Nat.cast_nonneg _))
        have : (((10 : ℚ) ^ (6200 : ℕ) : ℚ) : ℝ) ≤ ((val p.1 : ℚ) : ℝ) := Rat.cast_le.2 hval
        rw [Rat.cast_pow] at this
        exact le_trans (by exact_mod_cast this) hv2
      · omega
    · right
      have hT0 : (1 : ℝ) ≤ Real.exp A - 1 := by linarith
      have hrr : ((val r : ℚ) : ℝ) - (((val p.1 : ℚ) : ℝ) - 1) < 1 / 10 ^ 57 ∨
          ((val r : ℚ) : ℝ) - (((val p.1 : ℚ) : ℝ) - 1) = 1 ∧ (10 : ℝ) ^ 57 ≤ ((val r : ℚ) : ℝ) := by
        rcases herr with h' | ⟨h1, h2⟩
        · left
          have h'' := (abs_lt.1 h').1
          have : (((val r - (val p.1 - 1) : ℚ)) : ℝ) < (((10 : ℚ) ^ (-57 : Int) : ℚ) : ℝ) := Rat.cast_lt.2 (by linarith)
          push_cast at this
          have e : (10 : ℝ) ^ (-57 : Int) = 1 / 10 ^ 57 := by rw [zpow_neg, one_div]; norm_cast
          rw [e] at this; linarith
        · right
          constructor
          · have : (((val r - (val p.1 - 1) : ℚ)) : ℝ) = ((1 : ℚ) : ℝ) := by rw [h1]
            push_cast at this; linarith
          · have : (((10 : ℚ) ^ 57 : ℚ) : ℝ) ≤ ((val r : ℚ) : ℝ) := Rat.cast_le.2 h2
            push_cast at this; exact this
      have hupr : ((val p.1 : ℚ) : ℝ) - 1 ≤ ((val r : ℚ) : ℝ) := by
        have : (((val p.1 - 1 : ℚ)) : ℝ) ≤ ((val r : ℚ) : ℝ) := Rat.cast_le.2 hup
        push_cast at this; exact this
      have hrpos : (0 : ℝ) < ((val r : ℚ) : ℝ) := by linarith
      have hs1 : 1 ≤ r.sig.toNat := sig_pos_of_val_pos r (by exact_mod_cast hrpos)
      have hre : -20000 ≤ r.exp.toInt := by
        rcases hexp with ⟨hrp, h58⟩ | ⟨h57, -⟩
        · rw [hrp]; omega
        · omega
      refine ⟨by show r.exp.toInt ≤ 6169; omega, hnegf, hs1, hre, hflag', ?_, ?_⟩
      · intro hm1
        show -6176 ≤ r.exp.toInt
        rcases hexp with ⟨hrp, h58⟩ | ⟨h57, -⟩
        · rw [hrp]; omega
        · omega
      · simp only [Bool.false_eq_true, if_false]
        rw [abs_of_pos (by linarith)]
        apply near_of_rel (by linarith)
        · -- lower: val r ≥ val p − 1 ≥ E(1−1e-38) − 1 ≥ (E−1)(1 − 2e-38)
          have : Real.exp A * (1 - 1 / 10 ^ 38) - 1 ≤ ((val r : ℚ) : ℝ) := by linarith
          nlinarith
        · rcases hrr with h' | ⟨h1, h2⟩
          · have : ((val r : ℚ) : ℝ) ≤ Real.exp A - 1 + 1 / 10 ^ 57 := by linarith
            nlinarith
          · have h3 : ((val r : ℚ) : ℝ) ≤ Real.exp A := by linarith
            have h4 : (10 : ℝ) ^ 57 - 1 ≤ Real.exp A - 1 := by linarith
            nlinarith

end ExpAcc
