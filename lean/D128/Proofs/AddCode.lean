/-
  D128/Proofs/AddCode.lean — code-level normal form ("staging") of the generated `Gen.Decimal.add`
  (Go: /repo/arith.go, `func (d Decimal) add(o Decimal, mode RoundingMode, subtract bool)`).

  The generated function is one long `do` block (two symmetric halves of ten compound statements with
  three `while` loops each).  We name its continuations; the named pieces are NOT a model that
  anything is proved "instead of": `add_eq` ties them to the generated definition by definitional
  unfolding, so it breaks when the generated code changes.

  Provided (namespace `AD`):
  * `finish`, `tail`            : the epilogue (from `dNeg := d.Signbit()` on)
  * `scaleBody`, `scaleLoop`    : the scale-up loops `for exp ≤ -4 && oSig[1] ≤ … { oSig = oSig.mul64(10000) … }`
  * `divStep`                   : `if c { s, rem = s.divN(); if rem != 0 { trunc = ±1 }; if s == 0 {…} else {…} }`
  * `loopLBody`, `loopRBody`    : bodies of the final `for exp < 0` / `for exp > 0` loops
  * `ladderL`, `ladderR`, `alignL`, `alignR`, `core`
  * `add_eq`                    : `Gen.Decimal.add d o mode sub = <staged form>` for non-zero significands
-/
import D128.Gen.Arith
import D128.Proofs.RoundKernelCode

set_option autoImplicit false
set_option maxRecDepth 8192
set_option linter.unusedVariables false

namespace AD
open Gen

/-- `if exp > maxBiasedExponent { return inf(neg) }; return compose(neg, sig, exp)` -/
def finish (neg : Bool) (x : U128 × Int16) : Go.GoM Decimal :=
  if decide (x.2 > 12287) = true then pure (inf neg) else pure (compose neg x.1 x.2)

/-- the epilogue of `add` from `if dNeg == oNeg` on (`oNeg` already flipped for a subtraction) -/
def tail (mode : UInt8) (dNeg oNeg : Bool) (dSig : U128) (dExp : Int16) (oSig : U128)
    (trunc : Int8) : Go.GoM Decimal :=
  if (dNeg == oNeg) = true then
    if ((U128.add dSig oSig).w0 ||| (U128.add dSig oSig).w1 ||| (U128.add dSig oSig).w2 == 0) = true then
      pure (zero (mode == 4))
    else
      if (trunc == -1) = true then do
        let x ← RoundingMode.reduce192 mode dNeg (U128.add dSig oSig) dExp 1
        finish dNeg x
      else do
        let x ← RoundingMode.reduce192 mode dNeg (U128.add dSig oSig) dExp trunc
        finish dNeg x
  else
    if ((U128.sub dSig oSig).2 != 0) = true then do
      let x ← RoundingMode.reduce128 mode (!dNeg) (U128.twos (U128.sub dSig oSig).1) dExp (trunc * -1)
      finish (!dNeg) x
    else
      if ((U128.sub dSig oSig).1.w0 ||| (U128.sub dSig oSig).1.w1 == 0) = true then
        pure (zero (mode == 4))
      else do
        let x ← RoundingMode.reduce128 mode dNeg (U128.sub dSig oSig).1 dExp trunc
        finish dNeg x

/-- the epilogue including `if subtract { oNeg = !oNeg }` -/
def tailS (d o : Decimal) (mode : UInt8) (subtract : Bool) (dSig : U128) (dExp : Int16) (oSig : U128)
    (trunc : Int8) : Go.GoM Decimal :=
  if subtract = true then tail mode (Decimal.Signbit d) (!Decimal.Signbit o) dSig dExp oSig trunc
  else tail mode (Decimal.Signbit d) (Decimal.Signbit o) dSig dExp oSig trunc

abbrev S3 := U128 × Int16 × Int16

/-- body of a scale-up loop: `for c(exp) && sig[1] ≤ K { sig = sig.mul64(M); e -= j; exp = fx(exp) }` -/
def scaleBody (c : Int16 → Bool) (K M : UInt64) (j : Int16) (fx : Int16 → Int16) (_ : Unit) (s : S3) :
    Go.GoM (ForInStep S3) :=
  if (c s.2.2 && decide (s.1.w1 ≤ K)) = true then
    pure (ForInStep.yield (U128.mul64 s.1 M, s.2.1 - j, fx s.2.2))
  else pure (ForInStep.done (s.1, s.2.1, s.2.2))

def scaleLoop (c : Int16 → Bool) (K M : UInt64) (j : Int16) (fx : Int16 → Int16) (s : S3) : Go.GoM S3 :=
  forIn Lean.Loop.mk s (scaleBody c K M j fx)

/-- one rung of the truncation ladder in continuation-passing form:
    `if c { s, rem = dv(s); if rem != 0 { trunc = tv }; if s == 0 { kz } else { ks } } else { kn }` -/
def divStep {α : Type} (dv : U128 → Go.GoM (U128 × UInt64)) (c : Bool) (tv : Int8) (s : U128)
    (trunc : Int8) (kz ks : U128 → Int8 → Go.GoM α) (kn : Go.GoM α) : Go.GoM α :=
  if c = true then do
    let x ← dv s
    if (x.2 != 0) = true then
      if (x.1.w0 ||| x.1.w1 == 0) = true then kz x.1 tv else ks x.1 tv
    else
      if (x.1.w0 ||| x.1.w1 == 0) = true then kz x.1 trunc else ks x.1 trunc
  else kn

abbrev SL := U128 × Int16 × Int16 × Int8
abbrev SR := U128 × Int16 × Int8

/-- body of `for exp < 0 { dSig, rem = dSig.div10(); …; if dSig == 0 { dExp = oExp; break }; dExp++; exp++ }` -/
def loopLBody (oExp : Int16) (_ : Unit) (s : SL) : Go.GoM (ForInStep SL) :=
  divStep U128.div10 (decide (s.2.2.1 < 0)) 1 s.1 s.2.2.2
    (fun q t => pure (ForInStep.done (q, oExp, s.2.2.1, t)))
    (fun q t => pure (ForInStep.yield (q, s.2.1 + 1, s.2.2.1 + 1, t)))
    (pure (ForInStep.done (s.1, s.2.1, s.2.2.1, s.2.2.2)))

/-- body of `for exp > 0 { oSig, rem = oSig.div10(); …; if oSig == 0 { break }; exp-- }` -/
def loopRBody (_ : Unit) (s : SR) : Go.GoM (ForInStep SR) :=
  divStep U128.div10 (decide (s.2.1 > 0)) (-1) s.1 s.2.2
    (fun q t => pure (ForInStep.done (q, s.2.1, t)))
    (fun q t => pure (ForInStep.yield (q, s.2.1 - 1, t)))
    (pure (ForInStep.done (s.1, s.2.1, s.2.2)))

/-- one `if exp <= -j { … }` statement of the half `exp < 0` -/
def stepL {α : Type} (dv : U128 → Go.GoM (U128 × UInt64)) (c : Bool) (j : Int16) (oExp : Int16)
    (next : U128 → Int16 → Int16 → Int8 → Go.GoM α) (dSig : U128) (dExp exp : Int16) (trunc : Int8) :
    Go.GoM α :=
  divStep dv c 1 dSig trunc (fun q t => next q oExp 0 t) (fun q t => next q (dExp + j) (exp + j) t)
    (next dSig dExp exp trunc)

/-- one `if exp >= j { … }` statement of the half `exp > 0` -/
def stepR {α : Type} (dv : U128 → Go.GoM (U128 × UInt64)) (c : Bool) (j : Int16)
    (next : U128 → Int16 → Int8 → Go.GoM α) (oSig : U128) (exp : Int16) (trunc : Int8) : Go.GoM α :=
  divStep dv c (-1) oSig trunc (fun q t => next q 0 t) (fun q t => next q (exp - j) t)
    (next oSig exp trunc)

/-- the half `exp < 0` from `if exp < -maxDigits` on; `K dSig dExp trunc` is the epilogue -/
def ladderL {α : Type} (K : U128 → Int16 → Int8 → Go.GoM α) (oExp : Int16) (dSig : U128)
    (dExp exp : Int16) (trunc : Int8) : Go.GoM α :=
  let l8 := fun dSig dExp exp trunc =>
    stepL U128.div1e8 (decide (exp ≤ -8)) 8 oExp (fun dSig dExp exp trunc =>
    stepL U128.div10000 (decide (exp ≤ -4)) 4 oExp (fun dSig dExp exp trunc =>
    stepL U128.div1000 (decide (exp ≤ -3)) 3 oExp (fun dSig dExp exp trunc =>
    stepL U128.div100 (decide (exp ≤ -2)) 2 oExp (fun dSig dExp exp trunc => do
      let s ← forIn Lean.Loop.mk (dSig, dExp, exp, trunc) (loopLBody oExp)
      K s.1 s.2.1 s.2.2.2) dSig dExp exp trunc) dSig dExp exp trunc) dSig dExp exp trunc)
      dSig dExp exp trunc
  if decide (exp < -35) = true then
    if (dSig.w0 ||| dSig.w1 != 0) = true then l8 default oExp 0 1 else l8 dSig oExp 0 trunc
  else l8 dSig dExp exp trunc

/-- the half `exp > 0` from `if exp > maxDigits` on; `K oSig trunc` is the epilogue -/
def ladderR {α : Type} (K : U128 → Int8 → Go.GoM α) (oSig : U128) (exp : Int16) (trunc : Int8) :
    Go.GoM α :=
  let l8 := fun oSig exp trunc =>
    stepR U128.div1e8 (decide (exp ≥ 8)) 8 (fun oSig exp trunc =>
    stepR U128.div10000 (decide (exp ≥ 4)) 4 (fun oSig exp trunc =>
    stepR U128.div1000 (decide (exp ≥ 3)) 3 (fun oSig exp trunc =>
    stepR U128.div100 (decide (exp ≥ 2)) 2 (fun oSig exp trunc => do
      let s ← forIn Lean.Loop.mk (oSig, exp, trunc) loopRBody
      K s.1 s.2.2) oSig exp trunc) oSig exp trunc) oSig exp trunc) oSig exp trunc
  if decide (exp > 35) = true then
    if (oSig.w0 ||| oSig.w1 != 0) = true then l8 default 0 (-1) else l8 oSig 0 trunc
  else l8 oSig exp trunc

/-- the two scale-up loops of a half (`sig`, its exponent `e`, the gap `exp`) followed by `k` -/
def scale2 {α : Type} (c4 c1 : Int16 → Bool) (f4 f1 : Int16 → Int16) (k : U128 → Int16 → Int16 → Go.GoM α)
    (sig : U128) (e exp : Int16) : Go.GoM α := do
  let s ← scaleLoop c4 703687441776639 10000 4 f4 (sig, e, exp)
  let s ← scaleLoop c1 1801439850948198399 10 1 f1 (s.1, s.2.1, s.2.2)
  k s.1 s.2.1 s.2.2

/-- the half `exp < 0` -/
def alignL {α : Type} (K : U128 → Int16 → U128 → Int8 → Go.GoM α) (dSig : U128) (dExp : Int16)
    (oSig : U128) (oExp exp : Int16) : Go.GoM α :=
  let k := fun oSig oExp exp => ladderL (fun dS dE t => K dS dE oSig t) oExp dSig dExp exp 0
  let sc := scale2 (fun e => decide (e ≤ -4)) (fun e => decide (e < 0)) (fun e => e + 4) (fun e => e + 1) k
  if (decide (exp ≤ -19) && oSig.w1 == 0) = true then
    sc (U128.mul64 oSig 10000000000000000000) (oExp - 19) (exp + 19)
  else sc oSig oExp exp

/-- the half `exp > 0` -/
def alignR {α : Type} (K : U128 → Int16 → U128 → Int8 → Go.GoM α) (dSig : U128) (dExp : Int16)
    (oSig : U128) (exp : Int16) : Go.GoM α :=
  let k := fun dSig dExp exp => ladderR (fun oS t => K dSig dExp oS t) oSig exp 0
  let sc := scale2 (fun e => decide (e ≥ 4)) (fun e => decide (e > 0)) (fun e => e - 4) (fun e => e - 1) k
  if (decide (exp ≥ 19) && dSig.w1 == 0) = true then
    sc (U128.mul64 dSig 10000000000000000000) (dExp - 19) (exp - 19)
  else sc dSig dExp exp

/-- `add` after the zero tests -/
def core (d o : Decimal) (mode : UInt8) (subtract : Bool) (dSig : U128) (dExp : Int16) (oSig : U128)
    (oExp : Int16) : Go.GoM Decimal :=
  if decide (dExp - oExp < 0) = true then
    alignL (tailS d o mode subtract) dSig dExp oSig oExp (dExp - oExp)
  else if decide (dExp - oExp > 0) = true then
    alignR (tailS d o mode subtract) dSig dExp oSig (dExp - oExp)
  else tailS d o mode subtract dSig dExp oSig 0

theorem add_eq (d o : Decimal) (mode : UInt8) (subtract : Bool)
    (hd : (((Decimal.decompose d).1.w0 ||| (Decimal.decompose d).1.w1) == (0 : UInt64)) = false)
    (ho : (((Decimal.decompose o).1.w0 ||| (Decimal.decompose o).1.w1) == (0 : UInt64)) = false) :
    Decimal.add d o mode subtract =
      core d o mode subtract (Decimal.decompose d).1 (Decimal.decompose d).2
        (Decimal.decompose o).1 (Decimal.decompose o).2 := by
  unfold Decimal.add
  simp only [hd, ho, Bool.false_eq_true, if_false]
  unfold core alignL alignR scale2 scaleLoop scaleBody ladderL ladderR stepL stepR loopLBody loopRBody
    divStep tailS tail finish
  zeta_except_jp
  simp only []

end AD
