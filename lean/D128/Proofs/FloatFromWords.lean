/-
  D128/Proofs/FloatFromWords.lean — machine-integer helpers for the `FromFloat64` proofs.

  Provided (namespace `FF`):
  * `i64_sub`, `i64_conv_u64`, `i64_ne_zero`, `i64_gt`, `i64_lt`, `i64_le`, `i64_ge` : `Int64` arithmetic/tests through `toInt`
  * `lz_spec`  : `bits.LeadingZeros64 x` as a natural number with its defining bounds
  * `tz_spec`  : `bits.TrailingZeros64 x` as a natural number: `2^z ∣ x`, and `z < k ↔ x % 2^k ≠ 0` (k ≤ 64)
  * `U256.w3_toNat`, `U256.w0_mod`, `U256.mk0_toNat`
-/
import D128.Proofs.FloatFromCode
import D128.Proofs.WordsWideShift
import D128.Proofs.Words128Div
import Mathlib.Tactic.Ring
import Mathlib.Tactic.Linarith

set_option autoImplicit false
set_option maxRecDepth 8192

namespace FF

theorem i64_sub (a b : Int64) (h1 : -2 ^ 63 ≤ a.toInt - b.toInt) (h2 : a.toInt - b.toInt < 2 ^ 63) :
    (a - b).toInt = a.toInt - b.toInt := by
  rw [Int64.toInt_sub]
  apply Int.bmod_eq_of_le <;> omega

theorem i64_conv_u64 (a : Int64) (h : 0 ≤ a.toInt) : (Go.conv a : UInt64).toNat = a.toInt.toNat := by
  have := a.toInt_lt
  simp only [Go.conv, Go.GoInt.ofInt, Go.GoInt.toInt, UInt64.ofInt, UInt64.toNat_ofNat']
  omega

theorem i64_ne_zero (a : Int64) : (a != 0) = decide (a.toInt ≠ 0) := by
  rw [Bool.eq_iff_iff, bne_iff_ne, decide_eq_true_eq, ne_eq, ne_eq, ← Int64.toInt_inj]
  rfl

theorem i64_eq_zero (a : Int64) : (a == 0) = decide (a.toInt = 0) := by
  rw [Bool.eq_iff_iff, beq_iff_eq, decide_eq_true_eq, ← Int64.toInt_inj]
  rfl

theorem i64_gt (a b : Int64) : decide (a > b) = decide (b.toInt < a.toInt) := by
  rw [Bool.eq_iff_iff, decide_eq_true_eq, decide_eq_true_eq, gt_iff_lt, Int64.lt_iff_toInt_lt]

theorem i64_lt (a b : Int64) : decide (a < b) = decide (a.toInt < b.toInt) := by
  rw [Bool.eq_iff_iff, decide_eq_true_eq, decide_eq_true_eq, Int64.lt_iff_toInt_lt]

theorem i64_le (a b : Int64) : decide (a ≤ b) = decide (a.toInt ≤ b.toInt) := by
  rw [Bool.eq_iff_iff, decide_eq_true_eq, decide_eq_true_eq, Int64.le_iff_toInt_le]

theorem i64_ge (a b : Int64) : decide (a ≥ b) = decide (b.toInt ≤ a.toInt) := by
  rw [Bool.eq_iff_iff, decide_eq_true_eq, decide_eq_true_eq, ge_iff_le, Int64.le_iff_toInt_le]

/-- `bits.LeadingZeros64 x = z` with `x < 2^(64-z)` and, for `x ≠ 0`, `2^(63-z) ≤ x` -/
theorem lz_spec (x : UInt64) :
    ∃ z : Nat, (Go.bits.LeadingZeros64 x).toInt = z ∧ z ≤ 64 ∧ x.toNat < 2 ^ (64 - z) ∧
      (x.toNat ≠ 0 → z ≤ 63 ∧ 2 ^ (63 - z) ≤ x.toNat) ∧ (x.toNat = 0 → z = 64) := by
  by_cases hx : x = 0
  · subst hx
    exact ⟨64, by decide, by omega, by simp, by simp, by simp⟩
  · obtain ⟨L, hL, h1, h2, hlo, hhi⟩ := Go.bits.Len64_spec x hx
    have hx' : x.toNat ≠ 0 := fun h => hx (UInt64.toNat_inj.mp (by simpa using h))
    refine ⟨64 - L, ?_, by omega, ?_, fun _ => ⟨by omega, ?_⟩, fun h => absurd h hx'⟩
    · rw [Go.bits.LeadingZeros64, hL, i64_sub]
      · rw [Int64.toInt_ofNat_of_lt (by omega)]
        have : (64 : Int64).toInt = 64 := by decide
        omega
      · rw [Int64.toInt_ofNat_of_lt (by omega)]
        have : (64 : Int64).toInt = 64 := by decide
        omega
      · rw [Int64.toInt_ofNat_of_lt (by omega)]
        have : (64 : Int64).toInt = 64 := by decide
        omega
    · have : 64 - (64 - L) = L := by omega
      rw [this]; exact hhi
    · have : 63 - (64 - L) = L - 1 := by omega
      rw [this]; exact hlo

theorem tz_aux (n fuel : Nat) (hn : n ≠ 0) (hf : n < 2 ^ fuel) :
    2 ^ Go.bits.tz n fuel ∣ n ∧ ¬ 2 ^ (Go.bits.tz n fuel + 1) ∣ n ∧ Go.bits.tz n fuel < fuel := by
  induction fuel generalizing n with
  | zero => simp at hf; omega
  | succ k ih =>
    unfold Go.bits.tz
    split
    · rename_i h
      refine ⟨by simp, ?_, by omega⟩
      simp only [Nat.zero_add, Nat.pow_one]
      omega
    · rename_i h
      have h2 : n % 2 = 0 := by omega
      have hn2 : n / 2 ≠ 0 := by omega
      have hf2 : n / 2 < 2 ^ k := by rw [Nat.pow_succ] at hf; omega
      obtain ⟨a, b, c⟩ := ih (n / 2) hn2 hf2
      obtain ⟨m, hm⟩ : ∃ m, n = 2 * m := ⟨n / 2, by omega⟩
      have hm2 : n / 2 = m := by omega
      rw [hm2] at a b c ⊢
      refine ⟨?_, ?_, by omega⟩
      · rw [Nat.add_comm, Nat.pow_succ, Nat.mul_comm, hm]
        exact Nat.mul_dvd_mul_left 2 a
      · intro hd
        apply b
        rw [Nat.add_comm 1, Nat.pow_succ, Nat.mul_comm, hm] at hd
        exact Nat.dvd_of_mul_dvd_mul_left (by omega) hd

/-- `bits.TrailingZeros64 x = z`: `2^z ∣ x`, and for `k ≤ 64`: `z < k ↔ x % 2^k ≠ 0` -/
theorem tz_spec (x : UInt64) :
    ∃ z : Nat, (Go.bits.TrailingZeros64 x).toInt = z ∧ z ≤ 64 ∧ 2 ^ z ∣ x.toNat ∧
      (x.toNat ≠ 0 → z ≤ 63) ∧ (∀ k, k ≤ 64 → (z < k ↔ x.toNat % 2 ^ k ≠ 0)) := by
  by_cases hx : x = 0
  · subst hx
    refine ⟨64, by decide, by omega, by simp, by simp, ?_⟩
    intro k hk; simp; omega
  · have hx' : x.toNat ≠ 0 := fun h => hx (UInt64.toNat_inj.mp (by simpa using h))
    obtain ⟨a, b, c⟩ := tz_aux x.toNat 64 hx' x.toNat_lt
    refine ⟨Go.bits.tz x.toNat 64, ?_, by omega, a, fun _ => by omega, ?_⟩
    · rw [Go.bits.TrailingZeros64, if_neg hx, Int64.toInt_ofNat_of_lt (by omega)]
    · intro k hk
      constructor
      · intro hlt hmod
        apply b
        have : 2 ^ k ∣ x.toNat := Nat.dvd_of_mod_eq_zero hmod
        exact Nat.dvd_trans (Nat.pow_dvd_pow 2 (by omega)) this
      · intro hmod
        by_contra hge
        apply hmod
        have : 2 ^ k ∣ x.toNat := Nat.dvd_trans (Nat.pow_dvd_pow 2 (by omega)) a
        exact Nat.mod_eq_zero_of_dvd this

theorem U256.w3_toNat (n : U256) : n.w3.toNat = n.toNat / 2 ^ 192 := by
  have := n.w0.toNat_lt; have := n.w1.toNat_lt; have := n.w2.toNat_lt
  simp only [U256.toNat]; omega

theorem U256.w0_mod (n : U256) (k : Nat) (hk : k ≤ 64) : n.w0.toNat % 2 ^ k = n.toNat % 2 ^ k := by
  obtain ⟨j, hj⟩ : ∃ j, 64 = k + j := ⟨64 - k, by omega⟩
  simp only [U256.toNat]
  have e : n.w0.toNat + n.w1.toNat * 2 ^ 64 + n.w2.toNat * 2 ^ 128 + n.w3.toNat * 2 ^ 192
      = n.w0.toNat + 2 ^ k * (n.w1.toNat * 2 ^ j + n.w2.toNat * 2 ^ (64 + j)
          + n.w3.toNat * 2 ^ (128 + j)) := by
    have e0 : (2:Nat) ^ 64 = 2 ^ k * 2 ^ j := by rw [← Nat.pow_add]; congr 1
    have e1 : (2:Nat) ^ 128 = 2 ^ k * 2 ^ (64 + j) := by rw [← Nat.pow_add]; congr 1; omega
    have e2 : (2:Nat) ^ 192 = 2 ^ k * 2 ^ (128 + j) := by rw [← Nat.pow_add]; congr 1; omega
    rw [e0, e1, e2]; ring
  rw [e, Nat.add_mul_mod_self_left]

theorem U256.mk0_toNat (x : UInt64) : (U256.mk x 0 0 0).toNat = x.toNat := by
  simp [U256.toNat]

/-- leading zeros of the top word of a 256-bit number: shifting left by them does not overflow and,
    when the top word is non-zero, sets the top bit -/
theorem lz_w3 (q : U256) :
    ∃ z : Nat, (Go.bits.LeadingZeros64 q.w3).toInt = z ∧ z ≤ 64 ∧ q.toNat * 2 ^ z < 2 ^ 256 ∧
      (2 ^ 192 ≤ q.toNat → z ≤ 63 ∧ 2 ^ 255 ≤ q.toNat * 2 ^ z) ∧ (q.toNat < 2 ^ 192 → z = 64) := by
  obtain ⟨z, hz, h64, hlt, hnz, hzz⟩ := lz_spec q.w3
  have hw := U256.w3_toNat q
  refine ⟨z, hz, h64, ?_, ?_, fun h => hzz (by rw [hw]; exact Nat.div_eq_of_lt h)⟩
  · rw [hw] at hlt
    have h1 : q.toNat < 2 ^ (64 - z) * 2 ^ 192 := by
      have := Nat.lt_mul_of_div_lt hlt (Nat.pow_pos (by norm_num : 0 < 2))
      exact this
    calc q.toNat * 2 ^ z < 2 ^ (64 - z) * 2 ^ 192 * 2 ^ z :=
          Nat.mul_lt_mul_of_pos_right h1 (Nat.pow_pos (by norm_num))
      _ = 2 ^ 256 := by rw [← Nat.pow_add, ← Nat.pow_add]; congr 1; omega
  · intro hbig
    have hne : q.w3.toNat ≠ 0 := by
      rw [hw]
      have : 1 ≤ q.toNat / 2 ^ 192 := (Nat.le_div_iff_mul_le (Nat.pow_pos (by norm_num))).2 (by omega)
      omega
    obtain ⟨h63, hlo⟩ := hnz hne
    refine ⟨h63, ?_⟩
    rw [hw] at hlo
    have h1 : 2 ^ (63 - z) * 2 ^ 192 ≤ q.toNat := by
      have := Nat.mul_le_of_le_div _ _ _ hlo
      exact this
    calc 2 ^ 255 = 2 ^ (63 - z) * 2 ^ 192 * 2 ^ z := by
          rw [← Nat.pow_add, ← Nat.pow_add]; congr 1; omega
      _ ≤ q.toNat * 2 ^ z := Nat.mul_le_mul_right _ h1

end FF
