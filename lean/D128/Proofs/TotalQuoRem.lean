/-
  D128.Proofs.TotalQuoRem — totality (termination, no panic) of `Decimal.QuoRemWithMode` for every
  pair of bit patterns and EVERY mode byte, including invalid ones (C20).  (`Props.C03.quoRem_correct`
  covers the six valid modes.)

  Uses the stage decomposition `QR.QuoRemWithMode_eq` of `D128/Proofs/QuoRemCode.lean` and the
  mode-independent `Props.C15.quoRem_prologue` for specials and zeros.

  * `qr_finish_triple`, `qrMain_triple`, `qrDiv_triple`, `qrNeg_triple`, `qrPos_triple`,
    `qrFinite_triple`
  * `QuoRemWithMode_total_all : ∃ r, Gen.Decimal.QuoRemWithMode d o rm = .ok r`
  Termination measures of the two accumulation loops are lexicographic in (remaining exponent gap,
  quotient significand ↑) resp. (remaining gap, remainder ↓): a pass either consumes some of the gap
  or — when the remainder is already normalised — produces a quotient block ≥ 1 (resp. a strictly
  smaller remainder), because the divisor is an unscaled coefficient `< 2^114` whenever the gap is
  still positive.
-/
import D128.Proofs.TotalBase128
import D128.Proofs.TotalReduce192
import D128.Proofs.QuoRemCode
import D128.Proofs.Specials
import D128.Props.C15
set_option autoImplicit false
set_option mvcgen.warning false
set_option exponentiation.threshold 512
set_option maxRecDepth 16384
namespace D128.Proofs.Total
open Std.Do
open D128.Proofs.WordsWide

theorem qr_finish_triple (rm : UInt8) (qneg rneg : Bool) (sig : U128) (qexp : Int16) (trunc : Int8)
    (rem : U128) (rexp : Int16) :
    ⦃⌜trunc = 0 ∨ trunc = 1⌝⦄ QR.finish rm qneg rneg sig qexp trunc rem rexp ⦃⇓ _ => ⌜True⌝⦄ := by
  mvcgen -trivial [QR.finish]
  all_goals (simp +zetaDelta at *)
  rename_i h
  rcases h with h | h <;> simp [h]

set_option maxHeartbeats 1000000 in
theorem qrMain_triple (rm : UInt8) (qneg rneg : Bool) (oS : U128) (exp qexp rexp : Int16) (sig rem : U128) :
    ⦃⌜oS.toNat ≠ 0 ∧ (exp ≤ 0 ∨ oS.toNat < 2^114)⌝⦄
    QR.qrMain rm qneg rneg oS exp qexp rexp sig rem ⦃⇓ _ => ⌜True⌝⦄ := by
  have hd := div128_lin
  have hf := qr_finish_triple
  mvcgen -trivial [QR.qrMain, QR.l2Body, QR.l3Body, QR.m4Body, QR.m1Body, QR.dropBody, QR.r4Body, QR.r1Body,
    hd, hf, -U128_div_triple]
  case inv1 => exact fun st => ⟨up16 st.1 * 2^130 + (2^128 - st.2.2.2.1.toNat)⟩
  case inv2 => exact ⇓ x => match x with
    | .inl st => ⌜(st.2.2.2.2.2 = 0 ∨ st.2.2.2.2.2 = 1) ∧ (0 < st.1 → oS.toNat < 2^114)⌝
    | .inr st => ⌜(st.2.2.2.2.2 = 0 ∨ st.2.2.2.2.2 = 1) ∧ (0 < st.1 → oS.toNat < 2^114)⌝
  case inv3 | inv5 => exact fun st => ⟨up16 st.1⟩
  case inv4 => exact ⇓ x => match x with
    | .inl st => ⌜st.1 ≤ (‹Int16 × Int16 × Int16 × U128 × U128 × Int8›).1 ∧ (‹Int16 × Int16 × Int16 × U128 × U128 × Int8›).2.2.2.1.toNat ≤ st.2.2.2.1.toNat⌝
    | .inr st => ⌜st.1 ≤ (‹Int16 × Int16 × Int16 × U128 × U128 × Int8›).1 ∧ (‹Int16 × Int16 × Int16 × U128 × U128 × Int8›).2.2.2.1.toNat ≤ st.2.2.2.1.toNat⌝
  case inv6 => exact ⇓ x => match x with
    | .inl st => ⌜st.1 ≤ (‹Int16 × Int16 × Int16 × U128 × U128 × Int8›).1 ∧ (‹Int16 × Int16 × Int16 × U128 × U128 × Int8›).2.2.2.1.toNat ≤ st.2.2.2.1.toNat⌝
    | .inr st => ⌜st.1 ≤ (‹Int16 × Int16 × Int16 × U128 × U128 × Int8›).1 ∧ (‹Int16 × Int16 × Int16 × U128 × U128 × Int8›).2.2.2.1.toNat ≤ st.2.2.2.1.toNat ∧ (st.1 ≤ 0 ∨ 1801439850948198400 * 2^64 ≤ st.2.2.2.2.toNat ∨
        1801439850948198400 * 2^64 ≤ st.2.2.2.1.toNat)⌝
  case inv7 => exact fun st => ⟨st.2.2.toNat⟩
  case inv8 => exact ⇓ x => match x with
    | .inl st => ⌜(st.2.1 = 0 ∨ st.2.1 = 1) ∧
        (st.2.2.toNat = (‹Int16 × Int16 × Int16 × U128 × U128›).2.2.2.1.toNat + (‹U128 × U128›).1.toNat ∨ (2^128 ≤ (‹Int16 × Int16 × Int16 × U128 × U128›).2.2.2.1.toNat + (‹U128 × U128›).1.toNat ∧ st.2.2.toNat = ((‹Int16 × Int16 × Int16 × U128 × U128›).2.2.2.1.toNat + (‹U128 × U128›).1.toNat) / 10))⌝
    | .inr st => ⌜(st.2.1 = 0 ∨ st.2.1 = 1) ∧ st.2.2.toNat < 2^128 ∧
        (st.2.2.toNat = (‹Int16 × Int16 × Int16 × U128 × U128›).2.2.2.1.toNat + (‹U128 × U128›).1.toNat ∨ (2^128 ≤ (‹Int16 × Int16 × Int16 × U128 × U128›).2.2.2.1.toNat + (‹U128 × U128›).1.toNat ∧ st.2.2.toNat = ((‹Int16 × Int16 × Int16 × U128 × U128›).2.2.2.1.toNat + (‹U128 × U128›).1.toNat) / 10))⌝
  case inv9 => exact fun st => ⟨up16 st.1 * 2^130 + st.2.2.1.toNat⟩
  case inv10 => exact ⇓ x => match x with
    | .inl st => ⌜(st.2.2.2 = 0 ∨ st.2.2.2 = 1) ∧ (0 < st.1 → oS.toNat < 2^114)⌝
    | .inr st => ⌜(st.2.2.2 = 0 ∨ st.2.2.2 = 1) ∧ (0 < st.1 → oS.toNat < 2^114)⌝
  case inv11 | inv13 => exact fun st => ⟨up16 st.1⟩
  case inv12 => exact ⇓ x => match x with
    | .inl st => ⌜st.1 ≤ (‹Int16 × Int16 × U128 × Int8›).1 ∧ (st.1 = (‹Int16 × Int16 × U128 × Int8›).1 → st.2.2.toNat = (‹Int16 × Int16 × U128 × Int8›).2.2.1.toNat)⌝
    | .inr st => ⌜st.1 ≤ (‹Int16 × Int16 × U128 × Int8›).1 ∧ (st.1 = (‹Int16 × Int16 × U128 × Int8›).1 → st.2.2.toNat = (‹Int16 × Int16 × U128 × Int8›).2.2.1.toNat)⌝
  case inv14 => exact ⇓ x => match x with
    | .inl st => ⌜st.1 ≤ (‹Int16 × Int16 × U128 × Int8›).1 ∧ (st.1 = (‹Int16 × Int16 × U128 × Int8›).1 → st.2.2.toNat = (‹Int16 × Int16 × U128 × Int8›).2.2.1.toNat)⌝
    | .inr st => ⌜st.1 ≤ (‹Int16 × Int16 × U128 × Int8›).1 ∧ (st.1 = (‹Int16 × Int16 × U128 × Int8›).1 → st.2.2.toNat = (‹Int16 × Int16 × U128 × Int8›).2.2.1.toNat) ∧ (st.1 ≤ 0 ∨ 1801439850948198400 * 2^64 ≤ st.2.2.toNat)⌝
  all_goals (simp +zetaDelta at *)
  all_goals d128_prep
  all_goals d192_fin

set_option maxHeartbeats 1000000 in
theorem qrDiv_triple (rm : UInt8) (qneg rneg : Bool) (dS : U128) (dE : Int16) (oS : U128) (exp : Int16) :
    ⦃⌜oS.toNat ≠ 0 ∧ (exp ≤ 0 ∨ oS.toNat < 2^114)⌝⦄
    QR.qrDiv rm qneg rneg dS dE oS exp ⦃⇓ _ => ⌜True⌝⦄ := by
  have hd := div128_lin
  have hd64 := div64_lin
  have hm := qrMain_triple
  mvcgen -trivial [QR.qrDiv, QR.aBody, QR.a4Body, QR.a1Body, hd, hd64, hm, -U128_div_triple]
  case inv1 => exact fun st => ⟨up16 st.1 * 2^70 + (2^64 - st.2.2.2.1.toNat)⟩
  case inv2 => exact ⇓ x => match x with
    | .inl st => ⌜st.1 ≤ exp⌝
    | .inr st => ⌜st.1 ≤ exp⌝
  case inv3 | inv5 => exact fun st => ⟨up16 st.1⟩
  case inv4 => exact ⇓ x => match x with
    | .inl st => ⌜st.1 ≤ (‹Int16 × Int16 × Int16 × UInt64 × UInt64 × UInt64›).1 ∧ (‹Int16 × Int16 × Int16 × UInt64 × UInt64 × UInt64›).2.2.2.1.toNat ≤ st.2.2.2.1.toNat⌝
    | .inr st => ⌜st.1 ≤ (‹Int16 × Int16 × Int16 × UInt64 × UInt64 × UInt64›).1 ∧ (‹Int16 × Int16 × Int16 × UInt64 × UInt64 × UInt64›).2.2.2.1.toNat ≤ st.2.2.2.1.toNat⌝
  case inv6 => exact ⇓ x => match x with
    | .inl st => ⌜st.1 ≤ (‹Int16 × Int16 × Int16 × UInt64 × UInt64 × UInt64›).1 ∧ (‹Int16 × Int16 × Int16 × UInt64 × UInt64 × UInt64›).2.2.2.1.toNat ≤ st.2.2.2.1.toNat⌝
    | .inr st => ⌜st.1 ≤ (‹Int16 × Int16 × Int16 × UInt64 × UInt64 × UInt64›).1 ∧ (‹Int16 × Int16 × Int16 × UInt64 × UInt64 × UInt64›).2.2.2.1.toNat ≤ st.2.2.2.1.toNat ∧ (st.1 ≤ 0 ∨ 1801439850948198400 ≤ st.2.2.2.2.toNat ∨
        1801439850948198400 ≤ st.2.2.2.1.toNat)⌝
  all_goals (simp +zetaDelta at *)
  all_goals d128_prep
  all_goals d192_fin

theorem qrNeg_triple (rm : UInt8) (d : Gen.Decimal) (qneg rneg : Bool) (dS : U128) (dE : Int16) (oS : U128)
    (exp : Int16) :
    ⦃⌜oS.toNat ≠ 0 ∧ exp ≤ 0⌝⦄ QR.qrNeg rm d qneg rneg dS dE oS exp ⦃⇓ _ => ⌜True⌝⦄ := by
  have hm := qrDiv_triple
  mvcgen -trivial [QR.qrNeg, QR.so4Body, QR.so1Body, hm]
  case inv1 | inv3 => exact fun st => ⟨dn16 st.2⟩
  case inv2 | inv4 => exact ⇓ x => match x with
    | .inl st => ⌜st.1.toNat ≠ 0 ∧ st.2 ≤ 0⌝
    | .inr st => ⌜st.1.toNat ≠ 0 ∧ st.2 ≤ 0⌝
  all_goals (simp +zetaDelta at *)
  all_goals d128_prep
  all_goals d192_fin

theorem qrPos_triple (rm : UInt8) (qneg rneg : Bool) (dS : U128) (dE : Int16) (oS : U128) (exp : Int16) :
    ⦃⌜oS.toNat ≠ 0 ∧ oS.toNat < 2^114⌝⦄ QR.qrPos rm qneg rneg dS dE oS exp ⦃⇓ _ => ⌜True⌝⦄ := by
  have hm := qrDiv_triple
  mvcgen -trivial [QR.qrPos, QR.sd4Body, QR.sd1Body, hm]
  case inv1 | inv3 => exact fun st => ⟨up16 st.2.2⟩
  case inv2 | inv4 => exact ⇓ _ => ⌜True⌝
  all_goals (simp +zetaDelta at *)
  all_goals d128_prep
  all_goals d192_fin

theorem qrFinite_triple (rm : UInt8) (d : Gen.Decimal) (qneg rneg : Bool) (dS : U128) (dE : Int16)
    (oS : U128) (oE : Int16) :
    ⦃⌜oS.toNat ≠ 0 ∧ oS.toNat < 2^114⌝⦄ QR.qrFinite rm d qneg rneg dS dE oS oE ⦃⇓ _ => ⌜True⌝⦄ := by
  have h1 := qrNeg_triple
  have h2 := qrPos_triple
  have h3 := qrDiv_triple
  mvcgen -trivial [QR.qrFinite, h1, h2, h3]
  all_goals (simp +zetaDelta at *)
  all_goals d128_prep
  all_goals d192_fin

/-- `QuoRemWithMode` terminates without panic for every pair of bit patterns and EVERY mode byte -/
theorem QuoRemWithMode_total_all (d o : Gen.Decimal) (rm : UInt8) :
    ∃ r, Gen.Decimal.QuoRemWithMode d o rm = .ok r := by
  by_cases h : Gen.Decimal.isSpecial d = true ∨ Gen.Decimal.isSpecial o = true ∨
      Gen.Decimal.IsZero d = true ∨ Gen.Decimal.IsZero o = true
  · obtain ⟨q, r, hr, _⟩ := Props.C15.quoRem_prologue d o rm .nearestEven h
    exact ⟨(q, r), hr⟩
  · simp only [not_or, Bool.not_eq_true] at h
    obtain ⟨hd, ho, zd, zo⟩ := h
    have hcd : (Gen.Decimal.decompose d).1.toNat ≠ 0 := by
      have := Sp.IsZero_eq_sig d; rw [zd] at this; simpa using this.symm
    have hco : (Gen.Decimal.decompose o).1.toNat ≠ 0 := by
      have := Sp.IsZero_eq_sig o; rw [zo] at this; simpa using this.symm
    have hzd : ((Gen.Decimal.decompose d).1.w0 ||| (Gen.Decimal.decompose d).1.w1 == 0) = false := by
      rw [Bool.eq_false_iff, ne_eq, beq_iff_eq, U128.or_zero]; exact hcd
    have hzo : ((Gen.Decimal.decompose o).1.w0 ||| (Gen.Decimal.decompose o).1.w1 == 0) = false := by
      rw [Bool.eq_false_iff, ne_eq, beq_iff_eq, U128.or_zero]; exact hco
    rw [QR.QuoRemWithMode_eq d o rm hd ho hzo hzd]
    have hole := Enc.decompose_sig_le o
    have hc : Spec.Cmax < 2^114 := by decide
    obtain ⟨r, hr, _⟩ := ok_of_triple_pre (qrFinite_triple rm d _ _ _ _ _ _) ⟨hco, by omega⟩
    exact ⟨r, hr⟩

end D128.Proofs.Total
