/-
  D128/Proofs/FloatBig.lean — `Decimal.Float` of /repo/convert.go (generated `Gen.Decimal.Float`,
  D128/Gen/ConvertBigFloat.lean) over the `math/big.Float` value model (D128/Go/BigFloat.lean).
  Property C09, clause "Float returns d with relative error at most 2^(1-prec) …".

  Provided (namespace `FB`):
  * `setVal_eq`, `setPrec_new`, `setUint64_128`, `setInt_128`, `neg_fsig`, `setInt_pow10`, `set_fsig`, `mul_fsig`,
    `quo_fsig`      the math/big operations on the values `Float` applies them to: the 128-bit temporary holds
                    the coefficient exactly, `10^|e|` is held exactly, the receiver enters through its precision
                    and mode only
  * `recvPrec`, `recvMode`, `infPrec`     precision / mode of the result as a function of the receiver
  * `Float_staged`   `Float d f = tail (recvPrep f) (fsigCode sig sign) (exp − 6176)` for finite `d` (the
                    generated if-tree cut into receiver preparation, coefficient, and the final Set/Mul/Quo)
  * `tail_eq`        the final step is ONE `setVal` of `c·10^e`
  * `Float_finite`   finite `d`, every receiver: `.ok (setVal ⟨recvPrec f, recvMode f, …⟩ sign (c·10^e))`
  * `Float_inf`      `±Inf ↦ ±Inf` (precision `infPrec f`: 0 for a nil receiver)
  * `Float_nan`      NaN ↦ panic "Decimal(NaN).Float()"
  Hypothesis on a non-nil receiver: `prec < 2^64` (`Prec()` is a `uint`; a valid `big.Float` has
  `prec ≤ MaxPrec = 2^32 − 1`).  Nothing else is assumed about the receiver (any mode byte, any prior value,
  even one violating the invariants of `Go.BigFloat`).
-/
import D128.Proofs.BigFloatSpec
import D128.Proofs.BigConvInt
import D128.Gen.ConvertBigFloat
set_option autoImplicit false
set_option maxRecDepth 4096

namespace FB
open Go Go.BigFloat BF BigConv IntConvPf

/-! ## the math/big.Float operations `Decimal.Float` uses, on the values it uses them on -/

theorem setVal_eq (z : BigFloat) (neg : Bool) (q : ℚ) :
    setVal z neg q = if q = 0 then ⟨z.prec, z.mode, .zero, neg, 0⟩
      else ⟨z.prec, z.mode, .finite, neg, roundBits z.prec z.mode neg q⟩ := by
  unfold setVal Go.BigFloat.round
  split <;> rfl

/-- `new(big.Float).SetPrec(128)` -/
theorem setPrec_new : SetPrec new (128 : UInt64) = ⟨128, 0, .zero, false, 0⟩ := by
  unfold SetPrec Go.BigFloat.round new MaxPrec
  rfl

/-- an integer `0 < n < 2^128` stored in a 128-bit temporary is exact -/
theorem roundBits_128 (mode : UInt8) (neg : Bool) (n : ℕ) (hn : n ≠ 0) (h : n < 2 ^ 128) :
    roundBits 128 mode neg (n : ℚ) = n :=
  roundBits_nat 128 mode neg n hn ((bitLen_le_iff n 128).2 h)

/-- the coefficient as a 128-bit `big.Float` -/
def fsigOf (neg : Bool) (c : ℕ) : BigFloat :=
  if c = 0 then ⟨128, 0, .zero, neg, 0⟩ else ⟨128, 0, .finite, neg, (c : ℚ)⟩

theorem setUint64_128 (x : UInt64) :
    SetUint64 ⟨128, 0, .zero, false, 0⟩ x = fsigOf false x.toNat := by
  unfold SetUint64 fsigOf
  rw [setVal_eq]
  simp only [show ((128 : ℕ) = 0) = False by simp, if_false]
  by_cases h : x.toNat = 0
  · rw [if_pos h, if_pos (by rw [h]; rfl)]
  · rw [if_neg h, if_neg (by exact_mod_cast h)]
    rw [roundBits_128 0 false _ h (lt_trans x.toNat_lt (by norm_num))]

theorem setInt_128 (c : ℕ) (hc : c < 2 ^ 128) :
    SetInt ⟨128, 0, .zero, false, 0⟩ (c : ℤ) = fsigOf false c := by
  unfold SetInt fsigOf
  rw [setVal_eq]
  simp only [show ((128 : ℕ) = 0) = False by simp, if_false, Int.natAbs_natCast]
  have hneg : decide ((c : ℤ) < 0) = false := by simp
  rw [hneg]
  by_cases h : c = 0
  · rw [if_pos h, if_pos (by rw [h]; rfl)]
  · rw [if_neg h, if_neg (by exact_mod_cast h)]
    rw [roundBits_128 0 false _ h hc]

/-- `fsig.Neg(fsig)` -/
theorem neg_fsig (c : ℕ) (hc : c < 2 ^ 128) :
    Go.BigFloat.Neg (fsigOf false c) (fsigOf false c) = fsigOf true c := by
  unfold Go.BigFloat.Neg Go.BigFloat.Set Go.BigFloat.round fsigOf
  by_cases h : c = 0
  · simp only [if_pos h]; rfl
  · simp only [if_neg h]
    simp only [show ((128 : ℕ) = 0) = False by simp, if_false, Bool.not_false]
    rw [roundBits_128 0 false _ h hc]

/-- `new(big.Float).SetInt(10^k)`: exact, with a precision that does not matter -/
theorem setInt_pow10 (k : ℕ) :
    ∃ p : ℕ, SetInt new (((10 ^ k : ℕ) : ℤ)) = ⟨p, 0, .finite, false, ((10 ^ k : ℕ) : ℚ)⟩ := by
  have hne : (10 ^ k : ℕ) ≠ 0 := (Nat.pow_pos (by norm_num)).ne'
  refine ⟨max (Big.bitLen (10 ^ k)) 64, ?_⟩
  unfold SetInt new
  rw [setVal_eq]
  simp only [if_true, Int.natAbs_natCast]
  have hneg : decide (((10 ^ k : ℕ) : ℤ) < 0) = false := by
    have : ¬ (((10 ^ k : ℕ) : ℤ) < 0) := not_lt.2 (Int.natCast_nonneg _)
    simp
  rw [hneg, if_neg (by exact_mod_cast hne)]
  rw [roundBits_nat _ 0 false _ hne (le_max_left _ _)]

/-- the result depends on the receiver through its precision and mode only -/
theorem set_fsig (z : BigFloat) (hz : z.prec ≠ 0) (neg : Bool) (c : ℕ) :
    Go.BigFloat.Set z (fsigOf neg c) = setVal ⟨z.prec, z.mode, .zero, false, 0⟩ neg (c : ℚ) := by
  rw [setVal_eq]
  unfold Go.BigFloat.Set Go.BigFloat.round fsigOf
  by_cases h : c = 0
  · simp only [if_pos h, if_neg hz]
    rw [if_pos (by rw [h]; rfl)]
  · simp only [if_neg h, if_neg hz]
    rw [if_neg (by exact_mod_cast h)]

theorem mul_fsig (z : BigFloat) (hz : z.prec ≠ 0) (neg : Bool) (c : ℕ) (p : ℕ) (t : ℚ) (ht : t ≠ 0) :
    Go.BigFloat.Mul z (fsigOf neg c) ⟨p, 0, .finite, false, t⟩ =
      .ok (setVal ⟨z.prec, z.mode, .zero, false, 0⟩ neg ((c : ℚ) * t)) := by
  rw [setVal_eq]
  unfold Go.BigFloat.Mul binPrec fsigOf
  by_cases h : c = 0
  · simp only [if_pos h, if_neg hz, Bool.bne_false]
    rw [if_pos (by rw [h]; simp)]
    rfl
  · simp only [if_neg h, if_neg hz, Bool.bne_false]
    have : (c : ℚ) * t ≠ 0 := mul_ne_zero (by exact_mod_cast h) ht
    rw [if_neg this]
    show Except.ok (setVal _ _ _) = _
    rw [setVal_eq, if_neg this]

theorem quo_fsig (z : BigFloat) (hz : z.prec ≠ 0) (neg : Bool) (c : ℕ) (p : ℕ) (t : ℚ) (ht : t ≠ 0) :
    Go.BigFloat.Quo z (fsigOf neg c) ⟨p, 0, .finite, false, t⟩ =
      .ok (setVal ⟨z.prec, z.mode, .zero, false, 0⟩ neg ((c : ℚ) / t)) := by
  rw [setVal_eq]
  unfold Go.BigFloat.Quo binPrec fsigOf
  by_cases h : c = 0
  · simp only [if_pos h, if_neg hz, Bool.bne_false]
    rw [if_pos (by rw [h]; simp)]
    rfl
  · simp only [if_neg h, if_neg hz, Bool.bne_false]
    have : (c : ℚ) / t ≠ 0 := div_ne_zero (by exact_mod_cast h) ht
    rw [if_neg this]
    show Except.ok (setVal _ _ _) = _
    rw [setVal_eq, if_neg this]

/-! ## `Decimal.Float`, staged -/

/-- precision of the result: the receiver's if it has one, else 128 -/
def recvPrec : Option BigFloat → ℕ
  | none => 128
  | some f => if f.prec = 0 then 128 else f.prec

/-- rounding mode of the result: the receiver's (ToNearestEven for `nil`) -/
def recvMode : Option BigFloat → UInt8
  | none => 0
  | some f => f.mode

/-- the receiver after `if f == nil { f = new(big.Float).SetPrec(128) } else if f.Prec() == 0 { f.SetPrec(128) }` -/
def recvPrep (f : Option BigFloat) : BigFloat :=
  if isNil f = true then SetPrec new (128 : UInt64)
  else if (Prec (ofPtr f) == 0) = true then SetPrec (ofPtr f) (128 : UInt64) else ofPtr f

/-- the coefficient as `fsig` -/
def fsigCode (s : U128) (sg : Bool) : BigFloat :=
  let fs := if (s.w1 == 0) = true then SetUint64 (SetPrec new (128 : UInt64)) s.w0
    else SetInt (SetPrec new (128 : UInt64))
      (Go.BigInt.Or (Go.BigInt.Lsh (Go.BigInt.SetUint64 s.w1) (64 : UInt64)) (Go.BigInt.SetUint64 s.w0))
  if sg = true then Go.BigFloat.Neg fs fs else fs

/-- the part of `Float` after `fsig` has its sign -/
def tail (F fs : BigFloat) (e' : Int16) : GoM BigFloat :=
  if (e' == 0) = true then pure (Go.BigFloat.Set F fs)
  else
    if decide (e' > 0) = true then
      if decide (e' > 0) = true then do
        let t_3 ← Go.BigFloat.Mul F fs (SetInt new (Go.BigInt.Exp 10 (Go.BigInt.NewInt (Go.conv e'))))
        pure t_3
      else do
        let t_3 ← Go.BigFloat.Quo F fs (SetInt new (Go.BigInt.Exp 10 (Go.BigInt.NewInt (Go.conv e'))))
        pure t_3
    else
      if decide (e' > 0) = true then do
        let t_3 ← Go.BigFloat.Mul F fs (SetInt new (Go.BigInt.Exp 10 (Go.BigInt.NewInt (Go.conv (e' * -1)))))
        pure t_3
      else do
        let t_3 ← Go.BigFloat.Quo F fs (SetInt new (Go.BigInt.Exp 10 (Go.BigInt.NewInt (Go.conv (e' * -1)))))
        pure t_3

/-- the generated function on a finite `d`, cut into the three stages -/
theorem Float_staged (d : Gen.Decimal) (f : Option BigFloat) (hs : Gen.Decimal.isSpecial d = false) :
    Gen.Decimal.Float d f =
      tail (recvPrep f) (fsigCode (Gen.Decimal.decompose d).1 (Gen.Decimal.Signbit d))
        ((Gen.Decimal.decompose d).2 - 6176) := by
  unfold Gen.Decimal.Float recvPrep fsigCode tail
  generalize Gen.Decimal.decompose d = p at *
  obtain ⟨s, e⟩ := p
  simp only [hs, Bool.false_eq_true, if_false]
  by_cases h1 : isNil f = true <;> by_cases h2 : (Prec (ofPtr f) == 0) = true <;>
    by_cases h3 : (s.w1 == 0) = true <;> by_cases h4 : Gen.Decimal.Signbit d = true <;>
    simp only [h1, h2, h3, h4, if_true, if_false, Bool.false_eq_true, bind_pure]

theorem setPrec_128 (f : BigFloat) :
    (SetPrec f (128 : UInt64)).prec = 128 ∧ (SetPrec f (128 : UInt64)).mode = f.mode := by
  unfold SetPrec Go.BigFloat.round MaxPrec
  rw [if_neg (by decide)]
  cases f.form <;> exact ⟨rfl, rfl⟩

theorem recvPrep_spec (f : Option BigFloat) (hf : ∀ x, f = some x → x.prec < 2 ^ 64) :
    (recvPrep f).prec = recvPrec f ∧ (recvPrep f).mode = recvMode f := by
  cases f with
  | none =>
    have : recvPrep none = ⟨128, 0, .zero, false, 0⟩ := by
      have e0 : recvPrep none = SetPrec new (128 : UInt64) := rfl
      rw [e0, setPrec_new]
    rw [this]; exact ⟨rfl, rfl⟩
  | some x =>
    have hx := hf x rfl
    have e1 : recvPrep (some x) = if (Prec x == 0) = true then SetPrec x (128 : UInt64) else x := rfl
    have e2 : recvPrec (some x) = if x.prec = 0 then 128 else x.prec := rfl
    have e3 : recvMode (some x) = x.mode := rfl
    rw [e1, e2, e3]
    have hP : ((Prec x == 0) = true) ↔ x.prec = 0 := by
      unfold Prec
      rw [beq_iff_eq, ← UInt64.toNat_inj, UInt64.toNat_ofNat_of_lt' hx]
      rfl
    by_cases h : x.prec = 0
    · rw [if_pos (hP.2 h), if_pos h]; exact setPrec_128 x
    · rw [if_neg (fun h' => h (hP.1 h')), if_neg h]; exact ⟨rfl, rfl⟩

theorem recvPrec_ne (f : Option BigFloat) : recvPrec f ≠ 0 := by
  unfold recvPrec
  cases f with
  | none => simp
  | some x => simp only; split <;> [simp; assumption]

theorem fsigCode_eq (s : U128) (sg : Bool) (hs : s.toNat < 2 ^ 128) : fsigCode s sg = fsigOf sg s.toNat := by
  unfold fsigCode
  have h0 : (if (s.w1 == 0) = true then SetUint64 (SetPrec new (128 : UInt64)) s.w0
      else SetInt (SetPrec new (128 : UInt64))
        (Go.BigInt.Or (Go.BigInt.Lsh (Go.BigInt.SetUint64 s.w1) (64 : UInt64)) (Go.BigInt.SetUint64 s.w0)))
      = fsigOf false s.toNat := by
    rw [setPrec_new]
    by_cases hw : (s.w1 == 0) = true
    · rw [if_pos hw, setUint64_128]
      have : s.toNat = s.w0.toNat := by
        rw [u64_eq_zero_iff] at hw; simp [U128.toNat, hw]
      rw [this]
    · rw [if_neg hw, big_of_words, setInt_128 _ hs]
  simp only [h0]
  cases sg
  · simp
  · simp only [if_true]; exact neg_fsig _ hs

theorem ten_zpow_nat (k : ℕ) : ((10 ^ k : ℕ) : ℚ) = (10 : ℚ) ^ (k : ℤ) := by
  rw [zpow_natCast]; push_cast; rfl

/-- the tail: one `Set`, `Mul` or `Quo` into the receiver, i.e. ONE rounding of `c·10^e'` -/
theorem tail_eq (F : BigFloat) (hF : F.prec ≠ 0) (sg : Bool) (c : ℕ) (e' : Int16)
    (hlo : -6176 ≤ e'.toInt) (hhi : e'.toInt ≤ 6111) :
    tail F (fsigOf sg c) e' =
      .ok (setVal ⟨F.prec, F.mode, .zero, false, 0⟩ sg ((c : ℚ) * (10 : ℚ) ^ e'.toInt)) := by
  unfold tail
  by_cases hz : (e' == 0) = true
  · rw [if_pos hz]
    have : e'.toInt = 0 := by rw [beq_iff_eq] at hz; rw [hz]; rfl
    rw [this, zpow_zero, mul_one, set_fsig F hF]; rfl
  · rw [if_neg hz]
    by_cases hp : decide (e' > 0) = true
    · rw [if_pos hp, if_pos hp]
      rw [i16_gt_lit, i16_0] at hp
      rw [exp10_pos e' hp]
      obtain ⟨p, hp10⟩ := setInt_pow10 e'.toInt.toNat
      rw [hp10, mul_fsig F hF sg c p _ (by positivity)]
      have : ((10 ^ e'.toInt.toNat : ℕ) : ℚ) = (10 : ℚ) ^ e'.toInt := by
        rw [ten_zpow_nat, Int.toNat_of_nonneg hp.le]
      rw [this]
    · rw [if_neg hp, if_neg hp]
      rw [i16_gt_lit, i16_0] at hp
      rw [exp10_nonpos e' (by omega) (by omega)]
      obtain ⟨p, hp10⟩ := setInt_pow10 (-e'.toInt).toNat
      rw [hp10, quo_fsig F hF sg c p _ (by positivity)]
      have : (c : ℚ) / ((10 ^ (-e'.toInt).toNat : ℕ) : ℚ) = (c : ℚ) * (10 : ℚ) ^ e'.toInt := by
        rw [ten_zpow_nat, Int.toNat_of_nonneg (by omega), zpow_neg, div_inv_eq_mul]
      rw [this]

/-! ## the three classes of `d` -/

/-- **finite `d`** (all receivers): the result is the receiver's precision and mode (128 / ToNearestEven by
    default) with the value `±c·10^e` stored by ONE `setVal`, i.e. rounded once by `roundBits` -/
theorem Float_finite (d : Gen.Decimal) (f : Option BigFloat) (hs : Gen.Decimal.isSpecial d = false)
    (hf : ∀ x, f = some x → x.prec < 2 ^ 64) :
    Gen.Decimal.Float d f =
      .ok (setVal ⟨recvPrec f, recvMode f, .zero, false, 0⟩ (Gen.Decimal.Signbit d)
        (((Gen.Decimal.decompose d).1.toNat : ℚ) * (10 : ℚ) ^ ((Gen.Decimal.decompose d).2.toInt - 6176))) := by
  have hc := Enc.decompose_sig_le d
  have h0 := Enc.decompose_exp_nonneg d
  have h1 := Enc.decompose_exp_le d hs
  rw [Float_staged d f hs]
  generalize Gen.Decimal.decompose d = p at *
  obtain ⟨s, e⟩ := p
  simp only at hc h0 h1 ⊢
  have hE : (e - 6176).toInt = e.toInt - 6176 := by
    apply i16_sub <;> rw [i16_6176] <;> simp only [Int.reducePow] <;> omega
  have hs128 : s.toNat < 2 ^ 128 := lt_of_le_of_lt hc (by unfold Spec.Cmax; norm_num)
  obtain ⟨hp, hm⟩ := recvPrep_spec f hf
  rw [fsigCode_eq s _ hs128, tail_eq (recvPrep f) (by rw [hp]; exact recvPrec_ne f) _ _ _
    (by rw [hE]; omega) (by rw [hE]; omega), hp, hm, hE]

/-- precision of the result for `±Inf`: a `nil` receiver gives `new(big.Float)` (precision 0) -/
def infPrec : Option BigFloat → ℕ
  | none => 0
  | some f => if f.prec = 0 then 128 else f.prec

/-- **`±Inf`**: `±Inf` with the receiver's mode; precision as the code leaves it -/
theorem Float_inf (d : Gen.Decimal) (f : Option BigFloat) (hs : Gen.Decimal.isSpecial d = true)
    (hn : Gen.Decimal.IsNaN d = false) (hf : ∀ x, f = some x → x.prec < 2 ^ 64) :
    Gen.Decimal.Float d f = .ok ⟨infPrec f, recvMode f, .inf, Gen.Decimal.Signbit d, 0⟩ := by
  unfold Gen.Decimal.Float
  simp only [hs, hn, if_true, Bool.false_eq_true, if_false]
  cases f with
  | none => rfl
  | some x =>
    have hx := hf x rfl
    have hP : ((Prec x == 0) = true) ↔ x.prec = 0 := by
      unfold Prec
      rw [beq_iff_eq, ← UInt64.toNat_inj, UInt64.toNat_ofNat_of_lt' hx]
      rfl
    have e2 : infPrec (some x) = if x.prec = 0 then 128 else x.prec := rfl
    have e3 : recvMode (some x) = x.mode := rfl
    have e4 : isNil (some x) = false := rfl
    have e5 : ofPtr (some x) = x := rfl
    rw [e2, e3, e4, e5]
    simp only [Bool.false_eq_true, if_false]
    by_cases h : x.prec = 0
    · simp only [if_pos (hP.2 h), if_pos h]
      obtain ⟨a, b⟩ := setPrec_128 x
      show Except.ok (SetInf _ _) = _
      unfold SetInf
      rw [a, b]
    · simp only [if_neg (fun h' => h (hP.1 h')), if_neg h]
      rfl

/-- **NaN**: the documented panic, whatever the receiver -/
theorem Float_nan (d : Gen.Decimal) (f : Option BigFloat) (hn : Gen.Decimal.IsNaN d = true) :
    Gen.Decimal.Float d f = .error (.explicit "Decimal(NaN).Float()") := by
  have hs : Gen.Decimal.isSpecial d = true := by rw [Enc.isSpecial_iff, hn]; rfl
  unfold Gen.Decimal.Float
  simp only [hs, hn, if_true]
  rfl

end FB
