/-
  D128/Proofs/PowAccChain.lean — property C18, general path of `Pow`: preliminaries of the walk through
  `PowPf.general` (D128/Proofs/PowCode.lean): operands, guards, the logarithm at and away from 1.

  Provided (namespace `PowAcc`):
  * `wf s e`, `wf_sig`, `wf_exp`, `val_wf`        : the working-format operand of a stripped coefficient
  * `sig_zero_test`                                : `(w0 ||| w1 ||| w2 == 0) = decide (sig = 0)`
  * `guard_sum`, `guard_log`, `conv_log192`        : the integer comparisons of the range tests
  * `gap_one`, `log_gap`                           : a finite Decimal other than 1 has `|ln| ≥ 10^-36`
  * `log_at_one`                                   : `log` of the value 1 returns the significand 0
  * `mul_rel`                                      : `mul` is accurate to relative `2·10^-57`
  * `generalS`, `general_eq`                       : `PowPf.general` with the guards as integer comparisons
  * `genAfterLog`, `genAfterMul`, `genAfterEpow`   : its continuations; `generalS_eq`
  * `gS_log`, `gAL_*`, `gAM_*`, `gAE_*`, `outV_ok`  : its value once `log`, `mul`, `epow` are known
    (NB: never close such goals by `rfl`: the kernel would evaluate `Nat.decEq (… * 2^128) 0` by unfolding `Nat.mul`)
-/
import D128.Proofs.PowAccTail
import D128.Proofs.PowAccLog
import D128.Proofs.PowAccEpow
import D128.Proofs.WordsWidePow10
set_option autoImplicit false
set_option maxRecDepth 8192

namespace PowAcc
open Gen D192 Spec SpecRound EnclPf ExpAcc LogAcc PowPf RK

/-- the working-format operand of a stripped coefficient and biased exponent -/
def wf (s : U128) (e : Int16) : decomposed192 :=
  ({ (default : decomposed192) with sig := (U192.mk s.w0 s.w1 (0 : UInt64)), exp := (e - (6176 : Int16)) } : decomposed192)

theorem wf_sig (s : U128) (e : Int16) : (wf s e).sig.toNat = s.toNat := by
  simp [wf, U192.toNat, U128.toNat]

theorem wf_exp (s : U128) (e : Int16) (h0 : 0 ≤ e.toInt) (h1 : e.toInt ≤ 12400) :
    (wf s e).exp.toInt = e.toInt - 6176 := by
  have h6 : (6176 : Int16).toInt = 6176 := by decide
  show (e - 6176).toInt = _
  rw [Int16.toInt_sub_of] <;> rw [h6] <;> omega

theorem val_wf (s : U128) (e : Int16) (h0 : 0 ≤ e.toInt) (h1 : e.toInt ≤ 12400) :
    val (wf s e) = (s.toNat : ℚ) * (10 : ℚ) ^ (e.toInt - 6176) := by
  unfold val; rw [wf_sig, wf_exp s e h0 h1]

theorem sig_zero_test (s : U192) : (s.w0 ||| s.w1 ||| s.w2 == 0) = decide (s.toNat = 0) := by
  have h0 := s.w0.toNat_lt
  have h1 := s.w1.toNat_lt
  rw [Bool.eq_iff_iff, beq_iff_eq, decide_eq_true_eq, UInt64.or_eq_zero_iff, UInt64.or_eq_zero_iff,
    ← UInt64.toNat_inj, ← UInt64.toNat_inj, ← UInt64.toNat_inj]
  simp only [UInt64.toNat_zero, U192.toNat]
  omega

/-- the first range test: `int64(res.exp) + int64(oExp) > maxBiasedExponent + maxDigits` -/
theorem guard_sum (a b : Int16) :
    (decide (((Go.conv a : Int64) + (Go.conv b : Int64)) > (12322 : Int64)) = true) ↔ a.toInt + b.toInt > 12322 := by
  have ha := a.le_toInt; have ha' := a.toInt_lt
  have hb := b.le_toInt; have hb' := b.toInt_lt
  have hs : ((Go.conv a : Int64) + (Go.conv b : Int64)).toInt = a.toInt + b.toInt := by
    rw [Int64.toInt_add, conv_i16_i64, conv_i16_i64]
    apply Int.bmod_eq_of_le <;> omega
  rw [decide_eq_true_eq, gt_iff_lt, Int64.lt_iff_toInt_lt, hs]
  have : (12322 : Int64).toInt = 12322 := by decide
  rw [this]

/-- the second range test: `int(res.exp) > 5 - l10` -/
theorem guard_log (a : Int16) (k : Nat) (hk : k ≤ 4096) :
    (decide ((Go.conv a : Int64) > (5 : Int64) - Int64.ofNat k) = true) ↔ a.toInt > 5 - (k : Int) := by
  have hl : (Int64.ofNat k).toInt = k := D128.Proofs.WordsWide.Int64_toInt_ofNat_small k hk
  have h5 : ((5 : Int64) - Int64.ofNat k).toInt = 5 - (k : Int) := by
    rw [Int64.toInt_sub, hl]
    have : (5 : Int64).toInt = 5 := by decide
    rw [this]
    apply Int.bmod_eq_of_le <;> omega
  rw [decide_eq_true_eq, gt_iff_lt, Int64.lt_iff_toInt_lt, h5, conv_i16_i64]

theorem conv_log192 (k : Nat) (hk : k ≤ 4096) : (Go.conv (Int64.ofNat k) : Int16).toInt = k := by
  have hl : (Int64.ofNat k).toInt = k := D128.Proofs.WordsWide.Int64_toInt_ofNat_small k hk
  have hs : Int16.size = 65536 := rfl
  simp only [Go.conv, Go.GoInt.ofInt, Go.GoInt.toInt, Int16.toInt_ofInt, hs, hl]
  apply Int.bmod_eq_of_le <;> omega

theorem log192_lt (s : U192) : Nat.log 10 s.toNat < 58 := by
  have hlt := D128.Proofs.WordsWide.U192.toNat_lt s
  by_contra hc
  by_cases hs : s.toNat = 0
  · rw [hs] at hc; simp at hc
  have h1 := Nat.pow_log_le_self 10 (x := s.toNat) hs
  have h2 : 10 ^ 58 ≤ 10 ^ Nat.log 10 s.toNat := Nat.pow_le_pow_right (by norm_num) (by omega)
  have : (2 : Nat) ^ 192 < 10 ^ 58 := by norm_num
  omega

/-! ## a finite Decimal other than 1 is away from 1 -/

theorem gap_one (N : Nat) (e : Int) (hN1 : 1 ≤ N) (hN : N < 10 ^ 35) (hne : (N : ℝ) * (10 : ℝ) ^ e ≠ 1) :
    1 + 1 / 10 ^ 35 ≤ (N : ℝ) * (10 : ℝ) ^ e ∨ (N : ℝ) * (10 : ℝ) ^ e ≤ 1 - 1 / 10 ^ 35 := by
  rcases le_or_gt 0 e with he | he
  · -- an integer
    left
    obtain ⟨n, rfl⟩ := Int.eq_ofNat_of_zero_le he
    rw [zpow_natCast] at hne ⊢
    have h2 : ((N * 10 ^ n : ℕ) : ℝ) ≠ 1 := by push_cast; exact hne
    have h3 : N * 10 ^ n ≠ 1 := by exact_mod_cast h2
    have h4 : 1 ≤ N * 10 ^ n := Nat.mul_pos hN1 (by positivity)
    have h5 : (2 : ℝ) ≤ ((N * 10 ^ n : ℕ) : ℝ) := by
      have : 2 ≤ N * 10 ^ n := by omega
      exact_mod_cast this
    push_cast at h5
    have : (1 : ℝ) / 10 ^ 35 ≤ 1 := by norm_num
    linarith
  · obtain ⟨n, hn⟩ := Int.eq_ofNat_of_zero_le (show 0 ≤ -e by omega)
    have he' : e = -(n : Int) := by omega
    subst he'
    have hp : (0 : ℝ) < (10 : ℝ) ^ n := by positivity
    have hX : (N : ℝ) * (10 : ℝ) ^ (-(n : Int)) = (N : ℝ) / (10 : ℝ) ^ n := by
      rw [zpow_neg, zpow_natCast, div_eq_mul_inv]
    rw [hX] at hne ⊢
    have hNn : N ≠ 10 ^ n := by
      intro h; apply hne; rw [h]; push_cast; exact div_self hp.ne'
    rcases Nat.lt_or_gt_of_ne hNn with hlt | hgt
    · -- below 1
      right
      by_cases hn35 : n ≤ 35
      · have h1 : (N : ℝ) + 1 ≤ (10 : ℝ) ^ n := by exact_mod_cast hlt
        rw [div_le_iff₀ hp]
        have h2 : (10 : ℝ) ^ n ≤ (10 : ℝ) ^ 35 := pow_le_pow_right₀ (by norm_num) hn35
        have h3 : (1 - 1 / 10 ^ 35) * (10 : ℝ) ^ n = (10 : ℝ) ^ n - (10 : ℝ) ^ n / 10 ^ 35 := by ring
        have h4 : (10 : ℝ) ^ n / 10 ^ 35 ≤ 1 := by rw [div_le_one (by positivity)]; exact h2
        linarith
      · have h1 : (N : ℝ) ≤ (10 : ℝ) ^ 35 := by exact_mod_cast hN.le
        have h2 : (10 : ℝ) ^ 36 ≤ (10 : ℝ) ^ n := pow_le_pow_right₀ (by norm_num) (by omega)
        rw [div_le_iff₀ hp]
        have h3 : (10 : ℝ) ^ 35 ≤ (1 - 1 / 10 ^ 35) * (10 : ℝ) ^ 36 := by norm_num
        have h4 : (1 - 1 / 10 ^ 35) * (10 : ℝ) ^ 36 ≤ (1 - 1 / 10 ^ 35) * (10 : ℝ) ^ n :=
          mul_le_mul_of_nonneg_left h2 (by norm_num)
        linarith
    · -- above 1
      left
      have hn34 : n ≤ 34 := by
        by_contra hc
        have : 10 ^ 35 ≤ 10 ^ n := Nat.pow_le_pow_right (by norm_num) (by omega)
        omega
      have h1 : (10 : ℝ) ^ n + 1 ≤ (N : ℝ) := by exact_mod_cast hgt
      rw [le_div_iff₀ hp]
      have h2 : (10 : ℝ) ^ n ≤ (10 : ℝ) ^ 35 := pow_le_pow_right₀ (by norm_num) (by omega)
      have h3 : (1 + 1 / 10 ^ 35) * (10 : ℝ) ^ n = (10 : ℝ) ^ n + (10 : ℝ) ^ n / 10 ^ 35 := by ring
      have h4 : (10 : ℝ) ^ n / 10 ^ 35 ≤ 1 := by rw [div_le_one (by positivity)]; exact h2
      linarith

theorem log_gap (X : ℝ) (hX : 0 < X) (h : 1 + 1 / 10 ^ 35 ≤ X ∨ X ≤ 1 - 1 / 10 ^ 35) :
    1 / 10 ^ 36 ≤ |Real.log X| := by
  rcases h with h | h
  · have h1 : Real.log (1 + 1 / 10 ^ 35) ≤ Real.log X := Real.log_le_log (by norm_num) h
    have h2 : 1 - 1 / (1 + 1 / 10 ^ 35 : ℝ) ≤ Real.log (1 + 1 / 10 ^ 35) := by
      have := Real.one_sub_inv_le_log_of_pos (show (0 : ℝ) < 1 + 1 / 10 ^ 35 by norm_num)
      rwa [inv_eq_one_div] at this
    have h3 : (1 : ℝ) / 10 ^ 36 ≤ 1 - 1 / (1 + 1 / 10 ^ 35 : ℝ) := by norm_num
    have h4 : 0 ≤ Real.log X := by linarith [show (0:ℝ) ≤ 1 / 10 ^ 36 by norm_num]
    rw [abs_of_nonneg h4]; linarith
  · have h1 : Real.log X ≤ X - 1 := Real.log_le_sub_one_of_pos hX
    have h2 : Real.log X ≤ -(1 / 10 ^ 35) := by linarith
    have h3 : Real.log X ≤ 0 := by linarith [show (0:ℝ) ≤ 1 / 10 ^ 35 by norm_num]
    rw [abs_of_nonpos h3]
    have : (1 : ℝ) / 10 ^ 36 ≤ 1 / 10 ^ 35 := by norm_num
    linarith

/-! ## the logarithm at 1 -/

/-- `log` of an operand of value 1 returns the significand 0 (the first reduction is exact and the series vanishes) -/
theorem log_at_one (d : decomposed192) (hd : d.sig.toNat ≠ 0)
    (he : -16000 ≤ d.exp.toInt ∧ d.exp.toInt ≤ 16000) (h1 : val d = 1)
    (neg : Bool) (x : decomposed192) (t : Int8) (h : Gen.decomposed192.log d = .ok (neg, x, t)) :
    x.sig.toNat = 0 := by
  obtain ⟨neg', x', t', e0, M, v, S, F, hlog, -, -, -, hXv, -, -, hM0, hM1, hMlo, hMhi,
    hF0, -, hFS, hS2F, hexact, -, -, herr⟩ := log_spec d hd he
  rw [h] at hlog
  have hx : x = x' := by injection hlog with h'; injection h' with _ h''; injection h'' with h3 _
  subst hx
  have hX1 : ((val d : ℚ) : ℝ) = 1 := by rw [h1]; norm_num
  rw [hX1] at hXv herr
  have hM0r : (10 : ℝ) ≤ (M : ℝ) := by exact_mod_cast hM0
  have hM1r : (M : ℝ) ≤ 99 := by exact_mod_cast hM1
  have hv1 : 1 ≤ v := by linarith
  have hv10 : v < 10 := by linarith
  -- e0 = 0
  have he0 : e0 = 0 := by
    rcases lt_trichotomy e0 0 with hneg | hz | hpos
    · exfalso
      have : (10 : ℝ) ^ e0 ≤ (10 : ℝ) ^ (-1 : Int) := zpow_le_zpow_right₀ (by norm_num) (by omega)
      have h10 : (10 : ℝ) ^ (-1 : Int) = 1 / 10 := by norm_num
      have h3 : v * (10 : ℝ) ^ e0 ≤ v * (1 / 10) :=
        mul_le_mul_of_nonneg_left (by rw [← h10]; exact this) (by linarith)
      linarith
    · exact hz
    · exfalso
      have : (10 : ℝ) ^ (1 : Int) ≤ (10 : ℝ) ^ e0 := zpow_le_zpow_right₀ (by norm_num) (by omega)
      have h10 : (10 : ℝ) ^ (1 : Int) = 10 := by norm_num
      have h3 : v * 10 ≤ v * (10 : ℝ) ^ e0 :=
        mul_le_mul_of_nonneg_left (by rw [h10] at this; exact this) (by linarith)
      linarith
  rw [he0, zpow_zero, mul_one] at hXv
  have hM10 : M = 10 := by
    have h2 : (M : ℝ) < 11 := by linarith
    have h3 : M < 11 := by exact_mod_cast h2
    omega
  have hF : F = 0 := hexact (by rw [← hXv, hM10]; norm_num)
  have hS : S = 0 := by linarith
  rw [hF, hS, he0, hM10] at herr
  have herr0 : errLog (0 : ℤ).natAbs (if (10 : ℤ) = 10 then 0 else 1) 0 0 = 0 := by
    unfold errLog tailR; simp
  rw [herr0, Real.log_one, abs_zero, sub_zero] at herr
  have hv0 : ((val x : ℚ) : ℝ) = 0 := by
    have := abs_nonneg ((val x : ℚ) : ℝ)
    exact abs_eq_zero.1 (le_antisymm herr this)
  have hvq : val x = 0 := by exact_mod_cast hv0
  unfold val at hvq
  have hp : (0 : ℚ) < (10 : ℚ) ^ x.exp.toInt := zpow_pos (by norm_num) _
  rcases mul_eq_zero.1 hvq with h0 | h0
  · exact_mod_cast h0
  · exact absurd h0 hp.ne'

/-! ## the product -/

/-- `mul` is accurate to relative `2·10^-57` -/
theorem mul_rel (d o : decomposed192) (t : Int8)
    (hlo : -32768 ≤ d.exp.toInt + o.exp.toInt) (hhi : d.exp.toInt + o.exp.toInt + 58 ≤ 32767) :
    ∃ r t', Gen.decomposed192.mul d o t = .ok (r, t') ∧
      val d * val o * (1 - 2 / 10 ^ 57) ≤ val r ∧ val r ≤ val d * val o ∧ (t' = t ∨ t' = 1) ∧
      d.exp.toInt + o.exp.toInt ≤ r.exp.toInt ∧ r.exp.toInt ≤ d.exp.toInt + o.exp.toInt + 58 := by
  obtain ⟨r, t', hr, h1, h2, h3, h4, h5, h6, h7⟩ := mul_contract d o t hlo hhi
  refine ⟨r, t', hr, ?_, h1, ?_, h5, h6⟩
  · apply lower_of_sig r (val d * val o) (2 / 10 ^ 57) (2 ^ 192 / 10) (by norm_num) (by norm_num) (by norm_num) h1 h2
    rcases h7 with h7 | h7
    · -- no digit dropped: exact
      left
      have he : r.exp.toInt = d.exp.toInt + o.exp.toInt := by
        rw [h7, Int16.toInt_add_of _ _ hlo (by omega)]
      rw [val_mul] at h1 h2 ⊢
      unfold val ulp at *
      rw [he] at h1 h2 ⊢
      have hp : (0 : ℚ) < (10 : ℚ) ^ (d.exp.toInt + o.exp.toInt) := zpow_pos (by norm_num) _
      have h1' : (r.sig.toNat : ℚ) ≤ ((d.sig.toNat * o.sig.toNat : ℕ) : ℚ) := le_of_mul_le_mul_right h1 hp
      have h2' : ((d.sig.toNat * o.sig.toNat : ℕ) : ℚ) < (r.sig.toNat : ℚ) + 1 := by
        have : ((d.sig.toNat * o.sig.toNat : ℕ) : ℚ) * (10 : ℚ) ^ (d.exp.toInt + o.exp.toInt)
            < ((r.sig.toNat : ℚ) + 1) * (10 : ℚ) ^ (d.exp.toInt + o.exp.toInt) := by
          rw [add_mul, one_mul]; exact h2
        exact lt_of_mul_lt_mul_right this hp.le
      have h1n : r.sig.toNat ≤ d.sig.toNat * o.sig.toNat := by exact_mod_cast h1'
      have h2n : d.sig.toNat * o.sig.toNat < r.sig.toNat + 1 := by exact_mod_cast h2'
      have : r.sig.toNat = d.sig.toNat * o.sig.toNat := by omega
      rw [this]
    · right; exact h7
  · by_cases hc : val r = val d * val o
    · left; exact h3 hc
    · right; exact h4 hc

/-! ## the staged form of the general path -/

/-- the early-out of the general path -/
def outV (neg sgn : Bool) : Go.GoM Decimal := if sgn = true then pure (Gen.zero neg) else pure (Gen.inf neg)

/-- `PowPf.general` with the guards as integer comparisons -/
def generalS (rm : UInt8) (oNeg neg : Bool) (oSig : U128) (oExp : Int16) (dSig : U128) (dExp : Int16) : Go.GoM Decimal :=
  decomposed192.log (wf dSig dExp) >>= fun x0 =>
    if x0.2.1.sig.toNat = 0 then pure (Gen.one neg)
    else if x0.2.1.exp.toInt + oExp.toInt > 12322 then outV neg (oNeg != x0.1)
    else decomposed192.mul x0.2.1 (wf oSig oExp) x0.2.2 >>= fun x1 =>
      if x1.1.sig.toNat = 0 then pure (Gen.one neg)
      else if x1.1.exp.toInt > 5 - (Nat.log 10 x1.1.sig.toNat : Int) then outV neg (oNeg != x0.1)
      else decomposed192.epow x1.1 (Go.conv (Int64.ofNat (Nat.log 10 x1.1.sig.toNat)) : Int16) x1.2 >>= fun x2 =>
        if x2.1.exp.toInt > 6169 then outV neg (oNeg != x0.1)
        else if (oNeg != x0.1) = true then
          decomposed192.rcp x2.1 x2.2 >>= fun x3 => genTail rm neg x3.1 (x3.2 * -1)
        else genTail rm neg x2.1 x2.2

theorem guard_sum' (a b : Int16) :
    decide (((Go.conv a : Int64) + (Go.conv b : Int64)) > (12322 : Int64)) = decide (a.toInt + b.toInt > 12322) :=
  decide_eq_decide.2 (by rw [← guard_sum a b, decide_eq_true_eq])

theorem guard_log' (a : Int16) (s : U192) :
    decide ((Go.conv a : Int64) > (5 : Int64) - Int64.ofNat (Nat.log 10 s.toNat))
      = decide (a.toInt > 5 - (Nat.log 10 s.toNat : Int)) :=
  decide_eq_decide.2 (by
    have := guard_log a (Nat.log 10 s.toNat) (by have := log192_lt s; omega)
    rw [← this, decide_eq_true_eq])

theorem guard_6169 (e : Int16) : decide (e > (6169 : Int16)) = decide (e.toInt > 6169) :=
  decide_eq_decide.2 (by rw [gt_iff_lt, Int16.lt_iff_toInt_lt]; simp)

theorem general_eq (rm : UInt8) (oNeg neg : Bool) (oSig : U128) (oExp : Int16) (dSig : U128) (dExp : Int16) :
    general rm oNeg neg oSig oExp dSig dExp = generalS rm oNeg neg oSig oExp dSig dExp := by
  unfold general generalS
  dsimp only
  refine congrArg _ (funext fun x0 => ?_)
  simp only [sig_zero_test, guard_sum', decide_eq_true_eq]
  by_cases h1 : x0.2.1.sig.toNat = 0
  · rw [if_pos h1, if_pos h1]
  rw [if_neg h1, if_neg h1]
  by_cases h2 : x0.2.1.exp.toInt + oExp.toInt > 12322
  · rw [if_pos h2, if_pos h2]; rfl
  rw [if_neg h2, if_neg h2]
  show (decomposed192.mul x0.2.1 (wf oSig oExp) x0.2.2 >>= _) = _
  refine congrArg _ (funext fun x1 => ?_)
  by_cases h3 : x1.1.sig.toNat = 0
  · rw [if_pos h3, if_pos h3]
  rw [if_neg h3, if_neg h3, D128.Proofs.WordsWide.U192_log10_eq, RK.ok_bind]
  have e4 : ((Go.conv x1.1.exp : Int64) > (5 : Int64) - Int64.ofNat (Nat.log 10 x1.1.sig.toNat))
      ↔ x1.1.exp.toInt > 5 - (Nat.log 10 x1.1.sig.toNat : Int) := by
    have := guard_log x1.1.exp (Nat.log 10 x1.1.sig.toNat) (by have := log192_lt x1.1.sig; omega)
    rw [← this, decide_eq_true_eq]
  by_cases h4 : x1.1.exp.toInt > 5 - (Nat.log 10 x1.1.sig.toNat : Int)
  · rw [if_pos (e4.2 h4), if_pos h4]; rfl
  rw [if_neg (fun hc => h4 (e4.1 hc)), if_neg h4, if_neg h3]
  refine congrArg _ (funext fun x2 => ?_)
  have e5 : (x2.1.exp > (6169 : Int16)) ↔ x2.1.exp.toInt > 6169 := by
    rw [gt_iff_lt, Int16.lt_iff_toInt_lt]; simp
  by_cases h5 : x2.1.exp.toInt > 6169
  · rw [if_pos (e5.2 h5), if_pos h5]; rfl
  rw [if_neg (fun hc => h5 (e5.1 hc)), if_neg h5]
  unfold genTail
  simp only [decide_eq_true_eq]

/-- after `epow`: range test, optional reciprocal, final rounding -/
def genAfterEpow (rm : UInt8) (neg sgn : Bool) (x2 : decomposed192 × Int8) : Go.GoM Decimal :=
  if x2.1.exp.toInt > 6169 then outV neg sgn
  else if sgn = true then
    decomposed192.rcp x2.1 x2.2 >>= fun x3 => genTail rm neg x3.1 (x3.2 * -1)
  else genTail rm neg x2.1 x2.2

/-- after `mul`: zero test, range test, `epow` -/
def genAfterMul (rm : UInt8) (neg sgn : Bool) (x1 : decomposed192 × Int8) : Go.GoM Decimal :=
  if x1.1.sig.toNat = 0 then pure (Gen.one neg)
  else if x1.1.exp.toInt > 5 - (Nat.log 10 x1.1.sig.toNat : Int) then outV neg sgn
  else decomposed192.epow x1.1 (Go.conv (Int64.ofNat (Nat.log 10 x1.1.sig.toNat)) : Int16) x1.2 >>=
    genAfterEpow rm neg sgn

/-- after `log`: zero test, range test, `mul` -/
def genAfterLog (rm : UInt8) (oNeg neg : Bool) (oSig : U128) (oExp : Int16) (x0 : Bool × decomposed192 × Int8) :
    Go.GoM Decimal :=
  if x0.2.1.sig.toNat = 0 then pure (Gen.one neg)
  else if x0.2.1.exp.toInt + oExp.toInt > 12322 then outV neg (oNeg != x0.1)
  else decomposed192.mul x0.2.1 (wf oSig oExp) x0.2.2 >>= genAfterMul rm neg (oNeg != x0.1)

theorem generalS_eq (rm : UInt8) (oNeg neg : Bool) (oSig : U128) (oExp : Int16) (dSig : U128) (dExp : Int16) :
    generalS rm oNeg neg oSig oExp dSig dExp
      = decomposed192.log (wf dSig dExp) >>= genAfterLog rm oNeg neg oSig oExp := by
  unfold generalS
  refine congrArg _ (funext fun x0 => ?_)
  unfold genAfterLog
  by_cases h1 : x0.2.1.sig.toNat = 0
  · rw [if_pos h1, if_pos h1]
  rw [if_neg h1, if_neg h1]
  by_cases h2 : x0.2.1.exp.toInt + oExp.toInt > 12322
  · rw [if_pos h2, if_pos h2]
  rw [if_neg h2, if_neg h2]
  refine congrArg _ (funext fun x1 => ?_)
  unfold genAfterMul
  by_cases h3 : x1.1.sig.toNat = 0
  · rw [if_pos h3, if_pos h3]
  rw [if_neg h3, if_neg h3]
  by_cases h4 : x1.1.exp.toInt > 5 - (Nat.log 10 x1.1.sig.toNat : Int)
  · rw [if_pos h4, if_pos h4]
  rw [if_neg h4, if_neg h4]
  refine congrArg _ (funext fun x2 => ?_)
  unfold genAfterEpow
  rfl

/-! ### evaluating the staged form along the path -/

theorem gS_log {rm : UInt8} {oNeg neg : Bool} {oSig : U128} {oExp : Int16} {dSig : U128} {dExp : Int16}
    {x0 : Bool × decomposed192 × Int8}
    (hlog : decomposed192.log (wf dSig dExp) = .ok x0) :
    general rm oNeg neg oSig oExp dSig dExp = genAfterLog rm oNeg neg oSig oExp x0 := by
  rw [general_eq, generalS_eq, hlog]; exact RK.ok_bind _ _

theorem gAL_one {rm : UInt8} {oNeg neg : Bool} {oSig : U128} {oExp : Int16} {inv : Bool} {L : decomposed192}
    {tL : Int8} (h : L.sig.toNat = 0) :
    genAfterLog rm oNeg neg oSig oExp (inv, L, tL) = pure (Gen.one neg) := by
  unfold genAfterLog; dsimp only; rw [if_pos h]

theorem gAL_out {rm : UInt8} {oNeg neg : Bool} {oSig : U128} {oExp : Int16} {inv : Bool} {L : decomposed192}
    {tL : Int8} (h : L.sig.toNat ≠ 0) (h2 : L.exp.toInt + oExp.toInt > 12322) :
    genAfterLog rm oNeg neg oSig oExp (inv, L, tL) = outV neg (oNeg != inv) := by
  unfold genAfterLog; dsimp only; rw [if_neg h, if_pos h2]

theorem gAL_mul {rm : UInt8} {oNeg neg : Bool} {oSig : U128} {oExp : Int16} {inv : Bool} {L : decomposed192}
    {tL : Int8} {x1 : decomposed192 × Int8} (h : L.sig.toNat ≠ 0) (h2 : ¬ L.exp.toInt + oExp.toInt > 12322)
    (hmul : decomposed192.mul L (wf oSig oExp) tL = .ok x1) :
    genAfterLog rm oNeg neg oSig oExp (inv, L, tL) = genAfterMul rm neg (oNeg != inv) x1 := by
  unfold genAfterLog; dsimp only; rw [if_neg h, if_neg h2, hmul]; exact RK.ok_bind _ _

theorem gAM_out {rm : UInt8} {neg sgn : Bool} {res : decomposed192} {t1 : Int8} (h : res.sig.toNat ≠ 0)
    (h2 : res.exp.toInt > 5 - (Nat.log 10 res.sig.toNat : Int)) :
    genAfterMul rm neg sgn (res, t1) = outV neg sgn := by
  unfold genAfterMul; dsimp only; rw [if_neg h, if_pos h2]

theorem gAM_epow {rm : UInt8} {neg sgn : Bool} {res : decomposed192} {t1 : Int8} {z : decomposed192 × Int8}
    (h : res.sig.toNat ≠ 0) (h2 : ¬ res.exp.toInt > 5 - (Nat.log 10 res.sig.toNat : Int))
    (hz : decomposed192.epow res (Go.conv (Int64.ofNat (Nat.log 10 res.sig.toNat)) : Int16) t1 = .ok z) :
    genAfterMul rm neg sgn (res, t1) = genAfterEpow rm neg sgn z := by
  unfold genAfterMul; dsimp only; rw [if_neg h, if_neg h2, hz]; exact RK.ok_bind _ _

theorem gAE_out {rm : UInt8} {neg sgn : Bool} {z : decomposed192 × Int8} (h : z.1.exp.toInt > 6169) :
    genAfterEpow rm neg sgn z = outV neg sgn := by
  unfold genAfterEpow; rw [if_pos h]

theorem gAE_tail {rm : UInt8} {neg sgn : Bool} {z : decomposed192 × Int8} (h : ¬ z.1.exp.toInt > 6169) :
    genAfterEpow rm neg sgn z =
      if sgn = true then decomposed192.rcp z.1 z.2 >>= fun x3 => genTail rm neg x3.1 (x3.2 * -1)
      else genTail rm neg z.1 z.2 := by
  unfold genAfterEpow; rw [if_neg h]

theorem outV_ok {neg sgn : Bool} {r : Decimal} (h : outV neg sgn = .ok r) :
    r = if sgn = true then Gen.zero neg else Gen.inf neg := by
  unfold outV at h
  cases sgn
  · have : Gen.inf neg = r := by injection h
    rw [← this]; rfl
  · have : Gen.zero neg = r := by injection h
    rw [← this]; rfl

end PowAcc
