/-
  D128/Proofs/FromRatBoundEx.lean — every exclusion in the `FromRat` error bounds is necessary: concrete
  rationals, as theorems about the generated `Gen.FromRat` (each was first evaluated with `#eval` on the
  generated code; the proofs go through `FromRat_spec'` and kernel evaluation — `decide +kernel` — of the
  executable specification), and concrete instances of the positive theorems' hypotheses.

  Provided (namespace `FromRatBound`):
  * `cex_toPosInf`   mode ToPositiveInf (byte 5), `r = −(1684996666696914987166688442940357·10^40 − 1)/(2^110·10^40 + 1)`:
                     the result is `−1298074214633706907132624082306277·10^-33`, relative error `2.134·10^-33 > 2·10^-33`
  * `cex_toNegInf`   mode ToNegativeInf (byte 4), `r = −(1684996666696914987166688442940490·10^40 + 1)/(2^110·10^40 + 10^40 − 1)`:
                     the result is `−1298074214633706907132624082306384·10^-33`, relative error `2.134·10^-33`
  * `cex_subnormal`  default mode, `r = 1/(3·10^6144)` (`≈ 3.3e-6145`, below `5e-6144`): the result
                     `33333333333333333333333333333333·10^-6176` has relative error exactly `10^-32`
  * `cex_low`        default mode, `r = 23/((10^34+21)·10^6111) ≈ 2.3e-6144`: relative error exactly `2.1·10^-33`
  * `cex_num_overflow`  `r = 10^6146/3^200 ≈ 3.8e6050`: the numerator becomes `+Inf`, the result is not finite
  * `cex_den_overflow`  `r = 3^200/10^6146 ≈ 2.7e-6051`: the denominator becomes `+Inf`, the result is `0`
  * `cex_threshold`  nearest modes, `r = T/3` with `T = (Cmax+½)·10^Emax` exactly: not finite — the
                     threshold of `FromRat_bound_nearest` is sharp; `ex_below_threshold`: `(T−1)/3` satisfies it
-/
import D128.Proofs.FromRatBoundMain
set_option autoImplicit false

namespace FromRatBound
open Spec SpecRound BigConv
local notation "𝔳[" d "]" => Spec.interp (Gen.Decimal.lo d) (Gen.Decimal.hi d)

/-! ## 1. directed modes on negative rationals: more than 2 parts in 10^33 -/

def N1 : Nat := 1684996666696914987166688442940357 * 10 ^ 40 - 1
def D1 : Nat := 2 ^ 110 * 10 ^ 40 + 1
def rDir : ℚ := ((-(N1 : Int) : Int) : ℚ) / (((D1 : Nat) : Int) : ℚ)

theorem rDir_num : rDir.num = -(N1 : Int) :=
  Rat.num_div_eq_of_coprime (by decide +kernel) (by decide +kernel)
theorem rDir_den : rDir.den = D1 :=
  Int.natCast_inj.1 (Rat.den_div_eq_of_coprime (a := -(N1 : Int)) (b := ((D1 : Nat) : Int))
    (by decide +kernel) (by decide +kernel))
theorem rDir_ne : rDir ≠ 0 := by
  intro h; have := rDir_num; rw [h] at this; revert this; decide +kernel

/-- **ToPositiveInf, negative `r`.**  The numerator magnitude is rounded down (by almost one unit of a
    coefficient `≈ 1.685e33`), the denominator up (coefficient `2^110`), the quotient magnitude down (by
    0.9998 units of a coefficient `≈ 2^110`): all three errors have the same sign and add up to
    `2.134·10^-33·|r|`.  The C10 clause "within 2 parts in 10^33" is FALSE in this mode. -/
theorem cex_toPosInf (g : Globals) (hg : g.DefaultRoundingMode = 5) :
    ∃ d, Gen.FromRat g rDir = .ok d ∧ (𝔳[d]).isFin = true ∧
      2 * (10 : ℚ) ^ (-33 : Int) * |rDir| < |(𝔳[d]).toRat - rDir| := by
  have hm : Spec.Mode.ofNat? g.DefaultRoundingMode.toNat = some .toPosInf := by rw [hg]; rfl
  have hbn : Go.Big.bitLen rDir.num.natAbs < 2 ^ 63 := by
    rw [rDir_num]; exact bitLen_lt_of_lt (L := 300) (by decide +kernel) (by norm_num)
  have hbd : Go.Big.bitLen rDir.den < 2 ^ 63 := by
    rw [rDir_den]; exact bitLen_lt_of_lt (L := 300) (by decide +kernel) (by norm_num)
  have hq : Spec.quo .toPosInf (Spec.roundTo .toPosInf (decide (rDir.num < 0)) (rDir.num.natAbs : ℚ))
        (Spec.roundTo .toPosInf false (rDir.den : ℚ)) =
      .fin (decide (rDir.num < 0)) 1298074214633706907132624082306277 (-33) := by
    rw [rDir_num, rDir_den]; decide +kernel
  obtain ⟨d, h1, h2, h3⟩ := FromRat_value g rDir .toPosInf hm hbn hbd rDir_ne hq
  refine ⟨d, h1, h2, ?_⟩
  have habs : |rDir| = (N1 : ℚ) / (D1 : ℚ) := by
    rw [← abs_num_div_den, rDir_num, rDir_den]; simp
  rw [h3, habs]
  have hneg : ((1298074214633706907132624082306277 : Nat) : ℚ) * (10 : ℚ) ^ (-33 : Int) -
      (N1 : ℚ) / (D1 : ℚ) < 0 := by norm_num [N1, D1]
  rw [abs_of_neg hneg]
  norm_num [N1, D1]

def N2 : Nat := 1684996666696914987166688442940490 * 10 ^ 40 + 1
def D2 : Nat := 2 ^ 110 * 10 ^ 40 + (10 ^ 40 - 1)
def rDir' : ℚ := ((-(N2 : Int) : Int) : ℚ) / (((D2 : Nat) : Int) : ℚ)

theorem rDir'_num : rDir'.num = -(N2 : Int) :=
  Rat.num_div_eq_of_coprime (by decide +kernel) (by decide +kernel)
theorem rDir'_den : rDir'.den = D2 :=
  Int.natCast_inj.1 (Rat.den_div_eq_of_coprime (a := -(N2 : Int)) (b := ((D2 : Nat) : Int))
    (by decide +kernel) (by decide +kernel))
theorem rDir'_ne : rDir' ≠ 0 := by
  intro h; have := rDir'_num; rw [h] at this; revert this; decide +kernel

/-- **ToNegativeInf, negative `r`**: numerator magnitude up, denominator down, quotient magnitude up -/
theorem cex_toNegInf (g : Globals) (hg : g.DefaultRoundingMode = 4) :
    ∃ d, Gen.FromRat g rDir' = .ok d ∧ (𝔳[d]).isFin = true ∧
      2 * (10 : ℚ) ^ (-33 : Int) * |rDir'| < |(𝔳[d]).toRat - rDir'| := by
  have hm : Spec.Mode.ofNat? g.DefaultRoundingMode.toNat = some .toNegInf := by rw [hg]; rfl
  have hbn : Go.Big.bitLen rDir'.num.natAbs < 2 ^ 63 := by
    rw [rDir'_num]; exact bitLen_lt_of_lt (L := 300) (by decide +kernel) (by norm_num)
  have hbd : Go.Big.bitLen rDir'.den < 2 ^ 63 := by
    rw [rDir'_den]; exact bitLen_lt_of_lt (L := 300) (by decide +kernel) (by norm_num)
  have hq : Spec.quo .toNegInf (Spec.roundTo .toNegInf (decide (rDir'.num < 0)) (rDir'.num.natAbs : ℚ))
        (Spec.roundTo .toNegInf false (rDir'.den : ℚ)) =
      .fin (decide (rDir'.num < 0)) 1298074214633706907132624082306384 (-33) := by
    rw [rDir'_num, rDir'_den]; decide +kernel
  obtain ⟨d, h1, h2, h3⟩ := FromRat_value g rDir' .toNegInf hm hbn hbd rDir'_ne hq
  refine ⟨d, h1, h2, ?_⟩
  have habs : |rDir'| = (N2 : ℚ) / (D2 : ℚ) := by
    rw [← abs_num_div_den, rDir'_num, rDir'_den]; simp
  rw [h3, habs]
  have hpos : 0 < ((1298074214633706907132624082306384 : Nat) : ℚ) * (10 : ℚ) ^ (-33 : Int) -
      (N2 : ℚ) / (D2 : ℚ) := by norm_num [N2, D2]
  rw [abs_of_pos hpos]
  norm_num [N2, D2]

/-! ## 2. below `5·10^(Emin+32)`: only the absolute bound holds -/

def D3 : Nat := 3 * 10 ^ 6144
def rSub : ℚ := ((1 : Int) : ℚ) / (((D3 : Nat) : Int) : ℚ)

theorem rSub_num : rSub.num = 1 :=
  Rat.num_div_eq_of_coprime (by decide +kernel) (Nat.coprime_one_left _)
theorem rSub_den : rSub.den = D3 :=
  Int.natCast_inj.1 (Rat.den_div_eq_of_coprime (a := 1) (b := ((D3 : Nat) : Int)) (by decide +kernel)
    (Nat.coprime_one_left _))
theorem rSub_ne : rSub ≠ 0 := by
  intro h; have := rSub_num; rw [h] at this; revert this; decide +kernel

/-- **subnormal range.**  `FromRat(1/(3·10^6144))` (default mode) is `33333333333333333333333333333333·10^-6176`
    (32 digits: the exponent cannot go below `Emin`), relative error exactly `10^-32` — five times the
    claimed `2·10^-33`.  (Numerator 1 and denominator `3·10^6144` both convert exactly.) -/
theorem cex_subnormal (g : Globals) (hg : g.DefaultRoundingMode = 0) :
    ∃ d, Gen.FromRat g rSub = .ok d ∧ (𝔳[d]).isFin = true ∧
      |(𝔳[d]).toRat - rSub| = (10 : ℚ) ^ (-32 : Int) * |rSub| := by
  have hm : Spec.Mode.ofNat? g.DefaultRoundingMode.toNat = some .nearestEven := by rw [hg]; rfl
  have hbn : Go.Big.bitLen rSub.num.natAbs < 2 ^ 63 := by
    rw [rSub_num]; exact bitLen_lt_of_lt (L := 300) (by decide +kernel) (by norm_num)
  have hbd : Go.Big.bitLen rSub.den < 2 ^ 63 := by
    rw [rSub_den]; exact bitLen_lt_of_lt (L := 4 * 6146) (by decide +kernel) (by norm_num)
  have hq : Spec.quo .nearestEven (Spec.roundTo .nearestEven (decide (rSub.num < 0)) (rSub.num.natAbs : ℚ))
        (Spec.roundTo .nearestEven false (rSub.den : ℚ)) =
      .fin (decide (rSub.num < 0)) 33333333333333333333333333333333 (-6176) := by
    rw [rSub_num, rSub_den]; decide +kernel
  obtain ⟨d, h1, h2, h3⟩ := FromRat_value g rSub .nearestEven hm hbn hbd rSub_ne hq
  refine ⟨d, h1, h2, ?_⟩
  have habs : |rSub| = 1 / (D3 : ℚ) := by
    rw [← abs_num_div_den, rSub_num, rSub_den]; simp
  rw [h3, habs]
  have hX : (D3 : ℚ) = 3 * (10 : ℚ) ^ 6144 := by unfold D3; rw [Nat.cast_mul, Nat.cast_pow]; norm_num
  have hp : (10 : ℚ) ^ (-6176 : Int) = 1 / ((10 : ℚ) ^ 6144 * 10 ^ 32) := by
    rw [← pow_add, zpow_neg, one_div]; rfl
  have hX0 : (0 : ℚ) < (10 : ℚ) ^ 6144 := by positivity
  rw [hX, hp]
  generalize (10 : ℚ) ^ 6144 = X at *
  have e1 : (1 : ℚ) / (3 * X) = 10 ^ 32 / 3 * (1 / (X * 10 ^ 32)) := by field_simp
  rw [e1]
  have hq0 : (0 : ℚ) < 1 / (X * 10 ^ 32) := by positivity
  generalize (1 : ℚ) / (X * 10 ^ 32) = q at *
  have e2 : ((33333333333333333333333333333333 : Nat) : ℚ) * q - 10 ^ 32 / 3 * q = -(q / 3) := by
    push_cast; ring
  rw [e2, abs_neg, abs_of_pos (by positivity)]
  norm_num; ring

/-- in particular the relative bound `2·10^-33` fails there -/
theorem cex_subnormal' (g : Globals) (hg : g.DefaultRoundingMode = 0) :
    ∃ d, Gen.FromRat g rSub = .ok d ∧ 2 * (10 : ℚ) ^ (-33 : Int) * |rSub| < |(𝔳[d]).toRat - rSub| := by
  obtain ⟨d, h1, -, h3⟩ := cex_subnormal g hg
  refine ⟨d, h1, ?_⟩
  rw [h3]
  have : 0 < |rSub| := abs_pos.2 rSub_ne
  have h32 : (10 : ℚ) ^ (-32 : Int) = 1 / 10 ^ 32 := by norm_num
  have h33 : (10 : ℚ) ^ (-33 : Int) = 1 / 10 ^ 33 := by norm_num
  rw [h32, h33]
  nlinarith

/-! ### closer to the threshold: `|r| ≈ 2.3e-6144` -/

def D4 : Nat := (10 ^ 34 + 21) * 10 ^ 6111
def rLow : ℚ := ((23 : Int) : ℚ) / (((D4 : Nat) : Int) : ℚ)

theorem rLow_num : rLow.num = 23 :=
  Rat.num_div_eq_of_coprime (by decide +kernel) (by decide +kernel)
theorem rLow_den : rLow.den = D4 :=
  Int.natCast_inj.1 (Rat.den_div_eq_of_coprime (a := 23) (b := ((D4 : Nat) : Int)) (by decide +kernel)
    (by decide +kernel))
theorem rLow_ne : rLow ≠ 0 := by
  intro h; have := rLow_num; rw [h] at this; revert this; decide +kernel

/-- `FromRat(23/((10^34+21)·10^6111))` (`≈ 2.3e-6144`; numerator and denominator convert exactly) is
    `2.3·10^32·10^-6176`, relative error exactly `2.1·10^-33`: the bound `2·10^-33` still fails here, it holds
    from `5e-6144` on (`FromRat_rel_nearest`) -/
theorem cex_low (g : Globals) (hg : g.DefaultRoundingMode = 0) :
    ∃ d, Gen.FromRat g rLow = .ok d ∧ (𝔳[d]).isFin = true ∧
      |(𝔳[d]).toRat - rLow| = 21 / 10 * (10 : ℚ) ^ (-33 : Int) * |rLow| := by
  have hm : Spec.Mode.ofNat? g.DefaultRoundingMode.toNat = some .nearestEven := by rw [hg]; rfl
  have hbn : Go.Big.bitLen rLow.num.natAbs < 2 ^ 63 := by
    rw [rLow_num]; exact bitLen_lt_of_lt (L := 300) (by decide +kernel) (by norm_num)
  have hbd : Go.Big.bitLen rLow.den < 2 ^ 63 := by
    rw [rLow_den]; exact bitLen_lt_of_lt (L := 4 * 6146) (by decide +kernel) (by norm_num)
  have hq : Spec.quo .nearestEven (Spec.roundTo .nearestEven (decide (rLow.num < 0)) (rLow.num.natAbs : ℚ))
        (Spec.roundTo .nearestEven false (rLow.den : ℚ)) =
      .fin (decide (rLow.num < 0)) 230000000000000000000000000000000 (-6176) := by
    rw [rLow_num, rLow_den]; decide +kernel
  obtain ⟨d, h1, h2, h3⟩ := FromRat_value g rLow .nearestEven hm hbn hbd rLow_ne hq
  refine ⟨d, h1, h2, ?_⟩
  have habs : |rLow| = 23 / (D4 : ℚ) := by
    rw [← abs_num_div_den, rLow_num, rLow_den]; simp
  rw [h3, habs]
  have hX : (D4 : ℚ) = (10 ^ 34 + 21) * (10 : ℚ) ^ 6111 := by
    unfold D4; rw [Nat.cast_mul, Nat.cast_pow]; norm_num
  have hp : (10 : ℚ) ^ (-6176 : Int) = 1 / ((10 : ℚ) ^ 6111 * 10 ^ 65) := by
    rw [← pow_add, zpow_neg, one_div]; rfl
  have hX0 : (0 : ℚ) < (10 : ℚ) ^ 6111 := by positivity
  have h33 : (10 : ℚ) ^ (-33 : Int) = 1 / 10 ^ 33 := by norm_num
  rw [hX, hp, h33]
  generalize (10 : ℚ) ^ 6111 = Y at *
  have e2 : ((230000000000000000000000000000000 : Nat) : ℚ) * (1 / (Y * 10 ^ 65)) -
      23 / ((10 ^ 34 + 21) * Y) = 21 / 10 * (1 / 10 ^ 33) * (23 / ((10 ^ 34 + 21) * Y)) := by
    push_cast; field_simp; norm_num
  rw [e2, abs_of_pos (by positivity)]

/-! ## 3. numerator or denominator beyond the Decimal range -/

set_option exponentiation.threshold 30000

def rBig : ℚ := (((10 ^ 6146 : Nat) : Int) : ℚ) / (((3 ^ 200 : Nat) : Int) : ℚ)

theorem cop_10_3 : Nat.Coprime (10 ^ 6146) (3 ^ 200) := Nat.Coprime.pow _ _ (by decide)

theorem rBig_num : rBig.num = ((10 ^ 6146 : Nat) : Int) :=
  Rat.num_div_eq_of_coprime (by positivity) (by rw [Int.natAbs_natCast, Int.natAbs_natCast]; exact cop_10_3)
theorem rBig_den : rBig.den = 3 ^ 200 :=
  Int.natCast_inj.1 (Rat.den_div_eq_of_coprime (a := ((10 ^ 6146 : Nat) : Int)) (b := ((3 ^ 200 : Nat) : Int))
    (by positivity) (by rw [Int.natAbs_natCast, Int.natAbs_natCast]; exact cop_10_3))

theorem pow10_6146_ge : ((Spec.Cmax : ℚ) + 1) * (10 : ℚ) ^ Spec.Emax ≤ ((10 ^ 6146 : Nat) : ℚ) := by
  rw [← max_cast]
  have : (Spec.Cmax + 1) * 10 ^ 6111 ≤ 10 ^ 6146 := by
    calc (Spec.Cmax + 1) * 10 ^ 6111 ≤ 10 ^ 35 * 10 ^ 6111 :=
          Nat.mul_le_mul_right _ (by have := Cmax_upper; omega)
      _ = 10 ^ 6146 := by rw [← Nat.pow_add]
  exact_mod_cast this

theorem bitLen_10_6146 : Go.Big.bitLen (10 ^ 6146) < 2 ^ 63 :=
  bitLen_lt_of_lt (L := 4 * 6146 + 1)
    (lt_of_le_of_lt (pow10_le_pow2 _) (Nat.pow_lt_pow_right (by decide) (by omega))) (by norm_num)

/-- **numerator beyond the range.**  `r = 10^6146/3^200 ≈ 3.8e6050` is far inside the Decimal range, but
    its numerator `10^6146` exceeds the largest Decimal: `FromInt` returns `+Inf` and `FromRat r` is not
    finite (it is `+Inf`), in every mode. -/
theorem cex_num_overflow (g : Globals) (m : Spec.Mode)
    (hm : Spec.Mode.ofNat? g.DefaultRoundingMode.toNat = some m) :
    ∃ d, Gen.FromRat g rBig = .ok d ∧ (𝔳[d]).isFin = false := by
  have hne : rBig ≠ 0 := by
    intro h; have := rBig_num; rw [h] at this
    have h2 : (0 : Int) < ((10 ^ 6146 : Nat) : Int) := by positivity
    rw [← this] at h2; exact absurd h2 (by simp)
  refine FromRat_num_overflow g rBig m hm ?_ ?_ hne ?_
  · rw [rBig_num, Int.natAbs_natCast]; exact bitLen_10_6146
  · rw [rBig_den]; exact bitLen_lt_of_lt (L := 400) (by decide +kernel) (by norm_num)
  · rw [rBig_num, Int.natAbs_natCast, roundTo_inf_of_ge m _ _ pow10_6146_ge]; rfl

def rSmall : ℚ := (((3 ^ 200 : Nat) : Int) : ℚ) / (((10 ^ 6146 : Nat) : Int) : ℚ)

theorem rSmall_num : rSmall.num = ((3 ^ 200 : Nat) : Int) :=
  Rat.num_div_eq_of_coprime (by positivity)
    (by rw [Int.natAbs_natCast, Int.natAbs_natCast]; exact cop_10_3.symm)
theorem rSmall_den : rSmall.den = 10 ^ 6146 :=
  Int.natCast_inj.1 (Rat.den_div_eq_of_coprime (a := ((3 ^ 200 : Nat) : Int)) (b := ((10 ^ 6146 : Nat) : Int))
    (by positivity) (by rw [Int.natAbs_natCast, Int.natAbs_natCast]; exact cop_10_3.symm))

/-- **denominator beyond the range.**  `r = 3^200/10^6146 ≈ 2.7e-6051`, far inside the range, comes back
    as `0` (relative error 1): the denominator became `+Inf`. -/
theorem cex_den_overflow (g : Globals) (m : Spec.Mode)
    (hm : Spec.Mode.ofNat? g.DefaultRoundingMode.toNat = some m) :
    ∃ d, Gen.FromRat g rSmall = .ok d ∧ (𝔳[d]).toRat = 0 ∧ |(𝔳[d]).toRat - rSmall| = |rSmall| := by
  have hne : rSmall ≠ 0 := by
    intro h; have := rSmall_num; rw [h] at this
    have h2 : (0 : Int) < ((3 ^ 200 : Nat) : Int) := by positivity
    rw [← this] at h2; exact absurd h2 (by simp)
  refine FromRat_den_overflow g rSmall m hm ?_ ?_ hne ?_ ?_
  · rw [rSmall_num, Int.natAbs_natCast]; exact bitLen_lt_of_lt (L := 400) (by decide +kernel) (by norm_num)
  · rw [rSmall_den]; exact bitLen_10_6146
  · rw [rSmall_num, Int.natAbs_natCast]
    have h3 : ((3 ^ 200 : Nat) : ℚ) ≤ (Spec.Cmax : ℚ) * (10 : ℚ) ^ Spec.Emax := by
      have h1 : ((3 ^ 200 : Nat) : ℚ) ≤ (((Spec.Cmax) * 10 ^ 6111 : Nat) : ℚ) := by
        have : 3 ^ 200 ≤ Spec.Cmax * 10 ^ 6111 := by
          calc 3 ^ 200 ≤ 10 ^ 200 := Nat.pow_le_pow_left (by norm_num) _
            _ ≤ 10 ^ 6111 := Nat.pow_le_pow_right (by norm_num) (by norm_num)
            _ ≤ Spec.Cmax * 10 ^ 6111 := Nat.le_mul_of_pos_left _ (by unfold Spec.Cmax; norm_num)
        exact_mod_cast this
      have h2 : (((Spec.Cmax) * 10 ^ 6111 : Nat) : ℚ) = (Spec.Cmax : ℚ) * (10 : ℚ) ^ Spec.Emax := by
        have : Spec.Emax = ((6111 : Nat) : Int) := rfl
        rw [this, zpow_natCast, Nat.cast_mul, Nat.cast_pow, Nat.cast_ofNat]
      rw [← h2]; exact h1
    obtain ⟨c, e, h, -⟩ := roundTo_fin_of_le_max m (decide (((3 ^ 200 : Nat) : Int) < 0)) (by positivity) h3
    exact isFin_of_fin h
  · rw [rSmall_den, roundTo_inf_of_ge m _ _ pow10_6146_ge]; rfl

/-! ## 4. the threshold `(Cmax+½)·10^Emax` of the nearest modes is sharp -/

/-- `T = (Cmax+½)·10^Emax = (10·2^111 − 1)·5·10^6110`, an integer -/
def T : Nat := (10 * 2 ^ 111 - 1) * 5 * 10 ^ 6110

theorem T_cast : (T : ℚ) = ((Spec.Cmax : ℚ) + 1 / 2) * (10 : ℚ) ^ Spec.Emax := by
  have hE : Spec.Emax = ((6110 : Nat) : Int) + 1 := rfl
  have hC : (Spec.Cmax : ℚ) = 10 * 2 ^ 110 - 1 := by
    have := Cmax_succ
    have h2 : ((Spec.Cmax + 1 : Nat) : ℚ) = ((10 * 2 ^ 110 : Nat) : ℚ) := by rw [this]
    push_cast at h2; linarith
  have hT : (T : ℚ) = (10 * 2 ^ 111 - 1) * 5 * (10 : ℚ) ^ 6110 := by
    unfold T
    rw [Nat.cast_mul, Nat.cast_mul, Nat.cast_pow, Nat.cast_sub (by norm_num)]
    norm_num
  rw [hT, hE, zpow_add_one₀ (by norm_num), zpow_natCast, hC]
  generalize (10 : ℚ) ^ 6110 = X
  ring

def rT : ℚ := (((T : Nat) : Int) : ℚ) / (((3 : Nat) : Int) : ℚ)

theorem T_coprime : Nat.Coprime T 3 := by decide +kernel

theorem rT_num : rT.num = ((T : Nat) : Int) :=
  Rat.num_div_eq_of_coprime (by norm_num) (by rw [Int.natAbs_natCast, Int.natAbs_natCast]; exact T_coprime)
theorem rT_den : rT.den = 3 :=
  Int.natCast_inj.1 (Rat.den_div_eq_of_coprime (a := ((T : Nat) : Int)) (b := ((3 : Nat) : Int))
    (by norm_num) (by rw [Int.natAbs_natCast, Int.natAbs_natCast]; exact T_coprime))

/-- **at the threshold.**  `r = T/3 ≈ 4.3e6144` (representable), numerator exactly `(Cmax+½)·10^Emax`: in a
    nearest mode the numerator rounds to `+Inf` and `FromRat r` is not finite. -/
theorem cex_threshold (g : Globals) (m : Spec.Mode)
    (hm : Spec.Mode.ofNat? g.DefaultRoundingMode.toNat = some m) (hnear : isNearest m = true) :
    ∃ d, Gen.FromRat g rT = .ok d ∧ (𝔳[d]).isFin = false := by
  have hTpos : 0 < T := by unfold T; positivity
  have hne : rT ≠ 0 := by
    intro h; have := rT_num; rw [h] at this
    have h2 : (0 : Int) < ((T : Nat) : Int) := by exact_mod_cast hTpos
    rw [← this] at h2; exact absurd h2 (by simp)
  have hTq : (0 : ℚ) < (T : ℚ) := by exact_mod_cast hTpos
  have hlt : (T : ℚ) < ((Spec.Cmax : ℚ) + 1) * (10 : ℚ) ^ Spec.Emax := by
    rw [T_cast]
    exact mul_lt_mul_of_pos_right (by linarith) (zpow_pos (by norm_num) _)
  refine FromRat_num_overflow g rT m hm ?_ ?_ hne ?_
  · rw [rT_num, Int.natAbs_natCast]; exact bitLen_of_lt_max hlt
  · rw [rT_den]; exact bitLen_lt_of_lt (L := 2) (by decide) (by norm_num)
  · rw [rT_num, Int.natAbs_natCast,
      (roundTo_nearest_inf_iff hnear _ hTq).2 (le_of_eq T_cast.symm)]; rfl

def rT1 : ℚ := (((T - 1 : Nat) : Int) : ℚ) / (((3 : Nat) : Int) : ℚ)

theorem T1_coprime : Nat.Coprime (T - 1) 3 := by decide +kernel

theorem rT1_num : rT1.num = ((T - 1 : Nat) : Int) :=
  Rat.num_div_eq_of_coprime (by norm_num) (by rw [Int.natAbs_natCast, Int.natAbs_natCast]; exact T1_coprime)
theorem rT1_den : rT1.den = 3 :=
  Int.natCast_inj.1 (Rat.den_div_eq_of_coprime (a := ((T - 1 : Nat) : Int)) (b := ((3 : Nat) : Int))
    (by norm_num) (by rw [Int.natAbs_natCast, Int.natAbs_natCast]; exact T1_coprime))

/-- … while one less is fine: the hypotheses of `FromRat_bound_nearest` hold for `(T−1)/3` -/
theorem ex_below_threshold (g : Globals) (hg : g.DefaultRoundingMode = 0) :
    ∃ d, Gen.FromRat g rT1 = .ok d ∧ (𝔳[d]).isFin = true ∧
      |(𝔳[d]).toRat - rT1| ≤ 8 / 10 * (10 : ℚ) ^ (-33 : Int) * |rT1| +
        max ((10 : ℚ) ^ Spec.Emin / 2) (4 / 10 * (10 : ℚ) ^ (-33 : Int) * |rT1|) := by
  have hTpos : 0 < T := by unfold T; positivity
  refine FromRat_bound_nearest g rT1 .nearestEven (by rw [hg]; rfl) rfl ?_ ?_
  · rw [rT1_num, Int.natAbs_natCast, ← T_cast]
    have : T - 1 < T := by omega
    exact_mod_cast this
  · rw [rT1_den, ← T_cast]
    have : 3 < T := by
      unfold T
      calc 3 < (10 * 2 ^ 111 - 1) * 5 * 1 := by norm_num
        _ ≤ (10 * 2 ^ 111 - 1) * 5 * 10 ^ 6110 := Nat.mul_le_mul_left _ (Nat.one_le_pow _ _ (by norm_num))
    exact_mod_cast this

end FromRatBound
