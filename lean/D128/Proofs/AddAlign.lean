/-
  D128/Proofs/AddAlign.lean — the truncation ladder of `Gen.Decimal.add` (both halves): dividing the
  operand with the smaller exponent by `10^n` with a sticky flag.

  Provided (namespace `AD`):
  * `TS tv b0 n0 sig n trunc` : truncation state — `sig = ⌊b0/10^(n0-n)⌋`, `n` digits still to drop, the
                                sticky flag is `tv` iff a non-zero digit has been dropped (else `0`)
  * `ts_step_div`, `ts_step_mod`, `ts_zero` : arithmetic of one step
  * `DivSpec`, `divStep_TS`   : one rung `divStep` (D128/Proofs/AddCode.lean) on a `TS` state
  * `stepL_spec`, `stepR_spec`: one `if exp <= -j {…}` / `if exp >= j {…}` statement
  * `i16_add`, `i16_sub`, `i16_le_iff`, `i16_lt_iff`, `i16_ge_iff`, `i16_gt_iff` : `Int16` helpers
  * `loopL_spec`, `loopR_spec`: the final `for exp < 0 {…}` / `for exp > 0 {…}` loops
  * `ladderL8_spec`, `ladderR8_spec` : the four `if` statements and the loop from any truncation state
  * `ladderL_spec`, `ladderR_spec` : from `if exp < -maxDigits` on: the continuation is applied to
                                `⌊b0/10^n0⌋`, the sticky flag `b0 % 10^n0 ≠ 0` (and `dExp = oExp`)
-/
import D128.Proofs.AddCode
import D128.Proofs.RoundKernelReduceCode
import D128.Proofs.Specials

set_option autoImplicit false
set_option maxRecDepth 4096
set_option linter.unusedVariables false

namespace AD
open Gen

/-! ## arithmetic of the truncation state -/

/-- truncation state: `sig = ⌊b0/10^(n0-n)⌋` with `n` digits still to drop; the sticky flag is `tv`
    iff a non-zero digit has been dropped -/
def TS (tv : Int8) (b0 n0 : Nat) (sig : U128) (n : Nat) (trunc : Int8) : Prop :=
  n ≤ n0 ∧ sig.toNat = b0 / 10 ^ (n0 - n) ∧ trunc = if b0 % 10 ^ (n0 - n) ≠ 0 then tv else 0

theorem ts_step_div (b0 p j : Nat) : b0 / 10 ^ p / 10 ^ j = b0 / 10 ^ (p + j) := by
  rw [Nat.div_div_eq_div_mul, pow_add]

theorem ts_step_mod (b0 p j : Nat) :
    b0 % 10 ^ (p + j) ≠ 0 ↔ (b0 % 10 ^ p ≠ 0 ∨ b0 / 10 ^ p % 10 ^ j ≠ 0) := by
  rw [pow_add, Nat.mod_mul]
  have hp : 0 < 10 ^ p := by positivity
  constructor
  · intro h
    by_contra hc
    rw [not_or, not_not, not_not] at hc
    rw [hc.1, hc.2] at h
    simp at h
  · intro h hc
    have h1 : b0 % 10 ^ p = 0 := by omega
    have h2 : 10 ^ p * (b0 / 10 ^ p % 10 ^ j) = 0 := by omega
    rcases Nat.mul_eq_zero.1 h2 with h3 | h3
    · omega
    · rcases h with h | h
      · exact h h1
      · exact h h3

theorem ts_zero (b0 p n0 : Nat) (hb0 : 0 < b0) (hp : p ≤ n0) (hz : b0 / 10 ^ p = 0) :
    b0 / 10 ^ n0 = 0 ∧ b0 % 10 ^ n0 ≠ 0 := by
  have hlt : b0 < 10 ^ p := by
    rcases Nat.div_eq_zero_iff.1 hz with h | h
    · have : 0 < 10 ^ p := by positivity
      omega
    · exact h
  have hle : 10 ^ p ≤ 10 ^ n0 := Nat.pow_le_pow_right (by norm_num) hp
  have hlt' : b0 < 10 ^ n0 := by omega
  exact ⟨Nat.div_eq_of_lt hlt', by rw [Nat.mod_eq_of_lt hlt']; omega⟩

/-- a division routine by the constant `D` -/
def DivSpec (dv : U128 → Go.GoM (U128 × UInt64)) (D : Nat) : Prop :=
  ∀ n : U128, ∃ q r, dv n = .ok (q, r) ∧ q.toNat = n.toNat / D ∧ r.toNat = n.toNat % D

theorem divSpec_10 : DivSpec U128.div10 (10 ^ 1) := fun n => by simpa using U128_div10_spec n
theorem divSpec_100 : DivSpec U128.div100 (10 ^ 2) := fun n => by simpa using U128_div100_spec n
theorem divSpec_1000 : DivSpec U128.div1000 (10 ^ 3) := fun n => by simpa using U128_div1000_spec n
theorem divSpec_10000 : DivSpec U128.div10000 (10 ^ 4) := fun n => by simpa using U128_div10000_spec n
theorem divSpec_1e8 : DivSpec U128.div1e8 (10 ^ 8) := fun n => U128_div1e8_spec n

theorem isZ_iff (s : U128) : ((s.w0 ||| s.w1) == (0 : UInt64)) = true ↔ s.toNat = 0 := by
  rw [Sp.or_beq_zero]; simp

/-- one rung of the ladder on a truncation state: the continuation that is taken receives a
    truncation state again -/
theorem divStep_TS {α : Type} (dv : U128 → Go.GoM (U128 × UInt64)) (j : Nat) (hdv : DivSpec dv (10 ^ j))
    (c : Bool) (tv : Int8) (b0 n0 : Nat) (hb0 : 0 < b0) (s : U128) (n : Nat) (trunc : Int8)
    (h : TS tv b0 n0 s n trunc) (hc : c = true → j ≤ n)
    (kz ks : U128 → Int8 → Go.GoM α) (kn : Go.GoM α) :
    ∃ q t n', TS tv b0 n0 q n' t ∧
      ((c = true ∧ q.toNat = 0 ∧ n' = 0 ∧ divStep dv c tv s trunc kz ks kn = kz q t) ∨
       (c = true ∧ q.toNat ≠ 0 ∧ n' = n - j ∧ divStep dv c tv s trunc kz ks kn = ks q t) ∨
       (c = false ∧ q = s ∧ t = trunc ∧ n' = n ∧ divStep dv c tv s trunc kz ks kn = kn)) := by
  obtain ⟨hn, hs, ht⟩ := h
  cases c with
  | false => exact ⟨s, trunc, n, ⟨hn, hs, ht⟩, Or.inr (Or.inr ⟨rfl, rfl, rfl, rfl, by simp [divStep]⟩)⟩
  | true =>
    have hj : j ≤ n := hc rfl
    obtain ⟨q, r, e, hq, hr⟩ := hdv s
    have hpj : n0 - (n - j) = (n0 - n) + j := by omega
    have hq' : q.toNat = b0 / 10 ^ (n0 - (n - j)) := by rw [hq, hs, ts_step_div, hpj]
    -- the new sticky flag
    have htn : (if (r != 0) = true then tv else trunc)
        = if b0 % 10 ^ (n0 - (n - j)) ≠ 0 then tv else 0 := by
      rw [hpj]
      have hmod := ts_step_mod b0 (n0 - n) j
      rw [RK.u64_ne_zero_iff, hr, hs]
      by_cases h1 : b0 / 10 ^ (n0 - n) % 10 ^ j ≠ 0
      · rw [if_pos (by simpa using h1), if_pos (hmod.2 (Or.inr h1))]
      · rw [if_neg (by simpa using h1), ht]
        by_cases h2 : b0 % 10 ^ (n0 - n) ≠ 0
        · rw [if_pos h2, if_pos (hmod.2 (Or.inl h2))]
        · rw [if_neg h2, if_neg]
          intro h3
          rcases hmod.1 h3 with h4 | h4
          · exact h2 h4
          · exact h1 h4
    have hev : divStep dv true tv s trunc kz ks kn =
        if (q.w0 ||| q.w1 == 0) = true then kz q (if (r != 0) = true then tv else trunc)
        else ks q (if (r != 0) = true then tv else trunc) := by
      simp only [divStep, if_true, e, RK.ok_bind]
      by_cases hr0 : (r != 0) = true
      · simp only [hr0, if_true]
      · simp only [hr0]; rfl
    by_cases hz : q.toNat = 0
    · -- the significand has run out: report the state at `n' = 0`
      have hz' := ts_zero b0 (n0 - (n - j)) n0 hb0 (by omega) (by rw [← hq']; exact hz)
      refine ⟨q, (if (r != 0) = true then tv else trunc), 0, ⟨by omega, ?_, ?_⟩,
        Or.inl ⟨rfl, hz, rfl, ?_⟩⟩
      · rw [hz, Nat.sub_zero, hz'.1]
      · rw [htn, Nat.sub_zero, if_pos hz'.2, if_pos]
        intro h0
        have : b0 / 10 ^ (n0 - (n - j)) = 0 := by rw [← hq']; exact hz
        have hlt : b0 < 10 ^ (n0 - (n - j)) := by
          rcases Nat.div_eq_zero_iff.1 this with h | h
          · have : 0 < 10 ^ (n0 - (n - j)) := by positivity
            omega
          · exact h
        rw [Nat.mod_eq_of_lt hlt] at h0
        omega
      · rw [hev, if_pos ((isZ_iff q).2 hz)]
    · refine ⟨q, (if (r != 0) = true then tv else trunc), n - j, ⟨by omega, hq', htn⟩,
        Or.inr (Or.inl ⟨rfl, hz, rfl, ?_⟩)⟩
      rw [hev, if_neg (fun h => hz ((isZ_iff q).1 h))]

/-! ## `Int16` helpers -/

theorem i16_add (a b : Int16) (h0 : -32768 ≤ a.toInt + b.toInt) (h1 : a.toInt + b.toInt < 32768) :
    (a + b).toInt = a.toInt + b.toInt := Int16.toInt_add_of a b h0 h1

theorem i16_sub (a b : Int16) (h0 : -32768 ≤ a.toInt - b.toInt) (h1 : a.toInt - b.toInt < 32768) :
    (a - b).toInt = a.toInt - b.toInt := Int16.toInt_sub_of a b h0 h1

theorem i16_le_iff (a k : Int16) : decide (a ≤ k) = true ↔ a.toInt ≤ k.toInt := by
  rw [decide_eq_true_eq, Int16.le_iff_toInt_le]

theorem i16_lt_iff (a k : Int16) : decide (a < k) = true ↔ a.toInt < k.toInt := by
  rw [decide_eq_true_eq, Int16.lt_iff_toInt_lt]

theorem i16_ge_iff (a k : Int16) : decide (a ≥ k) = true ↔ k.toInt ≤ a.toInt := by
  rw [decide_eq_true_eq, ge_iff_le, Int16.le_iff_toInt_le]

theorem i16_gt_iff (a k : Int16) : decide (a > k) = true ↔ k.toInt < a.toInt := by
  rw [decide_eq_true_eq, gt_iff_lt, Int16.lt_iff_toInt_lt]

/-! ## one statement of the ladder -/

/-- `if exp <= -j { dSig, rem = dSig.divJ(); … }` of the half `exp < 0`: the next statement starts in
    a truncation state again (`exp = -n`, `dExp = oExp - n`) -/
theorem stepL_spec {α : Type} (dv : U128 → Go.GoM (U128 × UInt64)) (j : Nat) (hdv : DivSpec dv (10 ^ j))
    (jj : Int16) (hjj : jj.toInt = j) (hj : j ≤ 8) (c : Bool) (oExp : Int16)
    (next : U128 → Int16 → Int16 → Int8 → Go.GoM α) (b0 n0 : Nat) (hb0 : 0 < b0) (hn0 : n0 ≤ 12287)
    (ho0 : 0 ≤ oExp.toInt) (ho1 : oExp.toInt ≤ 12287)
    (dSig : U128) (dExp exp : Int16) (trunc : Int8) (n : Nat)
    (h : TS 1 b0 n0 dSig n trunc) (hexp : exp.toInt = -(n : Int)) (hdE : dExp.toInt = oExp.toInt - n)
    (hc : c = true → j ≤ n) :
    ∃ dS' dE' x' t' n', TS 1 b0 n0 dS' n' t' ∧ x'.toInt = -(n' : Int) ∧ dE'.toInt = oExp.toInt - n' ∧
      stepL dv c jj oExp next dSig dExp exp trunc = next dS' dE' x' t' := by
  have hnn : n ≤ n0 := h.1
  obtain ⟨q, t, n', hTS, hcase⟩ := divStep_TS dv j hdv c 1 b0 n0 hb0 dSig n trunc h hc
    (fun q t => next q oExp 0 t) (fun q t => next q (dExp + jj) (exp + jj) t) (next dSig dExp exp trunc)
  unfold stepL
  rcases hcase with ⟨hct, _, hn', e⟩ | ⟨hct, _, hn', e⟩ | ⟨_, hq, ht, hn', e⟩
  · refine ⟨q, oExp, 0, t, n', hTS, ?_, ?_, e⟩
    · rw [hn']; rfl
    · rw [hn']; simp
  · have hjn := hc hct
    refine ⟨q, dExp + jj, exp + jj, t, n', hTS, ?_, ?_, e⟩
    · rw [i16_add _ _ (by omega) (by omega), hexp, hjj, hn']; omega
    · rw [i16_add _ _ (by omega) (by omega), hdE, hjj, hn']; omega
  · refine ⟨dSig, dExp, exp, trunc, n, h, hexp, hdE, e⟩

/-- `if exp >= j { oSig, rem = oSig.divJ(); … }` of the half `exp > 0` -/
theorem stepR_spec {α : Type} (dv : U128 → Go.GoM (U128 × UInt64)) (j : Nat) (hdv : DivSpec dv (10 ^ j))
    (jj : Int16) (hjj : jj.toInt = j) (hj : j ≤ 8) (c : Bool)
    (next : U128 → Int16 → Int8 → Go.GoM α) (b0 n0 : Nat) (hb0 : 0 < b0) (hn0 : n0 ≤ 12287)
    (oSig : U128) (exp : Int16) (trunc : Int8) (n : Nat)
    (h : TS (-1) b0 n0 oSig n trunc) (hexp : exp.toInt = (n : Int)) (hc : c = true → j ≤ n) :
    ∃ oS' x' t' n', TS (-1) b0 n0 oS' n' t' ∧ x'.toInt = (n' : Int) ∧
      stepR dv c jj next oSig exp trunc = next oS' x' t' := by
  have hnn : n ≤ n0 := h.1
  obtain ⟨q, t, n', hTS, hcase⟩ := divStep_TS dv j hdv c (-1) b0 n0 hb0 oSig n trunc h hc
    (fun q t => next q 0 t) (fun q t => next q (exp - jj) t) (next oSig exp trunc)
  unfold stepR
  rcases hcase with ⟨hct, _, hn', e⟩ | ⟨hct, _, hn', e⟩ | ⟨_, hq, ht, hn', e⟩
  · refine ⟨q, 0, t, n', hTS, ?_, e⟩
    rw [hn']; rfl
  · have hjn := hc hct
    refine ⟨q, exp - jj, t, n', hTS, ?_, e⟩
    rw [i16_sub _ _ (by omega) (by omega), hexp, hjj, hn']; omega
  · exact ⟨oSig, exp, trunc, n, h, hexp, e⟩

/-! ## the final loops -/

theorem loopL_spec (oExp : Int16) (b0 n0 : Nat) (hb0 : 0 < b0) (hn0 : n0 ≤ 12287)
    (ho0 : 0 ≤ oExp.toInt) (ho1 : oExp.toInt ≤ 12287) (s : SL) (n : Nat)
    (h : TS 1 b0 n0 s.1 n s.2.2.2) (hexp : s.2.2.1.toInt = -(n : Int))
    (hdE : s.2.1.toInt = oExp.toInt - n) :
    ∃ s' : SL, forIn (m := Go.GoM) Lean.Loop.mk s (loopLBody oExp) = .ok s' ∧
      s'.1.toNat = b0 / 10 ^ n0 ∧ s'.2.2.2 = (if b0 % 10 ^ n0 ≠ 0 then 1 else 0) ∧ s'.2.1 = oExp := by
  apply RK.loop_inv (loopLBody oExp)
    (fun s : SL => ∃ n : Nat, TS 1 b0 n0 s.1 n s.2.2.2 ∧ s.2.2.1.toInt = -(n : Int) ∧
      s.2.1.toInt = oExp.toInt - n)
    (fun s' : SL => s'.1.toNat = b0 / 10 ^ n0 ∧ s'.2.2.2 = (if b0 % 10 ^ n0 ≠ 0 then 1 else 0) ∧
      s'.2.1 = oExp)
    (fun s : SL => (-s.2.2.1.toInt).toNat) _ s ⟨n, h, hexp, hdE⟩
  intro b ⟨n, h, hexp, hdE⟩
  have hnn : n ≤ n0 := h.1
  have hc : decide (b.2.2.1 < 0) = true → 1 ≤ n := by
    rw [i16_lt_iff, hexp]; intro h0
    have : (0 : Int16).toInt = 0 := rfl
    omega
  obtain ⟨q, t, n', hTS, hcase⟩ := divStep_TS U128.div10 1 divSpec_10 (decide (b.2.2.1 < 0)) 1 b0 n0 hb0
    b.1 n b.2.2.2 h hc
    (fun q t => pure (ForInStep.done (q, oExp, b.2.2.1, t)))
    (fun q t => pure (ForInStep.yield (q, b.2.1 + 1, b.2.2.1 + 1, t)))
    (pure (ForInStep.done (b.1, b.2.1, b.2.2.1, b.2.2.2)))
  have h1 : (1 : Int16).toInt = 1 := rfl
  rcases hcase with ⟨hct, _, hn', e⟩ | ⟨hct, _, hn', e⟩ | ⟨hcf, hq, ht, hn', e⟩
  · right
    refine ⟨(q, oExp, b.2.2.1, t), e, ?_, ?_, rfl⟩
    · have := hTS.2.1; rw [hn', Nat.sub_zero] at this; exact this
    · have := hTS.2.2; rw [hn', Nat.sub_zero] at this; exact this
  · left
    have hjn := hc hct
    refine ⟨(q, b.2.1 + 1, b.2.2.1 + 1, t), e, ⟨n', hTS, ?_, ?_⟩, ?_⟩
    · show (b.2.2.1 + 1).toInt = _
      rw [i16_add _ _ (by omega) (by omega), hexp, h1, hn']; omega
    · show (b.2.1 + 1).toInt = _
      rw [i16_add _ _ (by omega) (by omega), hdE, h1, hn']; omega
    · show (-(b.2.2.1 + 1).toInt).toNat < (-b.2.2.1.toInt).toNat
      rw [i16_add _ _ (by omega) (by omega), hexp, h1]; omega
  · right
    have hn00 : n = 0 := by
      have : ¬ (b.2.2.1.toInt < (0 : Int16).toInt) := by
        rw [← i16_lt_iff]; simp [hcf]
      have h0 : (0 : Int16).toInt = 0 := rfl
      omega
    refine ⟨(b.1, b.2.1, b.2.2.1, b.2.2.2), e, ?_, ?_, ?_⟩
    · have := h.2.1; rw [hn00, Nat.sub_zero] at this; exact this
    · have := h.2.2; rw [hn00, Nat.sub_zero] at this; exact this
    · apply Int16.toInt_inj.1
      show b.2.1.toInt = oExp.toInt
      rw [hdE, hn00]; simp

theorem loopR_spec (b0 n0 : Nat) (hb0 : 0 < b0) (hn0 : n0 ≤ 12287) (s : SR) (n : Nat)
    (h : TS (-1) b0 n0 s.1 n s.2.2) (hexp : s.2.1.toInt = (n : Int)) :
    ∃ s' : SR, forIn (m := Go.GoM) Lean.Loop.mk s loopRBody = .ok s' ∧
      s'.1.toNat = b0 / 10 ^ n0 ∧ s'.2.2 = (if b0 % 10 ^ n0 ≠ 0 then -1 else 0) := by
  apply RK.loop_inv loopRBody
    (fun s : SR => ∃ n : Nat, TS (-1) b0 n0 s.1 n s.2.2 ∧ s.2.1.toInt = (n : Int))
    (fun s' : SR => s'.1.toNat = b0 / 10 ^ n0 ∧ s'.2.2 = (if b0 % 10 ^ n0 ≠ 0 then -1 else 0))
    (fun s : SR => s.2.1.toInt.toNat) _ s ⟨n, h, hexp⟩
  intro b ⟨n, h, hexp⟩
  have hnn : n ≤ n0 := h.1
  have h0 : (0 : Int16).toInt = 0 := rfl
  have hc : decide (b.2.1 > 0) = true → 1 ≤ n := by
    rw [i16_gt_iff, hexp]; intro h0
    omega
  obtain ⟨q, t, n', hTS, hcase⟩ := divStep_TS U128.div10 1 divSpec_10 (decide (b.2.1 > 0)) (-1) b0 n0 hb0
    b.1 n b.2.2 h hc
    (fun q t => pure (ForInStep.done (q, b.2.1, t)))
    (fun q t => pure (ForInStep.yield (q, b.2.1 - 1, t)))
    (pure (ForInStep.done (b.1, b.2.1, b.2.2)))
  have h1 : (1 : Int16).toInt = 1 := rfl
  rcases hcase with ⟨hct, _, hn', e⟩ | ⟨hct, _, hn', e⟩ | ⟨hcf, hq, ht, hn', e⟩
  · right
    refine ⟨(q, b.2.1, t), e, ?_, ?_⟩
    · have := hTS.2.1; rw [hn', Nat.sub_zero] at this; exact this
    · have := hTS.2.2; rw [hn', Nat.sub_zero] at this; exact this
  · left
    have hjn := hc hct
    refine ⟨(q, b.2.1 - 1, t), e, ⟨n', hTS, ?_⟩, ?_⟩
    · show (b.2.1 - 1).toInt = _
      rw [i16_sub _ _ (by omega) (by omega), hexp, h1, hn']; omega
    · show (b.2.1 - 1).toInt.toNat < b.2.1.toInt.toNat
      rw [i16_sub _ _ (by omega) (by omega), hexp, h1]; omega
  · right
    have hn00 : n = 0 := by
      have : ¬ ((0 : Int16).toInt < b.2.1.toInt) := by
        rw [← i16_gt_iff]; simp [hcf]
      omega
    refine ⟨(b.1, b.2.1, b.2.2), e, ?_, ?_⟩
    · have := h.2.1; rw [hn00, Nat.sub_zero] at this; exact this
    · have := h.2.2; rw [hn00, Nat.sub_zero] at this; exact this

/-! ## the whole ladder of a half -/

theorem default_toNat : (default : U128).toNat = 0 := rfl

/-- the ladder after `if exp < -maxDigits {…}` from any truncation state -/
theorem ladderL8_spec {α : Type} (K : U128 → Int16 → Int8 → Go.GoM α) (oExp : Int16) (b0 n0 : Nat)
    (hb0 : 0 < b0) (hn0 : n0 ≤ 12287) (ho0 : 0 ≤ oExp.toInt) (ho1 : oExp.toInt ≤ 12287)
    (dSig : U128) (dExp exp : Int16) (trunc : Int8) (n : Nat)
    (h : TS 1 b0 n0 dSig n trunc) (hexp : exp.toInt = -(n : Int)) (hdE : dExp.toInt = oExp.toInt - n) :
    ∃ dS' t', dS'.toNat = b0 / 10 ^ n0 ∧ t' = (if b0 % 10 ^ n0 ≠ 0 then (1 : Int8) else 0) ∧
      stepL U128.div1e8 (decide (exp ≤ -8)) 8 oExp (fun dSig dExp exp trunc =>
      stepL U128.div10000 (decide (exp ≤ -4)) 4 oExp (fun dSig dExp exp trunc =>
      stepL U128.div1000 (decide (exp ≤ -3)) 3 oExp (fun dSig dExp exp trunc =>
      stepL U128.div100 (decide (exp ≤ -2)) 2 oExp (fun dSig dExp exp trunc => do
        let s ← forIn Lean.Loop.mk (dSig, dExp, exp, trunc) (loopLBody oExp)
        K s.1 s.2.1 s.2.2.2) dSig dExp exp trunc) dSig dExp exp trunc) dSig dExp exp trunc)
        dSig dExp exp trunc = K dS' oExp t' := by
  have hcond : ∀ (x : Int16) (m : Nat) (k : Int16) (j : Nat), x.toInt = -(m : Int) → k.toInt = -(j : Int) →
      decide (x ≤ k) = true → j ≤ m := by
    intro x m k j hx hk
    rw [i16_le_iff, hx, hk]; omega
  obtain ⟨s1, e1, x1, t1, n1, hT1, hx1, he1, eq1⟩ := stepL_spec U128.div1e8 8 divSpec_1e8 8 rfl (by omega)
    (decide (exp ≤ -8)) oExp (fun dSig dExp exp trunc =>
      stepL U128.div10000 (decide (exp ≤ -4)) 4 oExp (fun dSig dExp exp trunc =>
      stepL U128.div1000 (decide (exp ≤ -3)) 3 oExp (fun dSig dExp exp trunc =>
      stepL U128.div100 (decide (exp ≤ -2)) 2 oExp (fun dSig dExp exp trunc => do
        let s ← forIn Lean.Loop.mk (dSig, dExp, exp, trunc) (loopLBody oExp)
        K s.1 s.2.1 s.2.2.2) dSig dExp exp trunc) dSig dExp exp trunc) dSig dExp exp trunc)
    b0 n0 hb0 hn0 ho0 ho1 dSig dExp exp trunc n h hexp hdE (hcond exp n (-8) 8 hexp rfl)
  rw [eq1]
  obtain ⟨s2, e2, x2, t2, n2, hT2, hx2, he2, eq2⟩ := stepL_spec U128.div10000 4 divSpec_10000 4 rfl (by omega)
    (decide (x1 ≤ -4)) oExp (fun dSig dExp exp trunc =>
      stepL U128.div1000 (decide (exp ≤ -3)) 3 oExp (fun dSig dExp exp trunc =>
      stepL U128.div100 (decide (exp ≤ -2)) 2 oExp (fun dSig dExp exp trunc => do
        let s ← forIn Lean.Loop.mk (dSig, dExp, exp, trunc) (loopLBody oExp)
        K s.1 s.2.1 s.2.2.2) dSig dExp exp trunc) dSig dExp exp trunc)
    b0 n0 hb0 hn0 ho0 ho1 s1 e1 x1 t1 n1 hT1 hx1 he1 (hcond x1 n1 (-4) 4 hx1 rfl)
  rw [eq2]
  obtain ⟨s3, e3, x3, t3, n3, hT3, hx3, he3, eq3⟩ := stepL_spec U128.div1000 3 divSpec_1000 3 rfl (by omega)
    (decide (x2 ≤ -3)) oExp (fun dSig dExp exp trunc =>
      stepL U128.div100 (decide (exp ≤ -2)) 2 oExp (fun dSig dExp exp trunc => do
        let s ← forIn Lean.Loop.mk (dSig, dExp, exp, trunc) (loopLBody oExp)
        K s.1 s.2.1 s.2.2.2) dSig dExp exp trunc)
    b0 n0 hb0 hn0 ho0 ho1 s2 e2 x2 t2 n2 hT2 hx2 he2 (hcond x2 n2 (-3) 3 hx2 rfl)
  rw [eq3]
  obtain ⟨s4, e4, x4, t4, n4, hT4, hx4, he4, eq4⟩ := stepL_spec U128.div100 2 divSpec_100 2 rfl (by omega)
    (decide (x3 ≤ -2)) oExp (fun dSig dExp exp trunc => do
        let s ← forIn Lean.Loop.mk (dSig, dExp, exp, trunc) (loopLBody oExp)
        K s.1 s.2.1 s.2.2.2)
    b0 n0 hb0 hn0 ho0 ho1 s3 e3 x3 t3 n3 hT3 hx3 he3 (hcond x3 n3 (-2) 2 hx3 rfl)
  rw [eq4]
  obtain ⟨s', el, hs1, hs2, hs3⟩ := loopL_spec oExp b0 n0 hb0 hn0 ho0 ho1 (s4, e4, x4, t4) n4 hT4 hx4 he4
  refine ⟨s'.1, s'.2.2.2, hs1, hs2, ?_⟩
  simp only [el, RK.ok_bind, hs3]

/-- the half `exp < 0` from `if exp < -maxDigits` on: `dSig` (= `b0 ≤ Cmax`) is divided by `10^n0`
    (`n0 = -exp`), the sticky flag records a non-zero remainder, and `dExp` becomes `oExp` -/
theorem ladderL_spec {α : Type} (K : U128 → Int16 → Int8 → Go.GoM α) (oExp : Int16) (n0 : Nat)
    (hn0 : n0 ≤ 12287) (ho0 : 0 ≤ oExp.toInt) (ho1 : oExp.toInt ≤ 12287)
    (dSig : U128) (dExp exp : Int16) (hb0 : 0 < dSig.toNat) (hb1 : dSig.toNat < 10 ^ 35)
    (hexp : exp.toInt = -(n0 : Int)) (hdE : dExp.toInt = oExp.toInt - n0) :
    ∃ dS' t', dS'.toNat = dSig.toNat / 10 ^ n0 ∧
      t' = (if dSig.toNat % 10 ^ n0 ≠ 0 then (1 : Int8) else 0) ∧
      ladderL K oExp dSig dExp exp 0 = K dS' oExp t' := by
  unfold ladderL
  simp only []
  by_cases h35 : decide (exp < -35) = true
  · have hn35 : 35 < n0 := by
      rw [i16_lt_iff, hexp] at h35
      have : (-35 : Int16).toInt = -35 := rfl
      omega
    have hnz : (dSig.w0 ||| dSig.w1 != 0) = true := by
      rw [bne_iff_ne, ne_eq, ← beq_iff_eq, isZ_iff]; omega
    rw [if_pos h35, if_pos hnz]
    have hlt : dSig.toNat < 10 ^ n0 :=
      lt_of_lt_of_le hb1 (Nat.pow_le_pow_right (by norm_num) (by omega))
    exact ladderL8_spec K oExp dSig.toNat n0 hb0 hn0 ho0 ho1 default oExp 0 1 0
      ⟨by omega, by rw [Nat.sub_zero, Nat.div_eq_of_lt hlt]; rfl,
        by rw [Nat.sub_zero, Nat.mod_eq_of_lt hlt, if_pos (by omega)]⟩ rfl (by simp)
  · rw [if_neg h35]
    exact ladderL8_spec K oExp dSig.toNat n0 hb0 hn0 ho0 ho1 dSig dExp exp 0 n0
      ⟨le_refl _, by simp, by simp [Nat.mod_one]⟩ hexp hdE

theorem ladderR8_spec {α : Type} (K : U128 → Int8 → Go.GoM α) (b0 n0 : Nat)
    (hb0 : 0 < b0) (hn0 : n0 ≤ 12287) (oSig : U128) (exp : Int16) (trunc : Int8) (n : Nat)
    (h : TS (-1) b0 n0 oSig n trunc) (hexp : exp.toInt = (n : Int)) :
    ∃ oS' t', oS'.toNat = b0 / 10 ^ n0 ∧ t' = (if b0 % 10 ^ n0 ≠ 0 then (-1 : Int8) else 0) ∧
      stepR U128.div1e8 (decide (exp ≥ 8)) 8 (fun oSig exp trunc =>
      stepR U128.div10000 (decide (exp ≥ 4)) 4 (fun oSig exp trunc =>
      stepR U128.div1000 (decide (exp ≥ 3)) 3 (fun oSig exp trunc =>
      stepR U128.div100 (decide (exp ≥ 2)) 2 (fun oSig exp trunc => do
        let s ← forIn Lean.Loop.mk (oSig, exp, trunc) loopRBody
        K s.1 s.2.2) oSig exp trunc) oSig exp trunc) oSig exp trunc) oSig exp trunc = K oS' t' := by
  have hcond : ∀ (x : Int16) (m : Nat) (k : Int16) (j : Nat), x.toInt = (m : Int) → k.toInt = (j : Int) →
      decide (x ≥ k) = true → j ≤ m := by
    intro x m k j hx hk
    rw [i16_ge_iff, hx, hk]; omega
  obtain ⟨s1, x1, t1, n1, hT1, hx1, eq1⟩ := stepR_spec U128.div1e8 8 divSpec_1e8 8 rfl (by omega)
    (decide (exp ≥ 8)) (fun oSig exp trunc =>
      stepR U128.div10000 (decide (exp ≥ 4)) 4 (fun oSig exp trunc =>
      stepR U128.div1000 (decide (exp ≥ 3)) 3 (fun oSig exp trunc =>
      stepR U128.div100 (decide (exp ≥ 2)) 2 (fun oSig exp trunc => do
        let s ← forIn Lean.Loop.mk (oSig, exp, trunc) loopRBody
        K s.1 s.2.2) oSig exp trunc) oSig exp trunc) oSig exp trunc)
    b0 n0 hb0 hn0 oSig exp trunc n h hexp (hcond exp n 8 8 hexp rfl)
  rw [eq1]
  obtain ⟨s2, x2, t2, n2, hT2, hx2, eq2⟩ := stepR_spec U128.div10000 4 divSpec_10000 4 rfl (by omega)
    (decide (x1 ≥ 4)) (fun oSig exp trunc =>
      stepR U128.div1000 (decide (exp ≥ 3)) 3 (fun oSig exp trunc =>
      stepR U128.div100 (decide (exp ≥ 2)) 2 (fun oSig exp trunc => do
        let s ← forIn Lean.Loop.mk (oSig, exp, trunc) loopRBody
        K s.1 s.2.2) oSig exp trunc) oSig exp trunc)
    b0 n0 hb0 hn0 s1 x1 t1 n1 hT1 hx1 (hcond x1 n1 4 4 hx1 rfl)
  rw [eq2]
  obtain ⟨s3, x3, t3, n3, hT3, hx3, eq3⟩ := stepR_spec U128.div1000 3 divSpec_1000 3 rfl (by omega)
    (decide (x2 ≥ 3)) (fun oSig exp trunc =>
      stepR U128.div100 (decide (exp ≥ 2)) 2 (fun oSig exp trunc => do
        let s ← forIn Lean.Loop.mk (oSig, exp, trunc) loopRBody
        K s.1 s.2.2) oSig exp trunc)
    b0 n0 hb0 hn0 s2 x2 t2 n2 hT2 hx2 (hcond x2 n2 3 3 hx2 rfl)
  rw [eq3]
  obtain ⟨s4, x4, t4, n4, hT4, hx4, eq4⟩ := stepR_spec U128.div100 2 divSpec_100 2 rfl (by omega)
    (decide (x3 ≥ 2)) (fun oSig exp trunc => do
        let s ← forIn Lean.Loop.mk (oSig, exp, trunc) loopRBody
        K s.1 s.2.2)
    b0 n0 hb0 hn0 s3 x3 t3 n3 hT3 hx3 (hcond x3 n3 2 2 hx3 rfl)
  rw [eq4]
  obtain ⟨s', el, hs1, hs2⟩ := loopR_spec b0 n0 hb0 hn0 (s4, x4, t4) n4 hT4 hx4
  refine ⟨s'.1, s'.2.2, hs1, hs2, ?_⟩
  simp only [el, RK.ok_bind]

/-- the half `exp > 0` from `if exp > maxDigits` on: `oSig` (`≤ Cmax`) is divided by `10^n0`
    (`n0 = exp`), the sticky flag `-1` records a non-zero remainder -/
theorem ladderR_spec {α : Type} (K : U128 → Int8 → Go.GoM α) (n0 : Nat) (hn0 : n0 ≤ 12287)
    (oSig : U128) (exp : Int16) (hb0 : 0 < oSig.toNat) (hb1 : oSig.toNat < 10 ^ 35)
    (hexp : exp.toInt = (n0 : Int)) :
    ∃ oS' t', oS'.toNat = oSig.toNat / 10 ^ n0 ∧
      t' = (if oSig.toNat % 10 ^ n0 ≠ 0 then (-1 : Int8) else 0) ∧
      ladderR K oSig exp 0 = K oS' t' := by
  unfold ladderR
  simp only []
  by_cases h35 : decide (exp > 35) = true
  · have hn35 : 35 < n0 := by
      rw [i16_gt_iff, hexp] at h35
      have : (35 : Int16).toInt = 35 := rfl
      omega
    have hnz : (oSig.w0 ||| oSig.w1 != 0) = true := by
      rw [bne_iff_ne, ne_eq, ← beq_iff_eq, isZ_iff]; omega
    rw [if_pos h35, if_pos hnz]
    have hlt : oSig.toNat < 10 ^ n0 :=
      lt_of_lt_of_le hb1 (Nat.pow_le_pow_right (by norm_num) (by omega))
    exact ladderR8_spec K oSig.toNat n0 hb0 hn0 default 0 (-1) 0
      ⟨by omega, by rw [Nat.sub_zero, Nat.div_eq_of_lt hlt]; rfl,
        by rw [Nat.sub_zero, Nat.mod_eq_of_lt hlt, if_pos (by omega)]⟩ rfl
  · rw [if_neg h35]
    exact ladderR8_spec K oSig.toNat n0 hb0 hn0 oSig exp 0 n0 ⟨le_refl _, by simp, by simp [Nat.mod_one]⟩ hexp

end AD
