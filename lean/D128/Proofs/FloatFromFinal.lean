/-
  D128/Proofs/FloatFromFinal.lean — `Gen.FromFloat64` and `Gen.FromFloat32` return the exact binary value
  correctly rounded into the decimal128 format, for every bit pattern and every valid default rounding mode.

  Provided (namespace `FF`):
  * `spec64 m f`, `spec32 m f` : the specified result (NaN with the payload of the operation, ±Inf,
      `flushOrRoundS m sign |f| 0` — which is `±0` for zeros)
  * `fromFloat64_correct`, `fromFloat32_correct`
  * `fromFloat64_exact` : when |f| is a member of the format the result denotes exactly |f|
-/
import D128.Proofs.FloatFromTop
import D128.Proofs.FloatFromHard

set_option autoImplicit false
set_option maxRecDepth 8192

namespace FF
open Gen Go
local notation "𝔳[" d "]" => Spec.interp (Gen.Decimal.lo d) (Gen.Decimal.hi d)

/-- the specified result of `FromFloat64` under mode `m` -/
def spec64 (m : Spec.Mode) (f : F64) : Spec.Val :=
  if f.isNaN then .nan false 3 else if f.isInf then .inf f.sign
  else Spec.flushOrRoundS m f.sign f.mag 0

/-- the specified result of `FromFloat32` under mode `m` -/
def spec32 (m : Spec.Mode) (f : F32) : Spec.Val :=
  if f.isNaN then .nan false 2 else if f.isInf then .inf f.sign
  else Spec.flushOrRoundS m f.sign f.mag 0

theorem mag_zero_of_isZero (f : F64) (h : f.isZero = true) : f.mag = 0 := by
  unfold F64.isZero at h
  simp only [Bool.and_eq_true, beq_iff_eq] at h
  unfold F64.mag F64.dyadic
  simp [h.1, h.2]

theorem isFinite_of_not (f : F64) (hn : f.isNaN = false) (hi : f.isInf = false) : f.isFinite = true := by
  unfold F64.isFinite
  unfold F64.isNaN at hn
  unfold F64.isInf at hi
  by_contra hc
  have he : f.expField = 2047 := by simpa using hc
  rw [he] at hn hi
  simp at hn hi
  exact hi hn

/-- **C09 (binary → decimal, float64).**  For every bit pattern `f` and every valid default rounding mode,
`Gen.FromFloat64` does not panic and returns: NaN with the `FromFloat64` payload for NaN, ±Inf for ±Inf,
and otherwise the member of the format that the mode selects for the exact value `|f| = m·2^e`
(`±0` for zeros; exact whenever `|f|` is a member). -/
theorem fromFloat64_correct (g : Globals) (f : F64) (m : Spec.Mode)
    (hm : Spec.Mode.ofNat? g.DefaultRoundingMode.toNat = some m) :
    ∃ r, Gen.FromFloat64 g f = .ok r ∧ (𝔳[r]).same (spec64 m f) = true := by
  unfold spec64
  by_cases hn : f.isNaN = true
  · refine ⟨_, fromFloat64_nan g f hn, ?_⟩
    rw [if_pos hn, Enc.interp_nan]
    rfl
  · have hn' : f.isNaN = false := by simpa using hn
    rw [if_neg hn]
    by_cases hi : f.isInf = true
    · refine ⟨_, fromFloat64_inf g f hi, ?_⟩
      rw [if_pos hi, Enc.interp_inf]
      exact Sp.same_refl _
    · have hi' : f.isInf = false := by simpa using hi
      rw [if_neg hi]
      have hfin := isFinite_of_not f hn' hi'
      by_cases hz : f.isZero = true
      · refine ⟨_, fromFloat64_zero g f hz, ?_⟩
        rw [Enc.interp_zero, mag_zero_of_isZero f hz]
        simp [Spec.flushOrRoundS, Spec.Val.same, Spec.mag]
      · have hz' : f.isZero = false := by simpa using hz
        obtain ⟨r, a, hr, hsame, hclose, hor⟩ := fromFloat64_finite g f m hm hfin hz'
        refine ⟨r, hr, ?_⟩
        rcases hor with h | h
        · rw [← h]; exact hsame
        · rw [← hardish_round_eq m f.sign a f.mag h hclose]; exact hsame

/-- **C09 (binary → decimal, float32).**  `Gen.FromFloat32` widens exactly and converts: NaN with the
`FromFloat32` payload, ±Inf, and otherwise the correctly rounded exact value of `f` (here always exact in
practice: a float32 has at most 24 significant bits — but the statement does not need that). -/
theorem fromFloat32_correct (g : Globals) (f : F32) (m : Spec.Mode)
    (hm : Spec.Mode.ofNat? g.DefaultRoundingMode.toNat = some m) :
    ∃ r, Gen.FromFloat32 g f = .ok r ∧ (𝔳[r]).same (spec32 m f) = true := by
  unfold spec32 Gen.FromFloat32
  by_cases hn : f.isNaN = true
  · have : Go.math.IsNaN f.toF64 = true := by
      show f.toF64.isNaN = true
      rw [F32.toF64_isNaN]; exact hn
    refine ⟨nan 2 0 0, by simp only [this, if_true]; rfl, ?_⟩
    rw [if_pos hn, Enc.interp_nan]
    rfl
  · have hn' : f.isNaN = false := by simpa using hn
    have : Go.math.IsNaN f.toF64 = false := by
      show f.toF64.isNaN = false
      rw [F32.toF64_isNaN]; exact hn'
    obtain ⟨r, hr, hsame⟩ := fromFloat64_correct g f.toF64 m hm
    refine ⟨r, by simp only [this, Bool.false_eq_true, if_false, hr], ?_⟩
    rw [if_neg hn]
    unfold spec64 at hsame
    rw [F32.toF64_isNaN, hn', F32.toF64_isInf, F32.toF64_sign] at hsame
    simp only [Bool.false_eq_true, if_false] at hsame
    by_cases hi : f.isInf = true
    · rw [if_pos hi] at hsame ⊢; exact hsame
    · rw [if_neg hi] at hsame ⊢
      have hfin : f.isFinite = true := by
        rw [F32.isFinite_eq, hn']; simpa using hi
      rw [F32.toF64_mag f hfin] at hsame
      exact hsame

/-- exactness: when `|f|` is a member of the format (`c·10^e`, `0 < c ≤ Cmax`, `Emin ≤ e ≤ Emax`) the
    result denotes exactly `|f|`, whatever the mode -/
theorem fromFloat64_exact (g : Globals) (f : F64) (m : Spec.Mode)
    (hm : Spec.Mode.ofNat? g.DefaultRoundingMode.toNat = some m)
    (hn : f.isNaN = false) (hi : f.isInf = false) (c : Nat) (e : Int) (hc0 : 0 < c)
    (hc : c ≤ Spec.Cmax) (he1 : Spec.Emin ≤ e) (he2 : e ≤ Spec.Emax)
    (hval : f.mag = (c : ℚ) * (10 : ℚ) ^ e) :
    ∃ r c' e', Gen.FromFloat64 g f = .ok r ∧ 𝔳[r] = .fin f.sign c' e' ∧
      (c' : ℚ) * (10 : ℚ) ^ e' = f.mag := by
  obtain ⟨r, hr, hsame⟩ := fromFloat64_correct g f m hm
  unfold spec64 at hsame
  rw [hn, hi] at hsame
  simp only [Bool.false_eq_true, if_false] at hsame
  have hpos : 0 < (c : ℚ) * (10 : ℚ) ^ e := by
    have : (0 : ℚ) < c := by exact_mod_cast hc0
    exact mul_pos this (zpow_pos (by norm_num) _)
  have hge : (10 : ℚ) ^ (Spec.Emin - 1) ≤ (c : ℚ) * (10 : ℚ) ^ e := by
    have h1 : (1 : ℚ) ≤ c := by exact_mod_cast hc0
    calc (10 : ℚ) ^ (Spec.Emin - 1) ≤ (10 : ℚ) ^ e := zpow_le_zpow_right₀ (by norm_num) (by omega)
      _ = 1 * (10 : ℚ) ^ e := by ring
      _ ≤ (c : ℚ) * (10 : ℚ) ^ e := mul_le_mul_of_nonneg_right h1 (zpow_pos (by norm_num) _).le
  have e1 : Spec.flushOrRoundS m f.sign f.mag 0 = Spec.roundTo m f.sign ((c : ℚ) * (10 : ℚ) ^ e) := by
    have := SpecRound.flushOrRoundS_eq m f.sign f.mag (by rw [hval]; exact hpos.le) 0
    rw [zpow_zero, mul_one] at this
    rw [this, hval]
    exact SpecRound.flushOrRound_eq_roundTo m f.sign hge
  obtain ⟨c', e', hrt, hv, _, _, _⟩ := SpecRound.roundTo_exact m f.sign hc0 hc he1 he2
  rw [e1, hrt] at hsame
  -- `same` against a finite value forces a finite value of the same sign and magnitude
  cases hd : 𝔳[r] with
  | nan n p => rw [hd] at hsame; simp [Spec.Val.same] at hsame
  | inf n => rw [hd] at hsame; simp [Spec.Val.same] at hsame
  | fin n c'' e'' =>
    rw [hd] at hsame
    simp only [Spec.Val.same, Bool.and_eq_true, beq_iff_eq] at hsame
    refine ⟨r, c'', e'', hr, by rw [hd, hsame.1], ?_⟩
    have := hsame.2
    unfold Spec.mag at this
    rw [SpecRound.pow10_eq_zpow, SpecRound.pow10_eq_zpow] at this
    rw [this, hv, hval]

end FF
