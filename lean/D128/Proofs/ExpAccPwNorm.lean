/-
  D128/Proofs/ExpAccPwNorm.lean — `decomposed192.powexp10` keeps long significands long (structural,
  value-free), and `decomposed192.rcp` returns a normalised or an exact result.

  * `MulBig`, `mul_big`, `mul_big_spec` : `mul d o t` returns `x` with `N ≤ x.1.sig` whenever `N ≤ 2^192/10`
        and (`N ≤ d.sig ∧ 1 ≤ o.sig` or `1 ≤ d.sig ∧ N ≤ o.sig`); as an (untagged) Hoare triple
  * `pM_half`, `pM_half_pred`           : the loop measure of `powexp10` decreases
  * `powexp10_big_total` : for EVERY `d o t` (any `o`, any exponents): `powexp10 d o t` returns (no panic,
        terminates) some `z`, and `1 ≤ N ≤ 2^192/10`, `N ≤ d.sig` give `z.1 = dinf ∨ N ≤ z.1.sig`
  * `powexp10_big`       : the same in the form `powexp10 d o t = .ok z → z.1 = dinf ∨ N ≤ z.1.sig`
  * `rcp_size_general`   : `rcp` (`d.sig ≠ 0`, `|d.exp| ≤ 16000`): `LIM ≤ r.sig`, or `val r·val d = 1 ∧ t' = t`,
        or (`OLIM ≤ d.sig`, `t' = 1`, `1 < val r·val d ≤ 1 + 2^-185`)
  * `rcp_size`           : with `d.sig < OLIM`: `LIM ≤ r.sig ∨ (val r·val d = 1 ∧ t' = t)`
  * FINDING (`#guard`s at the end): the companion as first proposed (`… ∧ d.sig < OLIM` in the exact case) is
    false — `rcp {10^57, 0}` is the short exact `{10, -58}` although `OLIM ≤ 10^57`; `rcp {10^57+1, 0}` is the
    same short `{10, -58}` with flag 1 and is not the exact reciprocal.
  Nothing here is tagged `@[spec]`.
-/
import D128.Proofs.D192Pow
import D128.Proofs.D192QuoContract
set_option autoImplicit false
set_option maxRecDepth 4096
set_option exponentiation.threshold 512
set_option linter.unusedVariables false
open Std.Do D128.Proofs.WordsWide
set_option mvcgen.warning false

namespace ExpAcc

/-- size post-condition of `mul` -/
def MulBig (d o : Gen.decomposed192) (x : Gen.decomposed192 × Int8) : Prop :=
  ∀ N : Nat, N ≤ 2 ^ 192 / 10 →
  ((N ≤ d.sig.toNat ∧ 1 ≤ o.sig.toNat) ∨ (1 ≤ d.sig.toNat ∧ N ≤ o.sig.toNat)) → N ≤ x.1.sig.toNat

theorem mul_big (d o : Gen.decomposed192) (t : Int8) :
    ∃ x, Gen.decomposed192.mul d o t = .ok x ∧ MulBig d o x := by
  obtain ⟨r, t', k, e, hk, hs, he, ht, hn⟩ := D192.mul_spec d o t
  refine ⟨(r, t'), e, ?_⟩
  intro N hN h
  show N ≤ r.sig.toNat
  rcases hn with hk0 | hn
  · subst hk0
    rw [hs]
    simp only [pow_zero, Nat.div_one]
    rcases h with ⟨h1, h2⟩ | ⟨h1, h2⟩
    · calc N = N * 1 := (Nat.mul_one N).symm
        _ ≤ _ := Nat.mul_le_mul h1 h2
    · calc N = 1 * N := (Nat.one_mul N).symm
        _ ≤ _ := Nat.mul_le_mul h1 h2
  · exact le_trans hN hn

theorem mul_big_spec (d o : Gen.decomposed192) (t : Int8) :
    ⦃⌜True⌝⦄ Gen.decomposed192.mul d o t ⦃⇓ x => ⌜MulBig d o x⌝⦄ := by
  obtain ⟨x, e, hx⟩ := mul_big d o t
  exact triple_of_eq e (Q := fun x => MulBig d o x) hx

theorem pM_half (p : Int64) (h : 1 < p) : D192.pM (p / 2) < D192.pM p := by
  have h' := (D192.i64_one_lt p).mp h
  unfold D192.pM
  rw [D192.i64_div_two p (by omega)]
  omega

theorem pM_half_pred (p : Int64) (h : 1 < p) : D192.pM ((p - 1) / 2) < D192.pM p := by
  have h' := (D192.i64_one_lt p).mp h
  have e := D192.i64_sub_one p (by omega)
  unfold D192.pM
  rw [D192.i64_div_two (p - 1) (by omega), e]
  omega

/-- total form: for EVERY `d`, `o`, `t` the call returns (no panic, terminates), and a base with a
significand `≥ N` (`1 ≤ N ≤ 2^192/10`) gives `dinf` or a result with significand `≥ N`. -/
theorem powexp10_big_total (d : Gen.decomposed192) (o : Int16) (t : Int8) (N : Nat)
    (hN : N ≤ 2 ^ 192 / 10) (hN1 : 1 ≤ N) (hd : N ≤ d.sig.toNat) :
    ∃ z, Gen.decomposed192.powexp10 d o t = .ok z ∧ (z.1 = Gen.dinf ∨ N ≤ z.1.sig.toNat) := by
  unfold Gen.decomposed192.powexp10
  extract_lets d' tr p0 rt src r0 t1 jp
  have hjp : ∀ p : Int64, ⦃⌜True⌝⦄ jp () p
      ⦃⇓ x => ⌜x.1 = Gen.dinf ∨ N ≤ x.1.sig.toNat⌝⦄ := by
    intro p
    simp only [jp]
    mvcgen [mul_big_spec, -D192.mul_q2spec]
    case inv1 => exact fun st => ⟨D192.pM st.2.2.2.1⟩
    case inv2 => exact ⇓ x => match x with
      | .inl st => ⌜st.1 = none ∧ N ≤ st.2.1.sig.toNat ∧ 1 ≤ st.2.2.2.2.2.sig.toNat⌝
      | .inr st => ⌜(∃ y, st.1 = some y ∧ y.1 = Gen.dinf) ∨
          (st.1 = none ∧ N ≤ st.2.1.sig.toNat ∧ 1 ≤ st.2.2.2.2.2.sig.toNat)⌝
    all_goals (simp +zetaDelta at *)
    case vc2 =>
      rename_i b mb r1 h1 r2 h2 hgt hle hodd hinv
      obtain ⟨rfl, -, hdN, hr1⟩ := hinv
      exact ⟨pM_half_pred _ hgt, h2 N hN (Or.inl ⟨hdN, le_trans hN1 hdN⟩),
        h1 1 (by norm_num) (Or.inr ⟨le_trans hN1 hdN, hr1⟩)⟩
    case vc3 =>
      rename_i b mb r2 h2 hgt hle hev hinv
      obtain ⟨rfl, -, hdN, hr1⟩ := hinv
      exact ⟨pM_half _ hgt, h2 N hN (Or.inl ⟨hdN, le_trans hN1 hdN⟩), hr1⟩
    case vc4 =>
      rename_i hinv
      exact hinv.2.2
    case vc5 =>
      exact ⟨hd, by simp [U192.toNat]⟩
    case vc6 =>
      rename_i st a hsome hfin
      rcases hfin with ⟨x, hx⟩ | ⟨hnone, _⟩
      · left
        rw [hsome] at hx
        have := Option.some.inj hx
        rw [this]
      · rw [hsome] at hnone; cases hnone
    case vc8 | vc9 =>
      rename_i st hnone y hle hrt hfin
      intro hy
      rcases hfin with ⟨x, hx⟩ | ⟨_, hdN, hr1⟩
      · rw [hnone] at hx; cases hx
      · exact Or.inr (hy N hN (Or.inl ⟨hdN, hr1⟩))
  clear_value jp
  have hjp' : ∀ p : Int64, ∃ z, jp () p = .ok z ∧ (z.1 = Gen.dinf ∨ N ≤ z.1.sig.toNat) :=
    fun p => ok_of_triple (hjp p)
  split
  · exact ⟨_, rfl, Or.inr hd⟩
  repeat (split <;> try exact hjp' _)
  exact ⟨_, rfl, Or.inl rfl⟩

theorem powexp10_big (d : Gen.decomposed192) (o : Int16) (t : Int8) (N : Nat)
    (hN : N ≤ 2 ^ 192 / 10) (hN1 : 1 ≤ N) (hd : N ≤ d.sig.toNat) (z : Gen.decomposed192 × Int8)
    (hz : Gen.decomposed192.powexp10 d o t = .ok z) :
    z.1 = Gen.dinf ∨ N ≤ z.1.sig.toNat := by
  obtain ⟨x, e, hx⟩ := powexp10_big_total d o t N hN hN1 hd
  rw [hz] at e
  cases e
  exact hx

/-- the hypotheses are satisfiable: `2^(10^3)` (`d = 2`, `o = 3`, `N = 2`). -/
example : ∃ z, Gen.decomposed192.powexp10 ⟨⟨2, 0, 0⟩, 0⟩ 3 0 = .ok z ∧
    (z.1 = Gen.dinf ∨ 2 ≤ z.1.sig.toNat) := by
  obtain ⟨z, hz, -⟩ := D192.powexp10_spec ⟨⟨2, 0, 0⟩, 0⟩ 3 0 (by simp [D192.val, U192.toNat])
    (by decide) (by decide)
  exact ⟨z, hz, powexp10_big ⟨⟨2, 0, 0⟩, 0⟩ 3 0 2 (by norm_num) (by norm_num)
    (by simp [U192.toNat]) z hz⟩

/-! ### `rcp`: an unnormalised reciprocal is exact -/

/-- `rcp` (non-zero operand, exponent within ±16000): the result is normalised (`LIM ≤ r.sig`), or it is
EXACT w.r.t. the untruncated operand and passes the flag through, or — only possible when the operand lost
digits (`OLIM ≤ d.sig`) — it is the exact reciprocal of the TRUNCATED operand: then the flag is `1` and the
result is too large by at most `2^-185` relative. -/
theorem rcp_size_general (d : Gen.decomposed192) (t : Int8) (hd : d.sig.toNat ≠ 0)
    (hde : -16000 ≤ d.exp.toInt ∧ d.exp.toInt ≤ 16000) :
    ∃ r t', Gen.decomposed192.rcp d t = .ok (r, t') ∧
      (D192.LIM ≤ r.sig.toNat ∨ (D192.val r * D192.val d = 1 ∧ t' = t) ∨
       (D192.OLIM ≤ d.sig.toNat ∧ t' = 1 ∧ 1 < D192.val r * D192.val d ∧
        D192.val r * D192.val d ≤ 1 + 1 / 2 ^ 185)) := by
  obtain ⟨r, t', d', e, hd'pos, hle, hup, hsm, -, -, hex, hnex, hor, -⟩ := D192.rcp_contract d t hd hde
  refine ⟨r, t', e, ?_⟩
  rcases hor with hv | hL
  · right
    have hne : d' ≠ 0 := ne_of_gt hd'pos
    by_cases hdd : d' = D192.val d
    · left
      refine ⟨?_, hex ⟨hv, hdd⟩⟩
      rw [hv, ← hdd]; field_simp
    · right
      have hO : D192.OLIM ≤ d.sig.toNat := by
        by_contra h; exact hdd (hsm (by omega))
      have hlt : d' < D192.val d := lt_of_le_of_ne hle hdd
      refine ⟨hO, hnex (fun h => hdd h.2), ?_, ?_⟩
      · rw [hv, one_div, inv_mul_eq_div, lt_div_iff₀ hd'pos]; linarith
      · rw [hv, one_div, inv_mul_eq_div, div_le_iff₀ hd'pos]; linarith
  · exact Or.inl hL

/-- the companion asked for, under the hypothesis that makes it true: an operand that is not truncated
(`d.sig < OLIM = 0x18ff_ffff_ffff_ffff·2^128`). -/
theorem rcp_size (d : Gen.decomposed192) (t : Int8) (hd : d.sig.toNat ≠ 0)
    (hde : -16000 ≤ d.exp.toInt ∧ d.exp.toInt ≤ 16000) (hO : d.sig.toNat < D192.OLIM) :
    ∃ r t', Gen.decomposed192.rcp d t = .ok (r, t') ∧
      (D192.LIM ≤ r.sig.toNat ∨ (D192.val r * D192.val d = 1 ∧ t' = t)) := by
  obtain ⟨r, t', e, h⟩ := rcp_size_general d t hd hde
  refine ⟨r, t', e, ?_⟩
  rcases h with h | h | h
  · exact Or.inl h
  · exact Or.inr h
  · omega

example := rcp_size ⟨⟨4, 0, 0⟩, -5⟩ 0 (by decide) (by decide) (by decide)

/-- FINDING: the statement `LIM ≤ r.sig ∨ (val r·val d = 1 ∧ t' = t ∧ d.sig < OLIM)` is FALSE: for
`d = {sig: 10^57, exp: 0}` (`OLIM ≤ 10^57 < 2^192`) `rcp` drops the (zero) last digit and returns the short
exact `{sig: 10, exp: -58}` with the flag passed through; for `d = {sig: 10^57+1, exp: 0}` it returns the
same short `{10, -58}` with flag `1`, which is NOT the exact reciprocal (third case of
`rcp_size_general`). -/
example : True := trivial
#guard (10 : Nat) ^ 57 == (U192.mk 5332261958806667264 17004971331911604867 2938735877055718769).toNat
#guard D192.OLIM ≤ 10 ^ 57
#guard (Gen.decomposed192.rcp ⟨⟨5332261958806667264, 17004971331911604867, 2938735877055718769⟩, 0⟩ 0).toOption.map
    (fun x => (x.1.sig.toNat, x.1.exp, x.2)) == some (10, -58, 0)
#guard (Gen.decomposed192.rcp ⟨⟨5332261958806667265, 17004971331911604867, 2938735877055718769⟩, 0⟩ 0).toOption.map
    (fun x => (x.1.sig.toNat, x.1.exp, x.2)) == some (10, -58, 1)

end ExpAcc
