/-
  D128/Proofs/ExpAccHornerEpow.lean — Horner head of `decomposed192.epow` with size information.

  * `epowK_eq`  : the tail `mul; add1; powexp10` as an equation
  * `epow_head` : for `EpowPre d l10`:  `epow d l10 t = powexp10 y (epowO d l10) ty`  with
        `R x·(1-theta)^118 ≤ val y ≤ R x`, `1 ≤ val y`, `ty ∈ {t, 1}`,
        `y = one ∨ 10^55 ≤ y.sig`, `-57 ≤ y.exp ≤ 1`          (`x = epowX d l10`)
-/
import D128.Proofs.ExpAccHornerLoop
set_option autoImplicit false
set_option maxRecDepth 8192
set_option exponentiation.threshold 512
set_option linter.unusedVariables false
open Std.Do D128.Proofs.WordsWide
namespace ExpAcc
open Gen D192

theorem epow_head (d : Gen.decomposed192) (l10 : Int16) (t : Int8) (h : D192.EpowPre d l10) :
    ∃ (y : Gen.decomposed192) (ty : Int8),
      Gen.decomposed192.epow d l10 t = Gen.decomposed192.powexp10 y (D192.epowO d l10) ty ∧
      D192.R (D192.epowX d l10) * (1 - D192.theta) ^ 118 ≤ D192.val y ∧
      D192.val y ≤ D192.R (D192.epowX d l10) ∧
      1 ≤ D192.val y ∧ (ty = t ∨ ty = 1) ∧
      (y = D192.one ∨ 10 ^ 55 ≤ y.sig.toNat) ∧ -57 ≤ y.exp.toInt ∧ y.exp.toInt ≤ 1 := by
  obtain ⟨d2, res, tr, ⟨o1, o2, o3, o4, o5, o6, o7, o8, o9, o10⟩, e⟩ := hornerK_eq d l10 t epowK h
  have hx1 : epowX d l10 ≤ 1 := h.2.2.2.2.2.2
  generalize epowX d l10 = x at *
  obtain ⟨m, em, hm⟩ := mul_q3 res d2 tr (by omega) (by omega)
  obtain ⟨a, ea, ha⟩ := add1_q3 m.1 m.2
  have hG0 := G_pos x o2 38
  have hG2 := G_le_two x o2.le hx1 38 (le_refl _)
  have hθ := one_sub_theta_pos
  have hres0 : 0 < val res := lt_of_lt_of_le (mul_pos hG0 (pow_pos hθ _)) o6
  have hd0 : 0 < val d2 := by rw [o1]; exact o2
  have hprod : val res * val d2 ≤ 2 := by
    rw [o1]
    calc val res * x ≤ 2 * 1 := mul_le_mul (le_trans o7 hG2) hx1 o2.le (by norm_num)
      _ = 2 := by norm_num
  have hms := mul_sig_pos hm hres0 hd0
  have hme : m.1.exp.toInt ≤ -55 := by
    rcases mul_small_exp hm hprod with h | h <;> omega
  obtain ⟨a1, a2, a3⟩ := add1_big ha hms hme
  obtain ⟨⟨m1, m2, m3, m4, m5, m6⟩, -⟩ := hm
  obtain ⟨⟨r1, r2, r3, r4, r5⟩, -⟩ := ha
  have hs := horner_step x (G x 38) (val res) (val d2) (val m.1) (val a.1) 115 o2.le hG0.le o6 o7
    (by rw [o1]; nlinarith [theta_pos]) (le_of_eq o1) m2 m1 r2 r1
  refine ⟨a.1, a.2, ?_, ?_, ?_, r3, ?_, a3, a2, a1⟩
  · rw [epow_eq, e]
    have em' : decomposed192.mul res d2 tr = pure m := em
    have ea' : decomposed192.add1 m.1 m.2 = pure a := ea
    simp only [epowK, em', pure_bind, ea']
  · unfold R; exact hs.1
  · unfold R; exact hs.2
  · rcases r4 with h4 | h4
    · rw [h4]
      by_cases hmm : val m.1 = val res * val d2
      · rw [m3 hmm]; exact o8
      · right; exact m4 hmm
    · right; exact h4

/-- `EpowPre` on `x = 0.9` (`d = 9·10^-1`, `l10 = 0`), cf. the end of D192Exp.lean -/
theorem epowPre_example : EpowPre ⟨⟨9, 0, 0⟩, -1⟩ 0 := by
  refine ⟨by decide, by decide, by decide, by decide, by decide, by decide, ?_⟩
  have hE : ¬ epowE ⟨⟨9, 0, 0⟩, -1⟩ 0 < 0 := by decide
  unfold epowX
  rw [if_neg hE]
  have h9 : (U192.mk 9 0 0).toNat = 9 := by decide
  have h0 : (0 : Int16).toInt = 0 := by decide
  simp only [h9, h0]
  norm_num

example := epow_head ⟨⟨9, 0, 0⟩, -1⟩ 0 0 epowPre_example

end ExpAcc
