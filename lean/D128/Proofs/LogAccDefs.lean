/-
  D128/Proofs/LogAccDefs.lean — staged normal form of `Gen.decomposed192.log` (Go: /repo/decomposed.go `log`).

  The generated body is cut into
    * `logScale d`           : the three normalising loops (×10^19, ×10^4, ×10) — value preserved, `sig ≥ 25·2^184`
    * `logReduce d msd`      : the optional division by the two leading digits `msd/10`
    * `logTerm sqr i s`      : one pass of the series loop  `frc ← frc·sqr; res ← res + frc/i`
    * `logSeries d trunc`    : `num = d-1`, `den = d+1`, `frc = num/den`, `sqr = frc²`, sixteen `logTerm`s (i = 3,5,…,33)
    * `logTail exp msd res t`: `2·res ± |exp|·ln10 ± ln(msd/10)`
  and `log_eq : Gen.decomposed192.log d = …` composes them (proved by unfolding; the `while i <= 33` loop is
  unrolled into `logIter`).
-/
import D128.Gen.Decomposed
import D128.Proofs.RoundKernelCode
set_option autoImplicit false
set_option maxRecDepth 8192
set_option linter.unusedVariables false
open Gen
namespace LogAcc

/-- the three normalising loops at the head of `log` -/
def logScale (d : decomposed192) : Go.GoM decomposed192 := do
  let mut d : decomposed192 := d
  while (d.sig.w2 == (0 : UInt64)) do
    d := { d with sig := (U192.mul64 d.sig (10000000000000000000 : UInt64)) }
    d := { d with exp := (d.exp - (19 : Int16)) }
  while (decide (d.sig.w2 ≤ (703687441776639 : UInt64))) do
    d := { d with sig := (U192.mul64 d.sig (10000 : UInt64)) }
    d := { d with exp := (d.exp - (4 : Int16)) }
  while (decide (d.sig.w2 ≤ (1801439850948198399 : UInt64))) do
    d := { d with sig := (U192.mul64 d.sig (10 : UInt64)) }
    d := { d with exp := (d.exp - (1 : Int16)) }
  return d

/-- the two leading digits as a divisor `msd·10^-1` -/
def msdDiv (msd : Int64) : decomposed192 :=
  { sig := { w0 := (Go.conv msd : UInt64), w1 := 0, w2 := 0 }, exp := -1 }

/-- a small integer as a working-format number -/
def small (i : UInt64) : decomposed192 := { sig := { w0 := i, w1 := 0, w2 := 0 }, exp := 0 }

/-- the optional first reduction `d / (msd/10)` -/
def logReduce (d : decomposed192) (msd : Int64) : Go.GoM (decomposed192 × Int8) :=
  if decide (msd > 10) = true then decomposed192.quo d (msdDiv msd) 0 else pure (d, 0)

/-- one pass of the series loop; state `(trunc, frc, res)` -/
def logTerm (sqr : decomposed192) (i : UInt64) (s : Int8 × decomposed192 × decomposed192) :
    Go.GoM (Int8 × decomposed192 × decomposed192) := do
  let x ← decomposed192.mul s.2.1 sqr 0
  let y ← decomposed192.quo x.1 (small i) 0
  let z ← decomposed192.add s.2.2 y.1 s.1
  pure (z.2, x.1, z.1)

/-- `n` passes starting with the odd index `i` -/
def logIter (sqr : decomposed192) : Nat → UInt64 → Int8 × decomposed192 × decomposed192 →
    Go.GoM (Int8 × decomposed192 × decomposed192)
  | 0, _, s => pure s
  | n + 1, i, s => logTerm sqr i s >>= logIter sqr n (i + 2)

/-- the artanh series: returns `(res, trunc)` with `res ≈ artanh((d-1)/(d+1))` -/
def logSeries (d : decomposed192) (trunc : Int8) : Go.GoM (decomposed192 × Int8) := do
  let n ← decomposed192.sub1 d 0
  let a ← decomposed192.add1 d 0
  let f ← decomposed192.quo n.2.1 a.1 trunc
  let q ← decomposed192.pow2 f.1 0
  let s ← logIter q.1 16 3 (f.2, f.1, f.1)
  pure (s.2.2, s.1)

/-- the end of `log`: `2·res ± |exp|·ln 10 ± ln(msd/10)` -/
def logTail (exp : Int16) (msd : Int64) (res : decomposed192) (trunc : Int8) :
    Go.GoM (Bool × decomposed192 × Int8) := do
  let expNeg : Bool := decide (exp < 0)
  let aexp : Int16 := if decide (exp < 0) = true then exp * -1 else exp
  let l ← decomposed192.mul ln10 (small (Go.conv aexp : UInt64)) 0
  let r ← decomposed192.mul res (small 2) trunc
  let s : Bool × decomposed192 × Int8 ←
    (if expNeg = true then decomposed192.sub r.1 l.1 r.2
     else do let x ← decomposed192.add r.1 l.1 r.2; pure (false, x.1, x.2))
  if decide (msd > 10) = true then do
    let t ← Go.vget ln (Go.idx (msd - 11))
    let lnMSD : decomposed192 := { sig := t, exp := -57 }
    if expNeg = true then do
      let x ← decomposed192.sub s.2.1 lnMSD s.2.2
      pure (s.1, x.2.1, x.2.2)
    else do
      let x ← decomposed192.add s.2.1 lnMSD s.2.2
      pure (s.1, x.1, x.2)
  else pure (s.1, s.2.1, s.2.2)

/-- everything after the leading-digit extraction -/
def logMain (exp : Int16) (msd : Int64) (d : decomposed192) : Go.GoM (Bool × decomposed192 × Int8) := do
  let r ← logReduce d msd
  let s ← logSeries r.1 r.2
  logTail exp msd s.1 s.2

theorem u64_succ2 (i : UInt64) (h : i.toNat + 2 < 2 ^ 64) : (i + 2).toNat = i.toNat + 2 := by
  rw [UInt64.toNat_add]
  have : (2 : UInt64).toNat = 2 := rfl
  rw [this]; omega

/-- the generated `for i := 3; i <= 33; i += 2` loop is `logIter` -/
theorem logLoop_eq {β : Type} (sqr : decomposed192)
    (K : Int8 × decomposed192 × decomposed192 × UInt64 → Go.GoM β) (n : Nat) :
    ∀ (t : Int8) (frc res : decomposed192) (i : UInt64), i.toNat + 2 * n = 35 →
    ((forIn (m := Go.GoM) Lean.Loop.mk (t, frc, res, i) fun x __s =>
        if decide (__s.2.2.2 ≤ 33) = true then do
          let __x ← decomposed192.mul __s.2.1 sqr 0
          let __x_1 ← decomposed192.quo __x.1 { sig := { w0 := __s.2.2.2, w1 := 0, w2 := 0 }, exp := 0 } 0
          let __x_2 ← decomposed192.add __s.2.2.1 __x_1.1 __s.1
          pure (ForInStep.yield (__x_2.2, __x.1, __x_2.1, __s.2.2.2 + 2))
        else pure (ForInStep.done (__s.1, __s.2.1, __s.2.2.1, __s.2.2.2))) >>= K)
     = (logIter sqr n i (t, frc, res) >>= fun s => K (s.1, s.2.1, s.2.2, 35)) := by
  induction n with
  | zero =>
    intro t frc res i hi
    rw [Go.loop_unfold]
    have h27 : i = 35 := by
      apply UInt64.toNat_inj.mp; simpa using hi
    subst h27
    simp only [logIter]
    rfl
  | succ n ih =>
    intro t frc res i hi
    rw [Go.loop_unfold]
    have hle : i ≤ 33 := by rw [UInt64.le_iff_toNat_le]; have : (33 : UInt64).toNat = 33 := rfl; omega
    simp only [hle, decide_true, if_true, logIter, logTerm, small]
    simp only [bind_assoc, pure_bind]
    refine congrArg _ (funext fun x => ?_)
    refine congrArg _ (funext fun x1 => ?_)
    refine congrArg _ (funext fun x2 => ?_)
    refine ih _ _ _ _ ?_
    rw [u64_succ2 i (by omega)]; omega

end LogAcc

namespace LogAcc

/-- **Staged normal form of `decomposed192.log`.** -/
theorem log_eq (d : decomposed192) :
    Gen.decomposed192.log d = (do
      let t ← U192.log10 d.sig
      let m ← U192.msd2 d.sig
      let d1 ← logScale { sig := d.sig, exp := -(Go.conv t : Int16) }
      logMain (d.exp + (Go.conv t : Int16)) (if decide (m < 10) = true then m * 10 else m) d1) := by
  unfold Gen.decomposed192.log logScale logMain
  simp only [bind_assoc, pure_bind]
  refine congrArg _ (funext fun t => ?_)
  refine congrArg _ (funext fun m => ?_)
  refine congrArg _ (funext fun s1 => ?_)
  refine congrArg _ (funext fun s2 => ?_)
  refine congrArg _ (funext fun s3 => ?_)
  have key : ∀ (M : Int64),
      (if decide (M > 10) = true then do
        let __x ← s3.quo { sig := { w0 := Go.conv M, w1 := 0, w2 := 0 }, exp := -1 } 0
        let __x_1 ← __x.1.sub1 0
        let __x_2 ← __x.1.add1 0
        let __x ← __x_1.2.1.quo __x_2.1 __x.2
        let __x_3 ← __x.1.pow2 0
        let __s ←
          forIn (m := Go.GoM) Lean.Loop.mk (__x.2, __x.1, __x.1, (3 : UInt64)) fun x __s =>
              if decide (__s.2.2.2 ≤ 33) = true then do
                let __x ← __s.2.1.mul __x_3.1 0
                let __x_4 ← __x.1.quo { sig := { w0 := __s.2.2.2, w1 := 0, w2 := 0 }, exp := 0 } 0
                let __x_5 ← __s.2.2.1.add __x_4.1 __s.1
                pure (ForInStep.yield (__x_5.2, __x.1, __x_5.1, __s.2.2.2 + 2))
              else pure (ForInStep.done (__s.1, __s.2.1, __s.2.2.1, __s.2.2.2))
        logTail (d.exp + Go.conv t) M __s.2.2.1 __s.1
      else do
        let __x ← s3.sub1 0
        let __x_1 ← s3.add1 0
        let __x ← __x.2.1.quo __x_1.1 0
        let __x_2 ← __x.1.pow2 0
        let __s ←
          forIn (m := Go.GoM) Lean.Loop.mk (__x.2, __x.1, __x.1, (3 : UInt64)) fun x __s =>
              if decide (__s.2.2.2 ≤ 33) = true then do
                let __x ← __s.2.1.mul __x_2.1 0
                let __x_3 ← __x.1.quo { sig := { w0 := __s.2.2.2, w1 := 0, w2 := 0 }, exp := 0 } 0
                let __x_4 ← __s.2.2.1.add __x_3.1 __s.1
                pure (ForInStep.yield (__x_4.2, __x.1, __x_4.1, __s.2.2.2 + 2))
              else pure (ForInStep.done (__s.1, __s.2.1, __s.2.2.1, __s.2.2.2))
        logTail (d.exp + Go.conv t) M __s.2.2.1 __s.1)
      = (do
        let r ← logReduce s3 M
        let s ← logSeries r.1 r.2
        logTail (d.exp + Go.conv t) M s.1 s.2) := by
    intro M
    unfold logReduce logSeries msdDiv
    by_cases h2 : M > 10
    · simp only [h2, decide_true, if_true, bind_assoc, pure_bind]
      refine congrArg _ (funext fun a => ?_)
      refine congrArg _ (funext fun b => ?_)
      refine congrArg _ (funext fun c => ?_)
      refine congrArg _ (funext fun e => ?_)
      refine congrArg _ (funext fun f => ?_)
      exact logLoop_eq f.1 (fun __s => logTail (d.exp + Go.conv t) M __s.2.2.1 __s.1) 16 _ _ _ _ (by decide)
    · simp only [h2, decide_false, Bool.false_eq_true, if_false, bind_assoc, pure_bind]
      refine congrArg _ (funext fun b => ?_)
      refine congrArg _ (funext fun c => ?_)
      refine congrArg _ (funext fun e => ?_)
      refine congrArg _ (funext fun f => ?_)
      exact logLoop_eq f.1 (fun __s => logTail (d.exp + Go.conv t) M __s.2.2.1 __s.1) 16 _ _ _ _ (by decide)
  by_cases h1 : m < 10
  · simp only [h1, decide_true, if_true]
    rw [← key (m * 10)]
    unfold logTail small
    by_cases h2 : m * 10 > 10 <;> by_cases h3 : d.exp + Go.conv t < 0 <;>
      simp only [h2, h3, decide_true, decide_false, if_true, if_false, Bool.false_eq_true, bind_assoc,
        pure_bind]
  · simp only [h1, decide_false, Bool.false_eq_true, if_false]
    rw [← key m]
    unfold logTail small
    by_cases h2 : m > 10 <;> by_cases h3 : d.exp + Go.conv t < 0 <;>
      simp only [h2, h3, decide_true, decide_false, if_true, if_false, Bool.false_eq_true, bind_assoc,
        pure_bind]

end LogAcc
