/-
  D128/Proofs/ExpAccPow2Math.lean — arithmetic behind the stage `exp2Pow` of `Gen.Exp2` (`2^n` as a
  working-format number): the error-budget relation `NearN`, the invariants `PA` (the `/10`‑and‑renormalise
  loop for `n ≥ 256`) and `PB` (the `/10^19` loop), and their initial / step / exit lemmas, all about `ℕ`
  values of the machine words.  Used by `D128/Proofs/ExpAccPow2.lean`.

  Provided (namespace `ExpAcc`):
  * `NearN V T b`           : `V ≤ T ∧ T·2^255 ≤ V·2^255 + T·b`   (`V` is `T` up to the relative error `b/2^255`)
  * `NearN.mono`, `near_refl`, `near_div10`, `near_div1e19`, `NearN.rat`
  * `lsh_clz_exact`        : a 256-bit value in `[2^251, 2^255)` has `z ≥ 1` leading zeros in its top word,
                             shifting left by `s ≤ z` is exact, by `z` sets the top bit
  * `PA n t e shift x`, `PB n t e x`, `Post n s e t`
  * `PA_init`, `PA_body`, `PA_step`, `PA_break`, `PB_of_exact`, `PB_step`, `PB_post`
  * `post_exact`, `post_small0`, `post_small1` (the two one-word cases `n < 64`, `64 ≤ n < 128`)
-/
import D128.Proofs.TotalExp2
import Mathlib.Tactic.Ring
import Mathlib.Tactic.Linarith
import Mathlib.Tactic.NormNum
import Mathlib.Tactic.Positivity
import Mathlib.Tactic.FieldSimp
set_option autoImplicit false
set_option exponentiation.threshold 32768
set_option maxRecDepth 16384
set_option linter.unusedVariables false

namespace ExpAcc
open D128.Proofs.Total D128.Proofs.WordsWide

/-! ## the error budget -/

/-- `V` approximates `T` from below with relative error at most `b / 2^255` -/
def NearN (V T b : ℕ) : Prop := V ≤ T ∧ T * 2 ^ 255 ≤ V * 2 ^ 255 + T * b

theorem near_refl (T b : ℕ) : NearN T T b := ⟨le_refl _, Nat.le_add_right _ _⟩

theorem NearN.mono {V T b b' : ℕ} (h : NearN V T b) (hb : b ≤ b') : NearN V T b' :=
  ⟨h.1, h.2.trans (Nat.add_le_add_left (Nat.mul_le_mul_left _ hb) _)⟩

/-- one truncating division by ten of a value with the top bit set, followed by an exact shift -/
theorem near_div10 {x P T j q r s : ℕ} (hx : x = 10 * q + r) (hr : r < 10) (hx255 : 2 ^ 255 ≤ x)
    (h : NearN (x * P) T (10 * j)) :
    NearN (q * 2 ^ s * (P * 10)) (T * 2 ^ s) (10 * (j + 1)) := by
  obtain ⟨h1, h2⟩ := h
  have hA : P * 2 ^ 255 ≤ T := by
    calc P * 2 ^ 255 = 2 ^ 255 * P := Nat.mul_comm _ _
      _ ≤ x * P := Nat.mul_le_mul_right _ hx255
      _ ≤ T := h1
  have hrA : r * (P * 2 ^ 255) ≤ 9 * (P * 2 ^ 255) := Nat.mul_le_mul_right _ (by omega)
  have hV : q * (P * 10) ≤ T := by
    calc q * (P * 10) = (10 * q) * P := by ring
      _ ≤ x * P := Nat.mul_le_mul_right _ (by omega)
      _ ≤ T := h1
  have key : T * 2 ^ 255 ≤ q * (P * 10) * 2 ^ 255 + T * (10 * (j + 1)) := by
    subst hx
    generalize (2 : ℕ) ^ 255 = B at *
    nlinarith [hA, hrA, h2]
  refine ⟨?_, ?_⟩
  · calc q * 2 ^ s * (P * 10) = q * (P * 10) * 2 ^ s := by ring
      _ ≤ T * 2 ^ s := Nat.mul_le_mul_right _ hV
  · calc T * 2 ^ s * 2 ^ 255 = T * 2 ^ 255 * 2 ^ s := by ring
      _ ≤ (q * (P * 10) * 2 ^ 255 + T * (10 * (j + 1))) * 2 ^ s := Nat.mul_le_mul_right _ key
      _ = q * 2 ^ s * (P * 10) * 2 ^ 255 + T * 2 ^ s * (10 * (j + 1)) := by ring

/-- one truncating division by `10^19` of a value `≥ 2^192` -/
theorem near_div1e19 {x P T b q r : ℕ} (hx : x = 10 ^ 19 * q + r) (hr : r < 10 ^ 19)
    (hx192 : 2 ^ 192 ≤ x) (h : NearN (x * P) T b) :
    NearN (q * (P * 10 ^ 19)) T (b + 10 ^ 19 * 2 ^ 63) := by
  obtain ⟨h1, h2⟩ := h
  have hA : P * 2 ^ 192 ≤ T := by
    calc P * 2 ^ 192 = 2 ^ 192 * P := Nat.mul_comm _ _
      _ ≤ x * P := Nat.mul_le_mul_right _ hx192
      _ ≤ T := h1
  have hrA : r * (P * 2 ^ 192) ≤ 10 ^ 19 * (P * 2 ^ 192) := Nat.mul_le_mul_right _ hr.le
  have hV : q * (P * 10 ^ 19) ≤ T := by
    calc q * (P * 10 ^ 19) = (10 ^ 19 * q) * P := by ring
      _ ≤ x * P := Nat.mul_le_mul_right _ (by omega)
      _ ≤ T := h1
  refine ⟨hV, ?_⟩
  subst hx
  have e255 : (2 : ℕ) ^ 255 = 2 ^ 63 * 2 ^ 192 := by norm_num
  rw [e255]
  generalize (2 : ℕ) ^ 192 = B at *
  generalize (2 : ℕ) ^ 63 = C at *
  generalize (10 : ℕ) ^ 19 = D at *
  have h3 : r * (P * B) * C ≤ D * (P * B) * C := Nat.mul_le_mul_right _ hrA
  have h4 : D * (P * B) * C ≤ D * T * C := by
    have := Nat.mul_le_mul_left D hA
    exact Nat.mul_le_mul_right _ this
  nlinarith [h3, h4, h2]

/-- the budget read as a relative error in `ℚ` -/
theorem NearN.rat {V T b : ℕ} (h : NearN V T b) (hb : b * 10 ^ 38 ≤ 2 ^ 255) :
    (V : ℚ) ≤ (T : ℚ) ∧ (T : ℚ) * (1 - 1 / 10 ^ 38) ≤ (V : ℚ) := by
  obtain ⟨h1, h2⟩ := h
  refine ⟨by exact_mod_cast h1, ?_⟩
  have h3 : T * b * 10 ^ 38 ≤ T * 2 ^ 255 := by
    rw [Nat.mul_assoc]; exact Nat.mul_le_mul_left _ hb
  have h2' : (T : ℚ) * 2 ^ 255 ≤ (V : ℚ) * 2 ^ 255 + (T : ℚ) * b := by exact_mod_cast h2
  have h3' : (T : ℚ) * b * 10 ^ 38 ≤ (T : ℚ) * 2 ^ 255 := by exact_mod_cast h3
  have hT : (0 : ℚ) ≤ T := Nat.cast_nonneg _
  have e : (T : ℚ) * (1 - 1 / 10 ^ 38) = T - T / 10 ^ 38 := by ring
  rw [e]
  have h4 : (T : ℚ) * b ≤ T * 2 ^ 255 / 10 ^ 38 := by
    rw [le_div_iff₀ (by positivity)]; exact h3'
  have h5 : ((T : ℚ) - T / 10 ^ 38) * 2 ^ 255 ≤ (V : ℚ) * 2 ^ 255 := by
    have : ((T : ℚ) - T / 10 ^ 38) * 2 ^ 255 = T * 2 ^ 255 - T * 2 ^ 255 / 10 ^ 38 := by ring
    rw [this]; linarith
  exact le_of_mul_le_mul_right h5 (by positivity)

/-! ## the renormalising shift -/

/-- a 256-bit value in `[2^251, 2^255)` (the quotient by ten of a value with the top bit set): the count `z` of
leading zeros of the top word is positive, shifting left by `s ≤ z` loses nothing, shifting by `z` sets the top
bit -/
theorem lsh_clz_exact (x : U256) (h1 : 2 ^ 251 ≤ x.toNat) (h2 : x.toNat < 2 ^ 255) :
    1 ≤ (Go.conv (Go.bits.LeadingZeros64 x.w3) : UInt64).toNat ∧
    (Go.conv (Go.bits.LeadingZeros64 x.w3) : UInt64).toNat ≤ 4 ∧
    2 ^ 255 ≤ x.toNat * 2 ^ (Go.conv (Go.bits.LeadingZeros64 x.w3) : UInt64).toNat ∧
    ∀ s : UInt64, s.toNat ≤ (Go.conv (Go.bits.LeadingZeros64 x.w3) : UInt64).toNat →
      (Gen.U256.lsh x s).toNat = x.toNat * 2 ^ s.toNat := by
  have hw0 := x.w0.toNat_lt; have hw1 := x.w1.toNat_lt; have hw2 := x.w2.toNat_lt
  have hx : x.toNat = x.w0.toNat + x.w1.toNat * 2^64 + x.w2.toNat * 2^128 + x.w3.toNat * 2^192 := rfl
  have hw3 : x.w3 ≠ 0 := by
    intro h0
    rw [h0] at hx
    simp only [UInt64.toNat_zero] at hx
    omega
  obtain ⟨L, hL1, hL2, hlo, hhi, hz⟩ := Go.bits.LeadingZeros64_spec x.w3 hw3
  generalize (Go.conv (Go.bits.LeadingZeros64 x.w3) : UInt64) = z at *
  have hxlo : 2^(L-1) * 2^192 ≤ x.toNat := by
    have := Nat.mul_le_mul_right (2^192) hlo
    omega
  have hxhi : x.toNat < 2^L * 2^192 := by
    have : (x.w3.toNat + 1) * 2^192 ≤ 2^L * 2^192 := Nat.mul_le_mul_right _ hhi
    omega
  have hL63 : L ≤ 63 := by
    by_contra hc
    have hL : L = 64 := by omega
    subst hL
    have : (2:Nat)^(64-1) * 2^192 = 2^255 := by norm_num
    omega
  have hL60 : 60 ≤ L := by
    by_contra hc
    have : (2:ℕ) ^ L * 2 ^ 192 ≤ 2 ^ 251 := by
      rw [← Nat.pow_add]; exact Nat.pow_le_pow_right (by norm_num) (by omega)
    omega
  have hpow : ∀ s : Nat, s ≤ 64 - L → x.toNat * 2^s < 2^256 := by
    intro s hs
    calc x.toNat * 2^s < (2^L * 2^192) * 2^s := Nat.mul_lt_mul_of_pos_right hxhi (Nat.two_pow_pos _)
      _ = 2^(L + 192 + s) := by rw [← Nat.pow_add, ← Nat.pow_add]
      _ ≤ 2^256 := Nat.pow_le_pow_right (by norm_num) (by omega)
  refine ⟨by omega, by omega, ?_, ?_⟩
  · rw [hz]
    calc (2:Nat)^255 = 2^(L - 1 + 192 + (64 - L)) := by congr 1; omega
      _ = (2^(L-1) * 2^192) * 2^(64 - L) := by rw [← Nat.pow_add, ← Nat.pow_add]
      _ ≤ x.toNat * 2^(64 - L) := Nat.mul_le_mul_right _ hxlo
  · intro s hs
    rw [U256_lsh_toNat, Nat.mod_eq_of_lt (hpow _ (by omega))]

theorem shl_one_toNat (x : UInt64) (h : x.toNat < 64) :
    (Go.shl (1 : UInt64) (Go.idx x)).toNat = 2 ^ x.toNat := by
  rw [D128.Proofs.WordsWide.shl_toNat]
  simp only [UInt64.toNat_one, Nat.one_mul]
  exact Nat.mod_eq_of_lt (Nat.pow_lt_pow_right (by norm_num) h)

/-! ## invariants -/

/-- the exponent as a natural number -/
abbrev J (e : Int16) : ℕ := e.toInt.toNat

/-- invariant at the head of the `/10` loop (`n ≥ 256`): `x` has the top bit set and `x·10^e` is `2^(n - shift)`
up to the relative error `10·e / 2^255`; flag `0` only if exact -/
def PA (n : ℕ) (t : Int8) (e : Int16) (shift x : ℕ) : Prop :=
  0 ≤ e.toInt ∧ 1 ≤ shift ∧ J e + shift + 255 ≤ n ∧ 2 ^ 255 ≤ x ∧ x < 2 ^ 256 ∧
  NearN (x * 10 ^ J e) (2 ^ (n - shift)) (10 * J e) ∧ (t = 0 → x * 10 ^ J e = 2 ^ (n - shift)) ∧
  (t = 0 ∨ t = 1)

/-- invariant of the `/10^19` loop: after `c` divisions `x·10^e` is `2^n` up to the relative error
`(203850 + c·10^19·2^63) / 2^255`, and `x ≥ 10^38`; flag `0` only if exact -/
def PB (n : ℕ) (t : Int8) (e : Int16) (x : ℕ) : Prop :=
  0 ≤ e.toInt ∧
  (∃ c : ℕ, x * 10 ^ (19 * c) < 2 ^ 256 ∧ NearN (x * 10 ^ J e) (2 ^ n) (203850 + c * (10 ^ 19 * 2 ^ 63)) ∧
    J e ≤ 20385 + 19 * c) ∧
  10 ^ 38 ≤ x ∧ (t = 0 → x * 10 ^ J e = 2 ^ n) ∧ (t = 0 ∨ t = 1)

/-- what `exp2Pow` hands to its continuation for `1 ≤ n ≤ 20640` -/
def Post (n : ℕ) (s : U192) (e : Int16) (t : Int8) : Prop :=
  (s.toNat : ℚ) * (10 : ℚ) ^ e.toInt ≤ (2 : ℚ) ^ n ∧
  (2 : ℚ) ^ n * (1 - 1 / 10 ^ 38) ≤ (s.toNat : ℚ) * (10 : ℚ) ^ e.toInt ∧
  (t = 0 ∨ t = 1) ∧ (t = 0 → (s.toNat : ℚ) * (10 : ℚ) ^ e.toInt = (2 : ℚ) ^ n) ∧
  0 ≤ e.toInt ∧ e.toInt ≤ 6175 ∧ 1 ≤ s.toNat ∧
  (n < 128 → s.toNat = 2 ^ n ∧ e = 0 ∧ t = 0) ∧
  (128 ≤ n → 10 ^ 38 ≤ s.toNat)

theorem i16_zero_toInt : (0 : Int16).toInt = 0 := rfl
theorem J_zero : J 0 = 0 := rfl

theorem J_add (e c : Int16) (h0 : 0 ≤ e.toInt) (hc0 : 0 ≤ c.toInt) (h1 : e.toInt + c.toInt < 2 ^ 15) :
    0 ≤ (e + c).toInt ∧ J (e + c) = J e + J c := by
  have := i16_add_toInt e c (by omega) h1
  unfold J
  rw [this]
  omega

/-! ### the `/10` loop -/

theorem PA_init (n : ℕ) (h : 256 ≤ n) : PA n 0 0 (n - 255) (2 ^ 255) := by
  have e : n - (n - 255) = 255 := by omega
  refine ⟨le_refl _, by omega, ?_, le_refl _, by norm_num, ?_, ?_, Or.inl rfl⟩
  · rw [J_zero]; omega
  · rw [J_zero, e, pow_zero, Nat.mul_one]; exact near_refl _ _
  · intro _; rw [J_zero, e, pow_zero, Nat.mul_one]

/-- the common part of the two ways through the body of the `/10` loop -/
theorem PA_body {n : ℕ} (hn : n ≤ 20640) {t t' : Int8} {e : Int16} {shift : ℕ} {x q : U256} {r : UInt64}
    (h : PA n t e shift x.toNat) (hq : q.toNat = x.toNat / 10) (hr : r.toNat = x.toNat % 10)
    (ht : t' = 1 ∨ (t' = t ∧ r = 0)) (s : ℕ) (hs : s ≤ shift) :
    0 ≤ (e + 1).toInt ∧ J (e + 1) = J e + 1 ∧ 2 ^ 251 ≤ q.toNat ∧ q.toNat < 2 ^ 255 ∧
    NearN (q.toNat * 2 ^ s * 10 ^ J (e + 1)) (2 ^ (n - (shift - s))) (10 * J (e + 1)) ∧
    (t' = 0 → q.toNat * 2 ^ s * 10 ^ J (e + 1) = 2 ^ (n - (shift - s))) ∧ (t' = 0 ∨ t' = 1) := by
  obtain ⟨h0, h1, h2, h3, h4, h5, h6, h7⟩ := h
  have hJ : e.toInt = (J e : ℤ) := by unfold J; omega
  obtain ⟨a1, a2⟩ := J_add e 1 h0 (by decide) (by
    have : (1 : Int16).toInt = 1 := rfl
    rw [this]; norm_num; omega)
  have hJ1 : J (1 : Int16) = 1 := rfl
  rw [hJ1] at a2
  have hxe : x.toNat = 10 * q.toNat + r.toNat := by rw [hq, hr]; omega
  have hr10 : r.toNat < 10 := by rw [hr]; omega
  have hpow : (2 : ℕ) ^ (n - (shift - s)) = 2 ^ (n - shift) * 2 ^ s := by
    rw [← Nat.pow_add]; congr 1; omega
  refine ⟨a1, a2, by omega, by omega, ?_, ?_, ?_⟩
  · rw [a2, hpow, pow_succ]
    exact near_div10 hxe hr10 h3 h5
  · intro ht0
    have hr0 : r.toNat = 0 := by
      rcases ht with ht | ⟨_, ht⟩
      · rw [ht] at ht0; exact absurd ht0 (by decide)
      · rw [ht]; rfl
    have htt : t = 0 := by
      rcases ht with ht | ⟨ht, _⟩
      · rw [ht] at ht0; exact absurd ht0 (by decide)
      · rw [← ht]; exact ht0
    have := h6 htt
    rw [a2, hpow, pow_succ, ← this, hxe, hr0]
    ring
  · rcases ht with ht | ⟨ht, _⟩
    · exact Or.inr ht
    · rw [ht]; exact h7

/-- the `/10` loop continues: the remaining shift exceeds the number `z` of leading zeros -/
theorem PA_step {n : ℕ} (hn : n ≤ 20640) {t t' : Int8} {e : Int16} {shift : UInt64} {x q : U256} {r : UInt64}
    (h : PA n t e shift.toNat x.toNat) (hq : q.toNat = x.toNat / 10) (hr : r.toNat = x.toNat % 10)
    (ht : t' = 1 ∨ (t' = t ∧ r = 0))
    (hz : (Go.conv (Go.bits.LeadingZeros64 q.w3) : UInt64) < shift) :
    (shift - (Go.conv (Go.bits.LeadingZeros64 q.w3) : UInt64)).toNat < shift.toNat ∧
    PA n t' (e + 1) (shift - (Go.conv (Go.bits.LeadingZeros64 q.w3) : UInt64)).toNat
      (Gen.U256.lsh q (Go.conv (Go.bits.LeadingZeros64 q.w3) : UInt64)).toNat := by
  rw [UInt64.lt_iff_toNat_lt] at hz
  obtain ⟨b1, b2, b3, b4, b5, b6, b7⟩ := PA_body hn h hq hr ht _ hz.le
  obtain ⟨c1, c2, c3, c4⟩ := lsh_clz_exact q b3 b4
  have hsub := UInt64.toNat_sub_of_le shift _ (UInt64.le_iff_toNat_le.2 hz.le)
  obtain ⟨h0, h1, h2, h3, h4, h5, h6, h7⟩ := h
  rw [hsub, c4 _ (le_refl _)]
  refine ⟨by omega, b1, by omega, by omega, c3, ?_, b5, b6, b7⟩
  rw [← c4 _ (le_refl _)]; exact U256.toNat_lt _

/-- the `/10` loop ends: the remaining shift is at most the number of leading zeros -/
theorem PA_break {n : ℕ} (hn : n ≤ 20640) {t t' : Int8} {e : Int16} {shift : UInt64} {x q : U256} {r : UInt64}
    (h : PA n t e shift.toNat x.toNat) (hq : q.toNat = x.toNat / 10) (hr : r.toNat = x.toNat % 10)
    (ht : t' = 1 ∨ (t' = t ∧ r = 0))
    (hz : ¬ (Go.conv (Go.bits.LeadingZeros64 q.w3) : UInt64) < shift) :
    PB n t' (e + 1) (Gen.U256.lsh q shift).toNat := by
  rw [UInt64.lt_iff_toNat_lt, Nat.not_lt] at hz
  obtain ⟨b1, b2, b3, b4, b5, b6, b7⟩ := PA_body hn h hq hr ht _ (le_refl shift.toNat)
  obtain ⟨c1, c2, c3, c4⟩ := lsh_clz_exact q b3 b4
  obtain ⟨h0, h1, h2, h3, h4, h5, h6, h7⟩ := h
  have e0 : n - (shift.toNat - shift.toNat) = n := by omega
  rw [e0] at b5 b6
  have hlsh := c4 _ hz
  have hge : q.toNat ≤ q.toNat * 2 ^ shift.toNat := Nat.le_mul_of_pos_right _ (Nat.two_pow_pos _)
  rw [hlsh]
  refine ⟨b1, ⟨0, ?_, ?_, by omega⟩, ?_, b6, b7⟩
  · rw [Nat.mul_zero, pow_zero, Nat.mul_one, ← hlsh]; exact U256.toNat_lt _
  · rw [Nat.zero_mul, Nat.add_zero]; exact b5.mono (by omega)
  · have : (10 : ℕ) ^ 38 ≤ 2 ^ 251 := by norm_num
    omega

/-! ### the `/10^19` loop -/

theorem PB_of_exact (n : ℕ) (h1 : 128 ≤ n) (h2 : n < 256) : PB n 0 0 (2 ^ n) := by
  refine ⟨le_refl _, ⟨0, ?_, ?_, ?_⟩, ?_, ?_, Or.inl rfl⟩
  · rw [Nat.mul_zero, pow_zero, Nat.mul_one]; exact Nat.pow_lt_pow_right (by norm_num) h2
  · rw [J_zero, pow_zero, Nat.mul_one]; exact near_refl _ _
  · rw [J_zero]; omega
  · calc (10 : ℕ) ^ 38 ≤ 2 ^ 128 := by norm_num
      _ ≤ 2 ^ n := Nat.pow_le_pow_right (by norm_num) h1
  · intro _; rw [J_zero, pow_zero, Nat.mul_one]

theorem PB_step {n : ℕ} {t t' : Int8} {e : Int16} {x q : U256} {r : UInt64}
    (h : PB n t e x.toNat) (hq : q.toNat = x.toNat / 10000000000000000000)
    (hr : r.toNat = x.toNat % 10000000000000000000)
    (ht : t' = 1 ∨ (t' = t ∧ r = 0)) (hw : 2 ^ 192 ≤ x.toNat) :
    q.toNat < x.toNat ∧ PB n t' (e + 19) q.toNat := by
  obtain ⟨h0, ⟨c, hc1, hc2, hc3⟩, h3, h4, h5⟩ := h
  have e19 : (10000000000000000000 : ℕ) = 10 ^ 19 := by norm_num
  rw [e19] at hq hr
  have hc : c ≤ 1 := by
    by_contra hcon
    have h38 : (10 : ℕ) ^ 38 ≤ 10 ^ (19 * c) := Nat.pow_le_pow_right (by norm_num) (by omega)
    have : 2 ^ 192 * 10 ^ 38 ≤ x.toNat * 10 ^ (19 * c) := Nat.mul_le_mul hw h38
    have : (2 : ℕ) ^ 256 ≤ 2 ^ 192 * 10 ^ 38 := by norm_num
    omega
  obtain ⟨a1, a2⟩ := J_add e 19 h0 (by decide) (by
    have : (19 : Int16).toInt = 19 := rfl
    rw [this]; norm_num; unfold J at hc3; omega)
  have hJ19 : J (19 : Int16) = 19 := rfl
  rw [hJ19] at a2
  have hxe : x.toNat = 10 ^ 19 * q.toNat + r.toNat := by rw [hq, hr]; omega
  have hr19 : r.toNat < 10 ^ 19 := by rw [hr]; exact Nat.mod_lt _ (by norm_num)
  have hqlt : q.toNat < x.toNat := by
    rw [hq]; exact Nat.div_lt_self (by omega) (by norm_num)
  refine ⟨hqlt, a1, ⟨c + 1, ?_, ?_, by omega⟩, ?_, ?_, ?_⟩
  · calc q.toNat * 10 ^ (19 * (c + 1)) = (10 ^ 19 * q.toNat) * 10 ^ (19 * c) := by
          rw [Nat.mul_add, pow_add]; ring
      _ ≤ x.toNat * 10 ^ (19 * c) := Nat.mul_le_mul_right _ (by omega)
      _ < 2 ^ 256 := hc1
  · have := near_div1e19 hxe hr19 hw hc2
    rw [a2, pow_add]
    have eb : 203850 + (c + 1) * (10 ^ 19 * 2 ^ 63) = 203850 + c * (10 ^ 19 * 2 ^ 63) + 10 ^ 19 * 2 ^ 63 := by
      ring
    rw [eb]; exact this
  · rw [hq, Nat.le_div_iff_mul_le (by norm_num)]
    have : (10 : ℕ) ^ 38 * 10 ^ 19 ≤ 2 ^ 192 := by norm_num
    omega
  · intro ht0
    have hr0 : r.toNat = 0 := by
      rcases ht with ht | ⟨_, ht⟩
      · rw [ht] at ht0; exact absurd ht0 (by decide)
      · rw [ht]; rfl
    have htt : t = 0 := by
      rcases ht with ht | ⟨ht, _⟩
      · rw [ht] at ht0; exact absurd ht0 (by decide)
      · rw [← ht]; exact ht0
    rw [a2, pow_add, ← h4 htt, hxe, hr0]
    ring
  · rcases ht with ht | ⟨ht, _⟩
    · exact Or.inr ht
    · rw [ht]; exact h5

theorem two_pow_20640_lt : (2 : ℕ) ^ 20640 < 10 ^ 6214 := by norm_num

/-- the `/10^19` loop has ended: the low three words are what `exp2Pow` passes on -/
theorem PB_post {n : ℕ} (h128 : 128 ≤ n) (hn : n ≤ 20640) {t : Int8} {e : Int16} {x : U256}
    (h : PB n t e x.toNat) (hw : x.toNat < 2 ^ 192) :
    Post n (U192.mk x.w0 x.w1 x.w2) e t := by
  obtain ⟨h0, ⟨c, hc1, hc2, hc3⟩, h3, h4, h5⟩ := h
  have hs : (U192.mk x.w0 x.w1 x.w2).toNat = x.toNat := by
    rw [U256.low192]; exact Nat.mod_eq_of_lt hw
  have hc : c ≤ 2 := by
    by_contra hcon
    have h57 : (10 : ℕ) ^ 57 ≤ 10 ^ (19 * c) := Nat.pow_le_pow_right (by norm_num) (by omega)
    have : 10 ^ 38 * 10 ^ 57 ≤ x.toNat * 10 ^ (19 * c) := Nat.mul_le_mul h3 h57
    have : (2 : ℕ) ^ 256 ≤ 10 ^ 38 * 10 ^ 57 := by norm_num
    omega
  have hb : (203850 + c * (10 ^ 19 * 2 ^ 63)) * 10 ^ 38 ≤ 2 ^ 255 := by
    have : c * (10 ^ 19 * 2 ^ 63) ≤ 2 * (10 ^ 19 * 2 ^ 63) := Nat.mul_le_mul_right _ hc
    have h2 : (203850 + 2 * (10 ^ 19 * 2 ^ 63)) * 10 ^ 38 ≤ 2 ^ 255 := by norm_num
    exact (Nat.mul_le_mul_right _ (by omega)).trans h2
  obtain ⟨r1, r2⟩ := hc2.rat hb
  have hcast : (x.toNat : ℚ) * (10 : ℚ) ^ e.toInt = ((x.toNat * 10 ^ J e : ℕ) : ℚ) := by
    have : e.toInt = ((J e : ℕ) : ℤ) := by unfold J; omega
    rw [this, zpow_natCast]; push_cast; ring
  have hJ : J e ≤ 6175 := by
    by_contra hcon
    have h1 : (10 : ℕ) ^ 6176 ≤ 10 ^ J e := Nat.pow_le_pow_right (by norm_num) (by omega)
    have h2 : 10 ^ 38 * 10 ^ 6176 ≤ x.toNat * 10 ^ J e := Nat.mul_le_mul h3 h1
    have h3 : (2 : ℕ) ^ n ≤ 2 ^ 20640 := Nat.pow_le_pow_right (by norm_num) hn
    have h4 := two_pow_20640_lt
    have h5 : (10 : ℕ) ^ 38 * 10 ^ 6176 = 10 ^ 6214 := by rw [← pow_add]
    have := hc2.1
    omega
  rw [Post, hs, hcast]
  refine ⟨by simpa using r1, by simpa using r2, h5, ?_, h0, ?_, ?_, ?_, fun _ => h3⟩
  · intro ht; rw [h4 ht]; push_cast; rfl
  · unfold J at hJ; omega
  · have : 0 < (10 : ℕ) ^ 38 := by positivity
    omega
  · intro hlt; omega

/-! ### the one-word cases -/

theorem post_exact {n : ℕ} (hn : n < 128) (s : U192) (hs : s.toNat = 2 ^ n) : Post n s 0 0 := by
  have hz : (0 : Int16).toInt = 0 := rfl
  rw [Post, hs, hz]
  have e1 : (((2 ^ n : ℕ) : ℚ)) * (10 : ℚ) ^ (0 : ℤ) = (2 : ℚ) ^ n := by push_cast; simp
  rw [e1]
  have hpos : (0 : ℚ) < 2 ^ n := by positivity
  refine ⟨le_refl _, ?_, Or.inl rfl, fun _ => rfl, le_refl _, by norm_num, Nat.one_le_two_pow,
    fun _ => ⟨rfl, rfl, rfl⟩, fun h => by omega⟩
  have : (2 : ℚ) ^ n * (1 - 1 / 10 ^ 38) = 2 ^ n - 2 ^ n / 10 ^ 38 := by ring
  rw [this]
  have : (0 : ℚ) ≤ 2 ^ n / 10 ^ 38 := by positivity
  linarith

theorem post_small0 (x : UInt64) (w1 w2 : UInt64) (h1 : w1 = 0) (h2 : w2 = 0) (h : x.toNat < 64) :
    Post x.toNat (U192.mk (Go.shl (1 : UInt64) (Go.idx x)) w1 w2) 0 0 := by
  apply post_exact (by omega)
  rw [U192.toNat_mk, shl_one_toNat x h, h1, h2]; simp

theorem post_small1 (x : UInt64) (w0 w2 : UInt64) (h0 : w0 = 0) (h2 : w2 = 0) (h64 : 64 ≤ x.toNat)
    (h : x.toNat < 128) :
    Post x.toNat (U192.mk w0 (Go.shl (1 : UInt64) (Go.idx (x - 64))) w2) 0 0 := by
  apply post_exact h
  have hsub : (x - 64).toNat = x.toNat - 64 := by
    have := UInt64.toNat_sub_of_le x 64 (by rw [UInt64.le_iff_toNat_le]; exact h64)
    rw [this]; rfl
  rw [U192.toNat_mk, shl_one_toNat _ (by omega), h0, h2, hsub]
  simp only [UInt64.toNat_zero, Nat.zero_mul, Nat.add_zero, Nat.zero_add]
  rw [← Nat.pow_add]; congr 1; omega

end ExpAcc
