/-
  D128/Proofs/LogAccOps.lean — the working-format operations in the forms used by the analysis of
  `decomposed192.log` (namespace `LogAcc`; `lam = Root.lam = 1/(25·2^184) ≈ 1.63e-57`).

  * `flag3`                 : `t = 0 ∨ t = 1 ∨ t = -1`
  * `quo_lt`                : `quo` by a divisor that is not truncated (`o.sig < OLIM`): `Q(1-lam) ≤ val r ≤ Q`
  * `quo_small_any`         : `quo` by a small integer, numerator possibly zero
  * `quo_gen`               : `quo` in general, numerator possibly zero: `Q(1-lam) ≤ val r ≤ Q(1+eps)`
  * `mul_any`, `pow2_any`, `add_any` : `Root.mul_rel`, `pow2_contract`, `Root.add_rel` with the flag in `flag3`
  * `sub_abs`               : `sub`: `|val r − |val d − val o|| ≤ lam·max (val d) (val o)`, sign facts
  * `sub1_exact`            : `1 ≤ val d`, `-57 ≤ d.exp ≤ 0` ⇒ `sub1 d 0 = (false, r, 0)`, `val r = val d − 1`, `r.exp = d.exp`
  * `add1_rel`              : `(val d + 1)(1 − 10^-56) ≤ val r ≤ val d + 1`
-/
import D128.Proofs.D192RootOps
import D128.Proofs.D192SubContract
import D128.Proofs.D192OneSub
import D128.Proofs.D192OneAdd
import D128.Proofs.LogAccDefs
set_option autoImplicit false
set_option maxRecDepth 4096
set_option linter.unusedVariables false
namespace LogAcc
open Gen D192 Root

/-- the three values a sticky flag can have -/
def flag3 (t : Int8) : Prop := t = 0 ∨ t = 1 ∨ t = -1

theorem flag3_zero : flag3 0 := Or.inl rfl
theorem flag3_one : flag3 1 := Or.inr (Or.inl rfl)
theorem flag3_of_or {t t' : Int8} (h : flag3 t) (h' : t' = t ∨ t' = 1) : flag3 t' := by
  rcases h' with h' | h'
  · rw [h']; exact h
  · rw [h']; exact flag3_one
theorem flag3_of_or3 {t t' : Int8} (h : flag3 t) (h' : t' = t ∨ t' = 1 ∨ t' = -1) : flag3 t' := by
  rcases h' with h' | h' | h'
  · rw [h']; exact h
  · rw [h']; exact flag3_one
  · rw [h']; exact Or.inr (Or.inr rfl)
theorem flag3_neg {t : Int8} (h : flag3 t) : flag3 (t * -1) := by
  rcases h with h | h | h <;> subst h
  · exact Or.inl (by decide)
  · exact Or.inr (Or.inr (by decide))
  · exact Or.inr (Or.inl (by decide))

theorem lam_lt_one : lam < 1 := lt_of_le_of_lt lam_le (by norm_num)

theorem val_small (i : UInt64) : val (small i) = (i.toNat : ℚ) := by
  simp [val, small, U192.toNat]

theorem small_sig (i : UInt64) : (small i).sig.toNat = i.toNat := by simp [small, U192.toNat]
theorem small_exp (i : UInt64) : (small i).exp.toInt = 0 := by simp [small]

theorem small_lt_OLIM (i : UInt64) : (small i).sig.toNat < OLIM := by
  rw [small_sig]; have := i.toNat_lt; unfold OLIM lim; omega

theorem val_zero_of_sig {d : decomposed192} (h : d.sig.toNat = 0) : val d = 0 := by
  unfold val; rw [h]; simp

theorem zero192_sig : (⟨⟨0, 0, 0⟩, 0⟩ : decomposed192).sig.toNat = 0 := by simp [U192.toNat]
theorem zero192_exp : (⟨⟨0, 0, 0⟩, 0⟩ : decomposed192).exp.toInt = 0 := by simp

/-- `quo` by a divisor below `OLIM` (not truncated): the quotient is truncated downward only. -/
theorem quo_lt (d o : decomposed192) (t : Int8) (hd : d.sig.toNat ≠ 0) (ho : o.sig.toNat ≠ 0)
    (holt : o.sig.toNat < OLIM)
    (hde : -16000 ≤ d.exp.toInt ∧ d.exp.toInt ≤ 16000)
    (hoe : -16000 ≤ o.exp.toInt ∧ o.exp.toInt ≤ 16000) :
    ∃ r t', decomposed192.quo d o t = .ok (r, t') ∧
      val d / val o * (1 - lam) ≤ val r ∧ val r ≤ val d / val o ∧ val d / val o < val r + ulp r ∧
      (t' = t ∨ t' = 1) ∧ 1 ≤ r.sig.toNat ∧
      d.exp.toInt - o.exp.toInt - 118 ≤ r.exp.toInt ∧ r.exp.toInt ≤ d.exp.toInt - o.exp.toInt + 1 ∧
      (r.sig.toNat < LIM → val r = val d / val o ∧ t' = t) := by
  obtain ⟨r, t', o', hr, p0, p1, p2, p3, c1, c2, c3, c4, c5, c6, c7, c8⟩ :=
    quo_contract d o t hd ho hde hoe
  have ho' := p3 holt
  rw [ho'] at c1 c2 c3 c4 c5
  have hx := val_pos_of_sig o ho
  have hν := val_pos_of_sig d hd
  have hl := lam_pos
  refine ⟨r, t', hr, ?_, c1, c2, ?_, c6, c7, c8, ?_⟩
  · rcases c5 with hex | hn
    · rw [hex]
      have : 0 ≤ val d / val o := div_nonneg hν.le hx.le
      nlinarith
    · exact rel_of_norm r _ c1 c2 hn
  · by_cases h : val r = val d / val o ∧ val o = val o
    · exact Or.inl (c3 h)
    · exact Or.inr (c4 h)
  · intro hlt
    have hex : val r = val d / val o := by
      rcases c5 with h | h
      · exact h
      · omega
    exact ⟨hex, c3 ⟨hex, rfl⟩⟩

/-- `quo` by a small positive integer; the numerator may be zero. -/
theorem quo_small_any (F : decomposed192) (i : UInt64) (t : Int8) (hi : i.toNat ≠ 0)
    (hFe : -16000 ≤ F.exp.toInt ∧ F.exp.toInt ≤ 16000) :
    ∃ r t', decomposed192.quo F (small i) t = .ok (r, t') ∧
      val F / i.toNat * (1 - lam) ≤ val r ∧ val r ≤ val F / i.toNat ∧ (t' = t ∨ t' = 1) ∧
      min (F.exp.toInt - 118) 0 ≤ r.exp.toInt ∧ r.exp.toInt ≤ max (F.exp.toInt + 1) 0 := by
  by_cases hF : F.sig.toNat = 0
  · refine ⟨_, _, quo_zero F (small i) t hF, ?_, ?_, Or.inl rfl, ?_, ?_⟩
    · rw [val_zero_of_sig hF, val_zero_of_sig zero192_sig]; simp
    · rw [val_zero_of_sig hF, val_zero_of_sig zero192_sig]; simp
    · rw [zero192_exp]; exact min_le_right _ _
    · rw [zero192_exp]; exact le_max_right _ _
  · have he0 := small_exp i
    obtain ⟨r, t', hr, h1, h2, -, h4, -, h6, h7, -⟩ := quo_lt F (small i) t hF
      (by rw [small_sig]; exact hi) (small_lt_OLIM i) hFe (by rw [he0]; norm_num)
    rw [val_small] at h1 h2
    rw [he0] at h6 h7
    refine ⟨r, t', hr, h1, h2, h4, ?_, ?_⟩
    · exact le_trans (min_le_left _ _) (by omega)
    · exact le_trans (by omega) (le_max_left _ _)

/-- `quo` in general (divisor possibly truncated), the numerator may be zero. -/
theorem quo_gen (d o : decomposed192) (t : Int8) (ho : o.sig.toNat ≠ 0)
    (hde : -16000 ≤ d.exp.toInt ∧ d.exp.toInt ≤ 16000)
    (hoe : -16000 ≤ o.exp.toInt ∧ o.exp.toInt ≤ 16000) :
    ∃ r t', decomposed192.quo d o t = .ok (r, t') ∧
      val d / val o * (1 - lam) ≤ val r ∧ val r ≤ val d / val o * (1 + Root.eps) ∧
      (t' = t ∨ t' = 1) ∧ (d.sig.toNat = 0 → r.sig.toNat = 0) ∧
      min (d.exp.toInt - o.exp.toInt - 118) 0 ≤ r.exp.toInt ∧
      r.exp.toInt ≤ max (d.exp.toInt - o.exp.toInt + 1) 0 := by
  by_cases hd : d.sig.toNat = 0
  · refine ⟨_, _, quo_zero d o t hd, ?_, ?_, Or.inl rfl, fun _ => zero192_sig, ?_, ?_⟩
    · rw [val_zero_of_sig hd, val_zero_of_sig zero192_sig]; simp
    · rw [val_zero_of_sig hd, val_zero_of_sig zero192_sig]; simp
    · rw [zero192_exp]; exact min_le_right _ _
    · rw [zero192_exp]; exact le_max_right _ _
  · obtain ⟨r, t', hr, h1, h2, h3, -, h5, h6, -⟩ := quo_rel d o t hd ho hde hoe
    refine ⟨r, t', hr, h1, h2, h3, fun h => absurd h hd, ?_, ?_⟩
    · exact le_trans (min_le_left _ _) h5
    · exact le_trans h6 (le_max_left _ _)

/-- `pow2`, relative form. -/
theorem pow2_any (d : decomposed192) (t : Int8)
    (hlo : -32768 ≤ 2 * d.exp.toInt) (hhi : 2 * d.exp.toInt + 58 ≤ 32767) :
    ∃ r t', decomposed192.pow2 d t = .ok (r, t') ∧
      val d ^ 2 * (1 - lam) ≤ val r ∧ val r ≤ val d ^ 2 ∧
      2 * d.exp.toInt ≤ r.exp.toInt ∧ r.exp.toInt ≤ 2 * d.exp.toInt + 58 := by
  obtain ⟨r, t', hr, c1, c2, c3, c4, c5, c6, c7⟩ := pow2_contract d t hlo hhi
  refine ⟨r, t', hr, ?_, c1, c5, c6⟩
  by_cases hn : LIM ≤ r.sig.toNat
  · exact rel_of_norm r _ c1 c2 hn
  · have hexp : r.exp.toInt = 2 * d.exp.toInt := by
      rcases c7 with h | h
      · rw [h]
        have e2 : d.exp * 2 = d.exp + d.exp := by rw [Int16.mul_two]
        rw [e2, Int16.toInt_add_of] <;> omega
      · exfalso; unfold LIM at hn; omega
    -- exact: both sides are multiples of 10^(2e)
    have hu : (0 : ℚ) < (10 : ℚ) ^ (2 * d.exp.toInt) := zpow_pos (by norm_num) _
    have hsq : val d ^ 2 = ((d.sig.toNat * d.sig.toNat : Nat) : ℚ) * (10 : ℚ) ^ (2 * d.exp.toInt) := by
      rw [pow_two, val_mul]; congr 2; ring
    have hrv : val r = (r.sig.toNat : ℚ) * (10 : ℚ) ^ (2 * d.exp.toInt) := by unfold val; rw [hexp]
    have hul : ulp r = (10 : ℚ) ^ (2 * d.exp.toInt) := by unfold ulp; rw [hexp]
    have heq : r.sig.toNat = d.sig.toNat * d.sig.toNat := by
      apply grid_exact _ _ _ hu
      · rw [← hrv, ← hsq]; exact c1
      · rw [← hrv, ← hsq, ← hul]; exact c2
    have : val r = val d ^ 2 := by rw [hrv, hsq, heq]
    rw [this]
    have h0 : 0 ≤ val d ^ 2 := by positivity
    have := lam_pos
    nlinarith

/-- `sub`: magnitude within `lam·max` of the exact difference, sign facts, flag in `flag3`. -/
theorem sub_abs (d o : decomposed192) (t : Int8) (ht : flag3 t)
    (hlo : -32767 ≤ d.exp.toInt - o.exp.toInt) (hhi : d.exp.toInt - o.exp.toInt ≤ 32767) :
    ∃ neg r t', decomposed192.sub d o t = .ok (neg, r, t') ∧
      |val r - (|val d - val o|)| ≤ lam * max (val d) (val o) ∧ flag3 t' ∧
      (neg = true → val d < val o) ∧ (val d < val o → neg = true ∨ r.sig.toNat = 0) ∧
      min d.exp.toInt o.exp.toInt ≤ r.exp.toInt ∧ r.exp.toInt ≤ max d.exp.toInt o.exp.toInt := by
  obtain ⟨neg, r, t', hr, b1, b2, b3, e1, e2, e3, e4⟩ := sub_contract d o t hlo hhi
  have hu := ulp_pos r
  have hvr := val_nonneg r
  have hvd := val_nonneg d
  have hvo := val_nonneg o
  have hl := lam_pos
  have hmax0 : 0 ≤ max (val d) (val o) := le_trans hvd (le_max_left _ _)
  -- the unit of the result is small against the larger operand unless the result is exact
  have hulp : sgnVal neg r = val d - val o ∨ ulp r ≤ lam * max (val d) (val o) := by
    rcases e4 with h | h
    · exact Or.inl (e3 h)
    · right
      have hS : (0 : ℚ) < (scaleLim : ℚ) := by unfold scaleLim; norm_num
      have hle : (if d.exp.toInt ≤ o.exp.toInt then val o else val d) ≤ max (val d) (val o) := by
        split
        · exact le_max_right _ _
        · exact le_max_left _ _
      have h2 : (scaleLim : ℚ) * ulp r ≤ max (val d) (val o) := le_trans h hle
      have e : lam * max (val d) (val o) = max (val d) (val o) / (scaleLim : ℚ) := by
        unfold lam; rw [scaleLim_eq_LIM]; ring
      rw [e, le_div_iff₀ hS]; linarith
  -- flags
  have hflag : flag3 t' := by
    by_cases hex : sgnVal neg r = val d - val o
    · rw [b3 hex]; split
      · exact flag3_neg ht
      · exact ht
    · rcases le_or_gt d.exp.toInt o.exp.toInt with hc | hc
      · rw [(b1 hc).2.2.1 hex]; split
        · exact Or.inr (Or.inr rfl)
        · exact flag3_one
      · rw [(b2 hc).2.2.1 hex]; split
        · exact flag3_one
        · exact Or.inr (Or.inr rfl)
  have hT : sgnVal true r = - val r := rfl
  have hF : sgnVal false r = val r := rfl
  have hmain : |val r - (|val d - val o|)| < ulp r ∧
      (sgnVal neg r = val d - val o → val r = |val d - val o|) ∧
      (neg = true → val d < val o) ∧ (val d < val o → neg = true ∨ r.sig.toNat = 0) := by
    rcases le_or_gt d.exp.toInt o.exp.toInt with hc | hc
    · obtain ⟨a1, a2, -, a4⟩ := b1 hc
      cases neg with
      | true =>
        rw [hT] at a1 a2 ⊢
        have hlt : val d < val o := a4.mp rfl
        have habs : |val d - val o| = -(val d - val o) := abs_of_neg (by linarith)
        refine ⟨?_, fun h => by rw [habs]; linarith, fun _ => hlt, fun _ => Or.inl rfl⟩
        rw [habs, abs_lt]; constructor <;> linarith
      | false =>
        rw [hF] at a1 a2 ⊢
        have hge : ¬ val d < val o := fun h => by have := a4.mpr h; cases this
        have habs : |val d - val o| = val d - val o := abs_of_nonneg (by linarith)
        refine ⟨?_, fun h => by rw [habs]; linarith, fun h => Bool.noConfusion h, fun h => absurd h hge⟩
        rw [habs, abs_lt]; constructor <;> linarith
    · obtain ⟨a1, a2, -, a4, a5⟩ := b2 hc
      cases neg with
      | true =>
        rw [hT] at a1 a2 ⊢
        have hlt : val d < val o := a4 rfl
        have habs : |val d - val o| = -(val d - val o) := abs_of_neg (by linarith)
        refine ⟨?_, fun h => by rw [habs]; linarith, fun _ => hlt, fun _ => Or.inl rfl⟩
        rw [habs, abs_lt]; constructor <;> linarith
      | false =>
        rw [hF] at a1 a2 ⊢
        refine ⟨?_, ?_, fun h => Bool.noConfusion h, fun h => ?_⟩
        · rcases le_or_gt (val o) (val d) with hge | hlt
          · rw [abs_of_nonneg (by linarith : 0 ≤ val d - val o), abs_lt]; constructor <;> linarith
          · rw [abs_of_neg (by linarith : val d - val o < 0), abs_lt]; constructor <;> linarith
        · intro h
          rw [abs_of_nonneg (by linarith : 0 ≤ val d - val o)]; linarith
        · rcases a5 h with h' | h'
          · exact Bool.noConfusion h'
          · exact Or.inr h'
  refine ⟨neg, r, t', hr, ?_, hflag, hmain.2.2.1, hmain.2.2.2, e1, e2⟩
  rcases hulp with hex | hsm
  · rw [hmain.2.1 hex, sub_self, abs_zero]; exact mul_nonneg hl.le hmax0
  · exact le_trans hmain.1.le hsm

/-- `10^e · 10^(-e) = 1` for `e ≤ 0` -/
theorem pow_neg_cancel (e : Int) (he : e ≤ 0) : (10 : ℚ) ^ e * (10 : ℚ) ^ (-e).toNat = 1 := by
  rw [← zpow_natCast, Int.toNat_of_nonneg (by omega), ← zpow_add₀ (by norm_num)]; simp

/-- `1 ≤ val d`, `e ≤ 0` ⇒ `10^(-e) ≤ sig` -/
theorem pow_le_sig_of_one_le (d : decomposed192) (h1 : 1 ≤ val d) (he1 : d.exp.toInt ≤ 0) :
    10 ^ (-d.exp.toInt).toNat ≤ d.sig.toNat := by
  have hpe := pow_neg_cancel d.exp.toInt he1
  have hpos : (0 : ℚ) < (10 : ℚ) ^ d.exp.toInt := zpow_pos (by norm_num) _
  have : ((10 ^ (-d.exp.toInt).toNat : Nat) : ℚ) ≤ (d.sig.toNat : ℚ) := by
    push_cast
    unfold val at h1
    by_contra hc
    rw [not_le] at hc
    have : (d.sig.toNat : ℚ) * (10 : ℚ) ^ d.exp.toInt
        < (10 : ℚ) ^ (-d.exp.toInt).toNat * (10 : ℚ) ^ d.exp.toInt :=
      mul_lt_mul_of_pos_right hc hpos
    rw [mul_comm ((10 : ℚ) ^ (-d.exp.toInt).toNat), hpe] at this
    linarith
  exact_mod_cast this

theorem sig_pos_of_one_le (d : decomposed192) (h1 : 1 ≤ val d) : 0 < d.sig.toNat := by
  rcases Nat.eq_zero_or_pos d.sig.toNat with h | h
  · rw [val_zero_of_sig h] at h1; norm_num at h1
  · exact h

/-- `sub1` of a value in `[1, …)` with exponent in `[-57, 0]` is exact. -/
theorem sub1_exact (d : decomposed192) (h1 : 1 ≤ val d) (he0 : -57 ≤ d.exp.toInt)
    (he1 : d.exp.toInt ≤ 0) :
    ∃ r, decomposed192.sub1 d 0 = .ok (false, r, 0) ∧ val r = val d - 1 ∧ r.exp.toInt = d.exp.toInt := by
  have hs := sig_pos_of_one_le d h1
  obtain ⟨neg, r, t', hr, hp⟩ := sub1_spec d 0
  rcases hp with ⟨h0, -⟩ | ⟨-, h, -⟩ | ⟨-, h, -⟩ | ⟨-, -, -, hE | hD⟩ | ⟨-, h, -⟩
  · omega
  · omega
  · omega
  · exfalso
    obtain ⟨-, j, hj1, hj2⟩ := hE
    have hj0 : j = 0 := by omega
    subst hj0; simp at hj1; omega
  · obtain ⟨k, hk1, hk2, hk3, hk4, hk5, hge, hlt⟩ := hD
    simp only at hk1 hk2 hk3 hk4 hge hlt
    have hk0 : k = 0 := by
      rcases hk4 with h | h
      · exact h
      · omega
    subst hk0
    simp only [pow_zero, Nat.div_one, Nat.mod_one, if_true] at hge hlt hk5
    have hexp : r.exp.toInt = d.exp.toInt := by simpa using hk1
    have hle : 10 ^ (-r.exp.toInt).toNat ≤ d.sig.toNat := by
      rw [hexp]; exact pow_le_sig_of_one_le d h1 he1
    obtain ⟨hn, hsig, ht⟩ := hge hle
    subst hn ht
    refine ⟨r, hr, ?_, hexp⟩
    unfold val
    rw [hsig, hexp, Nat.cast_sub (by rw [← hexp]; exact hle)]
    push_cast
    rw [sub_mul, mul_comm ((10 : ℚ) ^ (-d.exp.toInt).toNat), pow_neg_cancel _ he1]
  · omega

/-- `add1` of a value in `[1, …)` with exponent in `[-57, 0]`: truncation with relative error `lam`. -/
theorem add1_rel (d : decomposed192) (t : Int8) (h1 : 1 ≤ val d) (he0 : -57 ≤ d.exp.toInt)
    (he1 : d.exp.toInt ≤ 0) :
    ∃ r t', decomposed192.add1 d t = .ok (r, t') ∧
      (val d + 1) * (1 - lam) ≤ val r ∧ val r ≤ val d + 1 ∧
      -57 ≤ r.exp.toInt ∧ r.exp.toInt ≤ 1 := by
  have hs := sig_pos_of_one_le d h1
  obtain ⟨r, t', hr, hp⟩ := add1_spec d t
  rcases hp with ⟨h0, -⟩ | ⟨-, h, -⟩ | ⟨-, h, -⟩ | ⟨-, -, -, hE | hD⟩ | ⟨-, h, -⟩
  · omega
  · omega
  · omega
  · exfalso
    obtain ⟨-, j, hj1, hj2⟩ := hE
    have hj0 : j = 0 := by omega
    subst hj0; simp at hj1; omega
  · obtain ⟨htr, hlo, hhi, -⟩ := hD
    simp only at htr hlo hhi
    have hle := pow_le_sig_of_one_le d h1 he1
    have hP : d.sig.toNat + 10 ^ (-d.exp.toInt).toNat < 2 ^ 192 / 10 * 10 ^ (1 + 1) := by
      have := U192.toNat_lt d.sig
      have h3 : 10 ^ (-d.exp.toInt).toNat ≤ 10 ^ 57 := Nat.pow_le_pow_right (by norm_num) (by omega)
      have e1 : (2 : Nat) ^ 192 = 6277101735386680763835789423207666416102355444464034512896 := by norm_num
      have e2 : (10 : Nat) ^ 57 = 1000000000000000000000000000000000000000000000000000000000 := by norm_num
      rw [e1] at this ⊢
      rw [e2] at h3
      omega
    obtain ⟨c1, c2, -, -, c5, c6, c7⟩ := Tr.contract 1 htr hP (by norm_num) (by omega) (by omega)
    have hV : ((d.sig.toNat + 10 ^ (-d.exp.toInt).toNat : Nat) : ℚ) * (10 : ℚ) ^ d.exp.toInt
        = val d + 1 := by
      unfold val; push_cast
      rw [add_mul, mul_comm ((10 : ℚ) ^ (-d.exp.toInt).toNat), pow_neg_cancel _ he1]
    rw [hV] at c1 c2
    refine ⟨r, t', hr, ?_, c1, hlo, hhi⟩
    have hl := lam_pos
    have h0 : 0 ≤ val d + 1 := by linarith
    rcases c7 with h | h
    · -- nothing dropped: exact
      have hexp : r.exp.toInt = d.exp.toInt := by rw [h]
      have hu : (0 : ℚ) < (10 : ℚ) ^ d.exp.toInt := zpow_pos (by norm_num) _
      have hrv : val r = (r.sig.toNat : ℚ) * (10 : ℚ) ^ d.exp.toInt := by unfold val; rw [hexp]
      have hul : ulp r = (10 : ℚ) ^ d.exp.toInt := by unfold ulp; rw [hexp]
      have heq : r.sig.toNat = d.sig.toNat + 10 ^ (-d.exp.toInt).toNat := by
        apply grid_exact _ _ _ hu
        · rw [← hrv, hV]; exact c1
        · rw [← hrv, hV, ← hul]; exact c2
      have : val r = val d + 1 := by rw [hrv, heq, hV]
      rw [this]; nlinarith
    · exact rel_of_norm r _ c1 c2 (le_trans (by unfold LIM; norm_num) h)
  · omega

end LogAcc
