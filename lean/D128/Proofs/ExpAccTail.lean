/-
  D128/Proofs/ExpAccTail.lean — property C16: the final rounding of a working value against a REAL target, and
  the common tail of `Gen.Exp`, `Gen.Exp2`, `Gen.Exp10` (reciprocal for a negative argument, `reduce192`,
  overflow test, `compose`).

  Provided (namespace `ExpAcc`):
  * `Near V T`        : `|V − T|·3·10^34 ≤ T` (the working value is within relative `3.3·10^-35` of the target)
  * `close_of_near`   : `Near (sig·10^E) T`, `|τ| ≤ 10^-40`, `1 ≤ sig` ⇒ `Close ((sig+τ)·10^E) T`
  * `round_real`      : nearest mode, any flag: `reduce192` returns `(sig', exp')` and the Decimal it denotes
                        (`+Inf` for `exp' > 12287`) is not a `GeneralViolation` for the target `±T`
  * `expTail`, `expRound`, `expTail_pos`, `expTail_neg` : the common tail and its two shapes
  * `expRound_ok`     : `expRound` against a real target (result non-negative, no `GeneralViolation`)
  * `expRound_exact`  : `expRound` on an exact working value: the member the mode selects for it
-/
import D128.Proofs.ExpAccSpec
import D128.Proofs.ExpAccSmall
import D128.Proofs.D192QuoContract
import D128.Proofs.Specials
set_option autoImplicit false
set_option maxRecDepth 4096
set_option exponentiation.threshold 512

namespace ExpAcc
open Gen Spec SpecRound EnclPf RK
local notation "𝔳[" d "]" => Spec.interp (Gen.Decimal.lo d) (Gen.Decimal.hi d)

/-- the working value `V` is within relative `1/(3·10^34)` of the real target `T` -/
def Near (V : ℚ) (T : ℝ) : Prop := |(V : ℝ) - T| * (3 * 10 ^ 34) ≤ T

theorem Near.bounds {V : ℚ} {T : ℝ} (hT : 0 < T) (h : Near V T) :
    |(V : ℝ) - T| ≤ T / (3 * 10 ^ 34) ∧ (V : ℝ) ≤ 2 * T ∧ T ≤ 2 * (V : ℝ) := by
  unfold Near at h
  have h1 : |(V : ℝ) - T| ≤ T / (3 * 10 ^ 34) := by
    rw [le_div_iff₀ (by positivity)]; exact h
  have h2 : T / (3 * 10 ^ 34) ≤ T / 2 := div_le_div_of_nonneg_left hT.le (by norm_num) (by norm_num)
  have := abs_le.1 (le_trans h1 h2)
  exact ⟨h1, by linarith [this.2], by linarith [this.1]⟩

/-- a tiny perturbation of the significand keeps the value close -/
theorem close_of_near {N : Nat} {E : Int} {τ : ℚ} {T : ℝ} (hT : 0 < T) (hN : 1 ≤ N)
    (hτ : |τ| ≤ 1 / 10 ^ 40) (h : Near ((N : ℚ) * (10 : ℚ) ^ E) T) :
    Close (((N : ℚ) + τ) * (10 : ℚ) ^ E) T := by
  obtain ⟨h1, h2, -⟩ := h.bounds hT
  have hp : (0 : ℝ) < (10 : ℝ) ^ E := zpow_pos (by norm_num) _
  have hNr : (1 : ℝ) ≤ (N : ℝ) := by exact_mod_cast hN
  have hτr : |(τ : ℝ)| ≤ 1 / 10 ^ 40 := by
    have : ((|τ| : ℚ) : ℝ) ≤ ((1 / 10 ^ 40 : ℚ) : ℝ) := by exact_mod_cast hτ
    push_cast at this; exact this
  push_cast at h1 h2 ⊢
  unfold Close
  push_cast
  -- |W − V| ≤ 10^-40·V
  have hWV : |((N : ℝ) + (τ : ℝ)) * (10 : ℝ) ^ E - (N : ℝ) * (10 : ℝ) ^ E| ≤ 1 / 10 ^ 40 * ((N : ℝ) * (10 : ℝ) ^ E) := by
    rw [show ((N : ℝ) + (τ : ℝ)) * (10 : ℝ) ^ E - (N : ℝ) * (10 : ℝ) ^ E = (τ : ℝ) * (10 : ℝ) ^ E by ring,
      abs_mul, abs_of_pos hp]
    have : |(τ : ℝ)| * (10 : ℝ) ^ E ≤ 1 / 10 ^ 40 * (10 : ℝ) ^ E := mul_le_mul_of_nonneg_right hτr hp.le
    have : 1 / 10 ^ 40 * (10 : ℝ) ^ E ≤ 1 / 10 ^ 40 * ((N : ℝ) * (10 : ℝ) ^ E) := by
      apply mul_le_mul_of_nonneg_left _ (by norm_num)
      nlinarith
    linarith
  have htri : |((N : ℝ) + (τ : ℝ)) * (10 : ℝ) ^ E - T|
      ≤ |((N : ℝ) + (τ : ℝ)) * (10 : ℝ) ^ E - (N : ℝ) * (10 : ℝ) ^ E| + |(N : ℝ) * (10 : ℝ) ^ E - T| := by
    have := abs_add_le (((N : ℝ) + (τ : ℝ)) * (10 : ℝ) ^ E - (N : ℝ) * (10 : ℝ) ^ E) ((N : ℝ) * (10 : ℝ) ^ E - T)
    rwa [sub_add_sub_cancel] at this
  have hsum : |((N : ℝ) + (τ : ℝ)) * (10 : ℝ) ^ E - T| ≤ 2 / 10 ^ 40 * T + T / (3 * 10 ^ 34) := by
    have : 1 / 10 ^ 40 * ((N : ℝ) * (10 : ℝ) ^ E) ≤ 1 / 10 ^ 40 * (2 * T) :=
      mul_le_mul_of_nonneg_left h2 (by norm_num)
    linarith
  have hC := Cmax1_val
  rw [hC]
  have hfin : (2 / 10 ^ 40 * T + T / (3 * 10 ^ 34)) * (2 * (10 * 2 ^ 110)) ≤ T := by
    have e : (2 / 10 ^ 40 * T + T / (3 * 10 ^ 34)) * (2 * (10 * 2 ^ 110))
        = T * ((2 / 10 ^ 40 + 1 / (3 * 10 ^ 34)) * (2 * (10 * 2 ^ 110))) := by ring
    rw [e]
    have : ((2 / 10 ^ 40 + 1 / (3 * 10 ^ 34)) * (2 * (10 * 2 ^ 110)) : ℝ) ≤ 1 := by norm_num
    nlinarith
  have habs := abs_nonneg (((N : ℝ) + (τ : ℝ)) * (10 : ℝ) ^ E - T)
  calc |((N : ℝ) + (τ : ℝ)) * (10 : ℝ) ^ E - T| * (2 * (10 * 2 ^ 110))
      ≤ (2 / 10 ^ 40 * T + T / (3 * 10 ^ 34)) * (2 * (10 * 2 ^ 110)) :=
        mul_le_mul_of_nonneg_right hsum (by norm_num)
    _ ≤ T := hfin

/-- **The final rounding against a real target.**  Nearest mode, any flag, any length of the significand: if
the working value `sig·10^(exp-6176)` is `Near` the positive real `T`, then `reduce192` returns, and the Decimal
its result denotes (`±Inf` when the exponent is above `maxBiasedExponent`) is acceptable for `±T`. -/
theorem round_real (rm : UInt8) (m : Spec.Mode) (hm : Spec.Mode.ofNat? rm.toNat = some m)
    (hn : isNearest m = true) (neg : Bool) (sig : U192) (exp : Int16) (trunc : Int8) (T : ℝ) (hT : 0 < T)
    (hs1 : 1 ≤ sig.toNat) (he0 : -20000 ≤ exp.toInt) (he1 : exp.toInt ≤ 20000)
    (ht : trunc = 0 ∨ trunc = 1 ∨ trunc = -1)
    (hfl : trunc = -1 → 0 ≤ exp.toInt)
    (hnear : Near ((sig.toNat : ℚ) * (10 : ℚ) ^ (exp.toInt - 6176)) T) :
    ∃ sig' exp', Gen.RoundingMode.reduce192 rm neg sig exp trunc = .ok (sig', exp') ∧
      (if exp'.toInt > 12287 then ¬ GeneralViolation (if neg then -T else T) (.inf neg)
       else sig'.toNat ≤ Spec.Cmax ∧ 0 ≤ exp'.toInt ∧
         ¬ GeneralViolation (if neg then -T else T) (.fin neg sig'.toNat (exp'.toInt - 6176))) := by
  obtain ⟨τ, sig', exp', hτ, hred, hpost⟩ := reduce192_nearest rm m neg sig exp trunc hm hn hs1 he0 he1 ht hfl
  refine ⟨sig', exp', hred, ?_⟩
  have hsq : (1 : ℚ) ≤ (sig.toNat : ℚ) := by exact_mod_cast hs1
  have hτ' := abs_le.1 hτ
  have hq : (0 : ℚ) < (sig.toNat : ℚ) + τ := by
    have : (1 : ℚ) / 10 ^ 40 < 1 := by norm_num
    linarith [hτ'.1]
  have hclose := close_of_near hT hs1 hτ hnear
  have hgv := nearest_real_S hn neg (exp.toInt - 6176) hq hT hclose
  unfold RoundPost at hpost
  split
  · rename_i hgt
    rw [if_pos hgt] at hpost
    rw [hpost] at hgv; exact hgv
  · rename_i hgt
    rw [if_neg hgt] at hpost
    obtain ⟨h1, h2, h3⟩ := hpost
    exact ⟨h1, h2, fun hv => hgv (gv_congr _ (by
      -- `same` is symmetric on these shapes
      revert h3
      generalize Spec.flushOrRoundS m neg ((sig.toNat : ℚ) + τ) (exp.toInt - 6176) = v
      intro h3
      match v, h3 with
      | .fin n c e, h3 =>
        simp only [Val.same, Bool.and_eq_true, beq_iff_eq] at h3 ⊢
        exact ⟨h3.1.symm, h3.2.symm⟩) hv)⟩

/-- an `Int16` comparison with the literal `12287` -/
theorem gt_12287 (e : Int16) : (e > 12287) ↔ e.toInt > 12287 := by
  rw [gt_iff_lt, Int16.lt_iff_toInt_lt]; simp

/-! ## the common tail of `Exp`, `Exp2`, `Exp10` -/

/-- the end of `Gen.Exp`, `Gen.Exp2`, `Gen.Exp10`: reciprocal for a negative argument, final rounding,
overflow test, `compose` -/
def expTail (g : Globals) (sb : Bool) (res : decomposed192) (trunc : Int8) : Go.GoM Decimal := do
  let mut res : decomposed192 := res
  let mut trunc : Int8 := trunc
  if sb then
    let (r_6, r_7) ← decomposed192.rcp res trunc
    res := r_6
    trunc := r_7
  let (r_8, r_9) ← RoundingMode.reduce192 g.DefaultRoundingMode false res.sig (res.exp + (6176 : Int16)) trunc
  let mut sig : U128 := r_8
  let mut exp : Int16 := r_9
  if (decide (exp > (12287 : Int16))) then
    if sb then
      return (zero false)
    return (inf false)
  return (compose false sig exp)

/-- the part of `expTail` after the reciprocal -/
def expRound (g : Globals) (sb : Bool) (res : decomposed192) (trunc : Int8) : Go.GoM Decimal := do
  let x ← RoundingMode.reduce192 g.DefaultRoundingMode false res.sig (res.exp + (6176 : Int16)) trunc
  if (decide (x.2 > (12287 : Int16))) then
    if sb then
      return (zero false)
    return (inf false)
  return (compose false x.1 x.2)

theorem expTail_pos (g : Globals) (res : decomposed192) (trunc : Int8) :
    expTail g false res trunc = expRound g false res trunc := rfl

theorem expTail_neg (g : Globals) (res : decomposed192) (trunc : Int8) :
    expTail g true res trunc = (decomposed192.rcp res trunc >>= fun x => expRound g true x.1 x.2) := rfl

theorem i16_add_6176 (e : Int16) (h0 : -20000 ≤ e.toInt) (h1 : e.toInt ≤ 20000) :
    (e + 6176).toInt = e.toInt + 6176 := by
  have h6 : (6176 : Int16).toInt = 6176 := by decide
  rw [Int16.toInt_add_of] <;> rw [h6] <;> omega

/-- **`expRound` against a real target** (`sb` only selects what an overflowing exponent returns; for
`sb = true` the target is below 1, so that branch is dead) -/
theorem expRound_ok (g : Globals) (m : Spec.Mode) (hm : Spec.Mode.ofNat? g.DefaultRoundingMode.toNat = some m)
    (hn : isNearest m = true) (sb : Bool) (res : decomposed192) (trunc : Int8) (T : ℝ) (hT : 0 < T)
    (hs1 : 1 ≤ res.sig.toNat) (he0 : -20000 ≤ res.exp.toInt) (he1 : res.exp.toInt ≤ 13000)
    (ht : trunc = 0 ∨ trunc = 1) (hnear : Near (D192.val res) T) (hsb : sb = true → T < 1) :
    ∃ r, expRound g sb res trunc = .ok r ∧ (𝔳[r]).neg = false ∧ ¬ GeneralViolation T 𝔳[r] := by
  have hE := i16_add_6176 res.exp he0 (by omega)
  have hnear' : Near ((res.sig.toNat : ℚ) * (10 : ℚ) ^ ((res.exp + 6176).toInt - 6176)) T := by
    rw [hE, show res.exp.toInt + 6176 - 6176 = res.exp.toInt by ring]; exact hnear
  obtain ⟨sig', exp', hred, hpost⟩ := round_real g.DefaultRoundingMode m hm hn false res.sig (res.exp + 6176)
    trunc T hT hs1 (by omega) (by omega) (by rcases ht with h | h <;> simp [h])
    (by intro h; rcases ht with h' | h' <;> rw [h'] at h <;> exact absurd h (by decide)) hnear'
  simp only [Bool.false_eq_true, if_false] at hpost
  unfold expRound
  rw [hred]
  by_cases hgt : exp'.toInt > 12287
  · rw [if_pos hgt] at hpost
    have hd : decide (exp' > 12287) = true := by simpa [gt_12287] using hgt
    cases sb
    · refine ⟨inf false, ?_, ?_, ?_⟩
      · show (if decide (exp' > 12287) = true then _ else _) = _
        rw [if_pos hd]; rfl
      · rw [Enc.interp_inf]; rfl
      · rw [Enc.interp_inf]; exact hpost
    · -- impossible: the target is below 1
      exfalso
      apply hpost
      right; left
      rw [abs_of_pos hT]
      have h1 : (1 : ℝ) ≤ (10 : ℝ) ^ (Spec.Emax + 30) := by
        apply one_le_zpow₀ (by norm_num); unfold Spec.Emax; norm_num
      linarith [hsb rfl]
  · rw [if_neg hgt] at hpost
    obtain ⟨hs', he', hgv⟩ := hpost
    have hd : ¬ decide (exp' > 12287) = true := by simpa [gt_12287] using hgt
    refine ⟨compose false sig' exp', ?_, ?_, ?_⟩
    · show (if decide (exp' > 12287) = true then _ else _) = _
      rw [if_neg hd]; rfl
    · rw [Sp.interp_compose false sig' exp' hs' he' (by omega)]; rfl
    · rw [Sp.interp_compose false sig' exp' hs' he' (by omega)]; exact hgv

/-- **`expRound` on an exact working value**: flag `0` ⇒ the result is the member mode `m` selects for the
exact value `sig·10^exp` (`+Inf` beyond the range; for `sb = true` the caller shows that the specification does
not overflow, the value being below 1) -/
theorem expRound_exact (g : Globals) (m : Spec.Mode) (hm : Spec.Mode.ofNat? g.DefaultRoundingMode.toNat = some m)
    (sb : Bool) (res : decomposed192) (hs1 : 1 ≤ res.sig.toNat)
    (he0 : -20000 ≤ res.exp.toInt) (he1 : res.exp.toInt ≤ 13000)
    (hfin : sb = true → Spec.flushOrRoundS m false (res.sig.toNat : ℚ) res.exp.toInt ≠ .inf false) :
    ∃ r, expRound g sb res 0 = .ok r ∧
      (Spec.flushOrRoundS m false (res.sig.toNat : ℚ) res.exp.toInt).same 𝔳[r] = true := by
  have hE := i16_add_6176 res.exp he0 (by omega)
  obtain ⟨sig', exp', hred, hpost⟩ := reduce192_correct g.DefaultRoundingMode m false res.sig (res.exp + 6176) 0 0
    hm (by omega) (by omega) (Or.inl ⟨by decide, rfl⟩)
    (by have : (1 : ℚ) ≤ (res.sig.toNat : ℚ) := by exact_mod_cast hs1
        linarith)
    (fun h => absurd h (by decide)) (fun h => absurd h (by decide)) (fun h => absurd h (by decide))
  rw [hE, show res.exp.toInt + 6176 - 6176 = res.exp.toInt by ring, add_zero] at hpost
  unfold expRound
  rw [hred]
  by_cases hgt : exp'.toInt > 12287
  · rw [if_pos hgt] at hpost
    have hd : decide (exp' > 12287) = true := by simpa [gt_12287] using hgt
    cases sb
    · refine ⟨inf false, ?_, ?_⟩
      · show (if decide (exp' > 12287) = true then _ else _) = _
        rw [if_pos hd]; rfl
      · rw [hpost, Enc.interp_inf]; rfl
    · exact absurd hpost (hfin rfl)
  · rw [if_neg hgt] at hpost
    obtain ⟨hs', he', hsame⟩ := hpost
    have hd : ¬ decide (exp' > 12287) = true := by simpa [gt_12287] using hgt
    refine ⟨compose false sig' exp', ?_, ?_⟩
    · show (if decide (exp' > 12287) = true then _ else _) = _
      rw [if_neg hd]; rfl
    · rw [Sp.interp_compose false sig' exp' hs' he' (by omega)]; exact hsame

end ExpAcc
