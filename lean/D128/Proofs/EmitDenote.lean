/-
  D128/Proofs/EmitDenote.lean — the shortest numerals denote exactly the value they were printed from
  (pure specification level).

  * `Emit.natDigits_props`, `Emit.strip_props`, `Emit.sliceOf_props`, `Emit.sliceOf_zero` : what `Spec.sliceOf` is
  * `Emit.expStr_shape`           : the exponent part as sign + digit list with value `|x|`
  * `Emit.shortest_canon`         : `shortest lo hi minExp false (sliceOf c e) ech` is a canonical numeral
        `digits [. digits] [ech ± digits]` (no leading zero, non-empty fraction) that denotes `c·10^e`
  * `Emit.litSign`, `litRest`, `readLiteral_eq`, `Emit.readLiteral_num` : `Spec.readLiteral` on a numeral
        starting with a digit
  * `Emit.shortest_readNumber`, `Emit.shortest_readLiteral`, `Emit.shortest_readJson` : the three readers of
        the specification accept the shortest numerals and return the exact value (and the sign)
  * `Emit.expStr_two`             : the exponent digits: two, three (|x| ≥ 100) or four (|x| ≥ 1000)
  * `Emit.shortest_shape`         : the four layouts `d.ddde±XX` / `ddd000` / `dd.ddd` / `0.000ddd` explicitly
-/
import D128.Proofs.EmitRead
import D128.Proofs.EmitTop
import Mathlib.Tactic.Ring
import Mathlib.Tactic.NormNum
import Mathlib.Tactic.Positivity
import Mathlib.Algebra.Order.Field.Power
import Mathlib.Tactic.FieldSimp
set_option autoImplicit false
set_option linter.unusedTactic false
namespace Emit

/-! ## the slice of a coefficient / exponent pair -/

theorem natDigits_props (c : Nat) (hc : c ≠ 0) :
    (∀ x ∈ Spec.natDigits c, x < 10) ∧ (Spec.natDigits c).head? ≠ some 0 ∧
      Dg.ofMsd (Spec.natDigits c) = c ∧ Spec.natDigits c ≠ [] := by
  induction c using Nat.strong_induction_on with
  | _ c ih =>
    by_cases h : c < 10
    · rw [Dg.natDigits_lt c hc h]
      exact ⟨by simpa using h, by simpa using hc, by simp [Dg.ofMsd_cons], by simp⟩
    · have hge : 10 ≤ c := by omega
      obtain ⟨h1, h2, h3, h4⟩ := ih (c / 10) (by omega) (by omega)
      rw [Dg.natDigits_ge c hge]
      refine ⟨?_, ?_, ?_, by simp⟩
      · intro x hx
        rcases List.mem_append.mp hx with hx | hx
        · exact h1 x hx
        · have : x = c % 10 := by simpa using hx
          omega
      · cases hL : Spec.natDigits (c / 10) with
        | nil => exact absurd hL h4
        | cons y ys => rw [hL] at h2; simpa using h2
      · rw [Dg.ofMsd_snoc, h3]; omega

theorem strip_props (L : List Nat) :
    ∃ k, L = Spec.stripTrailingZeros L ++ List.replicate k 0 ∧
      (Spec.stripTrailingZeros L).getLast? ≠ some 0 := by
  unfold Spec.stripTrailingZeros
  have hsplit := List.takeWhile_append_dropWhile (p := (· == 0)) (l := L.reverse)
  have hz : ∀ x ∈ L.reverse.takeWhile (· == 0), x = 0 := by
    intro x hx
    have := List.all_eq_true.mp (List.all_takeWhile (p := (· == 0)) (l := L.reverse)) x hx
    simpa using this
  refine ⟨(L.reverse.takeWhile (· == 0)).length, ?_, ?_⟩
  · have h1 : L.reverse.takeWhile (· == 0) = List.replicate (L.reverse.takeWhile (· == 0)).length 0 :=
      List.eq_replicate_of_mem hz
    have : L = (L.reverse.dropWhile (· == 0)).reverse ++ (L.reverse.takeWhile (· == 0)).reverse := by
      rw [← List.reverse_append, hsplit, List.reverse_reverse]
    conv_lhs => rw [this]
    rw [h1, List.reverse_replicate, List.length_replicate]
  · rw [List.getLast?_reverse]
    cases hD : L.reverse.dropWhile (· == 0) with
    | nil => simp
    | cons y ys =>
      have := List.head_dropWhile_not (· == 0) (l := L.reverse) (by rw [hD]; simp)
      simp only [hD, List.head_cons] at this
      simpa using this

/-- **What `Spec.sliceOf` is**, for a non-zero coefficient: digits below ten, no leading and no trailing
zero, the coefficient is the digit string times a power of ten, and the point position follows. -/
theorem sliceOf_props (c : Nat) (e : Int) (hc : c ≠ 0) :
    ∃ (M : List Nat) (k : Nat), Spec.sliceOf c e = ⟨M, (M.length : Int) + k + e⟩ ∧ M ≠ [] ∧
      (∀ x ∈ M, x < 10) ∧ M.head? ≠ some 0 ∧ M.getLast? ≠ some 0 ∧ c = Dg.ofMsd M * 10 ^ k := by
  obtain ⟨h1, h2, h3, h4⟩ := natDigits_props c hc
  obtain ⟨k, hk, hlast⟩ := strip_props (Spec.natDigits c)
  generalize hM : Spec.stripTrailingZeros (Spec.natDigits c) = M at hk hlast
  have hMne : M ≠ [] := by
    intro h0
    rw [h0, List.nil_append] at hk
    rw [hk] at h2 h4
    cases k with
    | zero => exact h4 rfl
    | succ k => simp [List.replicate_succ] at h2
  refine ⟨M, k, ?_, hMne, ?_, ?_, hlast, ?_⟩
  · unfold Spec.sliceOf
    have : (c == 0) = false := by simpa using hc
    simp only [this, Bool.false_eq_true, if_false, hM]
    congr 1
    rw [hk]; simp
  · intro x hx; exact h1 x (by rw [hk]; exact List.mem_append_left _ hx)
  · cases M with
    | nil => exact absurd rfl hMne
    | cons y ys => rw [hk] at h2; simpa using h2
  · rw [← h3, hk, Dg.ofMsd_append, Dg.ofMsd_replicate_zero]; simp

theorem sliceOf_zero (e : Int) : Spec.sliceOf 0 e = ⟨[], 0⟩ := rfl


theorem expStr_shape (e : Char) (X : Int) (minExp : Nat) :
    ∃ EP : List Nat, Spec.expStr e X minExp =
        e :: (if decide (X < 0) then '-' else '+') :: Spec.digitsStr EP ∧
      (∀ x ∈ EP, x < 10) ∧ EP ≠ [] ∧ Dg.ofMsd EP = X.natAbs := by
  obtain ⟨h1, h2, h3, h4⟩ := decS_digits X.natAbs
  refine ⟨List.replicate (minExp - (decS X.natAbs).length) 0 ++ decD X.natAbs, ?_, ?_, by simp [h4], ?_⟩
  · unfold Spec.expStr
    show e :: (if X < 0 then '-' else '+') :: (Spec.zeros (minExp - (decS X.natAbs).length) ++ decS X.natAbs) = _
    rw [digitsStr_append, ← zeros_eq, ← h1]
    by_cases hx : X < 0 <;> simp [hx]
  · intro x hx
    rcases List.mem_append.mp hx with hx | hx
    · rw [(List.mem_replicate.mp hx).2]; decide
    · exact h2 x hx
  · rw [Dg.ofMsd_append, Dg.ofMsd_replicate_zero, h3]; simp

/-- the value of a digit string scaled by `10^(k+e)` -/
theorem val_shift (m k : Nat) (e : Int) :
    (m : ℚ) * (10 : ℚ) ^ ((k : Int) + e) = ((m * 10 ^ k : Nat) : ℚ) * (10 : ℚ) ^ e := by
  rw [zpow_add₀ (by norm_num : (10 : ℚ) ≠ 0), zpow_natCast]
  push_cast
  ring

/-- **Canonical decomposition of the shortest numerals.**  The unsigned body of
`shortest lo hi minExp _ (sliceOf c e) ech` is `digits [. digits] [ech ± digits]` with: digit values below
ten; an integer part without leading zero (or the single digit 0); a non-empty fraction after a point; a
non-empty exponent; and it denotes exactly `c · 10^e`. -/
theorem shortest_canon (lo hi : Int) (minExp : Nat) (c : Nat) (e : Int) (ech : Char) :
    ∃ (A B EP : List Nat) (hasDot hasExp eneg : Bool),
      shortest lo hi minExp false (Spec.sliceOf c e) ech =
        Spec.digitsStr A ++ ((if hasDot then '.' :: Spec.digitsStr B else []) ++
          (if hasExp then ech :: (if eneg then '-' else '+') :: Spec.digitsStr EP else [])) ∧
      (∀ x ∈ A, x < 10) ∧ (∀ x ∈ B, x < 10) ∧ (∀ x ∈ EP, x < 10) ∧
      A ≠ [] ∧ (1 < A.length → A.head? ≠ some 0) ∧
      (hasDot = false → B = []) ∧ (hasDot = true → B ≠ []) ∧ (hasExp = true → EP ≠ []) ∧
      ((Dg.ofMsd (A ++ B) : Nat) : ℚ) * (10 : ℚ) ^
          ((if hasExp then (if eneg then -(Dg.ofMsd EP : Int) else (Dg.ofMsd EP : Int)) else 0) -
            (B.length : Int)) = (c : ℚ) * (10 : ℚ) ^ e := by
  by_cases hc : c = 0
  · subst hc
    refine ⟨[0], [], [], false, false, false, ?_, by simp, by simp, by simp, by simp, by simp, by simp,
      by simp, by simp, by simp [Dg.ofMsd]⟩
    rw [sliceOf_zero]; rfl
  · obtain ⟨M, k, hs, hMne, hM10, hhead, hlast, hck⟩ := sliceOf_props c e hc
    rw [hs]
    obtain ⟨x, M', rfl⟩ : ∃ x M', M = x :: M' := by
      cases M with
      | nil => exact absurd rfl hMne
      | cons x M' => exact ⟨x, M', rfl⟩
    have hx0 : x ≠ 0 := by simpa using hhead
    have hval : ((Dg.ofMsd (x :: M') : Nat) : ℚ) * (10 : ℚ) ^ ((k : Int) + e) = (c : ℚ) * (10 : ℚ) ^ e := by
      rw [val_shift, ← hck]
    unfold shortest
    simp only [Bool.false_eq_true, if_false, List.nil_append, List.isEmpty_cons]
    generalize hdp : ((x :: M').length : Int) + k + e = dp
    by_cases hE : (decide (dp - 1 < lo) || decide (dp - 1 ≥ hi)) = true
    · -- exponent form
      rw [if_pos hE]
      obtain ⟨EP, hEP, hEP10, hEPne, hEPv⟩ := expStr_shape ech (dp - 1) minExp
      have hsgn : (if decide (dp - 1 < 0) then -(Dg.ofMsd EP : Int) else (Dg.ofMsd EP : Int)) = dp - 1 := by
        rw [hEPv]
        by_cases h : dp - 1 < 0
        · rw [if_pos (by simpa using h)]; omega
        · rw [if_neg (by simpa using h)]; omega
      cases M' with
      | nil =>
        refine ⟨[x], [], EP, false, true, decide (dp - 1 < 0), ?_, hM10, by simp, hEP10, by simp, by simp,
          by simp, by simp, fun _ => hEPne, ?_⟩
        · show Spec.layoutE ⟨[x], dp⟩ 0 false ech minExp = _
          rw [layoutE_one, hEP]; rfl
        · simp only [if_true, List.append_nil, List.length_nil, hsgn]
          rw [← hval]; congr 2; simp at hdp; omega
      | cons y M'' =>
        refine ⟨[x], y :: M'', EP, true, true, decide (dp - 1 < 0), ?_, by
            intro z hz; exact hM10 z (by simp at hz; simp [hz]), by
            intro z hz; exact hM10 z (List.mem_cons_of_mem _ hz), hEP10, by simp, by simp,
          by simp, by simp, fun _ => hEPne, ?_⟩
        · show Spec.layoutE ⟨x :: y :: M'', dp⟩ (M''.length + 1) false ech minExp = _
          rw [layoutE_many, hEP]; rfl
        · simp only [if_true, hsgn]
          rw [← hval]
          show ((Dg.ofMsd (x :: y :: M'') : Nat) : ℚ) * _ = _
          congr 2; simp at hdp ⊢; omega
    · rw [if_neg hE]
      by_cases h1 : ((x :: M').length : Int) ≤ dp
      · -- digits then zeros
        rw [if_neg (by omega)]
        refine ⟨(x :: M') ++ List.replicate (dp.toNat - (x :: M').length) 0, [], [], false, false, false,
          ?_, ?_, by simp, by simp, by simp, by simp [hx0], by simp, by simp, by simp, ?_⟩
        · rw [layoutF_int _ _ (by simp) h1]; simp
        · intro z hz
          rcases List.mem_append.mp hz with hz | hz
          · exact hM10 z hz
          · rw [(List.mem_replicate.mp hz).2]; decide
        · simp only [Bool.false_eq_true, if_false, List.append_nil, List.length_nil]
          rw [Dg.ofMsd_append, Dg.ofMsd_replicate_zero, List.length_replicate, Nat.add_zero]
          have hk : dp.toNat - (x :: M').length = (k + e.toNat) ∧ 0 ≤ e ∨
              (e < 0 ∧ dp.toNat - (x :: M').length + (-e).toNat = k) := by omega
          rw [hck]
          push_cast
          rcases hk with ⟨hk, he⟩ | ⟨he, hk⟩
          · rw [hk, pow_add]
            have : (10 : ℚ) ^ e = (10 : ℚ) ^ (e.toNat : Int) := by congr 1; omega
            rw [this, zpow_natCast]; push_cast; ring
          · rw [← hk, pow_add]
            have : (10 : ℚ) ^ e = ((10 : ℚ) ^ ((-e).toNat : Int))⁻¹ := by
              rw [← zpow_neg]; congr 1; omega
            rw [this, zpow_natCast]
            have hne : ((10 : ℚ) ^ (-e).toNat) ≠ 0 := by positivity
            field_simp
      · rw [if_pos (by omega)]
        by_cases h2 : 0 < dp
        · -- point inside
          have hp : (((x :: M').length : Int) - dp).toNat = (x :: M').length - dp.toNat := by omega
          rw [hp]
          refine ⟨(x :: M').take dp.toNat, (x :: M').drop dp.toNat, [], true, false, false, ?_,
            fun z hz => hM10 z (List.mem_of_mem_take hz), fun z hz => hM10 z (List.mem_of_mem_drop hz),
            by simp, ?_, ?_, by simp, ?_, by simp, ?_⟩
          · rw [layoutF_mid _ _ h2 (by omega)]; simp
          · intro h; have := congrArg List.length h; simp at this; omega
          · intro _
            have : dp.toNat = (dp.toNat - 1) + 1 := by omega
            rw [this, List.take_succ_cons]; simpa using hx0
          · intro _ h
            have := congrArg List.length h
            rw [List.length_drop, List.length_nil] at this; omega
          · simp only [Bool.false_eq_true, if_false, List.take_append_drop]
            rw [← hval]; congr 2
            rw [List.length_drop]; omega
        · -- below one
          have hp : (((x :: M').length : Int) - dp).toNat = (-dp).toNat + (x :: M').length := by omega
          rw [hp]
          refine ⟨[0], List.replicate (-dp).toNat 0 ++ (x :: M'), [], true, false, false, ?_, by simp, ?_,
            by simp, by simp, by simp, by simp, by simp, by simp, ?_⟩
          · rw [layoutF_small _ _ (by simp) (by omega)]
            simp only [if_true, Bool.false_eq_true, if_false, List.append_nil]; rfl
          · intro z hz
            rcases List.mem_append.mp hz with hz | hz
            · rw [(List.mem_replicate.mp hz).2]; decide
            · exact hM10 z hz
          · simp only [Bool.false_eq_true, if_false]
            have : Dg.ofMsd ([0] ++ (List.replicate (-dp).toNat 0 ++ x :: M')) = Dg.ofMsd (x :: M') := by
              rw [← List.append_assoc, Dg.ofMsd_append]
              have : Dg.ofMsd ([0] ++ List.replicate (-dp).toNat 0) = 0 := by
                rw [show [0] ++ List.replicate (-dp).toNat 0 = List.replicate ((-dp).toNat + 1) 0 by
                  rw [List.replicate_succ]; rfl, Dg.ofMsd_replicate_zero]
              rw [this]; simp
            rw [this, ← hval]; congr 2
            simp at hdp ⊢; omega

theorem eqFold_digit (a : Nat) (ha : a < 10) (rest : List Char) (t : String)
    (ht : ∀ c, t.toList.head? = some c → Spec.isDigit c = false) (htne : t.toList ≠ []) :
    Spec.eqFold (Spec.digitChar a :: rest) t = false := by
  unfold Spec.eqFold
  cases hL : t.toList with
  | nil => exact absurd hL htne
  | cons c r =>
    have hc := ht c (by rw [hL]; rfl)
    simp only [List.map_cons]
    have : Spec.lower (Spec.digitChar a) = Spec.digitChar a := by
      unfold Spec.digitChar; interval_cases a <;> rfl
    rw [this]
    have hne : Spec.digitChar a ≠ c := by
      intro h; rw [← h, isDigit_digitChar a ha] at hc; cases hc
    simp [hne]

/-- sign of a literal (first step of `Spec.readLiteral`) -/
def litSign (s : Spec.Str) : Bool × Bool × Spec.Str :=
  match s with
  | '-' :: r => (true, true, r)
  | '+' :: r => (false, true, r)
  | r => (false, false, r)

/-- `Spec.readLiteral` after the sign (text copied from the specification, tied to it by
`readLiteral_eq : … := rfl`) -/
def litRest (sep names neg signed : Bool) (body : Spec.Str) : Option Spec.Lit :=
  if names && (Spec.eqFold body "inf" || Spec.eqFold body "infinity") then some (.inf neg)
  else if names && Spec.eqFold body "nan" then some (.nan signed)
  else match Spec.readNumber sep body with
    | some (n, sc) => some (.num neg n sc)
    | none => none

theorem readLiteral_eq (sep names : Bool) (s : Spec.Str) :
    Spec.readLiteral sep names s =
      litRest sep names (litSign s).1 (litSign s).2.1 (litSign s).2.2 := rfl

theorem digitChar_ne_plus (x : Nat) (h : x < 10) : Spec.digitChar x ≠ '+' := by
  unfold Spec.digitChar
  interval_cases x <;> decide

/-- a numeral that starts with a digit, with an optional minus sign in front -/
theorem readLiteral_num (sep names neg : Bool) (a : Nat) (ha : a < 10) (rest : List Char) :
    Spec.readLiteral sep names ((if neg then ['-'] else []) ++ Spec.digitChar a :: rest) =
      (Spec.readNumber sep (Spec.digitChar a :: rest)).map (fun p => Spec.Lit.num neg p.1 p.2) := by
  have h1 := eqFold_digit a ha rest "inf" (by intro c h; simp at h; subst h; decide) (by decide)
  have h2 := eqFold_digit a ha rest "infinity" (by intro c h; simp at h; subst h; decide) (by decide)
  have h3 := eqFold_digit a ha rest "nan" (by intro c h; simp at h; subst h; decide) (by decide)
  have hs : litSign ((if neg then ['-'] else []) ++ Spec.digitChar a :: rest) =
      (neg, neg, Spec.digitChar a :: rest) := by
    cases neg
    · show litSign (Spec.digitChar a :: rest) = _
      unfold litSign
      split
      · rename_i r heq
        injection heq with h _
        exact absurd h (digitChar_ne_minus a ha)
      · rename_i r heq
        injection heq with h _
        exact absurd h (digitChar_ne_plus a ha)
      · rfl
    · rfl
  rw [readLiteral_eq, hs]
  unfold litRest
  simp only [h1, h2, h3, Bool.or_self, Bool.and_false, Bool.false_eq_true, if_false]
  cases Spec.readNumber sep (Spec.digitChar a :: rest) <;> rfl

/-! ## the readers of the specification on the shortest numerals -/

theorem shortest_neg (lo hi : Int) (minExp : Nat) (neg : Bool) (s : Spec.Slice) (ech : Char) :
    shortest lo hi minExp neg s ech =
      (if neg then ['-'] else []) ++ shortest lo hi minExp false s ech := by
  unfold shortest
  simp

/-- **`Spec.readNumber` reads the shortest numeral back exactly.** -/
theorem shortest_readNumber (sep : Bool) (lo hi : Int) (minExp : Nat) (c : Nat) (e : Int) (ech : Char)
    (hech : ech = 'e' ∨ ech = 'E') :
    ∃ (n : Nat) (sc : Int),
      Spec.readNumber sep (shortest lo hi minExp false (Spec.sliceOf c e) ech) = some (n, sc) ∧
      (n : ℚ) * (10 : ℚ) ^ sc = (c : ℚ) * (10 : ℚ) ^ e := by
  obtain ⟨A, B, EP, hasDot, hasExp, eneg, hbody, hA, hB, hEP, hAne, _, hB0, _, hEPne, hval⟩ :=
    shortest_canon lo hi minExp c e ech
  refine ⟨_, _, ?_, hval⟩
  rw [hbody]
  exact readNumber_shape sep A B EP hasDot hasExp eneg ech hA hB hEP (by simp [hAne]) hB0 hech hEPne

/-- **`Spec.readLiteral` reads the signed shortest numeral back exactly**: sign and value. -/
theorem shortest_readLiteral (sep names : Bool) (lo hi : Int) (minExp : Nat) (neg : Bool) (c : Nat)
    (e : Int) (ech : Char) (hech : ech = 'e' ∨ ech = 'E') :
    ∃ (n : Nat) (sc : Int),
      Spec.readLiteral sep names (shortest lo hi minExp neg (Spec.sliceOf c e) ech) =
        some (.num neg n sc) ∧
      (n : ℚ) * (10 : ℚ) ^ sc = (c : ℚ) * (10 : ℚ) ^ e := by
  obtain ⟨A, B, EP, hasDot, hasExp, eneg, hbody, hA, hB, hEP, hAne, _, hB0, _, hEPne, hval⟩ :=
    shortest_canon lo hi minExp c e ech
  obtain ⟨a0, A', rfl⟩ : ∃ a0 A', A = a0 :: A' := by
    cases A with
    | nil => exact absurd rfl hAne
    | cons a0 A' => exact ⟨a0, A', rfl⟩
  refine ⟨_, _, ?_, hval⟩
  rw [shortest_neg, hbody]
  show Spec.readLiteral sep names ((if neg then ['-'] else []) ++ Spec.digitChar a0 :: _) = _
  rw [readLiteral_num sep names neg a0 (hA a0 (by simp))]
  have := readNumber_shape sep (a0 :: A') B EP hasDot hasExp eneg ech hA hB hEP (by simp) hB0 hech hEPne
  show Option.map _ (Spec.readNumber sep (Spec.digitsStr (a0 :: A') ++ _)) = _
  rw [this]; rfl

/-- **`Spec.readJsonNumber` (RFC 8259) accepts the signed shortest numeral and reads it back exactly.** -/
theorem shortest_readJson (lo hi : Int) (minExp : Nat) (neg : Bool) (c : Nat) (e : Int) (ech : Char)
    (hech : ech = 'e' ∨ ech = 'E') :
    ∃ (n : Nat) (sc : Int) (nd : Nat),
      Spec.readJsonNumber (shortest lo hi minExp neg (Spec.sliceOf c e) ech) = some (neg, n, sc, nd) ∧
      (n : ℚ) * (10 : ℚ) ^ sc = (c : ℚ) * (10 : ℚ) ^ e := by
  obtain ⟨A, B, EP, hasDot, hasExp, eneg, hbody, hA, hB, hEP, hAne, hlead, hB0, hB1, hEPne, hval⟩ :=
    shortest_canon lo hi minExp c e ech
  refine ⟨_, _, A.length + B.length, ?_, hval⟩
  rw [shortest_neg, hbody]
  exact readJsonNumber_shape neg A B EP hasDot hasExp eneg ech hA hB hEP hAne hlead hB0 hB1 hech hEPne

/-! ## the shortest text spelled out -/

/-- **The exponent has at least two digits, three or four when needed.** -/
theorem expStr_two (e : Char) (x : Int) (h : x.natAbs < 10000) :
    Spec.expStr e x 2 = e :: (if x < 0 then '-' else '+') ::
      (if x.natAbs < 10 then ['0', Spec.digitChar x.natAbs]
       else if x.natAbs < 100 then [Spec.digitChar (x.natAbs / 10), Spec.digitChar (x.natAbs % 10)]
       else if x.natAbs < 1000 then
         [Spec.digitChar (x.natAbs / 100), Spec.digitChar (x.natAbs / 10 % 10), Spec.digitChar (x.natAbs % 10)]
       else [Spec.digitChar (x.natAbs / 1000), Spec.digitChar (x.natAbs / 100 % 10),
         Spec.digitChar (x.natAbs / 10 % 10), Spec.digitChar (x.natAbs % 10)]) := by
  unfold Spec.expStr
  show e :: (if x < 0 then '-' else '+') :: (Spec.zeros (2 - (decS x.natAbs).length) ++ decS x.natAbs) = _
  congr 2
  generalize x.natAbs = a at h
  by_cases h1 : a < 10
  · rw [if_pos h1, decS_lt a h1]; rfl
  · rw [if_neg h1]
    by_cases h2 : a < 100
    · rw [if_pos h2, decS_2 a (by omega) h2]; rfl
    · rw [if_neg h2]
      by_cases h3 : a < 1000
      · rw [if_pos h3, decS_3 a (by omega) h3]; rfl
      · rw [if_neg h3, decS_4 a (by omega) h]; rfl

/-- **The shortest text, spelled out** for a non-empty digit list `M` with the point after `dp` digits. -/
theorem shortest_shape (lo hi : Int) (minExp : Nat) (M : List Nat) (dp : Int) (hne : M ≠ []) (e : Char) :
    shortest lo hi minExp false ⟨M, dp⟩ e =
      if dp - 1 < lo ∨ dp - 1 ≥ hi then
        Spec.digitsStr (M.take 1) ++ (if M.length = 1 then [] else '.' :: Spec.digitsStr (M.drop 1)) ++
          Spec.expStr e (dp - 1) minExp
      else if (M.length : Int) ≤ dp then Spec.digitsStr (M ++ List.replicate (dp.toNat - M.length) 0)
      else if 0 < dp then Spec.digitsStr (M.take dp.toNat) ++ '.' :: Spec.digitsStr (M.drop dp.toNat)
      else '0' :: '.' :: Spec.digitsStr (List.replicate (-dp).toNat 0 ++ M) := by
  obtain ⟨x, M', rfl⟩ : ∃ x M', M = x :: M' := by
    cases M with
    | nil => exact absurd rfl hne
    | cons x M' => exact ⟨x, M', rfl⟩
  unfold shortest
  simp only [Bool.false_eq_true, if_false, List.nil_append, List.isEmpty_cons]
  by_cases hE : dp - 1 < lo ∨ dp - 1 ≥ hi
  · rw [if_pos hE, if_pos (by simpa using hE)]
    cases M' with
    | nil => rw [show ([x] : List Nat).length - 1 = 0 from rfl, layoutE_one]; rfl
    | cons y M'' =>
      rw [show (x :: y :: M'').length - 1 = M''.length + 1 by simp, layoutE_many]
      simp [Spec.digitsStr]
  · rw [if_neg hE, if_neg (by simpa using hE)]
    by_cases h1 : ((x :: M').length : Int) ≤ dp
    · rw [if_pos h1, if_neg (by omega), layoutF_int _ _ (by simp) h1]
    · rw [if_neg h1, if_pos (by omega)]
      by_cases h2 : 0 < dp
      · rw [if_pos h2, show (((x :: M').length : Int) - dp).toNat = (x :: M').length - dp.toNat by omega,
          layoutF_mid _ _ h2 (by omega)]
      · rw [if_neg h2, show (((x :: M').length : Int) - dp).toNat = (-dp).toNat + (x :: M').length by omega,
          layoutF_small _ _ (by simp) (by omega)]

end Emit
