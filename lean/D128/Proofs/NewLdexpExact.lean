/-
  D128/Proofs/NewLdexpExact.lean — consequences of `new_correct` / `ldexp_correct` in terms of rational
  values (property C11: "exact whenever representable, Inf above the range, signed zero below it").

  Provided (namespace `NL`):
  * `flushS_member`   : a representable magnitude `q·10^k` is returned exactly by `flushOrRoundS` (all modes)
  * `of_same_fin`     : `Val.same v (.fin n c e)` gives `v.isFin`, `v.neg = n`, `v.toRat = ±c·10^e`
  * `natAbs_cast`     : `(±|i| : ℚ) = i`
  * `new_exact`       : `|sig|·10^exp` representable → `New` returns a finite value with `toRat = sig·10^exp`
  * `new_exact_range` : in particular for `-6176 ≤ exp ≤ 6111` (every `int64` significand fits)
  * `new_tiny`, `new_huge` : signed zero below `10^-6177`, `±Inf` from `(Cmax+1)·10^6111` on (all modes)
  * `ldexp_exact`     : `|d|·10^exp` representable → `Ldexp` returns a finite value with `toRat = d·10^exp`
  * `ldexp_tiny`, `ldexp_huge`
-/
import D128.Proofs.NewLdexpLdexp
set_option autoImplicit false
set_option maxRecDepth 4096
namespace NL
open Gen Spec SpecRound
local notation "𝔳[" d "]" => Spec.interp (Gen.Decimal.lo d) (Gen.Decimal.hi d)

/-- a representable magnitude is returned exactly, in every mode -/
theorem flushS_member (m : Mode) (neg : Bool) {q : Rat} (hq : 0 < q) (k : Int)
    (hM : Member (q * (10 : Rat) ^ k)) :
    ∃ c' e', Spec.flushOrRoundS m neg q k = .fin neg c' e' ∧
      (c' : Rat) * (10 : Rat) ^ e' = q * (10 : Rat) ^ k := by
  obtain ⟨c, e, hc, he1, he2, hx⟩ := hM
  have hqk : 0 < q * (10 : Rat) ^ k := mul_pos hq (zpow_pos (by norm_num) _)
  have hpe : (0 : Rat) < (10 : Rat) ^ e := zpow_pos (by norm_num) _
  have hc0 : 0 < c := by
    rcases Nat.eq_zero_or_pos c with h | h
    · subst h; rw [Nat.cast_zero, zero_mul] at hx; linarith
    · exact h
  have h2 : (1 : Rat) ≤ (c : Rat) := by exact_mod_cast hc0
  rw [flushOrRoundS_eq m neg q hq.le k, hx, flushOrRound_eq_roundTo]
  · obtain ⟨c', e', hr, hv, -⟩ := roundTo_exact m neg hc0 hc he1 he2
    exact ⟨c', e', hr, hv⟩
  · have h1 : (10 : Rat) ^ (Spec.Emin - 1) ≤ (10 : Rat) ^ e :=
      zpow_le_zpow_right₀ (by norm_num) (by omega)
    nlinarith

/-- what `Val.same` with a finite value says about sign and rational value -/
theorem of_same_fin {v : Spec.Val} {n : Bool} {c : Nat} {e : Int}
    (h : v.same (.fin n c e) = true) :
    v.isFin = true ∧ v.neg = n ∧
      v.toRat = if n then -((c : Rat) * (10 : Rat) ^ e) else (c : Rat) * (10 : Rat) ^ e := by
  cases v with
  | nan n' p => simp [Spec.Val.same] at h
  | inf n' => simp [Spec.Val.same] at h
  | fin n' c' e' =>
    simp only [Spec.Val.same, Bool.and_eq_true, beq_iff_eq] at h
    obtain ⟨rfl, h2⟩ := h
    refine ⟨rfl, rfl, ?_⟩
    simp only [Spec.mag, pow10_eq_zpow] at h2
    simp only [Spec.Val.toRat, Spec.mag, pow10_eq_zpow, h2]

theorem natAbs_cast (i : Int) :
    (if decide (i < 0) = true then -((i.natAbs : Rat)) else (i.natAbs : Rat)) = (i : Rat) := by
  by_cases h : i < 0
  · have e : (i.natAbs : Int) = -i := by omega
    have e' : ((i.natAbs : Int) : Rat) = ((-i : Int) : Rat) := by rw [e]
    rw [Int.cast_natCast, Int.cast_neg] at e'
    simp only [h, decide_true, if_true, e', neg_neg]
  · have e : (i.natAbs : Int) = i := by omega
    have e' : ((i.natAbs : Int) : Rat) = (i : Rat) := by rw [e]
    rw [Int.cast_natCast] at e'
    simp only [h, decide_false, Bool.false_eq_true, if_false, e']

theorem i64_neg_iff (sig : Int64) : decide (sig < 0) = decide (sig.toInt < 0) := by
  have z : (0 : Int64).toInt = 0 := by decide
  rw [decide_eq_decide, Int64.lt_iff_toInt_lt, z]

/-! ## `New` -/

/-- **exactness of `New`.**  Whenever `|sig|·10^exp` is a member of the format (coefficient at most
`Cmax`, exponent in `[-6176, 6111]`, subnormals included), `New` returns it exactly, in every mode. -/
theorem new_exact (g : Globals) (sig exp : Int64) (m : Spec.Mode)
    (hm : Spec.Mode.ofNat? g.DefaultRoundingMode.toNat = some m)
    (hM : Member ((sig.toInt.natAbs : Rat) * (10 : Rat) ^ exp.toInt)) :
    ∃ r, Gen.New g sig exp = .ok r ∧ (𝔳[r]).isFin = true ∧
      (𝔳[r]).neg = decide (sig.toInt < 0) ∧
      (𝔳[r]).toRat = (sig.toInt : Rat) * (10 : Rat) ^ exp.toInt := by
  obtain ⟨r, hr, hs⟩ := new_correct g sig exp m hm
  refine ⟨r, hr, ?_⟩
  by_cases h0 : sig = 0
  · subst h0
    have z : (0 : Int64).toInt = 0 := by decide
    have : Spec.newVal m (0 : Int64).toInt exp.toInt = .fin false 0 0 := by rw [z]; rfl
    rw [this] at hs
    obtain ⟨h1, h2, h3⟩ := of_same_fin hs
    refine ⟨h1, by rw [h2, z]; rfl, ?_⟩
    rw [h3, z]; simp
  · have hN1 : 1 ≤ sig.toInt.natAbs := by
      have : sig.toInt ≠ 0 := fun h => h0 (Int64.toInt_inj.mp h)
      omega
    have hq : (0 : Rat) < (sig.toInt.natAbs : Rat) := by exact_mod_cast hN1
    rw [newVal_eq sig m _ h0] at hs
    obtain ⟨c', e', hf, hv⟩ := flushS_member m (decide (sig < 0)) hq exp.toInt hM
    rw [hf] at hs
    obtain ⟨h1, h2, h3⟩ := of_same_fin hs
    refine ⟨h1, by rw [h2, i64_neg_iff], ?_⟩
    rw [h3, hv, i64_neg_iff, ← natAbs_cast sig.toInt]
    split <;> ring

/-- every `int64` significand fits the coefficient: for `-6176 ≤ exp ≤ 6111`, `New(sig, exp)` is
exactly `sig·10^exp` -/
theorem new_exact_range (g : Globals) (sig exp : Int64) (m : Spec.Mode)
    (hm : Spec.Mode.ofNat? g.DefaultRoundingMode.toNat = some m)
    (h1 : -6176 ≤ exp.toInt) (h2 : exp.toInt ≤ 6111) :
    ∃ r, Gen.New g sig exp = .ok r ∧ (𝔳[r]).isFin = true ∧
      (𝔳[r]).neg = decide (sig.toInt < 0) ∧
      (𝔳[r]).toRat = (sig.toInt : Rat) * (10 : Rat) ^ exp.toInt := by
  apply new_exact g sig exp m hm
  refine ⟨sig.toInt.natAbs, exp.toInt, ?_, by unfold Spec.Emin; omega, by unfold Spec.Emax; omega, rfl⟩
  have := sig.le_toInt; have := sig.toInt_lt
  unfold Spec.Cmax
  simp only [Nat.reducePow, Int.reducePow] at *; omega

/-- below `10^-6177` the result is a zero with the sign of `sig` (all modes) -/
theorem new_tiny (g : Globals) (sig exp : Int64) (m : Spec.Mode)
    (hm : Spec.Mode.ofNat? g.DefaultRoundingMode.toNat = some m) (h0 : sig ≠ 0)
    (h : (sig.toInt.natAbs : Rat) * (10 : Rat) ^ exp.toInt < (10 : Rat) ^ (-6177 : Int)) :
    ∃ r, Gen.New g sig exp = .ok r ∧ (𝔳[r]).same (.fin (decide (sig.toInt < 0)) 0 0) = true := by
  obtain ⟨r, hr, hs⟩ := new_correct g sig exp m hm
  refine ⟨r, hr, ?_⟩
  have hN1 : 1 ≤ sig.toInt.natAbs := by
    have : sig.toInt ≠ 0 := fun h => h0 (Int64.toInt_inj.mp h)
    omega
  have hq : (0 : Rat) < (sig.toInt.natAbs : Rat) := by exact_mod_cast hN1
  rw [newVal_eq sig m _ h0, flushS_tiny m _ hq _ h, i64_neg_iff] at hs
  exact same_trans hs (Sp.same_zero _ _ _)

/-- from `(Cmax+1)·10^6111` on the result is the infinity with the sign of `sig` (all modes) -/
theorem new_huge (g : Globals) (sig exp : Int64) (m : Spec.Mode)
    (hm : Spec.Mode.ofNat? g.DefaultRoundingMode.toNat = some m) (h0 : sig ≠ 0)
    (h : ((Spec.Cmax : Rat) + 1) * (10 : Rat) ^ Spec.Emax
      ≤ (sig.toInt.natAbs : Rat) * (10 : Rat) ^ exp.toInt) :
    ∃ r, Gen.New g sig exp = .ok r ∧ 𝔳[r] = .inf (decide (sig.toInt < 0)) := by
  obtain ⟨r, hr, hs⟩ := new_correct g sig exp m hm
  refine ⟨r, hr, ?_⟩
  have hN1 : 1 ≤ sig.toInt.natAbs := by
    have : sig.toInt ≠ 0 := fun h => h0 (Int64.toInt_inj.mp h)
    omega
  have hq : (0 : Rat) < (sig.toInt.natAbs : Rat) := by exact_mod_cast hN1
  rw [newVal_eq sig m _ h0, flushS_huge m _ hq _ h, i64_neg_iff] at hs
  cases hv : 𝔳[r] <;> rw [hv] at hs <;> simp [Spec.Val.same] at hs
  rw [hs]

/-! ## `Ldexp` -/

/-- `Spec.ldexp` on a finite non-zero value -/
theorem spec_ldexp_fin (m : Spec.Mode) (n : Bool) (c : Nat) (x k : Int) (hc : c ≠ 0) :
    Spec.ldexp m (.fin n c x) k = Spec.flushOrRoundS m n (c : Rat) (x + k) := by
  have hb : (c == 0) = false := by simpa using hc
  simp only [Spec.ldexp, hb, Bool.false_eq_true, if_false]

theorem mul_zpow_assoc (c : Rat) (x k : Int) :
    c * (10 : Rat) ^ (x + k) = c * (10 : Rat) ^ x * (10 : Rat) ^ k := by
  rw [zpow_add₀ (by norm_num), mul_assoc]

/-- **exactness of `Ldexp`.**  For finite `d`, whenever `|d|·10^exp` is a member of the format,
`Ldexp` returns it exactly (sign kept, also on zero), in every mode. -/
theorem ldexp_exact (g : Globals) (d : Gen.Decimal) (exp : Int64) (m : Spec.Mode)
    (hm : Spec.Mode.ofNat? g.DefaultRoundingMode.toNat = some m)
    (hd : Gen.Decimal.isSpecial d = false)
    (hM : Member ((𝔳[d]).abs * (10 : Rat) ^ exp.toInt)) :
    ∃ r, Gen.Ldexp g d exp = .ok r ∧ (𝔳[r]).isFin = true ∧
      (𝔳[r]).neg = Gen.Decimal.Signbit d ∧
      (𝔳[r]).toRat = (𝔳[d]).toRat * (10 : Rat) ^ exp.toInt := by
  obtain ⟨r, hr, hs⟩ := ldexp_correct g d exp m hm
  refine ⟨r, hr, ?_⟩
  rw [Enc.interp_decompose d hd] at hs hM ⊢
  generalize (Gen.Decimal.decompose d).1.toNat = c at *
  generalize (Gen.Decimal.decompose d).2.toInt - 6176 = x at *
  generalize Gen.Decimal.Signbit d = n at *
  by_cases hc : c = 0
  · subst hc
    have : Spec.ldexp m (.fin n 0 x) exp.toInt = .fin n 0 0 := rfl
    rw [this] at hs
    obtain ⟨h1, h2, h3⟩ := of_same_fin hs
    refine ⟨h1, h2, ?_⟩
    rw [h3, toRat_fin]; simp
  · have hq : (0 : Rat) < (c : Rat) := by exact_mod_cast Nat.pos_of_ne_zero hc
    rw [spec_ldexp_fin m n c x _ hc] at hs
    rw [abs_fin, ← mul_zpow_assoc] at hM
    obtain ⟨c', e', hf, hv⟩ := flushS_member m n hq (x + exp.toInt) hM
    rw [hf] at hs
    obtain ⟨h1, h2, h3⟩ := of_same_fin hs
    refine ⟨h1, h2, ?_⟩
    rw [h3, hv, toRat_fin, mul_zpow_assoc]
    split <;> ring

/-- below `10^-6177` the result is a zero with the sign of `d` (all modes) -/
theorem ldexp_tiny (g : Globals) (d : Gen.Decimal) (exp : Int64) (m : Spec.Mode)
    (hm : Spec.Mode.ofNat? g.DefaultRoundingMode.toNat = some m)
    (hd : Gen.Decimal.isSpecial d = false) (zd : Gen.Decimal.IsZero d = false)
    (h : (𝔳[d]).abs * (10 : Rat) ^ exp.toInt < (10 : Rat) ^ (-6177 : Int)) :
    ∃ r, Gen.Ldexp g d exp = .ok r ∧ (𝔳[r]).same (.fin (Gen.Decimal.Signbit d) 0 0) = true := by
  obtain ⟨r, hr, hs⟩ := ldexp_finite g d exp m hm hd zd
  refine ⟨r, hr, ?_⟩
  have hc0 : (Gen.Decimal.decompose d).1.toNat ≠ 0 := by
    have := Sp.IsZero_eq_sig d; rw [zd] at this; simpa using this.symm
  have hq : (0 : Rat) < ((Gen.Decimal.decompose d).1.toNat : Rat) := by
    exact_mod_cast Nat.pos_of_ne_zero hc0
  rw [Enc.interp_decompose d hd, abs_fin, ← mul_zpow_assoc] at h
  rw [flushS_tiny m _ hq _ h] at hs
  exact same_trans hs (Sp.same_zero _ _ _)

/-- from `(Cmax+1)·10^6111` on the result is the infinity with the sign of `d` (all modes) -/
theorem ldexp_huge (g : Globals) (d : Gen.Decimal) (exp : Int64) (m : Spec.Mode)
    (hm : Spec.Mode.ofNat? g.DefaultRoundingMode.toNat = some m)
    (hd : Gen.Decimal.isSpecial d = false) (zd : Gen.Decimal.IsZero d = false)
    (h : ((Spec.Cmax : Rat) + 1) * (10 : Rat) ^ Spec.Emax ≤ (𝔳[d]).abs * (10 : Rat) ^ exp.toInt) :
    ∃ r, Gen.Ldexp g d exp = .ok r ∧ 𝔳[r] = .inf (Gen.Decimal.Signbit d) := by
  obtain ⟨r, hr, hs⟩ := ldexp_finite g d exp m hm hd zd
  refine ⟨r, hr, ?_⟩
  have hc0 : (Gen.Decimal.decompose d).1.toNat ≠ 0 := by
    have := Sp.IsZero_eq_sig d; rw [zd] at this; simpa using this.symm
  have hq : (0 : Rat) < ((Gen.Decimal.decompose d).1.toNat : Rat) := by
    exact_mod_cast Nat.pos_of_ne_zero hc0
  rw [Enc.interp_decompose d hd, abs_fin, ← mul_zpow_assoc] at h
  rw [flushS_huge m _ hq _ h] at hs
  cases hv : 𝔳[r] <;> rw [hv] at hs <;> simp [Spec.Val.same] at hs
  rw [hs]

/-- `new_exact_range` at the smallest subnormal: `New(-1, -6176)` -/
example := new_exact_range ⟨0⟩ (-1) (-6176) .nearestEven rfl (by decide) (by decide)

end NL
