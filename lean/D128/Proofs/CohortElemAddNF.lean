/-
  D128/Proofs/CohortElemAddNF.lean — `decomposed192.add` in a NORMAL FORM in which the three branches (`d.exp <,>,= o.exp`)
  are described uniformly (derived from `add_sharp`, CohortElemAddSharp.lean).

  With `μ = min d.exp o.exp` and `N = (val d + val o)/10^μ ∈ ℕ` (`mu`, `NN`, `NN_val`) one run of `add` is:
      align at `E = μ + a`;   aligned sum `S = ⌊N/10^a⌋` (`< 2^193`);   result `⌊S/10^m⌋ = ⌊N/10^(a+m)⌋` at `E + m`,
      `m ≤ 1`, `m = 0` iff `S < 2^192`;
      `E = max(μ, f_d, f_o)` where `f_x` is the exponent at which the scaling loops would stop on `x` if left alone
      (`FullAt x f`: `x.sig·10^j ≥ LIM` for the first time at `j = x.exp − f`; no such `f` for `x.sig = 0`) — stated as
      `a = 0 ∨ FullAt d E ∨ FullAt o E`, `FullAt d f → f ≤ E`, `FullAt o f → f ≤ E`;
      flag `= if 10^m ∣ S then alFlag d o a t else 1`, `alFlag` = the flag left by the alignment (`D192.addFlagPos` when
      digits of `o` are dropped, `if 10^a ∣ d.sig then t else 1` when digits of `d` are dropped).

  Provided (namespace `CohortElem`):
  * `FullAt`, `FullAt.le_exp`, `FullAt.le_of_noOver`, `FullAt.of_ge`, `FullAt.val_ge`, `val_shift`
  * `FullAt.congr` : `val x = val x'`, `x = x' ∨ (x.sig, x'.sig < 10·LIM)`, `FullAt x f` ⇒ `FullAt x' f`
                     (the stopping exponent is a function of the value, over-full twins excluded)
  * `mu`, `NN`, `NN_val`, `alFlag`, `AddNF d o t r t1 a m`, `Tr'.unpack1`, `nf_of`, `addFlagPos_zero`
  * `add_nf` : exponents in `[-16000, 16000]` ⇒ `∃ r t1 a m, add d o t = .ok (r, t1) ∧ AddNF d o t r t1 a m`
  * `NN_mod`, `alFlag_exact`, `alFlag_inexact`
  * `AddNF.exact_iff` (`val r = val d + val o ↔ 10^(a+m) ∣ N`), `AddNF.flag_exact`, `AddNF.flag_inexact`,
    `AddNF.exp_window` (`min ≤ r.exp ≤ max + 1`)
-/
import D128.Proofs.CohortElemAddSharp
set_option autoImplicit false
set_option maxRecDepth 4096
set_option exponentiation.threshold 512
set_option linter.unusedVariables false
open D128.Proofs.WordsWide

namespace CohortElem
open Gen D192

/-! ### where the scaling loops stop -/

/-- the scaling loops of `add`, not stopped by the exponent gap, bring `x` to exponent `f`:
`x.sig·10^j ≥ LIM` for the first time at `j = x.exp − f` -/
def FullAt (x : decomposed192) (f : Int) : Prop :=
  ∃ j : Nat, f = x.exp.toInt - j ∧ LIM ≤ x.sig.toNat * 10 ^ j ∧ (j = 0 ∨ x.sig.toNat * 10 ^ j < 10 * LIM)

theorem FullAt.le_exp {x : decomposed192} {f : Int} (h : FullAt x f) : f ≤ x.exp.toInt := by
  obtain ⟨j, hf, _⟩ := h; omega

theorem FullAt.le_of_noOver {x : decomposed192} {f : Int} {j : Nat} (h : FullAt x f)
    (hj : j = 0 ∨ x.sig.toNat * 10 ^ j < 10 * LIM) : f ≤ x.exp.toInt - j := by
  obtain ⟨j0, hf, hL, _⟩ := h
  rcases hj with hj | hj
  · omega
  · by_contra hc
    have hlt : j0 + 1 ≤ j := by omega
    have : x.sig.toNat * 10 ^ (j0 + 1) ≤ x.sig.toNat * 10 ^ j :=
      Nat.mul_le_mul_left _ (Nat.pow_le_pow_right (by norm_num) hlt)
    rw [Nat.pow_succ, ← Nat.mul_assoc] at this
    omega

theorem FullAt.of_ge {x : decomposed192} (h : LIM ≤ x.sig.toNat) : FullAt x x.exp.toInt :=
  ⟨0, by simp, by simpa using h, Or.inl rfl⟩

theorem val_shift (x : decomposed192) (j : Nat) :
    val x = ((x.sig.toNat * 10 ^ j : Nat) : ℚ) * (10 : ℚ) ^ (x.exp.toInt - j) := by
  unfold val
  rw [zpow_sub₀ (by norm_num), zpow_natCast]
  push_cast
  have : ((10 : ℚ) ^ j) ≠ 0 := pow_ne_zero _ (by norm_num)
  field_simp

theorem FullAt.val_ge {x : decomposed192} {f : Int} (h : FullAt x f) :
    (LIM : ℚ) * (10 : ℚ) ^ f ≤ val x := by
  obtain ⟨j, hf, hL, _⟩ := h
  rw [val_shift x j, hf]
  have hp : (0 : ℚ) < (10 : ℚ) ^ (x.exp.toInt - j) := zpow_pos (by norm_num) _
  have : ((LIM : Nat) : ℚ) ≤ ((x.sig.toNat * 10 ^ j : Nat) : ℚ) := by exact_mod_cast hL
  exact mul_le_mul_of_nonneg_right this hp.le

/-- the stopping exponent is a function of the value — for operands that are identical or both not over-full -/
theorem FullAt.congr {x x' : decomposed192} {f : Int} (hv : val x = val x')
    (hS : x = x' ∨ (x.sig.toNat < 10 * LIM ∧ x'.sig.toNat < 10 * LIM)) (h : FullAt x f) : FullAt x' f := by
  rcases hS with rfl | ⟨hu, hu'⟩
  · exact h
  obtain ⟨j, hf, hL, hU⟩ := h
  have hlt : x.sig.toNat * 10 ^ j < 10 * LIM := by
    rcases hU with h0 | h0
    · rw [h0]; simpa using hu
    · exact h0
  have hq : ((x.sig.toNat * 10 ^ j : Nat) : ℚ) * (10 : ℚ) ^ f
      = (x'.sig.toNat : ℚ) * (10 : ℚ) ^ x'.exp.toInt := by
    rw [hf, ← val_shift x j, hv]; rfl
  have hge : f ≤ x'.exp.toInt := by
    by_contra hc
    have := q_eq_nat hq (by omega)
    have h10 : 10 ^ 1 ≤ 10 ^ (f - x'.exp.toInt).toNat := Nat.pow_le_pow_right (by norm_num) (by omega)
    have : x.sig.toNat * 10 ^ j * 10 ≤ x'.sig.toNat := by
      rw [this]; exact Nat.mul_le_mul_left _ (by simpa using h10)
    omega
  have := q_eq_nat hq.symm hge
  refine ⟨(x'.exp.toInt - f).toNat, by omega, by rw [← this]; exact hL, Or.inr (by rw [← this]; exact hlt)⟩

/-! ### uniform description of one run -/

/-- the smaller of the two exponents -/
def mu (d o : decomposed192) : Int := min d.exp.toInt o.exp.toInt

/-- the exact sum in units of `10^mu` -/
def NN (d o : decomposed192) : Nat :=
  d.sig.toNat * 10 ^ (d.exp.toInt - mu d o).toNat + o.sig.toNat * 10 ^ (o.exp.toInt - mu d o).toNat

theorem NN_val (d o : decomposed192) : ((NN d o : Nat) : ℚ) * (10 : ℚ) ^ mu d o = val d + val o := by
  have e1 : d.exp.toInt = mu d o + ((d.exp.toInt - mu d o).toNat : Int) := by unfold mu; omega
  have e2 : o.exp.toInt = mu d o + ((o.exp.toInt - mu d o).toNat : Int) := by unfold mu; omega
  unfold val NN
  conv_rhs => rw [e1, e2]
  rw [zpow_add₀ (by norm_num), zpow_add₀ (by norm_num), zpow_natCast, zpow_natCast]
  push_cast; ring

/-- the sticky flag after the alignment, `a` digits of the operand with the smaller exponent dropped -/
def alFlag (d o : decomposed192) (a : Nat) (t : Int8) : Int8 :=
  if d.exp.toInt < o.exp.toInt then (if d.sig.toNat % 10 ^ a = 0 then t else 1)
  else addFlagPos a o.sig.toNat t

/-- **normal form of one run of `add`**: with `μ = min d.exp o.exp`, `N = (val d + val o)/10^μ`: the operands are
aligned at `E = μ + a`, the aligned sum is `S = ⌊N/10^a⌋`, the result `⌊S/10^m⌋` at `E + m` with `m = 0` iff
`S < 2^192`; `E` is the largest of `μ` and the stopping exponents of the two scaling loops. -/
def AddNF (d o : decomposed192) (t : Int8) (r : decomposed192) (t1 : Int8) (a m : Nat) : Prop :=
  m ≤ 1 ∧ r.sig.toNat = NN d o / 10 ^ (a + m) ∧ r.exp.toInt = mu d o + a + m ∧
    NN d o / 10 ^ a < 2 ^ 193 ∧ (m = 0 ∨ 2 ^ 192 ≤ NN d o / 10 ^ a) ∧
    mu d o + a ≤ max d.exp.toInt o.exp.toInt ∧
    (a = 0 ∨ FullAt d (mu d o + a) ∨ FullAt o (mu d o + a)) ∧
    (∀ f, FullAt d f → f ≤ mu d o + a) ∧ (∀ f, FullAt o f → f ≤ mu d o + a) ∧
    t1 = (if (NN d o / 10 ^ a) % 10 ^ m = 0 then alFlag d o a t else 1)

theorem Tr'.unpack1 {P : Nat} {t0 t' : Int8} {e0 : Int16} {cur : Nat} {exp : Int16}
    (h : Tr' P t0 e0 t' cur exp) (hP : P < 2 ^ 193) :
    ∃ m : Nat, m ≤ 1 ∧ cur = P / 10 ^ m ∧ exp = e0 + Int16.ofNat m ∧
      t' = (if P % 10 ^ m = 0 then t0 else 1) ∧ (m = 0 ∨ 2 ^ 192 ≤ P) := by
  obtain ⟨m, hc, hexp, ht, hn⟩ := h
  have hm : m ≤ 1 := by
    rcases hn with h0 | h0
    · omega
    · by_contra hc'
      have h1 : 10 ^ 1 ≤ 10 ^ (m - 1) := Nat.pow_le_pow_right (by norm_num) (by omega)
      have : P / 10 ^ (m - 1) ≤ P / 10 ^ 1 := Nat.div_le_div_left h1 (by norm_num)
      omega
  refine ⟨m, hm, hc, hexp, ht, ?_⟩
  rcases hn with h0 | h0
  · exact Or.inl h0
  · rcases Nat.eq_zero_or_pos m with h1 | h1
    · exact Or.inl h1
    · right
      have : m - 1 = 0 := by omega
      rwa [this, Nat.pow_zero, Nat.div_one] at h0

/-- assembling the normal form from an alignment at `μ + a` and the final truncation state -/
theorem nf_of {d o : decomposed192} {t : Int8} {r : decomposed192} {t1 : Int8} (a : Nat) (e0 : Int16)
    (he0 : e0.toInt = mu d o + a) (hw : -32000 ≤ e0.toInt ∧ e0.toInt ≤ 32000)
    (hTr : Tr' (NN d o / 10 ^ a) (alFlag d o a t) e0 t1 r.sig.toNat r.exp)
    (hS : NN d o / 10 ^ a < 2 ^ 193)
    (hmax : mu d o + a ≤ max d.exp.toInt o.exp.toInt)
    (hlow : a = 0 ∨ FullAt d (mu d o + a) ∨ FullAt o (mu d o + a))
    (hud : ∀ f, FullAt d f → f ≤ mu d o + a) (huo : ∀ f, FullAt o f → f ≤ mu d o + a) :
    ∃ m, AddNF d o t r t1 a m := by
  obtain ⟨m, hm, hc, hexp, ht, hn⟩ := hTr.unpack1 hS
  refine ⟨m, hm, ?_, ?_, hS, hn, hmax, hlow, hud, huo, ht⟩
  · rw [hc, Nat.div_div_eq_div_mul, Nat.pow_add]
  · rw [hexp, i16_add_nat _ _ (by omega) (by omega), he0]

theorem addFlagPos_zero (O : Nat) (t : Int8) : addFlagPos 0 O t = t := by
  unfold addFlagPos
  rw [if_neg (by omega), flagDiv_zero]

/-- **`decomposed192.add` in normal form** (exponents in `[-16000, 16000]`: no `int16` wrap) -/
theorem add_nf (d o : decomposed192) (t : Int8)
    (hd : -16000 ≤ d.exp.toInt ∧ d.exp.toInt ≤ 16000) (ho : -16000 ≤ o.exp.toInt ∧ o.exp.toInt ≤ 16000) :
    ∃ r t1 a m, decomposed192.add d o t = .ok (r, t1) ∧ AddNF d o t r t1 a m := by
  obtain ⟨r, t1, hr, h⟩ := add_sharp d o t
  suffices h' : ∃ a m, AddNF d o t r t1 a m by
    obtain ⟨a, m, h'⟩ := h'
    exact ⟨r, t1, a, m, hr, h'⟩
  have he : (d.exp - o.exp).toInt = d.exp.toInt - o.exp.toInt :=
    Int16.toInt_sub_of _ _ (by omega) (by omega)
  rcases h with ⟨hneg, j, k, hjk, hlt, hprec, hno, htr⟩ | ⟨hpos, j, k, hjk, hlt, hprec, hno, htr⟩ | ⟨hz, htr⟩
  · -- `d` has the smaller exponent: `o` scaled by `10^j`, `k` digits of `d` dropped
    rw [he] at hneg
    have hjk' : (j : Int) + k = o.exp.toInt - d.exp.toInt := by
      unfold negNat at hjk; rw [he] at hjk; omega
    have hmu : mu d o = d.exp.toInt := by unfold mu; omega
    have hN : NN d o = d.sig.toNat + o.sig.toNat * 10 ^ j * 10 ^ k := by
      unfold NN; rw [hmu]
      have e1 : (d.exp.toInt - d.exp.toInt).toNat = 0 := by omega
      have e2 : (o.exp.toInt - d.exp.toInt).toNat = j + k := by omega
      rw [e1, e2, Nat.pow_zero, Nat.mul_one, Nat.pow_add, Nat.mul_assoc]
    have hS : NN d o / 10 ^ k = d.sig.toNat / 10 ^ k + o.sig.toNat * 10 ^ j := by
      rw [hN, Nat.add_mul_div_right _ _ (Nat.pow_pos (by norm_num))]
    have hfl : alFlag d o k t = if d.sig.toNat % 10 ^ k = 0 then t else 1 := by
      unfold alFlag; rw [if_pos (by omega)]
    have he0 : (o.exp - Int16.ofNat j).toInt = mu d o + k := by
      rw [i16_sub_nat _ _ (by omega) (by omega), hmu]; omega
    refine ⟨k, nf_of k (o.exp - Int16.ofNat j) he0 (by rw [he0, hmu]; omega) (by rw [hS, hfl]; exact htr)
      ?_ ?_ ?_ ?_ ?_⟩
    · rw [hS]
      have := U192.toNat_lt d.sig
      have : d.sig.toNat / 10 ^ k ≤ d.sig.toNat := Nat.div_le_self _ _
      omega
    · rw [hmu]; omega
    · rcases hprec with h0 | h0
      · exact Or.inl h0
      · right; right; exact ⟨j, by rw [hmu]; omega, h0, hno⟩
    · intro f hf; have := hf.le_exp; rw [hmu]; omega
    · intro f hf; have := hf.le_of_noOver hno; rw [hmu]; omega
  · -- `o` has the smaller exponent: `d` scaled by `10^j`, `k` digits of `o` dropped
    rw [he] at hpos
    have hjk' : (j : Int) + k = d.exp.toInt - o.exp.toInt := by
      unfold posNat at hjk; rw [he] at hjk; omega
    have hmu : mu d o = o.exp.toInt := by unfold mu; omega
    have hN : NN d o = o.sig.toNat + d.sig.toNat * 10 ^ j * 10 ^ k := by
      unfold NN; rw [hmu]
      have e1 : (o.exp.toInt - o.exp.toInt).toNat = 0 := by omega
      have e2 : (d.exp.toInt - o.exp.toInt).toNat = j + k := by omega
      rw [e1, e2, Nat.pow_zero, Nat.mul_one, Nat.pow_add, Nat.mul_assoc, Nat.add_comm]
    have hS : NN d o / 10 ^ k = d.sig.toNat * 10 ^ j + o.sig.toNat / 10 ^ k := by
      rw [hN, Nat.add_mul_div_right _ _ (Nat.pow_pos (by norm_num)), Nat.add_comm]
    have hfl : alFlag d o k t = addFlagPos k o.sig.toNat t := by
      unfold alFlag; rw [if_neg (by omega)]
    have he0 : (d.exp - Int16.ofNat j).toInt = mu d o + k := by
      rw [i16_sub_nat _ _ (by omega) (by omega), hmu]; omega
    refine ⟨k, nf_of k (d.exp - Int16.ofNat j) he0 (by rw [he0, hmu]; omega) (by rw [hS, hfl]; exact htr)
      ?_ ?_ ?_ ?_ ?_⟩
    · rw [hS]
      have := U192.toNat_lt o.sig
      have : o.sig.toNat / 10 ^ k ≤ o.sig.toNat := Nat.div_le_self _ _
      omega
    · rw [hmu]; omega
    · rcases hprec with h0 | h0
      · exact Or.inl h0
      · right; left; exact ⟨j, by rw [hmu]; omega, h0, hno⟩
    · intro f hf; have := hf.le_of_noOver hno; rw [hmu]; omega
    · intro f hf; have := hf.le_exp; rw [hmu]; omega
  · -- equal exponents
    rw [he] at hz
    have hmu : mu d o = d.exp.toInt := by unfold mu; omega
    have hN : NN d o = d.sig.toNat + o.sig.toNat := by
      unfold NN; rw [hmu]
      have e1 : (d.exp.toInt - d.exp.toInt).toNat = 0 := by omega
      have e2 : (o.exp.toInt - d.exp.toInt).toNat = 0 := by omega
      rw [e1, e2, Nat.pow_zero, Nat.mul_one, Nat.mul_one]
    have hS : NN d o / 10 ^ 0 = d.sig.toNat + o.sig.toNat := by rw [hN, Nat.pow_zero, Nat.div_one]
    have hfl : alFlag d o 0 t = t := by
      unfold alFlag; rw [if_neg (by omega), addFlagPos_zero]
    refine ⟨0, nf_of 0 d.exp (by rw [hmu]; simp) (by omega) (by rw [hS, hfl]; exact htr) ?_ ?_ (Or.inl rfl) ?_ ?_⟩
    · rw [hS]
      have := U192.toNat_lt d.sig
      have := U192.toNat_lt o.sig
      omega
    · rw [hmu]; simp
    · intro f hf; have := hf.le_exp; rw [hmu]; simp; omega
    · intro f hf; have := hf.le_exp; rw [hmu]; simp; omega

/-! ### reading the normal form -/

/-- the digits lost in the alignment are those of the operand with the smaller exponent -/
theorem NN_mod (d o : decomposed192) (a : Nat) (ha : mu d o + a ≤ max d.exp.toInt o.exp.toInt) :
    NN d o % 10 ^ a = (if d.exp.toInt < o.exp.toInt then d.sig.toNat else o.sig.toNat) % 10 ^ a := by
  unfold NN
  rcases lt_trichotomy d.exp.toInt o.exp.toInt with h | h | h
  · rw [if_pos h]
    have hmu : mu d o = d.exp.toInt := by unfold mu; omega
    rw [hmu] at ha ⊢
    have e1 : (d.exp.toInt - d.exp.toInt).toNat = 0 := by omega
    obtain ⟨c, hc⟩ : ∃ c, (o.exp.toInt - d.exp.toInt).toNat = a + c :=
      ⟨(o.exp.toInt - d.exp.toInt).toNat - a, by omega⟩
    have e : o.sig.toNat * 10 ^ (a + c) = 10 ^ a * (o.sig.toNat * 10 ^ c) := by rw [Nat.pow_add]; ring
    rw [e1, hc, Nat.pow_zero, Nat.mul_one, e, Nat.add_mul_mod_self_left]
  · have h0 : a = 0 := by unfold mu at ha; omega
    rw [h0, Nat.pow_zero, Nat.mod_one, Nat.mod_one]
  · rw [if_neg (by omega)]
    have hmu : mu d o = o.exp.toInt := by unfold mu; omega
    rw [hmu] at ha ⊢
    have e1 : (o.exp.toInt - o.exp.toInt).toNat = 0 := by omega
    obtain ⟨c, hc⟩ : ∃ c, (d.exp.toInt - o.exp.toInt).toNat = a + c :=
      ⟨(d.exp.toInt - o.exp.toInt).toNat - a, by omega⟩
    have e : d.sig.toNat * 10 ^ (a + c) = 10 ^ a * (d.sig.toNat * 10 ^ c) := by rw [Nat.pow_add]; ring
    rw [e1, hc, Nat.pow_zero, Nat.mul_one, e, Nat.add_comm, Nat.add_mul_mod_self_left]

theorem alFlag_exact (d o : decomposed192) (a : Nat) (t : Int8)
    (h : (if d.exp.toInt < o.exp.toInt then d.sig.toNat else o.sig.toNat) % 10 ^ a = 0) : alFlag d o a t = t := by
  unfold alFlag
  by_cases hlt : d.exp.toInt < o.exp.toInt
  · rw [if_pos hlt] at h ⊢; rw [if_pos h]
  · rw [if_neg hlt] at h ⊢; exact addFlagPos_exact a _ t (U192.toNat_lt _) h

theorem alFlag_inexact (d o : decomposed192) (a : Nat) (t : Int8)
    (h : (if d.exp.toInt < o.exp.toInt then d.sig.toNat else o.sig.toNat) % 10 ^ a ≠ 0) :
    alFlag d o a t = 1 ∨ alFlag d o a t = -1 := by
  unfold alFlag
  by_cases hlt : d.exp.toInt < o.exp.toInt
  · rw [if_pos hlt] at h ⊢; rw [if_neg h]; exact Or.inl rfl
  · rw [if_neg hlt] at h ⊢; exact addFlagPos_inexact a _ t h

/-- exactness of a run in terms of `N` -/
theorem AddNF.exact_iff {d o : decomposed192} {t : Int8} {r : decomposed192} {t1 : Int8} {a m : Nat}
    (h : AddNF d o t r t1 a m) : val r = val d + val o ↔ NN d o % 10 ^ (a + m) = 0 := by
  obtain ⟨hm, hs, he, -⟩ := h
  rw [← NN_val]
  unfold val
  rw [hs, he, show mu d o + (a : Int) + (m : Int) = mu d o + ((a + m : Nat) : Int) by push_cast; ring]
  exact (trunc_val (NN d o) (a + m) (mu d o)).2.2

theorem AddNF.flag_exact {d o : decomposed192} {t : Int8} {r : decomposed192} {t1 : Int8} {a m : Nat}
    (h : AddNF d o t r t1 a m) (hz : NN d o % 10 ^ (a + m) = 0) : t1 = t := by
  obtain ⟨hm, hs, he, hS, hn, hmax, hlow, hud, huo, ht⟩ := h
  obtain ⟨h1, h2⟩ := (mod_pow_add _ _ _).mp hz
  rw [ht, if_pos h2]
  exact alFlag_exact d o a t (by rw [← NN_mod d o a hmax]; exact h1)

theorem AddNF.flag_inexact {d o : decomposed192} {t : Int8} {r : decomposed192} {t1 : Int8} {a m : Nat}
    (h : AddNF d o t r t1 a m) (hz : NN d o % 10 ^ (a + m) ≠ 0) : t1 = 1 ∨ t1 = -1 := by
  obtain ⟨hm, hs, he, hS, hn, hmax, hlow, hud, huo, ht⟩ := h
  rw [ht]
  by_cases h2 : NN d o / 10 ^ a % 10 ^ m = 0
  · rw [if_pos h2]
    refine alFlag_inexact d o a t ?_
    rw [← NN_mod d o a hmax]
    exact fun h1 => hz ((mod_pow_add _ _ _).mpr ⟨h1, h2⟩)
  · rw [if_neg h2]; exact Or.inl rfl

theorem AddNF.exp_window {d o : decomposed192} {t : Int8} {r : decomposed192} {t1 : Int8} {a m : Nat}
    (h : AddNF d o t r t1 a m) :
    min d.exp.toInt o.exp.toInt ≤ r.exp.toInt ∧ r.exp.toInt ≤ max d.exp.toInt o.exp.toInt + 1 := by
  obtain ⟨hm, hs, he, hS, hn, hmax, -⟩ := h
  rw [he]
  unfold mu at *
  omega

end CohortElem
