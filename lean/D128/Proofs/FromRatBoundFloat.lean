/-
  D128/Proofs/FromRatBoundFloat.lean — property C09, clause "FromFloat of any big.Float is within 2 parts in
  10^33 of it": the generated `Gen.FromFloat` (/repo/convert.go; `big.Float` modelled by `D128/Go/BigFloat.lean`)
  is `FromRat(f.Rat(nil))`, so the bounds — and the exclusions — of `FromRatBoundMain.lean` carry over.

  Provided (namespace `FromRatBound`); `f.value` is the exact rational value of a finite `big.Float`:
  * `FromFloat_inf`, `FromFloat_zero`      ±Inf ↦ ±Inf, ±0 ↦ ±0
  * `FromFloat_eq_FromRat`                 finite non-zero `f`: `FromFloat g f = FromRat g f.value`
  * `FromFloat_rel_nearest`                nearest mode, numerator and denominator of the value below
                                           `(Cmax+½)·10^Emax`, `|value| ≥ 5e-6144` ⇒ finite, within 2 parts in 10^33
  * `FromFloat_abs_nearest`                … without the lower bound: `1.2e-33·|value| + ½·10^Emin`
  * `FromFloat_rel_any`                    every mode: within 2.6 parts in 10^33
  * `cex_fromFloat_nan`                    THE CLAUSE IS FALSE AS WRITTEN: the valid `big.Float` `1 + 2^-20500`
                                           (precision 20501) converts to NaN, in every mode (numerator and
                                           denominator `2^20500 + 1`, `2^20500` both exceed the Decimal range)
-/
import D128.Proofs.FromRatBoundMain
import D128.Gen.ConvertBigFloat
set_option autoImplicit false

namespace FromRatBound
open Spec SpecRound BigConv
local notation "𝔳[" d "]" => Spec.interp (Gen.Decimal.lo d) (Gen.Decimal.hi d)

/-- the exact value of a finite `big.Float` -/
def fvalue (f : Go.BigFloat) : ℚ := if f.neg then -f.val else f.val

theorem FromFloat_inf (g : Globals) (f : Go.BigFloat) (hf : f.form = .inf) :
    Gen.FromFloat g f = .ok (Gen.inf f.neg) := by
  unfold Gen.FromFloat
  simp [Go.BigFloat.IsInf, Go.BigFloat.Signbit, hf]
  rfl

theorem FromFloat_zero (g : Globals) (f : Go.BigFloat) (hf : f.form = .zero) :
    Gen.FromFloat g f = .ok (Gen.zero f.neg) := by
  unfold Gen.FromFloat
  simp [Go.BigFloat.IsInf, Go.BigFloat.Sign, Go.BigFloat.Signbit, hf]
  rfl

/-- a finite non-zero `big.Float` goes through `Rat` (exact) and `FromRat` -/
theorem FromFloat_eq_FromRat (g : Globals) (f : Go.BigFloat) (hf : f.form = .finite) :
    Gen.FromFloat g f = Gen.FromRat g (fvalue f) := by
  unfold Gen.FromFloat fvalue
  have hs : (Go.BigFloat.Sign f == 0) = false := by
    unfold Go.BigFloat.Sign
    rw [hf]
    cases f.neg <;> decide
  simp [Go.BigFloat.IsInf, hs, Go.BigFloat.Rat, hf]

theorem fvalue_abs (f : Go.BigFloat) (hv : 0 < f.val) : |fvalue f| = f.val := by
  unfold fvalue
  cases f.neg
  · simp [abs_of_pos hv]
  · simp [abs_of_pos hv]

theorem fvalue_num (f : Go.BigFloat) : (fvalue f).num.natAbs = f.val.num.natAbs := by
  unfold fvalue
  cases f.neg <;> simp

theorem fvalue_den (f : Go.BigFloat) : (fvalue f).den = f.val.den := by
  unfold fvalue
  cases f.neg <;> simp

/-- **FromFloat, nearest modes**: within 2 parts in 10^33 when numerator and denominator of the exact value
    `m·2^e` (i.e. `m·2^e` and 1, or `m` and `2^-e`) are below `(Cmax+½)·10^Emax` and `|f| ≥ 5e-6144` -/
theorem FromFloat_rel_nearest (g : Globals) (f : Go.BigFloat) (m : Spec.Mode)
    (hm : Spec.Mode.ofNat? g.DefaultRoundingMode.toNat = some m) (hnear : isNearest m = true)
    (hf : f.form = .finite)
    (hnum : (f.val.num.natAbs : ℚ) < ((Spec.Cmax : ℚ) + 1 / 2) * (10 : ℚ) ^ Spec.Emax)
    (hden : (f.val.den : ℚ) < ((Spec.Cmax : ℚ) + 1 / 2) * (10 : ℚ) ^ Spec.Emax)
    (hlow : 5 * (10 : ℚ) ^ (Spec.Emin + 32) ≤ |fvalue f|) :
    ∃ d, Gen.FromFloat g f = .ok d ∧ (𝔳[d]).isFin = true ∧
      |(𝔳[d]).toRat - fvalue f| ≤ 2 * (10 : ℚ) ^ (-33 : Int) * |fvalue f| := by
  rw [FromFloat_eq_FromRat g f hf]
  exact FromRat_rel_nearest g (fvalue f) m hm hnear (by rw [fvalue_num]; exact hnum)
    (by rw [fvalue_den]; exact hden) hlow

theorem FromFloat_abs_nearest (g : Globals) (f : Go.BigFloat) (m : Spec.Mode)
    (hm : Spec.Mode.ofNat? g.DefaultRoundingMode.toNat = some m) (hnear : isNearest m = true)
    (hf : f.form = .finite)
    (hnum : (f.val.num.natAbs : ℚ) < ((Spec.Cmax : ℚ) + 1 / 2) * (10 : ℚ) ^ Spec.Emax)
    (hden : (f.val.den : ℚ) < ((Spec.Cmax : ℚ) + 1 / 2) * (10 : ℚ) ^ Spec.Emax) :
    ∃ d, Gen.FromFloat g f = .ok d ∧ (𝔳[d]).isFin = true ∧
      |(𝔳[d]).toRat - fvalue f| ≤
        12 / 10 * (10 : ℚ) ^ (-33 : Int) * |fvalue f| + (10 : ℚ) ^ Spec.Emin / 2 := by
  rw [FromFloat_eq_FromRat g f hf]
  exact FromRat_abs_nearest g (fvalue f) m hm hnear (by rw [fvalue_num]; exact hnum)
    (by rw [fvalue_den]; exact hden)

/-- **FromFloat, every mode** -/
theorem FromFloat_rel_any (g : Globals) (f : Go.BigFloat) (m : Spec.Mode)
    (hm : Spec.Mode.ofNat? g.DefaultRoundingMode.toNat = some m)
    (hf : f.form = .finite)
    (hnum : (f.val.num.natAbs : ℚ) ≤ (Spec.Cmax : ℚ) * (10 : ℚ) ^ Spec.Emax)
    (hden : (f.val.den : ℚ) ≤ (Spec.Cmax : ℚ) * (10 : ℚ) ^ Spec.Emax)
    (hlow : (10 : ℚ) ^ (Spec.Emin + 33) ≤ |fvalue f|) :
    ∃ d, Gen.FromFloat g f = .ok d ∧ (𝔳[d]).isFin = true ∧
      |(𝔳[d]).toRat - fvalue f| ≤ 26 / 10 * (10 : ℚ) ^ (-33 : Int) * |fvalue f| := by
  rw [FromFloat_eq_FromRat g f hf]
  exact FromRat_rel_any g (fvalue f) m hm (by rw [fvalue_num]; exact hnum)
    (by rw [fvalue_den]; exact hden) hlow

/-! ## the clause is false for big.Floats with long mantissas or large exponents -/

/-- `1 + 2^-20500` as a `big.Float` of precision 20501 -/
def fOne : Go.BigFloat :=
  { prec := 20501, mode := 0, form := .finite, neg := false,
    val := (((2 ^ 20500 + 1 : Nat) : Int) : ℚ) / (((2 ^ 20500 : Nat) : Int) : ℚ) }

theorem fOne_value : fvalue fOne = 1 + 1 / 2 ^ 20500 := by
  unfold fvalue fOne
  simp only [Bool.false_eq_true, if_false]
  have h2 : (0 : ℚ) < (2 : ℚ) ^ 20500 := by positivity
  rw [Int.cast_natCast, Int.cast_natCast, Nat.cast_add, Nat.cast_pow, Nat.cast_one, Nat.cast_ofNat]
  generalize (2 : ℚ) ^ 20500 = X at *
  field_simp

set_option exponentiation.threshold 30000

theorem fOne_valid : fOne.valid = true := by decide +kernel

theorem fOne_cop : Nat.Coprime (2 ^ 20500 + 1) (2 ^ 20500) := by decide +kernel

theorem fOne_num : (fvalue fOne).num = ((2 ^ 20500 + 1 : Nat) : Int) :=
  Rat.num_div_eq_of_coprime (by positivity)
    (by rw [Int.natAbs_natCast, Int.natAbs_natCast]; exact fOne_cop)
theorem fOne_den : (fvalue fOne).den = 2 ^ 20500 :=
  Int.natCast_inj.1 (Rat.den_div_eq_of_coprime (a := ((2 ^ 20500 + 1 : Nat) : Int))
    (b := ((2 ^ 20500 : Nat) : Int)) (by positivity)
    (by rw [Int.natAbs_natCast, Int.natAbs_natCast]; exact fOne_cop))

theorem pow2_20500_ge : ((Spec.Cmax : ℚ) + 1) * (10 : ℚ) ^ Spec.Emax ≤ ((2 ^ 20500 : Nat) : ℚ) := by
  rw [← max_cast]
  have : (Spec.Cmax + 1) * 10 ^ 6111 ≤ 2 ^ 20500 := by
    calc (Spec.Cmax + 1) * 10 ^ 6111 ≤ 10 ^ 35 * 10 ^ 6111 :=
          Nat.mul_le_mul_right _ (by have := Cmax_upper; omega)
      _ = 10 ^ 6146 := by rw [← Nat.pow_add]
      _ ≤ 10 ^ 6150 := Nat.pow_le_pow_right (by norm_num) (by norm_num)
      _ = (10 ^ 3) ^ 2050 := by rw [← Nat.pow_mul]
      _ ≤ (2 ^ 10) ^ 2050 := Nat.pow_le_pow_left (by norm_num) _
      _ = 2 ^ 20500 := by rw [← Nat.pow_mul]
  exact_mod_cast this

/-- **FromFloat(1 + 2^-20500) is NaN**, in every mode: the exact rational has numerator `2^20500 + 1` and
    denominator `2^20500` (6172 digits each); `FromInt` turns both into `+Inf` and `Quo(+Inf, +Inf)` is the
    invalid-operation NaN.  (Evaluated on the generated code: `nan false 328976`, i.e. payload `Quo(+Inf, +Inf)`.) -/
theorem cex_fromFloat_nan (g : Globals) (m : Spec.Mode)
    (hm : Spec.Mode.ofNat? g.DefaultRoundingMode.toNat = some m) :
    ∃ d, Gen.FromFloat g fOne = .ok d ∧ (𝔳[d]).isNaN = true ∧ fvalue fOne = 1 + 1 / 2 ^ 20500 := by
  have hne : fvalue fOne ≠ 0 := by
    intro h; have := fOne_num; rw [h] at this
    have h2 : (0 : Int) < ((2 ^ 20500 + 1 : Nat) : Int) := by positivity
    rw [← this] at h2; exact absurd h2 (by simp)
  have hbn : Go.Big.bitLen (fvalue fOne).num.natAbs < 2 ^ 63 := by
    rw [fOne_num, Int.natAbs_natCast]
    exact bitLen_lt_of_lt (L := 20502) (by decide +kernel) (by norm_num)
  have hbd : Go.Big.bitLen (fvalue fOne).den < 2 ^ 63 := by
    rw [fOne_den]
    exact bitLen_lt_of_lt (L := 20502) (by decide +kernel) (by norm_num)
  obtain ⟨d, hd, s⟩ := FromRat_spec' g (fvalue fOne) m hm hbn hbd hne
  refine ⟨d, by rw [FromFloat_eq_FromRat g fOne rfl]; exact hd, ?_, ?_⟩
  · have hge1 : ((Spec.Cmax : ℚ) + 1) * (10 : ℚ) ^ Spec.Emax ≤ ((2 ^ 20500 + 1 : Nat) : ℚ) := by
      refine le_trans pow2_20500_ge ?_
      have : 2 ^ 20500 ≤ 2 ^ 20500 + 1 := Nat.le_succ _
      exact_mod_cast this
    rw [fOne_num, fOne_den, Int.natAbs_natCast, roundTo_inf_of_ge m _ _ hge1,
      roundTo_inf_of_ge m _ _ pow2_20500_ge] at s
    rcases Cohort.same_cases s with ⟨_, _, h1, _⟩ | ⟨_, _, h2⟩ | ⟨_, _, _, _, _, _, h2, _⟩
    · rw [h1]; rfl
    · simp [Spec.quo, Spec.invalid2, Spec.invalid] at h2
    · simp [Spec.quo, Spec.invalid2, Spec.invalid] at h2
  · exact fOne_value

end FromRatBound
