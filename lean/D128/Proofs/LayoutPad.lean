/-
  D128/Proofs/LayoutPad.lean — `Gen.digits.pad` (Go: `func (d *digits) pad`, /repo/format.go:720).

  * `Ly.copyInto_size`, `Ly.copyInto_getElem` : `Go.copyInto` elementwise
  * `Ly.pad_core`       : the grow / move / fill tail of the left-padding branch
  * `Ly.padOut`         : the buffer `pad` returns, as array operations
  * `Ly.pad_eq`         : `pad d buf start width … = .ok (d, padOut …)` — no panic, termination, the
        bytes before `start` stay in place
-/
import D128.Proofs.Layout

set_option autoImplicit false
set_option maxRecDepth 4096

namespace Ly
open Dg

theorem copyInto_size (v : Go.Bytes) (lo : Nat) (dst src : Go.Bytes)
    (h : lo + min dst.size src.size ≤ v.size) : (Go.copyInto v (lo : Int) dst src).size = v.size := by
  unfold Go.copyInto
  simp only [Array.size_append, Array.size_extract, Int.toNat_natCast]
  omega

theorem copyInto_getElem (v : Go.Bytes) (lo : Nat) (dst src : Go.Bytes)
    (h : lo + min dst.size src.size ≤ v.size) (j : Nat) (hj : j < (Go.copyInto v (lo : Int) dst src).size) :
    (Go.copyInto v (lo : Int) dst src)[j] =
      if h1 : j < lo then v[j]'(by omega) else if h2 : j < lo + min dst.size src.size then src[j - lo]'(by omega)
      else v[j]'(by rw [copyInto_size v lo dst src h] at hj; exact hj) := by
  unfold Go.copyInto
  simp only [Array.getElem_append, Array.getElem_extract, Array.size_append, Array.size_extract, Int.toNat_natCast]
  split_ifs <;> first | rfl | omega | (congr 1; omega)

theorem pad_core (d : Gen.digits) (buf : Go.Bytes) (c : UInt8) (width p i : Int64)
    (Wd P I : Nat) (hW : width.toInt = Wd) (hP : p.toInt = P) (hI : i.toInt = I)
    (hIn : I ≤ buf.size) (hn : buf.size < Wd) (hPe : P + (buf.size - I) = Wd) :
    (do
      let t_1 ← Go.makeBytes (Go.idx width) (Go.idx width)
      let t_3 ← Go.bsliceFrom (Go.copyInto t_1 0 t_1 buf) (Go.idx p)
      let t_4 ← Go.bsliceFrom (Go.copyInto t_1 0 t_1 buf) (Go.idx i)
      let __s ←
        forIn Lean.Loop.mk (Go.copyInto (Go.copyInto t_1 0 t_1 buf) (Go.idx p) t_3 t_4, i)
          fun (_ : Unit) (__s : Go.Bytes × Int64) =>
            if decide (__s.2 < p) = true then do
              let t_5 ← Go.bset __s.1 (Go.idx __s.2) c
              pure (ForInStep.yield (t_5, __s.2 + 1))
            else pure (ForInStep.done (__s.1, __s.2))
      pure (d, __s.1) : Go.GoM (Gen.digits × Go.Bytes)) =
    .ok (d, buf.extract 0 I ++ Array.replicate (P - I) c ++ buf.extract I buf.size) := by
  have iw : Go.idx width = (Wd : Int) := hW
  have ip : Go.idx p = (P : Int) := hP
  have ii : Go.idx i = (I : Int) := hI
  rw [iw, ip, ii, makeBytes_eq _ _ (by omega) (by omega), ok_bind, Int.toNat_natCast]
  have hz : (0 : Int) = ((0 : Nat) : Int) := rfl
  rw [hz]
  generalize hB1 : Go.copyInto (Array.replicate Wd (0 : UInt8)) ((0 : Nat) : Int) (Array.replicate Wd (0 : UInt8)) buf = B1
  have hm1 : 0 + min (Array.replicate Wd (0 : UInt8)).size buf.size ≤ (Array.replicate Wd (0 : UInt8)).size := by
    simp only [Array.size_replicate]; omega
  have hB1s : B1.size = Wd := by
    rw [← hB1, copyInto_size _ _ _ _ hm1, Array.size_replicate]
  have hB1g : ∀ j (hj : j < B1.size), B1[j] = if h : j < buf.size then buf[j] else 0 := by
    intro j hj
    subst hB1
    rw [copyInto_getElem _ _ _ _ hm1]
    simp only [Array.size_replicate, Array.getElem_replicate]
    split_ifs <;> first | rfl | omega
  rw [bsliceFrom_eq _ _ (by omega) (by rw [hB1s]; omega), ok_bind, bsliceFrom_eq _ _ (by omega) (by rw [hB1s]; omega), ok_bind]
  simp only [Int.toNat_natCast, hB1s]
  generalize hB2 : Go.copyInto B1 (P : Int) (B1.extract P Wd) (B1.extract I Wd) = B2
  have hm2 : P + min (B1.extract P Wd).size (B1.extract I Wd).size ≤ B1.size := by
    simp only [Array.size_extract]; omega
  have hB2s : B2.size = Wd := by
    rw [← hB2, copyInto_size _ _ _ _ hm2, hB1s]
  have hB2g : ∀ j (hj : j < B2.size), B2[j] = if h : j < P then B1[j]'(by omega) else B1[j - P + I]'(by omega) := by
    intro j hj
    subst hB2
    rw [copyInto_getElem _ _ _ _ hm2]
    simp only [Array.size_extract, Array.getElem_extract]
    split_ifs <;> first | rfl | omega | (congr 1; omega)
  rw [set_loop c p _ (fun s => rfl) P hP B2 i I hI (by omega) (by omega)]
  rw [ok_bind]
  show Except.ok _ = _
  congr 2
  apply Array.ext
  · simp; omega
  · intro j h1 h2
    have a1 : min I B2.size = I := by omega
    have a2 : min I buf.size = I := by omega
    clear hm1 hm2
    simp only [Array.size_append, Array.size_extract, Array.size_replicate, a2, hB2s, Nat.sub_zero, Nat.min_self] at h1 h2
    simp only [Array.getElem_append, Array.getElem_extract, Array.size_append,
        Array.size_extract, Array.size_replicate, Array.getElem_replicate, hB2g, hB1g, a1, a2, Nat.sub_zero, Nat.zero_add]
    split_ifs <;> first | rfl | omega | (congr 1; omega)

/-- the buffer `pad` returns (widths and offsets as naturals) -/
def padOut (neg : Bool) (buf : Go.Bytes) (start width : Nat)
    (printSign padSign padRight padZero : Bool) : Go.Bytes :=
  if width ≤ buf.size - start then buf else
  let c : UInt8 := if padZero then 48 else 32
  if padRight then buf ++ Array.replicate (width - (buf.size - start)) c
  else
    let k := if padZero && (neg || printSign || padSign) then 1 else 0
    buf.extract 0 (start + k) ++ Array.replicate (width - (buf.size - start)) c ++
      buf.extract (start + k) buf.size

theorem pad_eq (d : Gen.digits) (buf : Go.Bytes) (start width : Int64) (ps pds pr pz : Bool)
    (S W : Nat) (hS : start.toInt = S) (hW : width.toInt = W) (hSb : S ≤ buf.size)
    (hk : (pz && (d.neg || ps || pds)) = true → S + 1 ≤ buf.size)
    (hb : buf.size < 2 ^ 62) (hW' : W < 2 ^ 62) :
    Gen.digits.pad d buf start width ps pds pr pz = .ok (d, padOut d.neg buf S W ps pds pr pz) := by
  have hlen := len_toInt buf (by omega)
  have hbs : (Go.len buf - start).toInt = buf.size - S := by
    rw [i64_sub _ _ (by omega) (by omega), hlen, hS]
  have hp : (width - (Go.len buf - start)).toInt = W - (buf.size - S) := by
    rw [i64_sub _ _ (by omega) (by omega), hbs, hW]
  unfold Gen.digits.pad padOut
  by_cases hp0 : width - (Go.len buf - start) ≤ 0
  · have : W ≤ buf.size - S := by
      rw [i64_le, hp] at hp0; simp at hp0; omega
    simp only [hp0, decide_true, if_true, this]
    rfl
  · have hWl : ¬ W ≤ buf.size - S := by
      rw [i64_le, hp] at hp0; simp at hp0; omega
    simp only [hp0, decide_false, Bool.false_eq_true, if_false, hWl]
    have hidx : ∀ x : Int64, Go.idx x = x.toInt := fun _ => rfl
    cases pr
    · -- left padding
      simp only [Bool.false_eq_true, if_false]
      have hws : (width + start).toInt = W + S := by
        rw [i64_add _ _ (by omega) (by omega), hW, hS]
      have hps : (width - (Go.len buf - start) + start).toInt = W + S - (buf.size - S) := by
        rw [i64_add _ _ (by omega) (by omega), hp, hS]; omega
      have hlt : Go.len buf < width + start := by
        rw [i64_lt, hlen, hws]; omega
      by_cases hsg : (pz && (d.neg || ps || pds)) = true
      · have hk' := hk hsg
        have hps1 : (width - (Go.len buf - start) + start + 1).toInt = W + S - (buf.size - S) + 1 := by
          rw [i64_add _ _ (by rw [e1]; omega) (by rw [e1]; omega), hps, e1]
        have hs1 : (start + 1).toInt = S + 1 := by
          rw [i64_add _ _ (by rw [e1]; omega) (by rw [e1]; omega), hS, e1]
        have key := fun c => pad_core d buf c (width + start) (width - (Go.len buf - start) + start + 1)
          (start + 1) (W + S) (W + S - (buf.size - S) + 1) (S + 1) (by rw [hws]; rfl)
          (by rw [hps1]; omega) (by rw [hs1]; rfl) hk' (by omega) (by omega)
        have e2 : W + S - (buf.size - S) + 1 - (S + 1) = W - (buf.size - S) := by omega
        cases pz
        · simp at hsg
        · simp only [hsg, hlt, decide_true, if_true]
          rw [key 48, e2]
      · have key := fun c => pad_core d buf c (width + start) (width - (Go.len buf - start) + start)
          start (W + S) (W + S - (buf.size - S)) S (by rw [hws]; rfl)
          (by rw [hps]; omega) hS hSb (by omega) (by omega)
        have e2 : W + S - (buf.size - S) - S = W - (buf.size - S) := by omega
        simp only [hsg, hlt, decide_true, if_true, Bool.false_eq_true, if_false, Nat.add_zero]
        cases pz
        · simp only [Bool.false_eq_true, if_false]
          rw [key 32, e2]
        · simp only [if_true]
          rw [key 48, e2]
    · -- right padding
      have e3 : ((width - (Go.len buf - start)).toInt - (0 : Int64).toInt).toNat = W - (buf.size - S) := by
        rw [hp]; simp; omega
      cases pz
      · simp only [Bool.false_eq_true, if_false, if_true]
        rw [push_loop 32 _ _ (fun s => rfl), ok_bind, e3]; rfl
      · simp only [if_true]
        rw [push_loop 48 _ _ (fun s => rfl), ok_bind, e3]; rfl

end Ly
