/-
  D128/Proofs/CohortElemCbrtStep.lean — property C19 for `Gen.Cbrt`, part 2: ONE Halley step `Root.cbrtStep` on two runs whose
  iterates have equal values (cohort members), with argument registers of equal values.

  The step is `sq = res·res; cub = sq·res; num = cub + 2d; d1 = cub + cub; den = d1 + d; frc = num/den; res' = res·frc`
  (all sticky flags but the last one are discarded).  By `mul_congr` the cube is, in both runs alike,
   (I) INEXACT: then `cub = cub'` bit for bit and `LIM ≤ cub.sig`; `add_congr_d_full` makes `num`, `d1`, `den` identical
       (the short operands `2d`, `d` are absorbed by a full-width first operand), `frc` is one and the same call.
       No hypothesis is needed.
   (E) EXACT: `cub ≈ cub'` may be different registers.  Then `add` and `quo` are functions of the values only under the side
       conditions of `add_congr` / `quo_congr` (CohortElemAddCongr.lean OBSERVATION 1, CohortElemQuoCongr.lean OBSERVATIONS 1, 2:
       an over-full register `10·LIM ≤ sig < 2^192` next to a shorter twin aligns the operands one digit apart; a long division
       whose quotient has leading digits in `[6.1299…, 7.1299…)` can step over its stopping point).  They are assumed, as
       VALUE-level conditions on the intermediate results of the FIRST run only (`CbrtStepCond`): `NoOverfull` of `cub`, `2·cub`,
       `cub + 2d`, and `NoSkip ((cub + 2d)/(2cub + d))`.
  The last multiplication is again a dichotomy (`mul_congr`): inexact ⇒ the new states are IDENTICAL (flag 1, `LIM ≤ sig`);
  exact ⇒ equal values, flags passed through.

  Provided (namespace `CohortElem`):
  * `NoOverfull v`         : no representation `n·10^e` of `v` has `10·LIM ≤ n < 2^192`; `NoOverfull.sig`, `NoOverfull.congr`
  * `CbrtStepCond arg arg2 s` : the side conditions of the exact alternative, for one run
  * `tail_same`, `tail_exact` : the middle part of the step (from `cub` to `frc`) in the two alternatives
  * **`cbrtStep_J`**       : equal values and equal flags, `CbrtStepCond` ⇒ both steps succeed and the new states are IDENTICAL with
                             `LIM ≤ sig`, or have equal values and the old flags
  * `K s s'`               : the invariant of the pair of runs: identical long states, or equal values with both flags `0`
  * **`cbrtStep_K`**       : `K` is preserved; `CbrtStepCond` is needed only while the flag is `0`
  * `example`              : the hypotheses are satisfiable (first step of `Cbrt 3` on `3e0` / `3000e-3`): CohortElemCbrtEx.lean
-/
import D128.Proofs.CohortElemCbrtTrace
import D128.Proofs.CohortElemMulCongr
import D128.Proofs.CohortElemQuoCongr
import D128.Proofs.CohortElemAddCongr
set_option autoImplicit false
set_option maxRecDepth 4096
set_option exponentiation.threshold 512
set_option linter.unusedVariables false

namespace CohortElem
open Gen D192 Root

/-- the value has no over-full representation: whenever `v = n·10^e` with `n < 2^192`, then `n < 10·LIM`
(the leading digits of `v` are not in `[6.1299…, 6.2771…)`) -/
def NoOverfull (v : ℚ) : Prop :=
  ∀ (n : Nat) (e : Int), v = (n : ℚ) * (10 : ℚ) ^ e → n < 2 ^ 192 → n < 10 * LIM

theorem NoOverfull.sig {x : decomposed192} (h : NoOverfull (val x)) : x.sig.toNat < 10 * LIM :=
  h _ _ rfl (U192.toNat_lt _)

theorem NoOverfull.congr {x y : decomposed192} (h : NoOverfull (val x)) (hv : val x = val y) :
    x.sig.toNat < 10 * LIM ∧ y.sig.toNat < 10 * LIM :=
  ⟨h.sig, (hv ▸ h : NoOverfull (val y)).sig⟩

/-- side conditions of the exact alternative of a step, on the intermediate results of one run: whenever the cube is exact
(flag `0`), the values of `cub`, `cub + cub`, `cub + arg2` have no over-full representation and the Halley quotient does not
make the long division step over -/
def CbrtStepCond (arg arg2 : decomposed192) (s : decomposed192 × Int8) : Prop :=
  ∀ sq cub num d1 den : decomposed192 × Int8,
    decomposed192.mul s.1 s.1 0 = .ok sq → decomposed192.mul sq.1 s.1 0 = .ok cub →
    decomposed192.add cub.1 arg2 0 = .ok num → decomposed192.add cub.1 cub.1 0 = .ok d1 →
    decomposed192.add d1.1 arg 0 = .ok den → cub.2 = 0 →
    NoOverfull (val cub.1) ∧ NoOverfull (val d1.1) ∧ NoOverfull (val num.1) ∧
      NoSkip (val num.1 / val den.1)

theorem ok_pair_inj {α : Type} {a b : α} (h : (Except.ok a : Go.GoM α) = .ok b) : a = b := ok_inj h

/-- alternative (I): identical long cubes ⇒ identical quotients, for argument registers of equal values -/
theorem tail_same {arg arg2 arg' arg2' : decomposed192} {s s' : decomposed192 × Int8}
    {sq cub num d1 den frc x sq' cub' num' d1' den' frc' x' : decomposed192 × Int8}
    (A : ArgOK arg arg2) (A' : ArgOK arg' arg2') (hva : val arg = val arg') (hva2 : val arg2 = val arg2')
    (T : StepTrace arg arg2 s sq cub num d1 den frc x)
    (T' : StepTrace arg' arg2' s' sq' cub' num' d1' den' frc' x')
    (hc : cub.1 = cub'.1) (hL : LIM ≤ cub.1.sig.toNat) : frc = frc' := by
  -- num
  obtain ⟨r, t1, t1', hr, hr', -⟩ := add_congr_d_full cub.1 arg2 arg2' 0 0 hva2 (Or.inr ⟨A.s2, A'.s2⟩) hL
    T.w_cub T.w_arg2 T'.w_arg2
  have hn : num.1 = num'.1 := by
    have e1 := T.e_num; have e2 := T'.e_num
    rw [hr] at e1; rw [← hc, hr'] at e2
    rw [← ok_inj e1, ← ok_inj e2]
  -- d1
  have hd : d1 = d1' := by
    have e1 := T.e_d1; have e2 := T'.e_d1
    rw [← hc, e1] at e2
    exact ok_inj e2
  -- den
  have hL1 := T.d1_ge hL
  obtain ⟨r, t1, t1', hr, hr', -⟩ := add_congr_d_full d1.1 arg arg' 0 0 hva (Or.inr ⟨A.s1, A'.s1⟩) hL1
    T.w_d1 T.w_arg T'.w_arg
  have hde : den.1 = den'.1 := by
    have e1 := T.e_den; have e2 := T'.e_den
    rw [hr] at e1; rw [← hd, hr'] at e2
    rw [← ok_inj e1, ← ok_inj e2]
  -- frc
  have e1 := T.e_frc; have e2 := T'.e_frc
  rw [← hn, ← hde, e1] at e2
  exact ok_inj e2

/-- alternative (E): cubes of equal values under the side conditions ⇒ quotients of equal values -/
theorem tail_exact {arg arg2 arg' arg2' : decomposed192} {s s' : decomposed192 × Int8}
    {sq cub num d1 den frc x sq' cub' num' d1' den' frc' x' : decomposed192 × Int8}
    (A : ArgOK arg arg2) (A' : ArgOK arg' arg2') (hva : val arg = val arg') (hva2 : val arg2 = val arg2')
    (T : StepTrace arg arg2 s sq cub num d1 den frc x)
    (T' : StepTrace arg' arg2' s' sq' cub' num' d1' den' frc' x')
    (hc : val cub.1 = val cub'.1)
    (h1 : NoOverfull (val cub.1)) (h2 : NoOverfull (val d1.1)) (h3 : NoOverfull (val num.1))
    (h4 : NoSkip (val num.1 / val den.1)) : val frc.1 = val frc'.1 := by
  have hcS := h1.congr hc
  -- num
  obtain ⟨r, t1, r', t1', hr, hr', hvn, -⟩ := add_congr_val cub.1 cub'.1 arg2 arg2' 0 0 hc hva2
    (Or.inr hcS) (Or.inr ⟨A.s2, A'.s2⟩) T.w_cub T.w_arg2 T'.w_cub T'.w_arg2
  have hn : val num.1 = val num'.1 := by
    have e1 := T.e_num; have e2 := T'.e_num
    rw [hr] at e1; rw [hr'] at e2
    rw [← ok_inj e1, ← ok_inj e2]; exact hvn
  -- d1
  obtain ⟨r, t1, r', t1', hr, hr', hvd, -⟩ := add_congr_val cub.1 cub'.1 cub.1 cub'.1 0 0 hc hc
    (Or.inr hcS) (Or.inr hcS) T.w_cub T.w_cub T'.w_cub T'.w_cub
  have hd : val d1.1 = val d1'.1 := by
    have e1 := T.e_d1; have e2 := T'.e_d1
    rw [hr] at e1; rw [hr'] at e2
    rw [← ok_inj e1, ← ok_inj e2]; exact hvd
  -- den
  obtain ⟨r, t1, r', t1', hr, hr', hve, -⟩ := add_congr_val d1.1 d1'.1 arg arg' 0 0 hd hva
    (Or.inr (h2.congr hd)) (Or.inr ⟨A.s1, A'.s1⟩) T.w_d1 T.w_arg T'.w_d1 T'.w_arg
  have hde : val den.1 = val den'.1 := by
    have e1 := T.e_den; have e2 := T'.e_den
    rw [hr] at e1; rw [hr'] at e2
    rw [← ok_inj e1, ← ok_inj e2]; exact hve
  -- frc
  obtain ⟨r, r', sf, hr, hr', hvf, -⟩ := quo_congr1 num.1 num'.1 den.1 den'.1 0 hn hde T.n_num T.n_den
    (Or.inl (h3.congr hn)) (Or.inr (Or.inl h4)) T.w_num T.w_den T'.w_num T'.w_den
  have e1 := T.e_frc; have e2 := T'.e_frc
  rw [hr] at e1; rw [hr'] at e2
  rw [← ok_inj e1, ← ok_inj e2]; exact hvf

/-- **One Halley step on two runs with iterates of equal values and equal flags.**  Both steps succeed, the loop invariant `W`
is kept, and the new states are IDENTICAL (last multiplication inexact: flag `1`, `LIM ≤ sig`) or have equal values and the
flags they came with (last multiplication exact in both runs).  `CbrtStepCond` (about the first run only) is used only when the
cube is exact. -/
theorem cbrtStep_J {arg arg2 arg' arg2' : decomposed192} {s s' : decomposed192 × Int8}
    (A : ArgOK arg arg2) (A' : ArgOK arg' arg2') (hva : val arg = val arg') (hva2 : val arg2 = val arg2')
    (w : W arg s) (w' : W arg' s') (hv : val s.1 = val s'.1) (hf : s.2 = s'.2)
    (hok : CbrtStepCond arg arg2 s) :
    ∃ s1 s1', cbrtStep arg arg2 s = .ok s1 ∧ cbrtStep arg' arg2' s' = .ok s1' ∧ W arg s1 ∧ W arg' s1' ∧
      ((s1 = s1' ∧ s1.2 = 1 ∧ LIM ≤ s1.1.sig.toNat) ∨
       (val s1.1 = val s1'.1 ∧ s1.2 = s.2 ∧ s1'.2 = s'.2)) := by
  obtain ⟨sq, cub, num, d1, den, frc, x, T⟩ := step_trace A w
  obtain ⟨sq', cub', num', d1', den', frc', x', T'⟩ := step_trace A' w'
  refine ⟨(x.1, x.2), (x'.1, x'.2), T.e_step, T'.e_step, T.w_out, T'.w_out, ?_⟩
  -- sq
  have hsq : val sq.1 = val sq'.1 := by
    obtain ⟨r, t1, r', t1', hr, hr', h⟩ := mul_congr s.1 s'.1 s.1 s'.1 0 0 hv hv T.w_s T.w_s T'.w_s T'.w_s
    have e1 := T.e_sq; have e2 := T'.e_sq
    rw [hr] at e1; rw [hr'] at e2
    rw [← ok_inj e1, ← ok_inj e2]
    rcases h with ⟨a, -⟩ | ⟨a, b, -⟩
    · rw [a]
    · rw [a, b]
  -- cub
  obtain ⟨r, t1, r', t1', hr, hr', h⟩ := mul_congr sq.1 sq'.1 s.1 s'.1 0 0 hsq hv T.w_sq T.w_s T'.w_sq T'.w_s
  have ec : cub = (r, t1) := by have e1 := T.e_cub; rw [hr] at e1; exact (ok_inj e1).symm
  have ec' : cub' = (r', t1') := by have e1 := T'.e_cub; rw [hr'] at e1; exact (ok_inj e1).symm
  -- frc
  have hfrc : val frc.1 = val frc'.1 := by
    rcases h with ⟨a, b, c⟩ | ⟨a, b, c, e⟩
    · have hcc : cub.1 = cub'.1 := by rw [ec, ec']; exact a
      have hL : LIM ≤ cub.1.sig.toNat := T.cub_ge (Or.inl (by rw [ec]; show t1 ≠ 0; rw [b]; decide))
      rw [tail_same A A' hva hva2 T T' hcc hL]
    · have hcv : val cub.1 = val cub'.1 := by rw [ec, ec']; show val r = val r'; rw [a, b]
      obtain ⟨g1, g2, g3, g4⟩ := hok sq cub num d1 den T.e_sq T.e_cub T.e_num T.e_d1 T.e_den
        (by rw [ec]; exact c)
      exact tail_exact A A' hva hva2 T T' hcv g1 g2 g3 g4
  -- the last multiplication
  obtain ⟨r, t1, r', t1', hr, hr', h⟩ := mul_congr s.1 s'.1 frc.1 frc'.1 s.2 s'.2 hv hfrc
    T.w_s T.w_frc T'.w_s T'.w_frc
  have ex : x = (r, t1) := by have e1 := T.e_x; rw [hr] at e1; exact (ok_inj e1).symm
  have ex' : x' = (r', t1') := by have e1 := T'.e_x; rw [hr'] at e1; exact (ok_inj e1).symm
  rcases h with ⟨a, b, c⟩ | ⟨a, b, c, e⟩
  · left
    have hx2 : x.2 = 1 := by rw [ex]; exact b
    refine ⟨?_, hx2, ?_⟩
    · rw [ex, ex']; show (r, t1) = (r', t1'); rw [a, b, c]
    · obtain ⟨-, -, -, -, g⟩ := T.w_out
      simp only at g
      rcases g with g | g
      · exact le_trans lim_le_tenth g
      · rw [hx2] at g; exact absurd g (by decide)
  · right
    refine ⟨?_, ?_, ?_⟩
    · rw [ex, ex']; show val r = val r'; rw [a, b]
    · rw [ex]; exact c
    · rw [ex']; exact e

/-- the invariant of the pair of runs: IDENTICAL states with a long significand, or states of equal values with both flags `0` -/
def K (s s' : decomposed192 × Int8) : Prop :=
  (s = s' ∧ LIM ≤ s.1.sig.toNat) ∨ (val s.1 = val s'.1 ∧ s.2 = 0 ∧ s'.2 = 0)

/-- **`K` is preserved by the Halley step**; the side conditions are needed only while the flag is `0` (and the cube is exact).
Once the states are identical and long they stay so whatever the representations of the argument are. -/
theorem cbrtStep_K {arg arg2 arg' arg2' : decomposed192} {s s' : decomposed192 × Int8}
    (A : ArgOK arg arg2) (A' : ArgOK arg' arg2') (hva : val arg = val arg') (hva2 : val arg2 = val arg2')
    (w : W arg s) (w' : W arg' s') (hK : K s s') (hok : s.2 = 0 → CbrtStepCond arg arg2 s) :
    ∃ s1 s1', cbrtStep arg arg2 s = .ok s1 ∧ cbrtStep arg' arg2' s' = .ok s1' ∧ W arg s1 ∧ W arg' s1' ∧
      K s1 s1' := by
  rcases hK with ⟨hss, hL⟩ | ⟨hv, h0, h0'⟩
  · subst hss
    obtain ⟨sq, cub, num, d1, den, frc, x, T⟩ := step_trace A w
    obtain ⟨sq', cub', num', d1', den', frc', x', T'⟩ := step_trace A' w'
    refine ⟨(x.1, x.2), (x'.1, x'.2), T.e_step, T'.e_step, T.w_out, T'.w_out, ?_⟩
    have hsq : sq = sq' := by have e1 := T.e_sq; have e2 := T'.e_sq; rw [e1] at e2; exact ok_inj e2
    have hcub : cub = cub' := by
      have e1 := T.e_cub; have e2 := T'.e_cub; rw [← hsq, e1] at e2; exact ok_inj e2
    have hLc := T.cub_ge (Or.inr hL)
    have hfrc := tail_same A A' hva hva2 T T' (by rw [hcub]) hLc
    have hx : x = x' := by
      have e1 := T.e_x; have e2 := T'.e_x; rw [← hfrc, e1] at e2; exact ok_inj e2
    left
    exact ⟨by rw [hx], T.out_ge (Or.inr hL)⟩
  · obtain ⟨s1, s1', e1, e1', w1, w1', h⟩ := cbrtStep_J A A' hva hva2 w w' hv (by rw [h0, h0']) (hok h0)
    refine ⟨s1, s1', e1, e1', w1, w1', ?_⟩
    rcases h with ⟨a, -, c⟩ | ⟨a, b, c⟩
    · exact Or.inl ⟨a, c⟩
    · exact Or.inr ⟨a, by rw [b, h0], by rw [c, h0']⟩

end CohortElem
