/-
  Soundness of the enclosure oracle, part 17: width of the enclosures of the exponential family
  (`trueValue .exp/.exp2/.exp10/.expm1`): every enclosure is `Narrow _ (3·10^-39) 0`.

  1. `ratio_of_width`      : a generic step: expI a = some s, width of the reduced argument ≤ 10^-65 ⇒
                             0 < s.m.lo ∧ s.m.hi ≤ s.m.lo·(1 + 3·10^-65)
     `expI_scaled_ratio`   : the same for a = (I.pt x).mul b, b narrow (ln2, ln10), |x| ≤ 10^7
  2. `nearOne_narrow`, `rel39_narrow` : the shortcut enclosures [1 ∓ 10^-39] and c·[1 ∓ 10^-39]
  3. `trueValue_exp_narrow`, `trueValue_exp2_narrow`, `trueValue_exp10_narrow`
-/
import D128.Proofs.EnclosureNarrow
import D128.Proofs.EnclosureElemExpm1
set_option autoImplicit false

namespace EnclPf
open Spec Spec.Encl SpecRound

/-! ## 1. `expI` -/

theorem ratio_of_width {a : I} {s : Sci} {y : ℝ} (h : expI a = some s) (hy : y ∈ᵢ a)
    (hw : (expR a).hi - (expR a).lo ≤ 1 / 10 ^ 65) :
    0 < s.m.lo ∧ s.m.hi ≤ s.m.lo * (1 + 3 / 10 ^ 65) := by
  obtain ⟨p1, p2⟩ := expI_ratio h hy
  refine ⟨p1, ?_⟩
  set w : ℝ := (((expR a).hi : ℚ) : ℝ) - (((expR a).lo : ℚ) : ℝ) with hwdef
  have hwr : w ≤ 1 / 10 ^ 65 := by
    have : ((((expR a).hi - (expR a).lo : ℚ)) : ℝ) ≤ (((1 / 10 ^ 65 : ℚ)) : ℝ) := by exact_mod_cast hw
    push_cast at this; rw [hwdef]; linarith
  have hw0 : 0 ≤ w := by
    have := lo_le_hi_of_mem (mem_expR hy)
    have h' : (((expR a).lo : ℚ) : ℝ) ≤ (((expR a).hi : ℚ) : ℝ) := by exact_mod_cast this
    rw [hwdef]; linarith
  have hexp := exp_le_one_add_two hw0 (by linarith [show (1 : ℝ) / 10 ^ 65 ≤ 1 by norm_num])
  have hfac : (1 + (eta : ℝ)) ^ 2 * Real.exp w ≤ 1 + 3 / 10 ^ 65 := by
    have h1 : (1 + (eta : ℝ)) ^ 2 ≤ 1 + 3 / 10 ^ 74 := by unfold eta; push_cast; norm_num
    have h2 : Real.exp w ≤ 1 + 2 / 10 ^ 65 := by linarith
    calc (1 + (eta : ℝ)) ^ 2 * Real.exp w ≤ (1 + 3 / 10 ^ 74) * (1 + 2 / 10 ^ 65) :=
          mul_le_mul h1 h2 (Real.exp_pos w).le (by norm_num)
      _ ≤ 1 + 3 / 10 ^ 65 := by norm_num
  have hlo' : (0 : ℝ) < (s.m.lo : ℝ) := by exact_mod_cast p1
  have : (s.m.hi : ℝ) ≤ (s.m.lo : ℝ) * (1 + 3 / 10 ^ 65) :=
    le_trans p2 (mul_le_mul_of_nonneg_left hfac hlo'.le)
  have h' : ((s.m.hi : ℚ) : ℝ) ≤ (((s.m.lo * (1 + 3 / 10 ^ 65) : ℚ)) : ℝ) := by push_cast; exact this
  exact_mod_cast h'

theorem expI_scaled_ratio {b : I} {β : ℝ} (hβ : β ∈ᵢ b) (hb1 : |b.lo| ≤ 3) (hb2 : |b.hi| ≤ 3)
    (hbw : b.hi - b.lo ≤ 1 / 10 ^ 75) {x : ℚ} (hx : |x| ≤ 10 ^ 7) {s : Sci}
    (h : expI ((I.pt x).mul b) = some s) :
    0 < s.m.lo ∧ s.m.hi ≤ s.m.lo * (1 + 3 / 10 ^ 65) := by
  have hy : ((x : ℝ) * β) ∈ᵢ (I.pt x).mul b := mem_mul (mem_pt x) hβ
  apply ratio_of_width h hy
  obtain ⟨hg, -⟩ := expI_some h
  have hle := lo_le_hi_of_mem hy
  have hwid := expR_width _ hle hg
  rw [mul_pt_eq_scale] at hwid hle ⊢
  have hb := lo_le_hi_of_mem hβ
  obtain ⟨s1, s2, s3, s4⟩ := scale_bounds b b.lo x (le_refl _) hb
  have hcoef : b.hi - b.lo + (|b.lo| + |b.hi|) * eps ≤ 1 / 10 ^ 74 := by
    unfold eps
    have : (|b.lo| + |b.hi|) * (1 / 10 ^ 79) ≤ 6 * (1 / 10 ^ 79) :=
      mul_le_mul_of_nonneg_right (by linarith) (by positivity)
    have e : (6 : ℚ) * (1 / 10 ^ 79) + 1 / 10 ^ 75 ≤ 1 / 10 ^ 74 := by norm_num
    linarith
  have hW : (b.hi - b.lo + (|b.lo| + |b.hi|) * eps) * |x| ≤ 1 / 10 ^ 74 * 10 ^ 7 :=
    mul_le_mul hcoef hx (abs_nonneg _) (by positivity)
  set W := (b.hi - b.lo + (|b.lo| + |b.hi|) * eps) * |x| with hWd
  have hcx : |b.lo * x| ≤ 3 * 10 ^ 7 := by
    rw [abs_mul]; exact mul_le_mul hb1 hx (abs_nonneg _) (by norm_num)
  have hcx' := abs_le.1 hcx
  have hmid : |((b.scale x).lo + (b.scale x).hi) / 2| ≤ 3 * 10 ^ 7 + 1 := by
    rw [abs_le]; constructor <;> linarith
  have hm2 : 2 / 10 ^ 74 * (|((b.scale x).lo + (b.scale x).hi) / 2| + 1) ≤ 2 / 10 ^ 74 * (3 * 10 ^ 7 + 1 + 1) :=
    mul_le_mul_of_nonneg_left (by linarith) (by positivity)
  have e : (2 : ℚ) * (1 / 10 ^ 74 * 10 ^ 7) + 2 / 10 ^ 74 * (3 * 10 ^ 7 + 1 + 1) + 16 * eps ≤ 1 / 10 ^ 65 := by
    unfold eps; norm_num
  linarith

/-! ## 2. shortcut enclosures -/

theorem nearOne_narrow : Narrow (⟨1 - pow10 (-39), 1 + pow10 (-39)⟩ : I) (3 / 10 ^ 39) 0 := by
  have hu : pow10 (-39) = 1 / 10 ^ 39 := by rw [pow10_eq_zpow]; norm_num
  unfold Narrow; simp only [hu]
  refine ⟨by norm_num, by norm_num, by norm_num⟩

theorem rel39_narrow {c : Nat} (hc0 : c ≠ 0) :
    Narrow (⟨(c : ℚ) * (1 - pow10 (-39)), (c : ℚ) * (1 + pow10 (-39))⟩ : I) (3 / 10 ^ 39) 0 := by
  have hu : pow10 (-39) = 1 / 10 ^ 39 := by rw [pow10_eq_zpow]; norm_num
  have hcpos : (0 : ℚ) < (c : ℚ) := by exact_mod_cast Nat.pos_of_ne_zero hc0
  unfold Narrow; simp only [hu]
  refine ⟨by positivity, ?_, ?_⟩
  · exact mul_le_mul_of_nonneg_left (by norm_num) hcpos.le
  · have : (1 + 1 / 10 ^ 39 : ℚ) ≤ (1 - 1 / 10 ^ 39) * (1 + 3 / 10 ^ 39) := by norm_num
    calc (c : ℚ) * (1 + 1 / 10 ^ 39) ≤ (c : ℚ) * ((1 - 1 / 10 ^ 39) * (1 + 3 / 10 ^ 39)) :=
          mul_le_mul_of_nonneg_left this hcpos.le
      _ = (c : ℚ) * (1 - 1 / 10 ^ 39) * (1 + 3 / 10 ^ 39) + 0 := by ring

theorem narrow_of_ratio {a : I} {ρ : ℚ} (h1 : 0 < a.lo) (h2 : a.hi ≤ a.lo * (1 + ρ)) (hle : a.lo ≤ a.hi) :
    Narrow a ρ 0 := ⟨h1, hle, by linarith⟩

/-! ## 3. exp, exp2, exp10 -/

theorem sci_lo_le_hi {T : ℝ} {s : Sci} (h : T ∈ₛ s) : s.m.lo ≤ s.m.hi := by
  obtain ⟨z, hz, -⟩ := h; exact lo_le_hi_of_mem hz

theorem trueValue_exp_narrow (n : Bool) (c : Nat) (e : Int) (tn : Bool) (t : Sci)
    (hc0 : c ≠ 0) (hc : c < 10 ^ 35) (h : trueValue .exp n c e = some (tn, t)) :
    Narrow t.m (3 / 10 ^ 39) 0 := by
  have hT := (trueValue_exp_sound n c e tn t hc0 hc h).2
  rw [trueValue_exp_eq] at h
  have hnd := ndigits_le_35 hc0 hc
  have hnd1 := ndigits_pos c
  split at h
  · exact absurd h (by simp)
  · split at h
    · simp only [Option.some.injEq, Prod.mk.injEq] at h
      obtain ⟨-, rfl⟩ := h
      exact nearOne_narrow
    · rw [xguard n c e (by omega) (by omega)] at h
      obtain ⟨s, hs, hst⟩ := Option.map_eq_some_iff.1 h
      simp only [Prod.mk.injEq] at hst
      obtain ⟨-, rfl⟩ := hst
      obtain ⟨p1, p2⟩ := exp_ratio hs (abs_toRat_le_of n hc0 e 7 (by omega))
      exact narrow_of_ratio p1 (le_trans p2 (mul_le_mul_of_nonneg_left (by norm_num) p1.le)) (sci_lo_le_hi hT)

theorem trueValue_exp2_narrow (n : Bool) (c : Nat) (e : Int) (tn : Bool) (t : Sci)
    (hc0 : c ≠ 0) (hc : c < 10 ^ 35) (h : trueValue .exp2 n c e = some (tn, t)) :
    Narrow t.m (3 / 10 ^ 39) 0 := by
  have hT := (trueValue_exp2_sound n c e tn t hc0 hc h).2
  rw [trueValue_exp2_eq] at h
  have hnd := ndigits_le_35 hc0 hc
  have hnd1 := ndigits_pos c
  split at h
  · exact absurd h (by simp)
  · split at h
    · simp only [Option.some.injEq, Prod.mk.injEq] at h
      obtain ⟨-, rfl⟩ := h
      exact nearOne_narrow
    · rw [xguard n c e (by omega) (by omega)] at h
      obtain ⟨s, hs, hst⟩ := Option.map_eq_some_iff.1 h
      simp only [Prod.mk.injEq] at hst
      obtain ⟨-, rfl⟩ := hst
      have l1 := ln2_lo_ge; have l2 := ln2_hi_le; have l3 := lo_le_hi_of_mem ln2_sound
      obtain ⟨p1, p2⟩ := expI_scaled_ratio ln2_sound
        (by rw [abs_le]; constructor <;> linarith) (by rw [abs_le]; constructor <;> linarith) ln2_width
        (abs_toRat_le_of n hc0 e 7 (by omega)) hs
      exact narrow_of_ratio p1 (le_trans p2 (mul_le_mul_of_nonneg_left (by norm_num) p1.le)) (sci_lo_le_hi hT)

theorem trueValue_exp10_narrow (n : Bool) (c : Nat) (e : Int) (tn : Bool) (t : Sci)
    (hc0 : c ≠ 0) (hc : c < 10 ^ 35) (h : trueValue .exp10 n c e = some (tn, t)) :
    Narrow t.m (3 / 10 ^ 39) 0 := by
  have hT := (trueValue_exp10_sound n c e tn t hc0 hc h).2
  rw [trueValue_exp10_eq] at h
  have hnd := ndigits_le_35 hc0 hc
  have hnd1 := ndigits_pos c
  split at h
  · exact absurd h (by simp)
  · split at h
    · simp only [Option.some.injEq, Prod.mk.injEq] at h
      obtain ⟨-, rfl⟩ := h
      exact nearOne_narrow
    · rw [xguard n c e (by omega) (by omega)] at h
      obtain ⟨s, hs, hst⟩ := Option.map_eq_some_iff.1 h
      simp only [Prod.mk.injEq] at hst
      obtain ⟨-, rfl⟩ := hst
      have l1 := ln10_lo_ge; have l2 := ln10_hi_le; have l3 := ln10_lo_le_hi
      obtain ⟨p1, p2⟩ := expI_scaled_ratio ln10_sound
        (by rw [abs_le]; constructor <;> linarith) (by rw [abs_le]; constructor <;> linarith) ln10_width
        (abs_toRat_le_of n hc0 e 7 (by omega)) hs
      exact narrow_of_ratio p1 (le_trans p2 (mul_le_mul_of_nonneg_left (by norm_num) p1.le)) (sci_lo_le_hi hT)

end EnclPf
