/-
  The accepted language of `parseNumber`.

  Acceptance depends only on the six flags; on them the parser is a finite automaton over seven
  character classes.  This module relates that automaton to `Spec.readNumber`.

  * `Parse.F`, `Parse.flags`, `Parse.initF`      the flag state
  * `Parse.Cls`, `Parse.cls`                     character classes (digit . e - _ + other)
  * `Parse.fstepC`, `Parse.frun`, `Parse.accF`   the automaton, its run, acceptance
  * `Parse.step2_flags`, `Parse.run2_flags`      the numeric state does not influence the flags
  * `Parse.skipD`                                byte-level copy of the control flow of `Spec.readDigits`
  * `Parse.frun_skipD`                           a run over a digit group (with separators)
  * `Parse.skipD_stop`                           where a digit group stops
  * `Parse.accB`                                 byte-level copy of the control flow of `Spec.readNumber`
  * `Parse.accF_eq_accB`                         automaton language = `accB`
  * `Parse.readNumber_isSome`                    `(Spec.readNumber sep (cs.map toChar)).isSome = accB sep cs`
  * `Parse.accF_eq_readNumber`                   automaton language = documented syntax
  * `Parse.readNumber'`, `Parse.readNumber_eq'`   `Spec.readNumber` with the literal patterns as tests
  * `Parse.readDigits_skipD`                     `Spec.readDigits` on bytes-as-characters
  * `Parse.finish_not_syntax`, `Parse.parseNumber_syntax_accF`
                                                 the error is `parseNumberSyntaxError` iff the automaton rejects
-/
import D128.Proofs.ParseRun
import D128.Proofs.ParseTop

set_option linter.unusedSimpArgs false
set_option linter.unusedVariables false

namespace Parse

/-! ## the flag automaton -/

structure F where
  caneof : Bool
  cansep : Bool
  cansgn : Bool
  sawdig : Bool
  sawdot : Bool
  sawexp : Bool
  deriving DecidableEq, Repr

def flags (s : S2) : F := ⟨s.caneof, s.cansep, s.cansgn, s.sawdig, s.sawdot, s.sawexp⟩
def initF : F := ⟨false, false, false, false, false, false⟩

inductive Cls | dig | dot | e | minus | us | plus | other
  deriving DecidableEq, Repr

def cls (c : UInt8) : Cls :=
  if isDig c then .dig
  else if c == (46 : UInt8) then .dot
  else if (c == (69 : UInt8)) || (c == (101 : UInt8)) then .e
  else if c == (45 : UInt8) then .minus
  else if c == (95 : UInt8) then .us
  else if c == (43 : UInt8) then .plus
  else .other

def fstepC (sep : Bool) (k : Cls) (f : F) : Option F :=
  match k with
  | .dig => some ⟨true, true, false, true, f.sawdot, f.sawexp⟩
  | .dot =>
    if (f.sawdot || f.sawexp) || (f.sawdig && !f.cansep) then none
    else some ⟨true, false, false, f.sawdig, true, f.sawexp⟩
  | .e =>
    if ((!f.sawdig) || f.sawexp) || (!f.caneof) then none
    else some ⟨false, false, true, f.sawdig, f.sawdot, true⟩
  | .minus => if !f.cansgn then none else some ⟨false, false, false, f.sawdig, f.sawdot, f.sawexp⟩
  | .us => if (!sep) || (!f.cansep) then none else some ⟨false, false, false, f.sawdig, f.sawdot, f.sawexp⟩
  | .plus => if !f.cansgn then none else some ⟨false, false, false, f.sawdig, f.sawdot, f.sawexp⟩
  | .other => none

def frun (sep : Bool) : List UInt8 → F → Option F
  | [], f => some f
  | c :: r, f => (fstepC sep (cls c) f).bind (frun sep r)

def accF : Option F → Bool
  | some f => f.caneof && f.sawdig
  | none => false

theorem step2_flags (sep : Bool) (c : UInt8) (s : S2) :
    (step2 sep c s).map flags = fstepC sep (cls c) (flags s) := by
  unfold step2 cls
  by_cases hd : isDig c = true
  · simp only [hd, if_true, fstepC, flags]
    split
    · rfl
    split <;> rename_i hx <;> simp [hx, flags]
  simp only [hd, Bool.false_eq_true, if_false]
  by_cases h46 : (c == 46) = true
  · simp only [h46, if_true, fstepC, flags]
    split <;> rename_i hx <;> simp [hx, flags]
  simp only [h46, Bool.false_eq_true, if_false]
  by_cases he : (c == 69 || c == 101) = true
  · simp only [he, if_true, fstepC, flags]
    split <;> rename_i hx <;> simp [hx, flags]
  simp only [he, Bool.false_eq_true, if_false]
  by_cases h45 : (c == 45) = true
  · simp only [h45, if_true, fstepC, flags]
    split <;> rename_i hx <;> simp [hx, flags]
  simp only [h45, Bool.false_eq_true, if_false]
  by_cases h95 : (c == 95) = true
  · simp only [h95, if_true, fstepC, flags]
    split <;> rename_i hx <;> simp [hx, flags]
  simp only [h95, Bool.false_eq_true, if_false]
  by_cases h43 : (c == 43) = true
  · simp only [h43, if_true, fstepC, flags]
    split <;> rename_i hx <;> simp [hx, flags]
  · simp only [h43, Bool.false_eq_true, if_false, fstepC, Option.map_none]

theorem run2_flags (sep : Bool) (cs : List UInt8) (s : S2) :
    (run2 sep cs s).map flags = frun sep cs (flags s) := by
  induction cs generalizing s with
  | nil => rfl
  | cons c r ih =>
    rw [run2_cons, frun, ← step2_flags]
    cases step2 sep c s with
    | none => rfl
    | some s' => exact ih s'

/-! ## digit groups -/


/-- a digit group as `Spec.readDigits` reads it: digits, and `_` followed by a digit when allowed
    and preceded by a digit (`nz`).  Returns (moved, rest). -/
def skipD (sep : Bool) : List UInt8 → Bool → Bool × List UInt8
  | [], _ => (false, [])
  | c :: rest, nz =>
    if isDig c then (true, (skipD sep rest true).2)
    else if sep && c == (95 : UInt8) && nz then
      match rest with
      | d :: rest' => if isDig d then (true, (skipD sep rest' true).2) else (false, c :: rest)
      | [] => (false, c :: rest)
    else (false, c :: rest)

def dig (f : F) : F := ⟨true, true, false, true, f.sawdot, f.sawexp⟩

theorem dig_dig (f : F) : dig (dig f) = dig f := rfl

theorem cls_dig {c : UInt8} (h : isDig c = true) : cls c = .dig := by
  unfold cls; rw [if_pos h]

theorem cls_ne_dig {c : UInt8} (h : isDig c = false) : cls c ≠ .dig := by
  unfold cls
  rw [if_neg (by simp [h])]
  repeat' split
  all_goals simp

theorem cls_us : cls 95 = .us := by decide

theorem frun_dig (sep : Bool) (c : UInt8) (r : List UInt8) (f : F) (h : isDig c = true) :
    frun sep (c :: r) f = frun sep r (dig f) := by
  rw [frun, cls_dig h]; rfl

theorem frun_us_dig (sep : Bool) (d : UInt8) (r : List UInt8) (f : F) (hs : sep = true)
    (hc : f.cansep = true) (h : isDig d = true) :
    frun sep (95 :: d :: r) f = frun sep r (dig f) := by
  rw [frun, cls_us, fstepC]
  simp only [hs, hc, Bool.not_true, Bool.or_self, Bool.false_eq_true, if_false, Option.bind_some]
  rw [frun, cls_dig h]; rfl

theorem skipD_dig (sep : Bool) (c : UInt8) (rest : List UInt8) (nz : Bool) (h : isDig c = true) :
    skipD sep (c :: rest) nz = (true, (skipD sep rest true).2) := by
  rw [skipD.eq_def]; simp only [if_pos h]

theorem skipD_us_dig (sep : Bool) (c d : UInt8) (rest : List UInt8) (nz : Bool) (h : ¬ isDig c = true)
    (hu : (sep && c == 95 && nz) = true) (hd : isDig d = true) :
    skipD sep (c :: d :: rest) nz = (true, (skipD sep rest true).2) := by
  rw [skipD.eq_def]
  simp only [if_neg h, if_pos hu, hd, if_true]

theorem skipD_us_nodig (sep : Bool) (c d : UInt8) (rest : List UInt8) (nz : Bool) (h : ¬ isDig c = true)
    (hu : (sep && c == 95 && nz) = true) (hd : ¬ isDig d = true) :
    skipD sep (c :: d :: rest) nz = (false, c :: d :: rest) := by
  rw [skipD.eq_def]
  simp only [if_neg h, if_pos hu, hd, Bool.false_eq_true, if_false]

theorem skipD_us_end (sep : Bool) (c : UInt8) (nz : Bool) (h : ¬ isDig c = true)
    (hu : (sep && c == 95 && nz) = true) :
    skipD sep [c] nz = (false, [c]) := by
  rw [skipD.eq_def]
  simp only [if_neg h, if_pos hu]

theorem skipD_other (sep : Bool) (c : UInt8) (rest : List UInt8) (nz : Bool) (h : ¬ isDig c = true)
    (hu : ¬ (sep && c == 95 && nz) = true) :
    skipD sep (c :: rest) nz = (false, c :: rest) := by
  rw [skipD.eq_def]; simp only [if_neg h, if_neg hu]

/-- a run over a digit group -/
theorem frun_skipD (sep : Bool) (cs : List UInt8) (nz : Bool) :
    ∀ f : F, f.cansep = nz →
      frun sep cs f = frun sep (skipD sep cs nz).2 (if (skipD sep cs nz).1 then dig f else f) := by
  induction cs, nz using skipD.induct sep with
  | case1 nz => intro f _; rfl
  | case2 c rest nz hd ih =>
    intro f _
    rw [frun_dig sep c rest f hd, skipD_dig sep c rest nz hd, ih (dig f) rfl]
    simp only [if_true, dig_dig]
    split <;> rfl
  | case3 c nz hc hu d rest' hd ih =>
    intro f hf
    simp only [Bool.and_eq_true, beq_iff_eq] at hu
    obtain ⟨⟨hs, h95⟩, hnz⟩ := hu
    subst h95
    rw [frun_us_dig sep d rest' f hs (hf.trans hnz) hd,
      skipD_us_dig sep 95 d rest' nz hc (by simp [hs, hnz]) hd, ih (dig f) rfl]
    simp only [if_true, dig_dig]
    split <;> rfl
  | case4 c nz hc hu d rest' hd =>
    intro f _
    rw [skipD_us_nodig sep c d rest' nz hc hu hd]; rfl
  | case5 c nz hc hu =>
    intro f _
    rw [skipD_us_end sep c nz hc hu]; rfl
  | case6 c rest nz hc hu =>
    intro f _
    rw [skipD_other sep c rest nz hc hu]; rfl

/-- where a digit group stops: at the end, or at a non-digit; and a `_` there (with separators
    allowed and a digit before it) is not followed by a digit -/
def StopAt (sep nz : Bool) (r : List UInt8) : Prop :=
  match r with
  | [] => True
  | c :: r' => isDig c = false ∧
      (c = 95 → sep = true → nz = true → match r' with | [] => True | d :: _ => isDig d = false)

theorem skipD_stop (sep : Bool) (cs : List UInt8) (nz : Bool) :
    StopAt sep (nz || (skipD sep cs nz).1) (skipD sep cs nz).2 := by
  induction cs, nz using skipD.induct sep with
  | case1 nz => trivial
  | case2 c rest nz hd ih =>
    rw [skipD_dig sep c rest nz hd]
    simpa using ih
  | case3 c nz hc hu d rest' hd ih =>
    rw [skipD_us_dig sep c d rest' nz hc hu hd]
    simpa using ih
  | case4 c nz hc hu d rest' hd =>
    rw [skipD_us_nodig sep c d rest' nz hc hu hd]
    exact ⟨by simpa using hc, fun _ _ _ => by simpa using hd⟩
  | case5 c nz hc hu =>
    rw [skipD_us_end sep c nz hc hu]
    exact ⟨by simpa using hc, fun _ _ _ => trivial⟩
  | case6 c rest nz hc hu =>
    rw [skipD_other sep c rest nz hc hu]
    refine ⟨by simpa using hc, fun h95 hs hnz => ?_⟩
    exfalso; apply hu
    simp only [Bool.or_false] at hnz
    simp [hs, h95, hnz]

theorem skipD_not_moved (sep : Bool) (cs : List UInt8) (nz : Bool) (h : (skipD sep cs nz).1 = false) :
    (skipD sep cs nz).2 = cs := by
  induction cs, nz using skipD.induct sep with
  | case1 nz => rfl
  | case2 c rest nz hd ih => rw [skipD_dig sep c rest nz hd] at h; cases h
  | case3 c nz hc hu d rest' hd ih => rw [skipD_us_dig sep c d rest' nz hc hu hd] at h; cases h
  | case4 c nz hc hu d rest' hd => rw [skipD_us_nodig sep c d rest' nz hc hu hd]
  | case5 c nz hc hu => rw [skipD_us_end sep c nz hc hu]
  | case6 c rest nz hc hu => rw [skipD_other sep c rest nz hc hu]

/-! ### rejection lemmas -/

theorem cls_eq_us {c : UInt8} (h : cls c = .us) : c = 95 := by
  unfold cls at h
  split at h; · cases h
  split at h; · cases h
  split at h; · cases h
  split at h; · cases h
  split at h
  · rename_i h95; simpa using h95
  split at h <;> cases h

theorem cls_eq_dot {c : UInt8} : cls c = .dot ↔ c = 46 := by
  constructor
  · intro h
    unfold cls at h
    split at h; · cases h
    split at h
    · rename_i h46; simpa using h46
    split at h; · cases h
    split at h; · cases h
    split at h; · cases h
    split at h <;> cases h
  · intro h; subst h; decide

theorem cls_eq_e {c : UInt8} : cls c = .e ↔ (c = 101 ∨ c = 69) := by
  constructor
  · intro h
    unfold cls at h
    split at h; · cases h
    split at h; · cases h
    split at h
    · rename_i he; simp only [Bool.or_eq_true, beq_iff_eq] at he; exact he.symm
    split at h; · cases h
    split at h; · cases h
    split at h <;> cases h
  · intro h; rcases h with h | h <;> subst h <;> decide

theorem cls_eq_sign {c : UInt8} : (cls c = .minus ∨ cls c = .plus) ↔ (c = 45 ∨ c = 43) := by
  constructor
  · intro h
    unfold cls at h
    split at h; · rcases h with h | h <;> cases h
    split at h; · rcases h with h | h <;> cases h
    split at h; · rcases h with h | h <;> cases h
    split at h
    · rename_i h45; left; simpa using h45
    split at h; · rcases h with h | h <;> cases h
    split at h
    · rename_i h43; right; simpa using h43
    · rcases h with h | h <;> cases h
  · intro h; rcases h with h | h <;> subst h <;> decide

/-- after an accepted `_` only a digit can follow -/
theorem us_dead (sep : Bool) (u : F) (h1 : u.caneof = false) (h2 : u.cansep = false) (h3 : u.cansgn = false)
    (h4 : u.sawdig = true) (r : List UInt8)
    (hr : match r with | [] => True | d :: _ => isDig d = false) :
    accF (frun sep r u) = false := by
  cases r with
  | nil => simp [frun, accF, h1]
  | cons d r' =>
    have hd : cls d ≠ .dig := cls_ne_dig hr
    rw [frun]
    cases hk : cls d <;> simp_all [fstepC, accF]

/-- the general rejection lemma: a non-digit character that the state cannot take (or a `_` that
    is taken but not followed by a digit) -/
theorem frun_rej (sep : Bool) (f : F) (c : UInt8) (r' : List UInt8)
    (hstop : StopAt sep f.cansep (c :: r'))
    (hsgn : (c = 45 ∨ c = 43) → f.cansgn = false)
    (hsd : f.cansep = true → f.sawdig = true)
    (hdot : c = 46 → f.sawdot = true ∨ f.sawexp = true ∨ (f.sawdig = true ∧ f.cansep = false))
    (he : (c = 101 ∨ c = 69) → f.sawdig = false ∨ f.sawexp = true ∨ f.caneof = false) :
    accF (frun sep (c :: r') f) = false := by
  obtain ⟨hnd, hus⟩ := hstop
  have hd : cls c ≠ .dig := cls_ne_dig hnd
  rw [frun]
  cases hk : cls c with
  | dig => exact absurd hk hd
  | dot =>
    have := hdot (cls_eq_dot.mp hk)
    rcases this with h | h | ⟨h, h'⟩ <;> simp [fstepC, h, accF, *]
  | e =>
    have := he (cls_eq_e.mp hk)
    rcases this with h | h | h <;> simp [fstepC, h, accF]
  | minus => simp [fstepC, hsgn (cls_eq_sign.mp (Or.inl hk)), accF]
  | plus => simp [fstepC, hsgn (cls_eq_sign.mp (Or.inr hk)), accF]
  | other => simp [fstepC, accF]
  | us =>
    by_cases hacc : sep = true ∧ f.cansep = true
    · obtain ⟨hs, hc⟩ := hacc
      have h95 := cls_eq_us hk
      subst hs
      simp only [fstepC, hc, Bool.not_true, Bool.or_self, Bool.false_eq_true, if_false, Option.bind_some]
      exact us_dead true ⟨false, false, false, f.sawdig, f.sawdot, f.sawexp⟩ rfl rfl rfl (hsd hc) r' (hus h95 rfl hc)
    · have : ((!sep) || (!f.cansep)) = true := by
        cases hs : sep <;> cases hc : f.cansep <;> simp_all
      simp [fstepC, this, accF]

/-! ### the byte-level copy of `Spec.readNumber` (control flow only) -/

def afterDot (sep : Bool) (r1 : List UInt8) : Bool × List UInt8 :=
  match r1 with
  | c :: r => if c = 46 then skipD sep r false else (false, c :: r)
  | [] => (false, [])

def stripSign (r : List UInt8) : List UInt8 :=
  match r with
  | c :: r' => if c = 45 ∨ c = 43 then r' else c :: r'
  | [] => []

def expOK (sep : Bool) (r : List UInt8) : Bool :=
  (skipD sep (stripSign r) false).1 && (skipD sep (stripSign r) false).2.isEmpty

def tailB (sep : Bool) (r2 : List UInt8) : Bool :=
  match r2 with
  | [] => true
  | c :: r => if c = 101 ∨ c = 69 then expOK sep r else false

def accB (sep : Bool) (cs : List UInt8) : Bool :=
  let p1 := skipD sep cs false
  let p2 := afterDot sep p1.2
  if !(p1.1 || p2.1) then false else tailB sep p2.2

theorem exp_tail (sep : Bool) (cg dt : Bool) (r3 : List UInt8)
    (hcg : cg = true → match r3 with | c :: _ => ¬ (c = 45 ∨ c = 43) | [] => True) :
    accF (frun sep r3 ⟨false, false, cg, true, dt, true⟩) =
      ((skipD sep r3 false).1 && (skipD sep r3 false).2.isEmpty) := by
  rw [frun_skipD sep r3 false _ rfl]
  have hstop := skipD_stop sep r3 false
  cases hm : (skipD sep r3 false).1 with
  | false =>
    have hr := skipD_not_moved sep r3 false hm
    rw [hm] at hstop
    rw [hr] at hstop ⊢
    simp only [Bool.false_eq_true, if_false, Bool.false_and]
    cases r3 with
    | nil => rfl
    | cons c r' =>
      apply frun_rej sep _ c r' hstop
      · intro hs
        cases cg with
        | false => rfl
        | true => exact absurd hs (hcg rfl)
      · intro h; cases h
      · intro _; exact Or.inr (Or.inl rfl)
      · intro _; exact Or.inr (Or.inl rfl)
  | true =>
    rw [hm] at hstop
    simp only [if_true, Bool.true_and, dig]
    cases hr : (skipD sep r3 false).2 with
    | nil => rfl
    | cons c r5 =>
      rw [hr] at hstop
      simp only [List.isEmpty_cons]
      apply frun_rej sep _ c r5 hstop
      · intro _; rfl
      · intro _; rfl
      · intro _; exact Or.inr (Or.inl rfl)
      · intro _; exact Or.inr (Or.inl rfl)

theorem exp_part (sep : Bool) (g : F) (h1 : g.caneof = true) (h2 : g.sawdig = true) (h3 : g.sawexp = false)
    (c : UInt8) (r : List UInt8) (hc : c = 101 ∨ c = 69) :
    accF (frun sep (c :: r) g) = expOK sep r := by
  rw [frun, cls_eq_e.mpr hc]
  simp only [fstepC, h1, h2, h3, Bool.not_true, Bool.or_self, Bool.false_eq_true, if_false, Option.bind_some]
  unfold expOK
  cases r with
  | nil => rfl
  | cons c' r' =>
    by_cases hs : c' = 45 ∨ c' = 43
    · have hk := cls_eq_sign.mpr hs
      have : stripSign (c' :: r') = r' := by simp only [stripSign, if_pos hs]
      rw [this, frun]
      rcases hk with hk | hk <;> rw [hk] <;>
        simp only [fstepC, Bool.not_true, Bool.false_eq_true, if_false, Option.bind_some] <;>
        exact exp_tail sep false g.sawdot r' (fun h => by cases h)
    · have : stripSign (c' :: r') = c' :: r' := by simp only [stripSign, if_neg hs]
      rw [this]
      exact exp_tail sep true g.sawdot (c' :: r') (fun _ => hs)

theorem tail_good (sep : Bool) (g : F) (h1 : g.caneof = true) (h2 : g.sawdig = true) (h3 : g.cansgn = false)
    (h4 : g.sawexp = false) (r2 : List UInt8) (hstop : StopAt sep g.cansep r2)
    (hdot : g.sawdot = false → match r2 with | c :: _ => c ≠ 46 | [] => True) :
    accF (frun sep r2 g) = tailB sep r2 := by
  cases r2 with
  | nil => simp [frun, accF, h1, h2, tailB]
  | cons c r =>
    by_cases he : c = 101 ∨ c = 69
    · simp only [tailB, if_pos he]; exact exp_part sep g h1 h2 h4 c r he
    · simp only [tailB, if_neg he]
      apply frun_rej sep g c r hstop
      · intro _; exact h3
      · intro _; exact h2
      · intro h46
        cases hd : g.sawdot with
        | true => exact Or.inl rfl
        | false => exact absurd h46 (hdot hd)
      · intro h; exact absurd h he

theorem accF_eq_accB (sep : Bool) (cs : List UInt8) : accF (frun sep cs initF) = accB sep cs := by
  rw [frun_skipD sep cs false initF rfl]
  have hstop1 := skipD_stop sep cs false
  unfold accB
  simp only [Bool.false_or] at hstop1
  generalize hp1 : skipD sep cs false = p1 at *
  obtain ⟨m1, r1⟩ := p1
  simp only at hstop1 ⊢
  cases r1 with
  | nil =>
    simp only [afterDot, Bool.or_false]
    cases m1 <;> rfl
  | cons c r =>
    by_cases h46 : c = 46
    · -- a decimal point follows the integer digits
      subst h46
      simp only [afterDot, if_true]
      have hstep : frun sep (46 :: r) (if m1 = true then dig initF else initF) =
          frun sep r ⟨true, false, false, m1, true, false⟩ := by
        rw [frun, cls_eq_dot.mpr rfl]
        cases m1 <;> rfl
      rw [hstep, frun_skipD sep r false _ rfl]
      have hstop2 := skipD_stop sep r false
      simp only [Bool.false_or] at hstop2
      generalize hp2 : skipD sep r false = p2 at *
      obtain ⟨m2, r2⟩ := p2
      simp only at hstop2 ⊢
      cases hm : (m1 || m2) with
      | false =>
        simp only [Bool.or_eq_false_iff] at hm
        obtain ⟨hm1, hm2⟩ := hm
        subst hm1; subst hm2
        have hr2 : r2 = r := by
          have := skipD_not_moved sep r false (by rw [hp2])
          rw [hp2] at this; exact this
        subst hr2
        simp only [Bool.not_false, if_true, Bool.false_eq_true, if_false]
        cases r2 with
        | nil => rfl
        | cons c' r' =>
          apply frun_rej sep _ c' r' hstop2
          · intro _; rfl
          · intro h; cases h
          · intro _; exact Or.inl rfl
          · intro _; exact Or.inl rfl
      | true =>
        simp only [Bool.not_true, Bool.false_eq_true, if_false]
        have key := tail_good sep (if m2 = true then dig ⟨true, false, false, m1, true, false⟩
            else ⟨true, false, false, m1, true, false⟩)
          (by cases m2 <;> rfl)
          (by cases m1 <;> cases m2 <;> first | rfl | cases hm)
          (by cases m2 <;> rfl) (by cases m2 <;> rfl) r2
          (by cases m2 <;> exact hstop2)
          (by cases m2 <;> intro h <;> cases h)
        exact key
    · -- no decimal point
      simp only [afterDot, if_neg h46, Bool.or_false]
      cases m1 with
      | false =>
        simp only [Bool.not_false, if_true, Bool.false_eq_true, if_false]
        apply frun_rej sep _ c r hstop1
        · intro _; rfl
        · intro h; cases h
        · intro h; exact absurd h h46
        · intro _; exact Or.inl rfl
      | true =>
        simp only [Bool.not_true, Bool.false_eq_true, if_false, if_true]
        exact tail_good sep (dig initF) rfl rfl rfl rfl (c :: r) hstop1 (fun _ => h46)


/-! ## `Spec.readNumber` on bytes -/


def dotStep (sep : Bool) (ip : Nat) (r1 : List Char) : Nat × Nat × List Char :=
  match r1 with
  | c :: r => if c = '.' then Spec.readDigits sep r ip 0 else (ip, 0, c :: r)
  | [] => (ip, 0, [])

def signStep (r : List Char) : Bool × List Char :=
  match r with
  | c :: r' => if c = '-' then (true, r') else if c = '+' then (false, r') else (false, c :: r')
  | [] => (false, [])

/-- `Spec.readNumber` with the literal patterns written as tests on the head character -/
def readNumber' (sep : Bool) (s : List Char) : Option (Nat × Int) :=
  let p1 := Spec.readDigits sep s 0 0
  let p2 := dotStep sep p1.1 p1.2.2
  if p1.2.1 + p2.2.1 == 0 then none else
  match p2.2.2 with
  | [] => some (p2.1, -(p2.2.1 : Int))
  | e :: r =>
    if e == 'e' || e == 'E' then
      let q := signStep r
      let p3 := Spec.readDigits sep q.2 0 0
      if p3.2.1 == 0 || decide (p3.2.2 ≠ []) then none
      else some (p2.1, (if q.1 then -(p3.1 : Int) else (p3.1 : Int)) - (p2.2.1 : Int))
    else none

set_option linter.auxLemma false

theorem rn_match3 {α : Type} (r1 : List Char) (h1 : List Char → α) (h2 : List Char → α) :
    Spec.readNumber.match_3 (fun _ => α) r1 h1 h2 =
      match r1 with
      | c :: r => if c = '.' then h1 r else h2 (c :: r)
      | [] => h2 [] := by
  cases r1 with
  | nil => rfl
  | cons c r =>
    unfold Spec.readNumber.match_3
    show dite (c = '.') _ _ = _
    by_cases h : c = '.'
    · subst h; simp only [dif_pos, if_true]
    · simp only [dif_neg h, if_neg h]

theorem rn_match6 {α : Type} (r : List Char) (h1 h2 h3 : List Char → α) :
    Spec.readNumber.match_6 (fun _ => α) r h1 h2 h3 =
      match r with
      | c :: r' => if c = '-' then h1 r' else if c = '+' then h2 r' else h3 (c :: r')
      | [] => h3 [] := by
  cases r with
  | nil => rfl
  | cons c r' =>
    unfold Spec.readNumber.match_6
    show dite (c = '-') _ _ = _
    by_cases h : c = '-'
    · subst h; simp only [dif_pos, if_true]
    · by_cases h' : c = '+'
      · subst h'; simp only [dif_neg h, if_neg h, dif_pos, if_true]
      · simp only [dif_neg h, if_neg h, dif_neg h', if_neg h']

theorem readNumber_eq' (sep : Bool) (s : List Char) : Spec.readNumber sep s = readNumber' sep s := by
  unfold Spec.readNumber readNumber' dotStep signStep
  simp only [rn_match3, rn_match6]
  rfl

theorem toChar_beq (a b : UInt8) : (toChar a == toChar b) = (a == b) := by
  rw [Bool.eq_iff_iff]; simp only [beq_iff_eq]
  exact ⟨toChar_inj, fun h => by rw [h]⟩

theorem cnt_eq (cnt : Nat) : (cnt == 0) = !decide (0 < cnt) := by
  cases cnt <;> simp

theorem readDigits_cons (sep : Bool) (c : Char) (rest : List Char) (acc cnt : Nat) :
    Spec.readDigits sep (c :: rest) acc cnt =
      if Spec.isDigit c then Spec.readDigits sep rest (acc * 10 + Spec.digitVal c) (cnt + 1)
      else if sep && c == '_' && decide (cnt > 0) then
        match rest with
        | d :: _ => if Spec.isDigit d then Spec.readDigits sep rest acc cnt else (acc, cnt, c :: rest)
        | [] => (acc, cnt, c :: rest)
      else (acc, cnt, c :: rest) := by
  rw [Spec.readDigits.eq_def]
  rfl

theorem readDigits_skipD (sep : Bool) (cs : List UInt8) (nz : Bool) :
    ∀ acc cnt, decide (cnt > 0) = nz →
      (Spec.readDigits sep (cs.map toChar) acc cnt).2.2 = (skipD sep cs nz).2.map toChar ∧
      ((Spec.readDigits sep (cs.map toChar) acc cnt).2.1 == 0) = !(nz || (skipD sep cs nz).1) := by
  induction cs, nz using skipD.induct sep with
  | case1 nz =>
    intro acc cnt h
    refine ⟨rfl, ?_⟩
    subst h
    simp [Spec.readDigits, skipD]
    exact cnt_eq cnt
  | case2 c rest nz hd ih =>
    intro acc cnt h
    rw [List.map_cons, readDigits_cons, isDigit_toChar, if_pos hd, skipD_dig sep c rest nz hd]
    obtain ⟨h1, h2⟩ := ih (acc * 10 + Spec.digitVal (toChar c)) (cnt + 1) (by simp)
    exact ⟨h1, by rw [h2]; simp⟩
  | case3 c nz hc hu d rest' hd ih =>
    intro acc cnt h
    have hu' : (sep && toChar c == '_' && decide (cnt > 0)) = true := by
      rw [h, show '_' = toChar 95 from rfl, toChar_beq]; exact hu
    rw [List.map_cons, List.map_cons, readDigits_cons, isDigit_toChar, if_neg hc, if_pos hu']
    simp only [isDigit_toChar, hd, if_true]
    rw [readDigits_cons, isDigit_toChar, if_pos hd, skipD_us_dig sep c d rest' nz hc hu hd]
    obtain ⟨h1, h2⟩ := ih (acc * 10 + Spec.digitVal (toChar d)) (cnt + 1) (by simp)
    exact ⟨h1, by rw [h2]; simp⟩
  | case4 c nz hc hu d rest' hd =>
    intro acc cnt h
    have hu' : (sep && toChar c == '_' && decide (cnt > 0)) = true := by
      rw [h, show '_' = toChar 95 from rfl, toChar_beq]; exact hu
    rw [List.map_cons, List.map_cons, readDigits_cons, isDigit_toChar, if_neg hc, if_pos hu']
    simp only [isDigit_toChar, hd, if_false]
    rw [skipD_us_nodig sep c d rest' nz hc hu hd]
    refine ⟨rfl, ?_⟩
    subst h; simp; exact cnt_eq cnt
  | case5 c nz hc hu =>
    intro acc cnt h
    have hu' : (sep && toChar c == '_' && decide (cnt > 0)) = true := by
      rw [h, show '_' = toChar 95 from rfl, toChar_beq]; exact hu
    rw [List.map_cons, List.map_nil, readDigits_cons, isDigit_toChar, if_neg hc, if_pos hu']
    rw [skipD_us_end sep c nz hc hu]
    refine ⟨rfl, ?_⟩
    subst h; simp; exact cnt_eq cnt
  | case6 c rest nz hc hu =>
    intro acc cnt h
    have hu' : ¬ (sep && toChar c == '_' && decide (cnt > 0)) = true := by
      rw [h, show '_' = toChar 95 from rfl, toChar_beq]; exact hu
    rw [List.map_cons, readDigits_cons, isDigit_toChar, if_neg hc, if_neg hu']
    rw [skipD_other sep c rest nz hc hu]
    refine ⟨rfl, ?_⟩
    subst h; simp; exact cnt_eq cnt

theorem toChar_eq_lit (c k : UInt8) : toChar c = toChar k ↔ c = k :=
  ⟨toChar_inj, fun h => by rw [h]⟩

theorem dot_step (sep : Bool) (ip : Nat) (R1 : List UInt8) :
    (dotStep sep ip (R1.map toChar)).2.2 = (afterDot sep R1).2.map toChar ∧
    ((dotStep sep ip (R1.map toChar)).2.1 == 0) = !(afterDot sep R1).1 := by
  cases R1 with
  | nil => exact ⟨rfl, rfl⟩
  | cons c r =>
    simp only [List.map_cons, afterDot, dotStep]
    by_cases h : c = 46
    · subst h
      rw [if_pos (show toChar 46 = '.' from rfl), if_pos rfl]
      have := readDigits_skipD sep r false ip 0 (by simp)
      simpa using this
    · have h' : toChar c ≠ '.' := fun hh => h ((toChar_eq_lit c 46).mp hh)
      rw [if_neg h', if_neg h]
      exact ⟨rfl, rfl⟩

theorem sign_step (r : List UInt8) : (signStep (r.map toChar)).2 = (stripSign r).map toChar := by
  cases r with
  | nil => rfl
  | cons c r' =>
    simp only [List.map_cons, stripSign, signStep]
    by_cases h45 : c = 45
    · subst h45; rw [if_pos (show toChar 45 = '-' from rfl), if_pos (Or.inl rfl)]
    · have e1 : toChar c ≠ '-' := fun hh => h45 ((toChar_eq_lit c 45).mp hh)
      rw [if_neg e1]
      by_cases h43 : c = 43
      · subst h43; rw [if_pos (show toChar 43 = '+' from rfl), if_pos (Or.inr rfl)]
      · have e2 : toChar c ≠ '+' := fun hh => h43 ((toChar_eq_lit c 43).mp hh)
        rw [if_neg e2, if_neg (by intro h; rcases h with h | h; exact h45 h; exact h43 h)]
        rfl

theorem readNumber_isSome (sep : Bool) (cs : List UInt8) :
    (Spec.readNumber sep (cs.map toChar)).isSome = accB sep cs := by
  rw [readNumber_eq']
  unfold readNumber' accB
  obtain ⟨h1r, h1c⟩ := readDigits_skipD sep cs false 0 0 (by simp)
  simp only [Bool.false_or] at h1c
  generalize Spec.readDigits sep (cs.map toChar) 0 0 = P1 at *
  obtain ⟨ip, ni, r1⟩ := P1
  simp only at h1r h1c ⊢
  subst h1r
  obtain ⟨h2r, h2c⟩ := dot_step sep ip (skipD sep cs false).2
  generalize dotStep sep ip ((skipD sep cs false).2.map toChar) = P2 at *
  obtain ⟨m, nf, r2⟩ := P2
  simp only at h2r h2c ⊢
  subst h2r
  have hcnt : (ni + nf == 0) = !((skipD sep cs false).1 || (afterDot sep (skipD sep cs false).2).1) := by
    rw [Bool.not_or, ← h1c, ← h2c]
    cases ni <;> cases nf <;> simp
  rw [hcnt]
  split
  · rfl
  · generalize (afterDot sep (skipD sep cs false).2).2 = R2
    cases R2 with
    | nil => rfl
    | cons e r =>
      simp only [List.map_cons, tailB]
      have he : (toChar e == 'e' || toChar e == 'E') = decide (e = 101 ∨ e = 69) := by
        rw [show 'e' = toChar 101 from rfl, show 'E' = toChar 69 from rfl, toChar_beq, toChar_beq]
        rw [Bool.eq_iff_iff]; simp
      rw [he]
      by_cases hE : e = 101 ∨ e = 69
      · simp only [hE, decide_true, if_true]
        rw [sign_step r]
        unfold expOK
        obtain ⟨h3r, h3c⟩ := readDigits_skipD sep (stripSign r) false 0 0 (by simp)
        simp only [Bool.false_or] at h3c
        generalize Spec.readDigits sep ((stripSign r).map toChar) 0 0 = P3 at *
        obtain ⟨ev, ne, r'⟩ := P3
        simp only at h3r h3c ⊢
        subst h3r
        rw [h3c]
        cases (skipD sep (stripSign r) false).1 <;> cases (skipD sep (stripSign r) false).2 <;> simp
      · simp only [hE, decide_false, Bool.false_eq_true, if_false]
        rfl

/-- the automaton accepts exactly the documented syntax -/
theorem accF_eq_readNumber (sep : Bool) (cs : List UInt8) :
    accF (frun sep cs initF) = (Spec.readNumber sep (cs.map toChar)).isSome := by
  rw [accF_eq_accB, readNumber_isSome]

/-! ## from the automaton to `parseNumber` -/

theorem finish_not_syntax (g : Globals) (neg : Bool) (s : S2)
    (h1 : ¬ ((!s.caneof) || (!s.sawdig)) = true) :
    ∃ r e, finish g neg s = .ok (r, e) ∧ (e = .nil ∨ e = .parseNumberRangeError) := by
  by_cases h2 : ((s.sig.w0 ||| s.sig.w1) == (0 : UInt64)) = true
  · exact ⟨_, _, finish_zero g neg s h1 h2, Or.inl rfl⟩
  by_cases h3 : decide (((if s.eneg then s.exp * (-1 : Int64) else s.exp) - s.nfrac) > (6150 : Int64)) = true
  · exact ⟨_, _, finish_big g neg s h1 h2 _ rfl h3, Or.inr rfl⟩
  by_cases h4 : decide (((if s.eneg then s.exp * (-1 : Int64) else s.exp) - s.nfrac) < (-6215 : Int64)) = true
  · exact ⟨_, _, finish_small g neg s h1 h2 _ rfl h3 h4, Or.inl rfl⟩
  obtain ⟨r, hr⟩ := reduce128_call g.DefaultRoundingMode neg s.sig
    (Go.conv (((if s.eneg then s.exp * (-1 : Int64) else s.exp) - s.nfrac) + (6176 : Int64)) : Int16) s.trunc h2
  have := finish_red g neg s h1 h2 _ rfl h3 h4 r hr
  by_cases h5 : decide (r.2 > (12287 : Int16)) = true
  · rw [if_pos h5] at this; exact ⟨_, _, this, Or.inr rfl⟩
  · rw [if_neg h5] at this; exact ⟨_, _, this, Or.inl rfl⟩

theorem flags_init : flags (toS2 init1) = initF := rfl

/-- `parseNumber` reports a syntax error exactly when the automaton does not accept -/
theorem parseNumber_syntax_accF (g : Globals) (d : Go.Bytes) (neg sep : Bool)
    (hsz : d.size < 2^63) (r : Gen.Decimal) (e : Go.Err)
    (h : Gen.parseNumber g d neg sep = .ok (r, e)) :
    e = .parseNumberSyntaxError ↔ accF (frun sep d.toList initF) = false := by
  rw [parseNumber_eq_run2 g d neg sep hsz] at h
  rw [← flags_init, ← run2_flags]
  cases hrun : run2 sep d.toList (toS2 init1) with
  | none =>
    rw [hrun] at h
    simp only [Option.map_none, accF]
    injection h with h; injection h with _ h
    exact ⟨fun _ => trivial, fun _ => h.symm⟩
  | some s =>
    rw [hrun] at h
    simp only [Option.map_some, accF, flags] at h ⊢
    by_cases hc : ((!s.caneof) || (!s.sawdig)) = true
    · rw [finish_syn g neg s hc] at h
      injection h with h; injection h with _ h
      constructor
      · intro _
        cases h1 : s.caneof <;> cases h2 : s.sawdig <;> simp_all
      · intro _; exact h.symm
    · obtain ⟨r', e', h1, h2⟩ := finish_not_syntax g neg s hc
      rw [h1] at h
      injection h with h; injection h with _ h
      subst h
      constructor
      · intro he; rcases h2 with h2 | h2 <;> rw [h2] at he <;> cases he
      · intro ha
        exfalso; apply hc
        cases h1 : s.caneof <;> cases h2 : s.sawdig <;> simp_all


end Parse
