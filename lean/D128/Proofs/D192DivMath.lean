/-
  D128/Proofs/D192DivMath.lean — the number theory behind `uint192.div` (/repo/int.go), in ℕ.

  * `Knuth.refine`, `Knuth.refine_eq` : one quotient digit of Knuth's algorithm D for a two-word
      normalised divisor `U = u1·b + u0` and a three-word dividend `V = V'·b + v0` with `V' < u1·b`:
      the estimate `q̂ = V'/u1` corrected by (at most two rounds of) the test
      `q̂·u0 > r̂·b + v0` is exactly `V / U`.
  * `Knuth.special` : the overflow case `V' / b = u1` of the second digit as the Go code handles it
      (`q̂ = b-1`, `r̂ = V' mod b` — NOT Knuth's `r̂ = V' mod b + u1`): the result can be one too small.
  * `Knuth.est3_core` : the Hacker's-Delight style estimate for a three-word divisor
      (halved dividend `v = n/2`, normalised top word `u2`, one correction with the second word,
      shift back by `S = 2^(63-i)`):  `q·S ≤ q' < (q+2)·S`, i.e. `n/o ≤ q'/S ≤ n/o + 1`.
-/
import Mathlib.Tactic.Ring
import Mathlib.Tactic.Linarith
import Mathlib.Tactic.NormNum

set_option autoImplicit false
set_option maxRecDepth 4096
set_option linter.unusedVariables false

namespace Knuth

/-- the corrected digit, as computed by the Go code (`b = 2^64`) -/
def refine (u1 u0 v0 q ur : Nat) : Nat :=
  if q * u0 > ur * 2 ^ 64 + v0 then
    if ur + u1 < 2 ^ 64 then
      if (q - 1) * u0 > (ur + u1) * 2 ^ 64 + v0 then q - 2 else q - 1
    else q - 1
  else q

theorem eq_div_of {X U V : Nat} (h1 : X * U ≤ V) (h2 : V < (X + 1) * U) : X = V / U := by
  have hU : 0 < U := by
    rcases Nat.eq_zero_or_pos U with h | h
    · rw [h] at h2; simp at h2
    · exact h
  symm
  apply Nat.div_eq_of_lt_le
  · exact h1
  · exact h2

/-- exactness of the corrected digit. -/
theorem refine_eq (u1 u0 v0 V' : Nat) (hu1 : 2 ^ 63 ≤ u1) (hu1' : u1 < 2 ^ 64) (hu0 : u0 < 2 ^ 64)
    (hv0 : v0 < 2 ^ 64) (hV : V' < u1 * 2 ^ 64) :
    refine u1 u0 v0 (V' / u1) (V' % u1) = (V' * 2 ^ 64 + v0) / (u1 * 2 ^ 64 + u0) := by
  have hu1pos : 0 < u1 := by omega
  have hdm := Nat.div_add_mod V' u1
  have hur := Nat.mod_lt V' hu1pos
  have hq : V' / u1 < 2 ^ 64 := by rw [Nat.div_lt_iff_lt_mul hu1pos]; rw [Nat.mul_comm]; exact hV
  generalize hQ : V' / u1 = q at *
  generalize hR : V' % u1 = ur at *
  subst hdm
  unfold refine
  have hb : ∀ X, X < 2 ^ 64 → X * u0 ≤ (2 ^ 64 - 1) * (2 ^ 64 - 1) := by
    intro X hX; exact Nat.mul_le_mul (by omega) (by omega)
  by_cases t1 : q * u0 > ur * 2 ^ 64 + v0
  · rw [if_pos t1]
    have hq1 : 1 ≤ q := by
      rcases Nat.eq_zero_or_pos q with h | h
      · rw [h] at t1; simp at t1
      · exact h
    obtain ⟨q', rfl⟩ : ∃ q', q = q' + 1 := ⟨q - 1, by omega⟩
    have hbq' := hb q' (by omega)
    by_cases hc : ur + u1 < 2 ^ 64
    · rw [if_pos hc]
      simp only [Nat.add_sub_cancel]
      by_cases t2 : q' * u0 > (ur + u1) * 2 ^ 64 + v0
      · rw [if_pos t2]
        have hq2 : 1 ≤ q' := by
          rcases Nat.eq_zero_or_pos q' with h | h
          · rw [h] at t2; simp at t2
          · exact h
        obtain ⟨q'', rfl⟩ : ∃ q'', q' = q'' + 1 := ⟨q' - 1, by omega⟩
        have hbq'' := hb q'' (by omega)
        rw [show q'' + 1 + 1 - 2 = q'' by omega]
        apply eq_div_of
        · nlinarith
        · nlinarith
      · rw [if_neg t2]
        apply eq_div_of
        · nlinarith
        · nlinarith
    · rw [if_neg hc]
      simp only [Nat.add_sub_cancel]
      apply eq_div_of
      · nlinarith
      · nlinarith
  · rw [if_neg t1]
    apply eq_div_of
    · nlinarith
    · nlinarith

theorem le_div_le_of {X U V : Nat} (h1 : X * U ≤ V) (h2 : V < (X + 2) * U) :
    X ≤ V / U ∧ V / U ≤ X + 1 := by
  have hU : 0 < U := by
    rcases Nat.eq_zero_or_pos U with h | h
    · rw [h] at h2; simp at h2
    · exact h
  constructor
  · rw [Nat.le_div_iff_mul_le hU]; exact h1
  · have : V / U < X + 2 := by rw [Nat.div_lt_iff_lt_mul hU]; exact h2
    omega

/-- the overflow case of the second digit as the Go code handles it: the partial remainder has the
same top word as the divisor, the code takes `q̂ = b - 1` and `r̂ = rem0` (Knuth: `rem0 + u1`) and
runs the same correction; the digit can come out one too small, never too large. -/
theorem special (u1 u0 v0 rem0 : Nat) (hu1 : 2 ^ 63 ≤ u1) (hu1' : u1 < 2 ^ 64) (hu0 : u0 < 2 ^ 64)
    (hv0 : v0 < 2 ^ 64) (hrem : rem0 < u0) :
    refine u1 u0 v0 (2 ^ 64 - 1) rem0 ≤ ((u1 * 2 ^ 64 + rem0) * 2 ^ 64 + v0) / (u1 * 2 ^ 64 + u0) ∧
    ((u1 * 2 ^ 64 + rem0) * 2 ^ 64 + v0) / (u1 * 2 ^ 64 + u0) ≤ refine u1 u0 v0 (2 ^ 64 - 1) rem0 + 1 := by
  unfold refine
  norm_num only
  by_cases t1 : 18446744073709551615 * u0 > rem0 * 18446744073709551616 + v0
  · rw [if_pos t1]
    by_cases hc : rem0 + u1 < 18446744073709551616
    · rw [if_pos hc]
      by_cases t2 : 18446744073709551614 * u0 > (rem0 + u1) * 18446744073709551616 + v0
      · rw [if_pos t2]
        apply le_div_le_of <;> nlinarith
      · rw [if_neg t2]
        apply le_div_le_of <;> nlinarith
    · rw [if_neg hc]
      apply le_div_le_of <;> nlinarith
  · rw [if_neg t1]
    apply le_div_le_of <;> nlinarith

/-- core inequality of `div_estimate3`, with the powers of two abstracted:
`p = 2^i`, `S = 2^(63-i)`. -/
theorem est3_core (n o p S v u2 U' qh q' q : Nat)
    (hpS : p * S = 2 ^ 63) (hn : n < 2 ^ 192)
    (hW1 : 2 ^ 191 ≤ o * p)
    (hU1 : U' * 2 ^ 64 ≤ o * p) (hU2 : o * p < (U' + 1) * 2 ^ 64)
    (hu1 : u2 * 2 ^ 64 ≤ U') (hu2 : U' < (u2 + 1) * 2 ^ 64) (hu3 : 2 ^ 63 ≤ u2)
    (hv1 : 2 * v ≤ n) (hv2 : n ≤ 2 * v + 1)
    (hq1 : q * o ≤ n) (hq2 : n < (q + 1) * o)
    (hqh1 : qh * (2 ^ 64 * u2) ≤ v) (hqh2 : v < (qh + 1) * (2 ^ 64 * u2))
    (hq' : q' = if qh * U' > v then qh - 1 else qh) :
    q * S ≤ q' ∧ q' < (q + 2) * S := by
  have hp : 0 < p := by
    rcases Nat.eq_zero_or_pos p with h | h
    · rw [h] at hpS; simp at hpS
    · exact h
  have hS : 0 < S := by
    rcases Nat.eq_zero_or_pos S with h | h
    · rw [h] at hpS; simp at hpS
    · exact h
  have hUpos : 0 < U' := by nlinarith
  -- D = 2 S U' ≤ o < D + 2S
  have hD1 : 2 * S * U' ≤ o := by
    apply Nat.le_of_mul_le_mul_right _ hp
    calc 2 * S * U' * p = U' * (2 * (p * S)) := by ring
      _ = U' * 2 ^ 64 := by rw [hpS]; norm_num
      _ ≤ o * p := hU1
  have hD2 : o < 2 * S * U' + 2 * S := by
    apply Nat.lt_of_mul_lt_mul_right (a := p)
    calc o * p < (U' + 1) * 2 ^ 64 := hU2
      _ = (U' + 1) * (2 * (p * S)) := by rw [hpS]; norm_num
      _ = (2 * S * U' + 2 * S) * p := by ring
  have hD3 : o < (u2 + 1) * 2 ^ 64 * (2 * S) := by
    apply Nat.lt_of_mul_lt_mul_right (a := p)
    calc o * p < (U' + 1) * 2 ^ 64 := hU2
      _ ≤ ((u2 + 1) * 2 ^ 64) * 2 ^ 64 := Nat.mul_le_mul_right _ (by omega)
      _ = ((u2 + 1) * 2 ^ 64) * (2 * (p * S)) := by rw [hpS]; norm_num
      _ = (u2 + 1) * 2 ^ 64 * (2 * S) * p := by ring
  -- q + 1 ≤ 2 p
  have hq2p : q + 1 ≤ 2 * p := by
    by_contra h
    have h1 : 2 * p ≤ q := by omega
    have : 2 * p * o ≤ q * o := Nat.mul_le_mul_right _ h1
    nlinarith
  have hqS : (q + 1) * S ≤ 2 ^ 64 := by
    calc (q + 1) * S ≤ 2 * p * S := Nat.mul_le_mul_right _ hq2p
      _ = 2 * (p * S) := by ring
      _ = 2 ^ 64 := by rw [hpS]; norm_num
  have hqSU : q * S * U' ≤ v := by
    have : 2 * (q * S * U') ≤ n := by
      calc 2 * (q * S * U') = q * (2 * S * U') := by ring
        _ ≤ q * o := Nat.mul_le_mul_left _ hD1
        _ ≤ n := hq1
    omega
  by_cases hf : qh * U' > v
  · rw [if_pos hf] at hq'
    have hqh : 1 ≤ qh := by
      rcases Nat.eq_zero_or_pos qh with h | h
      · rw [h] at hf; simp at hf
      · exact h
    obtain ⟨k, rfl⟩ : ∃ k, qh = k + 1 := ⟨qh - 1, by omega⟩
    simp only [Nat.add_sub_cancel] at hq'
    rw [hq']
    clear hq'
    constructor
    · -- q S U' ≤ v < (k+1) U'  →  q S < k + 1
      have : q * S * U' < (k + 1) * U' := lt_of_le_of_lt hqSU hf
      have := Nat.lt_of_mul_lt_mul_right this
      omega
    · -- (k+1) u2 < (q+1)(u2+1) S
      have h1 : 2 * ((k + 1) * (2 ^ 64 * u2)) < (q + 1) * ((u2 + 1) * 2 ^ 64 * (2 * S)) := by
        calc 2 * ((k + 1) * (2 ^ 64 * u2)) ≤ 2 * v := by omega
          _ ≤ n := hv1
          _ < (q + 1) * o := hq2
          _ ≤ (q + 1) * ((u2 + 1) * 2 ^ 64 * (2 * S)) := Nat.mul_le_mul_left _ hD3.le
      have h2 : (k + 1) * u2 < (q + 1) * (u2 + 1) * S := by
        have e1 : 2 * ((k + 1) * (2 ^ 64 * u2)) = ((k + 1) * u2) * (2 * 2 ^ 64) := by ring
        have e2 : (q + 1) * ((u2 + 1) * 2 ^ 64 * (2 * S)) = ((q + 1) * (u2 + 1) * S) * (2 * 2 ^ 64) := by ring
        rw [e1, e2] at h1
        exact Nat.lt_of_mul_lt_mul_right h1
      have h3 : (q + 1) * (u2 + 1) * S ≤ u2 * ((q + 2) * S + 1) := by
        have e : (q + 1) * (u2 + 1) * S = (q + 1) * S * u2 + (q + 1) * S := by ring
        have e' : u2 * ((q + 2) * S + 1) = (q + 1) * S * u2 + (u2 * S + u2) := by ring
        rw [e, e']
        have : u2 ≤ u2 * S := Nat.le_mul_of_pos_right _ hS
        omega
      have h4 : (k + 1) * u2 < ((q + 2) * S + 1) * u2 := by
        rw [Nat.mul_comm ((q + 2) * S + 1)]; exact lt_of_lt_of_le h2 h3
      have := Nat.lt_of_mul_lt_mul_right h4
      omega
  · rw [if_neg hf] at hq'
    subst hq'
    have hf' : q' * U' ≤ v := by omega
    constructor
    · by_contra h
      have h1 : q' + 1 ≤ q * S := by omega
      have : v < q * S * U' := by
        calc v < (q' + 1) * (2 ^ 64 * u2) := hqh2
          _ ≤ (q * S) * (2 ^ 64 * u2) := Nat.mul_le_mul_right _ h1
          _ ≤ (q * S) * U' := Nat.mul_le_mul_left _ (by rw [Nat.mul_comm]; exact hu1)
      omega
    · have hqU : q + 1 ≤ U' := by nlinarith
      have h1 : 2 * (q' * U') < (q + 2) * (2 * S * U') := by
        calc 2 * (q' * U') ≤ 2 * v := by omega
          _ ≤ n := hv1
          _ < (q + 1) * o := hq2
          _ ≤ (q + 1) * (2 * S * U' + 2 * S) := Nat.mul_le_mul_left _ hD2.le
          _ = (q + 1) * (2 * S * U') + (2 * S) * (q + 1) := by ring
          _ ≤ (q + 1) * (2 * S * U') + (2 * S) * U' := by
              have := Nat.mul_le_mul_left (2 * S) hqU; omega
          _ = (q + 2) * (2 * S * U') := by ring
      have e1 : 2 * (q' * U') = q' * (2 * U') := by ring
      have e2 : (q + 2) * (2 * S * U') = ((q + 2) * S) * (2 * U') := by ring
      rw [e1, e2] at h1
      exact Nat.lt_of_mul_lt_mul_right h1

theorem qh_bounds (v V' q r u2 : Nat) (hV : V' = v / 2 ^ 64) (hq : q * u2 + r = V') (hr : r < u2) :
    q * (2 ^ 64 * u2) ≤ v ∧ v < (q + 1) * (2 ^ 64 * u2) := by
  have h1 := Nat.div_mul_le_self v (2 ^ 64)
  have h2 := Nat.lt_mul_div_succ v (Nat.two_pow_pos 64)
  rw [← hV] at h1 h2
  subst hq
  constructor <;> nlinarith

theorem test_top (v V' v0 q r u2 u1 P : Nat) (hV : V' = v / 2 ^ 64) (hv0 : v0 = v % 2 ^ 64)
    (hq : q * u2 + r = V') (hP : P = q * u1) :
    (P > r * 2 ^ 64 + v0 ↔ q * (u2 * 2 ^ 64 + u1) > v) := by
  have := Nat.div_add_mod v (2 ^ 64)
  rw [← hV, ← hv0] at this
  subst hq hP
  constructor <;> intro h <;> nlinarith

end Knuth
