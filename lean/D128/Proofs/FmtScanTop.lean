/-
  D128/Proofs/FmtScanTop.lean — `Gen.Decimal.Scan` as a whole, on the window of the state it is given.

  * `FmtScan.panicCond`, `Scan_skipped`, `Scan_badverb` : the verb test and `SkipSpace`
  * `isSign`, `sgnOf`, `bodyOf`, `negOf`, `afterSign`, `scanSign_split`, `window_afterSign`,
    `afterSign_cases` : the optional sign
  * `parseNumber_nil`, `tailNum_nil`, `tokPred_val`, `byteOf_ne`, `restM_num`, `parse_sign_tok` :
    `parse` on `sign ++ token` is `parseNumber` on the token (the names cannot match)
  * `SignSplit`, `Scan_body`, `Scan_number`, `Scan_number_broken`, `Scan_eof`, `nameOutcome`,
    `scanName_outcome`, `Scan_name` : the outcomes (number, reader error after the token, end of input, names)
  (totality: `FmtScanTotal.lean`; round trip: `FmtScanTrip.lean`)
-/
import D128.Proofs.FmtScanMain
set_option autoImplicit false
set_option linter.unusedVariables false
set_option linter.unusedSimpArgs false

namespace FmtScan
open Go Gen

/-! ## verb test and `SkipSpace` -/

/-- when `SkipSpace` panics (see `SkipSpace_spec`) -/
abbrev panicCond (f : ScanState) : Prop :=
  afterSpace f = [] ∧ endErr (advance f (leadSpace f)) = .errorsNew ∨ (afterSpace f).head? = some 10

/-- the panic value -/
def skipPanic : Panic := ScanState.scanError "fmt: unexpected newline or read error in SkipSpace"

theorem Scan_badverb (g : Globals) (d : Decimal) (f : ScanState) (verb : Int32)
    (hv : okVerb verb = false) : Gen.Decimal.Scan g d f verb = .ok (d, f, Err.errorsNew) := by
  rw [Scan_eq, hv]; rfl

theorem Scan_skipped (g : Globals) (d : Decimal) (f : ScanState) (verb : Int32)
    (hv : okVerb verb = true) :
    Gen.Decimal.Scan g d f verb =
      if panicCond f then .error skipPanic else scanSign g d (skipped f) := by
  rw [Scan_eq, if_pos hv, SkipSpace_spec]
  unfold skipPanic
  by_cases h : panicCond f
  · rw [if_pos h, if_pos h]; rfl
  · rw [if_neg h, if_neg h]; rfl

/-! ## the sign -/

def isSign (r : Int32) : Bool := r == 45 || r == 43

/-- the sign rune, if the text starts with one -/
def sgnOf : List Int32 → List Int32
  | r :: _ => if isSign r then [r] else []
  | [] => []

/-- the text after the sign -/
def bodyOf : List Int32 → List Int32
  | r :: t => if isSign r then t else r :: t
  | [] => []

def negOf : List Int32 → Bool
  | r :: _ => r == 45
  | [] => false

theorem sgn_body (w : List Int32) : sgnOf w ++ bodyOf w = w := by
  cases w with
  | nil => rfl
  | cons r t =>
    show ((if isSign r = true then [r] else []) ++ if isSign r = true then t else r :: t) = r :: t
    split <;> rfl

/-- the state after the sign has been dealt with -/
def afterSign (s0 : ScanState) : ScanState :=
  match window s0 with
  | r :: _ => if isSign r then step s0 r else settle s0
  | [] => s0

theorem scanSign_split (g : Globals) (d : Decimal) (s0 : ScanState) :
    scanSign g d s0 =
      if window s0 = [] then pure (d, stop s0, eofErr (endErr s0))
      else scanBody g d (afterSign s0) (negOf (window s0)) := by
  rw [scanSign_spec]
  unfold afterSign negOf isSign
  cases hw : window s0 with
  | nil => rfl
  | cons r t =>
    simp only [reduceCtorEq, if_false]
    by_cases h45 : (r == 45) = true
    · simp [h45]
    · by_cases h43 : (r == 43) = true
      · have : r = 43 := by simpa using h43
        subst this
        simp
      · have h45' : (r == 45) = false := by simpa using h45
        have h43' : (r == 43) = false := by simpa using h43
        simp [h45', h43']
        intro h; rw [h] at h43'; cases h43' 

theorem window_afterSign (s0 : ScanState) : window (afterSign s0) = bodyOf (window s0) := by
  unfold afterSign bodyOf
  cases hw : window s0 with
  | nil => exact hw
  | cons r t =>
    simp only
    split
    · exact window_step hw
    · rw [window_settle]; exact hw

theorem afterSign_cases (s0 : ScanState) :
    afterSign s0 = advance s0 (sgnOf (window s0)) ∨
      afterSign s0 = settle (advance s0 (sgnOf (window s0))) := by
  unfold afterSign sgnOf
  cases hw : window s0 with
  | nil => exact Or.inl rfl
  | cons r t =>
    simp only
    split
    · exact Or.inl rfl
    · exact Or.inr rfl

/-- after the sign, up to the `canUnread` flag, the state is `advance s0 sign` -/
theorem afterSign_adv (s0 : ScanState) (l : List Int32) :
    stop (advance (afterSign s0) l) = stop (advance s0 (sgnOf (window s0) ++ l)) ∧
      settle (advance (afterSign s0) l) = settle (advance s0 (sgnOf (window s0) ++ l)) ∧
      endErr (advance (afterSign s0) l) = endErr (advance s0 (sgnOf (window s0) ++ l)) ∧
      (l ≠ [] → advance (afterSign s0) l = advance s0 (sgnOf (window s0) ++ l)) := by
  rw [advance_append]
  rcases afterSign_cases s0 with h | h
  · rw [h]; exact ⟨rfl, rfl, rfl, fun _ => rfl⟩
  · rw [h]
    obtain ⟨e1, e2, e3⟩ := advance_settle (advance s0 (sgnOf (window s0))) l
    refine ⟨e1, e2, e3, fun hl => ?_⟩
    cases l with
    | nil => exact absurd rfl hl
    | cons x l => rfl

/-! ## `parse` on `sign ++ token` -/

theorem parseNumber_nil (g : Globals) (neg : Bool) :
    Gen.parseNumber g #[] neg true = .ok ((default : Decimal), Err.parseNumberSyntaxError) := by
  rw [Parse.parseNumber_eq_model g #[] neg true (by decide)]
  rfl

theorem tailNum_nil (g : Globals) (neg : Bool) :
    Parse.tailNum g #[] neg = .ok ((default : Decimal), Err.parseSyntaxError) :=
  Parse.tailNum_of_ok g #[] neg _ _ (parseNumber_nil g neg)

/-- the code point of a token rune, as a number -/
theorem tokPred_val (r : Int32) (h : tokPred r = true) :
    (48 ≤ r.toInt ∧ r.toInt ≤ 57) ∨ r.toInt = 46 ∨ r.toInt = 69 ∨ r.toInt = 101 ∨ r.toInt = 45 ∨
      r.toInt = 95 ∨ r.toInt = 43 := by
  unfold tokPred at h
  simp only [Bool.or_eq_true, Bool.and_eq_true, decide_eq_true_eq, beq_iff_eq] at h
  rcases h with (((((h | h) | h) | h) | h) | h) | h
  · have h1 := Int32.le_iff_toInt_le.mp h.1
    have h2 := Int32.le_iff_toInt_le.mp h.2
    have e1 : (48 : Int32).toInt = 48 := by decide
    have e2 : (57 : Int32).toInt = 57 := by decide
    exact Or.inl (by omega)
  all_goals (subst h; decide)

theorem byteOf_toNat (r : Int32) (h0 : 0 ≤ r.toInt) (h1 : r.toInt < 256) :
    (byteOf r).toNat = r.toInt.toNat := by
  unfold byteOf
  rw [UInt8.toNat_ofNat']
  omega

theorem byteOf_ne (r : Int32) (h : tokPred r = true) (k : UInt8)
    (hk : ¬ ((48 ≤ k.toNat ∧ k.toNat ≤ 57) ∨ k.toNat = 46 ∨ k.toNat = 69 ∨ k.toNat = 101 ∨ k.toNat = 45 ∨
      k.toNat = 95 ∨ k.toNat = 43)) : byteOf r ≠ k := by
  intro e
  have hv := tokPred_val r h
  have hb := byteOf_toNat r (by omega) (by omega)
  rw [e] at hb
  omega

theorem restM_num (g : Globals) (op : UInt64) (b : UInt8) (l : List UInt8) (neg : Bool)
    (h1 : b ≠ 73) (h2 : b ≠ 105) (h3 : b ≠ 78) (h4 : b ≠ 110) :
    Parse.restM g op (b :: l) neg = Parse.tailNum g (b :: l).toArray neg := by
  have e1 : (b == 73) = false := by simpa using h1
  have e2 : (b == 105) = false := by simpa using h2
  have e3 : (b == 78) = false := by simpa using h3
  have e4 : (b == 110) = false := by simpa using h4
  unfold Parse.restM
  split
  · rename_i h; cases h
  · rename_i h; injection h with ha hb; subst ha; subst hb
    simp [Parse.isInf3, Parse.isNan3, e1, e2, e3, e4]
  · rename_i h; injection h with ha hb; subst ha; subst hb
    simp [Parse.isInf8, e1, e2]
  · rfl

theorem int32_eq_of_toInt {a b : Int32} (h : a.toInt = b.toInt) : a = b := Int32.toInt_inj.mp h

/-- **`parse` on `sign ++ token`** (token runes only, the sign maximal) is the number branch on the token:
the names cannot match, and an empty token is a syntax error either way -/
theorem parse_sign_tok (g : Globals) (op : UInt64) (sgn tok : List Int32)
    (hs : sgn = [] ∨ sgn = [43] ∨ sgn = [45]) (ht : ∀ x ∈ tok, tokPred x = true)
    (h0 : sgn = [] → tok.head? ≠ some 43 ∧ tok.head? ≠ some 45) (hsz : tok.length + 1 < 2 ^ 63) :
    Gen.parse g ((sgn ++ tok).map byteOf).toArray op =
      Parse.tailNum g (tok.map byteOf).toArray (sgn == [45]) := by
  rw [Parse.parse_eq _ _ _ (by
    rcases hs with h | h | h <;> subst h <;> simp <;> omega)]
  simp only [List.toList_toArray, List.map_append]
  have hbody : ∀ neg, Parse.restM g op (tok.map byteOf) neg = Parse.tailNum g (tok.map byteOf).toArray neg := by
    intro neg
    cases tok with
    | nil => rw [List.map_nil, tailNum_nil]; rfl
    | cons x tok =>
      have hx := ht x (by simp)
      exact restM_num g op _ _ neg (byteOf_ne x hx 73 (by decide)) (byteOf_ne x hx 105 (by decide))
        (byteOf_ne x hx 78 (by decide)) (byteOf_ne x hx 110 (by decide))
  rcases hs with h | h | h
  · subst h
    simp only [List.map_nil, List.nil_append]
    cases tok with
    | nil => rw [List.map_nil, tailNum_nil]; rfl
    | cons x tok =>
      have hx := ht x (by simp)
      have hv := tokPred_val x hx
      have hb := byteOf_toNat x (by omega) (by omega)
      obtain ⟨n43, n45⟩ := h0 rfl
      have x43 : x.toInt ≠ 43 := fun e => n43 (by
        rw [show x = 43 from int32_eq_of_toInt (by rw [e]; decide)]; rfl)
      have x45 : x.toInt ≠ 45 := fun e => n45 (by
        rw [show x = 45 from int32_eq_of_toInt (by rw [e]; decide)]; rfl)
      have b43 : (byteOf x == 43) = false := by
        rw [beq_eq_false_iff_ne]; intro e; rw [e] at hb
        have : (43 : UInt8).toNat = 43 := rfl
        omega
      have b45 : (byteOf x == 45) = false := by
        rw [beq_eq_false_iff_ne]; intro e; rw [e] at hb
        have : (45 : UInt8).toNat = 45 := rfl
        omega
      rw [List.map_cons]
      unfold Parse.parseM
      simp only [b43, b45, Bool.false_eq_true, if_false]
      rw [← List.map_cons, hbody]
      rfl
  · subst h
    show Parse.parseM g op (43 :: tok.map byteOf) = _
    unfold Parse.parseM
    simp only [beq_self_eq_true, if_true]
    rw [hbody]; rfl
  · subst h
    show Parse.parseM g op (45 :: tok.map byteOf) = _
    unfold Parse.parseM
    simp only [show ((45 : UInt8) == 43) = false from rfl, beq_self_eq_true, if_true,
      Bool.false_eq_true, if_false]
    rw [hbody]

/-! ## the outcomes -/

/-- the text after the leading space is `sgn ++ body`, the sign being `+`, `-` or absent (and then the
body does not start with a sign) -/
structure SignSplit (w sgn body : List Int32) : Prop where
  eq : w = sgn ++ body
  sign : sgn = [] ∨ sgn = [43] ∨ sgn = [45]
  max : sgn = [] → body.head? ≠ some 43 ∧ body.head? ≠ some 45

theorem SignSplit.parts {w sgn body : List Int32} (h : SignSplit w sgn body) :
    sgnOf w = sgn ∧ bodyOf w = body ∧ negOf w = (sgn == [45]) := by
  obtain ⟨he, hs, hm⟩ := h
  rcases hs with hs | hs | hs
  · subst hs
    simp only [List.nil_append] at he
    subst he
    obtain ⟨h43, h45⟩ := hm rfl
    cases w with
    | nil => exact ⟨rfl, rfl, rfl⟩
    | cons r t =>
      have n43 : r ≠ 43 := fun e => h43 (by rw [e]; rfl)
      have n45 : r ≠ 45 := fun e => h45 (by rw [e]; rfl)
      have e43 : (r == 43) = false := by simpa using n43
      have e45 : (r == 45) = false := by simpa using n45
      simp [sgnOf, bodyOf, negOf, isSign, e43, e45]
  · subst hs; subst he; exact ⟨rfl, rfl, rfl⟩
  · subst hs; subst he; exact ⟨rfl, rfl, rfl⟩

theorem stop_input (s : ScanState) : (stop s).input = s.input := by
  unfold stop; split
  · rfl
  · split <;> rfl

theorem skipped_input (f : ScanState) : (skipped f).input = f.input := by
  unfold skipped
  split
  · rw [stop_input, (advance_fields _ f).1]
  · exact (advance_fields _ f).1

theorem takeWhile_tok (tok rest : List Int32) (ht : ∀ x ∈ tok, tokPred x = true)
    (hr : ∀ x, rest.head? = some x → tokPred x = false) :
    (tok ++ rest).takeWhile tokPred = tok ∧ (tok ++ rest).dropWhile tokPred = rest := by
  have h1 : rest.takeWhile tokPred = [] ∧ rest.dropWhile tokPred = rest := by
    cases rest with
    | nil => exact ⟨rfl, rfl⟩
    | cons x rest =>
      have hx := hr x rfl
      exact ⟨List.takeWhile_cons_of_neg (by simp [hx]), List.dropWhile_cons_of_neg (by simp [hx])⟩
  constructor
  · rw [List.takeWhile_append_of_pos ht, h1.1, List.append_nil]
  · rw [List.dropWhile_append_of_pos ht, h1.2]

theorem mapErr_nil_iff (e : Err) (h : Parse.okErr e) : Parse.mapErr e = .nil ↔ e = .nil := by
  rcases h with h | h | h <;> subst h <;> simp [Parse.mapErr]

theorem okErrP_mapErr (e : Err) (h : Parse.okErr e) : Parse.okErrP (Parse.mapErr e) := by
  rcases h with h | h | h <;> subst h
  · exact Or.inl rfl
  · exact Or.inr (Or.inl rfl)
  · exact Or.inr (Or.inr rfl)

/-- after `SkipSpace` and the sign: the state, the window, the sign -/
theorem Scan_body (g : Globals) (d : Decimal) (f : ScanState) (verb : Int32)
    (hv : okVerb verb = true) (hnp : ¬ panicCond f) (sgn body : List Int32)
    (hsp : SignSplit (afterSpace f) sgn body) (hne : afterSpace f ≠ []) :
    Gen.Decimal.Scan g d f verb = scanBody g d (afterSign (skipped f)) (sgn == [45]) ∧
      window (afterSign (skipped f)) = body ∧ sgnOf (window (skipped f)) = sgn := by
  obtain ⟨p1, p2, p3⟩ := hsp.parts
  rw [Scan_skipped g d f verb hv, if_neg hnp, scanSign_split, window_afterSign, window_skipped,
    if_neg hne, p3, p2, p1]
  exact ⟨rfl, rfl, rfl⟩

/-- **A number.**  The text after the leading space is `sgn ++ tok ++ rest`: an optional sign, the maximal
run `tok` of token runes, not the beginning of a name; the read that ends the token is not a reader
error.  `Scan` consumes exactly `sgn ++ tok` and returns what `parse` returns on these bytes (the error
translated the same way), except that `*d` keeps its old value when there is an error. -/
theorem Scan_number (g : Globals) (d : Decimal) (f : ScanState) (verb : Int32) (op : UInt64)
    (hv : okVerb verb = true) (hnp : ¬ panicCond f) (hsz : f.input.size < 2 ^ 62)
    (sgn tok rest : List Int32) (hsp : SignSplit (afterSpace f) sgn (tok ++ rest))
    (ht : ∀ x ∈ tok, tokPred x = true) (hr : ∀ x, rest.head? = some x → tokPred x = false)
    (hne : tok ++ rest ≠ [])
    (hnm : tok = [] → ∀ x, rest.head? = some x → x ≠ 73 ∧ x ≠ 105 ∧ x ≠ 78 ∧ x ≠ 110)
    (hend : rest = [] → endErr (advance (skipped f) (sgn ++ tok)) = .ioEOF) :
    ∃ v e, Gen.parse g ((sgn ++ tok).map byteOf).toArray op = .ok (v, e) ∧ Parse.okErrP e ∧
      Gen.Decimal.Scan g d f verb =
        .ok (if e = .nil then v else d, tokEnd (skipped f) (sgn ++ tok) rest, e) := by
  have hne' : afterSpace f ≠ [] := by
    rw [hsp.eq]; intro h; exact hne (List.append_eq_nil_iff.mp h).2
  obtain ⟨hS, hW, hG⟩ := Scan_body g d f verb hv hnp sgn (tok ++ rest) hsp hne'
  obtain ⟨tw, dw⟩ := takeWhile_tok tok rest ht hr
  -- the first rune of the body
  obtain ⟨r, t, hrt⟩ : ∃ r t, tok ++ rest = r :: t := by
    cases hb : tok ++ rest with
    | nil => exact absurd hb hne
    | cons r t => exact ⟨r, t, rfl⟩
  have hnotname : (r == 73 || r == 105) = false ∧ (r == 78 || r == 110) = false := by
    have key : r ≠ 73 ∧ r ≠ 105 ∧ r ≠ 78 ∧ r ≠ 110 := by
      cases tok with
      | nil =>
        simp only [List.nil_append] at hrt
        exact hnm rfl r (by rw [hrt]; rfl)
      | cons x tok =>
        simp only [List.cons_append] at hrt
        injection hrt with hx _
        subst hx
        have hv := tokPred_val x (ht x (by simp))
        refine ⟨?_, ?_, ?_, ?_⟩ <;> intro e <;> rw [e] at hv <;> revert hv <;> decide
    obtain ⟨k1, k2, k3, k4⟩ := key
    simp [k1, k2, k3, k4]
  have hw1 : window (afterSign (skipped f)) = r :: t := by rw [hW, hrt]
  obtain ⟨a1, a2, a3, a4⟩ := afterSign_adv (skipped f) tok
  rw [hG] at a1 a2 a3 a4
  -- the token is short enough for `parseNumber`
  have hlen : tok.length ≤ f.input.size := by
    have h1 := window_length_le (afterSign (skipped f))
    rw [hW, List.length_append] at h1
    have h2 : (afterSign (skipped f)).input = f.input := by
      rcases afterSign_cases (skipped f) with h | h <;> rw [h]
      · rw [(advance_fields _ _).1, skipped_input]
      · show (advance _ _).input = _; rw [(advance_fields _ _).1, skipped_input]
    rw [h2] at h1; omega
  obtain ⟨v0, e0, hp, he0⟩ := Parse.parseNumber_total' g (tok.map byteOf).toArray (sgn == [45]) true
    (by simp only [List.size_toArray, List.length_map]; omega)
  have hparse : Gen.parse g ((sgn ++ tok).map byteOf).toArray op = .ok (v0, Parse.mapErr e0) := by
    rw [parse_sign_tok g op sgn tok hsp.sign ht (fun h => by
      have := hsp.max h
      cases tok with
      | nil => exact ⟨by simp, by simp⟩
      | cons x tok => simpa using this) (by omega)]
    exact Parse.tailNum_of_ok g _ _ _ _ hp
  refine ⟨v0, Parse.mapErr e0, hparse, okErrP_mapErr e0 he0, ?_⟩
  rw [hS, scanBody_spec, hw1]
  simp only [hnotname.1, hnotname.2, Bool.false_eq_true, if_false]
  rw [scanNum_spec g d hw1, hw1, ← hrt, tw, dw, a3]
  rw [if_neg (by
    rintro ⟨h1, h2⟩
    rw [hend h1] at h2; cases h2)]
  rw [hp]
  show Except.ok (if e0 = Err.nil then v0 else d, tokEnd (afterSign (skipped f)) tok rest, Parse.mapErr e0) = _
  have hte : tokEnd (afterSign (skipped f)) tok rest = tokEnd (skipped f) (sgn ++ tok) rest := by
    unfold tokEnd
    cases rest with
    | nil => exact a1
    | cons x rest => exact a2
  rw [hte]
  by_cases hn : e0 = .nil
  · rw [if_pos hn, if_pos ((mapErr_nil_iff e0 he0).mpr hn)]
  · rw [if_neg hn, if_neg (fun h => hn ((mapErr_nil_iff e0 he0).mp h))]

/-- the same, when the reader fails (with an error of its own) right after the token: that error is
returned, `*d` is unchanged -/
theorem Scan_number_broken (g : Globals) (d : Decimal) (f : ScanState) (verb : Int32)
    (hv : okVerb verb = true) (hnp : ¬ panicCond f)
    (sgn tok : List Int32) (hsp : SignSplit (afterSpace f) sgn tok)
    (ht : ∀ x ∈ tok, tokPred x = true) (hne : tok ≠ [])
    (hend : endErr (advance (skipped f) (sgn ++ tok)) = .errorsNew) :
    Gen.Decimal.Scan g d f verb = .ok (d, stop (advance (skipped f) (sgn ++ tok)), Err.errorsNew) := by
  have hne' : afterSpace f ≠ [] := by
    rw [hsp.eq]; intro h; exact hne (List.append_eq_nil_iff.mp h).2
  obtain ⟨hS, hW, hG⟩ := Scan_body g d f verb hv hnp sgn tok hsp hne'
  obtain ⟨tw, dw⟩ := takeWhile_tok tok [] ht (fun x h => by cases h)
  rw [List.append_nil] at tw dw
  obtain ⟨r, t, hrt⟩ : ∃ r t, tok = r :: t := by
    cases tok with
    | nil => exact absurd rfl hne
    | cons r t => exact ⟨r, t, rfl⟩
  have hnotname : (r == 73 || r == 105) = false ∧ (r == 78 || r == 110) = false := by
    have hv := tokPred_val r (ht r (by rw [hrt]; simp))
    have key : r ≠ 73 ∧ r ≠ 105 ∧ r ≠ 78 ∧ r ≠ 110 := by
      refine ⟨?_, ?_, ?_, ?_⟩ <;> intro e <;> rw [e] at hv <;> revert hv <;> decide
    obtain ⟨k1, k2, k3, k4⟩ := key
    simp [k1, k2, k3, k4]
  have hw1 : window (afterSign (skipped f)) = r :: t := by rw [hW, hrt]
  obtain ⟨a1, a2, a3, a4⟩ := afterSign_adv (skipped f) tok
  rw [hG] at a1 a2 a3 a4
  rw [hS, scanBody_spec, hw1]
  simp only [hnotname.1, hnotname.2, Bool.false_eq_true, if_false]
  rw [scanNum_spec g d hw1, hw1, ← hrt, tw, dw, a3, a1, if_pos ⟨rfl, hend⟩]
  rfl

/-- **End of input** before any rune, or right after the sign: `io.ErrUnexpectedEOF` (the reader's own error
if it has one), `*d` unchanged -/
theorem Scan_eof (g : Globals) (d : Decimal) (f : ScanState) (verb : Int32)
    (hv : okVerb verb = true) (hnp : ¬ panicCond f) (sgn : List Int32)
    (hsp : SignSplit (afterSpace f) sgn []) :
    Gen.Decimal.Scan g d f verb =
      .ok (d, stop (advance (skipped f) sgn), eofErr (endErr (advance (skipped f) sgn))) := by
  by_cases hne : afterSpace f = []
  · have hs : sgn = [] := by
      have := hsp.eq; rw [hne, List.append_nil] at this; exact this.symm
    subst hs
    rw [Scan_skipped g d f verb hv, if_neg hnp, scanSign_split, window_skipped, if_pos hne]
    rfl
  · obtain ⟨hS, hW, hG⟩ := Scan_body g d f verb hv hnp sgn [] hsp hne
    obtain ⟨a1, a2, a3, a4⟩ := afterSign_adv (skipped f) []
    rw [hG, List.append_nil, advance_nil] at a1 a3
    rw [hS, scanBody_spec, hW, a1, a3]
    rfl

/-- what `Scan` returns once the first letter `r` of a name has been read: two more runes `a`/`a'` and
`b`/`b'` give `v`; anything else is a syntax error (the runes read stay consumed), the end of the input
`io.ErrUnexpectedEOF` -/
def nameOutcome (d : Decimal) (s0 : ScanState) (pre : List Int32) (b2 : List Int32)
    (a a' b b' : Int32) (v : Decimal) : Decimal × ScanState × Err :=
  match b2 with
  | [] => (d, stop (advance s0 pre), eofErr (endErr (advance s0 pre)))
  | r2 :: b3 =>
    if (r2 != a && r2 != a') = true then (d, advance s0 (pre ++ [r2]), Err.parseSyntaxError)
    else match b3 with
      | [] => (d, stop (advance s0 (pre ++ [r2])), eofErr (endErr (advance s0 (pre ++ [r2]))))
      | r3 :: _ =>
        if (r3 != b && r3 != b') = true then (d, advance s0 (pre ++ [r2, r3]), Err.parseSyntaxError)
        else (v, advance s0 (pre ++ [r2, r3]), Err.nil)

theorem scanName_outcome (d : Decimal) (s0 : ScanState) (r : Int32) (b2 : List Int32)
    (hw : window (afterSign s0) = r :: b2) (a a' b b' : Int32) (v : Decimal) :
    scanName d (step (afterSign s0) r) a a' b b' v =
      .ok (nameOutcome d s0 (sgnOf (window s0) ++ [r]) b2 a a' b b' v) := by
  have h1 := (afterSign_adv s0 [r]).2.2.2 (by simp)
  have hw2 := window_step hw
  rw [scanName_spec, hw2]
  unfold nameOutcome
  rw [show advance (afterSign s0) [r] = step (afterSign s0) r from rfl] at h1
  cases b2 with
  | nil => simp only [h1]; rfl
  | cons r2 b3 =>
    have h2 := (afterSign_adv s0 [r, r2]).2.2.2 (by simp)
    rw [show advance (afterSign s0) [r, r2] = step (step (afterSign s0) r) r2 from rfl] at h2
    simp only [List.append_assoc, List.cons_append, List.nil_append]
    by_cases c2 : (r2 != a && r2 != a') = true
    · simp only [c2, if_true, h2]; rfl
    · simp only [c2, Bool.false_eq_true, if_false]
      cases b3 with
      | nil => simp only [h2]; rfl
      | cons r3 b4 =>
        have h3 := (afterSign_adv s0 [r, r2, r3]).2.2.2 (by simp)
        rw [show advance (afterSign s0) [r, r2, r3] = step (step (step (afterSign s0) r) r2) r3 from rfl] at h3
        simp only [h3]
        by_cases c3 : (r3 != b && r3 != b') = true
        · simp only [c3, if_true]; rfl
        · simp only [c3, Bool.false_eq_true, if_false]; rfl

/-- **A name.**  After the optional sign the text starts with `I`/`i` (then `N`/`n`, `F`/`f` must follow:
`inf sign`) or with `N`/`n` (then `A`/`a`, `N`/`n`: a NaN with payload `payloadOpScan`, whatever the
sign): exactly the three runes are read, one by one. -/
theorem Scan_name (g : Globals) (d : Decimal) (f : ScanState) (verb : Int32)
    (hv : okVerb verb = true) (hnp : ¬ panicCond f)
    (sgn : List Int32) (r : Int32) (b2 : List Int32) (hsp : SignSplit (afterSpace f) sgn (r :: b2))
    (hr : r = 73 ∨ r = 105 ∨ r = 78 ∨ r = 110) :
    Gen.Decimal.Scan g d f verb =
      .ok (if r = 73 ∨ r = 105 then
          nameOutcome d (skipped f) (sgn ++ [r]) b2 78 110 70 102 (inf (sgn == [45]))
        else nameOutcome d (skipped f) (sgn ++ [r]) b2 65 97 78 110 (nan 7 0 0)) := by
  have hne : afterSpace f ≠ [] := by rw [hsp.eq]; simp
  obtain ⟨hS, hW, hG⟩ := Scan_body g d f verb hv hnp sgn (r :: b2) hsp hne
  rw [hS, scanBody_spec, hW]
  simp only
  by_cases hi : r = 73 ∨ r = 105
  · have : (r == 73 || r == 105) = true := by rcases hi with h | h <;> subst h <;> rfl
    rw [if_pos this, if_pos hi, scanName_outcome d (skipped f) r b2 hW, hG]
  · have h1 : (r == 73 || r == 105) = false := by
      rcases hr with h | h | h | h <;> subst h <;> first | rfl | exact absurd (by simp) hi
    have h2 : (r == 78 || r == 110) = true := by
      rcases hr with h | h | h | h <;> subst h <;> first | rfl | exact absurd (by simp) hi
    rw [if_neg (by simp [h1]), if_pos h2, if_neg hi, scanName_outcome d (skipped f) r b2 hW, hG]

end FmtScan
