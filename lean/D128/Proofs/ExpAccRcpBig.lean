/-
  D128/Proofs/ExpAccRcpBig.lean — `decomposed192.rcp` on operands with a huge exponent
  (outside the `±16000` window of `D192.rcp_contract`), generalising `rcp_dinf`.

  * `i16_bmod_cases`      : `Int.bmod V 65536` for `-32885 ≤ V ≤ -16057` is `V` (if `-32768 ≤ V`) or `V + 65536`
  * `rcp_exp_toInt`       : for every `p` with `p.sig ≠ 0`: `rcp p t = .ok (r, t')` with
        `r.exp.toInt = (-57 - p.exp.toInt - b - c + tt).bmod 65536`, `b ≤ 2`, `c ≤ 59`, `tt ≤ 1`, `0 < r.sig`
        (the wrapping `int16` exponent arithmetic of `rcp`, all of it)
  * `rcp_bigexp_range`    : for `16000 < p.exp`: the result exponent is in `[-32768, -16057]` (no wrap, or
        two wraps cancelling) or in `[32651, 32767]` (one net wrap)
  * `rcp_bigexp`          : for `16000 < p.exp`: `rcp p t = .ok (r, t')`, `0 < r.sig`,
        `r.exp < -116 ∨ 6169 < r.exp`  (the deliverable; no exponent in `(16000, 32767]` is exceptional)
-/
import D128.Proofs.ExpAccHornerM1
set_option autoImplicit false
set_option maxRecDepth 8192
set_option exponentiation.threshold 512
set_option linter.unusedVariables false
open Std.Do D128.Proofs.WordsWide
namespace ExpAcc
open Gen D192

/-- `rcp` for an arbitrary exponent: it returns, the significand is positive, and the result exponent is
the exact integer `-57 - p.exp - b - c + tt` reduced into the `int16` range (`b ≤ 2` digits dropped from the
operand, `c ≤ 59` digits produced by the long division beyond `10^57`, `tt ≤ 1` final truncation). -/
theorem rcp_exp_toInt (p : Gen.decomposed192) (t : Int8) (hs : p.sig.toNat ≠ 0) :
    ∃ (r : Gen.decomposed192) (t' : Int8) (b c tt : Nat), Gen.decomposed192.rcp p t = .ok (r, t') ∧ 0 < r.sig.toNat ∧
      b ≤ 2 ∧ c ≤ 59 ∧ tt ≤ 1 ∧
      r.exp.toInt = (-57 - p.exp.toInt - (b : Int) - (c : Int) + (tt : Int)).bmod 65536 := by
  obtain ⟨⟨r, t'⟩, hr, o1, hfin, ⟨htr, hoL⟩, ho1⟩ := rcp_ok p t hs
  obtain ⟨b, hb, hos, hoexp, hot, hob⟩ := htr.bounds (U192.toNat_lt _)
  obtain ⟨c, tt, htt, hsig, he, -, -, -, h1⟩ := hfin
  have hOnpos : 0 < o1.1.sig.toNat := Nat.pos_of_ne_zero ho1
  have hZ : 0 < o1.1.sig.toNat * 10 ^ tt := Nat.mul_pos hOnpos (Nat.pow_pos (by norm_num))
  rw [Nat.div_div_eq_div_mul] at hsig
  have hc : c ≤ 59 := by
    by_contra hcc
    have h60 : 10 ^ 60 ≤ 10 ^ c := Nat.pow_le_pow_right (by norm_num) (by omega)
    have hsl := U192.toNat_lt r.sig
    rw [hsig, Nat.div_lt_iff_lt_mul hZ] at hsl
    have h10 : 10 ^ tt ≤ 10 := by
      calc 10 ^ tt ≤ 10 ^ 1 := Nat.pow_le_pow_right (by norm_num) htt
        _ = 10 := by norm_num
    have hOnlt := U192.toNat_lt o1.1.sig
    have hZ' : o1.1.sig.toNat * 10 ^ tt ≤ 2 ^ 192 * 10 := Nat.mul_le_mul hOnlt.le h10
    have h2 : 10 ^ 57 * 10 ^ 60 ≤ 10 ^ 57 * 10 ^ c := Nat.mul_le_mul_left _ h60
    have h3 : 2 ^ 192 * (o1.1.sig.toNat * 10 ^ tt) ≤ 2 ^ 192 * (2 ^ 192 * 10) :=
      Nat.mul_le_mul_left _ hZ'
    omega
  refine ⟨r, t', b, c, tt, hr, h1, hb, hc, htt, ?_⟩
  have hkb : (Int16.ofNat b).toInt = b := Int16.toInt_ofNat_of_lt (by omega)
  have hkc : (Int16.ofNat c).toInt = c := Int16.toInt_ofNat_of_lt (by omega)
  have hkt : (Int16.ofNat tt).toInt = tt := Int16.toInt_ofNat_of_lt (by omega)
  have h57 : (-57 : Int16).toInt = -57 := by decide
  have hE : r.exp.toInt = (-57 - (p.exp + Int16.ofNat b) - Int16.ofNat c + Int16.ofNat tt).toInt := by
    have := congrArg Int16.toInt he
    rw [this, hoexp]
  rw [hE, Int16.toInt_add, Int16.toInt_sub, Int16.toInt_sub, Int16.toInt_add, hkb, hkc, hkt, h57]
  have hp1 := Int16.le_toInt p.exp
  have hp2 := Int16.toInt_lt p.exp
  simp only [Int.bmod]
  norm_num
  omega

/-- for `-32885 ≤ V ≤ -16057` the `int16` reduction of `V` is `V` or `V + 65536` -/
theorem i16_bmod_cases (V : Int) (h1 : -32885 ≤ V) (h2 : V ≤ -16057) :
    (-32768 ≤ V ∧ V.bmod 65536 = V) ∨ (V < -32768 ∧ V.bmod 65536 = V + 65536) := by
  simp only [Int.bmod]
  norm_num
  omega

/-- `rcp` of an operand with exponent above `16000`: the result exponent is very negative (no net wrap) or
within 117 of the top of the `int16` range (one net wrap of the exponent arithmetic). -/
theorem rcp_bigexp_range (p : Gen.decomposed192) (t : Int8) (hs : p.sig.toNat ≠ 0)
    (he : 16000 < p.exp.toInt) :
    ∃ r t', Gen.decomposed192.rcp p t = .ok (r, t') ∧ 0 < r.sig.toNat ∧
      (r.exp.toInt ≤ -16057 ∨ 32651 ≤ r.exp.toInt) := by
  obtain ⟨r, t', b, c, tt, hr, h1, hb, hc, htt, hE⟩ := rcp_exp_toInt p t hs
  refine ⟨r, t', hr, h1, ?_⟩
  have hp2 := Int16.toInt_lt p.exp
  rcases i16_bmod_cases (-57 - p.exp.toInt - (b : Int) - (c : Int) + (tt : Int)) (by omega) (by omega)
    with ⟨h, e⟩ | ⟨h, e⟩
  · left; rw [hE, e]; omega
  · right; rw [hE, e]; omega

/-- the deliverable: `rcp` of an operand with exponent above `16000` succeeds, its significand is positive and
its exponent is outside `[-116, 6169]`. -/
theorem rcp_bigexp (p : Gen.decomposed192) (t : Int8) (hs : p.sig.toNat ≠ 0) (he : 16000 < p.exp.toInt) :
    ∃ r t', Gen.decomposed192.rcp p t = .ok (r, t') ∧ 0 < r.sig.toNat ∧
      (r.exp.toInt < -116 ∨ 6169 < r.exp.toInt) := by
  obtain ⟨r, t', hr, h1, h2⟩ := rcp_bigexp_range p t hs he
  exact ⟨r, t', hr, h1, by omega⟩

example := rcp_bigexp ⟨⟨1, 0, 0⟩, 20000⟩ 0 (by decide) (by decide)
example := rcp_bigexp Gen.dinf 0 (by decide) (by decide)

end ExpAcc
