/-
  D128/Proofs/CohortElemLog1pOne.lean — property C19 for `Log1p`, branch `|x| ≥ 10^-9`, first part: the operations
  `decomposed192.add1` / `add1neg` applied to the raw argument `⟨coefficient, exponent⟩` of a Decimal return a register
  whose VALUE is a function of the value of the argument, and which is below `10·LIM` (so `log` may follow).

  In that branch the argument `a = ⟨c, e⟩` has `0 < c < 10^35` and `e ≥ -42`.  `add1`:
    e ≤ 0        no digit is dropped (`e ≥ -57`), no overflow: the exact sum `⟨c + 10^-e, e⟩`
    0 < e ≤ 58   `a` is scaled up while `sig < LIM` and the exponent is positive.  No step overshoots `10·LIM`
                 (`add1_ub_triple`; the existing contract `D192.add1_up` only has the lower bound): if the exponent reaches 0
                 the result is the integer `x + 1` (and `x < 10·LIM`), otherwise it is the FULL representation of `x`
                 itself (the 1 is dropped; then `x ≥ 10·LIM`)
    58 < e       `a` is returned unchanged (`x ≥ 10^59`)
  hence   `val r = x + 1` if `x < 10·LIM`, `val r = x` otherwise  — `Add1V`.
  `add1neg` (negative arguments, `-1 < x`): `e ≤ 0`, no digit dropped: the exact difference `⟨10^-e − c, e⟩`.

  Provided (namespace `CohortElem`):
  * `add1_ub_triple`   : upper bounds for path D of `add1` (`0 < exp`, `sig < 10·LIM`)
  * `add1_up_full`     : path D with both bounds: result `Full` (exponent not reached 0) or `sig·10^j + 1`
  * `Add1V`, `add1_big`: the summary above, for `0 < sig < 10^35`, `-56 ≤ exp ≤ 16000`
  * `Add1V.congr`      : two arguments of one value: the results have one value
  * `add1neg_big`      : `0 < sig`, `-56 ≤ exp ≤ 0`, `val a < 1` ⇒ `(false, r, _)`, `val r = 1 − val a`, `r.exp = a.exp`,
                         `0 < r.sig < 10·LIM`
-/
import D128.Proofs.CohortElemBase
import D128.Proofs.D192OneAddContract
import D128.Proofs.D192OneNegContract
import D128.Proofs.LogAccOps
set_option autoImplicit false
set_option maxRecDepth 4096
set_option linter.unusedVariables false
set_option exponentiation.threshold 512
open Std.Do D128.Proofs.WordsWide
set_option mvcgen.warning false

namespace CohortElem
open Gen D192

theorem absurd_exp {e : Int16} (h1 : 0 < e) (h2 : e ≤ 0) : False := by
  rw [Int16.lt_iff_toInt_lt] at h1; rw [Int16.le_iff_toInt_le] at h2
  have : (0 : Int16).toInt = 0 := by decide
  omega

/-- path D of `add1` never overshoots `10·LIM` -/
theorem add1_ub_triple (d : decomposed192) (t : Int8) :
    ⦃⌜0 < d.exp ∧ 1 ≤ d.sig.toNat ∧ d.sig.toNat < 10 * LIM⌝⦄ Gen.decomposed192.add1 d t
    ⦃⇓ x => ⌜(x.1.exp ≠ 0 → x.1.sig.toNat < 10 * LIM) ∧ (x.1.exp = 0 → x.1.sig.toNat ≤ 10 * LIM)⌝⦄ := by
  mvcgen [Gen.decomposed192.add1]
  case inv1 | inv3 => exact fun st => ⟨st.2.1.sig.toNat⟩
  case inv2 | inv4 => exact ⇓ x => ⌜True⌝
  case inv5 | inv7 => exact fun st => ⟨upM st.exp⟩
  case inv6 => exact ⇓ x => match x with
    | .inl st => ⌜Up d.sig.toNat d.exp st.sig.toNat st.exp ∧ 1 ≤ st.sig.toNat ∧ st.sig.toNat < 10 * LIM⌝
    | .inr st => ⌜Up d.sig.toNat d.exp st.sig.toNat st.exp ∧ 1 ≤ st.sig.toNat ∧ st.sig.toNat < 10 * LIM⌝
  case inv8 => exact ⇓ x => match x with
    | .inl st => ⌜Up d.sig.toNat d.exp st.sig.toNat st.exp ∧ 1 ≤ st.sig.toNat ∧ st.sig.toNat < 10 * LIM⌝
    | .inr st => ⌜UpX d.sig.toNat d.exp st ∧ 1 ≤ st.sig.toNat ∧ st.sig.toNat < 10 * LIM⌝
  all_goals (simp +zetaDelta at *)
  all_goals try (exfalso; exact absurd_exp (by assumption : 0 < d.exp ∧ _ ∧ _).1 (by assumption : d.exp ≤ 0))
  case vc1 => simp [U192.toNat, LIM]
  case vc3 => rename_i h _ _ _; exact ⟨fun _ => h.2.2, fun _ => h.2.2.le⟩
  case vc24 =>
    rename_i hg hinv
    obtain ⟨h1, h2⟩ := Up.vc4 _ hg ⟨hinv.1, hinv.2.1⟩
    have h3 := vc_ub _ _ 10000 4 (by decide) (by norm_num) (lt4 _ hg.2) rfl hinv.2.2.1
    exact ⟨h1, h2, h3.2⟩
  case vc25 => rename_i hinv; exact hinv.2
  case vc26 => rename_i h _ _ _ hlo; exact ⟨Up.refl _ _ hlo, h.2⟩
  case vc27 =>
    rename_i hg hinv
    obtain ⟨h1, h2⟩ := Up.vc1 _ hg ⟨hinv.1, hinv.2.1⟩
    have h3 := vc_ub _ _ 10 1 (by decide) (by norm_num) (lt1 _ hg.2) rfl hinv.2.2.1
    exact ⟨h1, h2, h3.2⟩
  case vc28 => rename_i hg hinv; exact ⟨Up.exit _ hg hinv.2.1, hinv.2.2⟩
  case vc29 => rename_i h _ _ _ _; exact h
  case vc30 => rename_i hinv _ _ _ _ hne; exact ⟨fun _ => hinv.2.2, fun h => absurd h hne⟩
  case vc31 | vc32 =>
    rename_i hinv _ _ _ _ _ _ _ _ hlo he hw3 _
    exact (hw3 (up_no_overflow _ hlo hinv.1 he)).elim
  case vc33 =>
    rename_i hinv _ _ _ hlo he hw3
    refine ⟨fun h => absurd he h, fun _ => ?_⟩
    show (U192.mk _ _ _).toNat ≤ _
    have h1 : (U192.mk 1 0 0).toNat = 1 := by simp [U192.toNat]
    rw [U256.toNat_low3 _ hw3, U192_add_toNat, h1]
    have := hinv.2.2
    omega

theorem i16_eq_zero_iff (e : Int16) : e = 0 ↔ e.toInt = 0 := by
  constructor
  · intro h; rw [h]; rfl
  · intro h; exact Int16.toInt_inj.mp (by rw [h]; rfl)

/-- path D of `add1` (`0 < exp ≤ 58`) for an argument below `10·LIM`: the scaled argument is either the integer
`x = sig·10^exp < 10·LIM` (result `x + 1`) or the full-width representation of `x` (result `x`). -/
theorem add1_up_full (d : decomposed192) (t : Int8) (hs : 0 < d.sig.toNat) (hu : d.sig.toNat < 10 * LIM)
    (hlo : 0 < d.exp.toInt) (hhi : d.exp.toInt ≤ 58) :
    ∃ r t', ∃ j : Nat, Gen.decomposed192.add1 d t = .ok (r, t') ∧
      r.exp.toInt = d.exp.toInt - j ∧ 0 ≤ r.exp.toInt ∧
      (r.exp.toInt ≠ 0 → r.sig.toNat = d.sig.toNat * 10 ^ j ∧ LIM ≤ r.sig.toNat ∧ r.sig.toNat < 10 * LIM) ∧
      (r.exp.toInt = 0 → r.sig.toNat = d.sig.toNat * 10 ^ j + 1 ∧ d.sig.toNat * 10 ^ j < 10 * LIM) := by
  obtain ⟨r, t', j, hr, -, he, h0, hne, heq⟩ := add1_up d t hs hlo hhi
  have h' : ⦃⌜True⌝⦄ Gen.decomposed192.add1 d t
      ⦃⇓ x => ⌜(x.1.exp ≠ 0 → x.1.sig.toNat < 10 * LIM) ∧ (x.1.exp = 0 → x.1.sig.toNat ≤ 10 * LIM)⌝⦄ := by
    have := add1_ub_triple d t
    have hlo' : 0 < d.exp := by
      rw [Int16.lt_iff_toInt_lt]; exact hlo
    simpa [hlo', Nat.one_le_iff_ne_zero, Nat.pos_iff_ne_zero.mp hs, hu] using this
  obtain ⟨x, hx, hb1, hb2⟩ := ok_of_triple h'
  rw [hr] at hx
  cases hx
  refine ⟨r, t', j, hr, he, h0, ?_, ?_⟩
  · intro hn
    obtain ⟨h1, -, h3⟩ := hne hn
    refine ⟨h1, by unfold LIM; exact h3, hb1 (fun h => hn ((i16_eq_zero_iff _).mp h))⟩
  · intro hz
    obtain ⟨h1, -⟩ := heq hz
    have := hb2 ((i16_eq_zero_iff _).mpr hz)
    exact ⟨h1, by simp only at this; omega⟩

/-- what `add1` returns on the raw argument of a Decimal with `|x| ≥ 10^-42`: a register below `10·LIM` whose value is
`x + 1` (for `x < 10·LIM`) resp. `x` (the 1 is dropped) -/
def Add1V (a r : decomposed192) : Prop :=
  r.sig.toNat ≠ 0 ∧ r.sig.toNat < 10 * LIM ∧ -16000 ≤ r.exp.toInt ∧ r.exp.toInt ≤ 16000 ∧
    ((val a < ((10 * LIM : Nat) : ℚ) ∧ val r = val a + 1) ∨ (((10 * LIM : Nat) : ℚ) ≤ val a ∧ val r = val a))

theorem Add1V.congr {a a' r r' : decomposed192} (h : Add1V a r) (h' : Add1V a' r') (hv : val a = val a') :
    val r = val r' := by
  obtain ⟨-, -, -, -, h⟩ := h
  obtain ⟨-, -, -, -, h'⟩ := h'
  rw [← hv] at h'
  rcases h with ⟨h1, h2⟩ | ⟨h1, h2⟩ <;> rcases h' with ⟨h3, h4⟩ | ⟨h3, h4⟩
  · rw [h2, h4]
  · exact absurd h1 (not_lt.mpr h3)
  · exact absurd h3 (not_lt.mpr h1)
  · rw [h2, h4]

theorem pow_split (j : Nat) (hj : 1 ≤ j) : 10 ^ j = 10 * 10 ^ (j - 1) := by
  rw [← Nat.pow_succ']; congr 1; omega

/-- **`add1` on the raw argument of a Decimal** (`0 < sig < 10^35`, `-56 ≤ exp`) -/
theorem add1_big (a : decomposed192) (t : Int8) (hs : 0 < a.sig.toNat) (hc : a.sig.toNat < 10 ^ 35)
    (he0 : -56 ≤ a.exp.toInt) (he1 : a.exp.toInt ≤ 16000) :
    ∃ r t', Gen.decomposed192.add1 a t = .ok (r, t') ∧ Add1V a r := by
  have hL : (10 : Nat) ^ 35 < 10 * LIM := by unfold LIM; norm_num
  rcases le_or_gt a.exp.toInt 0 with hle | hgt
  · -- path C, nothing dropped
    obtain ⟨r, t', hr, h⟩ := add1_down a t hs (by omega) hle
    refine ⟨r, t', hr, ?_⟩
    have hpe := LogAcc.pow_neg_cancel a.exp.toInt hle
    have hpos : (0 : ℚ) < (10 : ℚ) ^ a.exp.toInt := zpow_pos (by norm_num) _
    rcases h with ⟨-, -, -, hlt⟩ | ⟨K, hK, hsig, hexp, -, hKK, -, -⟩
    · exfalso
      have h1 : (10 : ℚ) ^ (-56 : Int) ≤ (10 : ℚ) ^ a.exp.toInt := zpow_le_zpow_right₀ (by norm_num) he0
      have h2 : (1 : ℚ) ≤ (a.sig.toNat : ℚ) := by exact_mod_cast hs
      have h3 : (10 : ℚ) ^ (-57 : Int) < (10 : ℚ) ^ (-56 : Int) := zpow_lt_zpow_right₀ (by norm_num) (by norm_num)
      unfold val at hlt
      nlinarith
    · have hp56 : 10 ^ (-a.exp.toInt).toNat ≤ 10 ^ 56 := Nat.pow_le_pow_right (by norm_num) (by omega)
      have hpp : 0 < 10 ^ (-a.exp.toInt).toNat := by positivity
      have hK0 : K = 0 := by
        rcases hKK with h | h
        · exact h
        · exfalso
          have : (a.sig.toNat + 10 ^ (-a.exp.toInt).toNat) / 10 ^ K ≤ a.sig.toNat + 10 ^ (-a.exp.toInt).toNat :=
            Nat.div_le_self _ _
          have h2 : (10 : Nat) ^ 35 + 10 ^ 56 < 2 ^ 192 / 10 := by norm_num
          omega
      subst hK0
      simp only [pow_zero, Nat.div_one] at hsig
      have hexp' : r.exp.toInt = a.exp.toInt := by simpa using hexp
      have h2 : (10 : Nat) ^ 35 + 10 ^ 56 < 10 * LIM := by unfold LIM; norm_num
      refine ⟨by omega, by omega, by omega, by omega, Or.inl ⟨?_, ?_⟩⟩
      · unfold val
        have h1 : (10 : ℚ) ^ a.exp.toInt ≤ 1 := zpow_le_one_of_nonpos₀ (by norm_num) hle
        have h3 : (a.sig.toNat : ℚ) < ((10 * LIM : Nat) : ℚ) := by exact_mod_cast (by omega : a.sig.toNat < 10 * LIM)
        have h4 : (0 : ℚ) ≤ (a.sig.toNat : ℚ) := by positivity
        nlinarith
      · unfold val
        rw [hsig, hexp']
        push_cast
        rw [add_mul, mul_comm ((10 : ℚ) ^ (-a.exp.toInt).toNat), hpe]
  · rcases le_or_gt a.exp.toInt 58 with h58 | h58
    · -- path D
      obtain ⟨r, t', j, hr, hexp, h0, hne, heq⟩ := add1_up_full a t hs (by omega) hgt h58
      refine ⟨r, t', hr, ?_⟩
      have hval : ∀ s : Nat, s = a.sig.toNat * 10 ^ j →
          (s : ℚ) * (10 : ℚ) ^ r.exp.toInt = val a := by
        intro s hs'
        unfold val
        rw [hs', hexp, zpow_sub₀ (by norm_num), zpow_natCast]
        push_cast
        field_simp
      by_cases hz : r.exp.toInt = 0
      · obtain ⟨h1, h2⟩ := heq hz
        have hj : 1 ≤ j := by omega
        have hva : val a = ((a.sig.toNat * 10 ^ j : Nat) : ℚ) := by
          rw [← hval _ rfl, hz]; simp
        have hmod : (10 * LIM) % 10 = 0 := by unfold LIM; norm_num
        have hlt : r.sig.toNat < 10 * LIM := by
          rw [h1, pow_split j hj]
          rw [pow_split j hj] at h2
          have : a.sig.toNat * (10 * 10 ^ (j - 1)) = 10 * (a.sig.toNat * 10 ^ (j - 1)) := by ring
          rw [this] at h2 ⊢
          omega
        refine ⟨by omega, hlt, by omega, by omega, Or.inl ⟨?_, ?_⟩⟩
        · rw [hva]; exact_mod_cast h2
        · rw [hva]; unfold val; rw [hz, h1]; simp
      · obtain ⟨h1, h2, h3⟩ := hne hz
        have hvr : val r = val a := by
          unfold val at hval ⊢
          exact hval _ h1
        refine ⟨by unfold LIM at h2; omega, h3, by omega, by omega, Or.inr ⟨?_, hvr⟩⟩
        rw [← hvr]
        unfold val
        have h10 : (10 : ℚ) ^ (1 : Int) ≤ (10 : ℚ) ^ r.exp.toInt := zpow_le_zpow_right₀ (by norm_num) (by omega)
        have h10' : (10 : ℚ) ≤ (10 : ℚ) ^ r.exp.toInt := by simpa using h10
        have hl : ((LIM : Nat) : ℚ) ≤ (r.sig.toNat : ℚ) := by exact_mod_cast h2
        have hL0 : (0 : ℚ) ≤ ((LIM : Nat) : ℚ) := by positivity
        push_cast
        nlinarith
    · -- path B
      refine ⟨a, 1, add1_huge a t hs h58, by omega, by omega, by omega, he1, Or.inr ⟨?_, rfl⟩⟩
      unfold val
      have h10 : (10 : ℚ) ^ (59 : Int) ≤ (10 : ℚ) ^ a.exp.toInt := zpow_le_zpow_right₀ (by norm_num) (by omega)
      have h2 : (1 : ℚ) ≤ (a.sig.toNat : ℚ) := by exact_mod_cast hs
      have h3 : ((10 * LIM : Nat) : ℚ) ≤ (10 : ℚ) ^ (59 : Int) := by unfold LIM; norm_num
      have hp : (0 : ℚ) < (10 : ℚ) ^ a.exp.toInt := zpow_pos (by norm_num) _
      nlinarith

/-- **`add1neg` on the raw argument of a negative Decimal above −1** (`-56 ≤ exp ≤ 0`, `|x| < 1`): exact -/
theorem add1neg_big (a : decomposed192) (t : Int8) (hs : 0 < a.sig.toNat)
    (he0 : -56 ≤ a.exp.toInt) (he1 : a.exp.toInt ≤ 0) (hlt1 : val a < 1) :
    ∃ r t', Gen.decomposed192.add1neg a t = .ok (false, r, t') ∧ r.sig.toNat ≠ 0 ∧ r.sig.toNat < 10 * LIM ∧
      r.exp.toInt = a.exp.toInt ∧ val r = 1 - val a := by
  obtain ⟨ng, r, t', hr, h⟩ := add1neg_down a t hs (by omega) he1
  have hpe := LogAcc.pow_neg_cancel a.exp.toInt he1
  have hpos : (0 : ℚ) < (10 : ℚ) ^ a.exp.toInt := zpow_pos (by norm_num) _
  rcases h with ⟨-, -, -, -, hlt⟩ | ⟨k, hk1, hk2, hk3, hk4, hk5, hle, hgt⟩
  · exfalso
    have h1 : (10 : ℚ) ^ (-56 : Int) ≤ (10 : ℚ) ^ a.exp.toInt := zpow_le_zpow_right₀ (by norm_num) he0
    have h2 : (1 : ℚ) ≤ (a.sig.toNat : ℚ) := by exact_mod_cast hs
    have h3 : (10 : ℚ) ^ (-57 : Int) < (10 : ℚ) ^ (-56 : Int) := zpow_lt_zpow_right₀ (by norm_num) (by norm_num)
    unfold val at hlt
    nlinarith
  · have hk0 : k = 0 := by
      rcases hk4 with h | h
      · exact h
      · omega
    subst hk0
    simp only [pow_zero, Nat.div_one, Nat.mod_one, if_true] at hle hgt hk5
    have hexp : r.exp.toInt = a.exp.toInt := by simpa using hk1
    have hsl : a.sig.toNat < 10 ^ (-a.exp.toInt).toNat := by
      have : (a.sig.toNat : ℚ) < ((10 ^ (-a.exp.toInt).toNat : Nat) : ℚ) := by
        push_cast
        by_contra hc
        rw [not_lt] at hc
        have : (10 : ℚ) ^ (-a.exp.toInt).toNat * (10 : ℚ) ^ a.exp.toInt
            ≤ (a.sig.toNat : ℚ) * (10 : ℚ) ^ a.exp.toInt := mul_le_mul_of_nonneg_right hc hpos.le
        rw [mul_comm ((10 : ℚ) ^ (-a.exp.toInt).toNat), hpe] at this
        unfold val at hlt1; linarith
      exact_mod_cast this
    obtain ⟨hn, hsig, -⟩ := hle (by rw [hexp]; exact hsl.le)
    rw [hexp] at hsig
    subst hn
    have hp56 : 10 ^ (-a.exp.toInt).toNat ≤ 10 ^ 56 := Nat.pow_le_pow_right (by norm_num) (by omega)
    have hpp : 0 < 10 ^ (-a.exp.toInt).toNat := by positivity
    have h2 : (10 : Nat) ^ 56 < 10 * LIM := by unfold LIM; norm_num
    refine ⟨r, t', hr, by omega, by omega, hexp, ?_⟩
    unfold val
    rw [hsig, hexp, Nat.cast_sub hsl.le]
    push_cast
    rw [sub_mul, mul_comm ((10 : ℚ) ^ (-a.exp.toInt).toNat), hpe]

end CohortElem

namespace CohortElem
open Gen D192
/-- hypotheses satisfiable: `7·10^3 + 1`, `0.5 + 1`, `1 − 0.25` -/
example := add1_big ⟨⟨7, 0, 0⟩, 3⟩ 0 (by decide) (by decide) (by decide) (by decide)
example := add1_big ⟨⟨5, 0, 0⟩, -1⟩ 0 (by decide) (by decide) (by decide) (by decide)
example := add1neg_big ⟨⟨25, 0, 0⟩, -2⟩ 0 (by decide) (by decide) (by decide)
  (by unfold D192.val; simp [U192.toNat]; norm_num)
end CohortElem
