/-
  Soundness of the enclosure oracle, part 21: an `.ok` verdict of `judgePow` on a finite non-zero result means
  "within one unit in the last place plus the property's tolerance", with the width of the enclosure proved:

     |r − x^y| ≤ (1 + 2·10^-3)·10^(eT t) + (1 + 2·10^-14)·propTol·|x^y|

  (`propTol = |y|·(4·10^-37·|ln|x|| + 10^-55)`; hypothesis: the tolerance of the code is below 100 %).

  1. `powP_width`    : width of p = l·y  ≤ 2·(width l + (|l.lo|+|l.hi|)·ε)·|y|
     `lnx_ge`, `powP_width_le_extra` : … ≤ 2·10^-16·powExtra l |y|
  2. `powT_narrow`   : powT? p = some t, p within ±40000.1, width p ≤ 1/10 ⇒ Narrow t.m (10^-38 + 4·width p) 0
  3. `powExtra_le`   : powExtra l |y| ≤ (1 + 10^-40)·propTol
  4. `pow_ok_close`
-/
import D128.Proofs.EnclosurePow
import D128.Proofs.EnclosureOkClose
set_option autoImplicit false

namespace EnclPf
open Spec Spec.Encl SpecRound

/-! ## 1. the width of `p = l·y` -/

theorem powP_width (l : I) (yn : Bool) (yc : Nat) (ye : Int) (hl : l.lo ≤ l.hi) :
    (powP l yn yc ye).lo ≤ (powP l yn yc ye).hi ∧
    (powP l yn yc ye).hi - (powP l yn yc ye).lo ≤
      2 * ((l.hi - l.lo + (|l.lo| + |l.hi|) * eps) * mag yc ye) := by
  have hp : powP l yn yc ye = l.scale (Val.fin yn yc ye).toRat := rfl
  rw [hp]
  obtain ⟨s1, s2, s3, s4⟩ := scale_bounds l l.lo (Val.fin yn yc ye).toRat (le_refl _) hl
  have hmag : (0 : ℚ) ≤ mag yc ye := by
    unfold mag; exact mul_nonneg (by positivity) (pow10_pos ye).le
  have habs : |(Val.fin yn yc ye).toRat| = mag yc ye := by
    rw [toRat_fin]; split
    · rw [abs_neg, abs_of_nonneg hmag]
    · exact abs_of_nonneg hmag
  rw [habs] at s3 s4
  exact ⟨le_trans s1 s2, by linarith⟩

/-- `lnx` of `judgePow` dominates every magnitude in `l` -/
theorem lnx_ge (l : I) (hl : l.lo ≤ l.hi) :
    |l.lo| ≤ (if -l.lo > l.hi then -l.lo else l.hi) ∧ |l.hi| ≤ (if -l.lo > l.hi then -l.lo else l.hi) ∧
    |(l.lo + l.hi) / 2| ≤ (if -l.lo > l.hi then -l.lo else l.hi) := by
  split
  · rename_i h
    refine ⟨?_, ?_, ?_⟩ <;> rw [abs_le] <;> constructor <;> linarith
  · rename_i h
    have h' : -l.lo ≤ l.hi := not_lt.1 h
    refine ⟨?_, ?_, ?_⟩ <;> rw [abs_le] <;> constructor <;> linarith

theorem powP_width_le_extra {q : ℚ} {k : Int} {l : I} (hl : Encl.log q k = some l) (hle : l.lo ≤ l.hi)
    (yn : Bool) (yc : Nat) (ye : Int) :
    (powP l yn yc ye).hi - (powP l yn yc ye).lo ≤ 2 / 10 ^ 16 * powExtra l (mag yc ye) := by
  obtain ⟨-, hw⟩ := powP_width l yn yc ye hle
  obtain ⟨w0, w1⟩ := log_width_le hl
  obtain ⟨a1, a2, a3⟩ := lnx_ge l hle
  set lnx : ℚ := (if -l.lo > l.hi then -l.lo else l.hi) with hlnx
  have hlnx0 : 0 ≤ lnx := le_trans (abs_nonneg _) a1
  have hmag : (0 : ℚ) ≤ mag yc ye := by
    unfold mag; exact mul_nonneg (by positivity) (pow10_pos ye).le
  have e37 : pow10 (-37) = 1 / 10 ^ 37 := by rw [pow10_eq_zpow]; norm_num
  have e55 : pow10 (-55) = 1 / 10 ^ 55 := by rw [pow10_eq_zpow]; norm_num
  have hx : powExtra l (mag yc ye) = mag yc ye * (4 * (1 / 10 ^ 37) * lnx + 1 / 10 ^ 55) := by
    unfold powExtra; rw [e37, e55]
  rw [hx]
  have hcoef : l.hi - l.lo + (|l.lo| + |l.hi|) * eps ≤ 1 / 10 ^ 16 * (4 * (1 / 10 ^ 37) * lnx + 1 / 10 ^ 55) := by
    have h1 : (|l.lo| + |l.hi|) * eps ≤ 2 * lnx * eps :=
      mul_le_mul_of_nonneg_right (by linarith) eps_pos.le
    have h2 : 2 / 10 ^ 60 * |(l.lo + l.hi) / 2| ≤ 2 / 10 ^ 60 * lnx :=
      mul_le_mul_of_nonneg_left a3 (by norm_num)
    unfold eps at h1 ⊢
    nlinarith
  have := mul_le_mul_of_nonneg_right hcoef hmag
  nlinarith

/-! ## 2. the enclosure of the power is narrow -/

theorem powT_narrow {p : I} {t : Sci} {v : ℝ} (h : powT? p = some t) (hv : v ∈ᵢ p)
    (hp1 : ¬ p.lo > 40000) (hp2 : ¬ p.hi < -40000) (hw : p.hi - p.lo ≤ 1 / 10) :
    Narrow t.m (1 / 10 ^ 38 + 4 * (p.hi - p.lo)) 0 := by
  have hle := lo_le_hi_of_mem hv
  have hw0 : 0 ≤ p.hi - p.lo := by linarith
  unfold powT? at h
  split at h
  · obtain rfl := Option.some.inj h
    exact narrow_mono nearOne_narrow (by linarith [show (3 / 10 ^ 39 : ℚ) ≤ 1 / 10 ^ 38 by norm_num]) (le_refl _)
  · obtain ⟨p1, p2⟩ := expI_ratio h hv
    obtain ⟨hg, -⟩ := expI_some h
    have hwid := expR_width p hle hg
    have hmid : |(p.lo + p.hi) / 2| ≤ 40001 := by
      have a1 : p.lo ≤ 40000 := not_lt.1 hp1
      have a2 : -40000 ≤ p.hi := not_lt.1 hp2
      rw [abs_le]; constructor <;> linarith
    have hwr : (expR p).hi - (expR p).lo ≤ (p.hi - p.lo) + 1 / 10 ^ 69 := by
      have h1 : 2 / 10 ^ 74 * (|(p.lo + p.hi) / 2| + 1) ≤ 2 / 10 ^ 74 * (40001 + 1) :=
        mul_le_mul_of_nonneg_left (by linarith) (by norm_num)
      have e : (2 : ℚ) / 10 ^ 74 * (40001 + 1) + 16 * eps ≤ 1 / 10 ^ 69 := by unfold eps; norm_num
      linarith
    set w : ℝ := (((expR p).hi : ℚ) : ℝ) - (((expR p).lo : ℚ) : ℝ) with hwdef
    set wp : ℝ := ((p.hi : ℚ) : ℝ) - ((p.lo : ℚ) : ℝ) with hwpdef
    have hwp0 : 0 ≤ wp := by
      have : ((0 : ℚ) : ℝ) ≤ (((p.hi - p.lo : ℚ)) : ℝ) := by exact_mod_cast hw0
      push_cast at this; rw [hwpdef]; linarith
    have hwp1 : wp ≤ 1 / 10 := by
      have : (((p.hi - p.lo : ℚ)) : ℝ) ≤ (((1 / 10 : ℚ)) : ℝ) := by exact_mod_cast hw
      push_cast at this; rw [hwpdef]; linarith
    have hwr' : w ≤ wp + 1 / 10 ^ 69 := by
      have : ((((expR p).hi - (expR p).lo : ℚ)) : ℝ) ≤ ((((p.hi - p.lo) + 1 / 10 ^ 69 : ℚ)) : ℝ) := by
        exact_mod_cast hwr
      push_cast at this; rw [hwdef, hwpdef]; linarith
    have hw0' : 0 ≤ w := by
      have := lo_le_hi_of_mem (mem_expR hv)
      have h' : (((expR p).lo : ℚ) : ℝ) ≤ (((expR p).hi : ℚ) : ℝ) := by exact_mod_cast this
      rw [hwdef]; linarith
    have hexp := exp_le_one_add_two hw0' (by linarith [show (1 : ℝ) / 10 ^ 69 ≤ 1 / 10 by norm_num])
    have hfac : (1 + (eta : ℝ)) ^ 2 * Real.exp w ≤ 1 + (1 / 10 ^ 38 + 4 * wp) := by
      have h1 : (1 + (eta : ℝ)) ^ 2 ≤ 1 + 3 / 10 ^ 74 := by unfold eta; push_cast; norm_num
      have h2 : Real.exp w ≤ 1 + 2 * (wp + 1 / 10 ^ 69) := by linarith
      calc (1 + (eta : ℝ)) ^ 2 * Real.exp w ≤ (1 + 3 / 10 ^ 74) * (1 + 2 * (wp + 1 / 10 ^ 69)) :=
            mul_le_mul h1 h2 (Real.exp_pos w).le (by norm_num)
        _ ≤ 1 + (1 / 10 ^ 38 + 4 * wp) := by nlinarith
    have hlo' : (0 : ℝ) < (t.m.lo : ℝ) := by exact_mod_cast p1
    have hfin : (t.m.hi : ℝ) ≤ (t.m.lo : ℝ) * (1 + (1 / 10 ^ 38 + 4 * wp)) :=
      le_trans p2 (mul_le_mul_of_nonneg_left hfac hlo'.le)
    have hq : ((t.m.hi : ℚ) : ℝ) ≤ (((t.m.lo * (1 + (1 / 10 ^ 38 + 4 * (p.hi - p.lo))) + 0 : ℚ)) : ℝ) := by
      push_cast; rw [hwpdef] at hfin; linarith
    have hq' : t.m.hi ≤ t.m.lo * (1 + (1 / 10 ^ 38 + 4 * (p.hi - p.lo))) + 0 := by exact_mod_cast hq
    have hT := expI_sound h hv
    exact ⟨p1, sci_lo_le_hi hT, hq'⟩

/-! ## 3. the tolerance of the code is the property's tolerance up to 10^-40 -/

theorem powExtra_le {xn : Bool} {xc : Nat} {xe : Int} (yn : Bool) (yc : Nat) (ye : Int) {l : I}
    (hc0 : xc ≠ 0) (hl : Encl.log (xc : ℚ) xe = some l) :
    ((powExtra l (mag yc ye) : ℚ) : ℝ) ≤ (1 + 1 / 10 ^ 40) * propTol xn xc xe yn yc ye := by
  have hL := log_call_sound (n := xn) hc0 hl
  have hle := lo_le_hi_of_mem hL
  obtain ⟨w0, w1⟩ := log_width_le hl
  obtain ⟨a1, a2, a3⟩ := lnx_ge l hle
  set lnx : ℚ := (if -l.lo > l.hi then -l.lo else l.hi) with hlnx
  -- lnx ≤ |L| + width l
  have hlnxL : (lnx : ℝ) ≤ |Real.log (X xn xc xe)| + (((l.hi : ℚ) : ℝ) - ((l.lo : ℚ) : ℝ)) := by
    have hlo : ((l.lo : ℚ) : ℝ) ≤ Real.log (X xn xc xe) := hL.1
    have hhi : Real.log (X xn xc xe) ≤ ((l.hi : ℚ) : ℝ) := hL.2
    have h1 := neg_abs_le (Real.log (X xn xc xe))
    have h2 := le_abs_self (Real.log (X xn xc xe))
    rw [hlnx]; split
    · push_cast; linarith
    · linarith
  have hmidle : (|(l.lo + l.hi) / 2| : ℚ) ≤ lnx := a3
  have hwl : ((l.hi : ℚ) : ℝ) - ((l.lo : ℚ) : ℝ) ≤ 2 / 10 ^ 60 * (lnx : ℝ) + 2 / 10 ^ 72 := by
    have : l.hi - l.lo ≤ 2 / 10 ^ 60 * lnx + 2 / 10 ^ 72 := by
      have := mul_le_mul_of_nonneg_left hmidle (by norm_num : (0 : ℚ) ≤ 2 / 10 ^ 60)
      linarith
    have h' : ((l.hi - l.lo : ℚ) : ℝ) ≤ (((2 / 10 ^ 60 * lnx + 2 / 10 ^ 72 : ℚ)) : ℝ) := by exact_mod_cast this
    push_cast at h'; exact h'
  have hmag : (0 : ℝ) ≤ ((mag yc ye : ℚ) : ℝ) := by
    have : (0 : ℚ) ≤ mag yc ye := by unfold mag; exact mul_nonneg (by positivity) (pow10_pos ye).le
    exact_mod_cast this
  have hY : |X yn yc ye| = ((mag yc ye : ℚ) : ℝ) := by rw [abs_X, mag_cast]
  unfold powExtra propTol
  rw [hY, Rat.cast_mul, Rat.cast_add, Rat.cast_mul, Rat.cast_mul, pow10_cast, pow10_cast]
  push_cast
  have e37 : (10 : ℝ) ^ (-37 : Int) = 1 / 10 ^ 37 := by norm_num
  have e55 : (10 : ℝ) ^ (-55 : Int) = 1 / 10 ^ 55 := by norm_num
  rw [e37, e55]
  have hLabs := abs_nonneg (Real.log (X xn xc xe))
  -- 4e-37·lnx + 1e-55 ≤ (1+1e-40)(4e-37|L| + 1e-55), with lnx(1 − 2e-60) ≤ |L| + 2e-72
  have hlnx0 : (0 : ℝ) ≤ (lnx : ℝ) := by
    have : (0 : ℚ) ≤ lnx := le_trans (abs_nonneg _) a1
    exact_mod_cast this
  have hlnx' : (lnx : ℝ) ≤ (|Real.log (X xn xc xe)| + 2 / 10 ^ 72) * (1 + 1 / 10 ^ 50) := by nlinarith
  have key : 4 * (1 / 10 ^ 37) * (lnx : ℝ) + 1 / 10 ^ 55 ≤
      (1 + 1 / 10 ^ 40) * (4 * (1 / 10 ^ 37) * |Real.log (X xn xc xe)| + 1 / 10 ^ 55) := by nlinarith
  have := mul_le_mul_of_nonneg_left key hmag
  rw [hlnx] at this
  nlinarith

/-! ## 4. the `.ok` guarantee -/

theorem pow_ok_close (m : Mode) (xn : Bool) (xc : Nat) (xe : Int) (yn : Bool) (yc : Nat) (ye : Int) (l : I)
    (rn : Bool) (rc : Nat) (re : Int) (t : Sci)
    (hspec : powSpecial m (.fin xn xc xe) (.fin yn yc ye) = none)
    (hl : Encl.log (xc : ℚ) xe = some l) (hy1 : ¬ ye > 45) (hy2 : ¬ ye < -6300)
    (hp1 : ¬ (powP l yn yc ye).lo > 40000) (hp2 : ¬ (powP l yn yc ye).hi < -40000)
    (ht : powT? (powP l yn yc ye) = some t)
    (hx1 : powExtra l (mag yc ye) ≤ 1)
    (h : judgePow m (.fin xn xc xe) (.fin yn yc ye) (.fin rn (rc + 1) re) = .ok) :
    let P := (X xn xc xe) ^ (X yn yc ye)
    rn = powNeg xn yc ye ∧
    |X rn (rc + 1) re - P| ≤
      (1 + 2 / 10 ^ 3) * (10 : ℝ) ^ (eT t) + (1 + 2 / 10 ^ 14) * propTol xn xc xe yn yc ye * |P| := by
  intro P
  obtain ⟨hc0, hpar⟩ := powSpecial_none_facts m xn xc xe yn yc ye hspec
  set T := |X xn xc xe| ^ (X yn yc ye) with hTdef
  have hT : T ∈ₛ t := pow_true_encl xn xc xe yn yc ye l t hc0 hl ht
  have hTpos : 0 < T := Real.rpow_pos_of_pos (abs_pos.2 (X_ne_zero xn hc0 xe)) _
  have hsign : P = (if powNeg xn yc ye then -1 else 1) * T := rpow_sign xn xc xe yn yc ye hc0 hpar
  have hsign' : P = if powNeg xn yc ye then -T else T := by rw [hsign]; split <;> ring
  have hPabs : |P| = T := by rw [hsign]; cases powNeg xn yc ye <;> simp [abs_of_pos hTpos]
  obtain ⟨hxge, hx0⟩ := powExtra_ge (xn := xn) yn yc ye hc0 hl
  have hxle := powExtra_le (xn := xn) yn yc ye hc0 hl
  set xq := powExtra l (mag yc ye) with hxq
  have hv := powP_mem (xn := xn) yn yc ye hc0 hl
  have hlle := lo_le_hi_of_mem (log_call_sound (n := xn) hc0 hl)
  have hwp := powP_width_le_extra hl hlle yn yc ye
  rw [← hxq] at hwp
  have hwp0 : 0 ≤ (powP l yn yc ye).hi - (powP l yn yc ye).lo := by
    have := lo_le_hi_of_mem hv; linarith
  have hN := powT_narrow ht hv hp1 hp2 (by nlinarith)
  rw [judgePow_cases m xn xc xe yn yc ye _ l hspec hl hy1 hy2, if_neg hp1, if_neg hp2, ht] at h
  simp only [Val.isNaN, Bool.not_false, Bool.true_and, Val.neg] at h
  split at h
  · exact absurd h (by simp)
  rename_i hs
  have hsame : rn = powNeg xn yc ye := by simpa using hs
  refine ⟨hsame, ?_⟩
  have hw : withinUlps (.fin false (rc + 1) re) t xq = .ok := h
  have hlo := withinUlps_lo_pos (Or.inl hw)
  have hb := withinUlps_fin_ok (n := false) (Nat.succ_ne_zero rc) hlo hx0 hT hw
  have habs : |X rn (rc + 1) re - P| = |((rc + 1 : ℕ) : ℝ) * (10 : ℝ) ^ re - T| := by
    rw [hsign', X_signed, hsame]; exact abs_signed_sub _ _ _
  rw [habs, hPabs]
  -- width and upper end in terms of T
  obtain ⟨n1, n2, n3⟩ := hN
  set ρ : ℚ := 1 / 10 ^ 38 + 4 * ((powP l yn yc ye).hi - (powP l yn yc ye).lo) with hρ
  have hρle : ρ ≤ 1 / 10 ^ 38 + 8 / 10 ^ 16 * xq := by rw [hρ]; linarith
  have hρ0 : 0 ≤ ρ := by rw [hρ]; linarith
  have hk : (0 : ℝ) < (10 : ℝ) ^ t.k := zpow_pos (by norm_num) _
  have hge := sciMem_ge_lo hT
  have n3' : ((t.m.hi : ℚ) : ℝ) ≤ ((t.m.lo : ℚ) : ℝ) * (1 + (ρ : ℝ)) := by
    have : ((t.m.hi : ℚ) : ℝ) ≤ (((t.m.lo * (1 + ρ) + 0 : ℚ)) : ℝ) := by exact_mod_cast n3
    push_cast at this; linarith
  have hloT : (t.m.lo : ℝ) * (10 : ℝ) ^ t.k ≤ T := hge
  have hρr : (0 : ℝ) ≤ (ρ : ℝ) := by exact_mod_cast hρ0
  have hhiT : (t.m.hi : ℝ) * (10 : ℝ) ^ t.k ≤ (1 + (ρ : ℝ)) * T := by
    calc (t.m.hi : ℝ) * (10 : ℝ) ^ t.k ≤ ((t.m.lo : ℝ) * (1 + (ρ : ℝ))) * (10 : ℝ) ^ t.k :=
          mul_le_mul_of_nonneg_right n3' hk.le
      _ = (1 + (ρ : ℝ)) * ((t.m.lo : ℝ) * (10 : ℝ) ^ t.k) := by ring
      _ ≤ (1 + (ρ : ℝ)) * T := mul_le_mul_of_nonneg_left hloT (by linarith)
  have hwidT : ((t.m.hi : ℝ) - (t.m.lo : ℝ)) * (10 : ℝ) ^ t.k ≤ (ρ : ℝ) * T := by
    have : ((t.m.hi : ℝ) - (t.m.lo : ℝ)) * (10 : ℝ) ^ t.k ≤ (ρ : ℝ) * ((t.m.lo : ℝ) * (10 : ℝ) ^ t.k) := by
      have h1 : (t.m.hi : ℝ) - (t.m.lo : ℝ) ≤ (ρ : ℝ) * (t.m.lo : ℝ) := by linarith
      calc ((t.m.hi : ℝ) - (t.m.lo : ℝ)) * (10 : ℝ) ^ t.k ≤ ((ρ : ℝ) * (t.m.lo : ℝ)) * (10 : ℝ) ^ t.k :=
            mul_le_mul_of_nonneg_right h1 hk.le
        _ = (ρ : ℝ) * ((t.m.lo : ℝ) * (10 : ℝ) ^ t.k) := by ring
    exact le_trans this (mul_le_mul_of_nonneg_left hloT hρr)
  have hxr0 : (0 : ℝ) ≤ (xq : ℝ) := by exact_mod_cast hx0
  have hxr1 : (xq : ℝ) ≤ 1 := by exact_mod_cast hx1
  have hρr' : (ρ : ℝ) ≤ 1 / 10 ^ 38 + 8 / 10 ^ 16 * (xq : ℝ) := by
    have : ((ρ : ℚ) : ℝ) ≤ (((1 / 10 ^ 38 + 8 / 10 ^ 16 * xq : ℚ)) : ℝ) := by exact_mod_cast hρle
    push_cast at this; exact this
  have hxhi : (xq : ℝ) * (t.m.hi : ℝ) * (10 : ℝ) ^ t.k ≤ (xq : ℝ) * ((1 + (ρ : ℝ)) * T) := by
    rw [mul_assoc]; exact mul_le_mul_of_nonneg_left hhiT hxr0
  -- collect: |..| ≤ U + ρT + xq(1+ρ)T
  have hU := lt_unit hT hlo
  have hC := Cmax_succ_le
  set U : ℝ := (10 : ℝ) ^ (eT t) with hUdef
  have hUpos : 0 < U := zpow_pos (by norm_num) _
  have hTU : T ≤ 13 * (10 : ℝ) ^ 33 * U := by
    have : ((Cmax : ℝ) + 1) * U ≤ 13 * (10 : ℝ) ^ 33 * U := mul_le_mul_of_nonneg_right hC hUpos.le
    linarith
  set pt := propTol xn xc xe yn yc ye with hpt
  have hpt0 : 0 ≤ pt := propTol_nonneg xn xc xe yn yc ye
  -- (ρ + xq(1+ρ)) ≤ 2e-38·… : split into the part proportional to xq and the constant 1e-37
  have hcoef : (ρ : ℝ) + (xq : ℝ) * (1 + (ρ : ℝ)) ≤ 2 / 10 ^ 38 + (1 + 2 / 10 ^ 15) * (xq : ℝ) := by
    have h1 : (xq : ℝ) * (ρ : ℝ) ≤ (ρ : ℝ) := by nlinarith
    nlinarith
  have hxq_pt : (xq : ℝ) ≤ (1 + 1 / 10 ^ 40) * pt := hxle
  have hfin1 : (2 / 10 ^ 38 : ℝ) * T ≤ 2 / 10 ^ 3 * U := by nlinarith
  have hfin2 : (1 + 2 / 10 ^ 15) * (xq : ℝ) * T ≤ (1 + 2 / 10 ^ 14) * pt * T := by
    have : (1 + 2 / 10 ^ 15) * (xq : ℝ) ≤ (1 + 2 / 10 ^ 14) * pt := by nlinarith
    exact mul_le_mul_of_nonneg_right this hTpos.le
  have hsum : (ρ : ℝ) * T + (xq : ℝ) * ((1 + (ρ : ℝ)) * T) ≤
      (2 / 10 ^ 38 + (1 + 2 / 10 ^ 15) * (xq : ℝ)) * T := by
    have := mul_le_mul_of_nonneg_right hcoef hTpos.le
    linarith
  linarith

end EnclPf
