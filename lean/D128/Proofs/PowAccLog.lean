/-
  D128/Proofs/PowAccLog.lean — property C18 (accuracy of `Pow`): a finer error bound for `Gen.decomposed192.log`.

  * `F_le_of`        : `Mb ≤ M`, `F ≤ (1/(2M+1))·(1+23/10^57)`, `(1/(2Mb+1))·(1+23/10^57) ≤ Fb` give `F ≤ Fb`
  * `fine_pos`, `fine_neg` : `errLog ≤ 199/10^39·|ln X| + 45/10^57` for a positive / negative decimal exponent `e0`
  * `fine_zero`      : `e0 = 0`: `errLog ≤ 156/10^38·|ln X| + 45/10^57`, and `≤ 199/10^39·|ln X| + 45/10^57`
                       outside the band `1.092 < X < 1.1`
  * **`log_fine`**   : for every argument `|val x − |ln X|| ≤ 1.56·10^-36·|ln X| + 4.5·10^-56`, and outside the band
                       `≤ 1.99·10^-37·|ln X| + 4.5·10^-56`   (with `neg ↔ X < 1`, no panic, flag and exponent range)
-/
import D128.Proofs.PowAccLogBase
set_option autoImplicit false
set_option maxRecDepth 4096
set_option linter.unusedVariables false
namespace PowAcc
open Gen D192 LogAcc Root

/-- the bound of the quotient for `M ≥ Mb` -/
theorem F_le_of (M F Mb Fb : ℝ) (hMb0 : 0 < Mb) (hMb : Mb ≤ M)
    (hFM : F ≤ 1 / (2 * M + 1) * (1 + 23 / 10 ^ 57))
    (hb : 1 / (2 * Mb + 1) * (1 + 23 / 10 ^ 57) ≤ Fb) : F ≤ Fb := by
  have h1 : 1 / (2 * M + 1) ≤ 1 / (2 * Mb + 1) :=
    div_le_div_of_nonneg_left (by norm_num) (by linarith) (by linarith)
  have h2 : 1 / (2 * M + 1) * (1 + 23 / 10 ^ 57) ≤ 1 / (2 * Mb + 1) * (1 + 23 / 10 ^ 57) :=
    mul_le_mul_of_nonneg_right h1 (by norm_num)
  linarith

theorem fine_pos (e0 M : ℤ) (v S F X : ℝ)
    (hM0 : 10 ≤ M) (hM1 : M ≤ 99) (hMlo : (M : ℝ) ≤ 10 * v) (hMhi : 10 * v < (M : ℝ) + 1)
    (hF0 : 0 ≤ F) (hFM : F ≤ 1 / (2 * (M : ℝ) + 1) * (1 + 23 / 10 ^ 57)) (hFS : F ≤ S) (hS2F : S ≤ 2 * F)
    (hXv : X = v * (10 : ℝ) ^ e0) (hpos0 : 0 < e0) :
    errLog e0.natAbs (if M = 10 then 0 else 1) S F ≤ 199 / 10 ^ 39 * |Real.log X| + 45 / 10 ^ 57 := by
  obtain ⟨hl10a, hl10b⟩ := log10_bounds
  have hMr0 : (10 : ℝ) ≤ (M : ℝ) := by exact_mod_cast hM0
  have hMr1 : (M : ℝ) ≤ 99 := by exact_mod_cast hM1
  have hv1 : 1 ≤ v := by linarith
  have hvpos : 0 < v := by linarith
  have hLsplit : Real.log X = Real.log v + (e0 : ℝ) * Real.log 10 := by
    rw [hXv, Real.log_mul hvpos.ne' (zpow_ne_zero _ (by norm_num)), Real.log_zpow]
  have hlv0 : 0 ≤ Real.log v := Real.log_nonneg hv1
  have hF21 : F ≤ 4762 / 10 ^ 5 := F_le_of (M : ℝ) F 10 _ (by norm_num) hMr0 hFM (by norm_num)
  have ht := tail_abs F (4762 / 10 ^ 5) (16 / 10 ^ 38) hF0 hF21 (by norm_num) (by norm_num)
  have hK : ((e0.natAbs : ℕ) : ℝ) = |(e0 : ℝ)| := by rw [Nat.cast_natAbs]; push_cast; rfl
  have hm01 : (if M = 10 then (0 : ℝ) else 1) ≤ 1 := by split <;> norm_num
  unfold errLog
  have h1 : (1 : ℝ) ≤ (e0 : ℝ) := by
    have : 1 ≤ e0 := by omega
    exact_mod_cast this
  have hKe : ((e0.natAbs : ℕ) : ℝ) = (e0 : ℝ) := by
    rw [hK, abs_of_nonneg (by linarith)]
  have hm : (e0 : ℝ) * (23 / 10) ≤ (e0 : ℝ) * Real.log 10 := mul_le_mul_of_nonneg_left hl10a (by linarith)
  have hL0 : 0 ≤ Real.log X := by rw [hLsplit]; nlinarith
  rw [abs_of_nonneg hL0, hLsplit, hKe]
  linarith

theorem fine_neg (e0 M : ℤ) (v S F X : ℝ)
    (hM0 : 10 ≤ M) (hM1 : M ≤ 99) (hMlo : (M : ℝ) ≤ 10 * v) (hMhi : 10 * v < (M : ℝ) + 1)
    (hF0 : 0 ≤ F) (hFM : F ≤ 1 / (2 * (M : ℝ) + 1) * (1 + 23 / 10 ^ 57)) (hFS : F ≤ S) (hS2F : S ≤ 2 * F)
    (hXv : X = v * (10 : ℝ) ^ e0) (hneg0 : e0 < 0) :
    errLog e0.natAbs (if M = 10 then 0 else 1) S F ≤ 199 / 10 ^ 39 * |Real.log X| + 45 / 10 ^ 57 := by
  obtain ⟨hl10a, hl10b⟩ := log10_bounds
  have hMr0 : (10 : ℝ) ≤ (M : ℝ) := by exact_mod_cast hM0
  have hMr1 : (M : ℝ) ≤ 99 := by exact_mod_cast hM1
  have hv1 : 1 ≤ v := by linarith
  have hv10 : v < 10 := by linarith
  have hvpos : 0 < v := by linarith
  have hXpos : 0 < X := by rw [hXv]; exact mul_pos hvpos (zpow_pos (by norm_num) _)
  have hLsplit : Real.log X = Real.log v + (e0 : ℝ) * Real.log 10 := by
    rw [hXv, Real.log_mul hvpos.ne' (zpow_ne_zero _ (by norm_num)), Real.log_zpow]
  have hlv0 : 0 ≤ Real.log v := Real.log_nonneg hv1
  have hlv1 : Real.log v ≤ Real.log 10 := Real.log_le_log hvpos hv10.le
  have hF21 : F ≤ 4762 / 10 ^ 5 := F_le_of (M : ℝ) F 10 _ (by norm_num) hMr0 hFM (by norm_num)
  have ht := tail_abs F (4762 / 10 ^ 5) (16 / 10 ^ 38) hF0 hF21 (by norm_num) (by norm_num)
  have hK : ((e0.natAbs : ℕ) : ℝ) = |(e0 : ℝ)| := by rw [Nat.cast_natAbs]; push_cast; rfl
  have hm01 : (if M = 10 then (0 : ℝ) else 1) ≤ 1 := by split <;> norm_num
  unfold errLog
  have he0R : (e0 : ℝ) ≤ -1 := by
    have : e0 ≤ -1 := by omega
    exact_mod_cast this
  have hLneg : Real.log X < 0 := by
    have hlt : Real.log v < Real.log 10 := Real.log_lt_log hvpos hv10
    have hm : (e0 : ℝ) * Real.log 10 ≤ -1 * Real.log 10 := mul_le_mul_of_nonneg_right he0R (by linarith)
    rw [hLsplit]; linarith
  rw [abs_of_neg hLneg]
  have hKe : ((e0.natAbs : ℕ) : ℝ) = -(e0 : ℝ) := by
    rw [hK, abs_of_neg (by exact_mod_cast hneg0)]
  by_cases h2 : e0 ≤ -2
  · have h2' : (e0 : ℝ) ≤ -2 := by exact_mod_cast h2
    have hm : (e0 : ℝ) * Real.log 10 ≤ (e0 : ℝ) * (23 / 10) := by
      have := mul_le_mul_of_nonpos_left hl10a (by linarith : (e0 : ℝ) ≤ 0)
      linarith
    rw [hLsplit, hKe]
    linarith
  · have he1 : e0 = -1 := by omega
    have hKe1 : ((e0.natAbs : ℕ) : ℝ) = 1 := by rw [hKe, he1]; norm_num
    have hL1 : -Real.log X = Real.log (10 / v) := by
      rw [hLsplit, he1, Real.log_div (by norm_num) hvpos.ne']; push_cast; ring
    rw [hL1, hKe1]
    by_cases hM10 : M = 10
    · rw [if_pos hM10]
      have hv : v < 11 / 10 := by rw [hM10] at hMhi; push_cast at hMhi; linarith
      have hlb := log_ge (10 / v) (89 / 100) (by positivity) (by
        rw [one_div_div]; linarith)
      linarith
    · rw [if_neg hM10]
      have hM11 : (11 : ℝ) ≤ (M : ℝ) := by
        have : 11 ≤ M := by omega
        exact_mod_cast this
      have hF23 : F ≤ 4348 / 10 ^ 5 := F_le_of (M : ℝ) F 11 _ (by norm_num) hM11 hFM (by norm_num)
      by_cases hM99 : M = 99
      · -- the cancellation region: no relative part
        have hF198 : F ≤ 1 / 198 :=
          F_le_of (M : ℝ) F 99 _ (by norm_num) (by rw [hM99]; norm_num) hFM (by norm_num)
        have ht198 := tail198 F hF0 hF198
        have hlb : 0 ≤ Real.log (10 / v) := by
          apply Real.log_nonneg
          rw [le_div_iff₀ hvpos]; linarith
        have hpos : 0 ≤ 199 / 10 ^ 39 * Real.log (10 / v) := by positivity
        have h3 : (1 : ℝ) / 10 ^ 60 + (16 * 1 + 7 * 1 + 192 * (2 * (1 / 198))) / 10 ^ 57 ≤ 45 / 10 ^ 57 := by norm_num
        have h4 : (16 * 1 + 7 * 1 + 192 * S) / (10 : ℝ) ^ 57 ≤ (16 * 1 + 7 * 1 + 192 * (2 * (1 / 198))) / 10 ^ 57 := by
          apply div_le_div_of_nonneg_right _ (by positivity); linarith
        linarith
      · by_cases hM30 : M ≤ 30
        · have hM30' : (M : ℝ) ≤ 30 := by exact_mod_cast hM30
          have ht23 := tail_abs F (4348 / 10 ^ 5) (14 / 10 ^ 39) hF0 hF23 (by norm_num) (by norm_num)
          have hlb := log_ge (10 / v) (69 / 100) (by positivity) (by
            rw [one_div_div]; linarith)
          linarith
        · have hM31 : (31 : ℝ) ≤ (M : ℝ) := by
            have : 31 ≤ M := by omega
            exact_mod_cast this
          have hM98 : (M : ℝ) ≤ 98 := by
            have : M ≤ 98 := by omega
            exact_mod_cast this
          have hF62 : F ≤ 1 / 62 := F_le_of (M : ℝ) F 31 _ (by norm_num) hM31 hFM (by norm_num)
          have ht62 := tail_abs F (1 / 62) (1 / 10 ^ 49) hF0 hF62 (by norm_num) (by norm_num)
          have hlb := log_ge (10 / v) (1 / 100) (by positivity) (by
            rw [one_div_div]; linarith)
          linarith

theorem fine_zero (e0 M : ℤ) (v S F X : ℝ)
    (hM0 : 10 ≤ M) (hM1 : M ≤ 99) (hMlo : (M : ℝ) ≤ 10 * v) (hMhi : 10 * v < (M : ℝ) + 1)
    (hF0 : 0 ≤ F) (hFM : F ≤ 1 / (2 * (M : ℝ) + 1) * (1 + 23 / 10 ^ 57)) (hFS : F ≤ S) (hS2F : S ≤ 2 * F)
    (hFz : M = 10 → F ≤ (v - 1) / (v + 1) * (1 + 23 / 10 ^ 57))
    (hXv : X = v * (10 : ℝ) ^ e0) (hzero : e0 = 0) :
    errLog e0.natAbs (if M = 10 then 0 else 1) S F ≤ 156 / 10 ^ 38 * |Real.log X| + 45 / 10 ^ 57 ∧
    (¬ InBand X →
      errLog e0.natAbs (if M = 10 then 0 else 1) S F ≤ 199 / 10 ^ 39 * |Real.log X| + 45 / 10 ^ 57) := by
  have hMr0 : (10 : ℝ) ≤ (M : ℝ) := by exact_mod_cast hM0
  have hMr1 : (M : ℝ) ≤ 99 := by exact_mod_cast hM1
  have hv1 : 1 ≤ v := by linarith
  have hvpos : 0 < v := by linarith
  have hlv0 : 0 ≤ Real.log v := Real.log_nonneg hv1
  have hX1 : X = v := by rw [hXv, hzero]; simp
  have hKe : ((e0.natAbs : ℕ) : ℝ) = 0 := by rw [hzero]; simp
  unfold errLog
  rw [hX1, abs_of_nonneg hlv0, hKe]
  by_cases hM10 : M = 10
  · rw [if_pos hM10]
    have hv : v < 11 / 10 := by rw [hM10] at hMhi; push_cast at hMhi; linarith
    have hv1p : 0 < v + 1 := by linarith
    have hz21 : (v - 1) / (v + 1) ≤ 1 / 21 := by
      rw [div_le_div_iff₀ hv1p (by norm_num)]; linarith
    have hA := fine_rel v S F (1 / 21) (4762 / 10 ^ 5) (156 / 10 ^ 38) hv1 hF0 (hFz hM10) hz21
      (by norm_num) (by norm_num) hS2F kappa21
    refine ⟨by linarith, ?_⟩
    intro hband
    have hvle : v ≤ 1092 / 1000 := by
      by_contra hc
      exact hband ⟨not_le.mp hc, hv⟩
    have hzb : (v - 1) / (v + 1) ≤ 92 / 2092 := by
      rw [div_le_div_iff₀ hv1p (by norm_num)]; linarith
    have hB := fine_rel v S F (92 / 2092) (43978 / 10 ^ 6) (199 / 10 ^ 39) hv1 hF0 (hFz hM10) hzb
      (by norm_num) (by norm_num) hS2F kappaBand
    linarith
  · rw [if_neg hM10]
    have hM11 : (11 : ℝ) ≤ (M : ℝ) := by
      have : 11 ≤ M := by omega
      exact_mod_cast this
    have hv : 11 / 10 ≤ v := by linarith
    have hlb := log_ge v (9 / 100) hvpos (by
      rw [le_sub_iff_add_le, ← le_sub_iff_add_le', div_le_iff₀ hvpos]; linarith)
    have hF23 : F ≤ 4348 / 10 ^ 5 := F_le_of (M : ℝ) F 11 _ (by norm_num) hM11 hFM (by norm_num)
    have ht23 := tail_abs F (4348 / 10 ^ 5) (14 / 10 ^ 39) hF0 hF23 (by norm_num) (by norm_num)
    have hmain : 2 * tailR F + (16 * 0 + 7 * 1 + 192 * S) / 10 ^ 57 ≤ 199 / 10 ^ 39 * Real.log v + 45 / 10 ^ 57 := by
      linarith
    exact ⟨by linarith, fun _ => hmain⟩

/-- **The finer accuracy of the working value of `log`.** For every argument the error is at most
`1.56·10^-36·|ln X| + 4.5·10^-56`; outside the band `1.092 < X < 1.1` it is at most `1.99·10^-37·|ln X| + 4.5·10^-56`. -/
theorem log_fine (d : decomposed192) (hd : d.sig.toNat ≠ 0)
    (he : -16000 ≤ d.exp.toInt ∧ d.exp.toInt ≤ 16000) :
    ∃ (neg : Bool) (x : decomposed192) (t : Int8),
      Gen.decomposed192.log d = .ok (neg, x, t) ∧ flag3 t ∧ -5500 ≤ x.exp.toInt ∧ x.exp.toInt ≤ 5500 ∧
      (neg = true ↔ ((val d : ℚ) : ℝ) < 1) ∧
      |((val x : ℚ) : ℝ) - (|Real.log ((val d : ℚ) : ℝ)|)|
        ≤ 156 / 10 ^ 38 * |Real.log ((val d : ℚ) : ℝ)| + 45 / 10 ^ 57 ∧
      (¬ InBand ((val d : ℚ) : ℝ) →
        |((val x : ℚ) : ℝ) - (|Real.log ((val d : ℚ) : ℝ)|)|
          ≤ 199 / 10 ^ 39 * |Real.log ((val d : ℚ) : ℝ)| + 45 / 10 ^ 57) := by
  obtain ⟨neg, x, t, e0, M, v, S, F, hlog, ht, hxe0, hxe1, hXv, he0a, he0b, hM0, hM1, hMlo, hMhi,
    hF0, hFM, hFS, hS2F, hFz, hneg, herr⟩ := log_spec2 d hd he
  obtain ⟨neg', x', t', hlog', -, -, -, hs1, hs2, -, -⟩ := log_abs_close d hd he
  have hnn : neg' = neg := by
    rw [hlog] at hlog'
    injection hlog' with h
    injection h with h1 h2
    exact h1.symm
  rw [hnn] at hs1 hs2
  set X : ℝ := ((val d : ℚ) : ℝ) with hXdef
  have hL0 : 0 ≤ |Real.log X| := abs_nonneg _
  have hw : ∀ a : ℝ, a ≤ 199 / 10 ^ 39 * |Real.log X| + 45 / 10 ^ 57 →
      a ≤ 156 / 10 ^ 38 * |Real.log X| + 45 / 10 ^ 57 := by
    intro a h
    have : (199 : ℝ) / 10 ^ 39 * |Real.log X| ≤ 156 / 10 ^ 38 * |Real.log X| :=
      mul_le_mul_of_nonneg_right (by norm_num) hL0
    linarith
  have hmain : errLog e0.natAbs (if M = 10 then 0 else 1) S F ≤ 156 / 10 ^ 38 * |Real.log X| + 45 / 10 ^ 57 ∧
      (¬ InBand X →
        errLog e0.natAbs (if M = 10 then 0 else 1) S F ≤ 199 / 10 ^ 39 * |Real.log X| + 45 / 10 ^ 57) := by
    rcases lt_trichotomy e0 0 with hneg0 | hzero | hpos0
    · have := fine_neg e0 M v S F X hM0 hM1 hMlo hMhi hF0 hFM hFS hS2F hXv hneg0
      exact ⟨hw _ this, fun _ => this⟩
    · exact fine_zero e0 M v S F X hM0 hM1 hMlo hMhi hF0 hFM hFS hS2F hFz hXv hzero
    · have := fine_pos e0 M v S F X hM0 hM1 hMlo hMhi hF0 hFM hFS hS2F hXv hpos0
      exact ⟨hw _ this, fun _ => this⟩
  exact ⟨neg, x, t, hlog, ht, hxe0, hxe1, ⟨hs1, hs2⟩, le_trans herr hmain.1,
    fun hb => le_trans herr (hmain.2 hb)⟩

/-- the hypotheses are satisfiable: the argument `1.095` (inside the band) and `3·10^-12` -/
example := log_fine ⟨⟨1095, 0, 0⟩, -3⟩ (by decide) (by decide)
example := log_fine ⟨⟨3, 0, 0⟩, -12⟩ (by decide) (by decide)

end PowAcc
