/-
  D128/Proofs/PowAccLog.lean — property C18 (accuracy of `Pow`): a finer error bound for `Gen.decomposed192.log`
  (the artanh series to the 33rd power), assembled from `LogAcc.log_spec`.

  * `tail_rel`       : `0 ≤ F ≤ 1/20`, `F ≤ S` give `2·tailR F ≤ 35/10^47·S`
  * `fine_pos`, `fine_neg`, `fine_zero` : `errLog ≤ 2/10^46·|ln X| + 45/10^57` by the sign of the decimal exponent `e0`
                       (only `e0 = 0`, `M = 10`, i.e. `1 ≤ X < 1.1`, needs the relative part for more than the term `16·|e0|`:
                        there the truncation term is `≈ 1.7·10^-46·ln X` with the exported `F ≤ 1/20`)
  * **`log_fine`**   : for every argument `|val x − |ln X|| ≤ 2·10^-46·|ln X| + 4.5·10^-56`
                       (with `neg ↔ X < 1`, no panic, flag and exponent range)
-/
import D128.Proofs.PowAccDefs
import D128.Proofs.LogAccClose
set_option autoImplicit false
set_option maxRecDepth 4096
set_option linter.unusedVariables false
namespace PowAcc
open Gen D192 LogAcc Root

/-- the truncation term relative to the series value -/
theorem tail_rel (F S : ℝ) (h0 : 0 ≤ F) (h1 : F ≤ 1 / 20) (hFS : F ≤ S) : 2 * tailR F ≤ 35 / 10 ^ 47 * S := by
  have ht := tailR_le F h0 h1
  have hc : (1 / 20 : ℝ) ^ 34 * 2 / 34 ≤ 35 / 10 ^ 47 := by norm_num
  have hp : F ^ 34 ≤ (1 / 20) ^ 34 := pow_le_pow_left₀ h0 h1 34
  have e : 2 * (F ^ 35 / 34) = F ^ 34 * 2 / 34 * F := by ring
  have h2 : F ^ 34 * 2 / 34 * F ≤ 35 / 10 ^ 47 * S :=
    mul_le_mul (le_trans (by linarith) hc) hFS h0 (by norm_num)
  linarith

theorem fine_pos (e0 M : ℤ) (v S F X : ℝ)
    (hM0 : 10 ≤ M) (hM1 : M ≤ 99) (hMlo : (M : ℝ) ≤ 10 * v) (hMhi : 10 * v < (M : ℝ) + 1)
    (hF0 : 0 ≤ F) (hF2M : F ≤ 1 / (2 * (M : ℝ))) (hFS : F ≤ S) (hS2F : S ≤ 101 / 100 * F)
    (hXv : X = v * (10 : ℝ) ^ e0) (hpos0 : 0 < e0) :
    errLog e0.natAbs (if M = 10 then 0 else 1) S F ≤ 2 / 10 ^ 46 * |Real.log X| + 45 / 10 ^ 57 := by
  obtain ⟨hl10a, hl10b⟩ := log10_bounds
  have hMr0 : (10 : ℝ) ≤ (M : ℝ) := by exact_mod_cast hM0
  have hMr1 : (M : ℝ) ≤ 99 := by exact_mod_cast hM1
  have hv1 : 1 ≤ v := by linarith
  have hvpos : 0 < v := by linarith
  have hLsplit : Real.log X = Real.log v + (e0 : ℝ) * Real.log 10 := by
    rw [hXv, Real.log_mul hvpos.ne' (zpow_ne_zero _ (by norm_num)), Real.log_zpow]
  have hlv0 : 0 ≤ Real.log v := Real.log_nonneg hv1
  have hF20 : F ≤ 1 / 20 := by
    refine le_trans hF2M ?_
    rw [div_le_div_iff₀ (by linarith) (by norm_num)]; linarith
  have ht := tail20 F hF0 hF20
  have hK : ((e0.natAbs : ℕ) : ℝ) = |(e0 : ℝ)| := by rw [Nat.cast_natAbs]; push_cast; rfl
  have hm01 : (if M = 10 then (0 : ℝ) else 1) ≤ 1 := by split <;> norm_num
  unfold errLog
  have h1 : (1 : ℝ) ≤ (e0 : ℝ) := by
    have : 1 ≤ e0 := by omega
    exact_mod_cast this
  have hKe : ((e0.natAbs : ℕ) : ℝ) = (e0 : ℝ) := by
    rw [hK, abs_of_nonneg (by linarith)]
  have hm : (e0 : ℝ) * (23 / 10) ≤ (e0 : ℝ) * Real.log 10 := mul_le_mul_of_nonneg_left hl10a (by linarith)
  have hL0 : 0 ≤ Real.log X := by rw [hLsplit]; nlinarith
  rw [abs_of_nonneg hL0, hLsplit, hKe]
  linarith

theorem fine_neg (e0 M : ℤ) (v S F X : ℝ)
    (hM0 : 10 ≤ M) (hM1 : M ≤ 99) (hMlo : (M : ℝ) ≤ 10 * v) (hMhi : 10 * v < (M : ℝ) + 1)
    (hF0 : 0 ≤ F) (hF2M : F ≤ 1 / (2 * (M : ℝ))) (hFS : F ≤ S) (hS2F : S ≤ 101 / 100 * F)
    (hXv : X = v * (10 : ℝ) ^ e0) (hneg0 : e0 < 0) :
    errLog e0.natAbs (if M = 10 then 0 else 1) S F ≤ 2 / 10 ^ 46 * |Real.log X| + 45 / 10 ^ 57 := by
  obtain ⟨hl10a, hl10b⟩ := log10_bounds
  have hMr0 : (10 : ℝ) ≤ (M : ℝ) := by exact_mod_cast hM0
  have hMr1 : (M : ℝ) ≤ 99 := by exact_mod_cast hM1
  have hv1 : 1 ≤ v := by linarith
  have hv10 : v < 10 := by linarith
  have hvpos : 0 < v := by linarith
  have hXpos : 0 < X := by rw [hXv]; exact mul_pos hvpos (zpow_pos (by norm_num) _)
  have hLsplit : Real.log X = Real.log v + (e0 : ℝ) * Real.log 10 := by
    rw [hXv, Real.log_mul hvpos.ne' (zpow_ne_zero _ (by norm_num)), Real.log_zpow]
  have hlv0 : 0 ≤ Real.log v := Real.log_nonneg hv1
  have hlv1 : Real.log v ≤ Real.log 10 := Real.log_le_log hvpos hv10.le
  have hF20 : F ≤ 1 / 20 := by
    refine le_trans hF2M ?_
    rw [div_le_div_iff₀ (by linarith) (by norm_num)]; linarith
  have ht := tail20 F hF0 hF20
  have hK : ((e0.natAbs : ℕ) : ℝ) = |(e0 : ℝ)| := by rw [Nat.cast_natAbs]; push_cast; rfl
  have hm01 : (if M = 10 then (0 : ℝ) else 1) ≤ 1 := by split <;> norm_num
  unfold errLog
  have he0R : (e0 : ℝ) ≤ -1 := by
    have : e0 ≤ -1 := by omega
    exact_mod_cast this
  have hLneg : Real.log X < 0 := by
    have hlt : Real.log v < Real.log 10 := Real.log_lt_log hvpos hv10
    have hm : (e0 : ℝ) * Real.log 10 ≤ -1 * Real.log 10 := mul_le_mul_of_nonneg_right he0R (by linarith)
    rw [hLsplit]; linarith
  rw [abs_of_neg hLneg]
  have hKe : ((e0.natAbs : ℕ) : ℝ) = -(e0 : ℝ) := by
    rw [hK, abs_of_neg (by exact_mod_cast hneg0)]
  by_cases h2 : e0 ≤ -2
  · have h2' : (e0 : ℝ) ≤ -2 := by exact_mod_cast h2
    have hm : (e0 : ℝ) * Real.log 10 ≤ (e0 : ℝ) * (23 / 10) := by
      have := mul_le_mul_of_nonpos_left hl10a (by linarith : (e0 : ℝ) ≤ 0)
      linarith
    rw [hLsplit, hKe]
    linarith
  · have he1 : e0 = -1 := by omega
    have hKe1 : ((e0.natAbs : ℕ) : ℝ) = 1 := by rw [hKe, he1]; norm_num
    have hL1 : -Real.log X = Real.log (10 / v) := by
      rw [hLsplit, he1, Real.log_div (by norm_num) hvpos.ne']; push_cast; ring
    rw [hL1, hKe1]
    by_cases hM10 : M = 10
    · rw [if_pos hM10]
      have hv : v < 11 / 10 := by rw [hM10] at hMhi; push_cast at hMhi; linarith
      have hlb := log_ge (10 / v) (89 / 100) (by positivity) (by
        rw [one_div_div]; linarith)
      linarith
    · rw [if_neg hM10]
      have hM11 : (11 : ℝ) ≤ (M : ℝ) := by
        have : 11 ≤ M := by omega
        exact_mod_cast this
      have hF22 : F ≤ 1 / 22 := by
        refine le_trans hF2M ?_
        rw [div_le_div_iff₀ (by linarith) (by norm_num)]; linarith
      by_cases hM99 : M = 99
      · -- the cancellation region: no relative part
        have hF198 : F ≤ 1 / 198 := by
          refine le_trans hF2M ?_
          rw [hM99]; norm_num
        have ht198 := tail198 F hF0 hF198
        have hlb : 0 ≤ Real.log (10 / v) := by
          apply Real.log_nonneg
          rw [le_div_iff₀ hvpos]; linarith
        have hpos : 0 ≤ 2 / 10 ^ 46 * Real.log (10 / v) := by positivity
        linarith
      · have hM98 : (M : ℝ) ≤ 98 := by
          have : M ≤ 98 := by omega
          exact_mod_cast this
        have ht22 := tail22 F hF0 hF22
        have hlb := log_ge (10 / v) (1 / 100) (by positivity) (by
          rw [one_div_div]; linarith)
        linarith

theorem fine_zero (e0 M : ℤ) (v S F X : ℝ)
    (hM0 : 10 ≤ M) (hM1 : M ≤ 99) (hMlo : (M : ℝ) ≤ 10 * v) (hMhi : 10 * v < (M : ℝ) + 1)
    (hF0 : 0 ≤ F) (hF2M : F ≤ 1 / (2 * (M : ℝ))) (hFS : F ≤ S) (hS2F : S ≤ 101 / 100 * F)
    (hA : M = 10 → e0 = 0 → 199 / 100 * S ≤ Real.log X)
    (hXv : X = v * (10 : ℝ) ^ e0) (hzero : e0 = 0) :
    errLog e0.natAbs (if M = 10 then 0 else 1) S F ≤ 2 / 10 ^ 46 * |Real.log X| + 45 / 10 ^ 57 := by
  have hMr0 : (10 : ℝ) ≤ (M : ℝ) := by exact_mod_cast hM0
  have hMr1 : (M : ℝ) ≤ 99 := by exact_mod_cast hM1
  have hv1 : 1 ≤ v := by linarith
  have hvpos : 0 < v := by linarith
  have hlv0 : 0 ≤ Real.log v := Real.log_nonneg hv1
  have hX1 : X = v := by rw [hXv, hzero]; simp
  have hKe : ((e0.natAbs : ℕ) : ℝ) = 0 := by rw [hzero]; simp
  have hF20 : F ≤ 1 / 20 := by
    refine le_trans hF2M ?_
    rw [div_le_div_iff₀ (by linarith) (by norm_num)]; linarith
  have hS0 : 0 ≤ S := le_trans hF0 hFS
  unfold errLog
  by_cases hM10 : M = 10
  · have hlb := hA hM10 hzero
    rw [hX1] at hlb
    rw [hX1, abs_of_nonneg hlv0, hKe, if_pos hM10]
    have hts := tail_rel F S hF0 hF20 hFS
    have e : (16 * 0 + 7 * 0 + 231 * S) / (10 : ℝ) ^ 57 = 231 / 10 ^ 57 * S := by ring
    have h3 : (35 / 10 ^ 47 + 231 / 10 ^ 57) * S ≤ 2 / 10 ^ 46 * (199 / 100) * S :=
      mul_le_mul_of_nonneg_right (by norm_num) hS0
    have h4 : (2 : ℝ) / 10 ^ 46 * (199 / 100 * S) ≤ 2 / 10 ^ 46 * Real.log v :=
      mul_le_mul_of_nonneg_left hlb (by norm_num)
    rw [e]
    linarith
  · rw [hX1, abs_of_nonneg hlv0, hKe, if_neg hM10]
    have hM11 : (11 : ℝ) ≤ (M : ℝ) := by
      have : 11 ≤ M := by omega
      exact_mod_cast this
    have hv : 11 / 10 ≤ v := by linarith
    have hlb := log_ge v (9 / 100) hvpos (by
      rw [le_sub_iff_add_le, ← le_sub_iff_add_le', div_le_iff₀ hvpos]; linarith)
    have hF22 : F ≤ 1 / 22 := by
      refine le_trans hF2M ?_
      rw [div_le_div_iff₀ (by linarith) (by norm_num)]; linarith
    have ht22 := tail22 F hF0 hF22
    linarith

/-- **The finer accuracy of the working value of `log`.** For every argument the error is at most
`2·10^-46·|ln X| + 4.5·10^-56` (the relative part covers the truncation of the artanh series after the 33rd power, which is
`≈ 3·10^-47·ln X` for `X` just below `1.1`, and the roundings of `|e0|·ln 10`). -/
theorem log_fine (d : decomposed192) (hd : d.sig.toNat ≠ 0)
    (he : -16000 ≤ d.exp.toInt ∧ d.exp.toInt ≤ 16000) :
    ∃ (neg : Bool) (x : decomposed192) (t : Int8),
      Gen.decomposed192.log d = .ok (neg, x, t) ∧ flag3 t ∧ -5930 ≤ x.exp.toInt ∧ x.exp.toInt ≤ 5500 ∧
      (neg = true ↔ ((val d : ℚ) : ℝ) < 1) ∧
      |((val x : ℚ) : ℝ) - (|Real.log ((val d : ℚ) : ℝ)|)|
        ≤ 2 / 10 ^ 46 * |Real.log ((val d : ℚ) : ℝ)| + 45 / 10 ^ 57 := by
  obtain ⟨neg, x, t, e0, M, v, S, F, hlog, ht, hxe0, hxe1, hXv, he0a, he0b, hM0, hM1, hMlo, hMhi,
    hF0, hF2M, hFS, hS2F, -, hA, hneg, herr⟩ := log_spec d hd he
  obtain ⟨neg', x', t', hlog', -, -, -, hs1, hs2, -, -⟩ := log_abs_close d hd he
  have hnn : neg' = neg := by
    rw [hlog] at hlog'
    injection hlog' with h
    injection h with h1 h2
    exact h1.symm
  rw [hnn] at hs1 hs2
  set X : ℝ := ((val d : ℚ) : ℝ) with hXdef
  have hmain : errLog e0.natAbs (if M = 10 then 0 else 1) S F ≤ 2 / 10 ^ 46 * |Real.log X| + 45 / 10 ^ 57 := by
    rcases lt_trichotomy e0 0 with hneg0 | hzero | hpos0
    · exact fine_neg e0 M v S F X hM0 hM1 hMlo hMhi hF0 hF2M hFS hS2F hXv hneg0
    · exact fine_zero e0 M v S F X hM0 hM1 hMlo hMhi hF0 hF2M hFS hS2F hA hXv hzero
    · exact fine_pos e0 M v S F X hM0 hM1 hMlo hMhi hF0 hF2M hFS hS2F hXv hpos0
  exact ⟨neg, x, t, hlog, ht, hxe0, hxe1, ⟨hs1, hs2⟩, le_trans herr hmain⟩

/-- the hypotheses are satisfiable: the arguments `1.095` and `3·10^-12` -/
example := log_fine ⟨⟨1095, 0, 0⟩, -3⟩ (by decide) (by decide)
example := log_fine ⟨⟨3, 0, 0⟩, -12⟩ (by decide) (by decide)

end PowAcc
