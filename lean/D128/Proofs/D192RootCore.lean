/-
  D128/Proofs/D192RootCore.lean — what the cores of `Gen.Sqrt` / `Gen.Cbrt` compute, as far as it can be
  said without the contracts of `decomposed192.add` / `quo` (only `D192.mul_spec` and `U128_log10_spec` are
  used).  These facts discharge side hypotheses of the final-step theorems and fix the starting point of a
  convergence proof.

  Provided (namespace `Root`):
  * `i16_and_one`      : `(x &&& 1 == 0) = true ↔ x.toInt % 2 = 0` for `Int16`
  * `bind_ok`, `iter_inv` : inversion of `>>=` in `Go.GoM`; invariants of `Root.iter`
  * `cbrtStep_flag`, `cbrtCore_flag` : the flag returned by `cbrtCore` is 0 or 1
  * `sqrtCore_dExp`    : the `dExp` returned by `sqrtCore` is even and in [-6176, 6150]
  * `tdiv_two_of_even`, `tdiv3_bounds`, `i16_third`
  * `sqrtCore_spec`    : `sqrtCore d = sqrtSeed nrm mul add >>= iter (sqrtStep nrm) 8 >>= (·, dExp)` with
                         `c·10^e = val nrm · 10^dExp`, `dExp` even, and `val nrm ∈ [1,10)` with seed
                         `0.819·nrm + 0.259` resp. `val nrm ∈ [0.1,1)` with seed `2.59·nrm + 0.0819`;
                         `U128.log10` does not panic
  * `cbrtCore_spec`    : `cbrtCore d = iter (cbrtStep arg arg2) 7 (start, 0)` with `val arg = c·10^e`,
                         `val arg2 = 2·val arg`, `start = c·10^(e - (x - x/3))`, `x = e + ⌊log10 c⌋ (+1 if < 0)`

  OBSERVATION (not a defect of the results, recorded for the convergence analysis): the two linear seeds of
  `Sqrt` look exchanged between the parity classes.  Hull's approximation is `√f ≈ 0.259 + 0.819 f` on
  [0.1,1) and hence `√(10f) ≈ 0.819 + 0.259·(10f)` on [1,10); the code uses `0.259 + 0.819·x` on [1,10) and
  `0.0819 + 2.59·x` on [0.1,1), whose relative error reaches +167 % at the upper ends (8.45 for √10 = 3.16,
  2.67 for √1) instead of ≈ 4 %.  Heron's iteration still reaches 1e-88 relative error after the 8 steps
  (e₀ = 1.67 ↦ 0.52 ↦ 0.089 ↦ 3.6e-3 ↦ 6.6e-6 ↦ 2.2e-11 ↦ 2.3e-22 ↦ 2.7e-44 ↦ 3.7e-88), so all 8 steps
  are needed (7 would leave 2.7e-44 > 1e-57).
-/
import D128.Proofs.D192RootFinish
import D128.Proofs.D192Mul
import D128.Proofs.Words128Log
import D128.Proofs.WordsWideShift
set_option autoImplicit false
set_option maxRecDepth 4096
namespace Root
open Gen
local notation "𝔳[" d "]" => Spec.interp (Gen.Decimal.lo d) (Gen.Decimal.hi d)

theorem i16_and_one (x : Int16) : ((x &&& 1) == 0) = true ↔ x.toInt % 2 = 0 := by
  rw [beq_iff_eq, ← Int16.toBitVec_inj, Int16.toBitVec_and]
  have h1 : (1 : Int16).toBitVec = 1#16 := rfl
  have h0 : (0 : Int16).toBitVec = 0#16 := rfl
  rw [h1, h0, ← BitVec.toNat_inj, BitVec.toNat_and]
  have : (1#16).toNat = 1 := rfl
  rw [this, Nat.and_one_is_mod]
  have e : x.toInt = x.toBitVec.toInt := rfl
  rw [e, BitVec.toInt_eq_toNat_bmod]
  have hlt := x.toBitVec.isLt
  simp only [BitVec.toNat_ofNat, Nat.reducePow, Nat.zero_mod]
  rw [Int.bmod_def]
  split <;> omega

theorem bind_ok {α β : Type} {x : Go.GoM α} {f : α → Go.GoM β} {b : β} (h : x >>= f = .ok b) :
    ∃ a, x = .ok a ∧ f a = .ok b := by
  cases x with
  | error e => cases h
  | ok a => exact ⟨a, rfl, h⟩

/-- an invariant of the step function is an invariant of the iteration -/
theorem iter_inv {α : Type} (f : α → Go.GoM α) (I : α → Prop)
    (hstep : ∀ a b, I a → f a = .ok b → I b) :
    ∀ n a b, I a → iter f n a = .ok b → I b := by
  intro n
  induction n with
  | zero => intro a b ha h; cases h; exact ha
  | succ n ih =>
    intro a b ha h
    obtain ⟨a', h1, h2⟩ := bind_ok h
    exact ih a' b (hstep a a' ha h1) h2

/-! ## Cbrt: the flag that reaches the finish stage is 0 or 1 -/

theorem cbrtStep_flag (d192 d192x2 : decomposed192) (s s' : decomposed192 × Int8)
    (hs : s.2 = 0 ∨ s.2 = 1) (h : cbrtStep d192 d192x2 s = .ok s') : s'.2 = 0 ∨ s'.2 = 1 := by
  unfold cbrtStep at h
  obtain ⟨sq, -, h⟩ := bind_ok h
  obtain ⟨cub, -, h⟩ := bind_ok h
  obtain ⟨num, -, h⟩ := bind_ok h
  obtain ⟨den, -, h⟩ := bind_ok h
  obtain ⟨den', -, h⟩ := bind_ok h
  obtain ⟨frc, -, h⟩ := bind_ok h
  obtain ⟨x, hx, h⟩ := bind_ok h
  cases h
  obtain ⟨r, t', k, hr, -, -, -, ht, -⟩ := D192.mul_spec s.1 frc.1 s.2
  rw [hr] at hx
  cases hx
  show t' = 0 ∨ t' = 1
  rw [ht]
  split
  · exact hs
  · exact Or.inr rfl

/-- whatever `cbrtCore` returns carries a flag in {0, 1} (all flags except the one of the last
multiplication of each Halley step are discarded by the code; it starts at 0) -/
theorem cbrtCore_flag (d : Decimal) (res : decomposed192) (trunc : Int8)
    (h : cbrtCore d = .ok (res, trunc)) : trunc = 0 ∨ trunc = 1 := by
  unfold cbrtCore at h
  obtain ⟨t, -, h⟩ := bind_ok h
  exact iter_inv _ (fun s => s.2 = 0 ∨ s.2 = 1) (fun a b => cbrtStep_flag _ _ a b) 7 _ _
    (Or.inl rfl) h

/-! ## Sqrt: the exponent handed to the finish stage is even and in range -/

theorem sqrtCore_dExp (d : Decimal) (hsp : Decimal.isSpecial d = false) (res : decomposed192)
    (trunc : Int8) (dExp : Int16) (h : sqrtCore d = .ok (res, trunc, dExp)) :
    dExp.toInt % 2 = 0 ∧ -6176 ≤ dExp.toInt ∧ dExp.toInt ≤ 6150 := by
  unfold sqrtCore at h
  obtain ⟨t, ht, h⟩ := bind_ok h
  obtain ⟨k, hk, hlog, hki, -, -⟩ := U128_log10_spec d.decompose.1
  rw [hlog] at ht
  cases ht
  have hc : ((Go.conv (Int64.ofNat k) : Int16)).toInt = k := by
    show (Int16.ofInt (Int64.ofNat k).toInt).toInt = k
    rw [hki, Int16.toInt_ofInt]
    have : (Int16.size : Int) = 65536 := rfl
    apply Int.bmod_eq_of_le <;> omega
  have hd0 := Enc.decompose_exp_nonneg d
  have hd1 := Enc.decompose_exp_le d hsp
  have h6 : (6176 : Int16).toInt = 6176 := by decide
  have h1' : (1 : Int16).toInt = 1 := by decide
  have e1 : (d.decompose.2 - 6176).toInt = d.decompose.2.toInt - 6176 := by
    rw [Int16.toInt_sub_of] <;> rw [h6] <;> omega
  have e2 : (d.decompose.2 - 6176 + Go.conv (Int64.ofNat k)).toInt = d.decompose.2.toInt - 6176 + k := by
    rw [Int16.toInt_add_of] <;> rw [e1, hc] <;> omega
  split at h
  · rename_i hev
    obtain ⟨s0, -, h⟩ := bind_ok h
    obtain ⟨s1, -, h⟩ := bind_ok h
    cases h
    rw [i16_and_one] at hev
    exact ⟨hev, by omega, by omega⟩
  · rename_i hodd
    obtain ⟨s0, -, h⟩ := bind_ok h
    obtain ⟨s1, -, h⟩ := bind_ok h
    cases h
    rw [i16_and_one] at hodd
    have e3 : (d.decompose.2 - 6176 + Go.conv (Int64.ofNat k) + 1).toInt
        = d.decompose.2.toInt - 6176 + k + 1 := by
      rw [Int16.toInt_add_of] <;> rw [e2, h1'] <;> omega
    rw [e3]
    rw [e2] at hodd
    exact ⟨by omega, by omega, by omega⟩

theorem tdiv_two_of_even (x : Int) (h : x % 2 = 0) : x.tdiv 2 = x / 2 ∧ 2 * (x / 2) = x := by
  have hb := tdiv2_bounds x
  constructor <;> omega

/-- **What `sqrtCore` computes.**  For a finite non-zero `d = c·10^e` with `k = ⌊log10 c⌋`:
the argument is scaled to `nrm = c·10^(-k)` ∈ [1,10) when `e + k` is even and to `c·10^(-k-1)` ∈ [0.1,1) when
it is odd, so that `c·10^e = nrm·10^dExp` with `dExp` EVEN; the core is the linear seed `nrm·mul + add`
followed by 8 Heron steps for `√nrm`; `dExp/2` is added to the exponent in the finish stage. -/
theorem sqrtCore_spec (d : Decimal) (hsp : Decimal.isSpecial d = false)
    (hz : Decimal.IsZero d = false) :
    ∃ (nrm mul add : decomposed192) (dExp : Int16),
      sqrtCore d = (do
        let s ← sqrtSeed nrm mul add
        let s ← iter (sqrtStep nrm) 8 s
        pure (s.1, s.2, dExp)) ∧
      dExp.toInt % 2 = 0 ∧ -6176 ≤ dExp.toInt ∧ dExp.toInt ≤ 6150 ∧
      -39 ≤ nrm.exp.toInt ∧ nrm.exp.toInt ≤ 0 ∧
      nrm.sig.toNat = d.decompose.1.toNat ∧
      D192.val nrm * (10 : ℚ) ^ dExp.toInt
        = (d.decompose.1.toNat : ℚ) * (10 : ℚ) ^ (d.decompose.2.toInt - 6176) ∧
      ((1 ≤ D192.val nrm ∧ D192.val nrm < 10 ∧
          mul = { sig := { w0 := 819, w1 := 0, w2 := 0 }, exp := -3 } ∧
          add = { sig := { w0 := 259, w1 := 0, w2 := 0 }, exp := -3 }) ∨
       (1 / 10 ≤ D192.val nrm ∧ D192.val nrm < 1 ∧
          mul = { sig := { w0 := 259, w1 := 0, w2 := 0 }, exp := -2 } ∧
          add = { sig := { w0 := 819, w1 := 0, w2 := 0 }, exp := -4 })) := by
  obtain ⟨k, hk, hlog, hki, -, hkc⟩ := U128_log10_spec d.decompose.1
  have hc : ((Go.conv (Int64.ofNat k) : Int16)).toInt = k := by
    show (Int16.ofInt (Int64.ofNat k).toInt).toInt = k
    rw [hki, Int16.toInt_ofInt]
    have : (Int16.size : Int) = 65536 := rfl
    apply Int.bmod_eq_of_le <;> omega
  have hcnz : d.decompose.1.toNat ≠ 0 := by
    have := Sp.IsZero_eq_sig d; rw [hz] at this; simpa using this.symm
  obtain ⟨hk1, hk2⟩ := hkc hcnz
  have hd0 := Enc.decompose_exp_nonneg d
  have hd1 := Enc.decompose_exp_le d hsp
  have h6 : (6176 : Int16).toInt = 6176 := by decide
  have h1' : (1 : Int16).toInt = 1 := by decide
  have e1 : (d.decompose.2 - 6176).toInt = d.decompose.2.toInt - 6176 := by
    rw [Int16.toInt_sub_of] <;> rw [h6] <;> omega
  have e2 : (d.decompose.2 - 6176 + Go.conv (Int64.ofNat k)).toInt = d.decompose.2.toInt - 6176 + k := by
    rw [Int16.toInt_add_of] <;> rw [e1, hc] <;> omega
  have eneg : (-(Go.conv (Int64.ofNat k) : Int16)).toInt = -(k : Int) := by
    rw [Int16.toInt_neg, hc]; apply Int.bmod_eq_of_le <;> omega
  have esig : ({ w0 := d.decompose.1.w0, w1 := d.decompose.1.w1, w2 := 0 } : U192).toNat
      = d.decompose.1.toNat := by simp [U192.toNat, U128.toNat]
  have hcq1 : ((10 ^ k : Nat) : ℚ) ≤ (d.decompose.1.toNat : ℚ) := by exact_mod_cast hk1
  have hcq2 : (d.decompose.1.toNat : ℚ) < ((10 ^ (k + 1) : Nat) : ℚ) := by exact_mod_cast hk2
  push_cast at hcq1 hcq2
  have hpk : (0 : ℚ) < (10 : ℚ) ^ k := by positivity
  unfold sqrtCore
  rw [hlog]
  by_cases hev : ((d.decompose.2 - 6176 + Go.conv (Int64.ofNat k) &&& 1) == 0) = true
  · refine ⟨sqrtNrm d (Go.conv (Int64.ofNat k)) false, _, _, d.decompose.2 - 6176 + Go.conv (Int64.ofNat k),
      ?_, ?_, by omega, by omega, ?_, ?_, esig, ?_, Or.inl ⟨?_, ?_, rfl, rfl⟩⟩
    · show (if _ then _ else _) = _
      rw [if_pos hev]
    · rw [i16_and_one] at hev; exact hev
    · show (-(Go.conv (Int64.ofNat k) : Int16)).toInt ≥ -39
      rw [eneg]; omega
    · show (-(Go.conv (Int64.ofNat k) : Int16)).toInt ≤ 0
      rw [eneg]; omega
    · unfold D192.val sqrtNrm
      simp only [esig, Bool.false_eq_true, if_false, eneg, e2]
      rw [mul_assoc, ← zpow_add₀ (by norm_num : (10 : ℚ) ≠ 0)]
      rw [show (-(k : Int) + (d.decompose.2.toInt - 6176 + k)) = d.decompose.2.toInt - 6176 by ring]
    · unfold D192.val sqrtNrm
      simp only [esig, Bool.false_eq_true, if_false, eneg]
      rw [zpow_neg, zpow_natCast, ← div_eq_mul_inv, le_div_iff₀ hpk]; linarith
    · unfold D192.val sqrtNrm
      simp only [esig, Bool.false_eq_true, if_false, eneg]
      rw [zpow_neg, zpow_natCast, ← div_eq_mul_inv, div_lt_iff₀ hpk]
      rw [pow_succ] at hcq2; linarith
  · have eneg1 : (-(Go.conv (Int64.ofNat k) : Int16) - 1).toInt = -(k : Int) - 1 := by
      rw [Int16.toInt_sub_of] <;> rw [eneg, h1'] <;> omega
    have e3 : (d.decompose.2 - 6176 + Go.conv (Int64.ofNat k) + 1).toInt
        = d.decompose.2.toInt - 6176 + k + 1 := by
      rw [Int16.toInt_add_of] <;> rw [e2, h1'] <;> omega
    have hpk1 : (0 : ℚ) < (10 : ℚ) ^ (k + 1) := by positivity
    have hz1 : (10 : ℚ) ^ (-(k : Int) - 1) = ((10 : ℚ) ^ (k + 1))⁻¹ := by
      rw [show (-(k : Int) - 1) = -((k + 1 : Nat) : Int) by push_cast; ring, zpow_neg, zpow_natCast]
    refine ⟨sqrtNrm d (Go.conv (Int64.ofNat k)) true, _, _,
      d.decompose.2 - 6176 + Go.conv (Int64.ofNat k) + 1,
      ?_, ?_, by omega, by omega, ?_, ?_, esig, ?_, Or.inr ⟨?_, ?_, rfl, rfl⟩⟩
    · show (if _ then _ else _) = _
      rw [if_neg hev]
    · rw [i16_and_one, e2] at hev; omega
    · show (-(Go.conv (Int64.ofNat k) : Int16) - 1).toInt ≥ -39
      rw [eneg1]; omega
    · show (-(Go.conv (Int64.ofNat k) : Int16) - 1).toInt ≤ 0
      rw [eneg1]; omega
    · unfold D192.val sqrtNrm
      simp only [esig, if_true, eneg1, e3]
      rw [mul_assoc, ← zpow_add₀ (by norm_num : (10 : ℚ) ≠ 0)]
      rw [show (-(k : Int) - 1 + (d.decompose.2.toInt - 6176 + k + 1)) = d.decompose.2.toInt - 6176 by ring]
    · unfold D192.val sqrtNrm
      simp only [esig, if_true, eneg1]
      rw [hz1, ← div_eq_mul_inv, le_div_iff₀ hpk1, pow_succ]; linarith
    · unfold D192.val sqrtNrm
      simp only [esig, if_true, eneg1]
      rw [hz1, ← div_eq_mul_inv, div_lt_iff₀ hpk1]; linarith

theorem tdiv3_bounds (x : Int) : 3 * x.tdiv 3 ≤ x + 2 ∧ x - 2 ≤ 3 * x.tdiv 3 := by
  rcases le_or_gt 0 x with h | h
  · rw [Int.tdiv_eq_ediv_of_nonneg h]; omega
  · have : x.tdiv 3 = -((-x).tdiv 3) := by rw [Int.neg_tdiv]; omega
    rw [this, Int.tdiv_eq_ediv_of_nonneg (by omega)]; omega

theorem i16_third (x : Int16) : (x / 3).toInt = x.toInt.tdiv 3 := by
  have h3 : (3 : Int16).toInt = 3 := by decide
  have hx := x.toInt_lt
  have hx' := x.le_toInt
  have hb := tdiv3_bounds x.toInt
  rw [Int16.toInt_div, h3]
  apply Int.bmod_eq_of_le <;> omega

/-- **What `cbrtCore` computes.**  For a finite non-zero `d = ±c·10^e` with `k = ⌊log10 c⌋`: 7 Halley steps
for the cube root of `arg = c·10^e` (with `arg2 = 2c·10^e`), started from the coefficient `c` itself at the
exponent `e - (x - x/3)`, `x = e + k` (`+1` when negative; Go's truncating division), flag 0. -/
theorem cbrtCore_spec (d : Decimal) (hsp : Decimal.isSpecial d = false)
    (hz : Decimal.IsZero d = false) :
    ∃ (arg arg2 start : decomposed192),
      cbrtCore d = iter (cbrtStep arg arg2) 7 (start, 0) ∧
      D192.val arg = (d.decompose.1.toNat : ℚ) * (10 : ℚ) ^ (d.decompose.2.toInt - 6176) ∧
      D192.val arg2 = 2 * D192.val arg ∧
      arg.exp.toInt = d.decompose.2.toInt - 6176 ∧ arg2.exp = arg.exp ∧
      start.sig.toNat = d.decompose.1.toNat ∧
      (∃ k : Nat, 10 ^ k ≤ d.decompose.1.toNat ∧ d.decompose.1.toNat < 10 ^ (k + 1) ∧ k ≤ 38 ∧
        start.exp.toInt = (d.decompose.2.toInt - 6176) -
          ((if d.decompose.2.toInt - 6176 + k < 0 then d.decompose.2.toInt - 6176 + k + 1
              else d.decompose.2.toInt - 6176 + k) -
           (if d.decompose.2.toInt - 6176 + k < 0 then d.decompose.2.toInt - 6176 + k + 1
              else d.decompose.2.toInt - 6176 + k).tdiv 3)) := by
  obtain ⟨k, hk, hlog, hki, -, hkc⟩ := U128_log10_spec d.decompose.1
  have hc : ((Go.conv (Int64.ofNat k) : Int16)).toInt = k := by
    show (Int16.ofInt (Int64.ofNat k).toInt).toInt = k
    rw [hki, Int16.toInt_ofInt]
    have : (Int16.size : Int) = 65536 := rfl
    apply Int.bmod_eq_of_le <;> omega
  have hcnz : d.decompose.1.toNat ≠ 0 := by
    have := Sp.IsZero_eq_sig d; rw [hz] at this; simpa using this.symm
  obtain ⟨hk1, hk2⟩ := hkc hcnz
  have hd0 := Enc.decompose_exp_nonneg d
  have hd1 := Enc.decompose_exp_le d hsp
  have hcm := Enc.decompose_sig_le d
  have h6 : (6176 : Int16).toInt = 6176 := by decide
  have h1' : (1 : Int16).toInt = 1 := by decide
  have h0' : (0 : Int16).toInt = 0 := by decide
  have e1 : (d.decompose.2 - 6176).toInt = d.decompose.2.toInt - 6176 := by
    rw [Int16.toInt_sub_of] <;> rw [h6] <;> omega
  have e2 : (d.decompose.2 - 6176 + Go.conv (Int64.ofNat k)).toInt = d.decompose.2.toInt - 6176 + k := by
    rw [Int16.toInt_add_of] <;> rw [e1, hc] <;> omega
  have esig : ({ w0 := d.decompose.1.w0, w1 := d.decompose.1.w1, w2 := 0 } : U192).toNat
      = d.decompose.1.toNat := by simp [U192.toNat, U128.toNat]
  have esig2 : (U192.lsh { w0 := d.decompose.1.w0, w1 := d.decompose.1.w1, w2 := 0 } 1).toNat
      = 2 * d.decompose.1.toNat := by
    rw [D128.Proofs.WordsWide.U192_lsh_toNat, esig]
    have : (1 : UInt64).toNat = 1 := rfl
    rw [this]
    have := d.decompose.1.toNat_lt
    omega
  refine ⟨cbrtArg d, cbrtArg2 d, cbrtStart d (Go.conv (Int64.ofNat k)), ?_, ?_, ?_, e1, rfl, esig,
    k, hk1, hk2, hk, ?_⟩
  · unfold cbrtCore; rw [hlog]; rfl
  · unfold D192.val cbrtArg; simp only [esig, e1]
  · unfold D192.val cbrtArg2 cbrtArg; simp only [esig, esig2, e1]; push_cast; ring
  · unfold cbrtStart
    simp only [decide_eq_true_eq]
    have hlt : (d.decompose.2 - 6176 + Go.conv (Int64.ofNat k) < 0) ↔
        d.decompose.2.toInt - 6176 + k < 0 := by rw [Int16.lt_iff_toInt_lt, e2, h0']
    split
    · rename_i hneg
      rw [hlt] at hneg
      rw [if_pos hneg]
      have e3 : (d.decompose.2 - 6176 + Go.conv (Int64.ofNat k) + 1).toInt
          = d.decompose.2.toInt - 6176 + k + 1 := by
        rw [Int16.toInt_add_of] <;> rw [e2, h1'] <;> omega
      have hb := tdiv3_bounds (d.decompose.2.toInt - 6176 + k + 1)
      have e4 := i16_third (d.decompose.2 - 6176 + Go.conv (Int64.ofNat k) + 1)
      rw [e3] at e4
      have e5 : (d.decompose.2 - 6176 + Go.conv (Int64.ofNat k) + 1 -
          (d.decompose.2 - 6176 + Go.conv (Int64.ofNat k) + 1) / 3).toInt
          = (d.decompose.2.toInt - 6176 + k + 1) - (d.decompose.2.toInt - 6176 + k + 1).tdiv 3 := by
        rw [Int16.toInt_sub_of] <;> rw [e3, e4] <;> omega
      rw [Int16.toInt_sub_of] <;> rw [e1, e5] <;> omega
    · rename_i hnn
      rw [hlt] at hnn
      rw [if_neg hnn]
      have hb := tdiv3_bounds (d.decompose.2.toInt - 6176 + k)
      have e4 := i16_third (d.decompose.2 - 6176 + Go.conv (Int64.ofNat k))
      rw [e2] at e4
      have e5 : (d.decompose.2 - 6176 + Go.conv (Int64.ofNat k) -
          (d.decompose.2 - 6176 + Go.conv (Int64.ofNat k)) / 3).toInt
          = (d.decompose.2.toInt - 6176 + k) - (d.decompose.2.toInt - 6176 + k).tdiv 3 := by
        rw [Int16.toInt_sub_of] <;> rw [e2, e4] <;> omega
      rw [Int16.toInt_sub_of] <;> rw [e1, e5] <;> omega

/-- `sqrtCore_spec`, `cbrtCore_spec` need nothing but a finite non-zero argument, e.g. `d = 2` -/
example := sqrtCore_spec ⟨2, 3476778912330022912⟩ (by decide) (by decide)
example := cbrtCore_spec ⟨2, 3476778912330022912⟩ (by decide) (by decide)
end Root
