/-
  D128/Proofs/PowLadderRange.lean — range of the exponent returned by the rounding kernel, for EVERY
  mode byte and all other arguments (no semantic hypotheses): whenever `reduce192` is entered with
  `sig ≠ 0 ∨ trunc ≠ -1` (the condition under which it terminates, see D128/Proofs/TotalReduce192.lean)
  and an exponent in `[-32000, 20000]`, it returns an exponent `≥ 0`.
  Used for the sign of the general path of `PowWithMode` (`compose neg sig exp` is sign-faithful for
  every `sig` once `0 ≤ exp ≤ 12287`).  The proofs mirror the totality proofs of `TotalRound.lean` /
  `TotalReduce192.lean`, with the exponent added to the invariants.

  Provided (namespace `PowPf`):
  * `prescaleUp_range`, `prescaleDown_range`, `prescale_range` : `0 ≤ p.2 ≤ exp`, non-zero kept
  * `roundLoop_range`, `round_range` : `round` started at `0 ≤ exp ≤ 32700` returns `0 ≤ exp'`
  * `pow_bound`                      : `a·10^Δ < B ≤ a·10^N → Δ < N`
  * `reduceTail_range`               : the common tail (loops B, C, D and `round`)
  * `reduce192_range`                : the 192-bit entry point
-/
import D128.Proofs.TotalReduce192
import D128.Proofs.RoundKernelWideCode

set_option autoImplicit false
set_option maxRecDepth 8192
set_option linter.unusedVariables false
set_option linter.unusedSimpArgs false

namespace PowPf
open Gen RK D128.Proofs.Total

/-! ## the pre-scaling loops -/

theorem prescaleUp_range (sig : U128) (exp : Int16) (h0 : 0 ≤ exp.toInt) :
    ∃ p, prescaleUp sig exp = .ok p ∧ (sig.toNat ≠ 0 → p.1.toNat ≠ 0) ∧
      0 ≤ p.2.toInt ∧ p.2.toInt ≤ exp.toInt := by
  induction hn : exp.toInt.toNat using Nat.strongRecOn generalizing sig exp with
  | _ n ih =>
    by_cases h : exp > 0 ∧ sig.w1 < 70368744177663
    · rw [prescaleUp_step _ _ h]
      have hpos : 0 < exp.toInt := (i16_gt_zero _).1 h.1
      have hx := i16_pred exp hpos
      obtain ⟨p, hp, hp', hp0, hp1⟩ := ih _ (by omega) (Gen.U128.mul64 sig 10) (exp - 1) (by omega) rfl
      refine ⟨p, hp, fun h0 => hp' (mul10_ne_zero sig (Or.inl ?_) h0), hp0, by omega⟩
      have hw := h.2
      have hw0 := sig.w0.toNat_lt
      rw [UInt64.lt_iff_toNat_lt] at hw
      simp only [U128.toNat, UInt64.toNat_ofNat, Nat.reducePow, Nat.reduceMod] at *
      omega
    · exact ⟨_, prescaleUp_stop _ _ h, id, h0, le_refl _⟩

theorem prescaleDown_range (sig : U128) (exp : Int16) (h0 : 0 ≤ exp.toInt) :
    ∃ p, prescaleDown sig exp = .ok p ∧ (sig.toNat ≠ 0 → p.1.toNat ≠ 0) ∧
      0 ≤ p.2.toInt ∧ p.2.toInt ≤ exp.toInt := by
  induction hn : exp.toInt.toNat using Nat.strongRecOn generalizing sig exp with
  | _ n ih =>
    by_cases h : exp > 0 ∧ (sig.w1 ≤ 70368744177663 ∨ sig = { w0 := 0, w1 := 70368744177664 })
    · rw [prescaleDown_step _ _ h]
      have hpos : 0 < exp.toInt := (i16_gt_zero _).1 h.1
      have hx := i16_pred exp hpos
      obtain ⟨p, hp, hp', hp0, hp1⟩ := ih _ (by omega) (Gen.U128.mul64 sig 10) (exp - 1) (by omega) rfl
      refine ⟨p, hp, fun h0 => hp' (mul10_ne_zero sig ?_ h0), hp0, by omega⟩
      rcases h.2 with hw | hw
      · left
        have hw0 := sig.w0.toNat_lt
        rw [UInt64.le_iff_toNat_le] at hw
        simp only [U128.toNat, UInt64.toNat_ofNat, Nat.reducePow, Nat.reduceMod] at *
        omega
      · right
        rw [hw]; rfl
    · exact ⟨_, prescaleDown_stop _ _ h, id, h0, le_refl _⟩

theorem prescale_range (up : Bool) (sig : U128) (exp : Int16) (h0 : 0 ≤ exp.toInt) :
    ∃ p, prescale up sig exp = .ok p ∧ (sig.toNat ≠ 0 → p.1.toNat ≠ 0) ∧
      0 ≤ p.2.toInt ∧ p.2.toInt ≤ exp.toInt := by
  have key : ∀ s (e : Int16), 0 ≤ e.toInt → ∃ p, (if up = true then prescaleUp else prescaleDown) s e = .ok p ∧
      (s.toNat ≠ 0 → p.1.toNat ≠ 0) ∧ 0 ≤ p.2.toInt ∧ p.2.toInt ≤ e.toInt := by
    intro s e he
    cases up
    · exact prescaleDown_range s e he
    · exact prescaleUp_range s e he
  unfold prescale
  by_cases hz : (sig.w0 ||| sig.w1 != 0) = true
  · rw [if_pos hz]
    by_cases h19 : (decide (exp ≥ 19) && sig.w1 == 0) = true
    · rw [if_pos h19]
      have h19' := h19
      simp only [Bool.and_eq_true, beq_iff_eq, decide_eq_true_eq, i16_ge_19] at h19'
      have hx : (exp - 19).toInt = exp.toInt - 19 := by
        have := exp.toInt_lt
        rw [Int16.toInt_sub_of] <;> simp <;> omega
      obtain ⟨p, hp, hp', hp0, hp1⟩ := key (Gen.U128.mul64 sig 10000000000000000000) (exp - 19) (by omega)
      refine ⟨p, hp, fun h0 => hp' ?_, hp0, by omega⟩
      have hw1 : sig.w1.toNat = 0 := by rw [h19'.2]; rfl
      have hw0 := sig.w0.toNat_lt
      have hc : (10000000000000000000 : UInt64).toNat = 10000000000000000000 := rfl
      have hlt : sig.toNat < 2 ^ 64 := by simp only [U128.toNat]; omega
      rw [U128_mul64_toNat_of_lt _ _ (by rw [hc]; omega), hc]
      omega
    · rw [if_neg h19]
      exact key sig exp h0
  · rw [if_neg hz]
    refine ⟨(sig, 0), rfl, fun h0 => ?_, by show (0 : Int) ≤ (0 : Int16).toInt; decide, h0⟩
    rw [U128_or_ne_zero] at hz
    simp only [decide_eq_true_eq] at hz
    exact absurd h0 hz

/-! ## the main loop of `round` -/

theorem lt_pow39 (n : Nat) (h : n < 2 ^ 128) : n / 10 < 10 ^ 39 := by
  have : (2 : Nat) ^ 128 < 10 ^ 39 := by norm_num
  omega

/-- `round` never returns a negative exponent when started at a non-negative one (with room for the
    carries: every carry drops a digit of the significand, `n` bounds their number) -/
theorem roundLoop_range (rm : UInt8) (neg : Bool) (o : Option (U128 × Int16)) (shift : Bool)
    (sig : U128) (exp : Int16) (trunc : Int8) (digit : UInt64) (n : Nat)
    (h : sig.toNat ≠ 0 ∨ trunc ≠ -1 ∨ digit ≠ 0) (h0 : 0 ≤ exp.toInt)
    (hn : shift = false → sig.toNat < 10 ^ n)
    (hB : exp.toInt + (if shift = true then 60 else (n : Int)) ≤ 32767) :
    ∃ r, roundLoop rm neg (o, shift, sig, exp, trunc, digit) = .ok r ∧ 0 ≤ r.2.toInt := by
  induction hm : (if shift = true then 2 ^ 128 else 0) + sig.toNat using Nat.strongRecOn
    generalizing o shift sig exp trunc digit n with
  | _ m ih =>
    have hsig := sig.toNat_lt
    rw [roundLoop_unfold]
    have hpre : ∀ up : Bool, ∃ p, (if shift = true then prescale up sig exp else pure (sig, exp)) = .ok p ∧
        (sig.toNat ≠ 0 → p.1.toNat ≠ 0) ∧ (shift = false → p.1 = sig ∧ p.2 = exp) ∧
        0 ≤ p.2.toInt ∧ p.2.toInt ≤ exp.toInt := by
      intro up
      cases shift
      · exact ⟨(sig, exp), rfl, id, fun _ => ⟨rfl, rfl⟩, h0, le_refl _⟩
      · obtain ⟨p, hp, hp', hp0, hp1⟩ := prescale_range up sig exp h0
        refine ⟨p, by simpa only [if_true] using hp, hp', ?_, hp0, hp1⟩
        intro h; cases h
    -- the state after a carry: one digit fewer, exponent one higher, still in range
    have carry : ∀ (p : U128 × Int16) (q : U128), q.toNat = p.1.toNat / 10 →
        (shift = false → p.1 = sig ∧ p.2 = exp) → 0 ≤ p.2.toInt → p.2.toInt ≤ exp.toInt →
        1 ≤ p.1.toNat →
        ∃ n' : Nat, q.toNat < 10 ^ n' ∧ 0 ≤ (p.2 + 1).toInt ∧
          (p.2 + 1).toInt + (n' : Int) ≤ 32767 := by
      intro p q hq hps hp0 hp1 hp1'
      cases hsh : shift
      · obtain ⟨hpa, hpb⟩ := hps hsh
        have hnn := hn hsh
        rw [hsh] at hB
        simp only [Bool.false_eq_true, if_false] at hB
        rw [hpa] at hp1' hq
        have hn1 : 1 ≤ n := by
          by_contra hc
          have : n = 0 := by omega
          rw [this] at hnn
          simp at hnn; omega
        have hexp : (p.2 + 1).toInt = p.2.toInt + 1 := by
          rw [Int16.toInt_add_of] <;> simp <;> omega
        refine ⟨n - 1, ?_, by omega, ?_⟩
        · rw [hq]
          have : 10 ^ n = 10 ^ (n - 1) * 10 := by rw [← pow_succ]; congr 1; omega
          omega
        · rw [hexp]; omega
      · rw [hsh] at hB
        simp only [if_true] at hB
        have hexp : (p.2 + 1).toInt = p.2.toInt + 1 := by
          rw [Int16.toInt_add_of] <;> simp <;> omega
        refine ⟨39, ?_, by omega, by omega⟩
        rw [hq]; exact lt_pow39 _ p.1.toNat_lt
    rcases adjW_cases rm neg sig.w0 trunc digit with ha0 | ha1 | ⟨ham, ht, hd⟩
    · rw [roundBody_adj0 _ _ _ _ _ _ _ _ ha0]
      exact ⟨_, rfl, h0⟩
    · rw [roundBody_up _ _ _ _ _ _ _ _ ha1]
      obtain ⟨p, hp, hp0, hps, hpe0, hpe1⟩ := hpre true
      have hp1 := p.1.toNat_lt
      rw [hp, ok_bind]
      by_cases hc : 12980742146337069071326240823050240 ≤ (Gen.U128.add64 p.1 1).toNat
      · obtain ⟨q, r, hq, hr, e⟩ := roundTail_carry false p (Gen.U128.add64 p.1 1) trunc digit hc
        rw [e]
        show ∃ r', roundLoop rm neg (none, false, q, p.2 + 1, (if (digit != 0) = true then 1 else trunc), r)
          = .ok r' ∧ 0 ≤ r'.2.toInt
        have h1' : (1 : UInt64).toNat = 1 := rfl
        rw [U128_add64_toNat, h1'] at hc
        simp only [Nat.reducePow] at hc hp1 hsig
        have hge : 12980742146337069071326240823050239 ≤ p.1.toNat := by omega
        obtain ⟨n', hn', he0, heB⟩ := carry p q hq hps hpe0 hpe1 (by omega)
        apply ih ((if false = true then 2 ^ 128 else 0) + q.toNat) _ none false q _ _ r n'
          (Or.inl (by omega)) he0 (fun _ => hn') (by simpa using heB) rfl
        rw [← hm]
        cases shift
        · have := (hps rfl).1
          rw [this] at hq hge
          simp only [Bool.false_eq_true, if_false]
          omega
        · simp only [Bool.false_eq_true, if_false, if_true, Nat.reducePow]
          omega
      · rw [roundTail_done _ _ _ _ _ (by omega)]
        exact ⟨_, rfl, hpe0⟩
    · rw [roundBody_down _ _ _ _ _ _ _ _ ham]
      have hs0 : sig.toNat ≠ 0 := by
        rcases h with h | h | h
        · exact h
        · exact absurd ht h
        · exact absurd hd h
      obtain ⟨p, hp, hp0, hps, hpe0, hpe1⟩ := hpre false
      have hp1 := p.1.toNat_lt
      have hpne := hp0 hs0
      rw [hp, ok_bind]
      by_cases hc : 12980742146337069071326240823050240 ≤ (Gen.U128.sub64 p.1 1).toNat
      · obtain ⟨q, r, hq, hr, e⟩ := roundTail_carry false p (Gen.U128.sub64 p.1 1) trunc digit hc
        rw [e]
        show ∃ r', roundLoop rm neg (none, false, q, p.2 + 1, (if (digit != 0) = true then 1 else trunc), r)
          = .ok r' ∧ 0 ≤ r'.2.toInt
        have h1' : (1 : UInt64).toNat = 1 := rfl
        rw [U128_sub64_toNat, h1'] at hc
        simp only [Nat.reducePow] at hc hp1 hsig
        have hge : 12980742146337069071326240823050241 ≤ p.1.toNat := by omega
        obtain ⟨n', hn', he0, heB⟩ := carry p q hq hps hpe0 hpe1 (by omega)
        apply ih ((if false = true then 2 ^ 128 else 0) + q.toNat) _ none false q _ _ r n'
          (Or.inl (by omega)) he0 (fun _ => hn') (by simpa using heB) rfl
        rw [← hm]
        cases shift
        · have := (hps rfl).1
          rw [this] at hq hge
          simp only [Bool.false_eq_true, if_false]
          omega
        · simp only [Bool.false_eq_true, if_false, if_true, Nat.reducePow]
          omega
      · rw [roundTail_done _ _ _ _ _ (by omega)]
        exact ⟨_, rfl, hpe0⟩

theorem round_range (rm : UInt8) (neg : Bool) (sig : U128) (exp : Int16) (trunc : Int8)
    (digit : UInt64) (h : sig.toNat ≠ 0 ∨ trunc ≠ -1 ∨ digit ≠ 0) (h0 : 0 ≤ exp.toInt)
    (h1 : exp.toInt ≤ 32700) :
    ∃ r, Gen.RoundingMode.round rm true neg sig exp trunc digit = .ok r ∧ 0 ≤ r.2.toInt := by
  rw [round_eq_loop]
  exact roundLoop_range rm neg none true sig exp trunc digit 0 h h0 (fun h => by cases h)
    (by simp only [if_true]; omega)

/-! ## the digit-dropping loops -/

theorem pow_bound (a Δ B N : Nat) (h : a * 10 ^ Δ < B) (hB : B ≤ a * 10 ^ N) : Δ < N := by
  by_contra hc
  have h1 : 10 ^ N ≤ 10 ^ Δ := Nat.pow_le_pow_right (by norm_num) (by omega)
  have h2 : a * 10 ^ N ≤ a * 10 ^ Δ := Nat.mul_le_mul_left _ h1
  omega

theorem div_mul_pow_le (s j Δ : Nat) : s / 10 ^ j * 10 ^ (Δ + j) ≤ s * 10 ^ Δ := by
  rw [pow_add, mul_comm (10 ^ Δ), ← mul_assoc]
  exact Nat.mul_le_mul_right _ (Nat.div_mul_le_self s (10 ^ j))

theorem i8_ne_of_toInt (t : Int8) (h : t.toInt ≠ -1) : t ≠ -1 := by
  intro e; apply h; rw [e]; decide

theorem i8_toInt_ne (t : Int8) (h : t ≠ -1) : t.toInt ≠ -1 := by
  intro e; apply h; apply Int8.toInt_inj.1; rw [e]; decide

theorem u64_ne_of_toNat (d : UInt64) (h : d.toNat ≠ 0) : d ≠ 0 := by
  intro e; apply h; rw [e]; rfl

theorem u64_toNat_ne (d : UInt64) (h : d ≠ 0) : d.toNat ≠ 0 := by
  intro e; apply h; apply UInt64.toNat_inj.1; rw [e]; rfl

/-- the common tail of `reduce128/192/256` returns a non-negative exponent -/
theorem reduceTail_range (rm : UInt8) (neg : Bool) (sig : U128) (exp : Int16) (trunc : Int8)
    (digit : UInt64) (hJ : J sig trunc digit) (he1 : exp.toInt ≤ 20100) :
    ∃ r, reduceTail rm neg sig exp trunc digit = .ok r ∧ 0 ≤ r.2.toInt := by
  have hCm := Cmax_val
  -- loop B
  obtain ⟨s1, e1, ⟨hJ1, hE1, hZ1, hS1⟩, hC1⟩ := dropLoop_inv
    (fun s d t e => (s ≠ 0 ∨ t ≠ -1 ∨ d ≠ 0) ∧ exp.toInt ≤ e ∧ (s = 0 → e = exp.toInt) ∧
      s * 10 ^ (e - exp.toInt).toNat < 2 ^ 128)
    (by
      rintro s d t e ⟨hj, hE, hZ, hS⟩ hgt
      have hΔ : (e - exp.toInt).toNat < 39 := by
        apply pow_bound 1 _ (2 ^ 128) 39
        · exact lt_of_le_of_lt (Nat.mul_le_mul_right _ (by omega)) hS
        · norm_num
      refine ⟨⟨Or.inl (by omega), by omega, fun h => by omega, ?_⟩, by omega⟩
      have : (e + 1 - exp.toInt).toNat = (e - exp.toInt).toNat + 1 := by omega
      rw [this]
      have := div_mul_pow_le s 1 (e - exp.toInt).toNat
      rw [pow_one] at this
      omega)
    (sig, exp, trunc, digit)
    ⟨by
      rcases hJ with h | h | h
      · exact Or.inl h
      · exact Or.inr (Or.inl (i8_toInt_ne _ h))
      · exact Or.inr (Or.inr (u64_toNat_ne _ h)), le_refl _, fun _ => rfl, by simpa using sig.toNat_lt⟩
  have hE1' : s1.2.1.toInt ≤ 20140 := by
    by_cases hz : s1.1.toNat = 0
    · have := hZ1 hz; omega
    · have hΔ : (s1.2.1.toInt - exp.toInt).toNat < 39 := by
        apply pow_bound 1 _ (2 ^ 128) 39
        · exact lt_of_le_of_lt (Nat.mul_le_mul_right _ (by omega)) hS1
        · norm_num
      omega
  -- loop C
  obtain ⟨s2, e2, h2⟩ := subLoop_inv
    (fun s d t e => (s ≠ 0 ∨ t ≠ -1 ∨ d ≠ 0) ∧ e ≤ 20140)
    (by
      rintro s d t e ⟨hj, hE⟩ hneg hne
      refine ⟨?_, by omega⟩
      by_cases h0 : s / 10 = 0
      · exact Or.inr (Or.inr (fun h => hne ⟨h0, h⟩))
      · exact Or.inl h0)
    (s1.1, s1.2.1, s1.2.2.1, s1.2.2.2) ⟨hJ1, hE1'⟩
  -- state after loop C: the invariant of `round` and 0 ≤ exp ≤ 20140
  have h2' : J s2.1 s2.2.2.1 s2.2.2.2 ∧ 0 ≤ s2.2.1.toInt ∧ s2.2.1.toInt ≤ 20140 := by
    rcases h2 with ⟨hz, he, ht, hd, -⟩ | ⟨⟨hj, hE⟩, h0⟩
    · refine ⟨Or.inr (Or.inl ?_), ?_, ?_⟩
      · rw [ht]; decide
      · rw [he]; decide
      · rw [he]; decide
    · refine ⟨?_, h0, hE⟩
      rcases hj with h | h | h
      · exact Or.inl h
      · exact Or.inr (Or.inl (i8_ne_of_toInt _ h))
      · exact Or.inr (Or.inr (u64_ne_of_toNat _ h))
  obtain ⟨hJ2, h20, h21⟩ := h2'
  -- loop D
  obtain ⟨s3, e3, ⟨hN3, h30, h31⟩, -⟩ := upLoop_inv
    (fun s e => (s2.1.toNat ≠ 0 → s ≠ 0) ∧ 0 ≤ e ∧ e ≤ 20140)
    (by
      rintro s e ⟨hn, h0, h1⟩ hgt hle
      exact ⟨fun h => by have := hn h; omega, by omega, by omega⟩)
    (s2.1, s2.2.1) ⟨id, h20, h21⟩
  unfold reduceTail
  rw [e1, ok_bind, e2, ok_bind, e3, ok_bind]
  apply round_range _ _ _ _ _ _ _ h30 (by omega)
  rcases hJ2 with h | h | h
  · exact Or.inl (hN3 h)
  · exact Or.inr (Or.inl h)
  · exact Or.inr (Or.inr h)

/-! ## the 192-bit entry point -/

/-- `reduce192` entered with `sig ≠ 0 ∨ trunc ≠ -1` and `-32000 ≤ exp ≤ 20000` terminates without panic
    and returns a non-negative exponent, for every mode byte -/
theorem reduce192_range (rm : UInt8) (neg : Bool) (sig : U192) (exp : Int16) (trunc : Int8)
    (h : sig.toNat ≠ 0 ∨ trunc ≠ -1) (he0 : -32000 ≤ exp.toInt) (he1 : exp.toInt ≤ 20000) :
    ∃ r, Gen.RoundingMode.reduce192 rm neg sig exp trunc = .ok r ∧ 0 ≤ r.2.toInt := by
  rw [reduce192_eq]
  obtain ⟨n', e', t', hk, hcase⟩ := step192_spec sig exp trunc he0 (by omega)
  rw [hk]
  have hst : (n'.toNat ≠ 0 ∨ t' ≠ -1) ∧ exp.toInt ≤ e'.toInt ∧ e'.toInt ≤ 20008 := by
    rcases hcase with ⟨rfl, rfl, rfl⟩ | ⟨hbig, hn, ht, he⟩
    · exact ⟨h, le_refl _, by omega⟩
    · refine ⟨Or.inl ?_, by omega, by omega⟩
      rw [hn]
      have : (10001 : Nat) * 2 ^ 128 / 100000000 ≤ sig.toNat / 100000000 := Nat.div_le_div_right hbig
      have h2 : 0 < (10001 : Nat) * 2 ^ 128 / 100000000 := by norm_num
      omega
  obtain ⟨hJ0, hE0, hE0'⟩ := hst
  -- the wide loop
  obtain ⟨s, es, ⟨hJs, hEs, hZs, hSs⟩, hlt⟩ := wide192_inv
    (fun n t e => (n ≠ 0 ∨ t ≠ -1) ∧ e'.toInt ≤ e ∧ (n = 0 → e = e'.toInt) ∧
      n * 10 ^ (e - e'.toInt).toNat < 2 ^ 192)
    (by
      rintro n t e ⟨hj, hE, hZ, hS⟩ hgt
      have hΔ : (e - e'.toInt).toNat < 58 := by
        apply pow_bound 1 _ (2 ^ 192) 58
        · exact lt_of_le_of_lt (Nat.mul_le_mul_right _ (by omega)) hS
        · norm_num
      have hq : 1 ≤ n / 10000 := by
        have : (2 : Nat) ^ 128 / 10000 ≤ n / 10000 := Nat.div_le_div_right hgt
        have h2 : 0 < (2 : Nat) ^ 128 / 10000 := by norm_num
        omega
      refine ⟨⟨Or.inl (by omega), by omega, fun h => by omega, ?_⟩, by omega⟩
      have : (e + 4 - e'.toInt).toNat = (e - e'.toInt).toNat + 4 := by omega
      rw [this]
      have := div_mul_pow_le n 4 (e - e'.toInt).toNat
      norm_num at this ⊢
      omega)
    (n', e', t')
    ⟨by
      rcases hJ0 with h | h
      · exact Or.inl h
      · exact Or.inr (i8_toInt_ne _ h), le_refl _, fun _ => rfl, by simpa using n'.toNat_lt⟩
  have hEs' : s.2.1.toInt ≤ 20070 := by
    by_cases hz : s.1.toNat = 0
    · have := hZs hz; omega
    · have hΔ : (s.2.1.toInt - e'.toInt).toNat < 58 := by
        apply pow_bound 1 _ (2 ^ 192) 58
        · exact lt_of_le_of_lt (Nat.mul_le_mul_right _ (by omega)) hSs
        · norm_num
      omega
  show ∃ r, (do
    let s ← forIn (m := Go.GoM) Lean.Loop.mk (n', e', t') wide192Body
    ladder128 (fun s' e' t' d' => reduceTailP rm neg e' t' s' d')
      { w0 := s.1.w0, w1 := s.1.w1 } s.2.1 s.2.2) = .ok r ∧ 0 ≤ r.2.toInt
  rw [es, ok_bind]
  -- the low 128 bits carry the whole value
  have hlow : ({ w0 := s.1.w0, w1 := s.1.w1 } : U128).toNat = s.1.toNat := by
    have hw0 := s.1.w0.toNat_lt
    have hw1 := s.1.w1.toNat_lt
    simp only [U192.toNat, U128.toNat] at hlt ⊢
    omega
  obtain ⟨s', e'', t'', d', hk2, hrel⟩ := ladder128_spec { w0 := s.1.w0, w1 := s.1.w1 } s.2.1 s.2.2
    (by omega) (by omega)
  rw [hk2, reduceTailP_eq]
  rw [hlow] at hrel
  apply reduceTail_range
  · rcases hrel with ⟨hs, hd, ht, he, -⟩ | ⟨p, hp2, hp4, hN, hs, hd, ht, he⟩
    · rcases hJs with hj | hj
      · exact Or.inl (by rw [hs]; exact hj)
      · exact Or.inr (Or.inl (i8_ne_of_toInt _ (by rw [ht]; exact hj)))
    · refine Or.inl ?_
      rw [hs]
      have h1 : 10 ^ p * 2 ^ 110 / 10 ^ p ≤ s.1.toNat / 10 ^ p := Nat.div_le_div_right hN
      rw [Nat.mul_div_cancel_left _ (by positivity)] at h1
      have : 0 < (2 : Nat) ^ 110 := by norm_num
      omega
  · rcases hrel with ⟨hs, hd, ht, he, -⟩ | ⟨p, hp2, hp4, hN, hs, hd, ht, he⟩
    · omega
    · omega

end PowPf
