/-
  D128/Proofs/TotalStrings.lean — helper lemmas for `D128/Props/C20d.lean`: exact output of the remaining
  `String` methods (Go: /repo/payload.go, /repo/rounding.go, /repo/int.go, /repo/decomposed.go).

  Namespace `D128.Proofs.TotalStrings`.

  A. byte strings
  * `str_append`      : `Go.str (s ++ t) = Go.str s ++ Go.str t`
  * `digs`            : most-significant-first ASCII digits of a natural number (`[]` for 0);
    `digs_zero`, `digs_pos`
  * `str_toString`    : `Go.str (toString k) = (digs k).toArray` for `k ≠ 0` (`toString = Nat.repr`)
  B. `Payload.argString`, `Payload.String`
  * `argWord`, `opText`, `payloadText`, `outcome` : the tables, over plain strings
  * `argString_eq`, `argString_neg`, `argString_8`, `argString_16`
  * `payload_string`  : `Gen.Payload.String p = outcome (payloadText p)`
  C. the digit loop of `uint128/uint192/uint256/uint384.String`
  * `strBody`, `strProg` : the loop body / the whole method for an abstract word type (normal form)
  * `U128_String_eq`, `U192_String_eq`, `U256_String_eq`, `U384_String_eq` : `Gen.T.String n = strProg …`
  * `str_loop`        : the loop returns, the buffer gains exactly `digs n` in front of what it held
  * `strProg_eq`      : `strProg … n = .ok (Go.str (toString (toNat n)))`
  * `U128_String_ok`, `U192_String_ok`, `U256_String_ok`, `U384_String_ok`
  D. the real numbers e, π, φ to 34 digits (for the constants `E`, `Pi`, `Phi`)
  * `exp_one_near`    : |e − 2.718281828459045235360287471352662| < ½·10^-33   (enclosure `Spec.Encl.expTiny 1`)
  * `pi_gt_34`, `pi_lt_34`, `pi_near` : |π − 3.141592653589793238462643383279503| < ½·10^-33
    (Mathlib's `pi_lower_bound`/`pi_upper_bound` with 60-step witnesses)
  * `phi_near`        : |(1+√5)/2 − 1.618033988749894848204586834365638| < ½·10^-33
-/
import D128.Gen.PayloadText
import D128.Gen.IntText
import D128.Proofs.Words128
import D128.Proofs.WordsWide
import D128.Proofs.EnclosureExp
import Mathlib.Analysis.Real.Pi.Bounds
set_option autoImplicit false
set_option linter.unusedVariables false

namespace D128.Proofs.TotalStrings

/-! ## A. byte strings -/

theorem str_append (s t : String) : Go.str (s ++ t) = Go.str s ++ Go.str t := by
  simp [Go.str]

/-- most-significant-first ASCII digits of `n` (empty for 0) -/
def digs (n : Nat) : List UInt8 :=
  if h : n = 0 then [] else digs (n / 10) ++ [48 + UInt8.ofNat (n % 10)]
decreasing_by omega

theorem digs_zero : digs 0 = [] := by rw [digs]; simp

theorem digs_pos (n : Nat) (h : n ≠ 0) : digs n = digs (n / 10) ++ [48 + UInt8.ofNat (n % 10)] := by
  rw [digs]; simp [h]

theorem enc_digit :
    ∀ d : Fin 10, String.utf8EncodeChar (Nat.digitChar d.val) = [48 + UInt8.ofNat d.val] := by
  decide

theorem enc_toDigits (k : Nat) :
    k ≠ 0 → (Nat.toDigits 10 k).flatMap String.utf8EncodeChar = digs k := by
  induction k using Nat.strong_induction_on with
  | _ k ih =>
    intro hk
    by_cases h : k < 10
    · rw [Nat.toDigits_of_lt_base h, digs_pos k hk]
      have : k / 10 = 0 := by omega
      rw [this, digs_zero, Nat.mod_eq_of_lt h]
      simpa using enc_digit ⟨k, h⟩
    · rw [Nat.toDigits_of_base_le (by decide) (by omega), digs_pos k hk, List.flatMap_append,
        ih (k / 10) (by omega) (by omega)]
      congr 1
      simpa using enc_digit ⟨k % 10, Nat.mod_lt _ (by decide)⟩

/-- the bytes of the decimal numeral `toString k` (`= Nat.repr k`) -/
theorem str_toString (k : Nat) (hk : k ≠ 0) : Go.str (toString k) = (digs k).toArray := by
  apply Array.toList_inj.mp
  show (String.ofList (Nat.toDigits 10 k)).toByteArray.data.toList = _
  rw [String.toByteArray_ofList, List.utf8Encode]
  simp [enc_toDigits k hk]

/-! ## B. `Payload.argString`, `Payload.String` -/

/-- the word `Payload.argString` prints for the argument-class byte `b` -/
def argWord (b : UInt64) : String :=
  if b = 1 then "Zero" else if b = 2 then "-Zero" else if b = 3 then "Finite"
  else if b = 4 then "-Finite" else if b = 5 then "Infinite" else if b = 6 then "-Infinite"
  else "Unknown"

theorem argString_eq (p : UInt64) (off : Int64) (h : 0 ≤ off.toInt) :
    Gen.Payload.argString p off = .ok (Go.str (argWord ((Go.shr p (Go.idx off)) &&& 255))) := by
  unfold Gen.Payload.argString Go.shrS
  have : ¬ (Go.idx off < 0) := by simpa [Go.idx, Go.GoInt.toInt] using h
  simp only [this, if_false, beq_iff_eq]
  show (if _ then _ else _ : Go.GoM Go.Bytes) = _
  unfold argWord Go.shr
  repeat' split
  all_goals rfl

/-- a negative offset is Go's "negative shift amount" panic (no call site passes one) -/
theorem argString_neg (p : UInt64) (off : Int64) (h : off.toInt < 0) :
    Gen.Payload.argString p off = .error .shift := by
  unfold Gen.Payload.argString Go.shrS
  have : Go.idx off < 0 := by simpa [Go.idx, Go.GoInt.toInt] using h
  simp only [this, if_true]
  rfl

theorem argString_8 (p : UInt64) :
    Gen.Payload.argString p 8 = .ok (Go.str (argWord ((p >>> 8) &&& 255))) := by
  rw [argString_eq p 8 (by decide)]; rfl

theorem argString_16 (p : UInt64) :
    Gen.Payload.argString p 16 = .ok (Go.str (argWord ((p >>> 16) &&& 255))) := by
  rw [argString_eq p 16 (by decide)]; rfl

/-- text of an operation payload with tag byte `tag` whose argument words are `a`, `b`;
    `none`: the tag is not one of the 19 operation codes -/
def opText (tag : UInt64) (a b : String) : Option String :=
  if tag = 1 then some "Compose()" else if tag = 2 then some "FromFloat32()"
  else if tag = 3 then some "FromFloat64()" else if tag = 4 then some "MustParse()"
  else if tag = 5 then some "NaN()" else if tag = 6 then some "Parse()"
  else if tag = 7 then some "Scan()" else if tag = 8 then some "UnmarshalText()"
  else if tag = 9 then some ("Add(" ++ a ++ ", " ++ b ++ ")")
  else if tag = 10 then some ("Log(" ++ a ++ ")")
  else if tag = 11 then some ("Log10(" ++ a ++ ")")
  else if tag = 12 then some ("Log1p(" ++ a ++ ")")
  else if tag = 13 then some ("Log2(" ++ a ++ ")")
  else if tag = 14 then some ("Mul(" ++ a ++ ", " ++ b ++ ")")
  else if tag = 15 then some ("Pow(" ++ a ++ ", " ++ b ++ ")")
  else if tag = 16 then some ("Quo(" ++ a ++ ", " ++ b ++ ")")
  else if tag = 17 then some ("QuoRem(" ++ a ++ ", " ++ b ++ ")")
  else if tag = 18 then some ("Sqrt(" ++ a ++ ")")
  else if tag = 19 then some ("Sub(" ++ a ++ ", " ++ b ++ ")")
  else none

/-- what `Payload.String` prints without `fmt.Sprintf`; `none`: the `fmt.Sprintf("Payload(%d)", …)` arm -/
def payloadText (p : UInt64) : Option String :=
  if p = 0 then some "Payload(0)"
  else if p > 16777215 then none
  else opText (p &&& 255) (argWord ((p >>> 8) &&& 255)) (argWord ((p >>> 16) &&& 255))

/-- model outcome for a text (`some`) or for the place where the model stops (`none`) -/
def outcome : Option String → Go.GoM Go.Bytes
  | some s => .ok (Go.str s)
  | none => .error (.unmodelled "fmt.Sprintf")

theorem payload_string (p : UInt64) : Gen.Payload.String p = outcome (payloadText p) := by
  unfold Gen.Payload.String payloadText opText
  simp only [apply_ite outcome]
  simp only [beq_iff_eq, decide_eq_true_eq, argString_8, argString_16, outcome, str_append]
  rfl

/-! ## C. the digit loop -/

theorem loop_unfold {β : Type} (b : β) (f : Unit → β → Go.GoM (ForInStep β)) :
    forIn Lean.Loop.mk b f = (do
      match ← f () b with
      | .done val => pure val
      | .yield val => forIn Lean.Loop.mk val f) :=
  Lean.Loop.forIn_eq_of_monadTail (l := Lean.Loop.mk) (b := b) (f := f)

/-- body of the digit loop of the `String` methods of the multi-word integers, for a word type `W` -/
def strBody {W : Type} (N : Nat) (nz : W → Bool) (div10 : W → Go.GoM (W × UInt64)) :
    Unit → W × Vector UInt8 N × Int64 → Go.GoM (ForInStep (W × Vector UInt8 N × Int64)) :=
  fun _ s =>
    if nz s.1 = true then do
      let x ← div10 s.1
      let t ← Go.vset s.2.1 (Go.idx (s.2.2 - 1)) (48 + Go.conv x.2)
      pure (ForInStep.yield (x.1, t, s.2.2 - 1))
    else pure (ForInStep.done (s.1, s.2.1, s.2.2))

/-- the whole `String` method for a word type `W` with an `N`-byte buffer -/
def strProg {W : Type} (N : Nat) (i0 : Int64) (nz : W → Bool) (div10 : W → Go.GoM (W × UInt64))
    (n : W) : Go.GoM Go.Bytes :=
  if nz n = true then do
    let s ← forIn Lean.Loop.mk (n, (default : Vector UInt8 N), i0) (strBody N nz div10)
    Go.vsliceFrom s.2.1 (Go.idx s.2.2)
  else pure (Go.str "0")

theorem U128_String_eq (n : U128) :
    Gen.U128.String n = strProg 39 39 (fun n => (n.w0 ||| n.w1) != 0) Gen.U128.div10 n := by
  unfold Gen.U128.String strProg strBody
  by_cases h : (n.w0 ||| n.w1) = 0 <;> simp [h]

theorem U192_String_eq (n : U192) :
    Gen.U192.String n = strProg 58 58 (fun n => ((n.w0 ||| n.w1) ||| n.w2) != 0) Gen.U192.div10 n := by
  unfold Gen.U192.String strProg strBody
  by_cases h : ((n.w0 ||| n.w1) ||| n.w2) = 0 <;> simp [h]

theorem U256_String_eq (n : U256) :
    Gen.U256.String n
      = strProg 78 78 (fun n => (((n.w0 ||| n.w1) ||| n.w2) ||| n.w3) != 0) Gen.U256.div10 n := by
  unfold Gen.U256.String strProg strBody
  by_cases h : (((n.w0 ||| n.w1) ||| n.w2) ||| n.w3) = 0 <;> simp [h]

theorem U384_String_eq (n : U384) :
    Gen.U384.String n
      = strProg 116 116 (fun n => (((((n.w0 ||| n.w1) ||| n.w2) ||| n.w3) ||| n.w4) ||| n.w5) != 0)
          Gen.U384.div10 n := by
  unfold Gen.U384.String strProg strBody
  by_cases h : (((((n.w0 ||| n.w1) ||| n.w2) ||| n.w3) ||| n.w4) ||| n.w5) = 0 <;> simp [h]

theorem conv_digit (d : UInt64) : (Go.conv d : UInt8) = UInt8.ofNat d.toNat := by
  simp only [Go.conv, Go.GoInt.toInt, Go.GoInt.ofInt]
  apply UInt8.toNat_inj.mp
  simp [UInt8.ofInt]
  omega

theorem bmod64 (x : Int) (h : -2^63 ≤ x) (h' : x < 2^63) : Int.bmod x (2^64) = x := by
  rw [Int.bmod_eq_emod]; split <;> omega

theorem i64_sub_one (i : Int64) (h0 : 0 < i.toInt) : (i - 1).toInt = i.toInt - 1 := by
  have := i.toInt_lt
  rw [Int64.toInt_sub]
  exact bmod64 _ (by simp; omega) (by simp; omega)

theorem extract_set {N : Nat} (buf : Vector UInt8 N) (j : Nat) (v : UInt8) (h : j < N) :
    ((buf.set j v h).toArray.extract j N).toList = v :: (buf.toArray.extract (j + 1) N).toList := by
  apply List.ext_getElem
  · simp; omega
  · intro t h1 h2
    simp at h1 h2 ⊢
    cases t with
    | zero => simp
    | succ t => simp; congr 1; omega

section loop
variable {W : Type} (N : Nat) (toNat : W → Nat) (nz : W → Bool) (div10 : W → Go.GoM (W × UInt64))
  (hnz : ∀ w, nz w = true ↔ toNat w ≠ 0)
  (hdiv : ∀ w, ∃ q r, div10 w = .ok (q, r) ∧ toNat q = toNat w / 10 ∧ r.toNat = toNat w % 10)

include hnz hdiv in
/-- The loop `for n != 0 { n, d = n.div10(); i--; buf[i] = '0' + d }` started with `n < 10^i`, `0 ≤ i ≤ N`
    returns (no index panic) and leaves `digs n` in front of the bytes `buf[i:]` it found. -/
theorem str_loop (k : Nat) : ∀ (n : W) (buf : Vector UInt8 N) (i : Int64), toNat n = k →
    0 ≤ i.toInt → i.toInt ≤ N → toNat n < 10 ^ i.toInt.toNat →
    ∃ n' buf' i', forIn Lean.Loop.mk (n, buf, i) (strBody N nz div10) = .ok (n', buf', i') ∧
      0 ≤ i'.toInt ∧ i'.toInt ≤ i.toInt ∧
      (buf'.toArray.extract i'.toInt.toNat N).toList
        = digs (toNat n) ++ (buf.toArray.extract i.toInt.toNat N).toList := by
  induction k using Nat.strong_induction_on with
  | _ k ih =>
    intro n buf i hk h0 hN hlt
    rw [loop_unfold]
    by_cases hz : toNat n = 0
    · have : nz n = false := by
        cases h : nz n with
        | false => rfl
        | true => exact absurd hz ((hnz n).1 h)
      refine ⟨n, buf, i, ?_, h0, Int.le_refl _, ?_⟩
      · simp [strBody, this]; rfl
      · rw [hz, digs_zero]; rfl
    · have hnzt : nz n = true := (hnz n).2 hz
      obtain ⟨q, r, hd, hq, hr⟩ := hdiv n
      have hipos : 0 < i.toInt := by
        by_cases h : 0 < i.toInt
        · exact h
        · have : i.toInt = 0 := by omega
          rw [this] at hlt; simp at hlt; omega
      have hi1 := i64_sub_one i hipos
      have hj0 : 0 ≤ Go.idx (i - 1) := by simp only [Go.idx, Go.GoInt.toInt]; omega
      have hj1 : (Go.idx (i - 1)).toNat < N := by simp only [Go.idx, Go.GoInt.toInt]; omega
      have hjn : (Go.idx (i - 1)).toNat + 1 = i.toInt.toNat := by
        simp only [Go.idx, Go.GoInt.toInt]; omega
      have hqlt : toNat q < 10 ^ (i - 1).toInt.toNat := by
        have e : i.toInt.toNat = (i - 1).toInt.toNat + 1 := by omega
        rw [e, Nat.pow_succ] at hlt
        rw [hq]; omega
      obtain ⟨n', buf', i', hl, h0', hle', hex⟩ :=
        ih (toNat q) (by rw [hq, ← hk]; omega) q
          (buf.set (Go.idx (i - 1)).toNat (48 + Go.conv r) hj1) (i - 1) rfl (by omega) (by omega) hqlt
      refine ⟨n', buf', i', ?_, h0', by omega, ?_⟩
      · simp only [strBody, hnzt, if_true, hd, Go.vset, dif_pos (And.intro hj0 hj1)]
        exact hl
      · rw [hex, digs_pos _ hz, hq, conv_digit, hr]
        have : (i - 1).toInt.toNat = (Go.idx (i - 1)).toNat := rfl
        rw [this, extract_set, hjn]
        simp

include hnz hdiv in
/-- the whole method: decimal numeral of the value, for every word whose value is below `10^N` -/
theorem strProg_eq (i0 : Int64) (hNi : i0.toInt = (N : Int)) (hW : ∀ w, toNat w < 10 ^ N) (n : W) :
    strProg N i0 nz div10 n = .ok (Go.str (toString (toNat n))) := by
  unfold strProg
  by_cases hz : toNat n = 0
  · have : nz n = false := by
      cases h : nz n with
      | false => rfl
      | true => exact absurd hz ((hnz n).1 h)
    rw [hz]; simp only [this]; rfl
  · have hnzt : nz n = true := (hnz n).2 hz
    obtain ⟨n', buf', i', hl, h0', hle', hex⟩ :=
      str_loop N toNat nz div10 hnz hdiv (toNat n) n default i0 rfl
        (by rw [hNi]; omega) (by rw [hNi]) (by rw [hNi]; simpa using hW n)
    rw [hNi] at hle' hex
    simp only [hnzt, if_true, hl]
    show Go.vsliceFrom buf' (Go.idx i') = _
    have hc : 0 ≤ Go.idx i' ∧ Go.idx i' ≤ (N : Int) ∧ (N : Int).toNat ≤ N := by
      simp only [Go.idx, Go.GoInt.toInt]; omega
    simp only [Go.vsliceFrom, Go.vslice, if_pos hc]
    rw [str_toString _ hz]
    congr 1
    apply Array.toList_inj.mp
    have : (Go.idx i').toNat = i'.toInt.toNat := rfl
    rw [this, Int.toNat_natCast, hex]
    simp

end loop

open D128.Proofs.WordsWide

theorem U128_String_ok (n : U128) : Gen.U128.String n = .ok (Go.str (toString n.toNat)) := by
  rw [U128_String_eq]
  refine strProg_eq 39 U128.toNat _ _ ?_ U128_div10_spec 39 (by decide) ?_ n
  · intro w
    simp only [bne_iff_ne, ne_eq, UInt64.or_eq_zero_iff]
    simp only [U128.toNat, ← UInt64.toNat_inj, UInt64.toNat_zero]
    omega
  · intro w; have := w.toNat_lt; omega

theorem U192_String_ok (n : U192) : Gen.U192.String n = .ok (Go.str (toString n.toNat)) := by
  rw [U192_String_eq]
  refine strProg_eq 58 U192.toNat _ _ ?_ U192_div10_eq 58 (by decide) ?_ n
  · intro w
    simp only [bne_iff_ne, ne_eq, UInt64.or_eq_zero_iff]
    simp only [U192.toNat, ← UInt64.toNat_inj, UInt64.toNat_zero]
    omega
  · intro w; have := w.toNat_lt; omega

theorem U256_String_ok (n : U256) : Gen.U256.String n = .ok (Go.str (toString n.toNat)) := by
  rw [U256_String_eq]
  refine strProg_eq 78 U256.toNat _ _ ?_ U256_div10_eq 78 (by decide) ?_ n
  · intro w
    simp only [bne_iff_ne, ne_eq, UInt64.or_eq_zero_iff]
    simp only [U256.toNat, ← UInt64.toNat_inj, UInt64.toNat_zero]
    omega
  · intro w; have := w.toNat_lt; omega

theorem U384_String_ok (n : U384) : Gen.U384.String n = .ok (Go.str (toString n.toNat)) := by
  rw [U384_String_eq]
  refine strProg_eq 116 U384.toNat _ _ ?_ U384_div10_eq 116 (by decide) ?_ n
  · intro w
    simp only [bne_iff_ne, ne_eq, UInt64.or_eq_zero_iff]
    simp only [U384.toNat, ← UInt64.toNat_inj, UInt64.toNat_zero]
    omega
  · intro w; have := w.toNat_lt; omega

/-! ## D. e, π, φ to 34 significant digits -/

section reals
open Spec Spec.Encl EnclPf

/-- `e` lies within half a unit of the 34th digit of 2.718281828459045235360287471352662
    (from the proved enclosure `expTiny 1`; e·10^33 = …662.4977…) -/
theorem exp_one_near :
    |Real.exp 1 - (2718281828459045235360287471352662 : ℝ) / 10 ^ 33| < 1 / (2 * 10 ^ 33) := by
  obtain ⟨h1, h2⟩ := expTiny_sound 1 (by norm_num)
  have hl : (2718281828459045235360287471352662 : ℚ) / 10 ^ 33 - 1 / (2 * 10 ^ 33)
      < (expTiny 1).lo := by decide +kernel
  have hh : (expTiny 1).hi
      < (2718281828459045235360287471352662 : ℚ) / 10 ^ 33 + 1 / (2 * 10 ^ 33) := by decide +kernel
  have hl' := (Rat.cast_lt (K := ℝ)).2 hl
  have hh' := (Rat.cast_lt (K := ℝ)).2 hh
  push_cast at hl' hh' h1 h2
  rw [abs_lt]
  constructor <;> linarith

end reals

open Real in
/-- witnesses: upper approximations of `2 cos (π/2^(i+1))`, generated by the recipe of
    `Mathlib/Analysis/Real/Pi/Bounds.lean` (60 iterations) -/
theorem pi_gt_34 : (3.1415926535897932384626433832795025 : ℝ) < π := by
  pi_lower_bound [
    691738922446276322/489133282872437279,
    3859792339849775792/2088904561700863245,
    6663157375343901239/3396848172825593391,
    11065357693762229803/5559449113916636335,
    11376964167403046588/5695342373016358889,
    52809292250837642380/26412601107056882441,
    85867069243559550669/42936767681419264319,
    280581908657727903947/140293595316148648128,
    384573070637161384438/192287440259890665809,
    781172297019776714071/390586608053897319622,
    3333733386220732532709/1666867183397875314472,
    3375579967740662695619/1687790107980765356114,
    6861501849267261800393/3430750987703084257973,
    33938042072979255582951/16969021114477427838901,
    34745970377853293227867/17372985208887740544096,
    62343960496738041879885/31171980257322963203081,
    98548786905554500368949/49274393456315684945699,
    250058702102929166697131/125029351053709198507238,
    417990903554261117062457/208995451778068566997245,
    1178613083770687523729527/589306541886004989801383,
    504729223448904623274920/252364611724523102694247,
    2063181410864146213528110/1031590705432145449906493,
    3619199845404580540508090/1809599922702321996050011,
    20453830174512111747357992/10226915087256100698092579,
    42301895170029853683513725/21150947585014950017827411,
    106533238404113620668969044/53266619202056824926158483,
    79408594029082094237328943/39704297014541049837779020,
    284267297184126251301345455/142133648592063128084147822,
    429376764126379989830398423/214688382063189995834121008,
    1148637784812969573681323795/574318892406484787455220244,
    3015867235663932972026747198/1507933617831966486416770215,
    3258138398621092831279547479/1629069199310546415748724325,
    11012924330693581454928833336/5506462165346790727556483395,
    15495995204122725413744016227/7747997602061362706904394279,
    30439564782219871942823870057/15219782391109935971427839473,
    63759230199881158523942958942/31879615099940579261979807901,
    117338854120674856693430252542/58669427060337428346718958063,
    243653209213343506851275041243/121826604606671753425639509793,
    563926847431012028978083271820/281963423715506014489042786877,
    881792275034493217324747350481/440896137517246608662374125172,
    2588458267172574015751498740258/1294229133586287007875749700317,
    7273251961862660365991652925476/3636625980931330182995826694685,
    10235615717760030831811851238721/5117807858880015415905925700965,
    17518494397589691576046635333304/8759247198794845788023317701569,
    21592947901694451013829799047833/10796473950847225506914899534676,
    40607064254183328390151229537245/20303532127091664195075614773681,
    173843349508469736012081650093014/86921674754234868006040825051921,
    351090355287330641587754111967309/175545177643665320793877055986388,
    1041647258598957930593263525912781/520823629299478965296631762958418,
    1055261883680522608847626772986465/527630941840261304423813386493746,
    842565476745889522156819818743357/421282738372944761078409909371781,
    2235881069998848292942975519007102/1117940534999424146471487759503619,
    8351673408525109800110526203350375/4175836704262554900055263101675251,
    16045734737638793631708412548169377/8022867368819396815854206274084719,
    23147945195282194091644923020309976/11573972597641097045822461510154999,
    12626151924699378595442685283805449/6313075962349689297721342641902726,
    151513823096392543145312223405665411/75756911548196271572656111702832710,
    202018430795190057527082964540887223/101009215397595028763541482270443613,
    269357907726920076702777286054516301/134678953863460038351388643027258151,
    1077431630907680306811109144218065209/538715815453840153405554572109032605]

open Real in
theorem pi_lt_34 : π < (3.1415926535897932384626433832795035 : ℝ) := by
  pi_upper_bound [
    489133282872437279/345869461223138161,
    2441316121821379670/1321230764353768629,
    6410871106818292397/3268233748462553227,
    12268298512990075940/6163829781639686041,
    26510297538974505329/13271134432117783142,
    45702627851707761427/22858198387846754993,
    106339252174083302471/53173629963583917836,
    126059131829026655681/63030752450615648015,
    189369745404903304873/94685318309589958181,
    2995887485405467571918/1497945505107968452411,
    1234378211924405291833/617189287500480796518,
    3058810598032285954208/1529405411479872024851,
    2475667186244332005497/1237833615877967802742,
    15873144185814881800568/7936572129383074710429,
    6416262171251668790151/3208131089311890950357,
    13974627593103062820021/6987313798558590435785,
    114543500887838956537355/57271750448032209819623,
    269559133676130593775115/134779566840484954801958,
    505509182192862586478963/252754591097565700444313,
    596192456201562580447933/298096228101115767342090,
    2499221929410969242741091/1249610964705835151027456,
    3235269304650778003621157/1617634652325502442900586,
    10141921408279676135786647/5070960704139926971668480,
    11168459620140894918250144/5584229810070471934719561,
    24675331692271776438994015/12337665846135901738447537,
    84945685023600041623009715/42472842511800032446368857,
    50086895966793518645610128/25043447983396761037884007,
    284339852321106875149633890/142169926160553440008913149,
    331952945924156611242085158/165976472962078306331464807,
    462554276008245498339844913/231277138004122749417403947,
    2005294335567191507553991705/1002647167783595754045220176,
    8358485125381688724410439430/4179242562690844362484723449,
    1793043478299254988654834071/896521739149627494342406664,
    15005386732597633461686267271/7502693366298816730874494444,
    31332851277602454028049787278/15666425638801227014041264819,
    66414709432070440034830908092/33207354716035220017424129343,
    182907304526070993991213960272/91453652263035496995612953117,
    156527565432427738831907896273/78263782716213869415955226019,
    329255263679411272468655780853/164627631839705636234328562432,
    734694770203226851401209573869/367347385101613425700605161810,
    2147165752678774917980885128962/1073582876339387458990442838377,
    7987949538096773137709682274756/3993974769048386568854841392117,
    4648983558148345529544208471807/2324491779074172764772104272968,
    2501817805469570611563322939815/1250908902734785305781661474894,
    7978322820129772759466551987979/3989161410064886379733275997965,
    55710788954044143328585456753678/27855394477022071664292728383779,
    67334596217078137498584266761184/33667298108539068749292133382689,
    73146499848595134583583671763447/36573249924297567291791835882293,
    639887378833539877955072612342475/319943689416769938977536306172483,
    1211444752540736276369378739387577/605722376270368138184689369694378,
    1405645819741923007695767697610868/702822909870961503847883848805605,
    1430306272719851481514991692306013/715153136359925740757495846153050,
    4406000932056553989034687052161219/2203000466028276994517343526080643,
    8943524279995393171771902076028828/4471762139997696585885951038014431,
    13678331251757660145062909057455887/6839165625878830072531454528727950,
    29461021157631883389366265662212697/14730510578815941694683132831106352,
    117844084630527533557465062648850805/58922042315263766778732531324425406,
    269357907726920076702777286054516134/134678953863460038351388643027258069,
    269357907726920076702777286054516135/134678953863460038351388643027258068,
    1077431630907680306811109144218064533/538715815453840153405554572109032267]

/-- `π` lies within half a unit of the 34th digit of 3.141592653589793238462643383279503
    (π·10^33 = …502.884…) -/
theorem pi_near :
    |Real.pi - (3141592653589793238462643383279503 : ℝ) / 10 ^ 33| < 1 / (2 * 10 ^ 33) := by
  have h1 := pi_gt_34
  have h2 := pi_lt_34
  rw [abs_lt]
  constructor <;> norm_num at h1 h2 ⊢ <;> linarith

/-- the golden ratio lies within half a unit of the 34th digit of 1.618033988749894848204586834365638 -/
theorem phi_near :
    |(1 + Real.sqrt 5) / 2 - (1618033988749894848204586834365638 : ℝ) / 10 ^ 33|
      < 1 / (2 * 10 ^ 33) := by
  have hl : ((2 * 1618033988749894848204586834365638 - 1 - 10 ^ 33 : ℕ) : ℝ) / 10 ^ 33
      < Real.sqrt 5 := by
    apply Real.lt_sqrt_of_sq_lt
    rw [div_pow, div_lt_iff₀ (by positivity)]
    norm_num
  have hh : Real.sqrt 5
      < ((2 * 1618033988749894848204586834365638 + 1 - 10 ^ 33 : ℕ) : ℝ) / 10 ^ 33 := by
    rw [Real.sqrt_lt' (by positivity), div_pow, lt_div_iff₀ (by positivity)]
    norm_num
  rw [abs_lt]
  norm_num at hl hh ⊢
  constructor <;> linarith

end D128.Proofs.TotalStrings
