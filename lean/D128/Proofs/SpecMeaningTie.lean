/-
  D128/Proofs/SpecMeaningTie.lean — the tie rule of the two nearest modes stated without the spacing
  exponent: "if ANOTHER value of the format is exactly as near to r as the result, then (nearestEven) the
  result is the even one / (nearestAway) the result is the one of larger magnitude"; and what the spacing
  exponent `Spec.spacingExp q` is, declaratively.  Pure mathematics; no generated code.

  Provided (namespace `SpecMeaning`):
  * `spacingExp_isLeast`   : `spacingExp q` is the LEAST exponent `E ≥ Emin` with `⌊q/10^E⌋ ≤ Cmax`
  * `tie_of_equidistant`   : (magnitudes) nearest mode, finite result `c·10^e`, another member `x ≠ c·10^e` with
                             `|x − q| = |c·10^e − q|`  ⇒  the distance is exactly half the spacing `10^E/2`
  * `roundTo_tie_of_equidistant` : the same on signed values for the result of `roundTo m (r<0) |r|`; moreover
                             the other value has the sign of r and a different magnitude
  * `roundTo_tie_even`     : nearestEven, another value equally near ⇒ `|v|` is an EVEN multiple of the spacing
  * `roundTo_tie_away`     : nearestAway, another value equally near ⇒ `|x| < |v|`
-/
import D128.Proofs.SpecMeaningSelect

set_option autoImplicit false

namespace SpecMeaning
open Spec SpecRound

/-- the spacing exponent at magnitude q: the least exponent, not below `Emin`, at which the truncated
    coefficient `⌊q/10^E⌋` fits into `0..Cmax` -/
theorem spacingExp_isLeast {q : ℚ} (hq : 0 < q) :
    IsLeast {E : Int | Spec.Emin ≤ E ∧ ⌊q / (10 : ℚ) ^ E⌋₊ ≤ Spec.Cmax} (Spec.spacingExp q) := by
  obtain ⟨h1, h2, h3⟩ := spacingExp_spec q hq
  refine ⟨⟨h1, h2⟩, ?_⟩
  rintro E' ⟨hE1, hE2⟩
  by_contra hlt
  have hlt' : E' < Spec.spacingExp q := not_le.1 hlt
  have := h3 (by omega)
  have hanti : coef q (Spec.spacingExp q - 1) ≤ coef q E' := coef_antitone hq.le (by omega)
  unfold coef at this hanti
  omega

/-- magnitudes: in a nearest mode, a second member of the format exactly as near to q as the finite
    result forces the distance to be half the spacing (a genuine tie) -/
theorem tie_of_equidistant {m : Mode} (hn : isNearest m = true) {neg : Bool} {q : ℚ} (hq : 0 < q)
    {n : Bool} {c : Nat} {e : Int} (h : Spec.roundTo m neg q = .fin n c e)
    {x : ℚ} (hx : Member x) (hne : x ≠ (c : ℚ) * (10 : ℚ) ^ e)
    (heq : |x - q| = |(c : ℚ) * (10 : ℚ) ^ e - q|) :
    |(c : ℚ) * (10 : ℚ) ^ e - q| = (10 : ℚ) ^ (Spec.spacingExp q) / 2 := by
  obtain ⟨-, -, -, -, hval, -⟩ := roundTo_fin hq h
  have hhalf := roundTo_nearest_half hn hq h
  obtain ⟨c', e', hc', he1', -, rfl⟩ := hx
  have hfl := member_le_floor q hq hc' he1'
  have hce := ceil_le_member q hq hc' he1'
  obtain ⟨hs, hp, hqs, -, -, h3, h4, h5, h6⟩ := scaled_facts m neg q hq (Spec.spacingExp q)
  have hFC := floor_le_roundAt m neg q hq.le (Spec.spacingExp q)
  have hCK := roundAt_le_ceil m neg q hq.le (Spec.spacingExp q)
  have hKF : ⌈q / (10 : ℚ) ^ (Spec.spacingExp q)⌉₊ ≤ ⌊q / (10 : ℚ) ^ (Spec.spacingExp q)⌋₊ + 1 :=
    Nat.ceil_le_floor_add_one _
  rw [hval] at hhalf heq hne ⊢
  generalize Spec.spacingExp q = E at *
  generalize hC : Spec.roundAt m neg q E = C at *
  generalize hs' : q / (10 : ℚ) ^ E = s at *
  generalize (10 : ℚ) ^ E = p at *
  generalize hF : ⌊s⌋₊ = F at *
  generalize hK : ⌈s⌉₊ = K at *
  generalize (c' : ℚ) * (10 : ℚ) ^ e' = x at *
  -- q = s·p,  F ≤ s < F+1,  s ≤ K,  F ≤ C ≤ K ≤ F+1
  have hFp : (F : ℚ) * p ≤ q := by rw [hqs]; exact mul_le_mul_of_nonneg_right h3 hp.le
  have hKp : q ≤ (K : ℚ) * p := by rw [hqs]; exact mul_le_mul_of_nonneg_right h5 hp.le
  have hFK : F ≤ K := by rw [← hF, ← hK]; exact Nat.floor_le_ceil s
  have hCval : (C : ℚ) * p = (F : ℚ) * p ∨
      ((C : ℚ) * p = (F : ℚ) * p + p ∧ (K : ℚ) * p = (F : ℚ) * p + p) := by
    have : C = F ∨ (C = F + 1 ∧ K = F + 1) := by omega
    rcases this with h1 | ⟨h1, h2⟩
    · left; rw [h1]
    · right; rw [h1, h2]; push_cast; constructor <;> ring
  have hKval : (K : ℚ) * p = (F : ℚ) * p ∨ (K : ℚ) * p = (F : ℚ) * p + p := by
    have : K = F ∨ K = F + 1 := by omega
    rcases this with h1 | h1
    · left; rw [h1]
    · right; rw [h1]; push_cast; ring
  have hfl' : x ≤ q → x ≤ (F : ℚ) * p := hfl
  have hce' : q ≤ x → (K : ℚ) * p ≤ x := fun h => (hce h).1
  generalize (F : ℚ) * p = A at *
  generalize (C : ℚ) * p = Y at *
  generalize (K : ℚ) * p = B at *
  rcases le_total x q with hxq | hxq
  · have hx1 := hfl' hxq
    rcases hCval with hY | ⟨hY, hB⟩
    · exfalso
      rw [abs_of_nonpos (by linarith), abs_of_nonpos (by linarith)] at heq
      exact hne (by linarith)
    · rw [abs_of_nonneg (by linarith)] at hhalf ⊢
      rw [abs_of_nonpos (by linarith), abs_of_nonneg (by linarith)] at heq
      linarith
  · have hx1 := hce' hxq
    rcases hCval with hY | ⟨hY, hB⟩
    · rw [abs_of_nonpos (by linarith)] at hhalf ⊢
      rw [abs_of_nonneg (by linarith), abs_of_nonpos (by linarith)] at heq
      rcases hKval with hB | hB
      · exfalso; exact hne (by linarith)
      · linarith
    · exfalso
      rw [abs_of_nonneg (by linarith), abs_of_nonneg (by linarith)] at heq
      exact hne (by linarith)

/-- signed values: if another value of the format is exactly as near to r as the (finite) result of a
    nearest mode, the distance is half the spacing -/
theorem roundTo_tie_of_equidistant {m : Mode} (hn : isNearest m = true) {r : ℚ} (hr : r ≠ 0)
    {n : Bool} {c : Nat} {e : Int} (h : Spec.roundTo m (decide (r < 0)) |r| = .fin n c e)
    {x : ℚ} (hx : IsValue x) (hne : x ≠ (Val.fin n c e).toRat)
    (heq : |x - r| = |(Val.fin n c e).toRat - r|) :
    |(Val.fin n c e).toRat - r| = (10 : ℚ) ^ (Spec.spacingExp |r|) / 2 ∧
    |x| ≠ |(Val.fin n c e).toRat| ∧ |(|x|) - (|r|)| = |(|(Val.fin n c e).toRat|) - (|r|)| := by
  have hq : 0 < |r| := abs_pos.2 hr
  obtain ⟨hnn, -⟩ := roundTo_fin hq h
  have hy := toRat_fin' n c e
  have habs := abs_toRat_fin n c e
  have hy0 := mag_nonneg c e
  -- distance of the result in magnitudes
  have hdist : |(Val.fin n c e).toRat - r| = |(c : ℚ) * (10 : ℚ) ^ e - (|r|)| := by
    rw [hy, hnn]
    by_cases hneg : r < 0
    · simp only [hneg, decide_true, if_true]
      rw [abs_of_neg hneg, show -((c : ℚ) * (10 : ℚ) ^ e) - r = -((c : ℚ) * (10 : ℚ) ^ e - -r) by ring, abs_neg]
    · simp only [hneg, decide_false, Bool.false_eq_true, if_false]
      rw [abs_of_nonneg (not_lt.1 hneg)]
  have hnear : |(c : ℚ) * (10 : ℚ) ^ e - (|r|)| ≤ |(|x|) - (|r|)| := roundTo_nearest_member hn hq h hx
  have htri : |(|x|) - (|r|)| ≤ |x - r| := abs_abs_sub_abs_le_abs_sub x r
  have hmagEq : |(|x|) - (|r|)| = |(c : ℚ) * (10 : ℚ) ^ e - (|r|)| := by
    rw [heq, hdist] at htri; exact le_antisymm htri hnear
  -- x has the sign of r, hence |x| ≠ |y|
  have hxne : |x| ≠ (c : ℚ) * (10 : ℚ) ^ e := by
    intro hxe
    have hsame : |x - r| = |(|x|) - (|r|)| := by rw [heq, hdist, hmagEq]
    apply hne
    rw [hy, hnn]
    by_cases hneg : r < 0
    · simp only [hneg, decide_true, if_true]
      rw [abs_of_neg hneg] at hsame
      rcases le_or_gt 0 x with hx0 | hx0
      · rw [abs_of_nonneg hx0] at hsame hxe
        -- |x - r| = x - r (r<0≤x) = |x + r| → x = 0 or r = 0
        rw [abs_of_nonneg (by linarith), sub_neg_eq_add] at hsame
        rcases abs_cases (x + r) with ⟨h1, -⟩ | ⟨h1, -⟩
        · rw [h1] at hsame; linarith
        · rw [h1] at hsame
          have : x = 0 := by linarith
          rw [this] at hxe; rw [this]; linarith
      · rw [abs_of_neg hx0] at hxe; linarith
    · simp only [hneg, decide_false, Bool.false_eq_true, if_false]
      have hr0 : 0 < r := lt_of_le_of_ne (not_lt.1 hneg) (Ne.symm hr)
      rw [abs_of_pos hr0] at hsame
      rcases le_or_gt 0 x with hx0 | hx0
      · rw [abs_of_nonneg hx0] at hxe; exact hxe
      · rw [abs_of_neg hx0] at hsame hxe
        rw [abs_of_neg (by linarith)] at hsame
        rcases abs_cases (-x - r) with ⟨h1, -⟩ | ⟨h1, -⟩
        · rw [h1] at hsame; linarith
        · rw [h1] at hsame; linarith
  refine ⟨?_, by rw [habs]; exact hxne, by rw [habs]; exact hmagEq⟩
  rw [hdist]
  exact tie_of_equidistant hn hq h hx hxne hmagEq

/-- nearestEven: when another value is exactly as near, the result is the EVEN multiple of the spacing -/
theorem roundTo_tie_even {r : ℚ} (hr : r ≠ 0) {n : Bool} {c : Nat} {e : Int}
    (h : Spec.roundTo .nearestEven (decide (r < 0)) |r| = .fin n c e)
    {x : ℚ} (hx : IsValue x) (hne : x ≠ (Val.fin n c e).toRat)
    (heq : |x - r| = |(Val.fin n c e).toRat - r|) :
    ∃ C : Nat, |(Val.fin n c e).toRat| = (C : ℚ) * (10 : ℚ) ^ (Spec.spacingExp |r|) ∧ C % 2 = 0 := by
  obtain ⟨ht, -, -⟩ := roundTo_tie_of_equidistant (m := .nearestEven) rfl hr h hx hne heq
  have hs := roundTo_selected .nearestEven hr
  rw [h] at hs
  exact hs.tieEven rfl rfl ht

/-- nearestAway: when another value is exactly as near, the result is the one of larger magnitude -/
theorem roundTo_tie_away {r : ℚ} (hr : r ≠ 0) {n : Bool} {c : Nat} {e : Int}
    (h : Spec.roundTo .nearestAway (decide (r < 0)) |r| = .fin n c e)
    {x : ℚ} (hx : IsValue x) (hne : x ≠ (Val.fin n c e).toRat)
    (heq : |x - r| = |(Val.fin n c e).toRat - r|) :
    |x| < |(Val.fin n c e).toRat| := by
  obtain ⟨ht, hxne, hmag⟩ := roundTo_tie_of_equidistant (m := .nearestAway) rfl hr h hx hne heq
  have hs := roundTo_selected .nearestAway hr
  rw [h] at hs
  have hgt := hs.tieAway rfl rfl ht
  -- |y| > |r| and ||x| - |r|| = |y| - |r| with |x| ≠ |y|  ⇒  |x| = 2|r| - |y| < |y|
  rw [abs_of_nonneg (by linarith : 0 ≤ |(Val.fin n c e).toRat| - |r|)] at hmag
  rcases abs_cases (|x| - |r|) with ⟨h1, -⟩ | ⟨h1, -⟩
  · rw [h1] at hmag; exact absurd (by linarith) hxne
  · rw [h1] at hmag; linarith

example : Spec.spacingExp (2 / 3) = -34 := by decide +kernel
/-- 10^34 + 1/2 lies midway between the members 10^34 (even) and 10^34 + 1 -/
example : ∃ C : Nat, |(Val.fin false (10 ^ 34) 0).toRat| =
    (C : ℚ) * (10 : ℚ) ^ (Spec.spacingExp |(10 ^ 34 + 1 / 2 : ℚ)|) ∧ C % 2 = 0 :=
  roundTo_tie_even (r := 10 ^ 34 + 1 / 2) (by norm_num) (x := 10 ^ 34 + 1)
    (by decide +kernel)
    ⟨10 ^ 34 + 1, 0, by unfold Spec.Cmax; norm_num, by unfold Spec.Emin; norm_num,
      by unfold Spec.Emax; norm_num, by norm_num⟩
    (by decide +kernel) (by decide +kernel)

end SpecMeaning
