/-
  D128/Proofs/D192SubMath.lean — arithmetic side of the contract of `decomposed192.sub`
  (loop-state predicates and verification-condition lemmas for `D192Sub.lean`); builds on
  `D192AddMath.lean` (the alignment loops of `sub` and `add` are the same except for the flag values
  and the early `break` of the last loop).

  * `SubFin A B t1 e neg r t'` : the final subtraction `r = |A - B|`, `neg = (A < B)`, flag negated on borrow;
        `subFin_borrow`, `subFin_noborrow`
  * `DvNFin`, `dvNFin_of_guard`, `dvNFin_of_zero` : exit states of the last loop of the branch `exp < 0`
  * `SubNegPost`, `subNeg_post(A|B)` : result of the branch `exp < 0`
  * `DvPS`, `DvPSFin`, `dvPS_*` : the loops dividing `o.sig` in the branch `exp > 0` (both write `-1`)
  * `SubPosPost`, `subPos_post` : result of the branch `exp > 0`;  `SubPost` : result of `sub`
-/
import D128.Proofs.D192AddMath
set_option autoImplicit false
set_option maxRecDepth 4096
set_option exponentiation.threshold 512
open D128.Proofs.WordsWide
namespace D192

/-- final subtraction: `r = |A - B|` at exponent `e`, `neg = (A < B)`, the flag is negated on borrow. -/
def SubFin (A B : Nat) (t1 : Int8) (e : Int16) (neg : Bool) (r : Gen.decomposed192) (t' : Int8) : Prop :=
  r.exp = e ∧ (A < B → neg = true ∧ r.sig.toNat = B - A ∧ t' = t1 * (-1)) ∧
    (B ≤ A → neg = false ∧ r.sig.toNat = A - B ∧ t' = t1)

theorem subFin_borrow (d o : Gen.decomposed192) (t : Int8)
    (h : ¬ (Gen.U192.sub d.sig o.sig).2 = 0) :
    SubFin d.sig.toNat o.sig.toNat t d.exp true
      { sig := Gen.U192.twos (Gen.U192.sub d.sig o.sig).1, exp := d.exp } (t * -1) := by
  rw [U192_sub_snd] at h
  have hlt : d.sig.toNat < o.sig.toNat := by
    by_contra hge; rw [if_neg hge] at h; exact h rfl
  have hA := U192.toNat_lt d.sig
  have hB := U192.toNat_lt o.sig
  refine ⟨rfl, fun _ => ⟨rfl, ?_, rfl⟩, fun hle => by omega⟩
  show (Gen.U192.twos (Gen.U192.sub d.sig o.sig).1).toNat = _
  rw [U192_twos_toNat, U192_sub_fst_toNat]
  omega

theorem subFin_noborrow (d o : Gen.decomposed192) (t : Int8)
    (h : (Gen.U192.sub d.sig o.sig).2 = 0) :
    SubFin d.sig.toNat o.sig.toNat t d.exp false
      { sig := (Gen.U192.sub d.sig o.sig).1, exp := d.exp } t := by
  rw [U192_sub_snd] at h
  have hge : o.sig.toNat ≤ d.sig.toNat := by
    by_contra hlt
    rw [if_pos (by omega)] at h
    exact absurd h (by decide)
  refine ⟨rfl, fun hlt => by omega, fun _ => ⟨rfl, ?_, rfl⟩⟩
  exact U192_sub_toNat_of_le _ _ hge

/-! ### branch `exp < 0` -/
def DvNFin (d o : Gen.decomposed192) (t : Int8) (e : Int16) (d' : Gen.decomposed192) (trunc' : Int8) : Prop :=
  d'.exp = o.exp ∧ d'.sig.toNat = d.sig.toNat / 10 ^ negNat e ∧
      trunc' = if d.sig.toNat % 10 ^ negNat e = 0 then t else 1

theorem dvNFin_of_guard {d o : Gen.decomposed192} {t : Int8} {e : Int16} {d' : Gen.decomposed192}
    {trunc' : Int8} {exp' : Int16} (h : DvN d o t e d' trunc' exp') (hg : 0 ≤ exp') :
    DvNFin d o t e d' trunc' :=
  dvN_final h (by have := (i16_le_lit _ _).mp hg; simpa using this)

theorem dvNFin_of_zero {d o : Gen.decomposed192} {t : Int8} {e : Int16}
    (cur : Gen.decomposed192) (trunc' tr' : Int8) (exp' : Int16) (mb : Nat) (q : U192) (r : UInt64)
    (hdiv : q.toNat = cur.sig.toNat / 10 ^ 1 ∧ r.toNat = cur.sig.toNat % 10 ^ 1)
    (hg : exp' < 0)
    (hinv : mb = negNat exp' ∧ DvN d o t e cur trunc' exp')
    (htr : tr' = if r = 0 then trunc' else 1)
    (hz : (q.w0 = 0 ∧ q.w1 = 0) ∧ q.w2 = 0) :
    DvNFin d o t e { sig := q, exp := o.exp } tr' :=
  dvN_final (dvN_zero 1 (by norm_num) (by norm_num) cur trunc' tr' exp' mb q r hdiv
    (by have := (i16_lt_lit _ _).mp hg; simp at this; omega) hinv htr hz).2 (by simp)

/-- result of the branch `exp < 0` of `sub` -/
def SubNegPost (d o : Gen.decomposed192) (t : Int8) (e : Int16) (neg : Bool) (r : Gen.decomposed192)
    (t' : Int8) : Prop :=
  ∃ j k : Nat, j + k = negNat e ∧ o.sig.toNat * 10 ^ j < 2 ^ 192 ∧
    (k = 0 ∨ scaleLim ≤ o.sig.toNat * 10 ^ j) ∧
    SubFin (d.sig.toNat / 10 ^ k) (o.sig.toNat * 10 ^ j) (if d.sig.toNat % 10 ^ k = 0 then t else 1)
      (o.exp - Int16.ofNat j) neg r t'

theorem subNeg_post {d o : Gen.decomposed192} {t : Int8} {e : Int16} {o' : Gen.decomposed192}
    {exp' : Int16} {neg : Bool} {r : Gen.decomposed192} {t' : Int8} (X : Nat) (T : Int8)
    (hsc : ScN o e o' exp') (hbig : 0 ≤ exp'.toInt ∨ scaleLim ≤ o'.sig.toNat)
    (hX : X = d.sig.toNat / 10 ^ negNat exp')
    (hT : T = if d.sig.toNat % 10 ^ negNat exp' = 0 then t else 1)
    (h : SubFin X o'.sig.toNat T o'.exp neg r t') : SubNegPost d o t e neg r t' := by
  obtain ⟨h0, j, hj, hexp, hsig, hoexp⟩ := hsc
  refine ⟨j, negNat exp', hj, ?_, ?_, ?_⟩
  · rw [← hsig]; exact U192.toNat_lt _
  · rcases hbig with h | h
    · left; unfold negNat; omega
    · right; rw [← hsig]; exact h
  · rw [← hsig, ← hoexp, ← hX, ← hT]; exact h

theorem subNeg_postA {d o : Gen.decomposed192} {t : Int8} {e : Int16} {o' : Gen.decomposed192}
    {exp' : Int16} {neg : Bool} {r : Gen.decomposed192} {t' : Int8}
    (hinv : ScN o e o' exp' ∧ (0 ≤ exp'.toInt ∨ scaleLim ≤ o'.sig.toNat)) (hg : exp' < -57)
    (hnz : d.sig.w0 = 0 → d.sig.w1 = 0 → ¬ d.sig.w2 = 0)
    (h : SubFin ((default : U192).toNat / 10 ^ negNat 0) o'.sig.toNat 1 o'.exp neg r t') :
    SubNegPost d o t e neg r t' := by
  have hk : 58 ≤ negNat exp' := by
    have := (i16_lt_lit _ _).mp hg; simp at this; unfold negNat; omega
  obtain ⟨h1, h2⟩ := drop_all d.sig.toNat _ (U192.toNat_lt _) hk
  exact subNeg_post _ _ hinv.1 hinv.2 (by rw [h1, U192.default_toNat]; simp)
    (by rw [h2, if_neg (U192.toNat_pos_of _ hnz)]) h

theorem subNeg_postB {d o : Gen.decomposed192} {t : Int8} {e : Int16} {o' : Gen.decomposed192}
    {exp' : Int16} {neg : Bool} {r : Gen.decomposed192} {t' : Int8}
    (hinv : ScN o e o' exp' ∧ (0 ≤ exp'.toInt ∨ scaleLim ≤ o'.sig.toNat))
    (hz : d.sig.w0 = 0 ∧ d.sig.w1 = 0 ∧ d.sig.w2 = 0)
    (h : SubFin (d.sig.toNat / 10 ^ negNat 0) o'.sig.toNat
      (if d.sig.toNat % 10 ^ negNat 0 = 0 then t else 1) o'.exp neg r t') :
    SubNegPost d o t e neg r t' := by
  have h0 : d.sig.toNat = 0 := U192.toNat_eq_zero _ ⟨⟨hz.1, hz.2.1⟩, hz.2.2⟩
  exact subNeg_post _ _ hinv.1 hinv.2 (by rw [h0]; simp) (by rw [h0]; simp) h

/-! ### branch `exp > 0`: both dividing loops write `-1` -/
def DvPS (o : Gen.decomposed192) (t : Int8) (e : Int16) (o' : Gen.decomposed192) (trunc' : Int8)
    (exp' : Int16) : Prop :=
  0 ≤ exp'.toInt ∧
    ∃ i : Nat, i + posNat exp' = posNat e ∧ Dr o.sig.toNat t (-1) i o'.sig.toNat trunc'

def DvPSFin (o : Gen.decomposed192) (t : Int8) (e : Int16) (o' : Gen.decomposed192) (trunc' : Int8) : Prop :=
  o'.sig.toNat = o.sig.toNat / 10 ^ posNat e ∧
    trunc' = if o.sig.toNat % 10 ^ posNat e = 0 then t else -1

theorem dvPS_init (o : Gen.decomposed192) (t : Int8) (e : Int16) (h : 0 ≤ e.toInt) :
    DvPS o t e o t e :=
  ⟨h, 0, by simp, Dr.refl _ _ _⟩

theorem dvPS_step {o : Gen.decomposed192} {t : Int8} {e : Int16} (c : Nat) (hc0 : 0 < c) (hc : c < 100)
    (cur : Gen.decomposed192) (trunc' tr' : Int8) (exp' : Int16) (mb : Nat) (q : U192) (r : UInt64)
    (hdiv : q.toNat = cur.sig.toNat / 10 ^ c ∧ r.toNat = cur.sig.toNat % 10 ^ c)
    (hg : (c : Int) ≤ exp'.toInt)
    (hinv : mb = posNat exp' ∧ DvPS o t e cur trunc' exp')
    (htr : tr' = if r = 0 then trunc' else -1) :
    posNat (exp' - Int16.ofNat c) < mb ∧
      DvPS o t e { sig := q, exp := cur.exp } tr' (exp' - Int16.ofNat c) := by
  obtain ⟨hmb, h0, i, hi, hdr⟩ := hinv
  have hb := i16_bounds exp'
  have hsub : (exp' - Int16.ofNat c).toInt = exp'.toInt - c := i16_sub_nat _ _ (by omega) (by omega)
  refine ⟨?_, ?_, i + c, ?_, ?_⟩
  · rw [hmb]; unfold posNat; rw [hsub]; omega
  · rw [hsub]; omega
  · unfold posNat at *; rw [hsub]; omega
  · have := Dr.step c hdr q.toNat r.toNat hdiv.1 hdiv.2
    rw [htr]
    by_cases hr : r = 0
    · rwa [if_pos hr, if_pos ((u64_eq_zero_iff r).mp hr)] at *
    · rwa [if_neg hr, if_neg (fun h => hr ((u64_eq_zero_iff r).mpr h))] at *

theorem dvPS_zero {o : Gen.decomposed192} {t : Int8} {e : Int16} (c : Nat) (hc0 : 0 < c) (hc : c < 100)
    (cur : Gen.decomposed192) (trunc' tr' : Int8) (exp' : Int16) (mb : Nat) (q : U192) (r : UInt64)
    (hdiv : q.toNat = cur.sig.toNat / 10 ^ c ∧ r.toNat = cur.sig.toNat % 10 ^ c)
    (hg : (c : Int) ≤ exp'.toInt)
    (hinv : mb = posNat exp' ∧ DvPS o t e cur trunc' exp')
    (htr : tr' = if r = 0 then trunc' else -1)
    (hz : (q.w0 = 0 ∧ q.w1 = 0) ∧ q.w2 = 0) :
    posNat 0 < mb ∧ DvPS o t e { sig := q, exp := cur.exp } tr' 0 := by
  obtain ⟨hmb, h0, i, hi, hdr⟩ := hinv
  refine ⟨?_, by simp, posNat e, by simp [posNat], ?_⟩
  · rw [hmb, posNat_zero]; unfold posNat; omega
  · have h1 := Dr.step c hdr q.toNat r.toNat hdiv.1 hdiv.2
    rw [U192.toNat_eq_zero q hz] at h1
    have h2 := Dr.zero (posNat e) h1 (by unfold posNat at *; omega)
    show Dr _ _ _ _ q.toNat _
    rw [U192.toNat_eq_zero q hz, htr]
    by_cases hr : r = 0
    · rwa [if_pos hr, if_pos ((u64_eq_zero_iff r).mp hr)] at *
    · rwa [if_neg hr, if_neg (fun h => hr ((u64_eq_zero_iff r).mpr h))] at *

theorem dvPS_final {o : Gen.decomposed192} {t : Int8} {e : Int16} {o' : Gen.decomposed192}
    {trunc' : Int8} {exp' : Int16} (h : DvPS o t e o' trunc' exp') (h0 : exp'.toInt ≤ 0) :
    DvPSFin o t e o' trunc' := by
  obtain ⟨h1, i, hi, hdr⟩ := h
  have : i = posNat e := by unfold posNat at *; omega
  subst this
  exact ⟨hdr.1, hdr.2⟩

theorem dvPSFin_of_guard {o : Gen.decomposed192} {t : Int8} {e : Int16} {o' : Gen.decomposed192}
    {trunc' : Int8} {exp' : Int16} (h : DvPS o t e o' trunc' exp') (hg : exp' ≤ 0) :
    DvPSFin o t e o' trunc' :=
  dvPS_final h (by have := (i16_le_lit _ _).mp hg; simpa using this)

theorem dvPSFin_of_zero {o : Gen.decomposed192} {t : Int8} {e : Int16}
    (cur : Gen.decomposed192) (trunc' tr' : Int8) (exp' : Int16) (mb : Nat) (q : U192) (r : UInt64)
    (hdiv : q.toNat = cur.sig.toNat / 10 ^ 1 ∧ r.toNat = cur.sig.toNat % 10 ^ 1)
    (hg : 0 < exp')
    (hinv : mb = posNat exp' ∧ DvPS o t e cur trunc' exp')
    (htr : tr' = if r = 0 then trunc' else -1)
    (hz : (q.w0 = 0 ∧ q.w1 = 0) ∧ q.w2 = 0) :
    DvPSFin o t e { sig := q, exp := cur.exp } tr' :=
  dvPS_final (dvPS_zero 1 (by norm_num) (by norm_num) cur trunc' tr' exp' mb q r hdiv
    (by have := (i16_lt_lit _ _).mp hg; simp at this; omega) hinv htr hz).2 (by simp)

/-- result of the branch `exp > 0` of `sub` -/
def SubPosPost (d o : Gen.decomposed192) (t : Int8) (e : Int16) (neg : Bool) (r : Gen.decomposed192)
    (t' : Int8) : Prop :=
  ∃ j k : Nat, j + k = posNat e ∧ d.sig.toNat * 10 ^ j < 2 ^ 192 ∧
    (k = 0 ∨ scaleLim ≤ d.sig.toNat * 10 ^ j) ∧
    SubFin (d.sig.toNat * 10 ^ j) (o.sig.toNat / 10 ^ k) (if o.sig.toNat % 10 ^ k = 0 then t else -1)
      (d.exp - Int16.ofNat j) neg r t'

theorem subPos_post {d o : Gen.decomposed192} {t : Int8} {e : Int16} {d' : Gen.decomposed192}
    {exp' : Int16} {neg : Bool} {r : Gen.decomposed192} {t' : Int8} (X : Nat) (T : Int8)
    (hsc : ScP d e d' exp') (hbig : exp'.toInt ≤ 0 ∨ scaleLim ≤ d'.sig.toNat)
    (hX : X = o.sig.toNat / 10 ^ posNat exp')
    (hT : T = if o.sig.toNat % 10 ^ posNat exp' = 0 then t else -1)
    (h : SubFin d'.sig.toNat X T d'.exp neg r t') : SubPosPost d o t e neg r t' := by
  obtain ⟨h0, j, hj, hexp, hsig, hoexp⟩ := hsc
  refine ⟨j, posNat exp', hj, ?_, ?_, ?_⟩
  · rw [← hsig]; exact U192.toNat_lt _
  · rcases hbig with h | h
    · left; unfold posNat; omega
    · right; rw [← hsig]; exact h
  · rw [← hsig, ← hoexp, ← hX, ← hT]; exact h

theorem subPos_postA {d o : Gen.decomposed192} {t : Int8} {e : Int16} {d' : Gen.decomposed192}
    {exp' : Int16} {neg : Bool} {r : Gen.decomposed192} {t' : Int8}
    (hinv : ScP d e d' exp' ∧ (exp'.toInt ≤ 0 ∨ scaleLim ≤ d'.sig.toNat)) (hg : 57 < exp')
    (hnz : o.sig.w0 = 0 → o.sig.w1 = 0 → ¬ o.sig.w2 = 0)
    (h : SubFin d'.sig.toNat ((default : U192).toNat / 10 ^ posNat 0) (-1) d'.exp neg r t') :
    SubPosPost d o t e neg r t' := by
  have hk : 58 ≤ posNat exp' := by
    have := (i16_lt_lit _ _).mp hg; simp at this; unfold posNat; omega
  obtain ⟨h1, h2⟩ := drop_all o.sig.toNat _ (U192.toNat_lt _) hk
  exact subPos_post _ _ hinv.1 hinv.2 (by rw [h1, U192.default_toNat]; simp)
    (by rw [h2, if_neg (U192.toNat_pos_of _ hnz)]) h

theorem subPos_postB {d o : Gen.decomposed192} {t : Int8} {e : Int16} {d' : Gen.decomposed192}
    {exp' : Int16} {neg : Bool} {r : Gen.decomposed192} {t' : Int8}
    (hinv : ScP d e d' exp' ∧ (exp'.toInt ≤ 0 ∨ scaleLim ≤ d'.sig.toNat))
    (hz : o.sig.w0 = 0 ∧ o.sig.w1 = 0 ∧ o.sig.w2 = 0)
    (h : SubFin d'.sig.toNat (o.sig.toNat / 10 ^ posNat 0)
      (if o.sig.toNat % 10 ^ posNat 0 = 0 then t else -1) d'.exp neg r t') :
    SubPosPost d o t e neg r t' := by
  have h0 : o.sig.toNat = 0 := U192.toNat_eq_zero _ ⟨⟨hz.1, hz.2.1⟩, hz.2.2⟩
  exact subPos_post _ _ hinv.1 hinv.2 (by rw [h0]; simp) (by rw [h0]; simp) h

/-- result of `sub`: by the sign of the (wrapping) exponent difference `e = d.exp - o.exp`. -/
def SubPost (d o : Gen.decomposed192) (t : Int8) (neg : Bool) (r : Gen.decomposed192) (t' : Int8) : Prop :=
  ((d.exp - o.exp).toInt < 0 ∧ SubNegPost d o t (d.exp - o.exp) neg r t') ∨
  (0 < (d.exp - o.exp).toInt ∧ SubPosPost d o t (d.exp - o.exp) neg r t') ∨
  ((d.exp - o.exp).toInt = 0 ∧ SubFin d.sig.toNat o.sig.toNat t d.exp neg r t')

end D192
