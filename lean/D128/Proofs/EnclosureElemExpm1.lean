/-
  Soundness of the enclosure oracle, part 7: `Spec.trueValue .expm1`.

  `trueValue_expm1_sound` : 0 < c < 10^35 → trueValue .expm1 n c e = some (tn, t) →
        ∃ T, 0 < T ∧ T ∈ₛ t ∧ Real.exp X − 1 = (if tn then −T else T)           (X = (-1)^n·c·10^e)
  covering the five branches: |X| < 10^-40 (relative enclosure c·(1 ± 10^-39)·10^e), X ≤ −100, X ≥ 100,
  and the general `Encl.expm1` branch with either sign.
-/
import D128.Proofs.EnclosureElem
set_option autoImplicit false

namespace EnclPf
open Spec Spec.Encl SpecRound

theorem trueValue_expm1_eq (n : Bool) (c : Nat) (e : Int) :
    trueValue .expm1 n c e =
      let x : Rat := if e < -200 || e > 200 then 0 else (if n then -(mag c e) else mag c e)
      if e + (ndigits c : Int) > 7 then none
      else if e + (ndigits c : Int) < -40 then
        some (n, ⟨⟨(c : Rat) * (1 - pow10 (-39)), (c : Rat) * (1 + pow10 (-39))⟩, e⟩)
      else if n && e + (ndigits c : Int) > 2 then
        some (true, ⟨⟨1 - pow10 (-40), 1⟩, 0⟩)
      else if !n && e + (ndigits c : Int) > 2 then
        match Encl.exp x with
        | none => none
        | some t => some (false, ⟨⟨t.m.lo * (1 - pow10 (-40)), t.m.hi⟩, t.k⟩)
      else
        match Encl.expm1 x with
        | none => none
        | some v =>
          if v.lo > 0 then some (false, ⟨v, 0⟩) else if v.hi < 0 then some (true, ⟨v.neg, 0⟩) else none := rfl

/-! ## real-analysis facts -/

theorem expm1_tiny_pos {x δ : ℝ} (h0 : 0 ≤ x) (h1 : x ≤ δ) (hδ : δ ≤ 1) :
    x ≤ Real.exp x - 1 ∧ Real.exp x - 1 ≤ x * (1 + δ) := by
  have ha : |x| ≤ 1 := by rw [abs_of_nonneg h0]; linarith
  have h := abs_le.1 (Real.abs_exp_sub_one_sub_id_le ha)
  have := Real.add_one_le_exp x
  have : x ^ 2 ≤ x * δ := by rw [pow_two]; exact mul_le_mul_of_nonneg_left h1 h0
  constructor <;> nlinarith [h.1, h.2]

theorem expm1_tiny_neg {x δ : ℝ} (h0 : 0 ≤ x) (h1 : x ≤ δ) (hδ : δ ≤ 1) :
    x * (1 - δ) ≤ 1 - Real.exp (-x) ∧ 1 - Real.exp (-x) ≤ x := by
  have ha : |-x| ≤ 1 := by rw [abs_neg, abs_of_nonneg h0]; linarith
  have h := abs_le.1 (Real.abs_exp_sub_one_sub_id_le ha)
  have := Real.add_one_le_exp (-x)
  have : (-x) ^ 2 ≤ x * δ := by rw [neg_sq, pow_two]; exact mul_le_mul_of_nonneg_left h1 h0
  constructor <;> nlinarith [h.1, h.2]

theorem exp_neg_le_of_ge_100 {a : ℝ} (h : 100 ≤ a) : Real.exp (-a) ≤ 1 / 10 ^ 40 :=
  le_trans (Real.exp_le_exp.2 (by linarith)) exp_neg_100_le

/-- membership in a relative enclosure `c·(1 ± 10^-39) · 10^e` -/
theorem sciMem_rel {T u : ℝ} {c : Nat} {e : Int} (hu : (10 : ℝ) ^ (-39 : Int) = u)
    (h1 : (c : ℝ) * (10 : ℝ) ^ e * (1 - u) ≤ T)
    (h2 : T ≤ (c : ℝ) * (10 : ℝ) ^ e * (1 + u)) :
    T ∈ₛ (⟨⟨(c : Rat) * (1 - pow10 (-39)), (c : Rat) * (1 + pow10 (-39))⟩, e⟩ : Sci) := by
  have hp : (0 : ℝ) < (10 : ℝ) ^ e := zpow_pos (by norm_num) e
  rw [sciMem_mk]
  refine ⟨T / (10 : ℝ) ^ e, ?_, by field_simp⟩
  rw [mem_mk, Rat.cast_mul, Rat.cast_mul, Rat.cast_sub, Rat.cast_add, pow10_cast, hu]
  push_cast
  constructor
  · rw [le_div_iff₀ hp]; linarith
  · rw [div_le_iff₀ hp]; linarith

/-! ## the theorem -/

theorem trueValue_expm1_sound (n : Bool) (c : Nat) (e : Int) (tn : Bool) (t : Sci)
    (hc0 : c ≠ 0) (hc : c < 10 ^ 35) (h : trueValue .expm1 n c e = some (tn, t)) :
    ∃ T : ℝ, 0 < T ∧ T ∈ₛ t ∧ Real.exp (X n c e) - 1 = if tn then -T else T := by
  rw [trueValue_expm1_eq] at h
  simp only at h
  have hnd := ndigits_le_35 hc0 hc
  have hnd1 := ndigits_pos c
  have hA0 : (0 : ℝ) ≤ (c : ℝ) * (10 : ℝ) ^ e := by positivity
  have hXabs := abs_X n c e
  have hXlt := abs_X_lt n hc0 e
  have hXge := abs_X_ge n hc0 e
  rw [hXabs] at hXlt hXge
  have hApos : (0 : ℝ) < (c : ℝ) * (10 : ℝ) ^ e := by
    have : (0 : ℝ) < (c : ℝ) := by exact_mod_cast Nat.pos_of_ne_zero hc0
    positivity
  have hexp1 : 0 < Real.exp ((c : ℝ) * (10 : ℝ) ^ e) - 1 := by
    have := Real.add_one_lt_exp hApos.ne'; linarith
  have hexp2 : 0 < 1 - Real.exp (-((c : ℝ) * (10 : ℝ) ^ e)) := by
    have := Real.exp_lt_one_iff.2 (by linarith : -((c : ℝ) * (10 : ℝ) ^ e) < 0); linarith
  split at h
  · exact absurd h (by simp)
  rename_i h7
  split at h
  · -- |X| < 10^-40
    rename_i h40
    simp only [Option.some.injEq, Prod.mk.injEq] at h
    obtain ⟨rfl, rfl⟩ := h
    have h2 : (10 : ℝ) ^ (e + (ndigits c : Int)) ≤ (10 : ℝ) ^ (-39 : Int) :=
      zpow_le_zpow_right₀ (by norm_num) (by omega)
    have hu1 : (10 : ℝ) ^ (-39 : Int) ≤ 1 := zpow_le_one_of_nonpos₀ (by norm_num) (by norm_num)
    have hAu : (c : ℝ) * (10 : ℝ) ^ e ≤ (10 : ℝ) ^ (-39 : Int) := le_trans hXlt.le h2
    generalize hu : (10 : ℝ) ^ (-39 : Int) = u at *
    cases n
    · -- positive operand
      obtain ⟨b1, b2⟩ := expm1_tiny_pos hA0 hAu hu1
      refine ⟨Real.exp (X false c e) - 1, ?_, ?_, by simp⟩
      · rw [X_eq]; simpa using hexp1
      rw [X_eq]; simp only [Bool.false_eq_true, if_false]
      apply sciMem_rel hu <;> nlinarith
    · obtain ⟨b1, b2⟩ := expm1_tiny_neg hA0 hAu hu1
      refine ⟨1 - Real.exp (X true c e), ?_, ?_, by simp⟩
      · rw [X_eq]; simpa using hexp2
      rw [X_eq]; simp only [if_true]
      apply sciMem_rel hu <;> nlinarith
  rename_i h40
  split at h
  · -- X ≤ -100
    rename_i hneg
    simp only [Bool.and_eq_true, decide_eq_true_eq] at hneg
    obtain ⟨rfl, h2⟩ := hneg
    simp only [Option.some.injEq, Prod.mk.injEq] at h
    obtain ⟨rfl, rfl⟩ := h
    have hA : (100 : ℝ) ≤ (c : ℝ) * (10 : ℝ) ^ e := by
      have : (10 : ℝ) ^ (2 : Int) ≤ (10 : ℝ) ^ (e + (ndigits c : Int) - 1) :=
        zpow_le_zpow_right₀ (by norm_num) (by omega)
      have e2 : (10 : ℝ) ^ (2 : Int) = 100 := by norm_num
      linarith
    have hb := exp_neg_le_of_ge_100 hA
    have hpos := Real.exp_pos (-((c : ℝ) * (10 : ℝ) ^ e))
    refine ⟨1 - Real.exp (X true c e), ?_, ?_, by simp⟩
    · rw [X_eq]; simpa using hexp2
    rw [X_eq]; simp only [if_true]
    rw [sciMem_mk]
    refine ⟨1 - Real.exp (-((c : ℝ) * (10 : ℝ) ^ e)), ?_, by simp⟩
    rw [mem_mk, Rat.cast_sub, pow10_cast]
    have e40 : (10 : ℝ) ^ (-40 : Int) = 1 / 10 ^ 40 := by norm_num
    rw [e40]; push_cast
    constructor <;> linarith
  rename_i hneg
  split at h
  · -- X ≥ 100
    rename_i hpos
    simp only [Bool.and_eq_true, Bool.not_eq_true', decide_eq_true_eq] at hpos
    obtain ⟨rfl, h2⟩ := hpos
    rw [xguard false c e (by omega) (by omega)] at h
    split at h
    · exact absurd h (by simp)
    rename_i s hse
    simp only [Option.some.injEq, Prod.mk.injEq] at h
    obtain ⟨rfl, rfl⟩ := h
    have hs := exp_sound hse
    obtain ⟨z, hz, hzT⟩ := hs
    have hA : (100 : ℝ) ≤ (c : ℝ) * (10 : ℝ) ^ e := by
      have : (10 : ℝ) ^ (2 : Int) ≤ (10 : ℝ) ^ (e + (ndigits c : Int) - 1) :=
        zpow_le_zpow_right₀ (by norm_num) (by omega)
      have e2 : (10 : ℝ) ^ (2 : Int) = 100 := by norm_num
      linarith
    have hXv : X false c e = (c : ℝ) * (10 : ℝ) ^ e := by rw [X_eq]; simp
    have hb := exp_neg_le_of_ge_100 hA
    have hδpos := Real.exp_pos (-((c : ℝ) * (10 : ℝ) ^ e))
    set δ := Real.exp (-((c : ℝ) * (10 : ℝ) ^ e)) with hδ
    have hk : (0 : ℝ) < (10 : ℝ) ^ s.k := zpow_pos (by norm_num) _
    have hzpos : 0 < z := by
      have : 0 < z * (10 : ℝ) ^ s.k := by
        rw [← hzT]; exact Real.exp_pos _
      exact (mul_pos_iff_of_pos_right hk).1 this
    refine ⟨Real.exp (X false c e) - 1, ?_, ?_, by simp⟩
    · rw [hXv]; exact hexp1
    rw [sciMem_mk]
    refine ⟨z * (1 - δ), ?_, ?_⟩
    · rw [mem_mk, Rat.cast_mul, Rat.cast_sub, pow10_cast]
      have e40 : (10 : ℝ) ^ (-40 : Int) = 1 / 10 ^ 40 := by norm_num
      rw [e40]; push_cast
      have hδ1 : δ ≤ 1 := le_trans hb (by norm_num)
      constructor
      · rcases le_total 0 (s.m.lo : ℝ) with hl | hl
        · have := hz.1
          have h1 : (s.m.lo : ℝ) * (1 - 1 / 10 ^ 40) ≤
              z * (1 - 1 / 10 ^ 40) := mul_le_mul_of_nonneg_right hz.1 (by norm_num)
          have h2 : z * (1 - 1 / 10 ^ 40) ≤ z * (1 - δ) := mul_le_mul_of_nonneg_left (by linarith) hzpos.le
          linarith
        · have h1 : (s.m.lo : ℝ) * (1 - 1 / 10 ^ 40) ≤ 0 :=
            mul_nonpos_of_nonpos_of_nonneg hl (by norm_num)
          have h2 : 0 ≤ z * (1 - δ) := mul_nonneg hzpos.le (by linarith)
          linarith
      · have : z * (1 - δ) ≤ z * 1 := mul_le_mul_of_nonneg_left (by linarith) hzpos.le
        linarith [hz.2]
    · have hX' : Real.exp (X false c e) = z * (10 : ℝ) ^ s.k := hzT
      have hone : Real.exp (X false c e) * δ = 1 := by
        rw [hδ, ← hXv, ← Real.exp_add]; simp
      rw [show Real.exp (X false c e) - 1 = Real.exp (X false c e) * (1 - δ) by rw [mul_sub, hone, mul_one],
        hX']
      ring
  rename_i hpos
  -- general branch
  have he2 : e + (ndigits c : Int) ≤ 2 := by
    by_contra hcon
    have hcon : e + (ndigits c : Int) > 2 := by omega
    cases n
    · exact hpos (by simp [hcon])
    · exact hneg (by simp [hcon])
  rw [xguard n c e (by omega) (by omega)] at h
  split at h
  · exact absurd h (by simp)
  rename_i v hv
  have hs := expm1_sound hv
  change (Real.exp (X n c e) - 1) ∈ᵢ _ at hs
  split at h
  · rename_i hvpos
    simp only [Option.some.injEq, Prod.mk.injEq] at h
    obtain ⟨rfl, rfl⟩ := h
    have : (0 : ℝ) < (v.lo : ℝ) := by exact_mod_cast hvpos
    exact ⟨Real.exp (X n c e) - 1, lt_of_lt_of_le this hs.1, ⟨_, hs, by simp⟩, by simp⟩
  · split at h
    · rename_i hvneg
      simp only [Option.some.injEq, Prod.mk.injEq] at h
      obtain ⟨rfl, rfl⟩ := h
      have : (v.hi : ℝ) < 0 := by exact_mod_cast hvneg
      exact ⟨-(Real.exp (X n c e) - 1), by linarith [hs.2], ⟨_, mem_neg hs, by simp⟩, by simp⟩
    · exact absurd h (by simp)

/-- the oracle answers for Expm1 whenever the argument is not huge, except when the enclosure of the result
    straddles zero (which does not happen for a non-zero operand, but that needs a width bound) -/
theorem trueValue_expm1_isSome_or (n : Bool) (c : Nat) (e : Int) (hc0 : c ≠ 0) (hc : c < 10 ^ 35)
    (h7 : e + (ndigits c : Int) ≤ 7) :
    (∃ tn t, trueValue .expm1 n c e = some (tn, t)) ∨
    (e + (ndigits c : Int) ≤ 2 ∧ ∃ v, Encl.expm1 (Val.fin n c e).toRat = some v ∧ v.lo ≤ 0 ∧ 0 ≤ v.hi) := by
  have hnd := ndigits_le_35 hc0 hc
  have hnd1 := ndigits_pos c
  rw [trueValue_expm1_eq]
  simp only
  rw [if_neg (by omega)]
  split
  · exact Or.inl ⟨_, _, rfl⟩
  rename_i h40
  split
  · exact Or.inl ⟨_, _, rfl⟩
  rename_i hneg
  split
  · rw [xguard n c e (by omega) (by omega)]
    obtain ⟨s, hs⟩ := exp_isSome (Val.fin n c e).toRat
      (le_trans (abs_toRat_le_of n hc0 e 7 (by omega)) (by norm_num))
    rw [hs]; exact Or.inl ⟨_, _, rfl⟩
  rename_i hpos
  have he2 : e + (ndigits c : Int) ≤ 2 := by
    by_contra hcon
    have hcon : e + (ndigits c : Int) > 2 := by omega
    cases n
    · exact hpos (by simp [hcon])
    · exact hneg (by simp [hcon])
  rw [xguard n c e (by omega) (by omega)]
  obtain ⟨v, hv⟩ := expm1_isSome (Val.fin n c e).toRat
    (le_trans (abs_toRat_le_of n hc0 e 2 (by omega)) (by norm_num))
  rw [hv]
  simp only
  split
  · exact Or.inl ⟨_, _, rfl⟩
  · split
    · exact Or.inl ⟨_, _, rfl⟩
    · rename_i h1 h2
      exact Or.inr ⟨he2, v, rfl, not_lt.1 h1, not_lt.1 h2⟩

end EnclPf
