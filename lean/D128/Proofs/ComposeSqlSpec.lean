/-
  D128/Proofs/ComposeSqlSpec.lean — `Gen.Decimal.Compose` / `Gen.Decimal.Decompose` against the
  executable specification `Spec.composeExpect` / `Spec.decomposeExpect` (D128/Spec/Conv.lean), and the
  round trip.

  Provided (namespace `CS`):
  * `shortcut`               : the digit-count shortcut of `composeExpect` never rejects a member
  * `composeExpect_zero`, `composeExpect_member`, `composeExpect_not_member` : `composeExpect` (form 0) in
      terms of `SpecRound.Member`
  * `Compose_agrees`         : for ALL forms, signs, byte strings (shorter than 2^60 bytes) and int32
      exponents, `Gen.Decimal.Compose` returns what `Spec.composeExpect` demands
      (`.ok v` ⇒ success with a Decimal that is `Val.same` as `v`; `.error` ⇒ the matching error and `d`)
  * `NoLead`, `go_eq`, `beBytes_eq` : `Spec.beBytes n` is the unique big-endian string of `n` without
      leading zero byte (up to 64 bytes)
  * `Decompose_agrees`       : `Gen.Decimal.Decompose d buf` returns `Spec.decomposeExpect 𝔳[d]`, any `buf`
  * `roundtrip_fin`, `roundtrip_inf`, `roundtrip_nan`
-/
import D128.Proofs.ComposeSqlDecompose
import D128.Proofs.QuantizeSpec
import D128.Proofs.CanonEq
import D128.Spec.Conv
set_option autoImplicit false
set_option maxRecDepth 8192

namespace CS
open SpecRound (Member)
open Gen

local notation "𝔳[" d "]" => Spec.interp (Gen.Decimal.lo d) (Gen.Decimal.hi d)

/-! ## `composeExpect`, form 0 -/

theorem Cmax_lt_pow35 : Spec.Cmax < 10 ^ 35 := by rw [Cmax_val]; norm_num

/-- the digit-count shortcut of `composeExpect` never rejects a member -/
theorem shortcut {n : Nat} {x : Int} (hn : n ≠ 0) (h : Member ((n : ℚ) * (10 : ℚ) ^ x)) :
    ¬ ((Spec.ndigits n : Int) + x > Spec.Emax + 40) ∧ ¬ ((Spec.ndigits n : Int) + x < Spec.Emin - 1) := by
  obtain ⟨h1, h2⟩ := SpecRound.ndigits_spec n hn
  have hnd := SpecRound.ndigits_pos n
  obtain ⟨c, e, hc, he1, he2, hcase⟩ := member_nat h
  have hC := Cmax_lt_pow35
  rw [Emin_val] at *
  rw [Emax_val] at *
  rcases hcase with ⟨hex, hce⟩ | ⟨hxe, hne⟩
  · -- c = n · 10^(x-e)
    have h3 : 10 ^ (Spec.ndigits n - 1 + (x - e).toNat) ≤ c := by
      rw [hce, Nat.pow_add]; exact Nat.mul_le_mul_right _ h1
    have h4 : 10 ^ (Spec.ndigits n - 1 + (x - e).toNat) < 10 ^ 35 := by omega
    have h5 := pow10_lt_imp h4
    constructor <;> omega
  · -- n = c · 10^(e-x)
    have hcpos : 0 < c := by
      rcases Nat.eq_zero_or_pos c with h0 | h0
      · rw [h0] at hne; simp at hne; exact absurd hne hn
      · exact h0
    have h3 : n < 10 ^ (35 + (e - x).toNat) := by
      rw [hne, Nat.pow_add]
      exact Nat.mul_lt_mul_of_lt_of_le (by omega) (le_refl _) (by positivity)
    have h4 : 10 ^ (Spec.ndigits n - 1) < 10 ^ (35 + (e - x).toNat) := by omega
    have h5 := pow10_lt_imp h4
    have h6 : 10 ^ (e - x).toNat ≤ n := by
      rw [hne]; exact Nat.le_mul_of_pos_left _ hcpos
    have h7 : 10 ^ (e - x).toNat < 10 ^ Spec.ndigits n := by omega
    have h8 := pow10_lt_imp h7
    constructor <;> omega

theorem composeExpect_zero (neg : Bool) (b : Array UInt8) (x : Int) (h : Spec.beNat b = 0) :
    Spec.composeExpect 0 neg b x = .ok (.fin neg 0 0) := by
  simp [Spec.composeExpect, h]

theorem natCast_pos_rat {n : Nat} (hn : n ≠ 0) : (0 : ℚ) < (n : ℚ) := by
  exact_mod_cast Nat.pos_of_ne_zero hn

theorem composeExpect_member (neg : Bool) (b : Array UInt8) (x : Int) (hn : Spec.beNat b ≠ 0)
    (hm : Member ((Spec.beNat b : ℚ) * (10 : ℚ) ^ x)) :
    ∃ c e, Spec.composeExpect 0 neg b x = .ok (.fin neg c e) ∧
      (c : ℚ) * (10 : ℚ) ^ e = (Spec.beNat b : ℚ) * (10 : ℚ) ^ x := by
  obtain ⟨s1, s2⟩ := shortcut hn hm
  obtain ⟨c, e, hce, hv, -⟩ := Qz.exactOrInfS_member neg _ x (natCast_pos_rat hn) hm
  obtain ⟨c', e', hce', -⟩ := Qz.exactOrInfS_member false _ x (natCast_pos_rat hn) hm
  refine ⟨c, e, ?_, hv⟩
  have hmem : Spec.isMemberS (Spec.beNat b : ℚ) x = true := by
    unfold Spec.isMemberS
    rw [hce']; simp [Spec.Val.isFin]
  have hn' : (Spec.beNat b == 0) = false := by simpa using hn
  simp only [Spec.composeExpect, hn', Bool.false_eq_true, if_false, decide_eq_true_eq, Bool.or_eq_true]
  rw [if_neg (by rintro (h | h); exact s1 h; exact s2 h), if_pos hmem, hce]

theorem composeExpect_not_member (neg : Bool) (b : Array UInt8) (x : Int) (hn : Spec.beNat b ≠ 0)
    (hm : ¬ Member ((Spec.beNat b : ℚ) * (10 : ℚ) ^ x)) :
    Spec.composeExpect 0 neg b x = .error "composeRange" := by
  have hinf := Qz.exactOrInfS_not_member false _ x (natCast_pos_rat hn) hm
  have hmem : Spec.isMemberS (Spec.beNat b : ℚ) x = false := by
    unfold Spec.isMemberS
    rw [hinf]
    have : ¬ ((Spec.beNat b : ℚ) = 0) := (natCast_pos_rat hn).ne'
    simp [Spec.Val.isFin, this]
  have hn' : (Spec.beNat b == 0) = false := by simpa using hn
  simp only [Spec.composeExpect, hn', Bool.false_eq_true, if_false]
  split
  · rfl
  · rw [hmem]; rfl

/-! ## Compose against `composeExpect`, all inputs -/

theorem same_refl_inf (n : Bool) : (Spec.Val.inf n).same (.inf n) = true := by
  simp [Spec.Val.same]

theorem Compose_agrees (d : Decimal) (form : UInt8) (neg : Bool) (b : Go.Bytes) (exp : Int32)
    (hsz : b.size < 2 ^ 60) :
    match Spec.composeExpect form.toNat neg b exp.toInt with
    | .ok v => ∃ d', Gen.Decimal.Compose d form neg b exp = .ok (d', Go.Err.nil) ∧
        (𝔳[d']).same v = true
    | .error cls =>
        (cls = "composeRange" ∧ Gen.Decimal.Compose d form neg b exp = .ok (d, Go.Err.composeRangeError)) ∨
        (cls = "composeForm" ∧ Gen.Decimal.Compose d form neg b exp = .ok (d, Go.Err.composeFormError)) := by
  by_cases h0 : form = 0
  · subst h0
    have e0 : (0 : UInt8).toNat = 0 := rfl
    rw [e0]
    obtain ⟨r, hr, hres⟩ := Compose_form0 d neg b exp hsz
    unfold Res0 at hres
    by_cases hn : Spec.beNat b = 0
    · rw [if_pos hn] at hres
      rw [composeExpect_zero neg b _ hn]
      refine ⟨Gen.zero neg, by rw [hr, hres], ?_⟩
      rw [Enc.interp_zero]
      exact Qz.same_fin_of_mag neg 0 0 _ _ (by simp)
    · rw [if_neg hn] at hres
      by_cases hm : Member ((Spec.beNat b : ℚ) * (10 : ℚ) ^ exp.toInt)
      · obtain ⟨c', e', hce, hv'⟩ := composeExpect_member neg b exp.toInt hn hm
        obtain ⟨hnil, c, e, hi, -, -, -, hv⟩ := hres.member hm
        rw [hce]
        refine ⟨r.1, ?_, ?_⟩
        · rw [hr]; congr 1; rw [← hnil]
        · rw [hi]
          exact Qz.same_fin_of_mag neg c c' e e' (by rw [hv, hv'])
      · rw [composeExpect_not_member neg b exp.toInt hn hm]
        exact Or.inl ⟨rfl, by rw [hr, hres.not_member hm]⟩
  by_cases h1 : form = 1
  · subst h1
    have e1 : (1 : UInt8).toNat = 1 := rfl
    rw [e1]
    show ∃ d', _ ∧ (𝔳[d']).same (.inf neg) = true
    exact ⟨_, Compose_form1 d neg b exp, by rw [Enc.interp_inf]; exact same_refl_inf neg⟩
  by_cases h2 : form = 2
  · subst h2
    have e2 : (2 : UInt8).toNat = 2 := rfl
    rw [e2]
    show ∃ d', _ ∧ (𝔳[d']).same (.nan false 1) = true
    exact ⟨_, Compose_form2 d neg b exp, by rw [Enc.interp_nan]; decide⟩
  · have hk : ∃ k, form.toNat = k + 3 := by
      have : form.toNat ≠ 0 := fun h => h0 (UInt8.toNat_inj.mp h)
      have : form.toNat ≠ 1 := fun h => h1 (UInt8.toNat_inj.mp h)
      have : form.toNat ≠ 2 := fun h => h2 (UInt8.toNat_inj.mp h)
      exact ⟨form.toNat - 3, by omega⟩
    obtain ⟨k, hk⟩ := hk
    rw [hk]
    show _ ∨ _
    exact Or.inr ⟨rfl, Compose_formOther d form neg b exp h0 h1 h2⟩

/-! ## `Spec.beBytes` -/

/-- no leading zero byte -/
def NoLead (l : List UInt8) : Prop := ∀ h t, l = h :: t → h ≠ 0

theorem go_zero (fuel : Nat) (acc : List UInt8) : Spec.beBytes.go fuel 0 acc = acc := by
  cases fuel <;> simp [Spec.beBytes.go]

theorem go_eq (fuel : Nat) : ∀ (l acc : List UInt8), NoLead l → l.length ≤ fuel →
    Spec.beBytes.go fuel (beL l) acc = l ++ acc := by
  induction fuel with
  | zero =>
    intro l acc _ hl
    have : l = [] := List.eq_nil_of_length_eq_zero (by omega)
    subst this; rfl
  | succ f ih =>
    intro l acc hn hl
    rcases List.eq_nil_or_concat l with rfl | ⟨l', x, rfl⟩
    · exact go_zero _ _
    · simp only [List.concat_eq_append] at hn hl ⊢
      have hne : beL (l' ++ [x]) ≠ 0 := by
        cases l' with
        | nil =>
          have := hn x [] rfl
          have hx : x.toNat ≠ 0 := fun h => this (UInt8.toNat_inj.mp h)
          simpa [beL] using hx
        | cons h t =>
          have hh := hn h (t ++ [x]) rfl
          have := beL_ge h (t ++ [x]) hh
          have hp : 0 < 256 ^ (t ++ [x]).length := by positivity
          simp only [List.cons_append]
          omega
      have hb : beL (l' ++ [x]) = beL l' * 256 + x.toNat := beL_append_one l' x
      have hx := x.toNat_lt
      have hdiv : beL (l' ++ [x]) / 256 = beL l' := by rw [hb]; omega
      have hmod : beL (l' ++ [x]) % 256 = x.toNat := by rw [hb]; omega
      have hne' : (beL (l' ++ [x]) == 0) = false := by simpa using hne
      rw [Spec.beBytes.go, hne']
      simp only [Bool.false_eq_true, if_false]
      rw [hdiv, hmod]
      have hxx : UInt8.ofNat x.toNat = x := by simp
      rw [hxx, ih l' (x :: acc)]
      · simp
      · intro h t ht
        exact hn h (t ++ [x]) (by rw [ht]; rfl)
      · simp at hl; omega

theorem beBytes_eq (l : List UInt8) (hn : NoLead l) (hl : l.length ≤ 64) : Spec.beBytes (beL l) = l := by
  unfold Spec.beBytes
  rw [go_eq 64 l [] hn hl]; simp

/-! ## Decompose against `decomposeExpect`, all inputs -/

theorem interp_nan_of (d : Decimal) (h : Decimal.IsNaN d = true) :
    𝔳[d] = .nan (Decimal.Signbit d) d.lo := by
  have h1 := h
  rw [Enc.IsNaN_eq] at h1
  simp only [decide_eq_true_eq] at h1
  rw [Enc.interp_eq, if_pos h1, ← Enc.Signbit_eq]

theorem interp_inf_of (d : Decimal) (h : Decimal.IsNaN d = false) (hi : Decimal.isInf d = true) :
    𝔳[d] = .inf (Decimal.Signbit d) := by
  have h1 := h
  have h2 := hi
  rw [Enc.IsNaN_eq] at h1
  rw [Enc.isInf_eq] at h2
  simp only [decide_eq_true_eq, decide_eq_false_iff_not] at h1 h2
  rw [Enc.interp_eq, if_neg h1, if_pos h2, ← Enc.Signbit_eq]

theorem Decompose_agrees (d : Decimal) (buf : Go.Bytes) (hb : buf.size < 2 ^ 63) :
    ∃ form sign bytes e, Gen.Decimal.Decompose d buf = .ok (form, sign, bytes, e) ∧
      (form.toNat, sign, bytes.toList, e.toInt) = Spec.decomposeExpect 𝔳[d] := by
  by_cases hn : Decimal.IsNaN d = true
  · exact ⟨_, _, _, _, Decompose_nan d buf hn, by rw [interp_nan_of d hn]; rfl⟩
  simp only [Bool.not_eq_true] at hn
  by_cases hi : Decimal.isInf d = true
  · exact ⟨_, _, _, _, Decompose_inf d buf hn hi, by rw [interp_inf_of d hn hi]; rfl⟩
  simp only [Bool.not_eq_true] at hi
  have hs : Decimal.isSpecial d = false := by rw [Enc.isSpecial_iff, hn, hi]; rfl
  obtain ⟨bytes, e, hd, hz, hnz⟩ := Decompose_fin d buf hb hs
  refine ⟨_, _, _, _, hd, ?_⟩
  rw [Enc.interp_decompose d hs]
  unfold Spec.decomposeExpect
  by_cases hc : (Decimal.decompose d).1.toNat = 0
  · obtain ⟨h1, h2⟩ := hz hc
    rw [hc, h1, h2]; rfl
  · obtain ⟨h1, h2, h3, h4, h5⟩ := hnz hc
    have hc' : ((Decimal.decompose d).1.toNat == 0) = false := by simpa using hc
    simp only [hc', Bool.false_eq_true, if_false]
    have hbe : Spec.beBytes (Decimal.decompose d).1.toNat = bytes.toList := by
      rw [← h1, beNat_eq]
      apply beBytes_eq
      · intro h t ht
        rw [ht] at h2
        simpa using h2
      · rw [Array.length_toList]; omega
    rw [hbe, h5]; rfl

/-! ## the round trip -/

theorem equal_inf (n : Bool) : Spec.equal (.inf n) (.inf n) = true := by
  simp [Spec.equal, Spec.cmp]

/-- Compose ∘ Decompose on a finite Decimal: succeeds, `Equal`, same sign; any `buf`, any receiver `d0` -/
theorem roundtrip_fin (d d0 : Decimal) (buf : Go.Bytes) (hb : buf.size < 2 ^ 63)
    (hs : Decimal.isSpecial d = false) :
    ∃ sign bytes e d', Gen.Decimal.Decompose d buf = .ok (0, sign, bytes, e) ∧
      Gen.Decimal.Compose d0 0 sign bytes e = .ok (d', Go.Err.nil) ∧
      Spec.equal 𝔳[d'] 𝔳[d] = true ∧ Decimal.Signbit d' = Decimal.Signbit d ∧
      Decimal.isSpecial d' = false := by
  obtain ⟨bytes, e, hd, hz, hnz⟩ := Decompose_fin d buf hb hs
  have hsz : bytes.size < 2 ^ 60 := by
    by_cases hc : (Decimal.decompose d).1.toNat = 0
    · rw [(hz hc).1]; decide
    · have := (hnz hc).2.2.2.1; omega
  obtain ⟨r, hr, hres⟩ := Compose_form0 d0 (Decimal.Signbit d) bytes e hsz
  unfold Res0 at hres
  have fin_of : ∀ d' : Decimal, ∀ c' : Nat, ∀ e' : Int, 𝔳[d'] = .fin (Decimal.Signbit d) c' e' →
      Decimal.Signbit d' = Decimal.Signbit d ∧ Decimal.isSpecial d' = false := by
    intro d' c' e' h
    constructor
    · rw [← Enc.interp_neg, h]; rfl
    · have := Enc.interp_isFin d'
      rw [h] at this
      simpa [Spec.Val.isFin] using this.symm
  by_cases hc : (Decimal.decompose d).1.toNat = 0
  · obtain ⟨h1, h2⟩ := hz hc
    have hn : Spec.beNat bytes = 0 := by rw [h1]; rfl
    rw [if_pos hn] at hres
    obtain ⟨f1, f2⟩ := fin_of (Gen.zero (Decimal.Signbit d)) 0 (-6176) (Enc.interp_zero _)
    refine ⟨_, bytes, e, Gen.zero (Decimal.Signbit d), hd, by rw [hr, hres], ?_, f1, f2⟩
    rw [Enc.interp_zero, Enc.interp_decompose d hs, hc, CanonPf.equal_fin_iff]
    simp [Spec.mag]
  · obtain ⟨h1, h2, h3, h4, h5⟩ := hnz hc
    have hn : Spec.beNat bytes ≠ 0 := by rw [h1]; exact hc
    rw [if_neg hn] at hres
    have hlo := Enc.decompose_exp_nonneg d
    have hhi := Enc.decompose_exp_le d hs
    have hm : Member ((Spec.beNat bytes : ℚ) * (10 : ℚ) ^ e.toInt) := by
      rw [h1, h5]
      exact member_of (Enc.decompose_sig_le d) (by rw [Emin_val]; omega) (by rw [Emax_val]; omega)
    obtain ⟨hnil, c', e', hi, -, -, -, hv⟩ := hres.member hm
    obtain ⟨f1, f2⟩ := fin_of r.1 c' e' hi
    refine ⟨_, bytes, e, r.1, hd, ?_, ?_, f1, f2⟩
    · rw [hr]; congr 1; rw [← hnil]
    · rw [hi, Enc.interp_decompose d hs, CanonPf.equal_fin_iff]
      unfold Spec.mag
      rw [SpecRound.pow10_eq_zpow, SpecRound.pow10_eq_zpow, hv, h1, h5]

theorem roundtrip_inf (d d0 : Decimal) (buf : Go.Bytes) (hn : Decimal.IsNaN d = false)
    (hi : Decimal.isInf d = true) :
    ∃ sign bytes e d', Gen.Decimal.Decompose d buf = .ok (1, sign, bytes, e) ∧
      Gen.Decimal.Compose d0 1 sign bytes e = .ok (d', Go.Err.nil) ∧
      Spec.equal 𝔳[d'] 𝔳[d] = true ∧ 𝔳[d'] = .inf (Decimal.Signbit d) :=
  ⟨_, _, _, _, Decompose_inf d buf hn hi, Compose_form1 d0 _ _ _,
    by rw [Enc.interp_inf, interp_inf_of d hn hi]; exact equal_inf _, Enc.interp_inf _⟩

theorem roundtrip_nan (d d0 : Decimal) (buf : Go.Bytes) (hn : Decimal.IsNaN d = true) :
    ∃ sign bytes e d', Gen.Decimal.Decompose d buf = .ok (2, sign, bytes, e) ∧
      Gen.Decimal.Compose d0 2 sign bytes e = .ok (d', Go.Err.nil) ∧ 𝔳[d'] = .nan false 1 :=
  ⟨_, _, _, _, Decompose_nan d buf hn, Compose_form2 d0 _ _ _, by rw [Enc.interp_nan]; rfl⟩

end CS
