/-
  Order-theoretic consequences on the specification side (used for the corollaries of C04).

  * `pow10_eq_zpow`        — `Spec.pow10 e = 10 ^ e` in ℚ
  * `spec_cmp_fin_rat`     — `Spec.cmp` on finite values is the comparison of `Val.toRat`
  * `spec_cmp_congr`       — `Val.same x x' → Val.same y y' → Spec.cmp x y = Spec.cmp x' y'`
  * `spec_cmp_antisymm`    — `Spec.cmp y x = if Spec.cmp x y = -2 then -2 else -(Spec.cmp x y)`
  * `spec_cmp_lt_trans`    — `Spec.cmp x y = -1 → Spec.cmp y z = -1 → Spec.cmp x z = -1`
-/
import D128.Spec.Arith
import Mathlib.Tactic.Ring
import Mathlib.Tactic.Linarith
import Mathlib.Tactic.NormNum
import Mathlib.Tactic.Positivity
import Mathlib.Tactic.FieldSimp
import Mathlib.Algebra.Order.Field.Basic
import Mathlib.Data.Rat.Cast.Order
set_option autoImplicit false

namespace CmpPf

theorem pow10_eq_zpow (e : Int) : Spec.pow10 e = (10 : ℚ) ^ e := by
  unfold Spec.pow10
  split_ifs with h
  · lift e to ℕ using h
    simp
  · have : e = -((-e).toNat : ℤ) := by omega
    conv_rhs => rw [this]
    rw [zpow_neg, zpow_natCast]
    simp

theorem pow10_pos (e : Int) : 0 < Spec.pow10 e := by
  rw [pow10_eq_zpow]; exact zpow_pos (by norm_num) e

/-- scaling by the smaller exponent -/
theorem mag_scaled (c : Nat) (e k : Int) (hk : k ≤ e) :
    Spec.mag c e = ((c * 10 ^ (e - k).toNat : Nat) : ℚ) * Spec.pow10 k := by
  unfold Spec.mag
  rw [pow10_eq_zpow, pow10_eq_zpow]
  have h1 : e = ((e - k).toNat : ℤ) + k := by omega
  conv_lhs => rw [h1]
  rw [zpow_add₀ (by norm_num), zpow_natCast]
  push_cast
  ring

theorem spec_cmp_fin_rat (n n' : Bool) (c c' : Nat) (e e' : Int) :
    Spec.cmp (.fin n c e) (.fin n' c' e') =
      if (Spec.Val.fin n c e).toRat < (Spec.Val.fin n' c' e').toRat then -1
      else if (Spec.Val.fin n c e).toRat = (Spec.Val.fin n' c' e').toRat then 0 else 1 := by
  unfold Spec.cmp
  simp only [beq_iff_eq]
  generalize hk : (if e ≤ e' then e else e') = k
  have hk1 : k ≤ e := by rw [← hk]; split_ifs <;> omega
  have hk2 : k ≤ e' := by rw [← hk]; split_ifs <;> omega
  have hP := pow10_pos k
  have hX : (Spec.Val.fin n c e).toRat =
      (((if n = true then -((c * 10 ^ (e - k).toNat : ℕ) : ℤ) else ((c * 10 ^ (e - k).toNat : ℕ) : ℤ)) : ℤ) : ℚ)
        * Spec.pow10 k := by
    simp only [Spec.Val.toRat]
    rw [mag_scaled c e k hk1]
    split_ifs <;> push_cast <;> ring
  have hY : (Spec.Val.fin n' c' e').toRat =
      (((if n' = true then -((c' * 10 ^ (e' - k).toNat : ℕ) : ℤ) else ((c' * 10 ^ (e' - k).toNat : ℕ) : ℤ)) : ℤ) : ℚ)
        * Spec.pow10 k := by
    simp only [Spec.Val.toRat]
    rw [mag_scaled c' e' k hk2]
    split_ifs <;> push_cast <;> ring
  rw [hX, hY]
  generalize Spec.pow10 k = P at hP
  generalize (if n = true then -((c * 10 ^ (e - k).toNat : ℕ) : ℤ) else ((c * 10 ^ (e - k).toNat : ℕ) : ℤ)) = x
  generalize (if n' = true then -((c' * 10 ^ (e' - k).toNat : ℕ) : ℤ) else ((c' * 10 ^ (e' - k).toNat : ℕ) : ℤ)) = y
  have hp : ((x : ℚ) * P < (y : ℚ) * P) ↔ x < y := by
    rw [mul_lt_mul_iff_of_pos_right hP]; exact Int.cast_lt
  have hq : ((x : ℚ) * P = (y : ℚ) * P) ↔ x = y := by
    rw [mul_left_inj' hP.ne']; exact Int.cast_inj
  simp only [hp, hq]

/-! ### `Spec.cmp` by constructor (everything except finite–finite) -/

theorem cmp_nan_left (n : Bool) (p : UInt64) (y : Spec.Val) : Spec.cmp (.nan n p) y = -2 := by
  cases y <;> rfl
theorem cmp_nan_right (x : Spec.Val) (n : Bool) (p : UInt64) : Spec.cmp x (.nan n p) = -2 := by
  cases x <;> rfl
theorem cmp_inf_inf (n n' : Bool) :
    Spec.cmp (.inf n) (.inf n') = if n = n' then 0 else if n then -1 else 1 := by
  simp [Spec.cmp]
theorem cmp_inf_fin (n n' : Bool) (c : Nat) (e : Int) :
    Spec.cmp (.inf n) (.fin n' c e) = if n then -1 else 1 := by
  simp [Spec.cmp]
theorem cmp_fin_inf (n n' : Bool) (c : Nat) (e : Int) :
    Spec.cmp (.fin n c e) (.inf n') = if n' then 1 else -1 := by
  simp [Spec.cmp]

theorem toRat_of_same (n n' : Bool) (c c' : Nat) (e e' : Int)
    (h : Spec.Val.same (.fin n c e) (.fin n' c' e') = true) :
    n = n' ∧ (Spec.Val.fin n c e).toRat = (Spec.Val.fin n' c' e').toRat := by
  simp only [Spec.Val.same, Bool.and_eq_true, beq_iff_eq] at h
  obtain ⟨rfl, h2⟩ := h
  exact ⟨rfl, by simp only [Spec.Val.toRat, h2]⟩

theorem same_cases (x x' : Spec.Val) (h : Spec.Val.same x x' = true) :
    (∃ n p n' p', x = .nan n p ∧ x' = .nan n' p') ∨
    (∃ n, x = .inf n ∧ x' = .inf n) ∨
    (∃ n c e c' e', x = .fin n c e ∧ x' = .fin n c' e' ∧
      (Spec.Val.fin n c e).toRat = (Spec.Val.fin n c' e').toRat) := by
  cases x with
  | nan n p =>
    cases x' with
    | nan n' p' => exact Or.inl ⟨n, p, n', p', rfl, rfl⟩
    | inf n' => simp [Spec.Val.same] at h
    | fin n' c' e' => simp [Spec.Val.same] at h
  | inf n =>
    cases x' with
    | nan n' p' => simp [Spec.Val.same] at h
    | inf n' =>
      have : n = n' := by simpa [Spec.Val.same] using h
      subst this
      exact Or.inr (Or.inl ⟨n, rfl, rfl⟩)
    | fin n' c' e' => simp [Spec.Val.same] at h
  | fin n c e =>
    cases x' with
    | nan n' p' => simp [Spec.Val.same] at h
    | inf n' => simp [Spec.Val.same] at h
    | fin n' c' e' =>
      obtain ⟨h1, h2⟩ := toRat_of_same n n' c c' e e' h
      subst h1
      exact Or.inr (Or.inr ⟨n, c, e, c', e', rfl, rfl, h2⟩)

/-- `Spec.cmp` does not distinguish members of the same cohort (encoding independence) -/
theorem spec_cmp_congr (x x' y y' : Spec.Val)
    (hx : Spec.Val.same x x' = true) (hy : Spec.Val.same y y' = true) :
    Spec.cmp x y = Spec.cmp x' y' := by
  rcases same_cases x x' hx with ⟨n, p, n', p', rfl, rfl⟩ | ⟨n, rfl, rfl⟩ | ⟨n, c, e, c', e', rfl, rfl, hr⟩
  · simp only [cmp_nan_left]
  · rcases same_cases y y' hy with ⟨m, q, m', q', rfl, rfl⟩ | ⟨m, rfl, rfl⟩ |
      ⟨m, b, f, b', f', rfl, rfl, hs⟩
    · simp only [cmp_nan_right]
    · rfl
    · simp only [cmp_inf_fin]
  · rcases same_cases y y' hy with ⟨m, q, m', q', rfl, rfl⟩ | ⟨m, rfl, rfl⟩ |
      ⟨m, b, f, b', f', rfl, rfl, hs⟩
    · simp only [cmp_nan_right]
    · simp only [cmp_fin_inf]
    · rw [spec_cmp_fin_rat, spec_cmp_fin_rat]
      simp only [hr, hs]

theorem spec_cmp_antisymm (x y : Spec.Val) :
    Spec.cmp y x = if Spec.cmp x y = -2 then -2 else -(Spec.cmp x y) := by
  cases x with
  | nan n p => simp only [cmp_nan_left, cmp_nan_right, if_true]
  | inf n =>
    cases y with
    | nan n' p' => simp only [cmp_nan_left, cmp_nan_right, if_true]
    | inf n' => cases n <;> cases n' <;> simp [cmp_inf_inf]
    | fin n' c' e' => cases n <;> simp [cmp_inf_fin, cmp_fin_inf]
  | fin n c e =>
    cases y with
    | nan n' p' => simp only [cmp_nan_left, cmp_nan_right, if_true]
    | inf n' => cases n' <;> simp [cmp_inf_fin, cmp_fin_inf]
    | fin n' c' e' =>
      rw [spec_cmp_fin_rat, spec_cmp_fin_rat]
      generalize (Spec.Val.fin n c e).toRat = X
      generalize (Spec.Val.fin n' c' e').toRat = Y
      rcases lt_trichotomy X Y with h | h | h
      · have h1 : ¬ Y < X := not_lt.2 h.le
        have h2 : ¬ Y = X := fun h' => (ne_of_lt h) h'.symm
        simp [h, h1, h2]
      · subst h; simp
      · have h1 : ¬ X < Y := not_lt.2 h.le
        have h2 : ¬ X = Y := fun h' => (ne_of_lt h) h'.symm
        simp [h, h1, h2]

theorem spec_cmp_lt_iff_fin (n n' : Bool) (c c' : Nat) (e e' : Int) :
    Spec.cmp (.fin n c e) (.fin n' c' e') = -1 ↔
      (Spec.Val.fin n c e).toRat < (Spec.Val.fin n' c' e').toRat := by
  rw [spec_cmp_fin_rat]
  split_ifs <;> simp_all

theorem spec_cmp_lt_trans (x y z : Spec.Val)
    (hxy : Spec.cmp x y = -1) (hyz : Spec.cmp y z = -1) : Spec.cmp x z = -1 := by
  cases x with
  | nan n p => simp [cmp_nan_left] at hxy
  | inf n =>
    cases y with
    | nan n' p' => simp [cmp_nan_right] at hxy
    | inf n' =>
      cases z with
      | nan n'' p'' => simp [cmp_nan_right] at hyz
      | inf n'' => cases n <;> cases n' <;> cases n'' <;> simp_all [cmp_inf_inf]
      | fin n'' c'' e'' => cases n <;> cases n' <;> simp_all [cmp_inf_inf, cmp_inf_fin]
    | fin n' c' e' =>
      cases z with
      | nan n'' p'' => simp [cmp_nan_right] at hyz
      | inf n'' => cases n <;> cases n'' <;> simp_all [cmp_inf_inf, cmp_inf_fin, cmp_fin_inf]
      | fin n'' c'' e'' => cases n <;> simp_all [cmp_inf_fin]
  | fin n c e =>
    cases y with
    | nan n' p' => simp [cmp_nan_right] at hxy
    | inf n' =>
      cases z with
      | nan n'' p'' => simp [cmp_nan_right] at hyz
      | inf n'' => cases n' <;> cases n'' <;> simp_all [cmp_inf_inf, cmp_fin_inf]
      | fin n'' c'' e'' => cases n' <;> simp_all [cmp_inf_fin, cmp_fin_inf]
    | fin n' c' e' =>
      cases z with
      | nan n'' p'' => simp [cmp_nan_right] at hyz
      | inf n'' => cases n'' <;> simp_all [cmp_fin_inf]
      | fin n'' c'' e'' =>
        rw [spec_cmp_lt_iff_fin] at *
        exact lt_trans hxy hyz

end CmpPf
