/-
  D128/Proofs/ExpAccExp10Main.lean — property C16: `Gen.Exp10`, the stage after the argument split and the
  whole function.

  Provided (namespace `ExpAcc`):
  * `exp10Tail_ok` : for the split `|x| = n + f·10^fe` (`n ≤ 6211`): `exp10Tail g d f fe n` returns a non-negative
                     Decimal that is no `GeneralViolation` for `e^(±|x|·ln 10)`, and for `f = 0` is the member the
                     mode selects for the exact `10^(±n)`
  * `Exp10_fin`    : `Gen.Exp10` on a finite non-zero argument with the first guard resolved
  * `Exp10_ok`     : every finite non-zero `d`, nearest default mode
-/
import D128.Proofs.ExpAccExp10
set_option autoImplicit false
set_option maxRecDepth 4096
set_option exponentiation.threshold 512

namespace ExpAcc
open Gen D192 Spec SpecRound EnclPf D128.Proofs.WordsWide
local notation "𝔳[" d "]" => Spec.interp (Gen.Decimal.lo d) (Gen.Decimal.hi d)

theorem i16_add_toInt (a b : Int16) (h0 : -32768 ≤ a.toInt + b.toInt) (h1 : a.toInt + b.toInt ≤ 32767) :
    (a + b).toInt = a.toInt + b.toInt := Int16.toInt_add_of a b h0 (by omega)

/-- **the stage of `Exp10` after the split** -/
theorem exp10Tail_ok (g : Globals) (m : Spec.Mode) (hm : Spec.Mode.ofNat? g.DefaultRoundingMode.toNat = some m)
    (hn : isNearest m = true) (d : Decimal) (f : U128) (fe : Int16) (n : UInt64)
    (hf1 : (f.toNat : ℚ) * (10 : ℚ) ^ fe.toInt < 1) (hfe0 : -6176 ≤ fe.toInt) (hfe1 : fe.toInt ≤ 0)
    (hn1 : n.toNat ≤ 6211) (hpos : 0 < (n.toNat : ℚ) + (f.toNat : ℚ) * (10 : ℚ) ^ fe.toInt) :
    ∃ r, exp10Tail g d f fe n = .ok r ∧ (𝔳[r]).neg = false ∧
      ¬ GeneralViolation (Real.exp (if Decimal.Signbit d
          then -((((n.toNat : ℚ) + (f.toNat : ℚ) * (10 : ℚ) ^ fe.toInt : ℚ) : ℝ) * Real.log 10)
          else (((n.toNat : ℚ) + (f.toNat : ℚ) * (10 : ℚ) ^ fe.toInt : ℚ) : ℝ) * Real.log 10)) 𝔳[r] ∧
      (f.toNat = 0 →
        (Spec.flushOrRoundS m false 1 (if Decimal.Signbit d then -(n.toNat : Int) else (n.toNat : Int))).same 𝔳[r]
          = true) := by
  have hE := expIntOf_toInt n (by omega)
  have hl10 : (0 : ℝ) < Real.log 10 := by have := log10_ge; linarith
  set f' : ℚ := (f.toNat : ℚ) * (10 : ℚ) ^ fe.toInt with hf'
  have hposR : (0 : ℝ) < (((n.toNat : ℚ) + f' : ℚ) : ℝ) * Real.log 10 :=
    mul_pos (by exact_mod_cast hpos) hl10
  rw [exp10Tail_clean]
  by_cases hf0 : f.toNat = 0
  · -- integer argument
    have hc : ((f.w0 ||| f.w1) != (0 : UInt64)) = false := by rw [RK.U128_or_ne_zero]; simp [hf0]
    rw [hc]
    simp only [Bool.false_eq_true, if_false]
    have hf'0 : f' = 0 := by rw [hf', hf0]; simp
    have hn0 : 1 ≤ n.toNat := by
      rw [hf'0, add_zero] at hpos
      have : (0 : ℚ) < (n.toNat : ℚ) := hpos
      exact_mod_cast this
    -- the accuracy part from `exp10Fin_ok` (the working value is exact)
    have hval : ((val (⟨⟨1, 0, 0⟩, expIntOf n⟩ : decomposed192) : ℚ) : ℝ)
        = Real.exp ((((n.toNat : ℚ) + f' : ℚ) : ℝ) * Real.log 10) := by
      rw [val_one_exp, hE, hf'0, add_zero]
      push_cast
      rw [exp_nat_log 10 (by norm_num), zpow_natCast]
    obtain ⟨r, hr, hneg, hgv⟩ := exp10Fin_ok g m hm hn (Decimal.Signbit d) ⟨⟨1, 0, 0⟩, expIntOf n⟩ 0 _ hposR
      (by simp [U192.toNat]) (by simp only; omega) (by simp only; omega) (Or.inl rfl)
      (by rw [hval]; have := Real.exp_pos ((((n.toNat : ℚ) + f' : ℚ) : ℝ) * Real.log 10); nlinarith)
      (by rw [hval]; have := Real.exp_pos ((((n.toNat : ℚ) + f' : ℚ) : ℝ) * Real.log 10); nlinarith)
    obtain ⟨r', hr', hsame⟩ := exp10Fin_exact g m hm hn (Decimal.Signbit d) (expIntOf n) (by omega) (by omega)
    have hrr : r' = r := by
      have := hr'.symm.trans hr; exact Except.ok.inj this
    subst hrr
    refine ⟨r', hr, hneg, hgv, fun _ => ?_⟩
    rw [hE] at hsame; exact hsame
  · -- fractional part
    have hc : ((f.w0 ||| f.w1) != (0 : UInt64)) = true := by rw [RK.U128_or_ne_zero]; simp [hf0]
    rw [hc]
    simp only [if_true]
    obtain ⟨mm, tm, z, hmul, hz, hflag, hze0, hze1, hzv1, hzv2, hzsz, hzone⟩ :=
      frac_pow Gen.ln10 (Real.log 10) ln10_const f fe hf0 hf1 hfe0 hfe1
    rw [hmul]
    simp only [RK.ok_bind]
    rw [U192_log10_eq, RK.ok_bind, hz, RK.ok_bind]
    have hd1 : ¬ decide (z.1.exp > (6169 : Int16)) = true := by
      intro h
      have := (i16_gt_lit _ _).1 h
      have h6 : (6169 : Int16).toInt = 6169 := by decide
      omega
    rw [if_neg hd1, expIntOf_ne n (by omega)]
    -- the scaled working value
    set T : ℝ := Real.exp ((((n.toNat : ℚ) + f' : ℚ) : ℝ) * Real.log 10) with hT
    have hTsplit : T = (10 : ℝ) ^ n.toNat * Real.exp ((f' : ℝ) * Real.log 10) := by
      rw [hT]; push_cast; rw [add_mul, Real.exp_add, exp_nat_log 10 (by norm_num)]
    have hp10 : (0 : ℝ) < (10 : ℝ) ^ n.toNat := by positivity
    have key : ∀ res : decomposed192, res.sig = z.1.sig → res.exp.toInt = z.1.exp.toInt + n.toNat →
        ∃ r, exp10Fin g (Decimal.Signbit d) res z.2 = .ok r ∧ (𝔳[r]).neg = false ∧
          ¬ GeneralViolation (Real.exp (if Decimal.Signbit d then -((((n.toNat : ℚ) + f' : ℚ) : ℝ) * Real.log 10)
            else (((n.toNat : ℚ) + f' : ℚ) : ℝ) * Real.log 10)) 𝔳[r] := by
      intro res hsig hexp
      have hvres : ((val res : ℚ) : ℝ) = ((val z.1 : ℚ) : ℝ) * (10 : ℝ) ^ n.toNat := by
        unfold val
        rw [hsig, hexp, zpow_add₀ (by norm_num : (10 : ℚ) ≠ 0), zpow_natCast]
        push_cast; ring
      have hzpos : (0 : ℝ) < ((val z.1 : ℚ) : ℝ) := by
        have := Real.exp_pos ((f' : ℝ) * Real.log 10)
        nlinarith
      have hs1 : 1 ≤ res.sig.toNat := by
        rw [hsig]; exact sig_pos_of_val_pos z.1 (by exact_mod_cast hzpos)
      refine exp10Fin_ok g m hm hn (Decimal.Signbit d) res z.2 _ hposR hs1 (by omega) (by omega) hflag ?_ ?_
      · rw [hvres, ← hT, hTsplit]
        have h1 : Real.exp ((f' : ℝ) * Real.log 10) * (1 - 2 / 10 ^ 38) * (10 : ℝ) ^ n.toNat
            ≤ ((val z.1 : ℚ) : ℝ) * (10 : ℝ) ^ n.toNat := mul_le_mul_of_nonneg_right hzv1 hp10.le
        have hpp : 0 < (10 : ℝ) ^ n.toNat * Real.exp ((f' : ℝ) * Real.log 10) :=
          mul_pos hp10 (Real.exp_pos _)
        nlinarith
      · rw [hvres, ← hT, hTsplit]
        have h1 : ((val z.1 : ℚ) : ℝ) * (10 : ℝ) ^ n.toNat
            ≤ Real.exp ((f' : ℝ) * Real.log 10) * (1 + 1 / 10 ^ 50) * (10 : ℝ) ^ n.toNat :=
          mul_le_mul_of_nonneg_right hzv2 hp10.le
        have h2 : Real.exp ((f' : ℝ) * Real.log 10) * (1 + 1 / 10 ^ 50) * (10 : ℝ) ^ n.toNat
            ≤ (10 : ℝ) ^ n.toNat * Real.exp ((f' : ℝ) * Real.log 10) * (1 + 1 / 10 ^ 37) := by
          have := Real.exp_pos ((f' : ℝ) * Real.log 10)
          have hpp : 0 < (10 : ℝ) ^ n.toNat * Real.exp ((f' : ℝ) * Real.log 10) := by positivity
          nlinarith
        linarith
    by_cases hn0 : n.toNat ≠ 0
    · rw [if_pos (decide_eq_true hn0)]
      obtain ⟨r, hr, h1, h2⟩ := key { z.1 with exp := z.1.exp + expIntOf n } rfl
        (by show (z.1.exp + expIntOf n).toInt = _
            rw [i16_add_toInt _ _ (by omega) (by omega), hE])
      exact ⟨r, hr, h1, h2, fun h => absurd h hf0⟩
    · rw [if_neg (by simpa using hn0)]
      have hn0' : n.toNat = 0 := by omega
      obtain ⟨r, hr, h1, h2⟩ := key z.1 rfl (by rw [hn0']; simp)
      exact ⟨r, hr, h1, h2, fun h => absurd h hf0⟩

/-! ## the whole function -/

/-- `Gen.Exp10` on a finite non-zero argument, with the first guard resolved -/
theorem Exp10_fin (g : Globals) (d : Decimal) (h1 : Decimal.isSpecial d = false) (h2 : Decimal.IsZero d = false) :
    Gen.Exp10 g d =
      if ((d.decompose.2.toInt - 6176) > 4 - (Nat.log 10 d.decompose.1.toNat : Int)) then
        .ok (outOfRange (Decimal.Signbit d))
      else exp10Split d d.decompose.1 (d.decompose.2 - 6176) (Int64.ofNat (Nat.log 10 d.decompose.1.toNat))
        (fun f fe n => exp10Tail g d f fe n) := by
  rw [Exp10_eq]
  unfold exp10Staged
  simp only [h1, h2, if_false, Bool.false_eq_true]
  rw [U128_log10_eq]
  have hk := Nat.log10_lt_39_of_lt d.decompose.1.toNat d.decompose.1.toNat_lt
  have hl : (Int64.ofNat (Nat.log 10 d.decompose.1.toNat)).toInt = Nat.log 10 d.decompose.1.toNat :=
    Int64.toInt_ofNat_small _ (by omega)
  have he := argOf_exp d h1
  have hc : (Go.conv (d.decompose.2 - 6176) : Int64).toInt = d.decompose.2.toInt - 6176 := by
    rw [conv_i16_i64]; exact he
  have h5 : ((4 : Int64) - Int64.ofNat (Nat.log 10 d.decompose.1.toNat)).toInt
      = 4 - (Nat.log 10 d.decompose.1.toNat : Int) := by
    rw [Int64.toInt_sub, hl]
    have : (4 : Int64).toInt = 4 := by decide
    rw [this]
    apply Int.bmod_eq_of_le <;> omega
  have hg : (decide ((Go.conv (d.decompose.2 - 6176) : Int64) > (4 : Int64) - Int64.ofNat (Nat.log 10 d.decompose.1.toNat)) = true)
      ↔ (d.decompose.2.toInt - 6176) > 4 - (Nat.log 10 d.decompose.1.toNat : Int) := by
    rw [decide_eq_true_eq, gt_iff_lt, Int64.lt_iff_toInt_lt, h5, hc]
  show (Except.ok _ >>= _) = _
  rw [RK.ok_bind]
  by_cases hgd : (d.decompose.2.toInt - 6176) > 4 - (Nat.log 10 d.decompose.1.toNat : Int)
  · rw [if_pos hgd]
    simp only [hg.2 hgd, if_true]
    unfold outOfRange
    cases Decimal.Signbit d <;> rfl
  · rw [if_neg hgd]
    have : ¬ (decide ((Go.conv (d.decompose.2 - 6176) : Int64) > (4 : Int64) - Int64.ofNat (Nat.log 10 d.decompose.1.toNat)) = true) :=
      fun h => hgd (hg.1 h)
    simp only [this]
    rw [if_neg (by decide)]

theorem same_zero (e1 e2 : Int) : (Val.fin false 0 e1).same (.fin false 0 e2) = true := by
  simp [Val.same, Spec.mag]

/-- the out-of-range value against the exact specification of a power of ten with a huge integer exponent -/
theorem outOfRange_exact {m : Mode} (hn : isNearest m = true) (sb : Bool) (k : Int)
    (hk : if sb then k ≤ -6200 else 6200 ≤ k) :
    (Spec.flushOrRoundS m false 1 k).same 𝔳[outOfRange sb] = true := by
  rw [flushOrRoundS_eq m false 1 (by norm_num) k, one_mul]
  cases sb
  · simp only [Bool.false_eq_true, if_false] at hk
    simp only [outOfRange, Bool.false_eq_true, if_false]
    rw [Enc.interp_inf, round_big_inf hn _ (by
      rw [← zpow_natCast]; exact zpow_le_zpow_right₀ (by norm_num) (by push_cast; omega))]
    rfl
  · simp only [if_true] at hk
    simp only [outOfRange, if_true]
    rw [Enc.interp_zero]
    obtain ⟨e', he'⟩ := round_small_zero hn ((10 : ℚ) ^ k) (zpow_pos (by norm_num) _) (by
      have h1 : (10 : ℚ) ^ k ≤ (10 : ℚ) ^ (Spec.Emin - 1) :=
        zpow_le_zpow_right₀ (by norm_num) (by unfold Spec.Emin; omega)
      have h2 : (10 : ℚ) ^ (Spec.Emin - 1) < (10 : ℚ) ^ Spec.Emin / 2 := by
        rw [zpow_sub₀ (by norm_num : (10 : ℚ) ≠ 0)]
        have hp : (0 : ℚ) < (10 : ℚ) ^ Spec.Emin := zpow_pos (by norm_num) _
        rw [zpow_one]; linarith
      linarith)
    rw [he']
    exact same_zero _ _

/-- **`Gen.Exp10` on every finite non-zero argument** `d = ±c·10^e` (nearest default mode): no panic; the
result is non-negative, is no `GeneralViolation` for `10^x` (within one unit in the last place, `+Inf`/`+0`
only beyond the range), and for an integer `x = k` it is the member the mode selects for the exact `10^k`. -/
theorem Exp10_ok (g : Globals) (m : Spec.Mode)
    (hm : Spec.Mode.ofNat? g.DefaultRoundingMode.toNat = some m) (hn : isNearest m = true)
    (d : Decimal) (h1 : Decimal.isSpecial d = false) (h2 : Decimal.IsZero d = false) :
    ∃ r, Gen.Exp10 g d = .ok r ∧ (𝔳[r]).neg = false ∧
      ¬ GeneralViolation
        (Real.exp ((if Decimal.Signbit d then -absArg d else absArg d) * Real.log 10)) 𝔳[r] ∧
      ∀ k : Int, (if Decimal.Signbit d then -(val (argOf d)) else val (argOf d)) = (k : ℚ) →
        (Spec.flushOrRoundS m false 1 k).same 𝔳[r] = true := by
  obtain ⟨hc1, hcC, he0, he1⟩ := fin_facts d h1 h2
  have hA := absArg_pos d h1 h2
  have hl10 := log10_ge
  have hsign : (if Decimal.Signbit d then -absArg d else absArg d) * Real.log 10
      = if Decimal.Signbit d then -(absArg d * Real.log 10) else absArg d * Real.log 10 := by
    cases Decimal.Signbit d <;> simp
  rw [hsign, Exp10_fin g d h1 h2]
  -- a huge argument: the exponent of the result is at least 6212
  have hout : (6212 : ℝ) ≤ absArg d →
      ((𝔳[outOfRange (Decimal.Signbit d)]).neg = false ∧
      ¬ GeneralViolation (Real.exp (if Decimal.Signbit d then -(absArg d * Real.log 10) else absArg d * Real.log 10))
        𝔳[outOfRange (Decimal.Signbit d)]) ∧
      ∀ k : Int, (if Decimal.Signbit d then -(val (argOf d)) else val (argOf d)) = (k : ℚ) →
        (Spec.flushOrRoundS m false 1 k).same 𝔳[outOfRange (Decimal.Signbit d)] = true := by
    intro hbig
    constructor
    · apply outOfRange_ok
      have h1 : Real.exp ((6212 : ℕ) * Real.log 10) ≤ Real.exp (absArg d * Real.log 10) := by
        apply Real.exp_le_exp.2
        push_cast
        exact mul_le_mul_of_nonneg_right hbig (by linarith)
      rw [exp_nat_log 10 (by norm_num)] at h1
      exact le_trans (pow_le_pow_right₀ (by norm_num) (by norm_num)) h1
    · intro k hk
      apply outOfRange_exact hn
      have hq : (6212 : ℚ) ≤ val (argOf d) := by
        have : ((6212 : ℚ) : ℝ) ≤ ((val (argOf d) : ℚ) : ℝ) := by push_cast; exact hbig
        exact_mod_cast this
      cases hsb : Decimal.Signbit d
      · rw [hsb] at hk
        simp only [Bool.false_eq_true, if_false] at hk ⊢
        have : (6212 : ℚ) ≤ (k : ℚ) := by rw [← hk]; exact hq
        have : (6212 : Int) ≤ k := by exact_mod_cast this
        omega
      · rw [hsb] at hk
        simp only [if_true] at hk ⊢
        have : (k : ℚ) ≤ -6212 := by rw [← hk]; linarith
        have : k ≤ (-6212 : Int) := by exact_mod_cast this
        omega
  by_cases hg : (d.decompose.2.toInt - 6176) > 4 - (Nat.log 10 d.decompose.1.toNat : Int)
  · rw [if_pos hg]
    have hge := arg_ge_of_guard d h1 h2 4 (by exact_mod_cast hg)
    have hge' : (6212 : ℝ) ≤ absArg d := by
      unfold absArg
      have : (((10 : ℚ) ^ (4 + 1) : ℚ) : ℝ) ≤ ((val (argOf d) : ℚ) : ℝ) := by exact_mod_cast hge
      push_cast at this; linarith
    obtain ⟨⟨ha, hb⟩, hc⟩ := hout hge'
    exact ⟨_, rfl, ha, hb, hc⟩
  · rw [if_neg hg]
    have hk := Nat.log10_lt_39_of_lt d.decompose.1.toNat d.decompose.1.toNat_lt
    have hl : (Int64.ofNat (Nat.log 10 d.decompose.1.toNat)).toInt = Nat.log 10 d.decompose.1.toNat :=
      Int64.toInt_ofNat_small _ (by omega)
    have hde := argOf_exp d h1
    have hde' : (d.decompose.2 - 6176).toInt = d.decompose.2.toInt - 6176 := hde
    obtain ⟨f, fe, n, ⟨hsum, hf1, -, -, hfe0, hfe1, -, -⟩, hbig, hsmall⟩ :=
      exp10Split_eq d d.decompose.1 (d.decompose.2 - 6176) (Int64.ofNat (Nat.log 10 d.decompose.1.toNat))
        (fun f fe n => exp10Tail g d f fe n) hc1 hcC (by rw [hde']; omega) (by rw [hde']; omega) hl
        (by rw [hde', hl]; omega)
    rw [hde'] at hsum
    have hAeq : (n.toNat : ℚ) + (f.toNat : ℚ) * (10 : ℚ) ^ fe.toInt = val (argOf d) := by
      rw [hsum, val_argOf d h1]
    have hf'0 : (0 : ℚ) ≤ (f.toNat : ℚ) * (10 : ℚ) ^ fe.toInt :=
      mul_nonneg (Nat.cast_nonneg _) (zpow_pos (by norm_num) _).le
    by_cases hn6 : 6211 < n.toNat
    · rw [hbig hn6]
      have hge' : (6212 : ℝ) ≤ absArg d := by
        unfold absArg
        have h1 : (6212 : ℚ) ≤ (n.toNat : ℚ) := by exact_mod_cast hn6
        have hq : (6212 : ℚ) ≤ val (argOf d) := by rw [← hAeq]; linarith
        have : ((6212 : ℚ) : ℝ) ≤ ((val (argOf d) : ℚ) : ℝ) := Rat.cast_le.2 hq
        push_cast at this; exact this
      obtain ⟨⟨ha, hb⟩, hc⟩ := hout hge'
      exact ⟨_, rfl, ha, hb, hc⟩
    · rw [hsmall (by omega)]
      have hpos : 0 < (n.toNat : ℚ) + (f.toNat : ℚ) * (10 : ℚ) ^ fe.toInt := by
        rw [hAeq]
        have : (0 : ℝ) < ((val (argOf d) : ℚ) : ℝ) := hA
        exact_mod_cast this
      obtain ⟨r, hr, hneg, hgv, hex⟩ := exp10Tail_ok g m hm hn d f fe n hf1 hfe0 hfe1 (by omega) hpos
      rw [hAeq] at hgv
      refine ⟨r, hr, hneg, hgv, fun k hk => ?_⟩
      -- an integer argument has no fractional part
      have hfz : (f.toNat : ℚ) * (10 : ℚ) ^ fe.toInt = 0 := by
        have hab : val (argOf d) = ((if Decimal.Signbit d then -k else k : Int) : ℚ) := by
          cases hsb : Decimal.Signbit d
          · rw [hsb] at hk; simp only [Bool.false_eq_true, if_false] at hk ⊢; exact hk
          · rw [hsb] at hk; simp only [if_true] at hk ⊢; push_cast; linarith
        have hfi : (f.toNat : ℚ) * (10 : ℚ) ^ fe.toInt
            = (((if Decimal.Signbit d then -k else k) - (n.toNat : Int) : Int) : ℚ) := by
          rw [Int.cast_sub, ← hab, ← hAeq]; push_cast; ring
        rw [hfi] at hf1 hf'0 ⊢
        have h1 : ((if Decimal.Signbit d then -k else k) - (n.toNat : Int)) < 1 := by exact_mod_cast hf1
        have h0 : 0 ≤ ((if Decimal.Signbit d then -k else k) - (n.toNat : Int)) := by exact_mod_cast hf'0
        have : ((if Decimal.Signbit d then -k else k) - (n.toNat : Int)) = 0 := by omega
        rw [this]; simp
      have hf0 : f.toNat = 0 := by
        rcases mul_eq_zero.1 hfz with h | h
        · exact_mod_cast h
        · exact absurd h (zpow_ne_zero _ (by norm_num))
      have hkn : k = if Decimal.Signbit d then -(n.toNat : Int) else (n.toNat : Int) := by
        rw [hfz, add_zero] at hAeq
        cases hsb : Decimal.Signbit d
        · rw [hsb] at hk; simp only [Bool.false_eq_true, if_false] at hk ⊢
          have : (k : ℚ) = (n.toNat : ℚ) := by rw [← hk, ← hAeq]
          exact_mod_cast this
        · rw [hsb] at hk; simp only [if_true] at hk ⊢
          have : (k : ℚ) = -(n.toNat : ℚ) := by rw [← hk, ← hAeq]
          exact_mod_cast this
      rw [hkn]
      exact hex hf0

end ExpAcc
